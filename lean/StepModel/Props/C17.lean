import StepModel.GenFiles
import StepModel.GenCxxPassLemmas
import StepModel.GenCxxPassLink
import StepModel.GenCxxPassDeferral
import StepModel.GenCollectLemmas
import StepModel.GenCxxMarksLemmas
import StepModel.GenSelectOrderLemmas
/-!
# C17 — the build-time scanner predicts exactly the files the C++ generator writes

All statements are about `GenFiles.Scanner` (schemaScanner.cc) and `GenFiles.Cxx` (exp2cxx) whose case lists, names and
formats are regenerated from the source (`Generated.Scanner`).  No bound on the number of schemas or declarations.
-/
namespace StepModel.Props.C17
open StepModel.GenFiles StepModel.Generated.Scanner

/-! ## which types get files: finite table, per-declaration lemma, lifted to lists -/

/-- The two independently coded rules agree on every (body kind, has-head) a TYPE declaration can have. -/
theorem C17_type_table :
    ∀ k ∈ definedTypeKinds, ∀ h : Bool, Scanner.listsKind k h = Cxx.createsKind k h := by decide

/-- … and they do *not* agree outside that domain: for instance a TYPE whose body were an entity (rejected today
    by libexpress, PE061) would be listed by the scanner and never written by exp2cxx.  This is the drift the
    property talks about; the hypothesis of the theorems below is needed. -/
theorem C17_table_outside_domain_witness :
    ∃ k h, k ∉ definedTypeKinds ∧ Scanner.listsKind k h = true ∧ Cxx.createsKind k h = false :=
  ⟨.entity_, false, by decide, by decide, by decide⟩

theorem C17_type_decl (t : TypeDecl) (h : t.kind ∈ definedTypeKinds) :
    Scanner.listsType t = Cxx.typeCreates t :=
  C17_type_table t.kind h t.hasHead

/-- per schema: the scanner lists the per-type files of exactly the types exp2cxx calls `TYPEPrint` for, in the
    same order -/
theorem C17_type_lists (s : Schema) (wf : s.wf) :
    s.types.filter Scanner.listsType = s.types.filter Cxx.typeCreates := by
  apply List.filter_congr
  intro t ht
  exact C17_type_decl t (wf t ht)

/-! ## string facts about the fixed per-schema names -/

theorem snprintf_id (n : Nat) (x : String) (h : x.length < n) : Cxx.snprintfN n x = x := by
  unfold Cxx.snprintfN
  rw [List.take_of_length_le (by rw [String.length_toList]; omega), String.ofList_toList]

theorem lib_name (x : String) :
    String.ofList ((x ++ ".h").toList.take ((x ++ ".h").length - 1)) ++ "cc" = x ++ ".cc" := by
  have h1 : (x ++ ".h").toList = (x.toList ++ ['.']) ++ ['h'] := by
    rw [String.toList_append]; simp
  have e2 : (".h" : String).length = 2 := by decide
  have h2 : (x ++ ".h").length - 1 = (x.toList ++ ['.']).length := by
    rw [String.length_append, e2, List.length_append, String.length_toList]; simp
  rw [h1, h2, List.take_left' rfl, String.ofList_append, String.ofList_toList, String.append_assoc]
  rfl

theorem mem_pairs {α : Type} (l : List α) (f g : α → String) (x : String) :
    (x ∈ l.map f ∨ x ∈ l.map g) ↔ x ∈ l.flatMap (fun a => [f a, g a]) := by
  simp only [List.mem_map, List.mem_flatMap, List.mem_cons, List.not_mem_nil, or_false]
  constructor
  · rintro (⟨a, ha, rfl⟩ | ⟨a, ha, rfl⟩)
    · exact ⟨a, ha, Or.inl rfl⟩
    · exact ⟨a, ha, Or.inr rfl⟩
  · rintro ⟨a, ha, (rfl | rfl)⟩
    · exact Or.inl ⟨a, ha, rfl⟩
    · exact Or.inr ⟨a, ha, rfl⟩

/-- the longest per-schema file name fits `MAX_LEN - 1` characters (`SCHEMAprint` builds the names with
    `snprintf(…, MAX_LEN, …)` into `char[MAX_LEN+1]` buffers) -/
def Schema.namesFit (s : Schema) : Prop :=
  (schemaFilePrefix ++ strToUpper s.name ++ ".init.cc").length < maxLen

theorem strToUpper_length (n : String) : (strToUpper n).length = n.length := by
  unfold strToUpper
  rw [String.length_ofList, List.length_map, String.length_toList]

/-- exp2cxx's identifier gate (`print_file` refuses names longer than MAX_IDENT_LEN) makes the truncating
    `snprintf`s of `SCHEMAprint` unreachable: every accepted schema name fits. -/
theorem C17_gate_prevents_truncation (s : Schema) (gate : s.name.length ≤ maxIdentLen) : Schema.namesFit s := by
  unfold Schema.namesFit
  have e8 : (".init.cc" : String).length = 8 := by decide
  have e4 : schemaFilePrefix.length = 4 := by decide
  have hm : maxIdentLen = 200 := by decide
  have hl : maxLen = 240 := by decide
  rw [String.length_append, String.length_append, strToUpper_length, e8, e4]
  omega

/-- `SCHEMAprint(schema, …, 0)` for an accepted schema name: the names it creates -/
theorem pass0 (s : Schema) (gate : s.name.length ≤ maxIdentLen) :
    Cxx.schemaPass s 0 = some
      { inc := schemaFilePrefix ++ strToUpper s.name ++ ".h",
        lib := schemaFilePrefix ++ strToUpper s.name ++ ".cc",
        names := schemaFilePrefix ++ strToUpper s.name ++ "Names.h",
        init := some (schemaFilePrefix ++ strToUpper s.name ++ ".init.cc"),
        unityEntImpl := schemaFilePrefix ++ strToUpper s.name ++ "_unity_" ++ "entities.cc",
        unityEntHdr := Cxx.ccToH (schemaFilePrefix ++ strToUpper s.name ++ "_unity_" ++ "entities.cc"),
        unityTypeImpl := schemaFilePrefix ++ strToUpper s.name ++ "_unity_" ++ "types.cc",
        unityTypeHdr := Cxx.ccToH (schemaFilePrefix ++ strToUpper s.name ++ "_unity_" ++ "types.cc") } := by
  have fit := C17_gate_prevents_truncation s gate
  unfold Schema.namesFit at fit
  have e8 : (".init.cc" : String).length = 8 := by decide
  have e7 : ("Names.h" : String).length = 7 := by decide
  have e2 : (".h" : String).length = 2 := by decide
  rw [String.length_append, e8] at fit
  have f0 : (schemaFilePrefix ++ strToUpper s.name).length < maxLen := by omega
  have f1 : (schemaFilePrefix ++ strToUpper s.name ++ ".h").length < maxLen := by
    rw [String.length_append, e2]; omega
  have f2 : (schemaFilePrefix ++ strToUpper s.name ++ "Names.h").length < maxLen := by
    rw [String.length_append, e7]; omega
  have f3 : (schemaFilePrefix ++ strToUpper s.name ++ ".init.cc").length < maxLen := by
    rw [String.length_append, e8]; omega
  unfold Cxx.schemaPass
  have hno : ¬ s.name.length > maxIdentLen := by omega
  simp only [hno, if_false, beq_self_eq_true, if_true, Nat.zero_le]
  rw [snprintf_id _ _ f0, snprintf_id _ _ f0, snprintf_id _ _ f1, snprintf_id _ _ f2, snprintf_id _ _ f3, lib_name]

/-! ## the headline: same file set, for every schema -/

/-- For every schema with well-formed type bodies whose name passes exp2cxx's identifier gate, printed by exp2cxx in one pass
    (suffix 0): a file name is mentioned in the CMakeLists.txt the scanner writes **iff** it is one of the files
    exp2cxx creates that a build has to know about (everything it creates except the two unity headers, which are
    only `#include`d by the listed unity sources). -/
theorem C17_same_files (path : String) (s : Schema) (wf : s.wf) (gate : s.name.length ≤ maxIdentLen) :
    ∃ p, Cxx.schemaPass s 0 = some p ∧
      ∀ x, x ∈ (Scanner.cmake path s).listed ↔
           x ∈ fixedFiles ++ p.listedPart ++ Cxx.typeFiles s ++ Cxx.entityFiles s := by
  refine ⟨_, pass0 s gate, ?_⟩
  intro x
  have ht := C17_type_lists s wf
  have hE := mem_pairs s.entities entityHeader entityImpl x
  have hT := mem_pairs (s.types.filter Cxx.typeCreates) typeHeader typeImpl x
  have u1 : "Sdai" ++ strToUpper s.name ++ "_unity_" ++ "entities.cc" = "Sdai" ++ strToUpper s.name ++ "_unity_entities.cc" := by
    rw [String.append_assoc (s₂ := "_unity_")]; rfl
  have u2 : "Sdai" ++ strToUpper s.name ++ "_unity_" ++ "types.cc" = "Sdai" ++ strToUpper s.name ++ "_unity_types.cc" := by
    rw [String.append_assoc (s₂ := "_unity_")]; rfl
  simp only [Scanner.CMake.listed, Scanner.cmake, Cxx.PassFiles.listedPart, Cxx.typeFiles, Cxx.entityFiles, ht,
    miscHdrs, miscImpls, unityEntityImpl, unityTypeImpl, fixedFiles, schemaFilePrefix, Option.toList, List.mem_append,
    List.mem_cons, List.not_mem_nil, or_false, ← hE, ← hT, u1, u2]
  grind

/-! ## every schema of a file -/

theorem allSome_map {α β : Type} (l : List α) (g : α → Option β) (h : α → β) (e : ∀ a ∈ l, g a = some (h a)) :
    Cxx.allSome (l.map g) = some (l.map h) := by
  induction l with
  | nil => rfl
  | cons a r ih =>
    have ea := e a List.mem_cons_self
    have er := ih (fun x hx => e x (List.mem_cons_of_mem _ hx))
    simp [List.map_cons, ea, Cxx.allSome, er]

/-- the files of one schema printed in one untruncated pass (names as in `pass0`) -/
def files0 (s : Schema) : List String :=
  [schemaFilePrefix ++ strToUpper s.name ++ ".h", schemaFilePrefix ++ strToUpper s.name ++ ".cc",
   schemaFilePrefix ++ strToUpper s.name ++ "Names.h", schemaFilePrefix ++ strToUpper s.name ++ ".init.cc",
   schemaFilePrefix ++ strToUpper s.name ++ "_unity_" ++ "entities.cc",
   schemaFilePrefix ++ strToUpper s.name ++ "_unity_" ++ "types.cc"] ++ Cxx.typeFiles s ++ Cxx.entityFiles s ++
  [Cxx.ccToH (schemaFilePrefix ++ strToUpper s.name ++ "_unity_" ++ "entities.cc"),
   Cxx.ccToH (schemaFilePrefix ++ strToUpper s.name ++ "_unity_" ++ "types.cc")]

theorem schemaAll0 (s : Schema) (gate : s.name.length ≤ maxIdentLen) : Cxx.schemaAll s [0] = some (files0 s) := by
  simp [Cxx.schemaAll, Cxx.allSome, pass0 s gate, files0, Cxx.PassFiles.listedPart, Cxx.PassFiles.includedOnly]

/-- File level, any number of schemas, each printed in one pass: everything any CMakeLists.txt lists is created,
    and everything created is listed by the CMakeLists.txt of its schema or is one of that schema's two unity
    headers (the `.h` twins of the listed unity sources). -/
theorem C17_file (f : SchemaFile) (wf : ∀ s ∈ f.schemas, s.wf) (acc : Cxx.accepts f = true)
    (ne : f.schemas ≠ []) :
    ∃ l, Cxx.created f (fun _ => [0]) = some l ∧
      (∀ s ∈ f.schemas, ∀ x ∈ (Scanner.cmake f.path s).listed, x ∈ l) ∧
      (∀ x ∈ l, ∃ s ∈ f.schemas, x ∈ (Scanner.cmake f.path s).listed ∨
          x = Cxx.ccToH (Scanner.cmake f.path s).unityEntityImpl ∨ x = Cxx.ccToH (Scanner.cmake f.path s).unityTypeImpl) := by
  have fit : ∀ s ∈ f.schemas, s.name.length ≤ maxIdentLen := by
    intro s hs
    have := List.all_eq_true.mp acc s hs
    simp only [Bool.and_eq_true, decide_eq_true_eq] at this
    exact this.1
  have hall := allSome_map f.schemas (fun s => Cxx.schemaAll s [0]) files0 (fun s hs => schemaAll0 s (fit s hs))
  refine ⟨fixedFiles ++ (f.schemas.map files0).flatten, by simp [Cxx.created, hall, acc], ?_, ?_⟩
  · intro s hs x hx
    obtain ⟨p, hp, hsame⟩ := C17_same_files f.path s (wf s hs) (fit s hs)
    rw [pass0 s (fit s hs)] at hp
    have hp' := Option.some.inj hp
    subst hp'
    have hx' := (hsame x).mp hx
    simp only [List.mem_append, List.mem_flatten, List.mem_map]
    simp only [List.mem_append] at hx'
    rcases hx' with ((hx' | hx') | hx') | hx'
    · exact Or.inl hx'
    · refine Or.inr ⟨files0 s, ⟨s, hs, rfl⟩, ?_⟩
      simp only [Cxx.PassFiles.listedPart, Option.toList] at hx'
      simp only [files0, List.mem_append]
      exact Or.inl (Or.inl (Or.inl (by simpa using hx')))
    · refine Or.inr ⟨files0 s, ⟨s, hs, rfl⟩, ?_⟩
      simp only [files0, List.mem_append]
      exact Or.inl (Or.inl (Or.inr hx'))
    · refine Or.inr ⟨files0 s, ⟨s, hs, rfl⟩, ?_⟩
      simp only [files0, List.mem_append]
      exact Or.inl (Or.inr hx')
  · intro x hx
    simp only [List.mem_append, List.mem_flatten, List.mem_map] at hx
    rcases hx with hx | ⟨l, ⟨s, hs, rfl⟩, hx⟩
    · obtain ⟨s, hs⟩ := List.exists_mem_of_ne_nil _ ne
      obtain ⟨p, _, hsame⟩ := C17_same_files f.path s (wf s hs) (fit s hs)
      exact ⟨s, hs, Or.inl ((hsame x).mpr (by simp [hx]))⟩
    · obtain ⟨p, hp, hsame⟩ := C17_same_files f.path s (wf s hs) (fit s hs)
      rw [pass0 s (fit s hs)] at hp
      have hp' := Option.some.inj hp
      subst hp'
      simp only [files0, List.mem_append] at hx
      have u1 : schemaFilePrefix ++ strToUpper s.name ++ "_unity_" ++ "entities.cc" = (Scanner.cmake f.path s).unityEntityImpl := by
        simp only [Scanner.cmake, unityEntityImpl, schemaFilePrefix]; rw [String.append_assoc (s₂ := "_unity_")]; rfl
      have u2 : schemaFilePrefix ++ strToUpper s.name ++ "_unity_" ++ "types.cc" = (Scanner.cmake f.path s).unityTypeImpl := by
        simp only [Scanner.cmake, unityTypeImpl, schemaFilePrefix]; rw [String.append_assoc (s₂ := "_unity_")]; rfl
      rcases hx with ((hx | hx) | hx) | hx
      · refine ⟨s, hs, Or.inl ((hsame x).mpr ?_)⟩
        simp only [List.mem_append, Cxx.PassFiles.listedPart, Option.toList]
        refine Or.inl (Or.inl (Or.inr ?_))
        simp only [List.mem_cons, List.not_mem_nil, or_false] at hx ⊢
        grind
      · exact ⟨s, hs, Or.inl ((hsame x).mpr (by simp only [List.mem_append]; exact Or.inl (Or.inr hx)))⟩
      · exact ⟨s, hs, Or.inl ((hsame x).mpr (by simp only [List.mem_append]; exact Or.inr hx))⟩
      · refine ⟨s, hs, Or.inr ?_⟩
        rw [← u1, ← u2]
        simpa using hx

/-! ## the pass decision of multpass.c: one pass, suffix 0, every type decided, termination -/

/-- For **every** set of types and entities of a schema that refers to nothing outside itself, every iteration order of
    its symbol table and any number of `checkTypes`/`checkEnts` sweeps: nothing is marked CANTPROCESS, the schema is not set
    back to UNPROCESSED, and `SCHEMAprint` is called once with suffix 0 — so the per-schema files are `Sdai<S>.h/.cc/…`,
    the names the scanner lists.  Stated for the last case of `ENUMcanBeProcessed` found in the tree (`enumLastCase`,
    regenerated): the proof goes through only for `inSchemaOrProcessed`. -/
theorem C17_self_contained_schema_one_pass (os order : List Pass.Obj) (hnf : ∀ n, Pass.isForeign os n = false) (n : Nat) :
    Pass.suffixes (Pass.sweeps Generated.CxxPass.enumLastCase os order n Pass.initial) = [0] := by
  have hc : Generated.CxxPass.enumLastCase = .inSchemaOrProcessed := by decide
  rw [hc]
  have h : Pass.Good Pass.initial := ⟨fun k => by simp [Pass.initial], rfl⟩
  have hf : Pass.FDone os Pass.initial.marks := fun n hn => by rw [hnf n] at hn; exact absurd hn (by decide)
  have := (Pass.sweeps_good os order (fun o _ => hnf o.name) n _ h hf).2
  simp [Pass.suffixes, this]

/-- **Schemas with interface clauses.**  The same holds for a schema that takes objects from other schemas (USE / REFERENCE:
    foreign enumerations and selects as attribute types or select items, foreign originals of renamed types, foreign
    supertypes) provided every such foreign object has already been PROCESSED when the schema is looked at
    (`Pass.Ready`: own objects have pairwise different names, no mark is CANTPROCESS, foreign objects PROCESSED): at every
    iteration of the sweep loop the schema is still printable in ONE pass with suffix 0 — exactly the names the scanner
    lists.  (The negation is the recorded finding `multipass-suffix`, witness below.) -/
theorem C17_schema_after_its_suppliers_one_pass (os order : List Pass.Obj) (s0 : Pass.St) (hr : Pass.Ready os order s0) (k : Nat) :
    Pass.suffixes (Pass.runFrom Generated.CxxPass.sweepLoop Generated.CxxPass.enumLastCase os order s0 k).st = [0] := by
  have hc : Generated.CxxPass.enumLastCase = .inSchemaOrProcessed := by decide
  have hl : Generated.CxxPass.sweepLoop = .untilSettled ∨ Generated.CxxPass.sweepLoop = .untilSettledOrStalled := by decide
  rw [hc]
  simp [Pass.suffixes, (Pass.run_inv _ hl os order s0 hr k).1.2]

/-- A supplier that has NOT been processed yet makes the schema wait: an entity with an attribute of a foreign enumeration
    that is still NOTKNOWN is marked CANTPROCESS, the schema is set back to UNPROCESSED and printed with the suffixes
    `_1`, `_2` — names the scanner does not list.  With the enumeration PROCESSED the suffix is 0. -/
theorem C17_unprocessed_supplier_witness :
    let os : List Pass.Obj := [{ name := "b.eb", items := ["a.ta"] }, { name := "a.ta", isEnum := true, foreign := true }]
    let own : List Pass.Obj := [{ name := "b.eb", items := ["a.ta"] }]
    let waiting : Pass.St := { marks := fun _ => .notknown, schemaUnprocessed := false }
    let done : Pass.St := { marks := fun n => if n = "a.ta" then .processed else .notknown, schemaUnprocessed := false }
    Pass.suffixes (Pass.runFrom .untilSettled .inSchemaOrProcessed os own waiting 1).st = [1, 2] ∧
    Pass.suffixes (Pass.runFrom .untilSettled .inSchemaOrProcessed os own done 1).st = [0] := by
  decide

/-- When the sweep loop of `checkTypes` has been left (its shape is regenerated: `sweepLoop`), **every** type of the schema
    has been decided and none is CANTPROCESS — all of them are CANPROCESS on entry to `SCOPEPrint`, which is what the
    file-set theorems above assume.  Holds for `while( unknowncnt > 0 )` because `unknowncnt` is exactly the number of
    objects a sweep leaves NOTKNOWN (`sweep_from_zero`), and for the stall exit because it marks what is left; a loop that
    may also stop after a bounded number of sweeps does not have this property (witness below). -/
theorem C17_loop_exit_means_all_types_decided (os order : List Pass.Obj) (s0 : Pass.St) (hr : Pass.Ready os order s0) (k : Nat)
    (hexit : (Pass.runFrom Generated.CxxPass.sweepLoop Generated.CxxPass.enumLastCase os order s0 k).exited = true) :
    ∀ o ∈ order, (Pass.runFrom Generated.CxxPass.sweepLoop Generated.CxxPass.enumLastCase os order s0 k).st.marks o.name = .canprocess ∨
                 (Pass.runFrom Generated.CxxPass.sweepLoop Generated.CxxPass.enumLastCase os order s0 k).st.marks o.name = .processed := by
  have hc : Generated.CxxPass.enumLastCase = .inSchemaOrProcessed := by decide
  have hl : Generated.CxxPass.sweepLoop = .untilSettled ∨ Generated.CxxPass.sweepLoop = .untilSettledOrStalled := by decide
  rw [hc] at hexit ⊢
  have inv := Pass.run_inv _ hl os order s0 hr k
  intro o ho
  have h1 := inv.2.2 hexit o ho
  have h2 := inv.1.1 o.name
  cases hm : (Pass.runFrom Generated.CxxPass.sweepLoop .inSchemaOrProcessed os order s0 k).st.marks o.name with
  | notknown => exact absurd hm h1
  | cantprocess => exact absurd hm h2
  | canprocess => exact Or.inl rfl
  | processed => exact Or.inr rfl

/-- **Entities too.**  `checkEnts` runs once after the type loop.  When that loop has been left, one sweep over the entities
    of the schema decides every one of them: afterwards every type AND every entity of the schema is CANPROCESS (or already
    PROCESSED), nothing is CANTPROCESS and the schema is not set back — `SCOPEPrint` calls `TYPEPrint`/`ENTITYPrint` for all of
    them in this one pass.  Hypotheses: the schema is `Ready` (see above), its entities are its own, and every select it
    knows is one of its types or a (processed) foreign one. -/
theorem C17_schema_all_objects_decided (p : Pass.PSchema) (s0 : Pass.St) (hr : Pass.Ready p.os p.types s0)
    (hents : ∀ o ∈ p.ents, Pass.isForeign p.os o.name = false)
    (hsel : ∀ i o, Pass.lookup p.os i = some o → o.isSelect = true → o.foreign = true ∨ ∃ t ∈ p.types, t.name = i)
    (k : Nat) (hexit : (Pass.runFrom Generated.CxxPass.sweepLoop Generated.CxxPass.enumLastCase p.os p.types s0 k).exited = true) :
    let s := Pass.sweep Generated.CxxPass.enumLastCase p.os p.ents
               (Pass.runFrom Generated.CxxPass.sweepLoop Generated.CxxPass.enumLastCase p.os p.types s0 k).st
    Pass.suffixes s = [0] ∧ (∀ n, s.marks n ≠ .cantprocess) ∧
    (∀ o ∈ p.ents, s.marks o.name ≠ .notknown) ∧ (∀ o ∈ p.types, s.marks o.name ≠ .notknown) := by
  have hc : Generated.CxxPass.enumLastCase = .inSchemaOrProcessed := by decide
  have hl : Generated.CxxPass.sweepLoop = .untilSettled ∨ Generated.CxxPass.sweepLoop = .untilSettledOrStalled := by decide
  rw [hc] at hexit ⊢
  have inv := Pass.run_inv _ hl p.os p.types s0 hr k
  have hset := inv.2.2 hexit
  have hss : Pass.SelSettled p.os (Pass.runFrom Generated.CxxPass.sweepLoop .inSchemaOrProcessed p.os p.types s0 k).st.marks := by
    intro i o hl' hs'
    rcases hsel i o hl' hs' with hf | ⟨t, ht, hn⟩
    · rw [inv.2.1 i (by rw [Pass.isForeign_of_lookup p.os i o hl']; exact hf)]; decide
    · rw [← hn]; exact hset t ht
  have r := Pass.sweep_entities_decided p.os p.ents hents _ inv.1 inv.2.1 hss
  refine ⟨by simp [Pass.suffixes, r.1.2], r.1.1, r.2.2.2.1, ?_⟩
  intro o ho
  rw [r.2.2.2.2 o.name (hset o ho)]
  exact hset o ho

/-- **The whole file.**  `print_schemas_separate` for a file whose schemas come — in the order in which the dictionary delivers
    them — after all the schemas they take objects from (`Pass.InDependencyOrder`: well-formed schemas with distinct names, every
    foreign object a schema mentions is an own object of an earlier one; files without interface clauses are the special case
    without foreign objects): the sweep loops all finish, every schema is completely processed in the FIRST round, and every
    `SCHEMAprint` call has suffix 0 — generator-side pass assignment = what the scanner assumes, for every schema of the file.
    Stated for the loop shape and last case found in the tree.  (Schemas visited BEFORE a supplier get `_1`, `_2`:
    `C17_unprocessed_supplier_witness`, finding `multipass-suffix`; the model predicts those suffixes too, tied by
    correspondence only.) -/
theorem C17_file_in_dependency_order (schemas : List Pass.PSchema) (hord : Pass.InDependencyOrder [] schemas) (fuel : Nat) :
    (Pass.printFile Generated.CxxPass.sweepLoop Generated.CxxPass.enumLastCase schemas (fuel + 1)).hung = false ∧
    (∀ x ∈ (Pass.printFile Generated.CxxPass.sweepLoop Generated.CxxPass.enumLastCase schemas (fuel + 1)).printed, x.2 = 0) ∧
    (∀ q ∈ schemas, (Pass.printFile Generated.CxxPass.sweepLoop Generated.CxxPass.enumLastCase schemas (fuel + 1)).unprocessed q.name = false) := by
  have hc : Generated.CxxPass.enumLastCase = .inSchemaOrProcessed := by decide
  have hl : Generated.CxxPass.sweepLoop = .untilSettledOrStalled := by decide
  rw [hc, hl]
  have h0 : Pass.Clean [] Pass.fileStart :=
    ⟨fun k => by simp [Pass.fileStart], rfl, fun _ => rfl, fun q hq => absurd hq List.not_mem_nil,
     fun q hq => absurd hq List.not_mem_nil, fun x hx => absurd hx List.not_mem_nil⟩
  have h1 := Pass.round_clean Generated.CxxPass.deferPartial [] schemas Pass.fileStart h0 hord (fun _ _ => rfl)
  simp only [List.nil_append] at h1
  have hfr := Pass.printFile_first_round Generated.CxxPass.deferPartial schemas hord fuel
  refine ⟨?_, ?_, ?_⟩
  · rw [hfr.2.1]; exact h1.nothung
  · rw [hfr.1]; exact h1.suffix0
  · intro q hq; rw [hfr.2.2]; exact h1.finished q hq

/-- the hypothesis is satisfiable (a schema with an enumeration and an entity using it; two-schema files in dependency
    order are exercised by the correspondence, where the predicted suffixes are compared with the real exp2cxx) -/
example : Pass.InDependencyOrder []
    [{ name := "a", types := [{ name := "a.ta", isEnum := true }], ents := [{ name := "a.ea", items := ["a.ta"] }] }] := by
  have nofor : ∀ n, Pass.isForeign ([{ name := "a.ta", isEnum := true }, { name := "a.ea", items := ["a.ta"] }] : List Pass.Obj) n = false := by
    intro n
    simp only [Pass.isForeign, Pass.lookup, List.find?]
    split
    · rfl
    · split <;> rfl
  refine ⟨⟨by decide, fun o _ => nofor o.name, fun o _ => nofor o.name, ?_⟩, ?_, by decide, by decide, trivial⟩
  · intro i o hl hs
    have := List.mem_of_find?_eq_some hl
    simp [Pass.PSchema.os] at this
    rcases this with rfl | rfl <;> exact absurd hs (by decide)
  · intro n hn
    have := nofor n
    simp only [Pass.PSchema.os, List.append_nil, List.cons_append, List.nil_append] at hn
    rw [this] at hn
    exact absurd hn (by decide)

/-- supplier and user of the two-schema example -/
def pSup : Pass.PSchema := { name := "m2", types := [{ name := "m2.colour", isEnum := true }], ents := [] }
def pUse : Pass.PSchema := { name := "m1", types := [], ents := [{ name := "m1.thing", items := ["m2.colour"] }], stubs := [{ name := "m2.colour", isEnum := true, foreign := true }] }

/-- … and by a file with a REAL dependency: `m1.thing` has an attribute of `m2`'s enumeration, `m2` comes first -/
theorem two_schema_in_order : Pass.InDependencyOrder [] [pSup, pUse] := by
  have nofor2 : ∀ n, Pass.isForeign pSup.os n = false := by
    intro n
    simp only [pSup, Pass.PSchema.os, Pass.isForeign, Pass.lookup, List.append_nil, List.find?]
    split <;> rfl
  refine ⟨⟨by decide, fun o _ => nofor2 o.name, (fun o ho => by cases ho), ?_⟩, ?_, by decide, by decide, ?_⟩
  · intro i o hl hs
    have := List.mem_of_find?_eq_some hl
    simp [pSup, Pass.PSchema.os] at this
    subst this
    exact absurd hs (by decide)
  · intro n hn
    rw [nofor2 n] at hn
    exact absurd hn (by decide)
  · refine ⟨⟨by decide, (fun o ho => by cases ho), ?_, ?_⟩, ?_, by decide, by decide, trivial⟩
    · intro o ho
      have : o = { name := "m1.thing", items := ["m2.colour"] } := by simpa [pUse] using ho
      subst this
      decide
    · intro i o hl hs
      have := List.mem_of_find?_eq_some hl
      simp [pUse, Pass.PSchema.os] at this
      rcases this with rfl | rfl <;> exact absurd hs (by decide)
    · intro n hn
      refine ⟨pSup, by simp, { name := "m2.colour", isEnum := true }, by simp [pSup, Pass.PSchema.own], ?_⟩
      simp only [pUse, Pass.PSchema.os, Pass.isForeign, Pass.lookup, List.nil_append, List.cons_append, List.find?] at hn
      split at hn
      · exact absurd hn (by decide)
      · split at hn
        · rename_i h2
          simpa using h2
        · exact absurd hn (by decide)

/-- own object names of the two schemas are disjoint (the other hypothesis of the link lemmas) -/
example : Pass.OwnDisjoint [pSup, pUse] := by
  refine ⟨?_, ⟨(fun q hq => by cases hq), trivial⟩⟩
  intro q hq o ho o' ho'
  have hq' : q = pUse := by simpa using hq
  subst hq'
  have h1 : o = { name := "m1.thing", items := ["m2.colour"] } := by simpa [pUse, Pass.PSchema.own] using ho
  have h2 : o' = { name := "m2.colour", isEnum := true } := by simpa [pSup, Pass.PSchema.own] using ho'
  subst h1; subst h2
  decide

/-- … in particular for a self-contained schema started with everything NOTKNOWN. -/
theorem C17_self_contained_schema_one_pass_loop (os order : List Pass.Obj) (hnd : (order.map (·.name)).Nodup)
    (hnf : ∀ n, Pass.isForeign os n = false) (k : Nat) :
    Pass.suffixes (Pass.run Generated.CxxPass.sweepLoop Generated.CxxPass.enumLastCase os order k).st = [0] :=
  C17_schema_after_its_suppliers_one_pass os order Pass.initial (Pass.ready_initial os order hnd hnf) k

/-- **Termination.**  The loop that additionally leaves when a sweep ends with the same positive `unknowncnt` as the one
    before (`SweepLoop.untilSettledOrStalled`, fix C17-1) has been left after at most `n + 2` iterations for EVERY schema
    with `n` types (with or without processed suppliers) — `lastunknowncnt` is the number of NOTKNOWN types and strictly
    decreases while the loop runs (`run_stalled_progress`).  The plain `while( unknowncnt > 0 )` loop has no such bound:
    see the select-cycle witness. -/
theorem C17_sweep_loop_terminates (os order : List Pass.Obj) (s0 : Pass.St) (hr : Pass.Ready os order s0) :
    (Pass.runFrom .untilSettledOrStalled .inSchemaOrProcessed os order s0 (order.length + 2)).exited = true :=
  Pass.run_stalled_terminates os order s0 hr

/-- A loop that gives up after a fixed number of sweeps leaves types undecided: a chain of nested selects visited
    outermost first needs one sweep per link (here 3 selects, bound 1: the loop is left with two selects still NOTKNOWN,
    which are never printed, while the scanner lists their files; without the bound it is left after 3 sweeps, all decided). -/
theorem C17_bounded_sweeps_drop_types_witness :
    let os : List Pass.Obj := [{ name := "s1", isSelect := true, items := ["s2"] },
                               { name := "s2", isSelect := true, items := ["s3"] },
                               { name := "s3", isSelect := true, items := [] }]
    (Pass.run (.bounded 1) .inSchemaOrProcessed os os 1).exited = true ∧
    (Pass.run (.bounded 1) .inSchemaOrProcessed os os 1).st.marks "s1" = .notknown ∧
    (Pass.run (.bounded 1) .inSchemaOrProcessed os os 1).st.marks "s2" = .notknown ∧
    (Pass.run .untilSettled .inSchemaOrProcessed os os 2).exited = false ∧
    (Pass.run .untilSettled .inSchemaOrProcessed os os 3).exited = true := by
  decide

/-- Two selects that contain each other through an aggregate (`TYPE a = SELECT (list_of_b, …)`, `TYPE b = SELECT
    (list_of_a, …)`; `checkItem` looks through one aggregate level) keep each other NOTKNOWN: under `while( unknowncnt > 0 )`
    the loop has not been left after any of the first iterations, `unknowncnt` is 2 every time — the unfixed exp2cxx and
    exp2python never return (replayed with a time limit: input `select-cycle-through-aggregates`).  The stall-detecting loop
    is left at its second iteration with both selects CANPROCESS. -/
theorem C17_select_cycle_never_settles_witness :
    let os : List Pass.Obj := [{ name := "a", isSelect := true, items := ["b"] },
                               { name := "b", isSelect := true, items := ["a"] }]
    (∀ k ∈ [1, 2, 3, 4, 5, 6], (Pass.run .untilSettled .inSchemaOrProcessed os os k).exited = false ∧
        (Pass.run .untilSettled .inSchemaOrProcessed os os k).st.unknown = 2) ∧
    (Pass.run .untilSettledOrStalled .inSchemaOrProcessed os os 2).exited = true ∧
    (Pass.run .untilSettledOrStalled .inSchemaOrProcessed os os 2).st.marks "a" = .canprocess ∧
    (Pass.run .untilSettledOrStalled .inSchemaOrProcessed os os 2).st.marks "b" = .canprocess := by
  decide

/-- Why that case matters: with `return ( a->search_id >= CANPROCESS )` as last case, a select visited before a renamed
    enumeration item and its original (both still NOTKNOWN) is marked CANTPROCESS and the single schema is printed as
    `_1`, `_2` (shape: `TYPE colour = ENUMERATION…; TYPE finish_colour = colour; TYPE pick = SELECT (finish_colour, …)`). -/
theorem C17_one_pass_needs_last_case_witness :
    let os : List Pass.Obj := [{ name := "pick", isSelect := true, items := ["finish_colour"] },
                               { name := "finish_colour", isEnum := true, renameOf := some "colour" },
                               { name := "colour", isEnum := true }]
    Pass.suffixes (Pass.sweeps .ancestorMark os os 1 Pass.initial) = [1, 2] ∧
    Pass.suffixes (Pass.sweeps .inSchemaOrProcessed os os 1 Pass.initial) = [0] := by
  decide

/-! ## directory / library name -/

/-- the stdout lines of the scanner are the short names of the schemas it describes -/
theorem runWith_names (p k : Bool) (f : SchemaFile) :
    (Scanner.runWith p k f).2 = (f.schemas.filter fun s => !(k && s.entities.isEmpty && s.types.isEmpty)).map
      (fun s => Scanner.shortNameIn p f.schemas.length f.path s.name) := by
  simp [Scanner.runWith, Scanner.cmake, List.map_map, Function.comp_def]

theorem dirs_distinct_of (p k : Bool) (f : SchemaFile)
    (hshort : ∀ s ∈ f.schemas, Scanner.shortNameIn p f.schemas.length f.path s.name = "sdai_" ++ s.name)
    (hnames : (f.schemas.map (·.name)).Nodup) : (Scanner.runWith p k f).2.Nodup := by
  rw [runWith_names]
  refine List.Nodup.sublist (List.Sublist.map _ List.filter_sublist) ?_
  generalize f.schemas.length = n at hshort
  generalize f.schemas = ss at hshort hnames
  induction ss with
  | nil => exact List.nodup_nil
  | cons a r ih =>
    simp only [List.map_cons, List.nodup_cons] at hnames ⊢
    refine ⟨?_, ih (fun s hs => hshort s (List.mem_cons_of_mem _ hs)) hnames.2⟩
    intro hmem
    obtain ⟨b, hb, e⟩ := List.mem_map.mp hmem
    rw [hshort a List.mem_cons_self, hshort b (List.mem_cons_of_mem _ hb)] at e
    have : b.name = a.name := by
      have := congrArg String.toList e
      simp only [String.toList_append] at this
      exact String.toList_inj.mp (List.append_cancel_left this)
    exact hnames.1 (List.mem_map.mpr ⟨b, hb, this⟩)

/-- If the scanner's short name of every schema is `sdai_<schema name>` (under the rule found in the tree: always when the
    schema name is shorter than the file's base name and than its `data/` directory; with fix C17-3 also for every file that
    holds several schemas), distinct schemas get distinct build directories, PROJECT()/library names and CMakeLists.txt files.
    **Excluded**: files for which that premise fails — under the legacy rule a multi-schema file whose base name or data
    directory is shorter than the schema names (`C17_dir_collision_witness`). -/
theorem C17_dirs_distinct_partial (f : SchemaFile)
    (hshort : ∀ s ∈ f.schemas, Scanner.shortNameIn shortNamePerSchema f.schemas.length f.path s.name = "sdai_" ++ s.name)
    (hnames : (f.schemas.map (·.name)).Nodup) :
    (Scanner.run f).2.Nodup :=
  dirs_distinct_of _ _ f hshort hnames

/-- **With the per-schema short name (fix C17-3) every file with several schemas gets one directory per schema** — whatever its
    path, with or without the codeless-schema skip; a file with one schema has one directory anyway. -/
theorem C17_multi_schema_dirs_distinct (k : Bool) (f : SchemaFile) (hnames : (f.schemas.map (·.name)).Nodup) :
    (Scanner.runWith true k f).2.Nodup := by
  by_cases hn : f.schemas.length > 1
  · exact dirs_distinct_of true k f (fun s _ => by simp [Scanner.shortNameIn, hn]) hnames
  · rw [runWith_names]
    refine List.Nodup.sublist (List.Sublist.map _ List.filter_sublist) ?_
    match h : f.schemas with
    | [] => simp
    | [a] => simp
    | a :: b :: r => rw [h] at hn; simp at hn

/-- Under the legacy rule the statement fails — two schemas in a file whose base name is shorter than both schema
    names get the *same* directory: the second CMakeLists.txt replaces the first, the directory is printed twice.
    (Replayed on the real scanner by checks/c17.py, input `two-schemas-short-file-name`.) -/
theorem C17_dir_collision_witness :
    let f : SchemaFile := { path := "/w/ms.exp", schemas := [{ name := "first_schema", decls := [.entity { name := "ea" }] },
                                                              { name := "second_schema", decls := [.entity { name := "eb" }] }] }
    (Scanner.runWith false false f).2 = ["sdai_ms", "sdai_ms"] ∧
    (Scanner.runWith false false f).1.map (fun p => (p.1, p.2.schemaName)) = [("sdai_ms", "second_schema")] ∧
    (Scanner.runWith true false f).2 = ["sdai_first_schema", "sdai_second_schema"] := by
  decide

/-- A schema that multpass.c prints in two passes (suffixes 1 and 2) gets `Sdai<S>_1.h … Sdai<S>_2.cc`; the scanner
    lists `Sdai<S>.h`, which is then never created.  (Replayed: input `mutually-dependent-schemas`.) -/
theorem C17_multipass_witness :
    let s : Schema := { name := "aa", decls := [.entity { name := "ea", foreign := true }] }
    "SdaiAA.h" ∈ (Scanner.cmake "/w/file_name.exp" s).listed ∧
    (Cxx.schemaAll s [1, 2]).map (fun l => l.contains "SdaiAA.h" || !l.contains "SdaiAA_1.h") = some false := by
  decide

/-- A schema with neither types nor entities (only functions, constants, rules …) is never handed to `SCHEMAprint`
    (multpass.c: `if( val1 || val2 )`): exp2cxx creates none of its per-schema files, the scanner lists all of them.
    (Replayed on the real programs: input `schema-without-entities-and-types`.) -/
theorem C17_empty_schema_witness :
    let s : Schema := { name := "only_fun", decls := [.other "ff"] }
    let f : SchemaFile := { path := "/w/empty_schema_file.exp", schemas := [s] }
    (Cxx.passes f).map (fun pf => pf s) = some [] ∧
    Cxx.created f (fun _ => []) = some fixedFiles ∧
    "SdaiONLY_FUN.h" ∈ (Scanner.cmake f.path s).listed ∧ "SdaiONLY_FUN.h" ∉ fixedFiles ∧
    (Scanner.runWith false false f).2 = ["sdai_only_fun"] ∧      -- legacy: a build description is written
    (Scanner.runWith false true f).2 = [] := by                   -- with the skip (fix C17-4): none
  decide

theorem mem_final (cs : List Scanner.CMake) (acc : List (String × Scanner.CMake)) (x : String × Scanner.CMake)
    (h : x ∈ cs.foldl (fun acc c => (acc.filter (fun p => p.1 != c.shortName)) ++ [(c.shortName, c)]) acc) :
    x ∈ acc ∨ ∃ c ∈ cs, x = (c.shortName, c) := by
  induction cs generalizing acc with
  | nil => exact Or.inl h
  | cons c r ih =>
    rcases ih _ h with h1 | ⟨d, hd, e⟩
    · rcases List.mem_append.mp h1 with h2 | h2
      · exact Or.inl (List.mem_filter.mp h2).1
      · exact Or.inr ⟨c, List.mem_cons_self, by simpa using h2⟩
    · exact Or.inr ⟨d, List.mem_cons_of_mem _ hd, e⟩

/-- **With the codeless-schema skip (fix C17-4) every build description belongs to a schema that has a type or an entity** —
    exactly the schemas `print_schemas_separate` hands to `SCHEMAprint` (`C17_passes_nonempty`): nothing is listed for a schema
    exp2cxx never prints. -/
theorem C17_described_schemas_have_code (p : Bool) (f : SchemaFile) :
    ∀ d ∈ (Scanner.runWith p true f).1, ∃ s ∈ f.schemas, d.2.schemaName = s.name ∧ (s.types ≠ [] ∨ s.entities ≠ []) := by
  intro d hd
  unfold Scanner.runWith at hd
  rcases mem_final _ [] d hd with h | ⟨c, hc, e⟩
  · cases h
  · obtain ⟨s, hs, rfl⟩ := List.mem_map.mp hc
    have hf := List.mem_filter.mp hs
    refine ⟨s, hf.1, by rw [e]; rfl, ?_⟩
    have h2 := hf.2
    simp only [Bool.true_and, Bool.not_eq_true', Bool.and_eq_false_iff, List.isEmpty_eq_false_iff] at h2
    rcases h2 with h2 | h2
    · exact Or.inr h2
    · exact Or.inl h2

/-! ## schemas visited before a supplier: the deferral of partially printable schemas (fix C17-5) -/

/-- A schema that comes BEFORE its supplier in the dictionary (`m1`: entity `thing` with an attribute of `m2`'s enumeration, and an
    independent entity `other`): without the deferral it is printed in two parts `_1`, `_2` around the supplier (names the scanner
    does not list — the finding `multipass-suffix`); with the deferral it is put back in the first round and printed once, with
    suffix 0, after the supplier.  (Replayed on the real exp2cxx: SdaiM1_1.h, SdaiM1_2.h, SdaiM2.h  vs  SdaiM1.h, SdaiM2.h.) -/
theorem C17_deferral_witness :
    let user : Pass.PSchema := { name := "m1", types := [], ents := [{ name := "m1.thing", items := ["m2.colour"] }, { name := "m1.other" }], stubs := [{ name := "m2.colour", isEnum := true, foreign := true }] }
    let supplier : Pass.PSchema := { name := "m2", types := [{ name := "m2.colour", isEnum := true }], ents := [] }
    (Pass.printFile .untilSettledOrStalled .inSchemaOrProcessed [user, supplier] 5 false).printed = [("m1", 1), ("m2", 0), ("m1", 2)] ∧
    (Pass.printFile .untilSettledOrStalled .inSchemaOrProcessed [user, supplier] 5 true).printed = [("m2", 0), ("m1", 0)] := by
  decide

/-- Schemas that need EACH OTHER cannot all be printed in one piece: with the deferral the first round prints nothing, the second
    falls back to printing in parts — the only shape for which `multipass-suffix` remains.  (Replayed: SdaiS_ONE.h, SdaiS_TWO_1.h,
    SdaiS_TWO_2.h with and without the deferral.) -/
theorem C17_mutual_dependency_witness :
    let one : Pass.PSchema := { name := "s_one", types := [{ name := "s_one.colour", isEnum := true }], ents := [{ name := "s_one.thing", items := ["s_two.size"] }], stubs := [{ name := "s_two.size", isEnum := true, foreign := true }] }
    let two : Pass.PSchema := { name := "s_two", types := [{ name := "s_two.size", isEnum := true }], ents := [{ name := "s_two.item", items := ["s_one.colour"] }], stubs := [{ name := "s_one.colour", isEnum := true, foreign := true }] }
    (Pass.printFile .untilSettledOrStalled .inSchemaOrProcessed [two, one] 6 true).printed = [("s_two", 1), ("s_one", 0), ("s_two", 2)] ∧
    (Pass.printFile .untilSettledOrStalled .inSchemaOrProcessed [two, one] 6 false).printed = [("s_two", 1), ("s_one", 0), ("s_two", 2)] := by
  decide

/-- **With the deferral a schema is split only when the schemas are stuck**: a visit that prints a schema, nothing of which had been
    printed before, with a suffix > 0 (`Sdai<S>_1.*` — a name the scanner does not list) happens only while `progress` is false;
    and `progress` is true after a round exactly when that round made a `SCHEMAprint` call, no visit changing it in between.  So
    the first split of any schema follows a complete round over the schemas of the file in which NOTHING could be printed — for
    every file, every item structure, every dictionary order (sweep loop and last case arbitrary). -/
theorem C17_first_split_only_after_a_round_without_print (l : Generated.CxxPass.SweepLoop) (lc : Generated.CxxPass.EnumLastCase) :
    (∀ (fs : Pass.FileSt) (p : Pass.PSchema) (k : Nat), 0 < k → fs.counter p.name = 0 →
        (Pass.visitSchema true l lc fs p).printed = fs.printed ++ [(p.name, k)] → fs.progress = false) ∧
    (∀ (ps : List Pass.PSchema) (fs : Pass.FileSt),
        ((Pass.round true l lc ps fs).progress = true ↔ fs.printed.length < (Pass.round true l lc ps fs).printed.length)) ∧
    (∀ (fs : Pass.FileSt) (p : Pass.PSchema), (Pass.visitSchema true l lc fs p).progress = fs.progress) :=
  ⟨fun fs p k hk hc hp => Pass.first_split_needs_no_progress l lc fs p k hk hc hp,
   fun ps fs => Pass.round_progress true l lc ps fs,
   fun fs p => (Pass.visit_tracks true l lc fs p).2⟩

/-! ## the link between the two models: the pass assignment of the file-set model IS what the multpass model prints -/

/-- a schema of the multpass model stands for a schema of the declaration-level model: same name, and it has an own object
    (a type or an entity the pass logic looks at) iff the schema declares a type or an entity -/
def Describes (p : Pass.PSchema) (s : Schema) : Prop := p.name = s.name ∧ (p.own = [] ↔ (s.types = [] ∧ s.entities = []))

/-- … schema by schema, in the same (dictionary) order -/
inductive AllDescribe : List Pass.PSchema → List Schema → Prop
  | nil : AllDescribe [] []
  | cons {p : Pass.PSchema} {s : Schema} {ps : List Pass.PSchema} {ss : List Schema} :
      Describes p s → AllDescribe ps ss → AllDescribe (p :: ps) (s :: ss)

theorem expectedPrinted_filter_none (ps : List Pass.PSchema) (n : String) (h : ∀ q ∈ ps, q.name ≠ n) :
    (Pass.expectedPrinted ps).filter (fun x => x.1 == n) = [] := by
  rw [List.filter_eq_nil_iff]
  intro x hx
  unfold Pass.expectedPrinted at hx
  obtain ⟨q, hq, rfl⟩ := List.mem_map.mp hx
  simpa using h q (List.mem_filter.mp hq).1

theorem expectedPrinted_of (ps : List Pass.PSchema) (ss : List Schema) (hd : AllDescribe ps ss)
    (hn : (ss.map (·.name)).Nodup) :
    ∀ s ∈ ss, ((Pass.expectedPrinted ps).filter (fun x => x.1 == s.name)).map (·.2)
      = if s.types.isEmpty && s.entities.isEmpty then [] else [0] := by
  induction hd with
  | nil => intro s hs; cases hs
  | @cons p s' ps' ss' hps hrest ih =>
    have hn' : s'.name ∉ ss'.map (·.name) ∧ (ss'.map (·.name)).Nodup := by
      have : (s'.name :: ss'.map (·.name)).Nodup := hn
      exact List.nodup_cons.mp this
    have hsplit : Pass.expectedPrinted (p :: ps') = (if p.own.isEmpty then [] else [(p.name, 0)]) ++ Pass.expectedPrinted ps' := by
      unfold Pass.expectedPrinted
      by_cases he : p.own.isEmpty = true
      · simp [he]
      · simp [he]
    -- the names of the tail are those of ss'
    have htail : ∀ n, n ∉ ss'.map (·.name) → ∀ q ∈ ps', q.name ≠ n := by
      intro n hnn
      clear ih hn hn' hsplit
      induction hrest with
      | nil => intro q hq; cases hq
      | @cons a b l1 l2 hab _ ih2 =>
        intro q hq
        have hnn' : n ≠ b.name ∧ n ∉ l2.map (·.name) := by simpa using hnn
        rcases List.mem_cons.mp hq with e | e
        · subst e; rw [hab.1]; exact fun e => hnn'.1 e.symm
        · exact ih2 hnn'.2 q e
    intro s hs
    rw [hsplit, List.filter_append, List.map_append]
    rcases List.mem_cons.mp hs with e | e
    · subst e
      rw [expectedPrinted_filter_none ps' s.name (htail s.name hn'.1)]
      by_cases hemp : p.own.isEmpty = true
      · have h1 : s.types = [] ∧ s.entities = [] := hps.2.mp (List.isEmpty_iff.mp hemp)
        simp [hemp, h1.1, h1.2]
      · have h1 : ¬ (s.types = [] ∧ s.entities = []) := fun h => hemp (List.isEmpty_iff.mpr (hps.2.mpr h))
        have h2 : (s.types.isEmpty && s.entities.isEmpty) = false := by
          cases hh : (s.types.isEmpty && s.entities.isEmpty) with
          | false => rfl
          | true =>
            simp only [Bool.and_eq_true, List.isEmpty_iff] at hh
            exact absurd hh h1
        simp [hemp, h2, hps.1]
    · have hne : s'.name ≠ s.name := fun e' => hn'.1 (e' ▸ List.mem_map.mpr ⟨s, e, rfl⟩)
      have hhead : (if p.own.isEmpty then [] else [(p.name, 0)] : List (String × Nat)).filter (fun x => x.1 == s.name) = [] := by
        by_cases hemp : p.own.isEmpty = true
        · simp [hemp]
        · simp [hemp, hps.1, hne]
      rw [hhead]
      simpa using ih hn'.2 s e

/-- **The pass assignment the file-set theorems use is the one the multpass model produces.**  For a file without interface
    clauses (`Cxx.passes f = some pf`) and any description of it in the multpass model (`Describes`: same schema names, a schema
    has an own object iff it declares a type or an entity) that is in dependency order with disjoint qualified object names:
    the suffixes with which `Pass.printFile` (print_schemas_separate → checkTypes / checkEnts → SCHEMAprint, loop shape and last
    case as found in the tree) calls `SCHEMAprint` for a schema are exactly `pf s` — `[0]` for a schema with a type or an
    entity, none for a schema without.  This is the premise of `C17_file_as_written`, proved from the pass model instead of
    read off the hand definition `Cxx.passes`. -/
theorem C17_passes_agree_with_pass_model (f : SchemaFile) (ps : List Pass.PSchema)
    (hdesc : AllDescribe ps f.schemas) (hord : Pass.InDependencyOrder [] ps) (hdj : Pass.OwnDisjoint ps)
    (hnames : (f.schemas.map (·.name)).Nodup) (pf : Schema → List Nat) (hp : Cxx.passes f = some pf) (fuel : Nat) :
    ∀ s ∈ f.schemas,
      ((Pass.printFile Generated.CxxPass.sweepLoop Generated.CxxPass.enumLastCase ps (fuel + 1)).printed.filter
          (fun x => x.1 == s.name)).map (·.2) = pf s := by
  have hc : Generated.CxxPass.enumLastCase = .inSchemaOrProcessed := by decide
  have hl : Generated.CxxPass.sweepLoop = .untilSettledOrStalled := by decide
  rw [hc, hl, Pass.printFile_printed Generated.CxxPass.deferPartial ps hord hdj fuel]
  have hpf : pf = fun s => if s.types.isEmpty && s.entities.isEmpty then [] else [0] := by
    unfold Cxx.passes at hp
    split at hp
    · exact (Option.some.inj hp).symm
    · cases hp
  subst hpf
  exact expectedPrinted_of ps f.schemas hdesc hnames

/-- the lists of a build description do not depend on the short name (number of schemas in the file, short-name rule) -/
theorem cmake_lists_indep (path : String) (s : Schema) (n : Nat) (p : Bool) :
    (Scanner.cmake path s n p).listed = (Scanner.cmake path s).listed ∧
    (Scanner.cmake path s n p).unityEntityImpl = (Scanner.cmake path s).unityEntityImpl ∧
    (Scanner.cmake path s n p).unityTypeImpl = (Scanner.cmake path s).unityTypeImpl ∧
    (Scanner.cmake path s n p).schemaName = s.name := ⟨rfl, rfl, rfl, rfl⟩

/-- a schema without types and entities adds no file when it is not printed -/
theorem schemaAll_codeless (s : Schema) (ht : s.types = []) (he : s.entities = []) : Cxx.schemaAll s [] = some [] := by
  simp [Cxx.schemaAll, Cxx.allSome, Cxx.typeFiles, Cxx.entityFiles, ht, he]

theorem created_single (path : String) (s : Schema) (gate : s.name.length ≤ maxIdentLen)
    (hacc : Cxx.accepts { path := path, schemas := [s] } = true) :
    Cxx.created { path := path, schemas := [s] } (fun _ => [0]) = some (fixedFiles ++ [files0 s].flatten) := by
  have hall1 := allSome_map [s] (fun s => Cxx.schemaAll s [0]) files0 (fun t ht => by
    have : t = s := by simpa using ht
    subst this; exact schemaAll0 t gate)
  unfold Cxx.created
  simp only [hacc, Bool.not_true, Bool.false_eq_true, if_false]
  rw [hall1]
  rfl

/-- **File level, stated over what the two programs do** (`Scanner.runWith … true` = the scanner with the codeless-schema skip
    of the tree, any short-name rule; `Cxx.passes` = the pass assignment of a file without interface clauses; the link from
    `Cxx.passes` to the multpass model is `C17_passes_agree_with_pass_model`): for a file of well-formed schemas that exp2cxx
    accepts, every file a WRITTEN CMakeLists.txt lists is created by exp2cxx, and every file exp2cxx creates is one of the
    per-file files (SdaiAll.cc, schema.h, …: listed by every description), or is listed by the description the scanner writes
    for its schema — a schema that has a type or an entity — or is the `.h` twin of that schema's listed unity source.  Nothing is
    said about a schema without types and entities beyond: no description, no files. -/
theorem C17_file_as_written (p : Bool) (f : SchemaFile) (wf : ∀ s ∈ f.schemas, s.wf) (acc : Cxx.accepts f = true)
    (pf : Schema → List Nat) (hp : Cxx.passes f = some pf) :
    ∃ l, Cxx.created f pf = some l ∧
      (∀ d ∈ (Scanner.runWith p true f).1, ∀ x ∈ d.2.listed, x ∈ l) ∧
      (∀ x ∈ l, x ∈ fixedFiles ∨ ∃ s ∈ f.schemas, (s.types ≠ [] ∨ s.entities ≠ []) ∧
          (x ∈ (Scanner.cmake f.path s f.schemas.length p).listed ∨
           x = Cxx.ccToH (Scanner.cmake f.path s f.schemas.length p).unityEntityImpl ∨
           x = Cxx.ccToH (Scanner.cmake f.path s f.schemas.length p).unityTypeImpl)) := by
  -- the pass assignment
  have hpf : pf = fun s => if s.types.isEmpty && s.entities.isEmpty then [] else [0] := by
    unfold Cxx.passes at hp
    split at hp
    · exact (Option.some.inj hp).symm
    · cases hp
  subst hpf
  have fit : ∀ s ∈ f.schemas, s.name.length ≤ maxIdentLen := by
    intro s hs
    have := List.all_eq_true.mp acc s hs
    simp only [Bool.and_eq_true, decide_eq_true_eq] at this
    exact this.1
  let filesOf : Schema → List String := fun s => if s.types.isEmpty && s.entities.isEmpty then [] else files0 s
  have hall := allSome_map f.schemas
    (fun s => Cxx.schemaAll s (if s.types.isEmpty && s.entities.isEmpty then [] else [0])) filesOf (by
      intro s hs
      by_cases hc : (s.types.isEmpty && s.entities.isEmpty) = true
      · have hc' := hc
        simp only [Bool.and_eq_true, List.isEmpty_iff] at hc'
        simp only [filesOf, hc, if_true]
        exact schemaAll_codeless s hc'.1 hc'.2
      · simp only [filesOf, hc, if_false, Bool.false_eq_true]
        exact schemaAll0 s (fit s hs))
  have hcreated : Cxx.created f (fun s => if s.types.isEmpty && s.entities.isEmpty then [] else [0])
      = some (fixedFiles ++ (f.schemas.map filesOf).flatten) := by
    unfold Cxx.created
    simp only [acc, Bool.not_true, Bool.false_eq_true, if_false]
    rw [hall]
  refine ⟨fixedFiles ++ (f.schemas.map filesOf).flatten, hcreated, ?_, ?_⟩
  · -- everything a written description lists is created: through the one-schema file of that schema
    intro d hd x hx
    unfold Scanner.runWith at hd
    rcases mem_final _ [] d hd with h | ⟨c, hc, e⟩
    · cases h
    · obtain ⟨s, hs, rfl⟩ := List.mem_map.mp hc
      have hf := List.mem_filter.mp hs
      have hcode : ¬ (s.types.isEmpty && s.entities.isEmpty) = true := by
        intro hh
        have h2 := hf.2
        simp only [Bool.true_and, Bool.not_eq_true', Bool.and_eq_false_iff, List.isEmpty_eq_false_iff] at h2
        simp only [Bool.and_eq_true, List.isEmpty_iff] at hh
        rcases h2 with h2 | h2
        · exact h2 hh.2
        · exact h2 hh.1
      rw [e] at hx
      rw [(cmake_lists_indep f.path s f.schemas.length p).1] at hx
      obtain ⟨l1, hl1, h1, _⟩ := C17_file { path := f.path, schemas := [s] } (fun t ht => by
          have : t = s := by simpa using ht
          subst this; exact wf t hf.1) (by
          simp only [Cxx.accepts, List.all_cons, List.all_nil, Bool.and_true]
          exact List.all_eq_true.mp acc s hf.1) (by simp)
      have hl1' : l1 = fixedFiles ++ [files0 s].flatten := by
        have hacc1 : Cxx.accepts { path := f.path, schemas := [s] } = true := by
          simp only [Cxx.accepts, List.all_cons, List.all_nil, Bool.and_true]
          exact List.all_eq_true.mp acc s hf.1
        rw [created_single f.path s (fit s hf.1) hacc1] at hl1
        exact (Option.some.inj hl1).symm
      have hx1 := h1 s (by simp) x hx
      rw [hl1'] at hx1
      simp only [List.mem_append, List.mem_flatten, List.mem_map, List.mem_singleton] at hx1 ⊢
      rcases hx1 with hx1 | ⟨l, rfl, hx1⟩
      · exact Or.inl hx1
      · exact Or.inr ⟨filesOf s, ⟨s, hf.1, rfl⟩, by simp only [filesOf, hcode, if_false, Bool.false_eq_true]; exact hx1⟩
  · intro x hx
    simp only [List.mem_append, List.mem_flatten, List.mem_map] at hx
    rcases hx with hx | ⟨l, ⟨s, hs, rfl⟩, hx⟩
    · exact Or.inl hx
    · right
      by_cases hc : (s.types.isEmpty && s.entities.isEmpty) = true
      · simp only [filesOf, hc, if_true] at hx
        cases hx
      · have hcode : s.types ≠ [] ∨ s.entities ≠ [] := by
          simp only [Bool.and_eq_true, List.isEmpty_iff] at hc
          by_cases ht : s.types = []
          · exact Or.inr (fun he => hc ⟨ht, he⟩)
          · exact Or.inl ht
        simp only [filesOf, hc, if_false, Bool.false_eq_true] at hx
        obtain ⟨l1, hl1, _, h2⟩ := C17_file { path := f.path, schemas := [s] } (fun t ht => by
            have : t = s := by simpa using ht
            subst this; exact wf t hs) (by
            simp only [Cxx.accepts, List.all_cons, List.all_nil, Bool.and_true]
            exact List.all_eq_true.mp acc s hs) (by simp)
        have hl1' : l1 = fixedFiles ++ [files0 s].flatten := by
          have hacc1 : Cxx.accepts { path := f.path, schemas := [s] } = true := by
            simp only [Cxx.accepts, List.all_cons, List.all_nil, Bool.and_true]
            exact List.all_eq_true.mp acc s hs
          rw [created_single f.path s (fit s hs) hacc1] at hl1
          exact (Option.some.inj hl1).symm
        have hx1 : x ∈ l1 := by rw [hl1']; simp [hx]
        obtain ⟨t, ht, hres⟩ := h2 x hx1
        have : t = s := by simpa using ht
        subst this
        refine ⟨t, hs, hcode, ?_⟩
        rw [(cmake_lists_indep f.path t f.schemas.length p).1, (cmake_lists_indep f.path t f.schemas.length p).2.1,
            (cmake_lists_indep f.path t f.schemas.length p).2.2.1]
        exact hres

/-- the files exp2cxx creates depend on the suffix assignment only through its values on the schemas of the file -/
theorem created_congr (f : SchemaFile) (a b : Schema → List Nat) (h : ∀ s ∈ f.schemas, a s = b s) : Cxx.created f a = Cxx.created f b := by
  unfold Cxx.created
  have : (f.schemas.map fun s => Cxx.schemaAll s (a s)) = (f.schemas.map fun s => Cxx.schemaAll s (b s)) :=
    List.map_congr_left (fun s hs => by rw [h s hs])
  rw [this]

/-- **Scanner versus pass model, in one statement** (the two halves joined inside Lean): for a file of well-formed schemas without
    interface clauses that exp2cxx accepts, described in the multpass model by schemas in dependency order with disjoint object
    names — take as suffix assignment what `Pass.printFile` (print_schemas_separate → checkTypes/checkEnts → SCHEMAprint, as found in
    the tree) actually prints for each schema.  Then exp2cxx creates a file set `l` such that every file a WRITTEN CMakeLists.txt
    lists is in `l`, and every file of `l` is a per-file file, or listed by the description of its schema, or the `.h` twin of that
    schema's listed unity source. -/
theorem C17_scanner_matches_pass_model (p : Bool) (f : SchemaFile) (wf : ∀ s ∈ f.schemas, s.wf) (acc : Cxx.accepts f = true)
    (pf : Schema → List Nat) (hp : Cxx.passes f = some pf)
    (ps : List Pass.PSchema) (hdesc : AllDescribe ps f.schemas) (hord : Pass.InDependencyOrder [] ps) (hdj : Pass.OwnDisjoint ps)
    (hnames : (f.schemas.map (·.name)).Nodup) (fuel : Nat) :
    ∃ l, Cxx.created f (fun s => ((Pass.printFile Generated.CxxPass.sweepLoop Generated.CxxPass.enumLastCase ps (fuel + 1)).printed.filter
                                    (fun x => x.1 == s.name)).map (·.2)) = some l ∧
      (∀ d ∈ (Scanner.runWith p true f).1, ∀ x ∈ d.2.listed, x ∈ l) ∧
      (∀ x ∈ l, x ∈ fixedFiles ∨ ∃ s ∈ f.schemas, (s.types ≠ [] ∨ s.entities ≠ []) ∧
          (x ∈ (Scanner.cmake f.path s f.schemas.length p).listed ∨
           x = Cxx.ccToH (Scanner.cmake f.path s f.schemas.length p).unityEntityImpl ∨
           x = Cxx.ccToH (Scanner.cmake f.path s f.schemas.length p).unityTypeImpl)) := by
  have hagree := C17_passes_agree_with_pass_model f ps hdesc hord hdj hnames pf hp fuel
  rw [created_congr f _ pf hagree]
  exact C17_file_as_written p f wf acc pf hp

/-- the hypotheses of `C17_scanner_matches_pass_model` are jointly satisfiable: the two-schema file of `two_schema_in_order`
    (`m2` with an enumeration, `m1` with an entity), described by `pSup`, `pUse` -/
example : ∃ l, Cxx.created { path := "/w/two.exp", schemas := [{ name := "m2", decls := [.type { name := "colour", kind := .enumeration_, hasHead := false }] },
                                                                 { name := "m1", decls := [.entity { name := "thing" }] }] }
      (fun s => ((Pass.printFile Generated.CxxPass.sweepLoop Generated.CxxPass.enumLastCase [pSup, pUse] 3).printed.filter
                  (fun x => x.1 == s.name)).map (·.2)) = some l := by
  have h := C17_scanner_matches_pass_model true
    { path := "/w/two.exp", schemas := [{ name := "m2", decls := [.type { name := "colour", kind := .enumeration_, hasHead := false }] },
                                        { name := "m1", decls := [.entity { name := "thing" }] }] }
    (by intro s hs t ht
        simp only [List.mem_cons, List.not_mem_nil, or_false] at hs
        rcases hs with rfl | rfl
        · simp [Schema.types] at ht; subst ht; decide
        · simp [Schema.types] at ht)
    (by decide) (fun s => if s.types.isEmpty && s.entities.isEmpty then [] else [0]) rfl
    [pSup, pUse]
    (AllDescribe.cons ⟨rfl, by simp [pSup, Pass.PSchema.own, Schema.types, Schema.entities]⟩
      (AllDescribe.cons ⟨rfl, by simp [pUse, Pass.PSchema.own, Schema.types, Schema.entities]⟩ AllDescribe.nil))
    two_schema_in_order
    (by
      refine ⟨?_, ⟨(fun q hq => by cases hq), trivial⟩⟩
      intro q hq o ho o' ho'
      have hq' : q = pUse := by simpa using hq
      subst hq'
      have h1 : o = { name := "m1.thing", items := ["m2.colour"] } := by simpa [pUse, Pass.PSchema.own] using ho
      have h2 : o' = { name := "m2.colour", isEnum := true } := by simpa [pSup, Pass.PSchema.own] using ho'
      subst h1; subst h2
      decide)
    (by decide) 2
  obtain ⟨l, hl, _⟩ := h
  exact ⟨l, hl⟩

/-- … while every schema that has a type or an entity and no interface clause is printed exactly once, suffix 0. -/
theorem C17_passes_nonempty (f : SchemaFile) (pf : Schema → List Nat) (h : Cxx.passes f = some pf) (s : Schema)
    (ne : s.types ≠ [] ∨ s.entities ≠ []) : pf s = [0] := by
  unfold Cxx.passes at h
  split at h
  · have := Option.some.inj h
    subst this
    rcases ne with ne | ne
    · simp [List.isEmpty_iff, ne]
    · simp [List.isEmpty_iff, ne]
  · exact absurd h (by simp)

/-! ## before anything is written: the ComplexCollect is built (the step that made exp2cxx spin before fix C17-2) -/

/-- **The constructor of `ComplexCollect` terminates**: with the walk of `ComplexCollect::remove` found in the tree (regenerated),
    for every sequence of inserted lists — any names, the same name any number of times, any of them dependent — the loop that
    drops the dependent lists is through after at most `number of lists + 1` rounds and leaves exactly the lists of the
    entities without supertypes, in name order (`strcmp` assumed a strict total order, addresses distinct). -/
theorem C17_collect_prune_terminates (lt : String → String → Bool) (h : AlphaOrder.StrictTotal lt) (cs : List Collect.CL)
    (hd : Collect.DistinctIds cs) :
    Collect.build lt Generated.CxxCollect.removeScan (cs.length + 1) cs
      = some ((cs.foldl (fun l c => Collect.insert lt c l) []).filter (fun c => !c.dependent)) :=
  Collect.build_current lt h cs hd

/-- … which is false for the walk `while( cl && *cl < *c )` the tree had before: two lists of one name (two schemas declaring an
    entity of the same name), the second one dependent — `remove` gives up, the cursor does not move, no amount of fuel suffices. -/
theorem C17_collect_whileLess_witness (lt : String → String → Bool) (hirr : ∀ a, lt a a = false) :
    ∀ fuel, Collect.prune lt .whileLess fuel
      [{ id := 1, name := "e_el", dependent := false }, { id := 2, name := "e_el", dependent := true }] 0 = none :=
  Collect.prune_whileLess_hangs lt hirr _ _ rfl (by decide) rfl rfl

/-! ## the select loop: every select exactly once, at list level -/

/-- **No select type is emitted twice** — whatever the item structure (cycles included), the tags left by earlier schemas of the
    file and the nesting bound: the events of the select loop of `SCOPEPrint` + `TYPEselect_print` (the class of a select =
    type/Sdai<T>.h/.cc and its `#include`; the typedef block of a renamed select) carry pairwise different type names, and only
    tagged types are emitted. -/
theorem C17_selects_emitted_at_most_once (G : String → Option SelOrder.Sel) (fuel : Nat) (roots : List String) (st : SelOrder.St)
    (g : SelOrder.Good st) : SelOrder.Good (SelOrder.visitAll G fuel roots st) :=
  SelOrder.good_of_step (SelOrder.visitAll_step G fuel roots st) g

/-- **Every select of the schema is emitted** (hence exactly once): for a file whose select types are `N` (every renamed original
    and every select item among them), each select the loop starts from that had no tag yet is in the output when the loop ends;
    the recursion never runs out of depth with `|N| + 1` levels. -/
theorem C17_selects_all_emitted (G : String → Option SelOrder.Sel) (N : List String) (hc : SelOrder.Closed N G)
    (roots : List String) (hr : ∀ x ∈ roots, x ∈ N) (st : SelOrder.St) :
    ∀ t ∈ roots, t ∉ st.tagged → (G t).isSome = true →
      t ∈ (SelOrder.visitAll G (N.length + 1) roots st).out.map SelOrder.Ev.name :=
  SelOrder.visitAll_complete G N hc roots hr st

/-- the order is not the dictionary order: a select whose item is a later select is emitted after it, and a renamed select after
    its original (`TYPE sel_b = SELECT (sel_z …)`, `TYPE sel_a = sel_b`; dictionary order a, b, z) -/
theorem C17_select_order_witness :
    (SelOrder.visitAll (fun t => if t = "sel_a" then some (.renamed "sel_b") else if t = "sel_b" then some (.items ["sel_z"])
                                 else if t = "sel_z" then some (.items []) else none) 4 ["sel_a", "sel_b", "sel_z"] {}).out
      = [.cls "sel_z", .cls "sel_b", .typedefs "sel_a"] := by decide

/-! ## the marks of the pass logic belong to the pass logic -/

/-- **Every entity the pass logic marked CANPROCESS is printed** (each `ENTITYPrint` creates entity/Sdai<E>.h and .cc, the files
    the scanner lists): in the tree no function linked into exp2cxx calls a libexpress function that stamps `search_id`, and
    `search_id` is assigned only in multpass.c, SCOPEPrint and the ComplexCollect constructor (regenerated: `marksPrivate`);
    then `SCOPEPrint`'s entity loop prints exactly the entities whose mark was CANPROCESS when the loop began, in dictionary
    order, and leaves all other marks alone. -/
theorem C17_canprocess_entities_printed :
    Marks.marksPrivate = true ∧
    ∀ (ents : List String), ents.Nodup → ∀ st : Marks.PrintSt,
      (Marks.entityLoop (fun _ => []) ents st).printed = st.printed ++ ents.filter (fun e => st.marks e = .canprocess) ∧
      ∀ x, x ∉ ents → (Marks.entityLoop (fun _ => []) ents st).marks x = st.marks x :=
  ⟨by decide, fun ents hnd st => Marks.entityLoop_private ents hnd st⟩

/-- … and it is false as soon as printing one entity runs a libexpress search over others: `part` (INVERSE … OF occurrence FOR
    component, the attribute reaching `occurrence` through its second supertype `usage`) is printed first, the search stamps
    `occurrence` and `usage`, and neither is printed although both were marked CANPROCESS. -/
theorem C17_mark_clobber_witness :
    (Marks.entityLoop (fun e => if e = "part" then ["occurrence", "identified", "usage"] else [])
        ["part", "identified", "occurrence", "usage"] { marks := fun _ => .canprocess, printed := [] }).printed = ["part"] := by
  decide

/-- non-vacuity of the hypotheses above -/
example : ∃ s : Schema, s.wf ∧ s.name.length ≤ maxIdentLen := ⟨{ name := "s", decls := [.type { name := "t", kind := .select_, hasHead := true }] },
  by intro t ht; simp [Schema.types] at ht; subst ht; decide, by decide⟩

end StepModel.Props.C17

import StepModel.GenFiles
namespace StepModel.Props.C17
end StepModel.Props.C17

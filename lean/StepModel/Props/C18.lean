import StepModel.GenPy
import StepModel.GenPyPass
import StepModel.GenPyOrder
import StepModel.GenPyEntityOrder
import StepModel.GenPyBody
import StepModel.GenPyStmt
import StepModel.GenPyCase
/-!
# C18 — exp2python emits a module that mirrors the schema

Model: `StepModel.GenPy` (emission rule of `LIBdescribe_entity` / `TYPEprint_descriptions`, keyword list and runtime
package regenerated from the C sources).  "Python can compile and import the module" is observed by the check
(py_compile + import against the bundled runtime), not proved.  The bodies of derived-attribute getters and WHERE-rule
methods: `StepModel.GenPy.Body` (the expression printer composed with Python's reading of the text, tied by Python's own
`ast` on every generated expression).
-/
namespace StepModel.GenPy
open StepModel.Generated

/-! ## the MRO sort -/

theorem insertDesc_perm (key : String → Nat) (x : String) (l : List String) : (insertDesc key x l).Perm (x :: l) := by
  induction l with
  | nil => exact List.Perm.refl _
  | cons y ys ih =>
    simp only [insertDesc]
    split
    · exact (List.Perm.cons y ih).trans (List.Perm.swap x y ys)
    · exact List.Perm.refl _

theorem sortDesc_perm (key : String → Nat) (l : List String) : (sortDesc key l).Perm l := by
  induction l with
  | nil => exact List.Perm.refl _
  | cons x xs ih => exact (insertDesc_perm key x _).trans (List.Perm.cons x ih)

theorem pyOrder_perm (es : List Entity) : ∀ (f : Nat) (l : List String), l.length = f → (pyOrder es f l).Perm l
  | 0, l, _ => by simp [pyOrder]
  | f + 1, [], _ => by simp [pyOrder]
  | f + 1, x :: xs, h => by
    simp only [pyOrder]
    have hr : ((x :: xs).find? (fun r => !blocked es r (x :: xs))).getD x ∈ x :: xs := by
      cases hf : (x :: xs).find? (fun r => !blocked es r (x :: xs)) with
      | none => simp
      | some y => simpa using List.mem_of_find?_eq_some hf
    generalize ((x :: xs).find? (fun r => !blocked es r (x :: xs))).getD x = r at hr
    have hlen : ((x :: xs).erase r).length = f := by
      rw [List.length_erase_of_mem hr]; simp at h ⊢; omega
    exact (List.Perm.cons r (pyOrder_perm es f _ hlen)).trans (List.perm_cons_erase hr).symm

theorem pyOrder_id (es : List Entity) (l : List String)
    (h : ∀ r ∈ l, ∀ o ∈ l, isAncestor es es.length r o = false) : ∀ f, l.length = f → pyOrder es f l = l := by
  induction l with
  | nil => intro f hf; cases f <;> simp [pyOrder]
  | cons x xs ih =>
    intro f hf
    cases f with
    | zero => simp at hf
    | succ f =>
      have hb : blocked es x (x :: xs) = false := by
        unfold blocked
        rw [List.any_eq_false]
        intro o ho
        simp [h x List.mem_cons_self o ho]
      simp only [pyOrder]
      rw [List.find?_cons_of_pos (by simp [hb])]
      simp only [Option.getD_some, List.erase_cons_head]
      rw [ih (fun r hr o ho => h r (List.mem_cons_of_mem _ hr) o (List.mem_cons_of_mem _ ho)) f (by simpa using hf)]

/-- The emitted base classes are exactly the entity's supertypes (each once, none added), for every schema. -/
theorem C18_bases_are_the_supertypes (es : List Entity) (e : Entity) : (bases es e).Perm e.supers := by
  have hs : superOrder es e = e.supers := by simp [superOrder, sortsBases]
  unfold bases
  rw [hs]
  split
  · exact pyOrder_perm es _ _ rfl
  · exact List.Perm.refl _

/-- Base classes are the entity's supertypes **in declaration order** whenever no listed supertype is an ancestor of
another listed supertype.  `_partial`: excluded is exactly the shape Python itself refuses in declaration order (a class
may not precede its own subclass in a base list, e.g. AP203e2's `SUBTYPE OF (edge_blended_solid, track_blended_solid)`):
there `python_base_order` moves the ancestor behind its subtype (`C18_bases_ancestor_moved_witness`).  Depends on the
regenerated `sortsBases = false`, `ancestorsLast = true`. -/
theorem C18_bases_decl_order_partial (es : List Entity) (e : Entity)
    (h : ∀ r ∈ e.supers, ∀ o ∈ e.supers, isAncestor es es.length r o = false) : bases es e = e.supers := by
  have hs : superOrder es e = e.supers := by simp [superOrder, sortsBases]
  unfold bases
  rw [hs]
  simp only [ancestorsLast, if_true]
  exact pyOrder_id es e.supers h _ rfl

/-- … in particular for single inheritance. -/
theorem C18_bases_single_inheritance (es : List Entity) (e : Entity) (x : String) (h : e.supers = [x])
    (hx : isAncestor es es.length x x = false) : bases es e = e.supers := by
  apply C18_bases_decl_order_partial
  rw [h]
  intro r hr o ho
  simp only [List.mem_singleton] at hr ho
  subst hr; subst ho; exact hx

def ancestorFirst : List Entity :=
  [⟨"n0", [], []⟩, ⟨"n1", ["n0"], []⟩, ⟨"n2", ["n0", "n1"], []⟩]

/-- `ENTITY n2 SUBTYPE OF (n0, n1)` with `n1` a subtype of `n0`: emitted as `class n2(n1,n0)`. -/
theorem C18_bases_ancestor_moved_witness : bases ancestorFirst ⟨"n2", ["n0", "n1"], []⟩ = ["n1", "n0"] := by
  decide

theorem sortDesc_id_of_sorted (key : String → Nat) (l : List String)
    (h : l.Pairwise (fun a b => key a ≥ key b)) : sortDesc key l = l := by
  induction l with
  | nil => rfl
  | cons x xs ih =>
    have hx := List.pairwise_cons.mp h
    rw [sortDesc, ih hx.2]
    cases xs with
    | nil => rfl
    | cons y ys =>
      have : ¬ key y > key x := by have := hx.1 y (List.mem_cons_self); omega
      simp [insertDesc, this]

/-- What the chain-length sort (`LISTsort(…, cmp_python_mro)`, removed by fixes/C18-7) did: identity exactly on lists
whose chain lengths are non-increasing … -/
theorem C18_legacy_sort_identity_on_sorted (key : String → Nat) (l : List String)
    (h : l.Pairwise (fun a b => key a ≥ key b)) : sortDesc key l = l :=
  sortDesc_id_of_sorted key l h

def shallowDeep : List Entity :=
  [⟨"g", [], []⟩, ⟨"p", ["g"], []⟩, ⟨"q", [], []⟩, ⟨"c", ["q", "p"], []⟩]

/-- … and a reordering otherwise: `ENTITY c SUBTYPE OF (q, p)` with `p` deeper than `q` was emitted as `class c(p,q)`. -/
theorem C18_legacy_bases_order_witness :
    sortDesc (chainLen shallowDeep shallowDeep.length) ["q", "p"] = ["p", "q"] := by
  decide

/-! ## one class per entity, legal names -/

/-- One class per entity, in entity order, named by the escaped entity name. -/
theorem C18_one_class_per_entity (s : Schema) :
    (moduleOf s).classes.length = s.entities.length ∧
    (moduleOf s).classes.map (·.name) = s.entities.map (fun e => pyName e.name) := by
  simp [moduleOf, classOf, List.map_map, Function.comp_def]

/-- One definition per defined type, named by the escaped type name. -/
theorem C18_one_definition_per_type (s : Schema) :
    (moduleOf s).types.map (·.name) = s.types.map (fun t => pyName t.name) := by
  simp [moduleOf, typeOf, List.map_map, Function.comp_def]

theorem stem_append_underscore (a : String) : stem (a ++ "_") = stem a := by
  simp [stem, String.toList_append]

theorem append_underscore_cancel (a b : String) (h : a ++ "_" = b ++ "_") : a = b := by
  have := congrArg String.toList h
  simp [String.toList_append] at this
  exact String.toList_inj.mp this

/-- **exp2python's `keyword_list[]` covers Python**: every hard keyword of the Python that runs the check
(`keyword.kwlist`, regenerated) that stepcode's EXPRESS scanner does not reserve (`keywords[]` of lexact.c, regenerated) — i.e.
every Python keyword a schema can use as an identifier — is in the regenerated `keyword_list[]`.  Three independently
regenerated lists; does not build when one is missing (`with` before fixes/C18-23). -/
theorem C18_keyword_list_covers_python : ∀ k ∈ Spec.pyKeywords, k ∈ pythonKeywords := by decide

/-- The specification's list is what it should be on this interpreter and scanner: the 21 keywords below, no more. -/
theorem C18_spec_keywords_are :
    Spec.pyKeywords = ["assert", "async", "await", "break", "class", "continue", "def", "del", "elif", "except", "finally",
      "global", "import", "is", "lambda", "nonlocal", "pass", "raise", "try", "with", "yield"] := by decide

/-- No emitted identifier is a Python keyword: for every EXPRESS identifier `n`, `pyName n` is not one of the Python
keywords that are legal EXPRESS identifiers (`Spec.pyKeywords`) — whichever of the two comparisons `is_python_keyword`
uses (regenerated `escapesStems`).  Depends on the regenerated `keyword_list[]`. -/
theorem C18_names_legal (n : String) : pyName n ∉ Spec.pyKeywords := by
  have h2 : ∀ k ∈ Spec.pyKeywords, k ∈ pythonKeywords := C18_keyword_list_covers_python
  have h3 : ∀ k ∈ Spec.pyKeywords, stem k = k := by decide
  have h4 : ∀ k ∈ Spec.pyKeywords, k.toList.getLast? ≠ some '_' := by decide
  have hl : (n ++ "_").toList.getLast? = some '_' := by simp [String.toList_append]
  unfold pyName
  split
  · exact fun hk => h4 _ hk hl
  · rename_i hm
    intro hk
    apply hm
    unfold keywordKey
    split
    · rw [h3 n hk]; exact h2 n hk
    · exact h2 n hk

/-- The emitted module imports the runtime package that is bundled (`src/exp2python/python/stepcode`). -/
theorem C18_imports_bundled_package (s : Schema) : (moduleOf s).package = "stepcode" := by
  simp [moduleOf, runtimePackage]

/-! ## constructor parameters -/

/-- The constructor takes the inherited parameters first (numbered `inherited<i>__…` consecutively from 0), then the
entity's own explicit attributes in declaration order; derived and inverse attributes never appear. -/
theorem C18_ctor_inherited_then_own (es : List Entity) (e : Entity) :
    ctorParams es e = numbered 0 (inheritedAttrs es e) ++ (e.attrs.filter isParam).map (fun a => pyName a.name) ∧
    (∀ a ∈ inheritedAttrs es e, a.kind = .explicit ∨ a.kind = .optional) := by
  refine ⟨rfl, ?_⟩
  intro a ha
  have := (List.mem_filter.mp ha).2
  simp only [isParam, Bool.or_eq_true, beq_iff_eq] at this
  exact this

theorem flatMap_congr' {α β} (l : List α) (f g : α → List β) (h : ∀ x ∈ l, f x = g x) :
    l.flatMap f = l.flatMap g := by
  induction l with
  | nil => rfl
  | cons x xs ih =>
    simp only [List.flatMap_cons]
    rw [h x List.mem_cons_self, ih (fun y hy => h y (List.mem_cons_of_mem _ hy))]

theorem allAttrs_eq_declAttrs (es : List Entity) (f : Nat) (e : Entity) :
    allAttrs es f e = Spec.declAttrs es f e := by
  induction f generalizing e with
  | zero => rfl
  | succ f ih =>
    have hb : superOrder es e = e.supers := by simp [superOrder, sortsBases]
    simp only [allAttrs, Spec.declAttrs, hb]
    congr 1
    apply flatMap_congr'
    intro p _
    cases find es p with
    | none => rfl
    | some pe => exact ih pe

/-- The constructor takes the inherited-then-own explicit attributes **in Part 21 order** (supertypes in declaration
order, recursively, every inherited attribute once — also for diamonds), for every schema and entity.  Depends on the
regenerated `sortsBases = false` and `inheritedOnce = true`. -/
theorem C18_ctor_p21_order (es : List Entity) (e : Entity) : ctorAttrNames es e = Spec.ctorAttrNames es e := by
  have hb : superOrder es e = e.supers := by simp [superOrder, sortsBases]
  have h : inheritedAll es e = e.supers.flatMap (fun p => match find es p with
      | some pe => Spec.declAttrs es es.length pe
      | none => []) := by
    simp only [inheritedAll, hb]
    apply flatMap_congr'
    intro p _
    cases find es p with
    | none => rfl
    | some pe => exact allAttrs_eq_declAttrs es es.length pe
  have h2 : inheritedAttrs es e = (Spec.inheritedP21 es e).filter isParam := by
    unfold inheritedAttrs Spec.inheritedP21
    rw [h]
    rfl
  unfold ctorAttrNames Spec.ctorAttrNames
  rw [h2]

/-- The emitted parameter list is that attribute sequence, inherited ones renamed `inherited<i>__…` with consecutive
numbers from 0, own ones under their (escaped) names. -/
theorem C18_ctor_params_shape (es : List Entity) (e : Entity) :
    (ctorParams es e).length = (ctorAttrNames es e).length := by
  have hn : ∀ (l : List Attr) (i : Nat), (numbered i l).length = l.length := by
    intro l; induction l with
    | nil => intro i; rfl
    | cons a as ih => intro i; simp [numbered, ih]
  simp [ctorParams, ctorAttrNames, ownParams, hn]

def diamond : List Entity :=
  [⟨"root", [], [{ owner := "root", name := "x", kind := .explicit }]⟩, ⟨"l", ["root"], []⟩, ⟨"r", ["root"], []⟩, ⟨"d", ["l", "r"], []⟩]

/-- A diamond: `d` takes `root.x` once. -/
example : ctorParams diamond ⟨"d", ["l", "r"], []⟩ = ["inherited0__x"] := by decide

/-- Before fixes/C18-8 the inherited parameters were collected once per supertype *path*: the diamond's `d` took
`root.x` twice, Part 21 lists it once. -/
theorem C18_legacy_ctor_diamond_witness :
    numbered 0 ((inheritedAll diamond ⟨"d", ["l", "r"], []⟩).filter isParam) = ["inherited0__x", "inherited1__x"] ∧
    Spec.ctorAttrNames diamond ⟨"d", ["l", "r"], []⟩ = ["x"] := by
  decide

/-! ## the escaping is injective up to the trailing underscore -/

/-- Two different identifiers get different Python names — always when `is_python_keyword` compares stems (regenerated
`escapesStems`, fixes/C18-13); with the plain `strcmp` the one exception is an escaped keyword `k` and a declared
identifier `k_` (e.g. `class` and `class_`), which collide. -/
theorem C18_escaping_injective (a b : String) (h : pyName a = pyName b) :
    a = b ∨ (escapesStems = false ∧ ((a ∈ pythonKeywords ∧ b = a ++ "_") ∨ (b ∈ pythonKeywords ∧ a = b ++ "_"))) := by
  unfold pyName at h
  cases hs : escapesStems with
  | false =>
    have hkey : ∀ x, keywordKey x = x := by intro x; simp [keywordKey, hs]
    rw [hkey, hkey] at h
    by_cases ha : a ∈ pythonKeywords <;> by_cases hb : b ∈ pythonKeywords
    · rw [if_pos ha, if_pos hb] at h; exact Or.inl (append_underscore_cancel a b h)
    · rw [if_pos ha, if_neg hb] at h; exact Or.inr ⟨rfl, Or.inl ⟨ha, h.symm⟩⟩
    · rw [if_neg ha, if_pos hb] at h; exact Or.inr ⟨rfl, Or.inr ⟨hb, h⟩⟩
    · rw [if_neg ha, if_neg hb] at h; exact Or.inl h
  | true =>
    left
    have hkey : ∀ x, keywordKey x = stem x := by intro x; simp [keywordKey, hs]
    rw [hkey, hkey] at h
    by_cases ha : stem a ∈ pythonKeywords <;> by_cases hb : stem b ∈ pythonKeywords
    · rw [if_pos ha, if_pos hb] at h; exact append_underscore_cancel a b h
    · rw [if_pos ha, if_neg hb] at h
      exact absurd (by rw [← h, stem_append_underscore]; exact ha) hb
    · rw [if_neg ha, if_pos hb] at h
      exact absurd (by rw [h, stem_append_underscore]; exact hb) ha
    · rw [if_neg ha, if_neg hb] at h; exact h

/-- With the stem comparison the escaping is injective outright: one class per entity and one definition per type also
under their emitted names. -/
theorem C18_escaping_injective_when_stems_compared (hs : escapesStems = true) (a b : String) (h : pyName a = pyName b) :
    a = b := by
  rcases C18_escaping_injective a b h with h | ⟨hf, _⟩
  · exact h
  · rw [hs] at hf; cases hf

/-- The `strcmp` comparison (before fixes/C18-13) maps `class` and `class_` to the same Python name: two entities (or
types) so called end up as one class. -/
theorem C18_legacy_escaping_collision_witness :
    (if "class" ∈ pythonKeywords then "class" ++ "_" else "class") = (if "class_" ∈ pythonKeywords then "class_" ++ "_" else "class_") ∧
    "class" ≠ "class_" := by
  decide

/-- hypotheses are satisfiable -/
example : bases shallowDeep ⟨"c", ["q", "p"], []⟩ = ["q", "p"] :=
  C18_bases_decl_order_partial _ _ (by decide)

/-! ## ENTITYhas_ancestor decides the supertype relation -/

theorem isAncestor_sound (es : List Entity) : ∀ (f : Nat) (anc n : String), isAncestor es f anc n = true → Anc es anc n
  | 0, _, _, h => by simp [isAncestor] at h
  | f + 1, anc, n, h => by
    simp only [isAncestor] at h
    cases hf : find es n with
    | none => simp [hf] at h
    | some e =>
      simp only [hf, List.any_eq_true, Bool.or_eq_true, beq_iff_eq] at h
      obtain ⟨p, hp, hpa⟩ := h
      rcases hpa with rfl | hrec
      · exact Anc.direct hf hp
      · exact Anc.step hf hp (isAncestor_sound es f anc p hrec)

theorem isAncestor_mono (es : List Entity) : ∀ (f : Nat) (anc n : String),
    isAncestor es f anc n = true → isAncestor es (f + 1) anc n = true
  | 0, _, _, h => by simp [isAncestor] at h
  | f + 1, anc, n, h => by
    simp only [isAncestor] at h ⊢
    cases hf : find es n with
    | none => simp [hf] at h
    | some e =>
      simp only [hf, List.any_eq_true, Bool.or_eq_true, beq_iff_eq] at h ⊢
      obtain ⟨p, hp, hpa⟩ := h
      refine ⟨p, hp, ?_⟩
      rcases hpa with rfl | hrec
      · exact Or.inl rfl
      · exact Or.inr (isAncestor_mono es f anc p hrec)

theorem isAncestor_complete (es : List Entity) (anc n : String) (h : Anc es anc n) :
    ∃ f, isAncestor es f anc n = true := by
  induction h with
  | direct hf hm =>
    refine ⟨1, ?_⟩
    simp only [isAncestor, hf, List.any_eq_true, Bool.or_eq_true, beq_iff_eq]
    exact ⟨_, hm, Or.inl rfl⟩
  | step hf hm _ ih =>
    obtain ⟨f, hfa⟩ := ih
    refine ⟨f + 1, ?_⟩
    simp only [isAncestor, hf, List.any_eq_true, Bool.or_eq_true, beq_iff_eq]
    exact ⟨_, hm, Or.inr hfa⟩

/-- `ENTITYhas_ancestor` (recursion over *every* supertype) decides the transitive supertype relation: it answers true
with enough recursion depth exactly for the direct and indirect supertypes, and more depth never changes a true answer. -/
theorem C18_has_ancestor_decides (es : List Entity) (anc n : String) :
    (∃ f, isAncestor es f anc n = true) ↔ Anc es anc n :=
  ⟨fun ⟨f, h⟩ => isAncestor_sound es f anc n h, isAncestor_complete es anc n⟩

/-- the seeded shape: `item` is found as an ancestor of `managed_part`'s other supertype although the path runs through
the FIRST supertype of `tracked_part` -/
example : isAncestor
    [⟨"item", [], []⟩, ⟨"part", ["item"], []⟩, ⟨"audited", [], []⟩, ⟨"tracked_part", ["part", "audited"], []⟩] 4
    "item" "tracked_part" = true := by decide

/-! ## one pass, one module -/
namespace Pass

def NoCant (m : Marks) : Prop := ∀ k, m k ≠ .cantprocess

theorem noCant_set (m : Marks) (n : String) (v : Mark) (h : NoCant m) (hv : v ≠ .cantprocess) : NoCant (setMark m n v) := by
  intro k; unfold setMark; split
  · exact hv
  · exact h k

theorem enumCan_of_noCant (os : List Obj) (m : Marks) (e : String) (h : NoCant m) :
    enumCanBeProcessed os m e = true := by
  unfold enumCanBeProcessed
  cases hm : m e with
  | notknown =>
    simp only
    cases (lookup os e).bind (·.renameOf) with
    | none => rfl
    | some a => simp [enumRenameInSchemaOk]
  | canprocess => rfl
  | processed => rfl
  | cantprocess => exact absurd hm (h e)

def Good (s : St) : Prop := NoCant s.marks ∧ s.schemaUnprocessed = false

theorem checkItem_good (os : List Obj) (s : St) (parent item : String) (noSel : Bool) (h : Good s) :
    Good (checkItem os s parent item noSel).1 ∧ (checkItem os s parent item noSel).2 = false := by
  unfold checkItem
  cases lookup os item with
  | none => exact ⟨h, rfl⟩
  | some o =>
    simp only
    by_cases he : o.isEnum = true
    · simp only [he, if_true, enumCan_of_noCant os s.marks item h.1, Bool.not_true, Bool.false_eq_true, if_false]
      exact ⟨h, trivial⟩
    · simp only [he, Bool.false_eq_true, if_false]
      by_cases hs : (o.isSelect && !noSel) = true
      · simp only [hs, if_true]
        cases hm : s.marks item with
        | cantprocess => exact absurd hm (h.1 item)
        | notknown => exact ⟨⟨noCant_set _ _ _ h.1 (by decide), h.2⟩, rfl⟩
        | canprocess => exact ⟨h, rfl⟩
        | processed => exact ⟨h, rfl⟩
      · simp only [hs, Bool.false_eq_true, if_false]
        exact ⟨h, trivial⟩

theorem checkItems_good (os : List Obj) (parent : String) (noSel : Bool) (items : List String) (s : St) (h : Good s) :
    Good (checkItems os parent noSel s items).1 ∧ (checkItems os parent noSel s items).2 = false := by
  induction items generalizing s with
  | nil => exact ⟨h, rfl⟩
  | cons i is ih =>
    have hc := checkItem_good os s parent i noSel h
    simp only [checkItems]
    rw [show (checkItem os s parent i noSel) = ((checkItem os s parent i noSel).1, (checkItem os s parent i noSel).2) from rfl]
    simp only [hc.2, Bool.false_eq_true, if_false]
    exact ih _ hc.1

theorem visit_good (os : List Obj) (s : St) (o : Obj) (h : Good s) : Good (visit os s o) := by
  unfold visit
  split
  · exact h
  · have h1 : Good { s with marks := setMark s.marks o.name .canprocess } :=
      ⟨noCant_set _ _ _ h.1 (by decide), h.2⟩
    have h2 := checkItems_good os o.name false o.items _ h1
    simp only
    rw [show (checkItems os o.name false { s with marks := setMark s.marks o.name .canprocess } o.items) =
      ((checkItems os o.name false { s with marks := setMark s.marks o.name .canprocess } o.items).1,
       (checkItems os o.name false { s with marks := setMark s.marks o.name .canprocess } o.items).2) from rfl]
    simp only [h2.2, Bool.false_eq_true, if_false]
    exact (checkItems_good os o.name true o.entAttrTypes _ h2.1).1

theorem sweep_good (os order : List Obj) (s : St) (h : Good s) : Good (sweep os order s) := by
  unfold sweep
  induction order generalizing s with
  | nil => exact h
  | cons o rest ih => exact ih _ (visit_good os s o h)

theorem sweeps_good (os order : List Obj) (n : Nat) (s : St) (h : Good s) : Good (sweeps os order n s) := by
  induction n generalizing s with
  | zero => exact h
  | succ n ih => exact ih _ (sweep_good os order s h)

end Pass

/-- Every single-schema input is processed in one pass and written as exactly one module named after the schema: for
every set of types and entities, every symbol-table iteration order and any number of sweeps of `checkTypes`/`checkEnts`,
nothing is marked CANTPROCESS and the schema is not set back to UNPROCESSED.  Depends on the regenerated last case of
`ENUMcanBeProcessed` (`enumRenameInSchemaOk`). -/
theorem C18_single_schema_one_module (name : String) (os order : List Pass.Obj) (n : Nat) :
    Pass.filesOf name (Pass.sweeps os order n Pass.initial) = [name ++ ".py"] := by
  have h : Pass.Good Pass.initial := ⟨fun k => by simp [Pass.initial], rfl⟩
  have := (Pass.sweeps_good os order n _ h).2
  simp [Pass.filesOf, this]

/-! ## emission order of the defined types -/

namespace Order

theorem scan_respects (ts done : List DT) (h : RespectsOriginals done) : RespectsOriginals (scan done ts) := by
  induction ts generalizing done with
  | nil => exact h
  | cons t ts ih =>
    simp only [scan]
    split
    · exact ih done h
    · cases hh : t.head with
      | none =>
        simp only
        apply ih
        exact ⟨fun x hx => (by rw [hh] at hx; cases hx), h⟩
      | some o =>
        simp only
        split
        · rename_i hw
          apply ih
          exact ⟨fun x hx => (by rw [hh] at hx; cases hx; exact hw), h⟩
        · exact ih done h

theorem scans_respects (order : List DT) (n : Nat) (done : List DT) (h : RespectsOriginals done) :
    RespectsOriginals (scans order n done) := by
  induction n generalizing done with
  | zero => exact h
  | succ n ih => exact ih _ (scan_respects order done h)

end Order

/-- Emission order of the defined types: for every set of defined types and every symbol-table (hash) order, each type is
written after the type it renames — so every `class t(original)` statement finds its base class.  Depends on the
regenerated `typeRescan` (the rescan loop of `SCOPEPrint`). -/
theorem C18_defined_types_written_after_their_original (order : List Order.DT) :
    Order.RespectsOriginals (Order.emitted order) := by
  unfold Order.emitted
  simp only [typeRescan, if_true]
  exact Order.scans_respects order _ [] trivial

/-- Without the rescan (seeded C18-b1) a chain `label <- short_label <- text` that leaves the dictionary most-derived
first is written `text` before `short_label`: `class text(short_label)` raises NameError at import. -/
theorem C18_single_scan_order_witness :
    (Order.leftovers (Order.scan [] [⟨"text", some "short_label"⟩, ⟨"short_label", some "label"⟩, ⟨"label", none⟩])
      [⟨"text", some "short_label"⟩, ⟨"short_label", some "label"⟩, ⟨"label", none⟩]).reverse.map (·.name)
      = ["label", "text", "short_label"] := by
  decide

/-! ## nested aggregate type expressions -/

def AggT.levels : AggT → List (String × Int × Option Int)
  | .leaf _ => []
  | .agg k lo hi i => (k, lo, hi) :: AggT.levels i

def AggT.leafName : AggT → String
  | .leaf b => b
  | .agg _ _ _ i => AggT.leafName i

/-- An aggregate of aggregates is emitted level by level with the declared kind and bounds at every level, over the
(escaped) declared base type name — for every nesting depth. -/
theorem C18_aggregate_levels_mirrored (a : AggT) :
    AggT.levels (a.mapLeaf pyName) = AggT.levels a ∧ AggT.leafName (a.mapLeaf pyName) = pyName (AggT.leafName a) := by
  induction a with
  | leaf b => exact ⟨rfl, rfl⟩
  | agg k lo hi i ih => exact ⟨by simp [AggT.mapLeaf, AggT.levels, ih.1], by simp [AggT.mapLeaf, AggT.leafName, ih.2]⟩

/-- Exactly one level of an emitted aggregate expression carries `scope = schema_scope`: the innermost one, the level
whose base type is given by name (the runtime looks a name up in the scope of the level that holds it). -/
theorem C18_aggregate_scope_at_innermost_level (a : AggT) (h : 1 ≤ a.depth) : a.scopedLevels = [a.depth - 1] := by
  induction a with
  | leaf b => simp [AggT.depth] at h
  | agg k lo hi i ih =>
    cases i with
    | leaf b => simp [AggT.scopedLevels, AggT.depth]
    | agg k' lo' hi' i' =>
      have hd : 1 ≤ (AggT.agg k' lo' hi' i').depth := by simp [AggT.depth]
      have := ih hd
      simp only [AggT.scopedLevels, AggT.depth] at this ⊢
      rw [this]
      simp

/-! ## emission order of the entity classes -/

namespace EntityOrder

theorem anc_trans {es : List Entity} {a b c : String} (h1 : Anc es a b) (h2 : Anc es b c) : Anc es a c := by
  induction h2 with
  | direct hf hm => exact Anc.step hf hm h1
  | step hf hm _ ih => exact Anc.step hf hm ih

/-- the supertypes of `n` that are defined in the scope -/
def inScopeSupers (es : List Entity) (n : String) : List String :=
  match find es n with
  | none => []
  | some e => e.supers.filter (fun p => (find es p).isSome)

/-- every entity stands after all its in-scope supertypes -/
def Sorted (es : List Entity) (out : List String) : Prop :=
  ∀ (i : Nat) (n : String), out[i]? = some n → ∀ p ∈ inScopeSupers es n, ∃ j : Nat, j < i ∧ out[j]? = some p

theorem sorted_snoc (es : List Entity) (out : List String) (n : String) (h : Sorted es out)
    (hs : ∀ p ∈ inScopeSupers es n, p ∈ out) : Sorted es (out ++ [n]) := by
  unfold Sorted at h ⊢
  intro i m hi p hp
  by_cases hlt : i < out.length
  · rw [List.getElem?_append_left hlt] at hi
    obtain ⟨j, hj, hjp⟩ := h i m hi p hp
    exact ⟨j, hj, by rw [List.getElem?_append_left (by omega)]; exact hjp⟩
  · have hge : out.length ≤ i := by omega
    rw [List.getElem?_append_right hge] at hi
    have hi0 : i - out.length = 0 := by
      cases hk : i - out.length with
      | zero => rfl
      | succ k => rw [hk] at hi; simp at hi
    rw [hi0] at hi
    simp at hi
    subst hi
    obtain ⟨j, hjl, hj⟩ := List.getElem_of_mem (hs p hp)
    exact ⟨j, by omega, by rw [List.getElem?_append_left hjl, List.getElem?_eq_getElem hjl, hj]⟩

def Acyclic (es : List Entity) : Prop := ∀ x, ¬ Anc es x x

/-- what one `SCOPE_dfs` call guarantees -/
def Post (es : List Entity) (out out' : List String) : Prop :=
  Sorted es out' ∧ (∀ x ∈ out, x ∈ out')

theorem dfs_spec (es : List Entity) (hac : Acyclic es) :
    ∀ (f : Nat) (stack out : List String) (n : String) (out' : List String),
      Sorted es out → (∀ s ∈ stack, Anc es n s) → dfs es f stack out n = some out' →
      Post es out out' ∧ ((find es n).isSome → n ∈ out') := by
  intro f
  induction f with
  | zero => intro stack out n out' _ _ h; simp [dfs] at h
  | succ f ih =>
    intro stack out n out' hs hst h
    simp only [dfs] at h
    by_cases hm : n ∈ out ∨ n ∈ stack
    · rw [if_pos hm] at h
      cases h
      refine ⟨⟨hs, fun x hx => hx⟩, fun _ => ?_⟩
      rcases hm with ho | hk
      · exact ho
      · exact absurd (hst n hk) (hac n)
    · rw [if_neg hm] at h
      cases hf : find es n with
      | none =>
        rw [hf] at h; cases h
        exact ⟨⟨hs, fun x hx => hx⟩, fun hh => by simp at hh⟩
      | some e =>
        rw [hf] at h
        simp only [Option.map_eq_some_iff] at h
        obtain ⟨o, hfold, rfl⟩ := h
        -- the loop over the supertypes
        have loop : ∀ (ps : List String) (o0 o1 : List String), (∀ p ∈ ps, p ∈ e.supers) → Sorted es o0 →
            ps.foldlM (fun o p => dfs es f (n :: stack) o p) o0 = some o1 →
            Sorted es o1 ∧ (∀ x ∈ o0, x ∈ o1) ∧ (∀ p ∈ ps, (find es p).isSome → p ∈ o1) := by
          intro ps
          induction ps with
          | nil => intro o0 o1 _ hs0 hh; simp at hh; subst hh; exact ⟨hs0, fun x hx => hx, fun p hp => by cases hp⟩
          | cons p ps ihp =>
            intro o0 o1 hsub hs0 hh
            simp only [List.foldlM_cons, Option.bind_eq_bind, Option.bind_eq_some_iff] at hh
            obtain ⟨om, hcall, hrest⟩ := hh
            have hpn : Anc es p n := Anc.direct hf (hsub p List.mem_cons_self)
            have hst' : ∀ s ∈ n :: stack, Anc es p s := by
              intro s hs'
              rcases List.mem_cons.mp hs' with rfl | hs'
              · exact hpn
              · exact anc_trans hpn (hst s hs')
            obtain ⟨⟨hsm, hmono⟩, hin⟩ := ih (n :: stack) o0 p om hs0 hst' hcall
            obtain ⟨hs1, hmono1, hall⟩ := ihp om o1 (fun q hq => hsub q (List.mem_cons_of_mem _ hq)) hsm hrest
            refine ⟨hs1, fun x hx => hmono1 x (hmono x hx), ?_⟩
            intro q hq hqs
            rcases List.mem_cons.mp hq with rfl | hq
            · exact hmono1 _ (hin hqs)
            · exact hall q hq hqs
        obtain ⟨hso, hmono, hall⟩ := loop e.supers out o (fun p hp => hp) hs hfold
        refine ⟨⟨?_, fun x hx => List.mem_append_left _ (hmono x hx)⟩, fun _ => by simp⟩
        apply sorted_snoc es o n hso
        intro p hp
        simp only [inScopeSupers, hf, List.mem_filter] at hp
        exact hall p hp.1 hp.2

end EntityOrder

/-- Emission order of the entity classes: for every acyclic schema and every symbol-table (hash) order of the roots,
whenever the recursion completes, each entity class is written after the classes of all its supertypes defined in the
schema — so every `class e(s1, s2, …)` statement finds its base classes — and every entity of the schema that is a
root is written. -/
theorem C18_entities_written_after_their_supertypes (es : List Entity) (hac : EntityOrder.Acyclic es)
    (fuel : Nat) (roots out : List String) (h : EntityOrder.order es fuel roots = some out) :
    EntityOrder.Sorted es out ∧ ∀ r ∈ roots, (find es r).isSome → r ∈ out := by
  unfold EntityOrder.order at h
  have loop : ∀ (rs : List String) (o0 o1 : List String), EntityOrder.Sorted es o0 →
      rs.foldlM (fun o r => EntityOrder.dfs es fuel [] o r) o0 = some o1 →
      EntityOrder.Sorted es o1 ∧ (∀ x ∈ o0, x ∈ o1) ∧ (∀ r ∈ rs, (find es r).isSome → r ∈ o1) := by
    intro rs
    induction rs with
    | nil => intro o0 o1 hs0 hh; simp at hh; subst hh; exact ⟨hs0, fun x hx => hx, fun r hr => by cases hr⟩
    | cons r rs ihr =>
      intro o0 o1 hs0 hh
      simp only [List.foldlM_cons, Option.bind_eq_bind, Option.bind_eq_some_iff] at hh
      obtain ⟨om, hcall, hrest⟩ := hh
      obtain ⟨⟨hsm, hmono⟩, hin⟩ := EntityOrder.dfs_spec es hac fuel [] o0 r om hs0 (fun s hs => by cases hs) hcall
      obtain ⟨hs1, hmono1, hall⟩ := ihr om o1 hsm hrest
      refine ⟨hs1, fun x hx => hmono1 x (hmono x hx), ?_⟩
      intro q hq hqs
      rcases List.mem_cons.mp hq with rfl | hq
      · exact hmono1 _ (hin hqs)
      · exact hall q hq hqs
  have h0 : EntityOrder.Sorted es [] := by unfold EntityOrder.Sorted; intro i n hi; simp at hi
  obtain ⟨hs, _, hall⟩ := loop roots [] out h0 h
  exact ⟨hs, hall⟩


/-! ## the class body: attribute properties -/

/-- One property per own attribute, in attribute order, under the escaped attribute name; no property name is a Python
keyword. -/
theorem C18_one_property_per_attribute (e : Entity) :
    (propsOf e).map (·.name) = e.attrs.map (fun a => pyName a.name) ∧
    ∀ p ∈ propsOf e, p.name ∉ Spec.pyKeywords := by
  refine ⟨by simp [propsOf, propOf, List.map_map, Function.comp_def], ?_⟩
  intro p hp
  simp only [propsOf, List.mem_map] at hp
  obtain ⟨a, _, rfl⟩ := hp
  exact C18_names_legal a.name

/-- Derived and inverse attributes are read-only (their setter raises), explicit attributes are settable: mandatory
ones refuse `None`, OPTIONAL ones store it. -/
theorem C18_property_access (a : Attr) :
    ((propOf a).settable = true ↔ isParam a = true) ∧
    ((propOf a).access = .mandatory ↔ a.kind = .explicit) ∧ ((propOf a).access = .optional ↔ a.kind = .optional) := by
  cases hk : a.kind <;> simp [propOf, PyProp.settable, accessOf, isParam, hk]

/-- The settable properties of a class are exactly its constructor's own parameters, in the same order: what the
constructor takes for the entity's own attributes is what the class body lets the client set. -/
theorem C18_settable_properties_are_own_ctor_params (e : Entity) :
    ((propsOf e).filter (·.settable)).map (·.name) = ownParams e := by
  unfold propsOf ownParams
  induction e.attrs with
  | nil => rfl
  | cons a as ih =>
    have h := (C18_property_access a).1
    by_cases hp : isParam a = true
    · have hs : (propOf a).settable = true := h.mpr hp
      simp only [List.map_cons, List.filter_cons, hs, hp, if_true, ih]
      simp [propOf]
    · have hs : ¬ (propOf a).settable = true := fun hh => hp (h.mp hh)
      simp only [List.map_cons, List.filter_cons, hs, hp, if_false, ih, Bool.false_eq_true]

/-- A settable property checks the assigned value against the emitted definition of the attribute's declared type: the
builtin class for a simple type, the escaped name for a defined type or an entity (the class or alias the module
defines under that name), an inline aggregate expression otherwise. -/
theorem C18_setter_checks_declared_type (a : Attr) (h : isParam a = true) :
    (propOf a).checks = (match a.ty with
      | .simple py => some py
      | .boolean => some "BOOLEAN"
      | .named n => some (pyName n)
      | .aggregate => none) := by
  simp only [propOf, h, if_true, checkedName]
  cases a.ty <;> rfl

/-! ## enumeration and select definitions -/

/-- An enumeration is emitted under its escaped name with one item per declared item, every item escaped on its own (an
item that is a Python keyword gets the underscore whatever the enumeration is called), none of them a keyword; distinct
items stay distinct (with the `strcmp` comparison: unless one is a keyword `k` and another is literally `k_`). -/
theorem C18_enumeration_items_mirrored (n : String) (items : List String) :
    typeOf ⟨n, .enum items⟩ = ⟨pyName n, .enum (items.map pyName)⟩ ∧
    (∀ i ∈ items.map pyName, i ∉ Spec.pyKeywords) ∧
    (∀ a ∈ items, ∀ b ∈ items, pyName a = pyName b →
      a = b ∨ (escapesStems = false ∧ ((a ∈ pythonKeywords ∧ b = a ++ "_") ∨ (b ∈ pythonKeywords ∧ a = b ++ "_")))) := by
  refine ⟨rfl, ?_, fun a _ b _ h => C18_escaping_injective a b h⟩
  intro i hi
  obtain ⟨x, _, rfl⟩ := List.mem_map.mp hi
  exact C18_names_legal x

/-- A select is emitted under its escaped name with one member per declared member, every member escaped on its own —
independently of the select's own name (seeded C18-b2) — so that each names the class the module defines for it. -/
theorem C18_select_members_mirrored (n : String) (ms : List String) :
    typeOf ⟨n, .select ms⟩ = ⟨pyName n, .select (ms.map pyName)⟩ ∧
    ∀ (es : List Entity) (m : String), m ∈ ms → (∃ e ∈ es, e.name = m) →
      ∃ c ∈ es.map (classOf es), c.name = pyName m := by
  refine ⟨rfl, ?_⟩
  intro es m _ ⟨e, he, hn⟩
  exact ⟨classOf es e, List.mem_map.mpr ⟨e, he, rfl⟩, by simp [classOf, hn]⟩

/-! ## the recursion depth always suffices -/

namespace EntityOrder


theorem nodup_subset_length_le {α} [DecidableEq α] : ∀ (l m : List α), l.Nodup → (∀ x ∈ l, x ∈ m) → l.length ≤ m.length
  | [], _, _, _ => Nat.zero_le _
  | a :: l, m, hn, hs => by
    have ha : a ∈ m := hs a List.mem_cons_self
    have hn' := List.nodup_cons.mp hn
    have hsub : ∀ x ∈ l, x ∈ m.erase a := by
      intro x hx
      have hne : x ≠ a := fun h => hn'.1 (h ▸ hx)
      exact (List.mem_erase_of_ne hne).mpr (hs x (List.mem_cons_of_mem _ hx))
    have := nodup_subset_length_le l (m.erase a) hn'.2 hsub
    rw [List.length_erase_of_mem ha] at this
    have hpos : 0 < m.length := List.length_pos_of_mem ha
    simp only [List.length_cons]; omega

theorem find_some_name_mem {es : List Entity} {n : String} {e : Entity} (h : find es n = some e) :
    n ∈ es.map (·.name) := by
  unfold find at h
  have hm := List.mem_of_find?_eq_some h
  have hp := List.find?_some h
  simp only [beq_iff_eq] at hp
  exact List.mem_map.mpr ⟨e, hm, hp⟩

/-- the recursion never runs out of depth: the stack holds distinct entities of the schema, so `fuel + |stack|` above
the number of entities is enough — marks (not acyclicity) bound the depth -/
theorem dfs_completes (es : List Entity) :
    ∀ (f : Nat) (stack out : List String) (n : String),
      stack.Nodup → (∀ s ∈ stack, s ∈ es.map (·.name)) → es.length < f + stack.length →
      ∃ out', dfs es f stack out n = some out' := by
  intro f
  induction f with
  | zero =>
    intro stack out n hnd hsub hlt
    have := nodup_subset_length_le stack (es.map (·.name)) hnd hsub
    simp at this; omega
  | succ f ih =>
    intro stack out n hnd hsub hlt
    simp only [dfs]
    by_cases hm : n ∈ out ∨ n ∈ stack
    · rw [if_pos hm]; exact ⟨out, rfl⟩
    · rw [if_neg hm]
      cases hf : find es n with
      | none => exact ⟨out, rfl⟩
      | some e =>
        simp only
        have hns : n ∉ stack := fun h => hm (Or.inr h)
        have hnd' : (n :: stack).Nodup := List.nodup_cons.mpr ⟨hns, hnd⟩
        have hsub' : ∀ s ∈ n :: stack, s ∈ es.map (·.name) := by
          intro s hs
          rcases List.mem_cons.mp hs with rfl | hs
          · exact find_some_name_mem hf
          · exact hsub s hs
        have hlt' : es.length < f + (n :: stack).length := by simp only [List.length_cons]; omega
        have loop : ∀ (ps : List String) (o : List String),
            ∃ o', ps.foldlM (fun o p => dfs es f (n :: stack) o p) o = some o' := by
          intro ps
          induction ps with
          | nil => intro o; exact ⟨o, rfl⟩
          | cons p ps ihp =>
            intro o
            obtain ⟨om, hom⟩ := ih (n :: stack) o p hnd' hsub' hlt'
            obtain ⟨o', ho'⟩ := ihp om
            exact ⟨o', by simp only [List.foldlM_cons, hom]; exact ho'⟩
        obtain ⟨o, ho⟩ := loop e.supers out
        exact ⟨o ++ [n], by rw [ho]; rfl⟩

theorem order_completes (es : List Entity) (roots : List String) :
    ∃ out, order es (es.length + 1) roots = some out := by
  unfold order
  have loop : ∀ (rs : List String) (o : List String),
      ∃ o', rs.foldlM (fun o r => dfs es (es.length + 1) [] o r) o = some o' := by
    intro rs
    induction rs with
    | nil => intro o; exact ⟨o, rfl⟩
    | cons r rs ih =>
      intro o
      obtain ⟨om, hom⟩ := dfs_completes es (es.length + 1) [] o r List.nodup_nil (fun s hs => by cases hs) (by simp)
      obtain ⟨o', ho'⟩ := ih om
      exact ⟨o', by simp only [List.foldlM_cons, hom]; exact ho'⟩
  exact loop roots []

end EntityOrder

/-- Emission order of the entity classes, unconditionally: a recursion depth of (number of entities + 1) always suffices
(the marks keep the recursion stack duplicate-free, so it never holds more than every entity of the schema), and for an
acyclic schema and every symbol-table order of the roots every entity class is written after the classes of all its
supertypes defined in the schema. -/
theorem C18_entities_written_after_their_supertypes_total (es : List Entity) (hac : EntityOrder.Acyclic es)
    (roots : List String) :
    ∃ out, EntityOrder.order es (es.length + 1) roots = some out ∧ EntityOrder.Sorted es out ∧
      ∀ r ∈ roots, (find es r).isSome → r ∈ out := by
  obtain ⟨out, ho⟩ := EntityOrder.order_completes es roots
  exact ⟨out, ho, C18_entities_written_after_their_supertypes es hac _ roots out ho⟩

/-! ## the recursion depth of `ENTITYhas_ancestor` suffices -/

namespace EntityOrder

/-- a supertype path from `n` up to `anc`; the list holds the entities passed, `n` first, `anc` excluded -/
inductive Path (es : List Entity) : String → String → List String → Prop
  | direct {anc n : String} {e : Entity} : find es n = some e → anc ∈ e.supers → Path es anc n [n]
  | step {anc p n : String} {e : Entity} {l : List String} :
      find es n = some e → p ∈ e.supers → Path es anc p l → Path es anc n (n :: l)

theorem path_of_anc {es : List Entity} {anc n : String} (h : Anc es anc n) : ∃ l, Path es anc n l := by
  induction h with
  | direct hf hm => exact ⟨_, Path.direct hf hm⟩
  | step hf hm _ ih => obtain ⟨l, hl⟩ := ih; exact ⟨_, Path.step hf hm hl⟩

theorem isAncestor_of_path {es : List Entity} {anc n : String} {l : List String} (h : Path es anc n l) :
    isAncestor es l.length anc n = true := by
  induction h with
  | direct hf hm =>
    simp only [List.length_singleton, isAncestor, hf, List.any_eq_true, Bool.or_eq_true, beq_iff_eq]
    exact ⟨_, hm, Or.inl rfl⟩
  | step hf hm _ ih =>
    simp only [List.length_cons, isAncestor, hf, List.any_eq_true, Bool.or_eq_true, beq_iff_eq]
    exact ⟨_, hm, Or.inr ih⟩

theorem path_nodes {es : List Entity} {anc n : String} {l : List String} (h : Path es anc n l) :
    (∀ s ∈ l, s = n ∨ Anc es s n) ∧ (∀ s ∈ l, s ∈ es.map (·.name)) := by
  induction h with
  | direct hf hm =>
    refine ⟨fun s hs => Or.inl (by simpa using hs), fun s hs => ?_⟩
    rw [List.mem_singleton] at hs
    subst hs; exact find_some_name_mem hf
  | step hf hm _ ih =>
    refine ⟨fun s hs => ?_, fun s hs => ?_⟩
    · rcases List.mem_cons.mp hs with rfl | hs
      · exact Or.inl rfl
      · rcases ih.1 s hs with rfl | ha
        · exact Or.inr (Anc.direct hf hm)
        · exact Or.inr (anc_trans ha (Anc.direct hf hm))
    · rcases List.mem_cons.mp hs with rfl | hs
      · exact find_some_name_mem hf
      · exact ih.2 s hs

theorem path_nodup {es : List Entity} (hac : Acyclic es) {anc n : String} {l : List String} (h : Path es anc n l) :
    l.Nodup := by
  induction h with
  | direct _ _ => simp
  | @step p' n' e' l' hf hm hp ih =>
    refine List.nodup_cons.mpr ⟨?_, ih⟩
    intro hn
    have hpn : Anc es p' n' := Anc.direct hf hm
    rcases (path_nodes hp).1 n' hn with rfl | ha
    · exact hac _ hpn
    · exact hac _ (anc_trans ha hpn)

theorem isAncestor_mono_le (es : List Entity) (anc n : String) :
    ∀ (f g : Nat), f ≤ g → isAncestor es f anc n = true → isAncestor es g anc n = true := by
  intro f g hle h
  induction hle with
  | refl => exact h
  | step _ ih => exact isAncestor_mono es _ anc n ih

end EntityOrder

/-- `ENTITYhas_ancestor` with a recursion depth of the number of entities decides the supertype relation on acyclic
schemas: the depth the model gives it always suffices (a supertype path never repeats an entity). -/
theorem C18_has_ancestor_depth_suffices (es : List Entity) (hac : EntityOrder.Acyclic es) (anc n : String) :
    isAncestor es es.length anc n = true ↔ Anc es anc n := by
  constructor
  · exact isAncestor_sound es es.length anc n
  · intro h
    obtain ⟨l, hl⟩ := EntityOrder.path_of_anc h
    have hlen : l.length ≤ es.length := by
      have := EntityOrder.nodup_subset_length_le l (es.map (·.name)) (EntityOrder.path_nodup hac hl) (EntityOrder.path_nodes hl).2
      simpa using this
    exact EntityOrder.isAncestor_mono_le es anc n _ _ hlen (EntityOrder.isAncestor_of_path hl)


/-- Base classes are the supertypes in declaration order whenever no listed supertype is a (direct or indirect) supertype
of another listed one — stated with the supertype relation itself (`Anc`) for acyclic schemas. -/
theorem C18_bases_decl_order_of_unrelated_supertypes (es : List Entity) (hac : EntityOrder.Acyclic es) (e : Entity)
    (h : ∀ r ∈ e.supers, ∀ o ∈ e.supers, ¬ Anc es r o) : bases es e = e.supers := by
  apply C18_bases_decl_order_partial
  intro r hr o ho
  cases hb : isAncestor es es.length r o with
  | false => rfl
  | true => exact absurd ((C18_has_ancestor_depth_suffices es hac r o).mp hb) (h r hr o ho)

/-! ## the bodies of derived-attribute getters and WHERE-rule methods -/

namespace Body

/-- the attributes an expression refers to -/
def attrsOf : Expr → List String
  | .attr n => [n]
  | .selfAttr n => [n]
  | .un _ x => attrsOf x
  | .bin _ l r => attrsOf l ++ attrsOf r
  | _ => []

/-- an XOR whose right operand is an XOR occurs in the expression -/
def xorRightNested : Expr → Bool
  | .un _ x => xorRightNested x
  | .bin op l r => (op == .xor && isXor r) || xorRightNested l || xorRightNested r
  | _ => false

/-- the declared attribute names keep apart under the escaping (always, once `is_python_keyword` compares stems) -/
def NamesDistinct (env : List (String × V)) : Prop :=
  ∀ a ∈ env.map (·.1), ∀ b ∈ env.map (·.1), pyName a = pyName b → a = b

theorem lookup_mem {env : List (String × V)} {n : String} {v : V} (h : lookup env n = some v) : n ∈ env.map (·.1) := by
  induction env with
  | nil => simp [lookup] at h
  | cons p rest ih =>
    obtain ⟨k, w⟩ := p
    simp only [lookup] at h
    by_cases hk : k = n
    · simp [hk]
    · rw [if_neg hk] at h; simp [ih h]

theorem lookup_instance {env : List (String × V)} (hd : NamesDistinct env) {n : String} {v : V}
    (h : lookup env n = some v) : lookup (instanceOf env) (pyName n) = some v := by
  induction env with
  | nil => simp [lookup] at h
  | cons p rest ih =>
    obtain ⟨k, w⟩ := p
    simp only [lookup] at h
    simp only [instanceOf, List.map_cons, lookup]
    by_cases hk : k = n
    · rw [if_pos hk] at h; rw [if_pos (by rw [hk])]; exact h
    · rw [if_neg hk] at h
      have hn : n ∈ (((k, w) :: rest).map (·.1)) := by simp [lookup_mem h]
      have hne : ¬ pyName k = pyName n := fun hh => hk (hd k (by simp) n hn hh)
      rw [if_neg hne]
      exact ih (fun a ha b hb => hd a (by simp at ha ⊢; exact Or.inr ha) b (by simp at hb ⊢; exact Or.inr hb)) h

theorem applyBin_spec (op : BinOp) (a b v : V) (h : Spec.Body.binSpec op a b = some v) : applyBin op.py a b = v := by
  cases a with
  | int x =>
    cases b with
    | int y => cases op <;> simp [Spec.Body.binSpec] at h <;> subst h <;> simp [applyBin, BinOp.py, cmpOp, V.toInt] <;> congr
    | bool y => simp [Spec.Body.binSpec] at h
  | bool x =>
    cases b with
    | int y => simp [Spec.Body.binSpec] at h
    | bool y =>
      cases op <;> simp [Spec.Body.binSpec] at h <;> subst h <;> cases x <;> cases y <;>
        simp [applyBin, BinOp.py, cmpOp, V.toInt, V.truthy]

theorem applyUn_spec (op : UnOp) (a v : V) (h : Spec.Body.unSpec op a = some v) : applyUn op a = v := by
  cases op <;> cases a <;> simp [Spec.Body.unSpec] at h <;> subst h <;> simp [applyUn, V.truthy, V.toInt]

theorem pyEval_un (inst : List (String × V)) (op : UnOp) (x : PyExpr) (a : V) (h : pyEval inst x = some a) :
    pyEval inst (.un op x) = some (applyUn op a) := by
  unfold pyEval at h ⊢
  cases hx : pyEvalF inst x with
  | none => simp [hx] at h
  | some q => simp [hx] at h; simp [pyEvalF, hx, h]

theorem pyEval_bin (inst : List (String × V)) (op : PyOp) (l r : PyExpr) (a b : V)
    (hl : pyEval inst l = some a) (hr : pyEval inst r = some b) : pyEval inst (.bin op l r) = some (applyBin op a b) := by
  unfold pyEval at hl hr ⊢
  cases hx : pyEvalF inst l with
  | none => simp [hx] at hl
  | some q =>
    cases hy : pyEvalF inst r with
    | none => simp [hy] at hr
    | some q' => simp [hx] at hl; simp [hy] at hr; simp [pyEvalF, hx, hy, hl, hr]

theorem readAttr_eval (c : Cfg) (env : List (String × V)) (hd : NamesDistinct env) (n : String) (v : V) (p : PyExpr)
    (hk : c.escapes = true ∨ pyName n = n) (hs : lookup env n = some v) (hr : readAttr c n = some p) :
    pyEval (instanceOf env) p = some v := by
  unfold readAttr at hr
  have hl := lookup_instance hd hs
  cases he : c.escapes with
  | true =>
    rw [he] at hr; simp only [if_true] at hr
    injection hr with hr; subst hr
    simp [pyEval, pyEvalF, hl]
  | false =>
    rw [he] at hr
    have hn : pyName n = n := by
      rcases hk with hk | hk
      · rw [he] at hk; cases hk
      · exact hk
    by_cases hkw : n ∈ Spec.pyKeywords
    · simp [hkw] at hr
    · simp only [Bool.false_eq_true, if_false, if_neg hkw] at hr
      injection hr with hr; subst hr
      rw [hn] at hl
      simp [pyEval, pyEvalF, hl]

/-- the main lemma: whenever the reference gives the expression a value and the written text is Python, Python's
evaluation of what it reads gives that value -/
theorem body_value (c : Cfg) (env : List (String × V)) (hd : NamesDistinct env) :
    ∀ (e : Expr) (v : V) (p : PyExpr),
      (c.xorSkips = false ∨ xorRightNested e = false) →
      (c.escapes = true ∨ ∀ n ∈ attrsOf e, pyName n = n) →
      Spec.Body.eval env e = some v → readWith c e = some p →
      pyEval (instanceOf env) p = some v := by
  intro e
  induction e with
  | int n => intro v p _ _ hs hr; simp [Spec.Body.eval] at hs; simp [readWith] at hr; subst hs; subst hr; rfl
  | tt => intro v p _ _ hs hr; simp [Spec.Body.eval] at hs; simp [readWith] at hr; subst hs; subst hr; simp [pyEval, pyEvalF]
  | ff => intro v p _ _ hs hr; simp [Spec.Body.eval] at hs; simp [readWith] at hr; subst hs; subst hr; simp [pyEval, pyEvalF]
  | attr n =>
    intro v p _ hk hs hr
    exact readAttr_eval c env hd n v p (hk.imp id (fun h => h n (by simp [attrsOf]))) hs hr
  | selfAttr n =>
    intro v p _ hk hs hr
    exact readAttr_eval c env hd n v p (hk.imp id (fun h => h n (by simp [attrsOf]))) hs hr
  | un op x ih =>
    intro v p hx hk hs hr
    simp only [readWith] at hr
    cases hpx : readWith c x with
    | none => simp [hpx] at hr
    | some px =>
      simp only [hpx, Option.map_some] at hr
      injection hr with hr; subst hr
      simp only [Spec.Body.eval] at hs
      cases hvx : Spec.Body.eval env x with
      | none => simp [hvx] at hs
      | some vx =>
        rw [hvx] at hs
        have hf := ih vx px (by simpa [xorRightNested] using hx) (by simpa [attrsOf] using hk) hvx hpx
        rw [pyEval_un _ op px vx hf, applyUn_spec op vx v (by simpa using hs)]
  | bin op l r ihl ihr =>
    intro v p hx hk hs hr
    simp only [readWith] at hr
    cases hpl : readWith c l with
    | none => simp [hpl] at hr
    | some pl =>
      cases hpr : readWith c r with
      | none => simp [hpl, hpr] at hr
      | some pr =>
        simp only [hpl, hpr] at hr
        have hnc : ¬ (op = .xor ∧ c.xorSkips = true ∧ isXor r = true) := by
          rintro ⟨h1, h2, h3⟩
          rcases hx with hx | hx
          · rw [h2] at hx; cases hx
          · simp [xorRightNested, h1, h3] at hx
        rw [if_neg hnc] at hr
        injection hr with hr; subst hr
        have hxl : c.xorSkips = false ∨ xorRightNested l = false := by
          rcases hx with hx | hx
          · exact Or.inl hx
          · right; simp [xorRightNested] at hx; exact hx.1.2
        have hxr : c.xorSkips = false ∨ xorRightNested r = false := by
          rcases hx with hx | hx
          · exact Or.inl hx
          · right; simp [xorRightNested] at hx; exact hx.2
        have hkl : c.escapes = true ∨ ∀ n ∈ attrsOf l, pyName n = n :=
          hk.imp id (fun h n hn => h n (by simp [attrsOf, hn]))
        have hkr : c.escapes = true ∨ ∀ n ∈ attrsOf r, pyName n = n :=
          hk.imp id (fun h n hn => h n (by simp [attrsOf, hn]))
        simp only [Spec.Body.eval] at hs
        cases hvl : Spec.Body.eval env l with
        | none => simp [hvl] at hs
        | some vl =>
          cases hvr : Spec.Body.eval env r with
          | none => simp [hvl, hvr] at hs
          | some vr =>
            simp only [hvl, hvr] at hs
            rw [pyEval_bin _ op.py pl pr vl vr (ihl vl pl hxl hkl hvl hpl) (ihr vr pr hxr hkr hvr hpr),
              applyBin_spec op vl vr v hs]

theorem readAttr_isSome (c : Cfg) (n : String) :
    (readAttr c n).isSome = true ↔ (c.escapes = true ∨ n ∉ Spec.pyKeywords) := by
  unfold readAttr
  cases c.escapes with
  | true => simp
  | false => by_cases h : n ∈ Spec.pyKeywords <;> simp [h]

theorem readWith_isSome (c : Cfg) (e : Expr) :
    (readWith c e).isSome = true ↔ (c.escapes = true ∨ ∀ n ∈ attrsOf e, n ∉ Spec.pyKeywords) := by
  induction e with
  | int n => simp [readWith, attrsOf]
  | tt => simp [readWith, attrsOf]
  | ff => simp [readWith, attrsOf]
  | attr n => simp [readWith, attrsOf, readAttr_isSome]
  | selfAttr n => simp [readWith, attrsOf, readAttr_isSome]
  | un op x ih => simpa [readWith, attrsOf] using ih
  | bin op l r ihl ihr =>
    have : (readWith c (.bin op l r)).isSome = true ↔ ((readWith c l).isSome = true ∧ (readWith c r).isSome = true) := by
      simp only [readWith]
      cases readWith c l <;> cases readWith c r <;> simp
    rw [this, ihl, ihr]
    simp only [attrsOf, List.mem_append]
    constructor
    · rintro ⟨h1 | h1, h2 | h2⟩
      · exact Or.inl h1
      · exact Or.inl h1
      · exact Or.inl h2
      · exact Or.inr (fun n hn => hn.elim (h1 n) (h2 n))
    · rintro (h | h)
      · exact ⟨Or.inl h, Or.inl h⟩
      · exact ⟨Or.inr (fun n hn => h n (Or.inl hn)), Or.inr (fun n hn => h n (Or.inr hn))⟩

end Body

open Body in
/-- **The body of a derived-attribute getter / WHERE-rule method is Python exactly when** the printer escapes the
attribute references (regenerated `bodyEscapesKeywords`, fixes/C18-14) or the expression refers to no attribute named
like a Python keyword (`self.class` is what is written otherwise) — for every expression of the fragment. -/
theorem C18_body_compiles_iff (e : Body.Expr) :
    (Body.read e).isSome = true ↔ (bodyEscapesKeywords = true ∨ ∀ n ∈ Body.attrsOf e, n ∉ Spec.pyKeywords) :=
  Body.readWith_isSome Body.cfg e

theorem Body.ruleNameWith_legal (c : Body.Cfg) (label : String) :
    ((Body.ruleNameWith c label).isSome = true ↔ (c.escapes = true ∨ label ∉ Spec.pyKeywords)) ∧
    ∀ n, Body.ruleNameWith c label = some n → n ∉ Spec.pyKeywords := by
  unfold Body.ruleNameWith
  cases c.escapes with
  | true =>
    refine ⟨by simp, ?_⟩
    intro n hn
    simp at hn
    rw [← hn]; exact C18_names_legal label
  | false =>
    by_cases h : label ∈ Spec.pyKeywords
    · simp [h]
    · refine ⟨by simp [h], ?_⟩
      intro n hn
      simp [h] at hn
      rw [← hn]; exact h

/-- A WHERE rule becomes a method under a legal name exactly when the label is escaped or is no Python keyword; a name
that is written is never a keyword. -/
theorem C18_rule_method_name_legal (label : String) :
    ((Body.ruleNameWith Body.cfg label).isSome = true ↔ (bodyEscapesKeywords = true ∨ label ∉ Spec.pyKeywords)) ∧
    ∀ n, Body.ruleNameWith Body.cfg label = some n → n ∉ Spec.pyKeywords :=
  Body.ruleNameWith_legal Body.cfg label

/-- Once `is_python_keyword` compares stems (fixes/C18-13) the declared attribute names always keep apart under the
escaping. -/
theorem C18_body_names_distinct_when_stems_compared (hs : escapesStems = true) (env : List (String × Body.V)) :
    Body.NamesDistinct env :=
  fun a _ b _ h => C18_escaping_injective_when_stems_compared hs a b h

/-- **The getter of a derived attribute returns the value EXPRESS gives the expression** (in particular it is total: no
exception), on every instance whose attributes hold values of their declared types — for every expression of the fragment
(integer literals, TRUE, FALSE, attribute references also through SELF, NOT, unary minus, + - * and the value comparisons
on INTEGER, AND OR XOR = <> on BOOLEAN) that is well-typed (`Spec.Body.eval` defined).  Excluded: an XOR that is the
right operand of an XOR while the printer leaves out its parentheses (regenerated `xorSkipsParentheses`; see the witness);
references to keyword-named attributes while they are not escaped; attribute names that collide under the escaping. -/
theorem C18_derived_getter_value_partial (env : List (String × Body.V)) (hd : Body.NamesDistinct env)
    (e : Body.Expr) (v : Body.V) (p : Body.PyExpr)
    (hx : xorSkipsParentheses = false ∨ Body.xorRightNested e = false)
    (hk : bodyEscapesKeywords = true ∨ ∀ n ∈ Body.attrsOf e, pyName n = n)
    (hs : Spec.Body.eval env e = some v) (hr : Body.read e = some p) :
    Body.pyEval (Body.instanceOf env) p = some v :=
  Body.body_value Body.cfg env hd e v p hx hk hs hr

/-- The emitted rule method returns TRUE when the rule holds and raises AssertionError when it is violated — never
anything else — under the conditions of `C18_derived_getter_value_partial`. -/
theorem C18_where_rule_verdict_partial (env : List (String × Body.V)) (hd : Body.NamesDistinct env)
    (e : Body.Expr) (b : Bool) (p : Body.PyExpr)
    (hx : xorSkipsParentheses = false ∨ Body.xorRightNested e = false)
    (hk : bodyEscapesKeywords = true ∨ ∀ n ∈ Body.attrsOf e, pyName n = n)
    (hs : Spec.Body.rule env e = some b) (hr : Body.read e = some p) :
    Body.ruleRun (Body.instanceOf env) p = (if b then .returns (.bool true) else .assertionError) := by
  unfold Spec.Body.rule at hs
  cases hv : Spec.Body.eval env e with
  | none => simp [hv] at hs
  | some v =>
    cases v with
    | int i => simp [hv] at hs
    | bool b' =>
      simp [hv] at hs; subst hs
      have := C18_derived_getter_value_partial env hd e (.bool b') p hx hk hv hr
      unfold Body.ruleRun
      rw [this]
      cases b' <;> simp [Body.V.truthy]

/-- With the parentheses left out (`previous_op` handed down for XOR, before fixes/C18-16) `p XOR (q XOR p)` is written
`(self.p != self.q != self.p)`, which Python reads as the chained comparison `p != q and q != p`: for p = TRUE,
q = FALSE the getter returns TRUE where EXPRESS gives FALSE. -/
theorem C18_legacy_xor_chain_witness :
    let e : Body.Expr := .bin .xor (.attr "p") (.bin .xor (.attr "q") (.attr "p"))
    let env : List (String × Body.V) := [("p", .bool true), ("q", .bool false)]
    Body.readWith ⟨true, true⟩ e = some (.chain .ne (.attr "p") (.bin .ne (.attr "q") (.attr "p"))) ∧
    Spec.Body.eval env e = some (.bool false) ∧
    (Body.readWith ⟨true, true⟩ e).bind (Body.pyEval (Body.instanceOf env)) = some (.bool true) := by
  decide


/-! ## the same statements on the tree as it is: regenerated ties (each stops the build on a tree without the repair) and
the unconditional corollaries -/

/-- regenerated tie: `is_python_keyword` compares stems (fixes/C18-13) -/
theorem C18_tie_escapes_stems : escapesStems = true := rfl
/-- regenerated tie: attribute references and rule labels in bodies are keyword-escaped (fixes/C18-14) -/
theorem C18_tie_body_escapes_keywords : bodyEscapesKeywords = true := rfl
/-- regenerated tie: a nested XOR keeps its parentheses (fixes/C18-16) -/
theorem C18_tie_xor_parenthesised : xorSkipsParentheses = false := rfl

/-- The escaping is injective: two different EXPRESS identifiers never share a Python name. -/
theorem C18_escaping_is_injective (a b : String) (h : pyName a = pyName b) : a = b :=
  C18_escaping_injective_when_stems_compared C18_tie_escapes_stems a b h

/-- Every body of the fragment is Python. -/
theorem C18_body_compiles (e : Body.Expr) : (Body.read e).isSome = true :=
  (C18_body_compiles_iff e).mpr (Or.inl C18_tie_body_escapes_keywords)

/-- **The getter of a derived attribute is Python, raises nothing and returns the value EXPRESS gives the expression** on
every instance whose attributes hold values of their declared types — for every well-typed expression of the fragment
(`Spec.Body.eval` defined), no exclusions. -/
theorem C18_derived_getter_value (env : List (String × Body.V)) (e : Body.Expr) (v : Body.V)
    (hs : Spec.Body.eval env e = some v) :
    ∃ p, Body.read e = some p ∧ Body.pyEval (Body.instanceOf env) p = some v := by
  cases hr : Body.read e with
  | none => have := C18_body_compiles e; rw [hr] at this; cases this
  | some p =>
    exact ⟨p, rfl, C18_derived_getter_value_partial env (C18_body_names_distinct_when_stems_compared C18_tie_escapes_stems env)
      e v p (Or.inl C18_tie_xor_parenthesised) (Or.inl C18_tie_body_escapes_keywords) hs hr⟩

/-- **A WHERE-rule method returns TRUE when the rule holds and raises AssertionError when it is violated** — nothing else —
for every well-typed rule expression of the fragment. -/
theorem C18_where_rule_verdict (env : List (String × Body.V)) (e : Body.Expr) (b : Bool)
    (hs : Spec.Body.rule env e = some b) :
    ∃ p, Body.read e = some p ∧
      Body.ruleRun (Body.instanceOf env) p = (if b then .returns (.bool true) else .assertionError) := by
  cases hr : Body.read e with
  | none => have := C18_body_compiles e; rw [hr] at this; cases this
  | some p =>
    exact ⟨p, rfl, C18_where_rule_verdict_partial env (C18_body_names_distinct_when_stems_compared C18_tie_escapes_stems env)
      e b p (Or.inl C18_tie_xor_parenthesised) (Or.inl C18_tie_body_escapes_keywords) hs hr⟩

/-! ## REPEAT with an increment control -/

theorem Body.pyRange_inclusive (f : Nat) (a b s : Int) (hs : s ≠ 0) :
    Body.pyRange f a (b + (if s > 0 then 1 else -1)) s = Spec.Body.repeatValues f a b s := by
  induction f generalizing a with
  | zero => rfl
  | succ f ih =>
    simp only [Body.pyRange, Spec.Body.repeatValues]
    by_cases hp : s > 0
    · have hn : ¬ s < 0 := by omega
      simp only [hp, hn, if_true, true_and, false_and, or_false]
      by_cases h : a > b
      · have : ¬ a < b + 1 := by omega
        simp [h, this]
      · have : a < b + 1 := by omega
        have ih' := ih (a + s)
        simp only [hp, if_true] at ih'
        simp [h, this, ih']
    · have hn : s < 0 := by omega
      simp only [hp, hn, if_false, true_and, false_and, false_or]
      by_cases h : a < b
      · have : ¬ a > b + -1 := by omega
        simp [h, this]
      · have : a > b + -1 := by omega
        have ih' := ih (a + s)
        simp only [hp, if_false] at ih'
        simp [h, this, ih']

/-- regenerated tie: `LOOPpyout` writes the stop value one step past the bound (fixes/C18-20).  Does not build on a tree
that writes `range(a,b,s)`. -/
theorem C18_tie_repeat_bound_inclusive : repeatBoundInclusive = true := rfl

/-- **`REPEAT i := a TO b BY s` runs over exactly the values ISO 10303-11 13.9.1 gives the loop variable**: with the stop
value `LOOPpyout` writes (`(b) + (1 if (s) > 0 else -1)`, tie above), Python's `range(a, stop, s)` yields the same values
in the same order — for all bounds and every non-zero increment, to any length. -/
theorem C18_repeat_range_inclusive (f : Nat) (a b s : Int) (hs : s ≠ 0) :
    Body.pyRange f a (Body.stopWritten b s) s = Spec.Body.repeatValues f a b s := by
  unfold Body.stopWritten
  rw [C18_tie_repeat_bound_inclusive]
  exact Body.pyRange_inclusive f a b s hs

/-- With the bound itself as the stop value (`range(a,b,s)`, before fixes/C18-20) the last value is lost:
`REPEAT i := 1 TO 3` runs over 1, 2 and `REPEAT i := 3 TO 1 BY -1` over 3, 2. -/
theorem C18_legacy_repeat_range_witness :
    Body.pyRange 10 1 3 1 = [1, 2] ∧ Spec.Body.repeatValues 10 1 3 1 = [1, 2, 3] ∧
    Body.pyRange 10 3 1 (-1) = [3, 2] ∧ Spec.Body.repeatValues 10 3 1 (-1) = [3, 2, 1] := by
  decide


/-! ## the constructor's inherited parameters, stated with the supertype relation (independent of the fold that computes them) -/

theorem mem_dedup (a : Attr) : ∀ l : List Attr, a ∈ dedup l ↔ a ∈ l
  | [] => by simp [dedup]
  | b :: l => by
    simp only [dedup, List.mem_cons, List.mem_filter, decide_eq_true_eq, mem_dedup a l]
    constructor
    · rintro (h | ⟨h, _⟩)
      · exact Or.inl h
      · exact Or.inr h
    · rintro (h | h)
      · exact Or.inl h
      · by_cases hab : a = b
        · exact Or.inl hab
        · exact Or.inr ⟨h, hab⟩

theorem nodup_dedup : ∀ l : List Attr, (dedup l).Nodup
  | [] => by simp [dedup]
  | b :: l => by
    simp only [dedup]
    refine List.nodup_cons.mpr ⟨?_, (nodup_dedup l).filter _⟩
    simp [List.mem_filter]

theorem superOrder_eq (es : List Entity) (e : Entity) : superOrder es e = e.supers := by simp [superOrder, sortsBases]

theorem own_mem_allAttrs (es : List Entity) (a : Attr) : ∀ (f : Nat) (e : Entity), a ∈ e.attrs → a ∈ allAttrs es f e
  | 0, _, h => h
  | _ + 1, _, h => by simp only [allAttrs, List.mem_append]; exact Or.inr h

theorem allAttrs_sound (es : List Entity) (a : Attr) :
    ∀ (f : Nat) (n : String) (pe : Entity), find es n = some pe → a ∈ allAttrs es f pe →
      a ∈ pe.attrs ∨ ∃ anc ae, Anc es anc n ∧ find es anc = some ae ∧ a ∈ ae.attrs
  | 0, _, _, _, h => Or.inl h
  | f + 1, n, pe, hf, h => by
    simp only [allAttrs, superOrder_eq, List.mem_append, List.mem_flatMap] at h
    rcases h with ⟨p, hp, hm⟩ | h
    · cases hfp : find es p with
      | none => simp [hfp] at hm
      | some ppe =>
        simp only [hfp] at hm
        rcases allAttrs_sound es a f p ppe hfp hm with h1 | ⟨anc, ae, hanc, hfa, ha⟩
        · exact Or.inr ⟨p, ppe, Anc.direct hf hp, hfp, h1⟩
        · exact Or.inr ⟨anc, ae, Anc.step hf hp hanc, hfa, ha⟩
    · exact Or.inl h

theorem allAttrs_complete (es : List Entity) (a : Attr) {anc n : String} {l : List String} (hp : EntityOrder.Path es anc n l) :
    ∀ (f : Nat) (pe ae : Entity), l.length ≤ f → find es n = some pe → find es anc = some ae → a ∈ ae.attrs →
      a ∈ allAttrs es f pe := by
  induction hp with
  | @direct n' e' hf hm =>
    intro f pe ae hle hfn hfa ha
    rw [hf] at hfn; injection hfn with hfn; subst hfn
    cases f with
    | zero => simp at hle
    | succ g =>
      simp only [allAttrs, superOrder_eq, List.mem_append, List.mem_flatMap]
      exact Or.inl ⟨anc, hm, by simp only [hfa]; exact own_mem_allAttrs es a g ae ha⟩
  | @step p' n' e' l' hf hm hpath ih =>
    intro f pe ae hle hfn hfa ha
    rw [hf] at hfn; injection hfn with hfn; subst hfn
    cases f with
    | zero => simp at hle
    | succ g =>
      simp only [List.length_cons] at hle
      obtain ⟨ppe, hfp⟩ : ∃ ppe, find es p' = some ppe := by
        cases hpath with
        | direct hf' _ => exact ⟨_, hf'⟩
        | step hf' _ _ => exact ⟨_, hf'⟩
      simp only [allAttrs, superOrder_eq, List.mem_append, List.mem_flatMap]
      exact Or.inl ⟨p', hm, by simp only [hfp]; exact ih g ppe ae (by omega) hfp hfa ha⟩

/-- **The inherited constructor parameters are exactly the explicit attributes of the entity's direct and indirect
supertypes, each once** — stated with the supertype relation `Anc` itself, not with the fold that computes the list: for
every acyclic schema and entity, an attribute is among them iff it is explicit (or OPTIONAL) and declared by a supertype
`p` of the entity or by an ancestor of such a `p`; and the list has no duplicates.  (Their *order* — Part 21 order — is
`C18_ctor_p21_order`, a consistency lemma between two folds, and the oracle's comparison with the emitted constructor.) -/
theorem C18_ctor_inherits_exactly_the_supertypes_explicit_attributes (es : List Entity) (hac : EntityOrder.Acyclic es)
    (e : Entity) :
    (∀ a, a ∈ inheritedAttrs es e ↔
      (isParam a = true ∧ ∃ p ∈ e.supers, ∃ anc ae, (anc = p ∨ Anc es anc p) ∧ find es anc = some ae ∧ a ∈ ae.attrs)) ∧
    (inheritedAttrs es e).Nodup := by
  have hio : inheritedOnce = true := rfl
  constructor
  · intro a
    simp only [inheritedAttrs, hio, if_true, List.mem_filter, mem_dedup, inheritedAll, superOrder_eq, List.mem_flatMap]
    constructor
    · rintro ⟨⟨p, hp, hm⟩, hpar⟩
      refine ⟨hpar, p, hp, ?_⟩
      cases hfp : find es p with
      | none => simp [hfp] at hm
      | some pe =>
        simp only [hfp] at hm
        rcases allAttrs_sound es a es.length p pe hfp hm with h1 | ⟨anc, ae, hanc, hfa, ha⟩
        · exact ⟨p, pe, Or.inl rfl, hfp, h1⟩
        · exact ⟨anc, ae, Or.inr hanc, hfa, ha⟩
    · rintro ⟨hpar, p, hp, anc, ae, hrel, hfa, ha⟩
      refine ⟨⟨p, hp, ?_⟩, hpar⟩
      rcases hrel with rfl | hanc
      · simp only [hfa]; exact own_mem_allAttrs es a _ ae ha
      · obtain ⟨l, hl⟩ := EntityOrder.path_of_anc hanc
        have hlen : l.length ≤ es.length := by
          have := EntityOrder.nodup_subset_length_le l (es.map (·.name)) (EntityOrder.path_nodup hac hl) (EntityOrder.path_nodes hl).2
          simpa using this
        obtain ⟨pe, hfp⟩ : ∃ pe, find es p = some pe := by
          cases hl with
          | direct hf' _ => exact ⟨_, hf'⟩
          | step hf' _ _ => exact ⟨_, hf'⟩
        simp only [hfp]
        exact allAttrs_complete es a hl es.length pe ae hlen hfp hfa ha
  · simp only [inheritedAttrs, hio, if_true]
    exact (nodup_dedup _).filter _


/-! ## the order of the inherited constructor parameters: a supertype's attributes come first -/

/-- `a` occurs in `l` at a position with no `b` before it: the first `a` precedes every `b` -/
def FirstBefore (a b : Attr) (l : List Attr) : Prop := ∃ l1 l2, l = l1 ++ a :: l2 ∧ b ∉ l1

theorem FirstBefore.append_right {a b : Attr} {l : List Attr} (m : List Attr) (h : FirstBefore a b l) : FirstBefore a b (l ++ m) := by
  obtain ⟨l1, l2, rfl, hb⟩ := h
  exact ⟨l1, l2 ++ m, by simp, hb⟩

theorem FirstBefore.append_left {a b : Attr} {l : List Attr} (m : List Attr) (hm : b ∉ m) (h : FirstBefore a b l) :
    FirstBefore a b (m ++ l) := by
  obtain ⟨l1, l2, rfl, hb⟩ := h
  exact ⟨m ++ l1, l2, by simp, by simp [hm, hb]⟩

theorem FirstBefore.of_mem {a b : Attr} {m : List Attr} (l : List Attr) (ha : a ∈ m) (hb : b ∉ m) : FirstBefore a b (m ++ l) := by
  obtain ⟨l1, l2, rfl⟩ := List.append_of_mem ha
  exact ⟨l1, l2 ++ l, by simp, fun h => hb (by simp [h])⟩

theorem FirstBefore.flatMap {α} {a b : Attr} (g : α → List Attr) :
    ∀ ps : List α, (∀ p ∈ ps, b ∈ g p → FirstBefore a b (g p)) → b ∈ ps.flatMap g → FirstBefore a b (ps.flatMap g)
  | [], _, h => by simp at h
  | p :: rest, hall, h => by
    simp only [List.flatMap_cons] at h ⊢
    by_cases hbp : b ∈ g p
    · exact (hall p List.mem_cons_self hbp).append_right _
    · have hr : b ∈ rest.flatMap g := by
        rcases List.mem_append.mp h with h | h
        · exact absurd h hbp
        · exact h
      exact (FirstBefore.flatMap g rest (fun q hq => hall q (List.mem_cons_of_mem _ hq)) hr).append_left _ hbp

theorem FirstBefore.filter {a b : Attr} (p : Attr → Bool) {l : List Attr} (h : FirstBefore a b l) (ha : p a = true) :
    FirstBefore a b (l.filter p) := by
  obtain ⟨l1, l2, rfl, hb⟩ := h
  refine ⟨l1.filter p, l2.filter p, by simp [ha], fun hm => hb (List.mem_filter.mp hm).1⟩

theorem FirstBefore.dedup {a b : Attr} (hab : a ≠ b) : ∀ l : List Attr, FirstBefore a b l → FirstBefore a b (dedup l)
  | [], h => by obtain ⟨l1, l2, h, _⟩ := h; simp at h
  | x :: xs, h => by
    obtain ⟨l1, l2, heq, hb⟩ := h
    simp only [GenPy.dedup]
    cases l1 with
    | nil =>
      simp only [List.nil_append, List.cons.injEq] at heq
      obtain ⟨rfl, _⟩ := heq
      exact ⟨[], _, rfl, by simp⟩
    | cons y l1' =>
      simp only [List.cons_append, List.cons.injEq] at heq
      obtain ⟨rfl, hxs⟩ := heq
      have hxb : x ≠ b := fun h => hb (by simp [h])
      have ih := FirstBefore.dedup hab xs ⟨l1', l2, hxs, fun h => hb (List.mem_cons_of_mem _ h)⟩
      by_cases hxa : x = a
      · subst hxa; exact ⟨[], _, rfl, by simp⟩
      · have hf := ih.filter (fun c => decide (c ≠ x)) (by simpa using fun h => hxa h.symm)
        obtain ⟨m1, m2, hm, hbm⟩ := hf
        exact ⟨x :: m1, m2, by rw [List.cons_append]; exact congrArg (x :: ·) hm, by simp [hbm, Ne.symm hxb]⟩

/-- an attribute record belongs to one entity only (records carry their owner) -/
def OwnersDistinct (es : List Entity) : Prop :=
  ∀ (x : Attr) (n m : String) (en em : Entity), find es n = some en → find es m = some em → x ∈ en.attrs → x ∈ em.attrs → n = m

theorem path_length_pos {es : List Entity} {anc n : String} {l : List String} (h : EntityOrder.Path es anc n l) : 0 < l.length := by
  cases h <;> simp

theorem path_head_find {es : List Entity} {anc n : String} {l : List String} (h : EntityOrder.Path es anc n l) :
    ∃ e, find es n = some e := by
  cases h with
  | direct hf _ => exact ⟨_, hf⟩
  | step hf _ _ => exact ⟨_, hf⟩

/-- the main lemma: below any chain of subtypes (`stack`), with the fuel that is left, in `ENTITYget_all_attributes` of `n`
the first `a` precedes every `b` -/
theorem allAttrs_firstBefore (es : List Entity) (hac : EntityOrder.Acyclic es) (hown : OwnersDistinct es)
    {A B : String} {ae be : Entity} (hanc : Anc es A B) (hfA : find es A = some ae) (hfB : find es B = some be)
    {a b : Attr} (ha : a ∈ ae.attrs) (hb : b ∈ be.attrs) :
    ∀ (f : Nat) (n : String) (X : Entity) (stack : List String), find es n = some X → stack.Nodup →
      (∀ s ∈ stack, Anc es n s) → (∀ s ∈ stack, s ∈ es.map (·.name)) → es.length ≤ f + stack.length →
      b ∈ allAttrs es f X → FirstBefore a b (allAttrs es f X) := by
  -- when `b` is an own attribute of `n`, `n` is `B`, and the path from `A` fits into the fuel
  have key : ∀ (f : Nat) (n : String) (X : Entity) (stack : List String), find es n = some X → stack.Nodup →
      (∀ s ∈ stack, Anc es n s) → (∀ s ∈ stack, s ∈ es.map (·.name)) → es.length ≤ f + stack.length →
      b ∈ X.attrs → n = B ∧ a ∈ allAttrs es f X ∧ a ∉ X.attrs ∧ 0 < f := by
    intro f n X stack hfX hnd hdesc hnames hfuel hbX
    have hnB : n = B := hown b n B X be hfX hfB hbX hb
    subst hnB
    obtain ⟨l, hl⟩ := EntityOrder.path_of_anc hanc
    have hdisj : ∀ s ∈ l, s ∉ stack := by
      intro s hs hst
      rcases (EntityOrder.path_nodes hl).1 s hs with rfl | hsn
      · exact hac _ (hdesc _ hst)
      · exact hac _ (EntityOrder.anc_trans hsn (hdesc s hst))
    have hlen : l.length + stack.length ≤ es.length := by
      have hnd' : (l ++ stack).Nodup := List.nodup_append.mpr ⟨EntityOrder.path_nodup hac hl, hnd, fun x hx y hy hxy => hdisj x hx (hxy ▸ hy)⟩
      have := EntityOrder.nodup_subset_length_le (l ++ stack) (es.map (·.name)) hnd'
        (fun x hx => (List.mem_append.mp hx).elim ((EntityOrder.path_nodes hl).2 x) (hnames x))
      simpa using this
    have hpos := path_length_pos hl
    have hlf : l.length ≤ f := by omega
    refine ⟨rfl, allAttrs_complete es a hl f X ae hlf hfX hfA ha, ?_, by omega⟩
    intro haX
    have : A = n := hown a A n ae X hfA hfX ha haX
    subst this
    exact hac _ hanc
  intro f
  induction f with
  | zero =>
    intro n X stack hfX hnd hdesc hnames hfuel hbm
    have := (key 0 n X stack hfX hnd hdesc hnames hfuel hbm).2.2.2
    omega
  | succ g ih =>
    intro n X stack hfX hnd hdesc hnames hfuel hbm
    simp only [allAttrs, superOrder_eq] at hbm ⊢
    by_cases hbf : b ∈ X.supers.flatMap (fun p => match find es p with | some pe => allAttrs es g pe | none => [])
    · refine (FirstBefore.flatMap _ X.supers ?_ hbf).append_right _
      intro p hp hbp
      cases hfp : find es p with
      | none => simp [hfp] at hbp
      | some P =>
        simp only [hfp] at hbp ⊢
        have hpn : Anc es p n := Anc.direct hfX hp
        have hnn : n ∉ stack := fun h => hac _ (hdesc n h)
        refine ih p P (n :: stack) hfp (List.nodup_cons.mpr ⟨hnn, hnd⟩) ?_ ?_ (by simp only [List.length_cons]; omega) hbp
        · intro s hs
          rcases List.mem_cons.mp hs with rfl | hs
          · exact hpn
          · exact EntityOrder.anc_trans hpn (hdesc s hs)
        · intro s hs
          rcases List.mem_cons.mp hs with rfl | hs
          · exact EntityOrder.find_some_name_mem hfX
          · exact hnames s hs
    · have hbX : b ∈ X.attrs := by
        rcases List.mem_append.mp hbm with h | h
        · exact absurd h hbf
        · exact h
      obtain ⟨_, haall, hanX, _⟩ := key (g + 1) n X stack hfX hnd hdesc hnames hfuel hbX
      simp only [allAttrs, superOrder_eq] at haall
      have haf : a ∈ X.supers.flatMap (fun p => match find es p with | some pe => allAttrs es g pe | none => []) := by
        rcases List.mem_append.mp haall with h | h
        · exact h
        · exact absurd h hanX
      exact FirstBefore.of_mem _ haf hbf

/-- **In the constructor a supertype's attributes come before its subtypes' attributes** — Part 21 order stated with the
supertype relation and positions, not with the fold that computes the list: for every acyclic schema whose attribute
records belong to one entity each, every entity `e`, every `A` that is a direct or indirect supertype of `B`, every
explicit attribute `a` of `A` and every attribute `b` of `B` that the constructor of `e` takes: `a` occurs in the inherited
parameter list at a position with no `b` before it.  (With `C18_ctor_inherits_exactly_the_supertypes_explicit_attributes`
— membership, each once — and `C18_ctor_inherited_then_own` — own attributes last — this fixes the order up to the order
among unrelated supertypes, which is the declaration order by `C18_ctor_p21_order` and the oracle.) -/
theorem C18_ctor_supertype_attributes_first (es : List Entity) (hac : EntityOrder.Acyclic es) (hown : OwnersDistinct es)
    (e : Entity) {A B : String} {ae be : Entity} (hanc : Anc es A B) (hfA : find es A = some ae) (hfB : find es B = some be)
    {a b : Attr} (ha : a ∈ ae.attrs) (hb : b ∈ be.attrs) (hpa : isParam a = true) (hbin : b ∈ inheritedAttrs es e) :
    FirstBefore a b (inheritedAttrs es e) := by
  have hio : inheritedOnce = true := rfl
  have hab : a ≠ b := by
    intro h; subst h
    exact hac _ ((hown a A B ae be hfA hfB ha hb) ▸ hanc)
  simp only [inheritedAttrs, hio, if_true] at hbin ⊢
  have hbL : b ∈ inheritedAll es e := (mem_dedup b _).mp (List.mem_filter.mp hbin).1
  refine ((FirstBefore.dedup hab _ ?_)).filter _ hpa
  simp only [inheritedAll, superOrder_eq] at hbL ⊢
  refine FirstBefore.flatMap _ e.supers ?_ hbL
  intro p _ hbp
  cases hfp : find es p with
  | none => simp [hfp] at hbp
  | some P =>
    simp only [hfp] at hbp ⊢
    exact allAttrs_firstBefore es hac hown hanc hfA hfB ha hb es.length p P [] hfp List.nodup_nil
      (fun s hs => by simp at hs) (fun s hs => by simp at hs) (by simp) hbp


/-! ### the hypotheses are satisfiable -/

theorem acyclic_of_rank (es : List Entity) (r : String → Nat)
    (h : ∀ n e p, find es n = some e → p ∈ e.supers → r p < r n) : EntityOrder.Acyclic es := by
  have hlt : ∀ {a n}, Anc es a n → r a < r n := by
    intro a n ha
    induction ha with
    | direct hf hm => exact h _ _ _ hf hm
    | step hf hm _ ih => exact Nat.lt_trans ih (h _ _ _ hf hm)
  intro x hx
  exact Nat.lt_irrefl _ (hlt hx)

theorem find_mem_name {es : List Entity} {n : String} {e : Entity} (h : find es n = some e) : e ∈ es ∧ e.name = n := by
  unfold find at h
  exact ⟨List.mem_of_find?_eq_some h, by simpa using List.find?_some h⟩

/-- a diamond whose left arm has an attribute of its own -/
def diamondY : List Entity :=
  [⟨"root", [], [{ owner := "root", name := "x", kind := .explicit }]⟩,
   ⟨"l", ["root"], [{ owner := "l", name := "y", kind := .explicit }]⟩, ⟨"r", ["root"], []⟩, ⟨"d", ["l", "r"], []⟩]

def rankD (n : String) : Nat := if n = "d" then 2 else if n = "root" then 0 else 1

theorem diamondY_acyclic : EntityOrder.Acyclic diamondY := by
  apply acyclic_of_rank diamondY rankD
  intro n e p hf hp
  obtain ⟨hm, hn⟩ := find_mem_name hf
  subst hn
  simp only [diamondY, List.mem_cons, List.not_mem_nil, or_false] at hm
  rcases hm with rfl | rfl | rfl | rfl <;> simp at hp <;> (try rcases hp with rfl | rfl) <;> (try subst hp) <;> decide

theorem diamondY_owners : OwnersDistinct diamondY := by
  intro x n m en em hfn hfm hxn hxm
  obtain ⟨hmn, hn⟩ := find_mem_name hfn
  obtain ⟨hmm, hm⟩ := find_mem_name hfm
  subst hn; subst hm
  simp only [diamondY, List.mem_cons, List.not_mem_nil, or_false] at hmn hmm
  rcases hmn with rfl | rfl | rfl | rfl <;> rcases hmm with rfl | rfl | rfl | rfl <;> simp at hxn hxm <;>
    first | rfl | (subst hxn; simp at hxm)

/-- the hypotheses of `C18_ctor_supertype_attributes_first` are satisfiable: `root` above `l`, seen from `d` -/
example : FirstBefore { owner := "root", name := "x", kind := .explicit } { owner := "l", name := "y", kind := .explicit }
    (inheritedAttrs diamondY ⟨"d", ["l", "r"], []⟩) :=
  C18_ctor_supertype_attributes_first diamondY diamondY_acyclic diamondY_owners ⟨"d", ["l", "r"], []⟩
    (A := "root") (B := "l") (ae := ⟨"root", [], [{ owner := "root", name := "x", kind := .explicit }]⟩)
    (be := ⟨"l", ["root"], [{ owner := "l", name := "y", kind := .explicit }]⟩) (Anc.direct (e := ⟨"l", ["root"], [{ owner := "l", name := "y", kind := .explicit }]⟩) (by decide) (by decide))
    (by decide) (by decide) (by decide) (by decide) (by decide) (by decide)


/-! ## LOGICAL operands that may be UNKNOWN -/

/-- **Where the emitted `and or not !=` agree with EXPRESS's three-valued AND OR NOT XOR, exactly**: AND and OR are wrong for
one pair of operands each — UNKNOWN on the left with TRUE on the right (`Unknown and True` is `True`, EXPRESS says UNKNOWN;
`Unknown or True` is the Unknown object, EXPRESS says TRUE) —, NOT is wrong for UNKNOWN (`not Unknown` is `False`), XOR is
wrong as soon as an operand is UNKNOWN; everywhere else they agree.  (Model of Python on `True`, `False` and the runtime's
truthy `Unknown` object; the disagreements are the finding `body-value:logical-unknown-operand`.) -/
theorem C18_logical_operators_with_unknown :
    (∀ a b, Body.pyAnd3 a b = Spec.Body.and3 a b ↔ ¬ (a = .u ∧ b = .t)) ∧
    (∀ a b, Body.pyOr3 a b = Spec.Body.or3 a b ↔ ¬ (a = .u ∧ b = .t)) ∧
    (∀ a, Body.pyNot3 a = Spec.Body.not3 a ↔ a ≠ .u) ∧
    (∀ a b, Body.pyXor3 a b = Spec.Body.xor3 a b ↔ (a ≠ .u ∧ b ≠ .u)) := by
  refine ⟨?_, ?_, ?_, ?_⟩
  · intro a b; cases a <;> cases b <;> decide
  · intro a b; cases a <;> cases b <;> decide
  · intro a; cases a <;> decide
  · intro a b; cases a <;> cases b <;> decide

/-! ## the order among the listed supertypes -/

/-- the attributes a supertype `p` contributes: its own and those of its direct and indirect supertypes -/
def ContributedBy (es : List Entity) (p : String) (x : Attr) : Prop :=
  ∃ anc ae, (anc = p ∨ Anc es anc p) ∧ find es anc = some ae ∧ x ∈ ae.attrs

theorem block_sound (es : List Entity) (x : Attr) (p : String)
    (h : x ∈ (match find es p with | some pe => allAttrs es es.length pe | none => [])) : ContributedBy es p x := by
  cases hfp : find es p with
  | none => simp [hfp] at h
  | some pe =>
    simp only [hfp] at h
    rcases allAttrs_sound es x es.length p pe hfp h with h1 | ⟨anc, ae, hanc, hfa, ha⟩
    · exact ⟨p, pe, Or.inl rfl, hfp, h1⟩
    · exact ⟨anc, ae, Or.inr hanc, hfa, ha⟩

theorem block_complete (es : List Entity) (hac : EntityOrder.Acyclic es) (x : Attr) (p : String) (h : ContributedBy es p x) :
    x ∈ (match find es p with | some pe => allAttrs es es.length pe | none => []) := by
  obtain ⟨anc, ae, hrel, hfa, ha⟩ := h
  rcases hrel with rfl | hanc
  · simp only [hfa]; exact own_mem_allAttrs es x _ ae ha
  · obtain ⟨l, hl⟩ := EntityOrder.path_of_anc hanc
    have hlen : l.length ≤ es.length := by
      have := EntityOrder.nodup_subset_length_le l (es.map (·.name)) (EntityOrder.path_nodup hac hl) (EntityOrder.path_nodes hl).2
      simpa using this
    obtain ⟨pe, hfp⟩ := path_head_find hl
    simp only [hfp]
    exact allAttrs_complete es x hl es.length pe ae hlen hfp hfa ha

/-- **Among unrelated supertypes the constructor follows the declaration order**: if `p` is listed in `SUBTYPE OF (…)` and
`a` is an explicit attribute that `p` contributes (its own or an ancestor's), then `a` stands in the inherited parameter list
before every attribute `b` that neither `p` nor any supertype listed before `p` contributes — i.e. everything that first
arrives through a later supertype.  Stated with the supertype relation and positions; together with
`C18_ctor_supertype_attributes_first` (ancestors before descendants), `C18_ctor_inherits_exactly_…` (membership, once each)
and `C18_ctor_inherited_then_own` this determines the Part 21 order of the constructor without reference to the fold. -/
theorem C18_ctor_supertypes_in_declaration_order (es : List Entity) (hac : EntityOrder.Acyclic es) (e : Entity)
    (l1 l2 : List String) (p : String) (hsup : e.supers = l1 ++ p :: l2) {a b : Attr}
    (ha : ContributedBy es p a) (hpa : isParam a = true)
    (hb : ∀ q ∈ l1 ++ [p], ¬ ContributedBy es q b) :
    FirstBefore a b (inheritedAttrs es e) := by
  have hio : inheritedOnce = true := rfl
  have hab : a ≠ b := by
    intro h; subst h
    exact hb p (by simp) ha
  simp only [inheritedAttrs, hio, if_true]
  refine (FirstBefore.dedup hab _ ?_).filter _ hpa
  simp only [inheritedAll, superOrder_eq, hsup]
  have hsplit : l1 ++ p :: l2 = (l1 ++ [p]) ++ l2 := by simp
  rw [hsplit, List.flatMap_append]
  apply FirstBefore.of_mem
  · simp only [List.mem_flatMap]
    exact ⟨p, by simp, block_complete es hac a p ha⟩
  · simp only [List.mem_flatMap]
    rintro ⟨q, hq, hbq⟩
    exact hb q hq (block_sound es b q hbq)


/-! ## FUNCTION bodies: translation correctness of the statement fragment -/

namespace Stmt
open Body

/-- every increment of a REPEAT in the statement is a non-zero literal -/
def hasSkip : Stmt → Bool
  | .skip => true
  | .seq a b => hasSkip a || hasSkip b
  | .ite _ t e => hasSkip t || hasSkip e
  | _ => false          -- a SKIP inside an inner loop ends an iteration of that loop

/-- every increment of a REPEAT in the statement is a non-zero literal, and a loop with an UNTIL control has no SKIP of its
own in its body (EXPRESS evaluates UNTIL after a SKIP, the written `continue` jumps over the written test) -/
def wf : Stmt → Bool
  | .seq a b => wf a && wf b
  | .ite _ t e => wf t && wf e
  | .repeatInc _ _ _ s _ un body => s != 0 && wf body && (un.isNone || !hasSkip body)
  | .repeatWhile _ un body => wf body && (un.isNone || !hasSkip body)
  | _ => true

theorem loop_out (run : Env → Option (Env × Out)) (i : String) (b s : Int) :
    ∀ (n : Nat) (env : Env) (cur : Int) (r : Env × Out), Spec.Stmt.loop run n env i cur b s = some r → r.2 ≠ .skipped := by
  intro n
  induction n with
  | zero => intro env cur r h; simp [Spec.Stmt.loop] at h
  | succ n ih =>
    intro env cur r h
    simp only [Spec.Stmt.loop] at h
    split at h
    · injection h with h; subst h; simp
    · cases hr : run ((i, .int cur) :: env) with
      | none => simp [hr] at h
      | some q =>
        obtain ⟨env', o⟩ := q
        simp only [hr] at h
        cases o with
        | normal => exact ih _ _ _ h
        | skipped => exact ih _ _ _ h
        | escaped => injection h with h; subst h; simp
        | returned v => injection h with h; subst h; simp

theorem loopW_out (run : Env → Option (Env × Out)) :
    ∀ (n : Nat) (env : Env) (r : Env × Out), Spec.Stmt.loopW run n env = some r → r.2 ≠ .skipped := by
  intro n
  induction n with
  | zero => intro env r h; simp [Spec.Stmt.loopW] at h
  | succ n ih =>
    intro env r h
    simp only [Spec.Stmt.loopW] at h
    cases hr : run env with
    | none => simp [hr] at h
    | some q =>
      obtain ⟨env', o⟩ := q
      simp only [hr] at h
      cases o with
      | normal => exact ih _ _ h
      | skipped => exact ih _ _ h
      | escaped => injection h with h; subst h; simp
      | returned v => injection h with h; subst h; simp

theorem no_skip : ∀ (f : Nat) (env : Env) (s : Stmt) (r : Env × Out),
    hasSkip s = false → Spec.Stmt.exec f env s = some r → r.2 ≠ .skipped := by
  intro f
  induction f with
  | zero => intro env s r _ h; simp [Spec.Stmt.exec] at h
  | succ f ih =>
    intro env s r hn h
    cases s with
    | nop => simp only [Spec.Stmt.exec, Option.some.injEq] at h; subst h; simp
    | seq a b =>
      simp only [hasSkip, Bool.or_eq_false_iff] at hn
      simp only [Spec.Stmt.exec] at h
      cases hra : Spec.Stmt.exec f env a with
      | none => simp [hra] at h
      | some q =>
        obtain ⟨env', o⟩ := q
        have hq := ih env a (env', o) hn.1 hra
        simp only [hra] at h
        cases o with
        | normal => exact ih env' b r hn.2 h
        | skipped => exact absurd rfl hq
        | escaped => injection h with h; subst h; simp
        | returned v => injection h with h; subst h; simp
    | assign x e =>
      simp only [Spec.Stmt.exec] at h
      cases hv : Spec.Body.eval env e with
      | none => simp [hv] at h
      | some v => simp only [hv, Option.map_some, Option.some.injEq] at h; subst h; simp
    | ite c t e =>
      simp only [hasSkip, Bool.or_eq_false_iff] at hn
      simp only [Spec.Stmt.exec] at h
      cases hv : Spec.Body.eval env c with
      | none => simp [hv] at h
      | some v =>
        cases v with
        | int n => simp [hv] at h
        | bool bv => cases bv <;> simp only [hv] at h <;> first | exact ih env t r hn.1 h | exact ih env e r hn.2 h
    | repeatInc i a b st wh un body =>
      simp only [Spec.Stmt.exec] at h
      cases hva : Spec.Body.eval env a with
      | none => simp [hva] at h
      | some va =>
        cases hvb : Spec.Body.eval env b with
        | none => cases va <;> simp [hva, hvb] at h
        | some vb =>
          cases va with
          | bool _ => simp [hva, hvb] at h
          | int ia =>
            cases vb with
            | bool _ => simp [hva, hvb] at h
            | int ib => simp only [hva, hvb] at h; exact loop_out _ i ib st f env ia r h
    | repeatWhile wh un body => simp only [Spec.Stmt.exec] at h; exact loopW_out _ f env r h
    | skip => simp [hasSkip] at hn
    | escape => simp only [Spec.Stmt.exec, Option.some.injEq] at h; subst h; simp
    | ret e =>
      simp only [Spec.Stmt.exec] at h
      cases hv : Spec.Body.eval env e with
      | none => simp [hv] at h
      | some v => simp only [hv, Option.map_some, Option.some.injEq] at h; subst h; simp

theorem expr_value (env : Env) (e : Expr) (v : V) (p : PyExpr)
    (hs : Spec.Body.eval env e = some v) (hr : readWith exprCfg e = some p) :
    pyEval (instanceOf env) p = some v :=
  Body.body_value exprCfg env (C18_body_names_distinct_when_stems_compared C18_tie_escapes_stems env) e v p
    (Or.inl rfl) (Or.inl rfl) hs hr

theorem instanceOf_cons (x : String) (v : V) (env : Env) : instanceOf ((x, v) :: env) = (pyName x, v) :: instanceOf env := rfl

theorem loop_sim (runS runP : Env → Option (Env × Out))
    (hrun : ∀ env r, runS env = some r → runP (instanceOf env) = some (instanceOf r.1, r.2))
    (i : String) (b s : Int) (hs0 : s ≠ 0) :
    ∀ (n : Nat) (env : Env) (cur : Int) (r : Env × Out), Spec.Stmt.loop runS n env i cur b s = some r →
      pyLoop runP n (instanceOf env) (pyName i) cur (b + (if s > 0 then 1 else -1)) s = some (instanceOf r.1, r.2) := by
  intro n
  induction n with
  | zero => intro env cur r h; simp [Spec.Stmt.loop] at h
  | succ n ih =>
    intro env cur r h
    simp only [Spec.Stmt.loop] at h
    simp only [pyLoop]
    by_cases hp : s > 0
    · have hn : ¬ s < 0 := by omega
      simp only [hp, hn, if_true, true_and, false_and, or_false] at h ⊢
      by_cases hc : cur > b
      · have : ¬ cur < b + 1 := by omega
        simp only [hc, if_true] at h
        simp only [this, if_false]
        injection h with h; subst h; rfl
      · have hlt : cur < b + 1 := by omega
        simp only [hc, if_false] at h
        simp only [hlt, if_true]
        cases hr : runS ((i, .int cur) :: env) with
        | none => simp [hr] at h
        | some q =>
          have hq := hrun _ _ hr
          rw [instanceOf_cons] at hq
          obtain ⟨env', o⟩ := q
          rw [hq]
          simp only [hr] at h
          cases o with
          | normal => simp only at h ⊢; have := ih env' (cur + s) r h; simpa [hp] using this
          | skipped => simp only at h ⊢; have := ih env' (cur + s) r h; simpa [hp] using this
          | escaped => simp only at h ⊢; injection h with h; subst h; rfl
          | returned v => simp only at h ⊢; injection h with h; subst h; rfl
    · have hn : s < 0 := by omega
      simp only [hp, hn, if_false, true_and, false_and, false_or] at h ⊢
      by_cases hc : cur < b
      · have : ¬ cur > b + -1 := by omega
        simp only [hc, if_true] at h
        simp only [this, if_false]
        injection h with h; subst h; rfl
      · have hgt : cur > b + -1 := by omega
        simp only [hc, if_false] at h
        simp only [hgt, if_true]
        cases hr : runS ((i, .int cur) :: env) with
        | none => simp [hr] at h
        | some q =>
          have hq := hrun _ _ hr
          rw [instanceOf_cons] at hq
          obtain ⟨env', o⟩ := q
          rw [hq]
          simp only [hr] at h
          cases o with
          | normal => simp only at h ⊢; have := ih env' (cur + s) r h; simpa [hp] using this
          | skipped => simp only at h ⊢; have := ih env' (cur + s) r h; simpa [hp] using this
          | escaped => simp only at h ⊢; injection h with h; subst h; rfl
          | returned v => simp only at h ⊢; injection h with h; subst h; rfl

theorem trOpt_some {o : Option Expr} {po : Option PyExpr} (h : trOpt o = some po) :
    (o = none ∧ po = none) ∨ ∃ e p, o = some e ∧ po = some p ∧ readWith exprCfg e = some p := by
  cases o with
  | none => simp [trOpt] at h; exact Or.inl ⟨rfl, h.symm⟩
  | some e =>
    simp only [trOpt] at h
    cases hp : readWith exprCfg e with
    | none => simp [hp] at h
    | some p => simp only [hp, Option.map_some, Option.some.injEq] at h; exact Or.inr ⟨e, p, rfl, h.symm, hp⟩

theorem until_sim (un : Option Expr) (pu : Option PyExpr) (hu : trOpt un = some pu) (env : Env) (r : Env × Out)
    (h : Spec.Stmt.untilS un env = some r) : pyUntil pu (instanceOf env) = some (instanceOf r.1, r.2) := by
  rcases trOpt_some hu with ⟨rfl, rfl⟩ | ⟨u, p, rfl, rfl, hp⟩
  · simp only [Spec.Stmt.untilS, Option.some.injEq] at h; subst h; rfl
  · simp only [Spec.Stmt.untilS, Spec.Stmt.evalBool] at h
    cases hv : Spec.Body.eval env u with
    | none => simp [hv] at h
    | some v =>
      cases v with
      | int n => simp [hv] at h
      | bool bv =>
        simp only [hv, Option.map_some, Option.some.injEq] at h; subst h
        simp only [pyUntil, expr_value env u (.bool bv) p hv hp, Option.map_some, V.truthy]
        cases bv <;> rfl

theorem afterBody_sim (un : Option Expr) (pu : Option PyExpr) (hu : trOpt un = some pu)
    (q : Env × Out) (hskip : un = none ∨ q.2 ≠ .skipped) (r : Env × Out)
    (h : Spec.Stmt.afterBody un (some q) = some r) :
    pyAfterBody pu (some (instanceOf q.1, q.2)) = some (instanceOf r.1, r.2) := by
  obtain ⟨env', o⟩ := q
  cases o with
  | normal => simp only [Spec.Stmt.afterBody] at h; simp only [pyAfterBody]; exact until_sim un pu hu env' r h
  | skipped =>
    rcases hskip with rfl | hs
    · simp only [Spec.Stmt.afterBody, Option.isNone_none, if_true, Option.some.injEq] at h; subst h; rfl
    · exact absurd rfl hs
  | escaped => simp only [Spec.Stmt.afterBody, Option.some.injEq] at h; subst h; rfl
  | returned v => simp only [Spec.Stmt.afterBody, Option.some.injEq] at h; subst h; rfl

theorem pass_sim (wh un : Option Expr) (pw pu : Option PyExpr) (hw : trOpt wh = some pw) (hu : trOpt un = some pu)
    (runS runP : Env → Option (Env × Out))
    (hrun : ∀ env r, runS env = some r → runP (instanceOf env) = some (instanceOf r.1, r.2))
    (hskip : un = none ∨ ∀ env r, runS env = some r → r.2 ≠ .skipped)
    (env : Env) (r : Env × Out) (h : Spec.Stmt.pass wh un runS env = some r) :
    pyPass pw pu runP (instanceOf env) = some (instanceOf r.1, r.2) := by
  have hgo : ∀ r, Spec.Stmt.afterBody un (runS env) = some r →
      pyAfterBody pu (runP (instanceOf env)) = some (instanceOf r.1, r.2) := by
    intro r h
    cases hr : runS env with
    | none => simp [hr, Spec.Stmt.afterBody] at h
    | some q =>
      rw [hrun env q hr]
      rw [hr] at h
      exact afterBody_sim un pu hu q (hskip.imp id (fun hs => hs env q hr)) r h
  rcases trOpt_some hw with ⟨rfl, rfl⟩ | ⟨w, p, rfl, rfl, hp⟩
  · simp only [Spec.Stmt.pass] at h
    simp only [pyPass]
    exact hgo r h
  · simp only [Spec.Stmt.pass, Spec.Stmt.evalBool] at h
    simp only [pyPass]
    cases hv : Spec.Body.eval env w with
    | none => simp [hv] at h
    | some v =>
      cases v with
      | int n => simp [hv] at h
      | bool bv =>
        simp only [expr_value env w (.bool bv) p hv hp]
        cases bv with
        | true => simp only [hv] at h; simp only [V.truthy, if_true]; exact hgo r h
        | false =>
          simp only [hv, Option.some.injEq] at h; subst h
          simp only [V.truthy, Bool.false_eq_true, if_false]

theorem loopW_sim (runS runP : Env → Option (Env × Out))
    (hrun : ∀ env r, runS env = some r → runP (instanceOf env) = some (instanceOf r.1, r.2)) :
    ∀ (n : Nat) (env : Env) (r : Env × Out), Spec.Stmt.loopW runS n env = some r →
      pyWhile runP n (instanceOf env) = some (instanceOf r.1, r.2) := by
  intro n
  induction n with
  | zero => intro env r h; simp [Spec.Stmt.loopW] at h
  | succ n ih =>
    intro env r h
    simp only [Spec.Stmt.loopW] at h
    simp only [pyWhile]
    cases hr : runS env with
    | none => simp [hr] at h
    | some q =>
      obtain ⟨env', o⟩ := q
      rw [hrun env (env', o) hr]
      simp only [hr] at h
      cases o with
      | normal => simp only at h ⊢; exact ih env' r h
      | skipped => simp only at h ⊢; exact ih env' r h
      | escaped => simp only at h ⊢; injection h with h; subst h; rfl
      | returned v => simp only at h ⊢; injection h with h; subst h; rfl

/-- regenerated tie: `STATEMENTPrint` writes `continue` for SKIP (fixes/C18-21) -/
theorem tie_skip : skipIsContinue = true := rfl

theorem stmt_sim : ∀ (f : Nat) (env : Env) (s : Stmt) (p : PyStmt) (r : Env × Out),
    wf s = true → tr s = some p → Spec.Stmt.exec f env s = some r →
    pyExec f (instanceOf env) p = some (instanceOf r.1, r.2) := by
  intro f
  induction f with
  | zero => intro env s p r _ _ h; simp [Spec.Stmt.exec] at h
  | succ f ih =>
    intro env s p r hw htr h
    cases s with
    | nop =>
      simp only [tr, Option.some.injEq] at htr; subst htr
      simp only [Spec.Stmt.exec, Option.some.injEq] at h; subst h
      rfl
    | seq a b =>
      simp only [wf, Bool.and_eq_true] at hw
      simp only [tr, Option.bind_eq_bind, Option.pure_def] at htr
      cases hpa : tr a with
      | none => simp [hpa] at htr
      | some pa =>
        cases hpb : tr b with
        | none => simp [hpa, hpb] at htr
        | some pb =>
          simp only [hpa, hpb, Option.bind_some, Option.some.injEq] at htr; subst htr
          simp only [Spec.Stmt.exec] at h
          simp only [pyExec]
          cases hra : Spec.Stmt.exec f env a with
          | none => simp [hra] at h
          | some q =>
            obtain ⟨env', o⟩ := q
            rw [ih env a pa (env', o) hw.1 hpa hra]
            simp only [hra] at h
            cases o with
            | normal => simp only at h ⊢; exact ih env' b pb r hw.2 hpb h
            | skipped => simp only at h ⊢; injection h with h; subst h; rfl
            | escaped => simp only at h ⊢; injection h with h; subst h; rfl
            | returned v => simp only at h ⊢; injection h with h; subst h; rfl
    | assign x e =>
      simp only [tr] at htr
      cases hpe : readWith exprCfg e with
      | none => simp [hpe] at htr
      | some pe =>
        simp only [hpe, Option.map_some, Option.some.injEq] at htr; subst htr
        simp only [Spec.Stmt.exec] at h
        cases hv : Spec.Body.eval env e with
        | none => simp [hv] at h
        | some v =>
          simp only [hv, Option.map_some, Option.some.injEq] at h; subst h
          simp only [pyExec, expr_value env e v pe hv hpe, Option.map_some]
          rfl
    | ite c t e =>
      simp only [wf, Bool.and_eq_true] at hw
      simp only [tr, Option.bind_eq_bind, Option.pure_def] at htr
      cases hpc : readWith exprCfg c with
      | none => simp [hpc] at htr
      | some pc =>
        cases hpt : tr t with
        | none => simp [hpc, hpt] at htr
        | some pt =>
          cases hpe : tr e with
          | none => simp [hpc, hpt, hpe] at htr
          | some pe =>
            simp only [hpc, hpt, hpe, Option.bind_some, Option.some.injEq] at htr; subst htr
            simp only [Spec.Stmt.exec] at h
            cases hv : Spec.Body.eval env c with
            | none => simp [hv] at h
            | some v =>
              cases v with
              | int n => simp [hv] at h
              | bool bv =>
                simp only [pyExec, expr_value env c (.bool bv) pc hv hpc]
                cases bv with
                | true => simp only [hv] at h; simp only [V.truthy, if_true]; exact ih env t pt r hw.1 hpt h
                | false =>
                  simp only [hv] at h
                  simp only [V.truthy, Bool.false_eq_true, if_false]; exact ih env e pe r hw.2 hpe h
    | repeatInc i a b st wh un body =>
      simp only [wf, Bool.and_eq_true, bne_iff_ne, ne_eq, Bool.or_eq_true, Option.isNone_iff_eq_none, Bool.not_eq_eq_eq_not, Bool.not_true] at hw
      simp only [tr, Option.bind_eq_bind, Option.pure_def] at htr
      cases hpa : readWith exprCfg a with
      | none => simp [hpa] at htr
      | some pa =>
        cases hpb : readWith exprCfg b with
        | none => simp [hpa, hpb] at htr
        | some pb =>
          cases hpbody : tr body with
          | none => simp [hpa, hpb, hpbody] at htr
          | some pbody =>
            cases hpw : trOpt wh with
            | none => simp [hpa, hpb, hpbody, hpw] at htr
            | some pw =>
              cases hpu : trOpt un with
              | none => simp [hpa, hpb, hpbody, hpw, hpu] at htr
              | some pu =>
                simp only [hpa, hpb, hpbody, hpw, hpu, Option.bind_some, Option.some.injEq] at htr; subst htr
                simp only [Spec.Stmt.exec] at h
                cases hva : Spec.Body.eval env a with
                | none => simp [hva] at h
                | some va =>
                  cases hvb : Spec.Body.eval env b with
                  | none => cases va <;> simp [hva, hvb] at h
                  | some vb =>
                    cases va with
                    | bool _ => simp [hva, hvb] at h
                    | int ia =>
                      cases vb with
                      | bool _ => simp [hva, hvb] at h
                      | int ib =>
                        simp only [hva, hvb] at h
                        simp only [pyExec, expr_value env a (.int ia) pa hva hpa, expr_value env b (.int ib) pb hvb hpb, V.toInt,
                          stopWritten, C18_tie_repeat_bound_inclusive, if_true]
                        refine loop_sim _ _ (fun env' r' hr' => pass_sim wh un pw pu hpw hpu _ _
                          (fun env'' r'' hr'' => ih env'' body pbody r'' hw.1.2 hpbody hr'') ?_ env' r' hr') i ib st hw.1.1 f env ia r h
                        rcases hw.2 with hu | hu
                        · exact Or.inl hu
                        · exact Or.inr (fun env'' r'' hr'' => no_skip f env'' body r'' hu hr'')
    | repeatWhile wh un body =>
      simp only [wf, Bool.and_eq_true, Bool.or_eq_true, Option.isNone_iff_eq_none, Bool.not_eq_eq_eq_not, Bool.not_true] at hw
      simp only [tr, Option.bind_eq_bind, Option.pure_def] at htr
      cases hpbody : tr body with
      | none => simp [hpbody] at htr
      | some pbody =>
        cases hpw : trOpt wh with
        | none => simp [hpbody, hpw] at htr
        | some pw =>
          cases hpu : trOpt un with
          | none => simp [hpbody, hpw, hpu] at htr
          | some pu =>
            simp only [hpbody, hpw, hpu, Option.bind_some, Option.some.injEq] at htr; subst htr
            simp only [Spec.Stmt.exec] at h
            simp only [pyExec]
            refine loopW_sim _ _ (fun env' r' hr' => pass_sim wh un pw pu hpw hpu _ _
              (fun env'' r'' hr'' => ih env'' body pbody r'' hw.1 hpbody hr'') ?_ env' r' hr') f env r h
            rcases hw.2 with hu | hu
            · exact Or.inl hu
            · exact Or.inr (fun env'' r'' hr'' => no_skip f env'' body r'' hu hr'')
    | skip =>
      simp only [tr, tie_skip, if_true, Option.some.injEq] at htr; subst htr
      simp only [Spec.Stmt.exec, Option.some.injEq] at h; subst h
      rfl
    | escape =>
      simp only [tr, Option.some.injEq] at htr; subst htr
      simp only [Spec.Stmt.exec, Option.some.injEq] at h; subst h
      rfl
    | ret e =>
      simp only [tr] at htr
      cases hpe : readWith exprCfg e with
      | none => simp [hpe] at htr
      | some pe =>
        simp only [hpe, Option.map_some, Option.some.injEq] at htr; subst htr
        simp only [Spec.Stmt.exec] at h
        cases hv : Spec.Body.eval env e with
        | none => simp [hv] at h
        | some v =>
          simp only [hv, Option.map_some, Option.some.injEq] at h; subst h
          simp only [pyExec, expr_value env e v pe hv hpe, Option.map_some]

theorem tr_isSome : ∀ s : Stmt, (tr s).isSome = true := by
  have he : ∀ e : Expr, ∃ p, readWith exprCfg e = some p := by
    intro e
    have := (Body.readWith_isSome exprCfg e).mpr (Or.inl rfl)
    cases h : readWith exprCfg e with
    | none => rw [h] at this; cases this
    | some p => exact ⟨p, rfl⟩
  have ho : ∀ o : Option Expr, ∃ p, trOpt o = some p := by
    intro o
    cases o with
    | none => exact ⟨none, rfl⟩
    | some e => obtain ⟨p, hp⟩ := he e; exact ⟨some p, by simp [trOpt, hp]⟩
  intro s
  induction s with
  | nop => rfl
  | seq a b iha ihb =>
    cases ha : tr a with
    | none => rw [ha] at iha; cases iha
    | some pa => cases hb : tr b with
      | none => rw [hb] at ihb; cases ihb
      | some pb => simp [tr, ha, hb]
  | assign x e => obtain ⟨p, hp⟩ := he e; simp [tr, hp]
  | ite c t e iht ihe =>
    obtain ⟨pc, hc⟩ := he c
    cases ht : tr t with
    | none => rw [ht] at iht; cases iht
    | some pt => cases hee : tr e with
      | none => rw [hee] at ihe; cases ihe
      | some pe => simp [tr, hc, ht, hee]
  | repeatInc i a b st wh un body ih =>
    obtain ⟨pa, ha⟩ := he a
    obtain ⟨pb, hb⟩ := he b
    obtain ⟨pw, hw⟩ := ho wh
    obtain ⟨pu, hu⟩ := ho un
    cases hbody : tr body with
    | none => rw [hbody] at ih; cases ih
    | some pbody => simp [tr, ha, hb, hbody, hw, hu]
  | repeatWhile wh un body ih =>
    obtain ⟨pw, hw⟩ := ho wh
    obtain ⟨pu, hu⟩ := ho un
    cases hbody : tr body with
    | none => rw [hbody] at ih; cases ih
    | some pbody => simp [tr, hbody, hw, hu]
  | skip => simp [tr]
  | escape => rfl
  | ret e => obtain ⟨p, hp⟩ := he e; simp [tr, hp]

end Stmt

/-- regenerated tie: `STATEMENTPrint` writes `continue` for SKIP (fixes/C18-21).  Does not build on a tree that writes `break`. -/
theorem C18_tie_skip_is_continue : skipIsContinue = true := rfl

/-- Every statement of the fragment is translated to Python statements (no expression in it fails to be Python). -/
theorem C18_function_statements_are_python (s : Stmt.Stmt) : (Stmt.tr s).isSome = true := Stmt.tr_isSome s

/-- **Translation correctness of FUNCTION bodies** for the fragment null statement, sequence, assignment, IF [ELSE], REPEAT
with any combination of the increment (non-zero literal increment), WHILE and UNTIL controls, SKIP, ESCAPE, RETURN over the
expression fragment (`wf`: no SKIP of its own in the body of a loop that has an UNTIL control — there EXPRESS evaluates
UNTIL after the SKIP and the written `continue` jumps over the written test): whenever the reference semantics (ISO 10303-11 clause 13, `Spec.Stmt.exec`) runs the statement from an
environment to a result — a final environment and the way it ends (normally, by SKIP / ESCAPE travelling to the enclosing
loop, or by RETURN with a value) — the Python statements `STATEMENTPrint` / `LOOPpyout` write for it (`Stmt.tr`), run by
Python's semantics (`Stmt.pyExec`) from the same environment under the escaped names, reach exactly that result, with the
same fuel.  For every statement, environment and fuel; in particular a function returns what EXPRESS says it returns. -/
theorem C18_function_statements_translated (f : Nat) (env : Stmt.Env) (s : Stmt.Stmt) (r : Stmt.Env × Stmt.Out)
    (hw : Stmt.wf s = true) (hs : Spec.Stmt.exec f env s = some r) :
    ∃ p, Stmt.tr s = some p ∧ Stmt.pyExec f (Body.instanceOf env) p = some (Body.instanceOf r.1, r.2) := by
  cases hp : Stmt.tr s with
  | none => have := Stmt.tr_isSome s; rw [hp] at this; cases this
  | some p => exact ⟨p, rfl, Stmt.stmt_sim f env s p r hw hp hs⟩

/-- A function whose body EXPRESS runs to `RETURN (v)` returns `v` in Python. -/
theorem C18_function_returns_the_express_value (f : Nat) (env env' : Stmt.Env) (s : Stmt.Stmt) (v : Body.V)
    (hw : Stmt.wf s = true) (hs : Spec.Stmt.exec f env s = some (env', .returned v)) :
    ∃ p penv, Stmt.tr s = some p ∧ Stmt.pyExec f (Body.instanceOf env) p = some (penv, .returned v) := by
  obtain ⟨p, hp, hx⟩ := C18_function_statements_translated f env s _ hw hs
  exact ⟨p, _, hp, hx⟩

/-- SKIP written as `break` (before fixes/C18-21): `REPEAT i := 1 TO 3; IF i = 2 THEN SKIP; END_IF; r := r + i; END_REPEAT;
RETURN (r)` from r = 0 returns 4 in EXPRESS and 1 in the Python that was written. -/
theorem C18_legacy_skip_is_break_witness :
    let cond : Body.Expr := .bin .eq (.attr "i") (.int 2)
    let add : Body.Expr := .bin .plus (.attr "r") (.attr "i")
    let src : Stmt.Stmt := .seq (.repeatInc "i" (.int 1) (.int 3) 1 none none (.seq (.ite cond .skip .nop) (.assign "r" add))) (.ret (.attr "r"))
    let old : Stmt.PyStmt := .seq (.forRange "i" (.int 1) (.int 3) 1 none none
        (.seq (.ite (.bin .eq (.attr "i") (.int 2)) .break_ .pass) (.assign "r" (.bin .plus (.attr "r") (.attr "i"))))) (.ret (.attr "r"))
    (Spec.Stmt.exec 20 [("r", .int 0)] src).map (·.2) = some (.returned (.int 4)) ∧
    (Stmt.pyExec 20 [("r", .int 0)] old).map (·.2) = some (.returned (.int 1)) := by
  decide


/-- regenerated tie: `FUNCPrint` escapes the parameter names of the `def` line (fixes/C18-18) -/
theorem C18_tie_params_escaped : paramsEscaped = true := rfl
/-- regenerated tie: `FUNCPrint` writes the LOCAL initial values (fixes/C18-19) -/
theorem C18_tie_locals_initialised : localsInitialised = true := rfl

theorem Stmt.instanceOf_zip : ∀ (ps : List String) (args : List Body.V),
    Body.instanceOf (ps.zip args) = (ps.map pyName).zip args
  | [], _ => rfl
  | _ :: _, [] => rfl
  | p :: ps, a :: as => by
    simp only [List.zip_cons_cons, List.map_cons]
    rw [← Stmt.instanceOf_zip ps as]; rfl

theorem Stmt.wf_localsInit : ∀ l : List (String × Option Body.Expr), Stmt.wf (Stmt.localsInit l) = true
  | [] => rfl
  | (_, some _) :: rest => by simp [Stmt.localsInit, Stmt.wf, Stmt.wf_localsInit rest]
  | (_, none) :: rest => by simp [Stmt.localsInit, Stmt.wf_localsInit rest]

/-- **A translated FUNCTION returns what EXPRESS says the call returns**: parameters bound under their escaped names, LOCAL
variables given their initial values in declaration order, the body of the statement fragment — whenever the reference
semantics runs the call to a result, the written `def` reaches the same result (same final environment under the escaped
names, same way of ending), for every function of the fragment, all arguments and every fuel. -/
theorem C18_function_call_translated (fuel : Nat) (f : Stmt.Func) (args : List Body.V) (r : Stmt.Env × Stmt.Out)
    (hw : Stmt.wf f.body = true) (hs : Spec.Stmt.call fuel f args = some r) :
    Stmt.pyCall fuel f args = some (Body.instanceOf r.1, r.2) := by
  unfold Spec.Stmt.call at hs
  have hwf : Stmt.wf (.seq (Stmt.localsInit f.locals) f.body) = true := by
    simp [Stmt.wf, Stmt.wf_localsInit, hw]
  obtain ⟨p, hp, hx⟩ := C18_function_statements_translated fuel _ _ r hwf hs
  unfold Stmt.pyCall Stmt.defParams
  rw [C18_tie_locals_initialised, C18_tie_params_escaped]
  simp only [if_true, hp]
  rw [← Stmt.instanceOf_zip]
  exact hx


/-- SKIP in the body of a loop with an UNTIL control (the one exclusion of `Stmt.wf`): `REPEAT i := 1 TO 5 UNTIL i >= 2;
IF i = 2 THEN SKIP; END_IF; r := r + i; END_REPEAT; RETURN (r)` from r = 0 — EXPRESS evaluates UNTIL after the SKIP and
ends the loop with r = 1; the written `continue` jumps over the written `if …: break`, the loop goes on into the next iteration and returns 4. -/
theorem C18_skip_under_until_witness :
    let cond : Body.Expr := .bin .eq (.attr "i") (.int 2)
    let un : Body.Expr := .bin .ge (.attr "i") (.int 2)
    let add : Body.Expr := .bin .plus (.attr "r") (.attr "i")
    let src : Stmt.Stmt := .seq (.repeatInc "i" (.int 1) (.int 5) 1 none (some un) (.seq (.ite cond .skip .nop) (.assign "r" add))) (.ret (.attr "r"))
    Stmt.wf src = false ∧
    (Spec.Stmt.exec 30 [("r", .int 0)] src).map (·.2) = some (.returned (.int 1)) ∧
    ((Stmt.tr src).bind (fun p => Stmt.pyExec 30 (Body.instanceOf [("r", .int 0)]) p)).map (·.2) = some (.returned (.int 4)) := by
  decide


/-! ### the hypotheses of the declaration-order theorem are satisfiable -/

theorem rank_of_anc (es : List Entity) (r : String → Nat)
    (h : ∀ n e p, find es n = some e → p ∈ e.supers → r p < r n) {a n : String} (ha : Anc es a n) : r a < r n := by
  induction ha with
  | direct hf hm => exact h _ _ _ hf hm
  | step hf hm _ ih => exact Nat.lt_trans ih (h _ _ _ hf hm)

/-- two unrelated supertypes with an attribute each below a common root -/
def forkZ : List Entity :=
  [⟨"root", [], []⟩, ⟨"l", ["root"], [{ owner := "l", name := "y", kind := .explicit }]⟩,
   ⟨"r", ["root"], [{ owner := "r", name := "z", kind := .explicit }]⟩, ⟨"d", ["l", "r"], []⟩]

theorem forkZ_rank : ∀ n e p, find forkZ n = some e → p ∈ e.supers → rankD p < rankD n := by
  intro n e p hf hp
  obtain ⟨hm, hn⟩ := find_mem_name hf
  subst hn
  simp only [forkZ, List.mem_cons, List.not_mem_nil, or_false] at hm
  rcases hm with rfl | rfl | rfl | rfl <;> simp at hp <;> (try rcases hp with rfl | rfl) <;> (try subst hp) <;> decide

/-- the hypotheses of `C18_ctor_supertypes_in_declaration_order` are satisfiable: `d SUBTYPE OF (l, r)`, `l.y` before `r.z` -/
example : FirstBefore { owner := "l", name := "y", kind := .explicit } { owner := "r", name := "z", kind := .explicit }
    (inheritedAttrs forkZ ⟨"d", ["l", "r"], []⟩) := by
  refine C18_ctor_supertypes_in_declaration_order forkZ (acyclic_of_rank forkZ rankD forkZ_rank) ⟨"d", ["l", "r"], []⟩ [] ["r"] "l" rfl
    ⟨"l", ⟨"l", ["root"], [{ owner := "l", name := "y", kind := .explicit }]⟩, Or.inl rfl, by decide, by decide⟩ (by decide) ?_
  intro q hq hc
  simp at hq; subst hq
  obtain ⟨anc, ae, hrel, hfa, hz⟩ := hc
  obtain ⟨hm, hn⟩ := find_mem_name hfa
  subst hn
  simp only [forkZ, List.mem_cons, List.not_mem_nil, or_false] at hm
  rcases hm with rfl | rfl | rfl | rfl <;> simp at hz
  -- the owner of z is r: r is neither l nor above l
  rcases hrel with h | h
  · exact absurd h (by decide)
  · have := rank_of_anc forkZ rankD forkZ_rank h
    revert this; decide


/-! ## CASE: the temporary `case_selector` as an extra variable (model extension `GenPyCase.lean`) -/

namespace Stmt
open Body

theorem lookup_frame (k : String) (v : V) (back : Env) (n : String) (hn : (k == n) = false) :
    ∀ front : Env, lookup (front ++ (k, v) :: back) n = lookup (front ++ back) n
  | [] => by
    have : ¬ k = n := by simpa using hn
    simp [lookup, this]
  | (k', v') :: rest => by
    simp only [List.cons_append, lookup, lookup_frame k v back n hn rest]

theorem pyEvalF_frame (k : String) (v : V) (front back : Env) :
    ∀ e : PyExpr, exprUses k e = false → pyEvalF (front ++ (k, v) :: back) e = pyEvalF (front ++ back) e := by
  intro e
  induction e with
  | int n => intro _; rfl
  | name s => intro _; rfl
  | attr s =>
    intro h
    simp only [exprUses] at h
    have hk : (k == s) = false := by
      cases hks : (k == s) with
      | false => rfl
      | true => have : s = k := (by simpa using hks : k = s).symm; subst this; simp at h
    simp only [pyEvalF, lookup_frame k v back s hk front]
  | un op x ih => intro h; simp only [exprUses] at h; simp only [pyEvalF, ih h]
  | bin op l r ihl ihr =>
    intro h; simp only [exprUses, Bool.or_eq_false_iff] at h
    simp only [pyEvalF, ihl h.1, ihr h.2]
  | chain op l r ihl ihr =>
    intro h; simp only [exprUses, Bool.or_eq_false_iff] at h
    simp only [pyEvalF, ihl h.1, ihr h.2]

theorem pyEval_frame (k : String) (v : V) (front back : Env) (e : PyExpr) (h : exprUses k e = false) :
    pyEval (front ++ (k, v) :: back) e = pyEval (front ++ back) e := by
  unfold pyEval; rw [pyEvalF_frame k v front back e h]

/-- a runner with the extra binding follows the runner without it -/
def Frames (k : String) (v : V) (back : Env) (runX run0 : Env → Option (Env × Out)) : Prop :=
  ∀ (front : Env) (e' : Env) (o : Out), run0 (front ++ back) = some (e', o) →
    ∃ front', e' = front' ++ back ∧ runX (front ++ (k, v) :: back) = some (front' ++ (k, v) :: back, o)

theorem pyUntil_frame (k : String) (v : V) (back : Env) (un : Option PyExpr) (hu : optUses k un = false) :
    Frames k v back (pyUntil un) (pyUntil un) := by
  intro front e' o h
  cases un with
  | none => simp only [pyUntil, Option.some.injEq, Prod.mk.injEq] at h; obtain ⟨rfl, rfl⟩ := h; exact ⟨front, rfl, rfl⟩
  | some u =>
    simp only [optUses] at hu
    simp only [pyUntil] at h ⊢
    rw [pyEval_frame k v front back u hu]
    cases hv : pyEval (front ++ back) u with
    | none => simp [hv] at h
    | some w =>
      simp only [hv, Option.map_some, Option.some.injEq, Prod.mk.injEq] at h
      obtain ⟨rfl, rfl⟩ := h
      exact ⟨front, rfl, rfl⟩

theorem pyPass_frame (k : String) (v : V) (back : Env) (wh un : Option PyExpr) (hw : optUses k wh = false)
    (hu : optUses k un = false) (runX run0 : Env → Option (Env × Out)) (hr : Frames k v back runX run0) :
    Frames k v back (pyPass wh un runX) (pyPass wh un run0) := by
  have hgo : ∀ front e' o, pyAfterBody un (run0 (front ++ back)) = some (e', o) →
      ∃ front', e' = front' ++ back ∧ pyAfterBody un (runX (front ++ (k, v) :: back)) = some (front' ++ (k, v) :: back, o) := by
    intro front e' o h
    cases hr0 : run0 (front ++ back) with
    | none => simp [hr0, pyAfterBody] at h
    | some q =>
      obtain ⟨e1, o1⟩ := q
      obtain ⟨f1, rfl, hx⟩ := hr front e1 o1 hr0
      rw [hx]; rw [hr0] at h
      cases o1 with
      | normal => simp only [pyAfterBody] at h ⊢; exact pyUntil_frame k v back un hu f1 e' o h
      | skipped => simp only [pyAfterBody, Option.some.injEq, Prod.mk.injEq] at h; obtain ⟨rfl, rfl⟩ := h; exact ⟨f1, rfl, rfl⟩
      | escaped => simp only [pyAfterBody, Option.some.injEq, Prod.mk.injEq] at h; obtain ⟨rfl, rfl⟩ := h; exact ⟨f1, rfl, rfl⟩
      | returned w => simp only [pyAfterBody, Option.some.injEq, Prod.mk.injEq] at h; obtain ⟨rfl, rfl⟩ := h; exact ⟨f1, rfl, rfl⟩
  intro front e' o h
  cases wh with
  | none => simp only [pyPass] at h ⊢; exact hgo front e' o h
  | some w =>
    simp only [optUses] at hw
    simp only [pyPass] at h ⊢
    rw [pyEval_frame k v front back w hw]
    cases hv : pyEval (front ++ back) w with
    | none => simp [hv] at h
    | some x =>
      simp only [hv] at h ⊢
      by_cases ht : x.truthy = true
      · simp only [ht, if_true] at h ⊢; exact hgo front e' o h
      · have hf : x.truthy = false := by simpa using ht
        simp only [hf, Bool.false_eq_true, if_false, Option.some.injEq, Prod.mk.injEq] at h
        obtain ⟨rfl, rfl⟩ := h
        refine ⟨front, rfl, ?_⟩
        simp only [hf, Bool.false_eq_true, if_false]

theorem pyLoop_frame (k : String) (v : V) (back : Env) (runX run0 : Env → Option (Env × Out)) (hr : Frames k v back runX run0)
    (i : String) (stop s : Int) :
    ∀ (n : Nat) (cur : Int), Frames k v back (fun env => pyLoop runX n env i cur stop s) (fun env => pyLoop run0 n env i cur stop s) := by
  intro n
  induction n with
  | zero => intro cur front e' o h; simp [pyLoop] at h
  | succ n ih =>
    intro cur front e' o h
    simp only [pyLoop] at h ⊢
    split at h
    · rename_i hc
      simp only [hc, if_true]
      cases hr0 : run0 ((i, .int cur) :: (front ++ back)) with
      | none => simp [hr0] at h
      | some q =>
        obtain ⟨e1, o1⟩ := q
        obtain ⟨f1, rfl, hx⟩ := hr ((i, .int cur) :: front) e1 o1 hr0
        simp only [List.cons_append] at hx
        rw [hx]; simp only [hr0] at h
        cases o1 with
        | normal => exact ih (cur + s) f1 e' o h
        | skipped => exact ih (cur + s) f1 e' o h
        | escaped => simp only [Option.some.injEq, Prod.mk.injEq] at h; obtain ⟨rfl, rfl⟩ := h; exact ⟨f1, rfl, rfl⟩
        | returned w => simp only [Option.some.injEq, Prod.mk.injEq] at h; obtain ⟨rfl, rfl⟩ := h; exact ⟨f1, rfl, rfl⟩
    · rename_i hc
      simp only [Option.some.injEq, Prod.mk.injEq] at h
      obtain ⟨rfl, rfl⟩ := h
      refine ⟨front, rfl, ?_⟩
      rw [if_neg hc]

theorem pyWhile_frame (k : String) (v : V) (back : Env) (runX run0 : Env → Option (Env × Out)) (hr : Frames k v back runX run0) :
    ∀ n : Nat, Frames k v back (pyWhile runX n) (pyWhile run0 n) := by
  intro n
  induction n with
  | zero => intro front e' o h; simp [pyWhile] at h
  | succ n ih =>
    intro front e' o h
    simp only [pyWhile] at h ⊢
    cases hr0 : run0 (front ++ back) with
    | none => simp [hr0] at h
    | some q =>
      obtain ⟨e1, o1⟩ := q
      obtain ⟨f1, rfl, hx⟩ := hr front e1 o1 hr0
      rw [hx]; simp only [hr0] at h
      cases o1 with
      | normal => exact ih f1 e' o h
      | skipped => exact ih f1 e' o h
      | escaped => simp only [Option.some.injEq, Prod.mk.injEq] at h; obtain ⟨rfl, rfl⟩ := h; exact ⟨f1, rfl, rfl⟩
      | returned w => simp only [Option.some.injEq, Prod.mk.injEq] at h; obtain ⟨rfl, rfl⟩ := h; exact ⟨f1, rfl, rfl⟩

theorem pyExec_frame (k : String) (v : V) (back : Env) :
    ∀ (f : Nat) (p : PyStmt), stmtUses k p = false →
      Frames k v back (fun env => pyExec f env p) (fun env => pyExec f env p) := by
  intro f
  induction f with
  | zero => intro p _ front e' o h; simp [pyExec] at h
  | succ f ih =>
    intro p hu front e' o h
    cases p with
    | pass =>
      simp only [pyExec, Option.some.injEq, Prod.mk.injEq] at h ⊢
      obtain ⟨rfl, rfl⟩ := h; exact ⟨front, rfl, rfl, rfl⟩
    | seq a b =>
      simp only [stmtUses, Bool.or_eq_false_iff] at hu
      simp only [pyExec] at h ⊢
      cases ha : pyExec f (front ++ back) a with
      | none => simp [ha] at h
      | some q =>
        obtain ⟨e1, o1⟩ := q
        obtain ⟨f1, rfl, hx⟩ := ih a hu.1 front e1 o1 ha
        simp only at hx
        rw [hx]; simp only [ha] at h
        cases o1 with
        | normal => exact ih b hu.2 f1 e' o h
        | skipped => simp only [Option.some.injEq, Prod.mk.injEq] at h; obtain ⟨rfl, rfl⟩ := h; exact ⟨f1, rfl, rfl⟩
        | escaped => simp only [Option.some.injEq, Prod.mk.injEq] at h; obtain ⟨rfl, rfl⟩ := h; exact ⟨f1, rfl, rfl⟩
        | returned w => simp only [Option.some.injEq, Prod.mk.injEq] at h; obtain ⟨rfl, rfl⟩ := h; exact ⟨f1, rfl, rfl⟩
    | assign x e =>
      simp only [stmtUses, Bool.or_eq_false_iff] at hu
      simp only [pyExec] at h ⊢
      rw [pyEval_frame k v front back e hu.2]
      cases hv : pyEval (front ++ back) e with
      | none => simp [hv] at h
      | some w =>
        simp only [hv, Option.map_some, Option.some.injEq, Prod.mk.injEq] at h ⊢
        obtain ⟨rfl, rfl⟩ := h
        exact ⟨(x, w) :: front, rfl, rfl, rfl⟩
    | ite c t e =>
      simp only [stmtUses, Bool.or_eq_false_iff] at hu
      simp only [pyExec] at h ⊢
      rw [pyEval_frame k v front back c hu.1.1]
      cases hv : pyEval (front ++ back) c with
      | none => simp [hv] at h
      | some w =>
        simp only [hv] at h ⊢
        by_cases ht : w.truthy = true
        · simp only [ht, if_true] at h ⊢; exact ih t hu.1.2 front e' o h
        · have hf : w.truthy = false := by simpa using ht
          simp only [hf, Bool.false_eq_true, if_false] at h ⊢; exact ih e hu.2 front e' o h
    | forRange i a b st wh un body =>
      simp only [stmtUses, Bool.or_eq_false_iff] at hu
      simp only [pyExec] at h ⊢
      rw [pyEval_frame k v front back a hu.1.1.1.1.2, pyEval_frame k v front back b hu.1.1.1.2]
      cases hva : pyEval (front ++ back) a with
      | none => simp [hva] at h
      | some va =>
        cases hvb : pyEval (front ++ back) b with
        | none => simp [hva, hvb] at h
        | some vb =>
          simp only [hva, hvb] at h ⊢
          have hi : (k == i) = false := by
            cases hki : (k == i) with
            | false => rfl
            | true => have : i = k := (by simpa using hki : k = i).symm; subst this; simp at hu
          exact pyLoop_frame k v back _ _
            (pyPass_frame k v back wh un hu.1.1.2 hu.1.2 _ _ (ih body hu.2)) i _ st f va.toInt front e' o h
    | while_ c un body =>
      simp only [stmtUses, Bool.or_eq_false_iff] at hu
      simp only [pyExec] at h ⊢
      exact pyWhile_frame k v back _ _ (pyPass_frame k v back c un hu.1.1 hu.1.2 _ _ (ih body hu.2)) f front e' o h
    | break_ =>
      simp only [pyExec, Option.some.injEq, Prod.mk.injEq] at h ⊢
      obtain ⟨rfl, rfl⟩ := h; exact ⟨front, rfl, rfl, rfl⟩
    | continue_ =>
      simp only [pyExec, Option.some.injEq, Prod.mk.injEq] at h ⊢
      obtain ⟨rfl, rfl⟩ := h; exact ⟨front, rfl, rfl, rfl⟩
    | ret e =>
      simp only [stmtUses] at hu
      simp only [pyExec] at h ⊢
      rw [pyEval_frame k v front back e hu]
      cases hv : pyEval (front ++ back) e with
      | none => simp [hv] at h
      | some w =>
        simp only [hv, Option.map_some, Option.some.injEq, Prod.mk.injEq] at h ⊢
        obtain ⟨rfl, rfl⟩ := h
        exact ⟨front, rfl, rfl, rfl⟩

theorem tr_pick (v : Int) (other : Option Stmt) (po : PyStmt)
    (ho : trOther other = some po) :
    ∀ (items : List (Nat × Stmt)) (pi : List (Nat × PyStmt)), trItems items = some pi →
      tr (Spec.Stmt.pick v items other) = some (pyPick (.int v) pi po)
  | [], pi, h => by
    simp only [trItems, Option.some.injEq] at h; subst h
    cases other with
    | none => simp only [trOther, Option.some.injEq] at ho; subst ho; rfl
    | some o => simpa [Spec.Stmt.pick, pyPick, trOther] using ho
  | (l, a) :: rest, pi, h => by
    simp only [trItems, Option.bind_eq_bind, Option.pure_def] at h
    cases hpa : tr a with
    | none => simp [hpa] at h
    | some pa =>
      cases hpr : trItems rest with
      | none => simp [hpa, hpr] at h
      | some pr =>
        simp only [hpa, hpr, Option.bind_some, Option.some.injEq] at h; subst h
        simp only [Spec.Stmt.pick, pyPick, cmpOp, V.toInt]
        by_cases hv : v = (l : Int)
        · simp [hv, hpa]
        · simp only [beq_iff_eq, hv, if_false]
          exact tr_pick v other po ho rest pr hpr

theorem pyName_caseTemp {n : String} (h : pyName n = caseTemp) : n = caseTemp := by
  have hc : pyName caseTemp = caseTemp := by decide
  exact C18_escaping_is_injective n caseTemp (h.trans hc.symm)

theorem readWith_uses : ∀ (e : Expr) (p : PyExpr), readWith exprCfg e = some p → exprMentions caseTemp e = false →
    exprUses caseTemp p = false := by
  intro e
  induction e with
  | int n => intro p h _; simp only [readWith, Option.some.injEq] at h; subst h; rfl
  | tt => intro p h _; simp only [readWith, Option.some.injEq] at h; subst h; rfl
  | ff => intro p h _; simp only [readWith, Option.some.injEq] at h; subst h; rfl
  | attr n =>
    intro p h hm
    simp only [readWith, readAttr, exprCfg, if_true, Option.some.injEq] at h; subst h
    simp only [exprMentions] at hm
    simp only [exprUses]
    cases hb : (pyName n == caseTemp) with
    | false => rfl
    | true => have := pyName_caseTemp (by simpa using hb); subst this; simp at hm
  | selfAttr n =>
    intro p h hm
    simp only [readWith, readAttr, exprCfg, if_true, Option.some.injEq] at h; subst h
    simp only [exprMentions] at hm
    simp only [exprUses]
    cases hb : (pyName n == caseTemp) with
    | false => rfl
    | true => have := pyName_caseTemp (by simpa using hb); subst this; simp at hm
  | un op x ih =>
    intro p h hm
    simp only [readWith] at h
    cases hx : readWith exprCfg x with
    | none => simp [hx] at h
    | some px =>
      simp only [hx, Option.map_some, Option.some.injEq] at h; subst h
      simp only [exprMentions] at hm
      simp only [exprUses, ih px hx hm]
  | bin op l r ihl ihr =>
    intro p h hm
    simp only [readWith] at h
    simp only [exprMentions, Bool.or_eq_false_iff] at hm
    cases hl : readWith exprCfg l with
    | none => simp [hl] at h
    | some pl =>
      cases hr : readWith exprCfg r with
      | none => simp [hl, hr] at h
      | some pr =>
        simp only [hl, hr, Option.some.injEq] at h
        have hnc : ¬ (op = .xor ∧ exprCfg.xorSkips = true ∧ isXor r = true) := by
          rintro ⟨_, h2, _⟩; simp [exprCfg] at h2
        rw [if_neg hnc] at h; subst h
        simp only [exprUses, ihl pl hl hm.1, ihr pr hr hm.2, Bool.or_self]

theorem trOpt_uses (o : Option Expr) (po : Option PyExpr) (h : trOpt o = some po) (hm : optMentions caseTemp o = false) :
    optUses caseTemp po = false := by
  rcases trOpt_some h with ⟨rfl, rfl⟩ | ⟨e, p, rfl, rfl, hp⟩
  · rfl
  · exact readWith_uses e p hp hm

theorem tr_uses : ∀ (s : Stmt) (p : PyStmt), tr s = some p → stmtMentions caseTemp s = false → stmtUses caseTemp p = false := by
  intro s
  induction s with
  | nop => intro p h _; simp only [tr, Option.some.injEq] at h; subst h; rfl
  | seq a b iha ihb =>
    intro p h hm
    simp only [stmtMentions, Bool.or_eq_false_iff] at hm
    simp only [tr, Option.bind_eq_bind, Option.pure_def] at h
    cases ha : tr a with
    | none => simp [ha] at h
    | some pa =>
      cases hb : tr b with
      | none => simp [ha, hb] at h
      | some pb =>
        simp only [ha, hb, Option.bind_some, Option.some.injEq] at h; subst h
        simp only [stmtUses, iha pa ha hm.1, ihb pb hb hm.2, Bool.or_self]
  | assign x e =>
    intro p h hm
    simp only [stmtMentions, Bool.or_eq_false_iff] at hm
    simp only [tr] at h
    cases he : readWith exprCfg e with
    | none => simp [he] at h
    | some pe =>
      simp only [he, Option.map_some, Option.some.injEq] at h; subst h
      simp only [stmtUses, readWith_uses e pe he hm.2, Bool.or_false]
      cases hb : (pyName x == caseTemp) with
      | false => rfl
      | true => have := pyName_caseTemp (by simpa using hb); subst this; simp at hm
  | ite c t e iht ihe =>
    intro p h hm
    simp only [stmtMentions, Bool.or_eq_false_iff] at hm
    simp only [tr, Option.bind_eq_bind, Option.pure_def] at h
    cases hc : readWith exprCfg c with
    | none => simp [hc] at h
    | some pc =>
      cases ht : tr t with
      | none => simp [hc, ht] at h
      | some pt =>
        cases hee : tr e with
        | none => simp [hc, ht, hee] at h
        | some pe =>
          simp only [hc, ht, hee, Option.bind_some, Option.some.injEq] at h; subst h
          simp only [stmtUses, readWith_uses c pc hc hm.1.1, iht pt ht hm.1.2, ihe pe hee hm.2, Bool.or_self]
  | repeatInc i a b st wh un body ih =>
    intro p h hm
    simp only [stmtMentions, Bool.or_eq_false_iff] at hm
    simp only [tr, Option.bind_eq_bind, Option.pure_def] at h
    cases ha : readWith exprCfg a with
    | none => simp [ha] at h
    | some pa =>
      cases hb : readWith exprCfg b with
      | none => simp [ha, hb] at h
      | some pb =>
        cases hbody : tr body with
        | none => simp [ha, hb, hbody] at h
        | some pbody =>
          cases hw : trOpt wh with
          | none => simp [ha, hb, hbody, hw] at h
          | some pw =>
            cases hu : trOpt un with
            | none => simp [ha, hb, hbody, hw, hu] at h
            | some pu =>
              simp only [ha, hb, hbody, hw, hu, Option.bind_some, Option.some.injEq] at h; subst h
              have hi : (pyName i == caseTemp) = false := by
                cases hbi : (pyName i == caseTemp) with
                | false => rfl
                | true => have := pyName_caseTemp (by simpa using hbi); subst this; simp at hm
              simp only [stmtUses, hi, readWith_uses a pa ha hm.1.1.1.1.2, readWith_uses b pb hb hm.1.1.1.2,
                trOpt_uses wh pw hw hm.1.1.2, trOpt_uses un pu hu hm.1.2, ih pbody hbody hm.2, Bool.or_self]
  | repeatWhile wh un body ih =>
    intro p h hm
    simp only [stmtMentions, Bool.or_eq_false_iff] at hm
    simp only [tr, Option.bind_eq_bind, Option.pure_def] at h
    cases hbody : tr body with
    | none => simp [hbody] at h
    | some pbody =>
      cases hw : trOpt wh with
      | none => simp [hbody, hw] at h
      | some pw =>
        cases hu : trOpt un with
        | none => simp [hbody, hw, hu] at h
        | some pu =>
          simp only [hbody, hw, hu, Option.bind_some, Option.some.injEq] at h; subst h
          simp only [stmtUses, trOpt_uses wh pw hw hm.1.1, trOpt_uses un pu hu hm.1.2, ih pbody hbody hm.2, Bool.or_self]
  | skip =>
    intro p h _
    simp only [tr, Option.some.injEq] at h; subst h
    cases skipIsContinue <;> rfl
  | escape => intro p h _; simp only [tr, Option.some.injEq] at h; subst h; rfl
  | ret e =>
    intro p h hm
    simp only [stmtMentions] at hm
    simp only [tr] at h
    cases he : readWith exprCfg e with
    | none => simp [he] at h
    | some pe =>
      simp only [he, Option.map_some, Option.some.injEq] at h; subst h
      simp only [stmtUses, readWith_uses e pe he hm]

theorem pick_mentions (c : Case) (hf : c.fresh = true) (v : Int) :
    stmtMentions caseTemp (Spec.Stmt.pick v c.items c.other) = false := by
  unfold Case.fresh at hf
  simp only [Bool.and_eq_true, List.all_eq_true, Bool.not_eq_eq_eq_not, Bool.not_true] at hf
  obtain ⟨hi, ho⟩ := hf
  generalize c.items = items at hi
  induction items with
  | nil =>
    cases hoo : c.other with
    | none => simp [Spec.Stmt.pick, stmtMentions]
    | some o => simp only [hoo] at ho; simpa [Spec.Stmt.pick] using ho
  | cons it rest ih =>
    obtain ⟨l, a⟩ := it
    simp only [Spec.Stmt.pick]
    split
    · exact hi (l, a) List.mem_cons_self
    · exact ih (fun x hx => hi x (List.mem_cons_of_mem _ hx))

end Stmt

/-- **CASE, with the temporary as an extra variable.**  `CASE sel OF l1 : a1; …; OTHERWISE : o; END_CASE` (actions from the
statement fragment) is written `case_selector = sel` followed by an `if`/`elif` chain.  Whenever the reference semantics
(13.4: the selector evaluated once, the first item with that label, else OTHERWISE, else nothing) runs the CASE to a result,
the written Python reaches the same way of ending, and its final environment is the image of EXPRESS's final environment
under the escaped names **with one more binding, the temporary**, put where the CASE began — *provided the temporary is
fresh*: no written action reads or assigns the Python name `case_selector`.  The finding
`func-value:variable-named-case-selector` is exactly the failure of that hypothesis. -/
theorem C18_case_translated (fuel : Nat) (env : Stmt.Env) (c : Stmt.Case) (pc : Stmt.PyCase) (r : Stmt.Env × Stmt.Out)
    (hw : ∀ v, Stmt.wf (Spec.Stmt.pick v c.items c.other) = true)
    (htr : Stmt.trCase c = some pc)
    (hfresh : ∀ v : Int, Stmt.stmtUses Stmt.caseTemp (Stmt.pyPick (.int v) pc.items pc.other) = false)
    (hs : Spec.Stmt.execCase fuel env c = some r) :
    ∃ (v : Int) (front : Stmt.Env), Body.instanceOf r.1 = front ++ Body.instanceOf env ∧
      Stmt.pyExecCase fuel (Body.instanceOf env) pc =
        some (front ++ (Stmt.caseTemp, .int v) :: Body.instanceOf env, r.2) := by
  unfold Stmt.trCase at htr
  simp only [Option.bind_eq_bind, Option.pure_def] at htr
  cases hps : Body.readWith Stmt.exprCfg c.sel with
  | none => simp [hps] at htr
  | some ps =>
    cases hpi : Stmt.trItems c.items with
    | none => simp [hps, hpi] at htr
    | some pi =>
      cases hpo : Stmt.trOther c.other with
      | none => simp [hps, hpi, hpo] at htr
      | some po =>
        simp only [hps, hpi, hpo, Option.bind_some, Option.some.injEq] at htr; subst htr
        unfold Spec.Stmt.execCase at hs
        cases hv : Spec.Body.eval env c.sel with
        | none => simp [hv] at hs
        | some sv =>
          cases sv with
          | bool _ => simp [hv] at hs
          | int v =>
            simp only [hv] at hs
            have hp := Stmt.tr_pick v c.other po hpo c.items pi hpi
            have hsim := Stmt.stmt_sim fuel env _ _ r (hw v) hp hs
            obtain ⟨front, hfr, hx⟩ := Stmt.pyExec_frame Stmt.caseTemp (.int v) (Body.instanceOf env) fuel _ (hfresh v)
              [] _ _ (by simpa using hsim)
            refine ⟨v, front, hfr, ?_⟩
            unfold Stmt.pyExecCase
            rw [Stmt.expr_value env c.sel (.int v) ps hv hps]
            simpa using hx

/-- The same with the freshness stated on the schema: no identifier in the actions of the CASE is called `case_selector`
(`Case.fresh`). -/
theorem C18_case_translated_when_no_identifier_is_the_temporary (fuel : Nat) (env : Stmt.Env) (c : Stmt.Case) (pc : Stmt.PyCase)
    (r : Stmt.Env × Stmt.Out) (hw : ∀ v, Stmt.wf (Spec.Stmt.pick v c.items c.other) = true)
    (htr : Stmt.trCase c = some pc) (hfresh : c.fresh = true) (hs : Spec.Stmt.execCase fuel env c = some r) :
    ∃ (v : Int) (front : Stmt.Env), Body.instanceOf r.1 = front ++ Body.instanceOf env ∧
      Stmt.pyExecCase fuel (Body.instanceOf env) pc =
        some (front ++ (Stmt.caseTemp, .int v) :: Body.instanceOf env, r.2) := by
  refine C18_case_translated fuel env c pc r hw htr ?_ hs
  intro v
  have htr' := htr
  unfold Stmt.trCase at htr'
  simp only [Option.bind_eq_bind, Option.pure_def] at htr'
  cases hps : Body.readWith Stmt.exprCfg c.sel with
  | none => simp [hps] at htr'
  | some ps =>
    cases hpi : Stmt.trItems c.items with
    | none => simp [hps, hpi] at htr'
    | some pi =>
      cases hpo : Stmt.trOther c.other with
      | none => simp [hps, hpi, hpo] at htr'
      | some po =>
        simp only [hps, hpi, hpo, Option.bind_some, Option.some.injEq] at htr'; subst htr'
        exact Stmt.tr_uses _ _ (Stmt.tr_pick v c.other po hpo c.items pi hpi) (Stmt.pick_mentions c hfresh v)

/-- When the hypothesis fails — a variable is itself called `case_selector` — the temporary overwrites it:
`CASE case_selector + 1 OF 1 : r := case_selector; END_CASE` from case_selector = 0 leaves r = 0 in EXPRESS and r = 1 in the
written Python (the finding `func-value:variable-named-case-selector`). -/
theorem C18_case_temporary_not_fresh_witness :
    let c : Stmt.Case := { sel := .bin .plus (.attr "case_selector") (.int 1), items := [(1, .assign "r" (.attr "case_selector"))], other := none }
    let env : Stmt.Env := [("case_selector", .int 0)]
    c.fresh = false ∧
    (Spec.Stmt.execCase 5 env c).map (fun q => Body.lookup q.1 "r") = some (some (.int 0)) ∧
    ((Stmt.trCase c).bind (fun pc => Stmt.pyExecCase 5 (Body.instanceOf env) pc)).map (fun q => Body.lookup q.1 "r") = some (some (.int 1)) := by
  decide


/-! ## the entity part of the module is a permutation of the entities -/

namespace EntityOrder

/-- what one `SCOPE_dfs` call keeps: no class twice, only entities of the scope, nothing that is on the recursion stack -/
structure Inv (es : List Entity) (stack out : List String) : Prop where
  nodup : out.Nodup
  defined : ∀ x ∈ out, (find es x).isSome
  offStack : ∀ x ∈ out, x ∉ stack

theorem dfs_inv (es : List Entity) :
    ∀ (f : Nat) (stack out : List String) (n : String) (out' : List String),
      Inv es stack out → dfs es f stack out n = some out' → Inv es stack out' := by
  intro f
  induction f with
  | zero => intro stack out n out' _ h; simp [dfs] at h
  | succ f ih =>
    intro stack out n out' hi h
    simp only [dfs] at h
    by_cases hm : n ∈ out ∨ n ∈ stack
    · rw [if_pos hm] at h; cases h; exact hi
    · rw [if_neg hm] at h
      cases hf : find es n with
      | none => rw [hf] at h; cases h; exact hi
      | some e =>
        rw [hf] at h
        simp only [Option.map_eq_some_iff] at h
        obtain ⟨o, hfold, rfl⟩ := h
        have hi0 : Inv es (n :: stack) out :=
          ⟨hi.nodup, hi.defined, fun x hx hxs => by
            rcases List.mem_cons.mp hxs with rfl | hxs
            · exact hm (Or.inl hx)
            · exact hi.offStack x hx hxs⟩
        have loop : ∀ (ps : List String) (o0 o1 : List String), Inv es (n :: stack) o0 →
            ps.foldlM (fun o p => dfs es f (n :: stack) o p) o0 = some o1 → Inv es (n :: stack) o1 := by
          intro ps
          induction ps with
          | nil => intro o0 o1 h0 hh; simp at hh; subst hh; exact h0
          | cons p ps ihp =>
            intro o0 o1 h0 hh
            simp only [List.foldlM_cons, Option.bind_eq_bind, Option.bind_eq_some_iff] at hh
            obtain ⟨om, hcall, hrest⟩ := hh
            exact ihp om o1 (ih (n :: stack) o0 p om h0 hcall) hrest
        have hio := loop e.supers out o hi0 hfold
        have hno : n ∉ o := fun hn => hio.offStack n hn List.mem_cons_self
        refine ⟨?_, ?_, ?_⟩
        · exact List.nodup_append.mpr ⟨hio.nodup, by simp, fun a ha b hb hab => by
            simp at hb; subst hb; subst hab; exact hno ha⟩
        · intro x hx
          rcases List.mem_append.mp hx with hx | hx
          · exact hio.defined x hx
          · simp at hx; subst hx; simp [hf]
        · intro x hx hxs
          rcases List.mem_append.mp hx with hx | hx
          · exact hio.offStack x hx (List.mem_cons_of_mem _ hxs)
          · simp at hx; subst hx; exact hm (Or.inr hxs)

theorem order_inv (es : List Entity) (fuel : Nat) (roots out : List String) (h : order es fuel roots = some out) :
    Inv es [] out := by
  unfold order at h
  have loop : ∀ (rs : List String) (o0 o1 : List String), Inv es [] o0 →
      rs.foldlM (fun o r => dfs es fuel [] o r) o0 = some o1 → Inv es [] o1 := by
    intro rs
    induction rs with
    | nil => intro o0 o1 h0 hh; simp at hh; subst hh; exact h0
    | cons r rs ihr =>
      intro o0 o1 h0 hh
      simp only [List.foldlM_cons, Option.bind_eq_bind, Option.bind_eq_some_iff] at hh
      obtain ⟨om, hcall, hrest⟩ := hh
      exact ihr om o1 (dfs_inv es fuel [] o0 r om h0 hcall) hrest
  exact loop roots [] out { nodup := List.nodup_nil, defined := fun x hx => by simp at hx, offStack := fun x hx => by simp at hx } h

end EntityOrder

/-- **The entity part of the module is a permutation of the schema's entities**: for an acyclic schema whose entity names
are distinct, and for every order in which the symbol table hands the entities to `SCOPE_dfs`, the classes are written in
an order that contains every entity exactly once — none lost, none twice, nothing else — and (by
`C18_entities_written_after_their_supertypes_total`) every class after the classes of its supertypes. -/
theorem C18_entity_classes_are_a_permutation (es : List Entity) (hac : EntityOrder.Acyclic es)
    (hnames : (es.map (·.name)).Nodup) (roots : List String) (hroots : roots.Perm (es.map (·.name))) :
    ∃ out, EntityOrder.order es (es.length + 1) roots = some out ∧ out.Perm (es.map (·.name)) ∧ EntityOrder.Sorted es out := by
  obtain ⟨out, ho, hsorted, hall⟩ := C18_entities_written_after_their_supertypes_total es hac roots
  refine ⟨out, ho, ?_, hsorted⟩
  have hinv := EntityOrder.order_inv es _ roots out ho
  refine (List.perm_ext_iff_of_nodup hinv.nodup hnames).mpr ?_
  intro x
  constructor
  · intro hx
    have hd := hinv.defined x hx
    cases hf : find es x with
    | none => rw [hf] at hd; cases hd
    | some e => exact EntityOrder.find_some_name_mem hf
  · intro hx
    have hr : x ∈ roots := hroots.mem_iff.mpr hx
    obtain ⟨e, he, hn⟩ := List.mem_map.mp hx
    have hfs : (find es x).isSome := by
      unfold find
      rw [List.find?_isSome]
      exact ⟨e, he, by simp [hn]⟩
    exact hall x hr hfs


/-- the hypotheses are satisfiable (the diamond with an attribute on its left arm, roots in declaration order) -/
example : ∃ out, EntityOrder.order diamondY (diamondY.length + 1) (diamondY.map (·.name)) = some out ∧
    out.Perm (diamondY.map (·.name)) ∧ EntityOrder.Sorted diamondY out :=
  C18_entity_classes_are_a_permutation diamondY diamondY_acyclic (by decide) _ (List.Perm.refl _)


/-! ## every defined type is written, once -/

namespace Order

theorem written_cons (t : DT) (done : List DT) (n : String) : written (t :: done) n = (t.name == n || written done n) := by
  simp [written]

theorem scan_mono (n : String) : ∀ (ts done : List DT), written done n = true → written (scan done ts) n = true
  | [], done, h => h
  | t :: ts, done, h => by
    simp only [scan]
    split
    · exact scan_mono n ts done h
    · cases t.head with
      | none => exact scan_mono n ts (t :: done) (by rw [written_cons]; simp [h])
      | some o =>
        simp only
        split
        · exact scan_mono n ts (t :: done) (by rw [written_cons]; simp [h])
        · exact scan_mono n ts done h

/-- a scan writes every type whose original is absent or already written when the scan reaches it -/
theorem scan_writes (t : DT) : ∀ (ts done : List DT), t ∈ ts →
    (t.head = none ∨ ∃ h, t.head = some h ∧ written done h = true) → written (scan done ts) t.name = true
  | [], _, hm, _ => by cases hm
  | u :: ts, done, hm, hh => by
    have hh' : ∀ done', (∀ n, written done n = true → written done' n = true) →
        (t.head = none ∨ ∃ h, t.head = some h ∧ written done' h = true) :=
      fun done' hsub => hh.imp id (fun ⟨h, h1, h2⟩ => ⟨h, h1, hsub h h2⟩)
    have hsub : ∀ n, written done n = true → written (u :: done) n = true := fun n hn => by rw [written_cons]; simp [hn]
    rcases List.mem_cons.mp hm with rfl | hm'
    · -- the scan is at `t` itself
      simp only [scan]
      split
      · rename_i hw; exact scan_mono _ ts done hw
      · rcases hh with hnone | ⟨h, hsome, hw⟩
        · rw [hnone]; exact scan_mono _ ts (t :: done) (by rw [written_cons]; simp)
        · rw [hsome]; simp only [hw, if_true]; exact scan_mono _ ts (t :: done) (by rw [written_cons]; simp)
    · simp only [scan]
      split
      · exact scan_writes t ts done hm' hh
      · cases u.head with
        | none => exact scan_writes t ts (u :: done) hm' (hh' _ hsub)
        | some o =>
          simp only
          split
          · exact scan_writes t ts (u :: done) hm' (hh' _ hsub)
          · exact scan_writes t ts done hm' hh

theorem scans_write (order : List DT) (rank : String → Nat)
    (hr : ∀ t ∈ order, ∀ h, t.head = some h → (∃ t' ∈ order, t'.name = h) ∧ rank h < rank t.name) :
    ∀ (n k : Nat) (done : List DT), (∀ t ∈ order, rank t.name < k → written done t.name = true) →
      ∀ t ∈ order, rank t.name < k + n → written (scans order n done) t.name = true := by
  intro n
  induction n with
  | zero => intro k done h t ht hlt; exact h t ht (by simpa using hlt)
  | succ n ih =>
    intro k done h t ht hlt
    simp only [scans]
    refine ih (k + 1) (scan done order) ?_ t ht (by omega)
    intro u hu hku
    apply scan_writes u order done hu
    cases hh : u.head with
    | none => exact Or.inl rfl
    | some o =>
      right
      obtain ⟨⟨t', ht', hn⟩, hlt'⟩ := hr u hu o hh
      refine ⟨o, rfl, ?_⟩
      have := h t' ht' (by rw [hn]; omega)
      rwa [hn] at this

theorem written_iff (done : List DT) (n : String) : written done n = true ↔ n ∈ done.map (·.name) := by
  unfold written
  rw [List.any_eq_true, List.mem_map]
  constructor
  · rintro ⟨d, hd, he⟩; exact ⟨d, hd, by simpa using he⟩
  · rintro ⟨d, hd, he⟩; exact ⟨d, hd, by simpa using he⟩

theorem scan_nodup : ∀ (ts done : List DT), (done.map (·.name)).Nodup → ((scan done ts).map (·.name)).Nodup
  | [], _, h => h
  | t :: ts, done, h => by
    simp only [scan]
    split
    · exact scan_nodup ts done h
    · rename_i hw
      have hnew : ((t :: done).map (·.name)).Nodup := by
        simp only [List.map_cons, List.nodup_cons]
        exact ⟨fun hm => hw ((written_iff done t.name).mpr hm), h⟩
      cases t.head with
      | none => exact scan_nodup ts (t :: done) hnew
      | some o =>
        simp only
        split
        · exact scan_nodup ts (t :: done) hnew
        · exact scan_nodup ts done h

theorem scans_nodup (order : List DT) : ∀ (n : Nat) (done : List DT), (done.map (·.name)).Nodup →
    ((scans order n done).map (·.name)).Nodup
  | 0, _, h => h
  | n + 1, done, h => scans_nodup order n _ (scan_nodup order done h)

theorem scan_subset (x : DT) : ∀ (ts done : List DT), x ∈ scan done ts → x ∈ done ∨ x ∈ ts
  | [], _, h => Or.inl h
  | t :: ts, done, h => by
    simp only [scan] at h
    split at h
    · exact (scan_subset x ts done h).imp id (List.mem_cons_of_mem _)
    · cases hh : t.head with
      | none =>
        rw [hh] at h
        rcases scan_subset x ts (t :: done) h with h1 | h1
        · rcases List.mem_cons.mp h1 with rfl | h1
          · exact Or.inr List.mem_cons_self
          · exact Or.inl h1
        · exact Or.inr (List.mem_cons_of_mem _ h1)
      | some o =>
        rw [hh] at h
        simp only at h
        split at h
        · rcases scan_subset x ts (t :: done) h with h1 | h1
          · rcases List.mem_cons.mp h1 with rfl | h1
            · exact Or.inr List.mem_cons_self
            · exact Or.inl h1
          · exact Or.inr (List.mem_cons_of_mem _ h1)
        · exact (scan_subset x ts done h).imp id (List.mem_cons_of_mem _)

theorem scans_subset (order : List DT) (x : DT) : ∀ (n : Nat) (done : List DT), x ∈ scans order n done → x ∈ done ∨ x ∈ order
  | 0, _, h => Or.inl h
  | n + 1, done, h => by
    rcases scans_subset order x n _ h with h1 | h1
    · exact scan_subset x order done h1
    · exact Or.inr h1

end Order

/-- **Every defined type is written**: for every set of defined types in which each renamed type is one of them and the
rename chains have no cycle (a rank function bounded by the number of types), and for every symbol-table order, the
repeated scans of `SCOPEPrint` — as many as there are types — write every type.  (`C18_defined_types_written_after_their_original`
alone would also hold of an empty module.) -/
theorem C18_defined_types_all_written (order : List Order.DT) (rank : String → Nat)
    (hr : ∀ t ∈ order, ∀ h, t.head = some h → (∃ t' ∈ order, t'.name = h) ∧ rank h < rank t.name)
    (hb : ∀ t ∈ order, rank t.name < order.length) :
    ∀ t ∈ order, Order.written (Order.emitted order) t.name = true := by
  intro t ht
  unfold Order.emitted
  simp only [typeRescan, if_true]
  exact Order.scans_write order rank hr order.length 0 [] (fun u _ h0 => by omega) t ht (by simpa using hb t ht)

/-- … and exactly once, and nothing else: the written types carry pairwise different names and each is one of the schema's. -/
theorem C18_defined_types_written_once (order : List Order.DT) :
    ((Order.emitted order).map (·.name)).Nodup ∧ ∀ x ∈ Order.emitted order, x ∈ order := by
  unfold Order.emitted
  simp only [typeRescan, if_true]
  refine ⟨Order.scans_nodup order _ [] (by simp), fun x hx => ?_⟩
  rcases Order.scans_subset order x _ [] hx with h | h
  · cases h
  · exact h

/-- the hypotheses are satisfiable: the chain of the seeded C18-b1, most derived first -/
example : ∀ t ∈ [(⟨"text", some "short_label"⟩ : Order.DT), ⟨"short_label", some "label"⟩, ⟨"label", none⟩],
    Order.written (Order.emitted [⟨"text", some "short_label"⟩, ⟨"short_label", some "label"⟩, ⟨"label", none⟩]) t.name = true :=
  C18_defined_types_all_written _ (fun n => if n = "text" then 2 else if n = "short_label" then 1 else 0)
    (by decide) (by decide)


/-! ## the statement semantics do not depend on the fuel -/

namespace Spec.Stmt
open StepModel.GenPy.Body StepModel.GenPy.Stmt

/-- `run'` does at least what `run` does -/
def Le (run run' : Env → Option (Env × Out)) : Prop := ∀ env r, run env = some r → run' env = some r

theorem pass_le (wh un : Option Expr) (run run' : Env → Option (Env × Out)) (h : Le run run') : Le (pass wh un run) (pass wh un run') := by
  intro env r hr
  have hgo : ∀ r, afterBody un (run env) = some r → afterBody un (run' env) = some r := by
    intro r hr
    cases hq : run env with
    | none => simp [hq, afterBody] at hr
    | some q => rw [h env q hq]; rw [hq] at hr; exact hr
  cases wh with
  | none => simp only [pass] at hr ⊢; exact hgo r hr
  | some w =>
    simp only [pass] at hr ⊢
    cases hb : evalBool env w with
    | none => simp [hb] at hr
    | some b => cases b <;> simp only [hb] at hr ⊢ <;> first | exact hr | exact hgo r hr

theorem loop_le (run run' : Env → Option (Env × Out)) (h : Le run run') (i : String) (b s : Int) :
    ∀ (n : Nat) (env : Env) (cur : Int) (r : Env × Out), loop run n env i cur b s = some r → loop run' (n + 1) env i cur b s = some r := by
  intro n
  induction n with
  | zero => intro env cur r hr; simp [loop] at hr
  | succ n ih =>
    intro env cur r hr
    rw [loop] at hr
    rw [loop]
    split at hr
    · rename_i hc; rw [if_pos hc]; exact hr
    · rename_i hc
      rw [if_neg hc]
      cases hq : run ((i, .int cur) :: env) with
      | none => simp [hq] at hr
      | some q =>
        obtain ⟨e1, o1⟩ := q
        rw [h _ _ hq]; simp only [hq] at hr
        cases o1 with
        | normal => exact ih e1 (cur + s) r hr
        | skipped => exact ih e1 (cur + s) r hr
        | escaped => exact hr
        | returned v => exact hr

theorem loopW_le (run run' : Env → Option (Env × Out)) (h : Le run run') :
    ∀ (n : Nat) (env : Env) (r : Env × Out), loopW run n env = some r → loopW run' (n + 1) env = some r := by
  intro n
  induction n with
  | zero => intro env r hr; simp [loopW] at hr
  | succ n ih =>
    intro env r hr
    rw [loopW] at hr
    rw [loopW]
    cases hq : run env with
    | none => simp [hq] at hr
    | some q =>
      obtain ⟨e1, o1⟩ := q
      rw [h _ _ hq]; simp only [hq] at hr
      cases o1 with
      | normal => exact ih e1 r hr
      | skipped => exact ih e1 r hr
      | escaped => exact hr
      | returned v => exact hr

theorem exec_succ : ∀ (f : Nat) (env : Env) (s : Stmt) (r : Env × Out), exec f env s = some r → exec (f + 1) env s = some r := by
  intro f
  induction f with
  | zero => intro env s r h; simp [exec] at h
  | succ f ih =>
    intro env s r h
    cases s with
    | nop => exact h
    | seq a b =>
      rw [exec] at h; rw [exec]
      cases ha : exec f env a with
      | none => simp [ha] at h
      | some q =>
        obtain ⟨e1, o1⟩ := q
        rw [ih env a _ ha]; simp only [ha] at h
        cases o1 with
        | normal => exact ih e1 b r h
        | skipped => exact h
        | escaped => exact h
        | returned v => exact h
    | assign x e => exact h
    | ite c t e =>
      rw [exec] at h; rw [exec]
      cases hv : Spec.Body.eval env c with
      | none => simp [hv] at h
      | some v =>
        cases v with
        | int n => simp [hv] at h
        | bool bv => cases bv <;> simp only [hv] at h ⊢ <;> first | exact ih env t r h | exact ih env e r h
    | repeatInc i a b st wh un body =>
      rw [exec] at h; rw [exec]
      cases hva : Spec.Body.eval env a with
      | none => simp [hva] at h
      | some va =>
        cases hvb : Spec.Body.eval env b with
        | none => cases va <;> simp [hva, hvb] at h
        | some vb =>
          cases va with
          | bool _ => simp [hva, hvb] at h
          | int ia =>
            cases vb with
            | bool _ => simp [hva, hvb] at h
            | int ib =>
              simp only [hva, hvb] at h ⊢
              exact loop_le _ _ (pass_le wh un _ _ (fun env' r' hr' => ih env' body r' hr')) i ib st f env ia r h
    | repeatWhile wh un body =>
      rw [exec] at h; rw [exec]
      exact loopW_le _ _ (pass_le wh un _ _ (fun env' r' hr' => ih env' body r' hr')) f env r h
    | skip => exact h
    | escape => exact h
    | ret e => exact h

theorem exec_le (env : Env) (s : Stmt) (r : Env × Out) : ∀ (f g : Nat), f ≤ g → exec f env s = some r → exec g env s = some r := by
  intro f g hle h
  induction hle with
  | refl => exact h
  | step _ ih => exact exec_succ _ env s r ih

end Spec.Stmt

/-- **The reference semantics of the statement fragment does not depend on the fuel**: more fuel never changes a result,
so any two runs of a statement from an environment that both finish agree — the fuel only says how long one is willing
to wait, it is not part of the meaning. -/
theorem C18_statement_semantics_is_fuel_independent (env : Stmt.Env) (s : Stmt.Stmt) (f g : Nat) (r r' : Stmt.Env × Stmt.Out)
    (h : Spec.Stmt.exec f env s = some r) (h' : Spec.Stmt.exec g env s = some r') : r = r' := by
  have h1 := Spec.Stmt.exec_le env s r f (max f g) (Nat.le_max_left _ _) h
  have h2 := Spec.Stmt.exec_le env s r' g (max f g) (Nat.le_max_right _ _) h'
  rw [h1] at h2
  exact Option.some.inj h2

namespace Stmt
open Body

theorem pyPass_le (wh un : Option PyExpr) (run run' : Env → Option (Env × Out)) (h : Spec.Stmt.Le run run') :
    Spec.Stmt.Le (pyPass wh un run) (pyPass wh un run') := by
  intro env r hr
  have hgo : ∀ r, pyAfterBody un (run env) = some r → pyAfterBody un (run' env) = some r := by
    intro r hr
    cases hq : run env with
    | none => simp [hq, pyAfterBody] at hr
    | some q => rw [h env q hq]; rw [hq] at hr; exact hr
  cases wh with
  | none => simp only [pyPass] at hr ⊢; exact hgo r hr
  | some w =>
    simp only [pyPass] at hr ⊢
    cases hb : pyEval env w with
    | none => simp [hb] at hr
    | some b =>
      simp only [hb] at hr ⊢
      by_cases ht : b.truthy = true
      · simp only [ht, if_true] at hr ⊢; exact hgo r hr
      · have hf : b.truthy = false := by simpa using ht
        simp only [hf, Bool.false_eq_true, if_false] at hr ⊢; exact hr

theorem pyLoop_le (run run' : Env → Option (Env × Out)) (h : Spec.Stmt.Le run run') (i : String) (stop s : Int) :
    ∀ (n : Nat) (env : Env) (cur : Int) (r : Env × Out), pyLoop run n env i cur stop s = some r → pyLoop run' (n + 1) env i cur stop s = some r := by
  intro n
  induction n with
  | zero => intro env cur r hr; simp [pyLoop] at hr
  | succ n ih =>
    intro env cur r hr
    rw [pyLoop] at hr
    rw [pyLoop]
    split at hr
    · rename_i hc
      rw [if_pos hc]
      cases hq : run ((i, .int cur) :: env) with
      | none => simp [hq] at hr
      | some q =>
        obtain ⟨e1, o1⟩ := q
        rw [h _ _ hq]; simp only [hq] at hr
        cases o1 with
        | normal => exact ih e1 (cur + s) r hr
        | skipped => exact ih e1 (cur + s) r hr
        | escaped => exact hr
        | returned v => exact hr
    · rename_i hc; rw [if_neg hc]; exact hr

theorem pyWhile_le (run run' : Env → Option (Env × Out)) (h : Spec.Stmt.Le run run') :
    ∀ (n : Nat) (env : Env) (r : Env × Out), pyWhile run n env = some r → pyWhile run' (n + 1) env = some r := by
  intro n
  induction n with
  | zero => intro env r hr; simp [pyWhile] at hr
  | succ n ih =>
    intro env r hr
    rw [pyWhile] at hr
    rw [pyWhile]
    cases hq : run env with
    | none => simp [hq] at hr
    | some q =>
      obtain ⟨e1, o1⟩ := q
      rw [h _ _ hq]; simp only [hq] at hr
      cases o1 with
      | normal => exact ih e1 r hr
      | skipped => exact ih e1 r hr
      | escaped => exact hr
      | returned v => exact hr

theorem pyExec_succ : ∀ (f : Nat) (env : Env) (p : PyStmt) (r : Env × Out), pyExec f env p = some r → pyExec (f + 1) env p = some r := by
  intro f
  induction f with
  | zero => intro env p r h; simp [pyExec] at h
  | succ f ih =>
    intro env p r h
    cases p with
    | pass => exact h
    | seq a b =>
      rw [pyExec] at h; rw [pyExec]
      cases ha : pyExec f env a with
      | none => simp [ha] at h
      | some q =>
        obtain ⟨e1, o1⟩ := q
        rw [ih env a _ ha]; simp only [ha] at h
        cases o1 with
        | normal => exact ih e1 b r h
        | skipped => exact h
        | escaped => exact h
        | returned v => exact h
    | assign x e => exact h
    | ite c t e =>
      rw [pyExec] at h; rw [pyExec]
      cases hv : pyEval env c with
      | none => simp [hv] at h
      | some v =>
        simp only [hv] at h ⊢
        by_cases ht : v.truthy = true
        · simp only [ht, if_true] at h ⊢; exact ih env t r h
        · have hf : v.truthy = false := by simpa using ht
          simp only [hf, Bool.false_eq_true, if_false] at h ⊢; exact ih env e r h
    | forRange i a b st wh un body =>
      rw [pyExec] at h; rw [pyExec]
      cases hva : pyEval env a with
      | none => simp [hva] at h
      | some va =>
        cases hvb : pyEval env b with
        | none => simp [hva, hvb] at h
        | some vb =>
          simp only [hva, hvb] at h ⊢
          exact pyLoop_le _ _ (pyPass_le wh un _ _ (fun env' r' hr' => ih env' body r' hr')) i _ st f env va.toInt r h
    | while_ c un body =>
      rw [pyExec] at h; rw [pyExec]
      exact pyWhile_le _ _ (pyPass_le c un _ _ (fun env' r' hr' => ih env' body r' hr')) f env r h
    | break_ => exact h
    | continue_ => exact h
    | ret e => exact h

theorem pyExec_le (env : Env) (p : PyStmt) (r : Env × Out) : ∀ (f g : Nat), f ≤ g → pyExec f env p = some r → pyExec g env p = some r := by
  intro f g hle h
  induction hle with
  | refl => exact h
  | step _ ih => exact pyExec_succ _ env p r ih

end Stmt

/-- … and so does Python's semantics of the written statements. -/
theorem C18_python_statement_semantics_is_fuel_independent (env : Stmt.Env) (p : Stmt.PyStmt) (f g : Nat) (r r' : Stmt.Env × Stmt.Out)
    (h : Stmt.pyExec f env p = some r) (h' : Stmt.pyExec g env p = some r') : r = r' := by
  have h1 := Stmt.pyExec_le env p r f (max f g) (Nat.le_max_left _ _) h
  have h2 := Stmt.pyExec_le env p r' g (max f g) (Nat.le_max_right _ _) h'
  rw [h1] at h2
  exact Option.some.inj h2

/-- **Translation correctness without the fuel**: if EXPRESS runs a statement of the fragment from an environment to a
result (with whatever fuel), then *every* finished run of the written Python from that environment, with whatever fuel, has
exactly that result — and at least one such run exists. -/
theorem C18_function_statements_translated_fuel_free (env : Stmt.Env) (s : Stmt.Stmt) (r : Stmt.Env × Stmt.Out) (f : Nat)
    (hw : Stmt.wf s = true) (hs : Spec.Stmt.exec f env s = some r) :
    ∃ p, Stmt.tr s = some p ∧ (∃ g, Stmt.pyExec g (Body.instanceOf env) p = some (Body.instanceOf r.1, r.2)) ∧
      ∀ g q, Stmt.pyExec g (Body.instanceOf env) p = some q → q = (Body.instanceOf r.1, r.2) := by
  obtain ⟨p, hp, hx⟩ := C18_function_statements_translated f env s r hw hs
  exact ⟨p, hp, ⟨f, hx⟩, fun g q hq => C18_python_statement_semantics_is_fuel_independent _ p g f q _ hq hx⟩


end StepModel.GenPy

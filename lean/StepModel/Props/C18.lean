import StepModel.GenPy
/-!
# C18 — exp2python emits a module that mirrors the schema

Model: `StepModel.GenPy` (emission rule of `LIBdescribe_entity` / `TYPEprint_descriptions`, keyword list and runtime
package regenerated from the C sources).  "Python can compile and import the module" is observed by the check
(py_compile + import against the bundled runtime), not proved.
-/
namespace StepModel.GenPy
open StepModel.Generated

/-! ## the MRO sort -/

theorem insertDesc_perm (key : String → Nat) (x : String) (l : List String) : (insertDesc key x l).Perm (x :: l) := by
  induction l with
  | nil => exact List.Perm.refl _
  | cons y ys ih =>
    simp only [insertDesc]
    split
    · exact (List.Perm.cons y ih).trans (List.Perm.swap x y ys)
    · exact List.Perm.refl _

theorem sortDesc_perm (key : String → Nat) (l : List String) : (sortDesc key l).Perm l := by
  induction l with
  | nil => exact List.Perm.refl _
  | cons x xs ih => exact (insertDesc_perm key x _).trans (List.Perm.cons x ih)

/-- The emitted base classes are exactly the entity's supertypes (each once, none added), for every schema. -/
theorem C18_bases_are_the_supertypes (es : List Entity) (e : Entity) : (bases es e).Perm e.supers :=
  sortDesc_perm _ _

theorem sortDesc_id_of_sorted (key : String → Nat) (l : List String)
    (h : l.Pairwise (fun a b => key a ≥ key b)) : sortDesc key l = l := by
  induction l with
  | nil => rfl
  | cons x xs ih =>
    have hx := List.pairwise_cons.mp h
    rw [sortDesc, ih hx.2]
    cases xs with
    | nil => rfl
    | cons y ys =>
      have : ¬ key y > key x := by have := hx.1 y (List.mem_cons_self); omega
      simp [insertDesc, this]

/-- Base classes are the supertypes **in declaration order** whenever the declared supertypes have non-increasing
supertype-chain lengths (in particular: at most one supertype, or supertypes of equal depth).  `_partial`: excluded are
entities that list a shallower supertype before a deeper one — there exp2python's `LISTsort(…, cmp_python_mro)` moves the
deeper one first (`C18_bases_order_witness`). -/
theorem C18_bases_decl_order_partial (es : List Entity) (e : Entity)
    (h : e.supers.Pairwise (fun a b => chainLen es es.length a ≥ chainLen es es.length b)) :
    bases es e = e.supers :=
  sortDesc_id_of_sorted _ _ h

/-- … in particular for single inheritance. -/
theorem C18_bases_single_inheritance (es : List Entity) (e : Entity) (h : e.supers.length ≤ 1) :
    bases es e = e.supers := by
  apply C18_bases_decl_order_partial
  match hs : e.supers with
  | [] => exact List.Pairwise.nil
  | [x] => exact List.pairwise_singleton _ _
  | _ :: _ :: _ => rw [hs] at h; simp at h

def shallowDeep : List Entity :=
  [⟨"g", [], []⟩, ⟨"p", ["g"], []⟩, ⟨"q", [], []⟩, ⟨"c", ["q", "p"], []⟩]

/-- `ENTITY c SUBTYPE OF (q, p)` with `p` deeper than `q` is emitted as `class c(p,q)`: not the declaration order. -/
theorem C18_bases_order_witness :
    bases shallowDeep ⟨"c", ["q", "p"], []⟩ = ["p", "q"] ∧ bases shallowDeep ⟨"c", ["q", "p"], []⟩ ≠ ["q", "p"] := by
  decide

/-! ## one class per entity, legal names -/

/-- One class per entity, in entity order, named by the escaped entity name. -/
theorem C18_one_class_per_entity (s : Schema) :
    (moduleOf s).classes.length = s.entities.length ∧
    (moduleOf s).classes.map (·.name) = s.entities.map (fun e => pyName e.name) := by
  simp [moduleOf, classOf, List.map_map, Function.comp_def]

/-- One definition per defined type, named by the escaped type name. -/
theorem C18_one_definition_per_type (s : Schema) :
    (moduleOf s).types.map (·.name) = s.types.map (fun t => pyName t.name) := by
  simp [moduleOf, typeOf, List.map_map, Function.comp_def]

/-- No emitted identifier is a Python keyword: for every EXPRESS identifier `n`, `pyName n` is not one of the Python
keywords that are legal EXPRESS identifiers (`Spec.pyKeywords`).  Depends on the regenerated `keyword_list[]`. -/
theorem C18_names_legal (n : String) : pyName n ∉ Spec.pyKeywords := by
  have h1 : ∀ k ∈ pythonKeywords, k ++ "_" ∉ Spec.pyKeywords := by decide
  have h2 : ∀ k ∈ Spec.pyKeywords, k ∈ pythonKeywords := by decide
  unfold pyName
  split
  · rename_i hm; exact h1 n hm
  · rename_i hm; exact fun hk => hm (h2 n hk)

/-- The emitted module imports the runtime package that is bundled (`src/exp2python/python/stepcode`). -/
theorem C18_imports_bundled_package (s : Schema) : (moduleOf s).package = "stepcode" := by
  simp [moduleOf, runtimePackage]

/-! ## constructor parameters -/

/-- The constructor takes the inherited parameters first (numbered `inherited<i>__…` consecutively from 0), then the
entity's own explicit attributes in declaration order; derived and inverse attributes never appear. -/
theorem C18_ctor_inherited_then_own (es : List Entity) (e : Entity) :
    ctorParams es e = numbered 0 (inheritedAttrs es e) ++ (e.attrs.filter isParam).map (fun a => pyName a.name) ∧
    (∀ a ∈ inheritedAttrs es e, a.kind = .explicit ∨ a.kind = .optional) := by
  refine ⟨rfl, ?_⟩
  intro a ha
  have := (List.mem_filter.mp ha).2
  simp only [isParam, Bool.or_eq_true, beq_iff_eq] at this
  exact this

theorem dedup_of_nodup (l : List Attr) (h : l.Nodup) : Spec.dedup l = l := by
  induction l with
  | nil => rfl
  | cons a as ih =>
    have ha := List.nodup_cons.mp h
    simp only [Spec.dedup, ih ha.2]
    congr 1
    apply List.filter_eq_self.mpr
    intro b hb
    simp only [decide_eq_true_eq]
    intro hba; subst hba; exact ha.1 hb

/-- Constructor order = Part 21 order for an entity without supertypes (attributes declared once).  `_partial`:
the general statement fails for an entity that reaches an ancestor along two paths (`C18_ctor_diamond_witness`). -/
theorem C18_ctor_p21_order_root_partial (es : List Entity) (e : Entity) (hes : es ≠ []) (hs : e.supers = [])
    (hn : e.attrs.Nodup) : ctorAttrNames es e = Spec.ctorAttrNames es e := by
  cases es with
  | nil => exact absurd rfl hes
  | cons x xs =>
    simp only [ctorAttrNames, Spec.ctorAttrNames, inheritedAttrs, bases, hs, sortDesc, List.flatMap_nil,
      List.filter_nil, List.nil_append, List.length_cons, Spec.p21Attrs, dedup_of_nodup _ hn]

def diamond : List Entity :=
  [⟨"root", [], [⟨"root", "x", .explicit⟩]⟩, ⟨"l", ["root"], []⟩, ⟨"r", ["root"], []⟩, ⟨"d", ["l", "r"], []⟩]

/-- A diamond: `d`'s constructor takes `root.x` twice (`inherited0__x, inherited1__x`), Part 21 lists it once. -/
theorem C18_ctor_diamond_witness :
    ctorParams diamond ⟨"d", ["l", "r"], []⟩ = ["inherited0__x", "inherited1__x"] ∧
    Spec.ctorAttrNames diamond ⟨"d", ["l", "r"], []⟩ = ["x"] := by
  decide

/-- hypotheses are satisfiable -/
example : bases shallowDeep ⟨"p", ["g"], []⟩ = ["g"] := C18_bases_single_inheritance _ _ (by decide)

end StepModel.GenPy

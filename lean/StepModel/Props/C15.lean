import StepModel.SevLemmas
import StepModel.AttrNull
import StepModel.ModeGlue
/-!
C15 — strict and lenient handling of missing required attributes.

The decision table of the property, stated for EVERY attribute position of EVERY instance shape (own / inherited
attributes are positions of the flattened attribute list; a complex instance is a list of parts) at EVERY position
of a population whose other instances read cleanly.  All constants come from `Generated.*` (re-extracted from the
source on every run), so the theorems are re-checked against what the code says now.
-/
namespace StepModel.AttrNull
open StepModel StepModel.P21 StepModel.Generated

/-! ### inputs -/

/-- every position reads without complaint -/
inductive CleanL (strict : Bool) : List AttrD → List Tok → Prop
  | nil : CleanL strict [] []
  | cons {a t as ts} : (attrRead strict a t).1 = .null → CleanL strict as ts → CleanL strict (a :: as) (t :: ts)

/-- an instance as it stands in the file: attribute descriptors and tokens, per part -/
inductive InstIn where
  | simple (as : List AttrD) (ts : List Tok)
  | complex (parts : List (List AttrD × List Tok))
  /-- internally mapped instance of an entity that redeclares inherited attributes: the C++ attribute list with its
      redefining attributes, read by the loop `loopRead` -/
  | slots (es : List Slot) (ts : List Tok)

/-- what `ReadInstance` learns about an instance, for a given shape `S` of the complex-instance code -/
def readInstS (S : CxShape) (fileStrict : Bool) : InstIn → InstResult
  | .simple as ts => ⟨(instRead (fileStrictFor false fileStrict) as ts).1, false⟩
  | .complex ps => ⟨(complexReadS S (fileStrictFor true fileStrict) ps).1, true⟩
  | .slots es ts => ⟨(loopRead (fileStrictFor false fileStrict) es ts).1, false⟩

/-- … for the code at hand -/
abbrev readInst (fileStrict : Bool) (i : InstIn) : InstResult := readInstS codeShape fileStrict i

/-- values stored, per part -/
def readVals (fileStrict : Bool) : InstIn → List (List Val)
  | .simple as ts => [(instRead (fileStrictFor false fileStrict) as ts).2]
  | .complex ps => (complexRead (fileStrictFor true fileStrict) ps).2
  | .slots es ts => [(loopRead (fileStrictFor false fileStrict) es ts).2]

/-- severity of the STEPfile after reading the population -/
def readFileS (S : CxShape) (fileStrict : Bool) (is : List InstIn) : Sev := fileSevS S (is.map (readInstS S fileStrict))
abbrev readFile (fileStrict : Bool) (is : List InstIn) : Sev := readFileS codeShape fileStrict is

/-- the complex-instance code before repairs C15-7 / C15-8: the parts' errors never reach the instance, the instance's error
    never reaches the file -/
def oldShape : CxShape := ⟨.none, false⟩
/-- … with both repairs -/
def repairedShape : CxShape := ⟨.nonDerivedAttrs, true⟩
/-- … with the rejected repair C15-3 in place of C15-8 -/
def rejectedShape : CxShape := ⟨.all, true⟩

def InstIn.isComplex : InstIn → Bool | .complex _ => true | _ => false

def CleanParts (strict : Bool) (ps : List (List AttrD × List Tok)) : Prop := ∀ p ∈ ps, CleanL strict p.1 p.2

/-- a conforming parameter list for the C++ attribute list of an entity that redeclares attributes (technical-corrigendum
    encoding): every attribute reads without complaint, a redefining entry takes no value — and does not stand in front of a
    parameter list that consists of one absent value (that is the shape the loop reads as "the last value was left out") -/
inductive CleanSlots (strict : Bool) : List Slot → List Tok → Prop
  | nil : CleanSlots strict [] []
  | attr {a t es ts} : (attrRead strict a t).1 = .null → CleanSlots strict es ts → CleanSlots strict (.attr a :: es) (t :: ts)
  | red {es ts} : ts ≠ [Tok.missing false] → CleanSlots strict es ts → CleanSlots strict (.redefining :: es) ts

inductive CleanInst (strict : Bool) : InstIn → Prop
  | simple {as ts} : CleanL strict as ts → CleanInst strict (.simple as ts)
  | complex {ps} : CleanParts strict ps → CleanInst strict (.complex ps)
  | slots {es ts} : CleanSlots strict es ts → CleanInst strict (.slots es ts)

/-- `inst` is conforming except that the value of attribute `a` (at any position, in any part) is `$` (d = true) or
    absent (d = false) -/
inductive OneMissing (strict : Bool) (a : AttrD) (d : Bool) : InstIn → Prop
  | simple {as₁ ts₁ as₂ ts₂} : CleanL strict as₁ ts₁ → CleanL strict as₂ ts₂ →
      OneMissing strict a d (.simple (as₁ ++ a :: as₂) (ts₁ ++ Tok.missing d :: ts₂))
  | complex {ps₁ ps₂ as₁ ts₁ as₂ ts₂} : CleanParts strict ps₁ → CleanParts strict ps₂ →
      CleanL strict as₁ ts₁ → CleanL strict as₂ ts₂ →
      OneMissing strict a d (.complex (ps₁ ++ (as₁ ++ a :: as₂, ts₁ ++ Tok.missing d :: ts₂) :: ps₂))
  /-- the shape every generated class with a redeclared attribute has: redefining entries between the attributes.  Excluded:
      an ABSENT value that is the last of the list (`d = false`, nothing behind it) — the loop reads that as a left-out
      trailing value: SEVERITY_WARNING instead of INCOMPLETE (`C15_trailing_value_left_out`), rejected either way -/
  | slots {es₁ ts₁ es₂ ts₂} : CleanSlots strict es₁ ts₁ → CleanSlots strict es₂ ts₂ → (d = true ∨ ts₂ ≠ []) →
      OneMissing strict a d (.slots (es₁ ++ Slot.attr a :: es₂) (ts₁ ++ Tok.missing d :: ts₂))

/-- the same, restricted to the shapes on which the current code reports the attribute's error at all:
    an internally mapped instance (own and inherited attributes alike), or the FIRST part of a complex instance
    (the part that is the `STEPcomplex` object itself; `STEPcomplex::STEPread` drops what the other parts report —
    KNOWN_FINDINGS `complex:nonhead-part-error-dropped`) -/
inductive OneMissingSH (strict : Bool) (a : AttrD) (d : Bool) : InstIn → Prop
  | simple {as₁ ts₁ as₂ ts₂} : CleanL strict as₁ ts₁ → CleanL strict as₂ ts₂ →
      OneMissingSH strict a d (.simple (as₁ ++ a :: as₂) (ts₁ ++ Tok.missing d :: ts₂))
  | head {ps₂ as₁ ts₁ as₂ ts₂} : CleanParts strict ps₂ → CleanL strict as₁ ts₁ → CleanL strict as₂ ts₂ →
      OneMissingSH strict a d (.complex ((as₁ ++ a :: as₂, ts₁ ++ Tok.missing d :: ts₂) :: ps₂))

/-- … and to internally mapped instances only -/
inductive OneMissingSimple (strict : Bool) (a : AttrD) (d : Bool) : InstIn → Prop
  | simple {as₁ ts₁ as₂ ts₂} : CleanL strict as₁ ts₁ → CleanL strict as₂ ts₂ →
      OneMissingSimple strict a d (.simple (as₁ ++ a :: as₂) (ts₁ ++ Tok.missing d :: ts₂))

/-- lenient mode substitutes for exactly these base types … -/
def substitutable (k : Kind) : Bool := k = .integer || k = .real || k = .number || k = .string
/-- … these values (`''` is the Part 21 spelling of the empty string) -/
def substValue : Kind → String
  | .integer => "0" | .real => "0.0" | .number => "0" | .string => "''" | _ => ""

/-! ### the extracted tables are the ones the model understands -/

theorem C15_fillers_known :
    ∀ c ∈ fillerCases, c.2.2.1 ∈ ["ReadInteger", "ReadReal", "ReadNumber", "assign"] ∧ (Kind.ofName c.1).isSome := by
  decide

/-- the mode flag reaches every attribute of every instance shape unchanged (p21read `-s` → `STEPfile::_strict` →
    `ReadInstance` → `STEPread` of the instance / of each complex part → `STEPattribute::STEPread`) -/
theorem C15_strict_plumbing (s : Bool) :
    attrStrict (fileStrictFor false s) = s ∧ attrStrict (partStrict (fileStrictFor true s)) = s ∧
    p21readStrictDefault = false ∧ p21readStrictWithDashS = true := by
  cases s <;> decide

/-! ### attribute level: the decision table (`d = true`: the value is `$`; `d = false`: no value before the delimiter) -/

/-- an attribute position as the registry describes it: plain (`f = false`) or redeclared by the entity at hand with a
    narrower type (`f = true`; the C++ attribute list carries a redefining attribute for it and, depending on the version of
    the class generator, flags the position derived as well: `d`); `k` is the underlying kind of the (narrower) type, `r`: it is a defined type on a defined type -/
def posAttr (k : Kind) (o r f : Bool) (d : Bool := false) : AttrD := ⟨k, o, f && d, r, f⟩

/-- a redeclared position reads exactly like an attribute of its narrower type, in the caller's mode, whatever the
    derived flag the class gives it (the forward to the redefining attribute comes first and its error is taken over) -/
theorem C15_attr_redeclared_as_own (strict : Bool) (k : Kind) (o d r : Bool) (t : Tok) :
    attrRead strict ⟨k, o, d, r, true⟩ t = attrReadOwn strict ⟨k, o, false, r, false⟩ t := by
  have h1 : redefReportsError = true := rfl
  have h2 : redefStrict = none := rfl
  simp [attrRead, attrReadR, h1, h2]

theorem C15_attr_optional (strict d r f g : Bool) (k : Kind) :
    attrRead strict (posAttr k true r f g) (.missing d) = (.null, .null) := by
  cases strict <;> cases f <;> cases g <;> rfl

theorem C15_attr_strict_required (d r f g : Bool) (k : Kind) :
    attrRead true (posAttr k false r f g) (.missing d) = (.incomplete, .null) := by
  cases f <;> cases g <;> rfl

/-- `k` is the UNDERLYING kind: the substitution reaches an INTEGER/REAL/NUMBER/STRING behind any chain of defined types
    (`r`: the attribute's own type is a defined type on a defined type), at plain and at redeclared positions (`f`) -/
theorem C15_attr_lenient_substitutes (k : Kind) (r f g : Bool) (h : substitutable k = true) :
    attrRead false (posAttr k false r f g) (.missing true) = (.usermsg, .tok (substValue k)) := by
  cases g <;> cases f <;> cases r <;> cases k <;> first | rfl | (simp [substitutable] at h)

theorem C15_attr_lenient_other (k : Kind) (r f g : Bool) (h : substitutable k = false) :
    attrRead false (posAttr k false r f g) (.missing true) = (.incomplete, .null) := by
  cases g <;> cases f <;> cases r <;> cases k <;> first | rfl | (simp [substitutable] at h)

/-- a required value that is not there at all is a malformed parameter list: incomplete in BOTH modes, every kind -/
theorem C15_attr_absent_required (strict r f g : Bool) (k : Kind) :
    attrRead strict (posAttr k false r f g) (.missing false) = (.incomplete, .null) := by
  cases strict <;> cases g <;> cases f <;> cases r <;> cases k <;> rfl

theorem C15_attr_derived_star (strict o r : Bool) (k : Kind) :
    attrRead strict ⟨k, o, true, r, false⟩ .star = (.null, .derived) := by
  cases strict <;> rfl

theorem C15_attr_derived_other (strict o r : Bool) (k : Kind) (t : Tok) (h : t ≠ .star) :
    (attrRead strict ⟨k, o, true, r, false⟩ t).1 = .warning := by
  cases t with
  | star => exact absurd rfl h
  | missing d => cases strict <;> rfl
  | lit v sv => cases strict <;> rfl

/-- the shape before repair C15-5 (`return _redefAttr->STEPread( in, instances, addFileId, currSch );`: error not taken over,
    `strict` defaulted to true): ANY token at a redeclared position read with severity NULL in both modes.  The regenerated
    flags of that shape are `redefReportsError = false`, `redefStrict = some true`; reverting the repair makes
    `C15_attr_redeclared_as_own` (and everything that rests on it) fail, and this is what the code would do then. -/
theorem C15_redeclared_old_shape_witness (strict : Bool) (k : Kind) (o d r : Bool) (t : Tok) :
    (attrReadR false (some true) strict ⟨k, o, d, r, true⟩ t).1 = .null := by
  simp [attrReadR]

/-! ### instance level -/

theorem greater_null_right (e : Sev) : Sev.greater e .null = e := Sev.greater_null_right e
theorem greater_null_left (s : Sev) : Sev.greater .null s = s := Sev.greater_null_left s
theorem mergeAttr_null_right (acc : Sev) : mergeAttr acc .null = acc := by cases acc <;> rfl
theorem mergeAttr_null_left (s : Sev) : mergeAttr .null s = s := by cases s <;> rfl

theorem instReadAux_clean {strict s : Bool} (hs : attrStrict strict = s) {as ts} (h : CleanL s as ts) (acc : Sev) :
    (instReadAux strict acc as ts).1 = acc := by
  induction h generalizing acc with
  | nil => rfl
  | cons h1 _ ih =>
    simp only [instReadAux, hs]
    rw [ih]; rw [h1]; exact mergeAttr_null_right acc

theorem instReadAux_at {strict s : Bool} (hs : attrStrict strict = s) {as₁ ts₁ as₂ ts₂} (a : AttrD) (t : Tok)
    (h₁ : CleanL s as₁ ts₁) (h₂ : CleanL s as₂ ts₂) (acc : Sev) :
    (instReadAux strict acc (as₁ ++ a :: as₂) (ts₁ ++ t :: ts₂)).1 = mergeAttr acc (attrRead s a t).1 := by
  induction h₁ generalizing acc with
  | nil =>
    simp only [List.nil_append, instReadAux, hs]
    exact instReadAux_clean hs h₂ _
  | cons h1 _ ih =>
    simp only [List.cons_append, instReadAux, hs]
    rw [ih, h1, mergeAttr_null_right]

/-- severity of an instance that is clean except at one (arbitrary) position -/
theorem instRead_sev_at {strict s : Bool} (hs : attrStrict strict = s) {as₁ ts₁ as₂ ts₂} (a : AttrD) (t : Tok)
    (h₁ : CleanL s as₁ ts₁) (h₂ : CleanL s as₂ ts₂) :
    (instRead strict (as₁ ++ a :: as₂) (ts₁ ++ t :: ts₂)).1 = (attrRead s a t).1 := by
  unfold instRead
  rw [instReadAux_at hs a t h₁ h₂, mergeAttr_null_left]

theorem instRead_sev_clean {strict s : Bool} (hs : attrStrict strict = s) {as ts} (h : CleanL s as ts) :
    (instRead strict as ts).1 = .null := instReadAux_clean hs h _

theorem cleanL_length {s as ts} (h : CleanL s as ts) : as.length = ts.length := by
  induction h with
  | nil => rfl
  | cons _ _ ih => simp [ih]

theorem instReadAux_vals {strict s : Bool} (hs : attrStrict strict = s) (as : List AttrD) (ts : List Tok) (acc : Sev) :
    (instReadAux strict acc as ts).2 = List.zipWith (fun a t => (attrRead s a t).2) as ts := by
  induction as generalizing ts acc with
  | nil => cases ts <;> rfl
  | cons a as ih =>
    cases ts with
    | nil => rfl
    | cons t ts => simp only [instReadAux, hs, List.zipWith_cons_cons]; rw [ih]

/-- the value stored at the position of the missing attribute -/
theorem instRead_val_at {strict s : Bool} (hs : attrStrict strict = s) {as₁ ts₁} (as₂ ts₂) (a : AttrD) (t : Tok)
    (h₁ : CleanL s as₁ ts₁) :
    (instRead strict (as₁ ++ a :: as₂) (ts₁ ++ t :: ts₂)).2[as₁.length]? = some (attrRead s a t).2 := by
  unfold instRead
  rw [instReadAux_vals hs]
  have hl := cleanL_length h₁
  rw [List.zipWith_append hl]
  simp [List.length_zipWith, hl]

/-! ### the read loop on a conforming attribute list with redefining entries -/

theorem everyNthAux_mem (step : Nat) : ∀ (k : Nat) (l : List Slot) (x : Slot), x ∈ everyNthAux step k l → x ∈ l
  | _, [], x, h => by simp [everyNthAux] at h
  | 0, y :: ys, x, h => by
    simp only [everyNthAux, List.mem_cons] at h
    rcases h with h | h
    · exact h ▸ List.mem_cons_self
    · exact List.mem_cons_of_mem _ (everyNthAux_mem step _ ys x h)
  | k + 1, y :: ys, x, h => by
    simp only [everyNthAux] at h
    exact List.mem_cons_of_mem _ (everyNthAux_mem step k ys x h)

theorem cleanSlots_no_tokens {s es} (h : CleanSlots s es []) : ∀ x ∈ es, x.isAttr = false := by
  generalize hts : ([] : List Tok) = ts at h
  induction h with
  | nil => intro x hx; cases hx
  | attr _ _ _ => cases hts
  | red _ _ ih =>
    intro x hx
    simp only [List.mem_cons] at hx
    rcases hx with hx | hx
    · subst hx; rfl
    · exact ih hts x hx

theorem lookAheadR_no_attr (step : Nat) (acc : Sev) {es : List Slot} (h : ∀ x ∈ es, x.isAttr = false) :
    lookAheadR step acc es = acc := by
  unfold lookAheadR
  have : (everyNth step es).any Slot.isAttr = false := by
    simp only [List.any_eq_false]
    intro x hx
    have := h x (everyNthAux_mem step 0 es x hx)
    simp [this]
  rw [this]; rfl

theorem loopReadR_cleanS {strict s : Bool} (hs : attrStrict strict = s) (step : Nat) {es ts} (h : CleanSlots s es ts) (acc : Sev) :
    (loopReadR step strict acc es ts).1 = acc := by
  induction h generalizing acc with
  | nil => rfl
  | @attr a t es ts h1 hc ih =>
    cases ts with
    | nil =>
      simp only [loopReadR, hs]
      rw [h1, mergeAttr_null_right, lookAheadR_no_attr step acc (cleanSlots_no_tokens hc)]
    | cons t' ts' => simp only [loopReadR, hs]; rw [ih, h1, mergeAttr_null_right]
  | @red es ts hne hc ih =>
    simp only [loopReadR]
    exact ih acc

theorem loopReadR_cleanS_prefix {strict s : Bool} (hs : attrStrict strict = s) (step : Nat) {es₁ ts₁} (h : CleanSlots s es₁ ts₁)
    (es : List Slot) (t : Tok) (ts : List Tok) (hlast : t :: ts ≠ [Tok.missing false]) (acc : Sev) :
    (loopReadR step strict acc (es₁ ++ es) (ts₁ ++ t :: ts)).1 = (loopReadR step strict acc es (t :: ts)).1 := by
  induction h generalizing acc with
  | nil => rfl
  | @attr a t₀ es₀ ts₀ h1 _ ih =>
    simp only [List.cons_append, loopReadR, hs]
    cases hts : ts₀ ++ t :: ts with
    | nil => simp at hts
    | cons x xs => simp only []; rw [← hts, ih, h1, mergeAttr_null_right]
  | @red es₀ ts₀ _ _ ih =>
    have hne : ts₀ ++ t :: ts ≠ [Tok.missing false] := by
      cases ts₀ with
      | nil => exact hlast
      | cons y ys => intro heq; simp at heq
    simp only [List.cons_append, loopReadR]
    exact ih acc

/-- the decision table at every attribute position of such a list — plain, inherited or redeclared, whatever redefining
    entries stand before and behind it: the instance's severity is what the attribute's own read decided.  Excluded (`hlast`):
    an absent value that is the last of the list (see `OneMissing.slots`). -/
theorem loopRead_position {strict s : Bool} (hs : attrStrict strict = s) {es₁ ts₁ es₂ ts₂} (a : AttrD) (t : Tok)
    (h₁ : CleanSlots s es₁ ts₁) (h₂ : CleanSlots s es₂ ts₂) (hlast : t :: ts₂ ≠ [Tok.missing false]) :
    (loopRead strict (es₁ ++ Slot.attr a :: es₂) (ts₁ ++ t :: ts₂)).1 = (attrRead s a t).1 := by
  unfold loopRead
  rw [loopReadR_cleanS_prefix hs _ h₁ _ t ts₂ hlast]
  cases ts₂ with
  | nil =>
    simp only [loopReadR, hs]
    rw [mergeAttr_null_left, lookAheadR_no_attr _ _ (cleanSlots_no_tokens h₂)]
  | cons t' ts' =>
    simp only [loopReadR, hs]; rw [loopReadR_cleanS hs _ h₂, mergeAttr_null_left]

/-! ### complex instances -/

/-- the obligation that ties the statements below to the code at hand: which shape the regenerated tables describe.
    Since C15-7 (6e026e0e) and C15-8 (e83f8aed) it is `repairedShape`: the `C15_repaired_*` rows are the statements about
    the code; the rows stated for `oldShape` describe the code before (reverting either repair makes this fail). -/
theorem C15_complex_shape : codeShape = repairedShape := by decide

theorem partAttrSev_clean {strict s : Bool} (hs : attrStrict strict = s) {as ts} (h : CleanL s as ts) (acc : Sev) :
    partAttrSev strict acc as ts = acc := by
  induction h generalizing acc with
  | nil => rfl
  | @cons a t as ts h1 _ ih =>
    simp only [partAttrSev, hs]
    rw [ih, h1, mergeAttr_null_right]; simp

theorem partAttrSev_at {strict s : Bool} (hs : attrStrict strict = s) {as₁ ts₁ as₂ ts₂} (a : AttrD) (t : Tok)
    (h₁ : CleanL s as₁ ts₁) (h₂ : CleanL s as₂ ts₂) (acc : Sev) :
    partAttrSev strict acc (as₁ ++ a :: as₂) (ts₁ ++ t :: ts₂)
      = if a.derived then acc else mergeAttr acc (attrRead s a t).1 := by
  induction h₁ generalizing acc with
  | nil =>
    simp only [List.nil_append, partAttrSev, hs]
    exact partAttrSev_clean hs h₂ _
  | @cons a' t' as ts h1 _ ih =>
    simp only [List.cons_append, partAttrSev, hs]
    rw [ih, h1, mergeAttr_null_right]; simp

theorem foldl_partAttrSev_clean {strict s : Bool} (hs : attrStrict strict = s) (ps : List (List AttrD × List Tok))
    (h : CleanParts s ps) (acc : Sev) : ps.foldl (fun acc p => partAttrSev strict acc p.1 p.2) acc = acc := by
  induction ps generalizing acc with
  | nil => rfl
  | cons p ps ih =>
    simp only [List.foldl_cons]
    rw [partAttrSev_clean hs (h p (by simp))]
    exact ih (fun x hx => h x (by simp [hx])) acc

theorem foldl_greater_clean {strict s : Bool} (hs : attrStrict strict = s) (ps : List (List AttrD × List Tok))
    (h : CleanParts s ps) (acc : Sev) :
    ps.foldl (fun acc p => Sev.greater acc (instRead strict p.1 p.2).1) acc = acc := by
  induction ps generalizing acc with
  | nil => rfl
  | cons p ps ih =>
    simp only [List.foldl_cons]
    rw [instRead_sev_clean hs (h p (by simp)), greater_null_right]
    exact ih (fun x hx => h x (by simp [hx])) acc

/-- old shape: only the first part's severity survives `STEPcomplex::STEPread` -/
theorem complexReadS_none_head (rp strict : Bool) (p : List AttrD × List Tok) (ps : List (List AttrD × List Tok)) :
    (complexReadS ⟨.none, rp⟩ strict (p :: ps)).1 = (instRead (partStrict strict) p.1 p.2).1 := rfl

/-- whatever the shape: when the parts after the first are clean, the instance's severity is its first part's -/
theorem complexReadS_head_at (S : CxShape) {strict s : Bool} (hs : attrStrict (partStrict strict) = s)
    (p : List AttrD × List Tok) {ps : List (List AttrD × List Tok)} (h : CleanParts s ps) :
    (complexReadS S strict (p :: ps)).1 = (instRead (partStrict strict) p.1 p.2).1 := by
  obtain ⟨m, rp⟩ := S
  cases m with
  | none => rfl
  | all => simp only [complexReadS]; rw [foldl_greater_clean hs ps h]
  | nonDerivedAttrs => simp only [complexReadS]; rw [foldl_partAttrSev_clean hs ps h, greater_null_right]

theorem complexReadS_sev_clean (S : CxShape) {strict s : Bool} (hs : attrStrict (partStrict strict) = s) {ps}
    (h : CleanParts s ps) : (complexReadS S strict ps).1 = .null := by
  cases ps with
  | nil => rfl
  | cons p ps =>
    have hh := instRead_sev_clean hs (h p (by simp))
    have hr : CleanParts s ps := fun x hx => h x (by simp [hx])
    obtain ⟨m, rp⟩ := S
    cases m with
    | none => exact hh
    | all => simp only [complexReadS]; rw [foldl_greater_clean hs ps hr, hh]
    | nonDerivedAttrs => simp only [complexReadS]; rw [foldl_partAttrSev_clean hs ps hr, hh]; rfl

/-- shape of C15-8: an instance that is clean except at one position — of ANY part — ends with the severity the attribute's
    own read decided, unless the position is flagged derived in a part other than the first (what a sibling part derives is
    not this part's to report) -/
theorem complexReadS_nd_at (rp : Bool) {strict s : Bool} (hs : attrStrict (partStrict strict) = s)
    {ps₁ ps₂ : List (List AttrD × List Tok)} {as₁ ts₁ as₂ ts₂} (a : AttrD) (t : Tok)
    (hp₁ : CleanParts s ps₁) (hp₂ : CleanParts s ps₂) (h₁ : CleanL s as₁ ts₁) (h₂ : CleanL s as₂ ts₂)
    (ha : a.derived = false) :
    (complexReadS ⟨.nonDerivedAttrs, rp⟩ strict (ps₁ ++ (as₁ ++ a :: as₂, ts₁ ++ t :: ts₂) :: ps₂)).1 = (attrRead s a t).1 := by
  cases ps₁ with
  | nil =>
    simp only [List.nil_append, complexReadS]
    rw [foldl_partAttrSev_clean hs ps₂ hp₂, instRead_sev_at hs a t h₁ h₂, greater_null_right]
  | cons p ps =>
    simp only [List.cons_append, complexReadS, List.foldl_append, List.foldl_cons]
    rw [instRead_sev_clean hs (hp₁ p (by simp)), foldl_partAttrSev_clean hs ps (fun x hx => hp₁ x (by simp [hx])),
      partAttrSev_at hs a t h₁ h₂, foldl_partAttrSev_clean hs ps₂ hp₂, greater_null_left]
    simp [ha, mergeAttr_null_left]

/-- … and a position flagged derived in a part other than the first contributes nothing, whatever stands there -/
theorem complexReadS_nd_derived (rp : Bool) {strict s : Bool} (hs : attrStrict (partStrict strict) = s)
    {p : List AttrD × List Tok} {ps₁ ps₂ : List (List AttrD × List Tok)} {as₁ ts₁ as₂ ts₂} (a : AttrD) (t : Tok)
    (hp : CleanL s p.1 p.2) (hp₁ : CleanParts s ps₁) (hp₂ : CleanParts s ps₂) (h₁ : CleanL s as₁ ts₁) (h₂ : CleanL s as₂ ts₂)
    (ha : a.derived = true) :
    (complexReadS ⟨.nonDerivedAttrs, rp⟩ strict (p :: ps₁ ++ (as₁ ++ a :: as₂, ts₁ ++ t :: ts₂) :: ps₂)).1 = .null := by
  simp only [List.cons_append, complexReadS, List.foldl_append, List.foldl_cons]
  rw [instRead_sev_clean hs hp, foldl_partAttrSev_clean hs ps₁ hp₁, partAttrSev_at hs a t h₁ h₂,
    if_pos ha, foldl_partAttrSev_clean hs ps₂ hp₂]
  rfl

/-! ### file level -/

theorem afterInstS_null (S : CxShape) (e : Sev) (r : InstResult) (h : r.sev = .null) : afterInstS S e r = e := by
  obtain ⟨s, c⟩ := r; obtain ⟨m, rp⟩ := S
  cases c <;> cases rp <;> simp_all [afterInstS, reportsErrorS, entityMerge] <;> rfl

theorem foldl_afterInstS_clean (S : CxShape) (rs : List InstResult) (h : ∀ r ∈ rs, r.sev = .null) (e : Sev) :
    rs.foldl (afterInstS S) e = e := by
  induction rs generalizing e with
  | nil => rfl
  | cons r rs ih =>
    simp only [List.foldl_cons]
    rw [afterInstS_null S e r (h r (by simp))]
    exact ih (fun x hx => h x (by simp [hx])) e

theorem rd2S_of_null (S : CxShape) (r : InstResult) (h : r.sev = .null) : rd2InvalidS S r = false ∧ rd2ValidS S r = true := by
  obtain ⟨s, c⟩ := r; obtain ⟨m, rp⟩ := S
  cases c <;> cases rp <;> simp_all [rd2InvalidS, rd2ValidS, leftOverS, reportsErrorS] <;> decide

theorem any_invalidS_clean (S : CxShape) (rs : List InstResult) (h : ∀ x ∈ rs, x.sev = .null) :
    rs.any (rd2InvalidS S) = false := by
  simp only [List.any_eq_false]; intro x hx; simp [(rd2S_of_null S x (h x hx)).1]

theorem all_validS_clean (S : CxShape) (rs : List InstResult) (h : ∀ x ∈ rs, x.sev = .null) :
    rs.all (rd2ValidS S) = true := by
  simp only [List.all_eq_true]; intro x hx; exact (rd2S_of_null S x (h x hx)).2

/-- what one instance with severity `s` does to the severity of an otherwise clean file -/
def fileSevForS (S : CxShape) (r : InstResult) : Sev := fileSevS S [r]
abbrev fileSevFor (r : InstResult) : Sev := fileSevForS codeShape r

/-- internally mapped → `AppendEntityErrorMsg` (floor WARNING), whatever the complex-instance code looks like -/
theorem fileSevForS_simple (S : CxShape) (s : Sev) : fileSevForS S ⟨s, false⟩ = entityMerge .null s := by
  obtain ⟨m, rp⟩ := S; cases s <;> rfl
/-- complex, error not handed to `AppendEntityErrorMsg` → it stays on the instance, `ReadData2` counts the instance as
    invalid / not valid and the file gets SEVERITY_WARNING whatever `s` was -/
theorem fileSevForS_complex_unreported (m : CxMerge) (s : Sev) :
    fileSevForS ⟨m, false⟩ ⟨s, true⟩ = if s = .null then .null else .warning := by cases s <;> rfl
/-- complex, error handed to `AppendEntityErrorMsg` (C15-7) → as for internally mapped instances -/
theorem fileSevForS_complex_reported (m : CxMerge) (s : Sev) :
    fileSevForS ⟨m, true⟩ ⟨s, true⟩ = entityMerge .null s := by cases s <;> rfl

theorem fileSevFor_simple (s : Sev) : fileSevFor ⟨s, false⟩ = entityMerge .null s := fileSevForS_simple _ s
theorem fileSevS_one (S : CxShape) (rs₁ rs₂ : List InstResult) (r : InstResult)
    (h₁ : ∀ x ∈ rs₁, x.sev = .null) (h₂ : ∀ x ∈ rs₂, x.sev = .null) :
    fileSevS S (rs₁ ++ r :: rs₂) = fileSevForS S r := by
  unfold fileSevForS fileSevS
  simp only [List.any_append, List.any_cons, List.all_append, List.all_cons, any_invalidS_clean S rs₁ h₁,
    any_invalidS_clean S rs₂ h₂, all_validS_clean S rs₁ h₁, all_validS_clean S rs₂ h₂, List.any_nil, List.all_nil,
    Bool.false_or, Bool.or_false, Bool.true_and, Bool.and_true]
  rw [List.foldl_append, foldl_afterInstS_clean S rs₁ h₁, List.foldl_cons, foldl_afterInstS_clean S rs₂ h₂]
  rfl

theorem fileSevS_clean (S : CxShape) (rs : List InstResult) (h : ∀ x ∈ rs, x.sev = .null) : fileSevS S rs = .null := by
  unfold fileSevS
  simp only [any_invalidS_clean S rs h, all_validS_clean S rs h, if_true, Bool.false_eq_true, if_false]
  exact foldl_afterInstS_clean S rs h _

theorem readInstS_clean (S : CxShape) {s : Bool} {i : InstIn} (h : CleanInst s i) : (readInstS S s i).sev = .null := by
  cases h with
  | simple hc => exact instRead_sev_clean (C15_strict_plumbing s).1 hc
  | complex hp => exact complexReadS_sev_clean S (C15_strict_plumbing s).2.1 hp
  | slots hc => exact loopReadR_cleanS (C15_strict_plumbing s).1 _ hc _

theorem map_readInstS_clean (S : CxShape) {s : Bool} (is : List InstIn) (h : ∀ x ∈ is, CleanInst s x) :
    ∀ x ∈ is.map (readInstS S s), x.sev = .null := by
  intro x hx; simp only [List.mem_map] at hx; obtain ⟨y, hy, rfl⟩ := hx; exact readInstS_clean S (h y hy)

theorem readFileS_one (S : CxShape) {s : Bool} (i : InstIn) (pre post : List InstIn)
    (hpre : ∀ x ∈ pre, CleanInst s x) (hpost : ∀ x ∈ post, CleanInst s x) :
    readFileS S s (pre ++ i :: post) = fileSevForS S (readInstS S s i) := by
  unfold readFileS
  rw [List.map_append, List.map_cons,
    fileSevS_one S _ _ _ (map_readInstS_clean S pre hpre) (map_readInstS_clean S post hpost)]

theorem readFile_one {s : Bool} (i : InstIn) (pre post : List InstIn)
    (hpre : ∀ x ∈ pre, CleanInst s x) (hpost : ∀ x ∈ post, CleanInst s x) :
    readFile s (pre ++ i :: post) = fileSevFor (readInst s i) := readFileS_one codeShape i pre post hpre hpost

/-- internally mapped instance or first part of a complex one: the instance's severity is what the pre-check decided —
    whatever the shape of the complex-instance code -/
theorem readInstS_SH (S : CxShape) {s : Bool} {a : AttrD} {d : Bool} {i : InstIn} (h : OneMissingSH s a d i) :
    (readInstS S s i).sev = (attrRead s a (.missing d)).1 := by
  cases h with
  | simple h₁ h₂ => exact instRead_sev_at (C15_strict_plumbing s).1 a _ h₁ h₂
  | head hp h₁ h₂ =>
    simp only [readInstS]
    rw [complexReadS_head_at S (C15_strict_plumbing s).2.1 _ hp]
    exact instRead_sev_at (C15_strict_plumbing s).2.1 a _ h₁ h₂

theorem complex_of_SH_casesS (S : CxShape) {s a d i} (h : OneMissingSH s a d i) :
    readInstS S s i = ⟨(attrRead s a (.missing d)).1, i.isComplex⟩ := by
  have hs := readInstS_SH S h
  cases h <;> (simp only [readInstS, InstIn.isComplex] at hs ⊢; rw [hs])

theorem complex_of_SH_cases {s a d i} (h : OneMissingSH s a d i) :
    readInst s i = ⟨(attrRead s a (.missing d)).1, i.isComplex⟩ := complex_of_SH_casesS codeShape h

theorem cleanL_insert {s : Bool} {as₁ ts₁ as₂ ts₂} {a : AttrD} {t : Tok} (h₁ : CleanL s as₁ ts₁)
    (ha : (attrRead s a t).1 = .null) (h₂ : CleanL s as₂ ts₂) : CleanL s (as₁ ++ a :: as₂) (ts₁ ++ t :: ts₂) := by
  induction h₁ with
  | nil => exact .cons ha h₂
  | cons h1 _ ih => exact .cons h1 ih

/-- shape of C15-8 (whatever `ReadInstance` does with the error): ANY position of ANY instance shape -/
theorem readInstS_nd {rp s : Bool} {a : AttrD} {d : Bool} {i : InstIn} (ha : a.derived = false) (h : OneMissing s a d i) :
    readInstS ⟨.nonDerivedAttrs, rp⟩ s i = ⟨(attrRead s a (.missing d)).1, i.isComplex⟩ := by
  cases h with
  | simple h₁ h₂ =>
    simp only [readInstS, InstIn.isComplex]
    rw [instRead_sev_at (C15_strict_plumbing s).1 a _ h₁ h₂]
  | complex hp₁ hp₂ h₁ h₂ =>
    simp only [readInstS, InstIn.isComplex]
    rw [complexReadS_nd_at rp (C15_strict_plumbing s).2.1 a _ hp₁ hp₂ h₁ h₂ ha]
  | @slots es₁ ts₁ es₂ ts₂ h₁ h₂ hl =>
    simp only [readInstS, InstIn.isComplex]
    rw [loopRead_position (C15_strict_plumbing s).1 a _ h₁ h₂ (by
      rcases hl with hl | hl
      · subst hl; intro h; simp at h
      · intro h; simp at h; exact hl h.2)]

/-! ### the property -/

/-- A conforming population reads cleanly in either mode: severity NULL, exit 0. -/
theorem C15_conforming_clean (s : Bool) (is : List InstIn) (h : ∀ x ∈ is, CleanInst s x) :
    readFile s is = .null ∧ p21readExit (readFile s is) = 0 := by
  have : readFile s is = .null := fileSevS_clean _ _ (map_readInstS_clean _ is h)
  rw [this]; exact ⟨rfl, rfl⟩

/-- OPTIONAL attribute unset — `$` or no value at all —, ANY position of ANY instance shape (any part of a complex
    instance included; attribute lists with redefining entries included, there except an absent LAST value, see
    `OneMissing.slots`), either mode: the file reads with severity NULL, p21read exits 0, the instance is complete. -/
theorem C15_optional_ok (s d r f g : Bool) (k : Kind) (i : InstIn) (pre post : List InstIn)
    (hpre : ∀ x ∈ pre, CleanInst s x) (hpost : ∀ x ∈ post, CleanInst s x)
    (h : OneMissing s (posAttr k true r f g) d i) :
    readFile s (pre ++ i :: post) = .null ∧ accepted (readFile s (pre ++ i :: post)) = true ∧
    nodeState (readInst s i) = .complete := by
  have hs : (readInst s i).sev = .null := by
    cases h with
    | simple h₁ h₂ =>
      have := instRead_sev_at (C15_strict_plumbing s).1 (posAttr k true r f g) (Tok.missing d) h₁ h₂
      rw [C15_attr_optional] at this; exact this
    | @complex ps₁ ps₂ as₁ ts₁ as₂ ts₂ hp₁ hp₂ h₁ h₂ =>
      -- an unset OPTIONAL attribute reads without complaint: the instance is a clean one
      have ha : (attrRead s (posAttr k true r f g) (Tok.missing d)).1 = .null := by rw [C15_attr_optional]
      apply readInstS_clean
      apply CleanInst.complex
      intro p hp
      simp only [List.mem_append, List.mem_cons] at hp
      rcases hp with hp | hp | hp
      · exact hp₁ p hp
      · subst hp; exact cleanL_insert h₁ ha h₂
      · exact hp₂ p hp
    | @slots es₁ ts₁ es₂ ts₂ h₁ h₂ hl =>
      simp only [readInst, readInstS]
      rw [loopRead_position (C15_strict_plumbing s).1 _ _ h₁ h₂ (by
        rcases hl with hl | hl
        · subst hl; intro h; simp at h
        · intro h; simp at h; exact hl h.2), C15_attr_optional]
  have hf : readFile s (pre ++ i :: post) = .null := by
    rw [readFile_one i pre post hpre hpost]
    cases hr : readInst s i with | mk sv c =>
    rw [hr] at hs; simp only at hs; subst hs
    cases c <;> rfl
  rw [hf]
  refine ⟨rfl, rfl, ?_⟩
  unfold nodeState; rw [hs]; rfl

/-- … for internally mapped instances the file severity is exactly SEVERITY_INCOMPLETE -/
theorem C15_strict_required_severity_simple (d r f g : Bool) (k : Kind) (i : InstIn) (pre post : List InstIn)
    (hpre : ∀ x ∈ pre, CleanInst true x) (hpost : ∀ x ∈ post, CleanInst true x)
    (h : OneMissingSimple true (posAttr k false r f g) d i) : readFile true (pre ++ i :: post) = .incomplete := by
  cases h with
  | simple h₁ h₂ =>
    rw [readFile_one _ pre post hpre hpost, complex_of_SH_cases (.simple h₁ h₂), C15_attr_strict_required]; rfl

/-- … and the value stored at that position (the one written back) is 0 / 0.0 / 0 / '' — internally mapped instance -/
theorem C15_lenient_value_simple (k : Kind) (r f g : Bool) (hk : substitutable k = true)
    {as₁ ts₁} (as₂ ts₂) (h₁ : CleanL false as₁ ts₁) :
    ((readVals false (.simple (as₁ ++ (posAttr k false r f g) :: as₂) (ts₁ ++ Tok.missing true :: ts₂)))[0]?.bind
      (·[as₁.length]?)) = some (.tok (substValue k)) := by
  simp only [readVals, List.getElem?_cons_zero, Option.bind_some]
  rw [instRead_val_at (C15_strict_plumbing false).1 as₂ ts₂ _ _ h₁, C15_attr_lenient_substitutes k r f g hk]

/-- … the substitution itself also happens inside every part of a complex instance (the flags reach the parts) -/
theorem C15_lenient_value_complex (k : Kind) (r f g : Bool) (hk : substitutable k = true)
    (ps₁ ps₂ : List (List AttrD × List Tok)) {as₁ ts₁} (as₂ ts₂) (h₁ : CleanL false as₁ ts₁) :
    ((readVals false (.complex (ps₁ ++ (as₁ ++ (posAttr k false r f g) :: as₂, ts₁ ++ Tok.missing true :: ts₂) :: ps₂)))[ps₁.length]?.bind
      (·[as₁.length]?)) = some (.tok (substValue k)) := by
  simp only [readVals, complexRead, complexReadS, List.map_append, List.map_cons, List.map_map]
  rw [List.getElem?_append_right (by simp)]
  simp only [List.length_map, Nat.sub_self, List.getElem?_cons_zero, Option.bind_some]
  rw [instRead_val_at (C15_strict_plumbing false).2.1 as₂ ts₂ _ _ h₁, C15_attr_lenient_substitutes k r f g hk]

/-- the table is total: the two lenient rows partition the kinds, exactly as the property lists them -/
theorem C15_table_total (k : Kind) :
    (substitutable k = true ↔ k = .integer ∨ k = .real ∨ k = .number ∨ k = .string) ∧
    (substitutable k = true ∨ substitutable k = false) := by
  cases k <;> simp [substitutable]

/-! ### where the complex-instance code before C15-7 / C15-8 (`oldShape`) violates the property

Stated for `oldShape`; `C15_complex_shape` says whether that is the code at hand (then these are the two classes recorded in
KNOWN_FINDINGS.txt and replayed by checks/c15.py). -/

/-- general form of `complex:nonhead-part-error-dropped`: whatever stands in the parts after the first one, the
    complex instance reads with the severity of its first part alone -/
theorem C15_complex_nonhead_ignored (s : Bool) (p : List AttrD × List Tok) (ps : List (List AttrD × List Tok))
    (hp : CleanL s p.1 p.2) : (readInstS oldShape s (.complex (p :: ps))).sev = .null := by
  simp only [readInstS, oldShape]
  rw [complexReadS_none_head]; exact instRead_sev_clean (C15_strict_plumbing s).2.1 hp

/-- `#1=(A(5)B($));` with `B.x : ENUMERATION` required, STRICT mode: severity NULL, accepted, complete — the property
    demands incomplete / exit 1 -/
theorem C15_strict_required_complex_nonhead_witness :
    let i := InstIn.complex [([⟨.integer, false, false, false, false⟩], [Tok.lit (.tok "5") .null]), ([⟨.enum, false, false, false, false⟩], [Tok.missing true])]
    readFileS oldShape true [i] = .null ∧ accepted (readFileS oldShape true [i]) = true ∧
    nodeState (readInstS oldShape true i) = .complete := by
  decide

/-- the same file in lenient mode, and with a substitutable kind: accepted WITHOUT a user message -/
theorem C15_lenient_complex_nonhead_witness :
    let i := InstIn.complex [([⟨.integer, false, false, false, false⟩], [Tok.lit (.tok "5") .null]), ([⟨.string, false, false, false, false⟩], [Tok.missing true])]
    readFileS oldShape false [i] = .null := by
  decide

/-- `complex:usermsg-escalated`: `#1=(A($)B(.X.));` with `A.n : INTEGER` required, LENIENT mode: the part substitutes 0 with a
    user message, but the file ends with SEVERITY_WARNING and p21read exits 1 — the property demands accepted -/
theorem C15_lenient_substitutes_complex_head_witness :
    let i := InstIn.complex [([⟨.integer, false, false, false, false⟩], [Tok.missing true]), ([⟨.enum, false, false, false, false⟩], [Tok.lit (.tok ".X.") .null])]
    (readInstS oldShape false i).sev = .usermsg ∧ readFileS oldShape false [i] = .warning ∧
    p21readExit (readFileS oldShape false [i]) = 1 := by
  decide

/-- `#1=RQS('a',$);` where `rqs` redeclares `rq_n : NUMBER` as INTEGER (required): since repair C15-5 the table applies —
    strict: incomplete, exit 1; lenient: user message, 0 substituted, accepted (concrete instance of the theorems above) -/
theorem C15_redeclared_required_example :
    let i := InstIn.simple [⟨.string, false, false, false, false⟩, posAttr .integer false false true]
                           [Tok.lit (.tok "'a'") .null, Tok.missing true]
    readFile true [i] = .incomplete ∧ p21readExit (readFile true [i]) = 1 ∧ nodeState (readInst true i) = .incomplete ∧
    readFile false [i] = .usermsg ∧ accepted (readFile false [i]) = true ∧ readVals false i = [[.tok "'a'", .tok "0"]] := by
  decide

/-- general form of `complex:usermsg-escalated`: lenient `$` for a required INTEGER/REAL/NUMBER/STRING at ANY position of the FIRST
    part of a complex instance, anywhere in an otherwise clean population: the part substitutes with a user message (the instance
    ends complete), yet the file ends with SEVERITY_WARNING and p21read exits 1 -/
theorem C15_lenient_substitutes_complex_head_escalated (k : Kind) (r f g : Bool) (hk : substitutable k = true)
    {ps₂ as₁ ts₁ as₂ ts₂} (pre post : List InstIn)
    (hpre : ∀ x ∈ pre, CleanInst false x) (hpost : ∀ x ∈ post, CleanInst false x)
    (hp : CleanParts false ps₂) (h₁ : CleanL false as₁ ts₁) (h₂ : CleanL false as₂ ts₂) :
    let i := InstIn.complex ((as₁ ++ posAttr k false r f g :: as₂, ts₁ ++ Tok.missing true :: ts₂) :: ps₂)
    (readInstS oldShape false i).sev = .usermsg ∧ readFileS oldShape false (pre ++ i :: post) = .warning ∧
    p21readExit (readFileS oldShape false (pre ++ i :: post)) = 1 ∧ nodeState (readInstS oldShape false i) = .complete := by
  intro i
  have hsh : OneMissingSH false (posAttr k false r f g) true i := .head hp h₁ h₂
  have hr := complex_of_SH_casesS oldShape hsh
  rw [C15_attr_lenient_substitutes k r f g hk] at hr
  rw [readFileS_one oldShape i pre post hpre hpost, hr]
  exact ⟨rfl, rfl, rfl, rfl⟩

/-- general form of `complex:nonhead-part-error-dropped` at file level: whatever the parts after the first contain, a complex
    instance with a clean first part leaves an otherwise clean file at severity NULL (accepted) and ends complete -/
theorem C15_complex_nonhead_file (s : Bool) (p : List AttrD × List Tok) (ps : List (List AttrD × List Tok))
    (hp : CleanL s p.1 p.2) (pre post : List InstIn)
    (hpre : ∀ x ∈ pre, CleanInst s x) (hpost : ∀ x ∈ post, CleanInst s x) :
    readFileS oldShape s (pre ++ InstIn.complex (p :: ps) :: post) = .null ∧
    nodeState (readInstS oldShape s (.complex (p :: ps))) = .complete := by
  have h0 := C15_complex_nonhead_ignored s p ps hp
  rw [readFileS_one oldShape _ pre post hpre hpost]
  cases hr : readInstS oldShape s (.complex (p :: ps)) with | mk sv c =>
  rw [hr] at h0; simp only at h0; subst h0
  have hc : c = true := by simp [readInstS] at hr; exact hr.2
  subst hc
  exact ⟨rfl, rfl⟩

/-! ### the decision table with repairs C15-7 and C15-8 (`repairedShape`): every position of every instance shape

`OneMissing` ranges over internally mapped instances and over EVERY part of a complex instance.  `hd`: the position is not
flagged derived by the class (a redeclared position is, with some versions of the class generator — `f && g`); positions
flagged derived in a part other than the first are the one thing C15-8 does not look at, see
`C15_repaired_sibling_derived_tolerated`. -/

theorem C15_repaired_strict_required_incomplete (d r f g : Bool) (k : Kind) (hd : (f && g) = false) (i : InstIn)
    (pre post : List InstIn) (hpre : ∀ x ∈ pre, CleanInst true x) (hpost : ∀ x ∈ post, CleanInst true x)
    (h : OneMissing true (posAttr k false r f g) d i) :
    readFileS repairedShape true (pre ++ i :: post) = .incomplete ∧
    p21readExit (readFileS repairedShape true (pre ++ i :: post)) = 1 ∧
    nodeState (readInstS repairedShape true i) = .incomplete := by
  unfold repairedShape
  rw [readFileS_one _ i pre post hpre hpost, readInstS_nd (show (posAttr k false r f g).derived = false from hd) h,
    C15_attr_strict_required]
  cases i.isComplex <;> exact ⟨rfl, rfl, rfl⟩

theorem C15_repaired_lenient_substitutes (k : Kind) (r f g : Bool) (hk : substitutable k = true) (hd : (f && g) = false)
    (i : InstIn) (pre post : List InstIn) (hpre : ∀ x ∈ pre, CleanInst false x) (hpost : ∀ x ∈ post, CleanInst false x)
    (h : OneMissing false (posAttr k false r f g) true i) :
    readFileS repairedShape false (pre ++ i :: post) = .usermsg ∧
    accepted (readFileS repairedShape false (pre ++ i :: post)) = true ∧
    nodeState (readInstS repairedShape false i) = .complete := by
  unfold repairedShape
  rw [readFileS_one _ i pre post hpre hpost, readInstS_nd (show (posAttr k false r f g).derived = false from hd) h,
    C15_attr_lenient_substitutes k r f g hk]
  cases i.isComplex <;> exact ⟨rfl, rfl, rfl⟩

theorem C15_repaired_lenient_other_incomplete (k : Kind) (r f g : Bool) (hk : substitutable k = false)
    (hd : (f && g) = false) (i : InstIn) (pre post : List InstIn)
    (hpre : ∀ x ∈ pre, CleanInst false x) (hpost : ∀ x ∈ post, CleanInst false x)
    (h : OneMissing false (posAttr k false r f g) true i) :
    readFileS repairedShape false (pre ++ i :: post) = .incomplete ∧
    p21readExit (readFileS repairedShape false (pre ++ i :: post)) = 1 ∧
    nodeState (readInstS repairedShape false i) = .incomplete := by
  unfold repairedShape
  rw [readFileS_one _ i pre post hpre hpost, readInstS_nd (show (posAttr k false r f g).derived = false from hd) h,
    C15_attr_lenient_other k r f g hk]
  cases i.isComplex <;> exact ⟨rfl, rfl, rfl⟩

theorem C15_repaired_absent_required_incomplete (s r f g : Bool) (k : Kind) (hd : (f && g) = false) (i : InstIn)
    (pre post : List InstIn) (hpre : ∀ x ∈ pre, CleanInst s x) (hpost : ∀ x ∈ post, CleanInst s x)
    (h : OneMissing s (posAttr k false r f g) false i) :
    readFileS repairedShape s (pre ++ i :: post) = .incomplete ∧
    p21readExit (readFileS repairedShape s (pre ++ i :: post)) = 1 ∧
    nodeState (readInstS repairedShape s i) = .incomplete := by
  unfold repairedShape
  rw [readFileS_one _ i pre post hpre hpost, readInstS_nd (show (posAttr k false r f g).derived = false from hd) h,
    C15_attr_absent_required]
  cases i.isComplex <;> exact ⟨rfl, rfl, rfl⟩

/-! ### … and for the code at hand (`C15_complex_shape`): the decision table, every position of every instance shape -/

theorem readFile_eq_repaired (s : Bool) (is : List InstIn) : readFile s is = readFileS repairedShape s is := by
  show readFileS codeShape s is = _; rw [C15_complex_shape]
theorem readInst_eq_repaired (s : Bool) (i : InstIn) : readInst s i = readInstS repairedShape s i := by
  show readInstS codeShape s i = _; rw [C15_complex_shape]

/-- required attribute unset (`$` or absent), STRICT mode, any kind, ANY position of ANY instance shape — internally mapped
    (own, inherited, redeclared positions) or any part of a complex instance —, anywhere in an otherwise clean population:
    the file ends at SEVERITY_INCOMPLETE, p21read exits 1, the instance is incomplete.  (`hd`: see above.) -/
theorem C15_strict_required_incomplete (d r f g : Bool) (k : Kind) (hd : (f && g) = false) (i : InstIn)
    (pre post : List InstIn) (hpre : ∀ x ∈ pre, CleanInst true x) (hpost : ∀ x ∈ post, CleanInst true x)
    (h : OneMissing true (posAttr k false r f g) d i) :
    readFile true (pre ++ i :: post) = .incomplete ∧ p21readExit (readFile true (pre ++ i :: post)) = 1 ∧
    nodeState (readInst true i) = .incomplete := by
  rw [readFile_eq_repaired, readInst_eq_repaired]
  exact C15_repaired_strict_required_incomplete d r f g k hd i pre post hpre hpost h

/-- required INTEGER / REAL / NUMBER / STRING given as `$`, LENIENT mode, ANY position of ANY instance shape: user message,
    file accepted (exit 0), instance complete (the value substituted: `C15_lenient_value_simple` / `…_complex`) -/
theorem C15_lenient_substitutes (k : Kind) (r f g : Bool) (hk : substitutable k = true) (hd : (f && g) = false)
    (i : InstIn) (pre post : List InstIn) (hpre : ∀ x ∈ pre, CleanInst false x) (hpost : ∀ x ∈ post, CleanInst false x)
    (h : OneMissing false (posAttr k false r f g) true i) :
    readFile false (pre ++ i :: post) = .usermsg ∧ accepted (readFile false (pre ++ i :: post)) = true ∧
    nodeState (readInst false i) = .complete := by
  rw [readFile_eq_repaired, readInst_eq_repaired]
  exact C15_repaired_lenient_substitutes k r f g hk hd i pre post hpre hpost h

/-- required attribute of any other kind given as `$`, LENIENT mode, ANY position of ANY instance shape: incomplete, read
    fails — as in strict mode -/
theorem C15_lenient_other_incomplete (k : Kind) (r f g : Bool) (hk : substitutable k = false) (hd : (f && g) = false)
    (i : InstIn) (pre post : List InstIn) (hpre : ∀ x ∈ pre, CleanInst false x) (hpost : ∀ x ∈ post, CleanInst false x)
    (h : OneMissing false (posAttr k false r f g) true i) :
    readFile false (pre ++ i :: post) = .incomplete ∧ p21readExit (readFile false (pre ++ i :: post)) = 1 ∧
    nodeState (readInst false i) = .incomplete := by
  rw [readFile_eq_repaired, readInst_eq_repaired]
  exact C15_repaired_lenient_other_incomplete k r f g hk hd i pre post hpre hpost h

/-- required attribute with NO value at all (`,` or `)` where a value is expected), either mode, every kind — also the four
    that lenient mode would substitute for a `$` —, ANY position of ANY instance shape: incomplete, read fails -/
theorem C15_absent_required_incomplete (s r f g : Bool) (k : Kind) (hd : (f && g) = false) (i : InstIn)
    (pre post : List InstIn) (hpre : ∀ x ∈ pre, CleanInst s x) (hpost : ∀ x ∈ post, CleanInst s x)
    (h : OneMissing s (posAttr k false r f g) false i) :
    readFile s (pre ++ i :: post) = .incomplete ∧ p21readExit (readFile s (pre ++ i :: post)) = 1 ∧
    nodeState (readInst s i) = .incomplete := by
  rw [readFile_eq_repaired, readInst_eq_repaired]
  exact C15_repaired_absent_required_incomplete s r f g k hd i pre post hpre hpost h

/-! ### … internally mapped instances and first parts of complex ones: whatever flags the class gives the position

The redefinition forward comes before the derived check and the first part's severity is the instance's own, so the rows hold
there without `hd` (e.g. a redeclared position that the class flags derived as well). -/

theorem C15_strict_required_incomplete_sh (d r f g : Bool) (k : Kind) (i : InstIn) (pre post : List InstIn)
    (hpre : ∀ x ∈ pre, CleanInst true x) (hpost : ∀ x ∈ post, CleanInst true x)
    (h : OneMissingSH true (posAttr k false r f g) d i) :
    readFile true (pre ++ i :: post) = .incomplete ∧ p21readExit (readFile true (pre ++ i :: post)) = 1 ∧
    nodeState (readInst true i) = .incomplete := by
  rw [readFile_one i pre post hpre hpost, complex_of_SH_cases h, C15_attr_strict_required]
  cases h <;> exact ⟨rfl, rfl, rfl⟩

theorem C15_lenient_substitutes_sh (k : Kind) (r f g : Bool) (hk : substitutable k = true) (i : InstIn)
    (pre post : List InstIn) (hpre : ∀ x ∈ pre, CleanInst false x) (hpost : ∀ x ∈ post, CleanInst false x)
    (h : OneMissingSH false (posAttr k false r f g) true i) :
    readFile false (pre ++ i :: post) = .usermsg ∧ accepted (readFile false (pre ++ i :: post)) = true ∧
    nodeState (readInst false i) = .complete := by
  rw [readFile_one i pre post hpre hpost, complex_of_SH_cases h, C15_attr_lenient_substitutes k r f g hk]
  cases h <;> exact ⟨rfl, rfl, rfl⟩

theorem C15_lenient_other_incomplete_sh (k : Kind) (r f g : Bool) (hk : substitutable k = false) (i : InstIn)
    (pre post : List InstIn) (hpre : ∀ x ∈ pre, CleanInst false x) (hpost : ∀ x ∈ post, CleanInst false x)
    (h : OneMissingSH false (posAttr k false r f g) true i) :
    readFile false (pre ++ i :: post) = .incomplete ∧ p21readExit (readFile false (pre ++ i :: post)) = 1 ∧
    nodeState (readInst false i) = .incomplete := by
  rw [readFile_one i pre post hpre hpost, complex_of_SH_cases h, C15_attr_lenient_other k r f g hk]
  cases h <;> exact ⟨rfl, rfl, rfl⟩

theorem C15_absent_required_incomplete_sh (s r f g : Bool) (k : Kind) (i : InstIn) (pre post : List InstIn)
    (hpre : ∀ x ∈ pre, CleanInst s x) (hpost : ∀ x ∈ post, CleanInst s x)
    (h : OneMissingSH s (posAttr k false r f g) false i) :
    readFile s (pre ++ i :: post) = .incomplete ∧ p21readExit (readFile s (pre ++ i :: post)) = 1 ∧
    nodeState (readInst s i) = .incomplete := by
  rw [readFile_one i pre post hpre hpost, complex_of_SH_cases h, C15_attr_absent_required]
  cases h <;> exact ⟨rfl, rfl, rfl⟩

/-- the shape generated classes really have, on the audit's input: attribute list [redeclared position (INTEGER, required),
    redefining entry, own INTEGER required], `#1=E($,7)` — the table applies through `OneMissing.slots` (strict: INCOMPLETE,
    exit 1; lenient: user message, accepted) — and `#1=E(5,)` (absent LAST value) is the excluded case: WARNING, rejected -/
theorem C15_slots_example :
    let a : AttrD := posAttr .integer false false true
    let b : AttrD := ⟨.integer, false, false, false, false⟩
    let es := [Slot.attr a, Slot.redefining, Slot.attr b]
    readFile true [.slots es [Tok.missing true, Tok.lit (.tok "7") .null]] = .incomplete ∧
    readFile false [.slots es [Tok.missing true, Tok.lit (.tok "7") .null]] = .usermsg ∧
    readFile true [.slots es [Tok.lit (.tok "5") .null, Tok.missing false]] = .warning ∧
    p21readExit (readFile true [.slots es [Tok.lit (.tok "5") .null, Tok.missing false]]) = 1 := by
  decide

example : OneMissing true (posAttr .integer false false true) true
    (.slots ([] ++ Slot.attr (posAttr .integer false false true) :: [Slot.redefining, Slot.attr ⟨.integer, false, false, false, false⟩])
            ([] ++ Tok.missing true :: [Tok.lit (.tok "7") .null])) :=
  .slots .nil (.red (by decide) (.attr rfl .nil)) (Or.inl rfl)

/-- conforming populations and unset OPTIONAL attributes read cleanly whatever the shape of the complex-instance code -/
theorem C15_any_shape_conforming_clean (S : CxShape) (s : Bool) (is : List InstIn) (h : ∀ x ∈ is, CleanInst s x) :
    readFileS S s is = .null := fileSevS_clean _ _ (map_readInstS_clean _ is h)

/-- what the suite insists on (test_multiple_inheritance_derived, 14 ap214e3 files): in a complex instance a part other than
    the first may carry, at a position its class flags derived, whatever the file has there — a value included, because a
    SIBLING part derives it.  With C15-8 such a position contributes nothing: the instance reads clean. -/
theorem C15_repaired_sibling_derived_tolerated (s o r : Bool) (k : Kind) (t : Tok)
    {p : List AttrD × List Tok} {ps₁ ps₂ : List (List AttrD × List Tok)} {as₁ ts₁ as₂ ts₂}
    (hp : CleanL s p.1 p.2) (hp₁ : CleanParts s ps₁) (hp₂ : CleanParts s ps₂) (h₁ : CleanL s as₁ ts₁) (h₂ : CleanL s as₂ ts₂)
    (pre post : List InstIn) (hpre : ∀ x ∈ pre, CleanInst s x) (hpost : ∀ x ∈ post, CleanInst s x) :
    let i := InstIn.complex (p :: ps₁ ++ (as₁ ++ ⟨k, o, true, r, false⟩ :: as₂, ts₁ ++ t :: ts₂) :: ps₂)
    readFileS repairedShape s (pre ++ i :: post) = .null ∧ nodeState (readInstS repairedShape s i) = .complete := by
  intro i
  have hi : readInstS repairedShape s i = ⟨.null, true⟩ := by
    simp only [i, readInstS, repairedShape]
    rw [complexReadS_nd_derived true (C15_strict_plumbing s).2.1 _ t hp hp₁ hp₂ h₁ h₂ rfl]
  rw [readFileS_one _ i pre post hpre hpost, hi]
  exact ⟨rfl, rfl⟩

/-- … while the rejected repair C15-3 (`rejectedShape`: the whole error of every part) turns exactly that file down:
    `#1=(A(5)B(7));` where `B`'s position is flagged derived and holds a value -/
theorem C15_rejected_shape_sibling_derived_witness :
    let i := InstIn.complex [([⟨.integer, false, false, false, false⟩], [Tok.lit (.tok "5") .null]),
                             ([⟨.integer, false, true, false, false⟩], [Tok.lit (.tok "7") .null])]
    readFileS rejectedShape false [i] = .warning ∧ p21readExit (readFileS rejectedShape false [i]) = 1 ∧
    readFileS repairedShape false [i] = .null := by
  decide

/-- neither repair does alone: with C15-7 only, a `$` for a required attribute in a part other than the first is still
    accepted in strict mode; with C15-8 only, the lenient substitution still ends in SEVERITY_WARNING / exit 1 -/
theorem C15_each_repair_needed_witness :
    let i := InstIn.complex [([⟨.integer, false, false, false, false⟩], [Tok.lit (.tok "5") .null]), ([⟨.enum, false, false, false, false⟩], [Tok.missing true])]
    let j := InstIn.complex [([⟨.integer, false, false, false, false⟩], [Tok.lit (.tok "5") .null]), ([⟨.integer, false, false, false, false⟩], [Tok.missing true])]
    readFileS ⟨.none, true⟩ true [i] = .null ∧ readFileS ⟨.nonDerivedAttrs, false⟩ false [j] = .warning ∧
    readFileS repairedShape true [i] = .incomplete ∧ readFileS repairedShape false [j] = .usermsg := by
  decide

/-- a DERIVEd position holding anything but `*` (a value, `$`, nothing), internally mapped instance, either mode: rejected -/
theorem C15_derived_requires_star (s o r : Bool) (k : Kind) (t : Tok) (ht : t ≠ .star)
    {as₁ ts₁ as₂ ts₂} (pre post : List InstIn)
    (hpre : ∀ x ∈ pre, CleanInst s x) (hpost : ∀ x ∈ post, CleanInst s x)
    (h₁ : CleanL s as₁ ts₁) (h₂ : CleanL s as₂ ts₂) :
    let i := InstIn.simple (as₁ ++ ⟨k, o, true, r, false⟩ :: as₂) (ts₁ ++ t :: ts₂)
    readFile s (pre ++ i :: post) = .warning ∧ p21readExit (readFile s (pre ++ i :: post)) = 1 ∧
    nodeState (readInst s i) = .incomplete := by
  intro i
  have hs : (readInst s i).sev = .warning := by
    simp only [i, readInst, readInstS]
    rw [instRead_sev_at (C15_strict_plumbing s).1 _ t h₁ h₂]
    exact C15_attr_derived_other s o r k t ht
  rw [readFile_one i pre post hpre hpost]
  cases hr : readInst s i with | mk sv c =>
  rw [hr] at hs; simp only at hs; subst hs
  have hc : c = false := by simp [i, readInst, readInstS] at hr; exact hr.2
  subst hc
  exact ⟨rfl, rfl, rfl⟩

/-! ### the read loop around redefining attributes (`SDAI_Application_instance::STEPread`, technical-corrigendum encoding) -/

theorem everyNthAux_one : ∀ (l : List Slot), everyNthAux 1 0 l = l
  | [] => rfl
  | x :: xs => by simp only [everyNthAux]; rw [everyNthAux_one xs]

theorem everyNth_one (l : List Slot) : everyNth 1 l = l := everyNthAux_one l

theorem lookAhead_none (step : Nat) (acc : Sev) : lookAheadR step acc [] = acc := rfl

/-- without redefining attributes the loop is the plain zip of attributes and values all theorems above are about -/
theorem loopReadR_attrs (step : Nat) (strict : Bool) : ∀ (as : List AttrD) (ts : List Tok) (acc : Sev), as.length = ts.length →
    loopReadR step strict acc (as.map Slot.attr) ts = instReadAux strict acc as ts
  | [], [], acc, _ => rfl
  | [], _ :: _, _, h => by simp at h
  | _ :: _, [], _, h => by simp at h
  | a :: as, t :: ts, acc, h => by
    have hl : as.length = ts.length := by simpa using h
    cases ts with
    | nil =>
      cases as with
      | nil => simp [loopReadR, instReadAux, lookAheadR, everyNth, everyNthAux, unreadVals]
      | cons _ _ => simp at hl
    | cons t' ts' =>
      simp only [List.map_cons, loopReadR, instReadAux]
      rw [loopReadR_attrs step strict as (t' :: ts') _ hl]

theorem C15_loop_without_redefining (strict : Bool) (as : List AttrD) (ts : List Tok) (h : as.length = ts.length) :
    loopRead strict (as.map Slot.attr) ts = instRead strict as ts :=
  loopReadR_attrs _ strict as ts .null h

/-- a clean prefix of plain attributes is passed through -/
theorem loopReadR_clean_prefix {strict s : Bool} (hs : attrStrict strict = s) (step : Nat) {as₁ ts₁} (h : CleanL s as₁ ts₁)
    (es : List Slot) (t : Tok) (ts : List Tok) (acc : Sev) :
    (loopReadR step strict acc (as₁.map Slot.attr ++ es) (ts₁ ++ t :: ts)).1 = (loopReadR step strict acc es (t :: ts)).1 := by
  induction h generalizing acc with
  | nil => rfl
  | @cons a t₀ as ts₀ h1 _ ih =>
    simp only [List.map_cons, List.cons_append, loopReadR, hs]
    cases hts : ts₀ ++ t :: ts with
    | nil => simp at hts
    | cons x xs =>
      simp only []
      rw [← hts, ih, h1, mergeAttr_null_right]

/-- C15-6 as a theorem: the last value of the parameter list is left out (`…,)`) while, after the inherited positions, the
    class carries redefining attributes followed by at least one more own attribute: the first redefining attribute consumes
    the `)`, the look-ahead examines EVERY remaining entry, finds the unread attribute and reports it — severity WARNING,
    in both modes, whatever stands between that redefining attribute and the unread one (`reds`) -/
theorem C15_trailing_value_left_out {strict s : Bool} (hs : attrStrict strict = s) {as₁ ts₁} (h₁ : CleanL s as₁ ts₁)
    (reds : List Slot) (a : AttrD) (rest : List Slot) :
    (loopRead strict (as₁.map Slot.attr ++ (Slot.redefining :: reds ++ Slot.attr a :: rest)) (ts₁ ++ [Tok.missing false])).1
      = .warning := by
  unfold loopRead
  rw [loopReadR_clean_prefix hs _ h₁]
  have hstep : lookAheadStep = 1 := rfl
  simp only [List.cons_append, loopReadR, hstep, lookAheadR, everyNth_one]
  have : (reds ++ Slot.attr a :: rest).any Slot.isAttr = true := by
    simp [List.any_append, Slot.isAttr]
  rw [this]; rfl

/-- … at file level: rejected, incomplete -/
theorem C15_trailing_value_rejected (s : Bool) {as₁ ts₁} (h₁ : CleanL s as₁ ts₁)
    (reds : List Slot) (a : AttrD) (rest : List Slot) (pre post : List InstIn)
    (hpre : ∀ x ∈ pre, CleanInst s x) (hpost : ∀ x ∈ post, CleanInst s x) :
    let i := InstIn.slots (as₁.map Slot.attr ++ (Slot.redefining :: reds ++ Slot.attr a :: rest)) (ts₁ ++ [Tok.missing false])
    readFile s (pre ++ i :: post) = .warning ∧ p21readExit (readFile s (pre ++ i :: post)) = 1 ∧
    nodeState (readInst s i) = .incomplete := by
  intro i
  have hsev : readInst s i = ⟨.warning, false⟩ := by
    simp only [i, readInst, readInstS]
    rw [C15_trailing_value_left_out (C15_strict_plumbing s).1 h₁ reds a rest]
  rw [readFile_one i pre post hpre hpost, hsev]
  exact ⟨rfl, rfl, rfl⟩

/-- the shape before repair C15-6 (`i++` twice per round: `lookAheadStep = 2`): with an even number of entries before it the
    unread attribute is stepped over and the instance reads clean — e.g. 4 redefining attributes, then the own attribute -/
theorem C15_trailing_old_shape_witness (a : AttrD) :
    lookAheadR 2 .null [Slot.redefining, Slot.redefining, Slot.redefining, Slot.attr a] = .null ∧
    lookAheadR 1 .null [Slot.redefining, Slot.redefining, Slot.redefining, Slot.attr a] = .warning := by
  constructor <;> rfl

/-! ### the same loop with the pre-technical-corrigendum encoding (`useTechCor = false`): every redefining attribute has a `*` -/

/-- a conforming parameter list in that encoding: every attribute reads without complaint, every redefining entry has `*` -/
inductive CleanPre (s : Bool) : List Slot → List Tok → Prop
  | nil : CleanPre s [] []
  | attr {a t es ts} : (attrRead s a t).1 = .null → CleanPre s es ts → CleanPre s (.attr a :: es) (t :: ts)
  | red {es ts} : CleanPre s es ts → CleanPre s (.redefining :: es) (.star :: ts)

theorem cleanPre_no_tokens {s es} (h : CleanPre s es []) : es = [] := by cases h; rfl

theorem loopReadPre_clean {strict s : Bool} (hs : attrStrict strict = s) (step : Nat) {es ts} (h : CleanPre s es ts) (acc : Sev) :
    (loopReadPre step strict acc es ts).1 = acc := by
  induction h generalizing acc with
  | nil => rfl
  | @attr a t es ts h1 hc ih =>
    cases ts with
    | nil =>
      have := cleanPre_no_tokens hc; subst this
      simp only [loopReadPre, hs]; rw [h1, mergeAttr_null_right]; rfl
    | cons t' ts' =>
      simp only [loopReadPre, hs]; rw [ih, h1, mergeAttr_null_right]
  | @red es ts hc ih =>
    cases ts with
    | nil => have := cleanPre_no_tokens hc; subst this; rfl
    | cons t' ts' => simp only [loopReadPre]; exact ih acc

theorem loopReadPre_clean_prefix {strict s : Bool} (hs : attrStrict strict = s) (step : Nat) {es₁ ts₁} (h : CleanPre s es₁ ts₁)
    (es : List Slot) (t : Tok) (ts : List Tok) (acc : Sev) :
    (loopReadPre step strict acc (es₁ ++ es) (ts₁ ++ t :: ts)).1 = (loopReadPre step strict acc es (t :: ts)).1 := by
  induction h generalizing acc with
  | nil => rfl
  | @attr a t₀ es₀ ts₀ h1 _ ih =>
    simp only [List.cons_append, loopReadPre, hs]
    cases hts : ts₀ ++ t :: ts with
    | nil => simp at hts
    | cons x xs => simp only []; rw [← hts, ih, h1, mergeAttr_null_right]
  | @red es₀ ts₀ _ ih =>
    simp only [List.cons_append, loopReadPre]
    cases hts : ts₀ ++ t :: ts with
    | nil => simp at hts
    | cons x xs => simp only []; rw [← hts, ih]

/-- a conforming instance in the pre-technical-corrigendum encoding reads clean, in both modes -/
theorem C15_pretc_conforming {strict s : Bool} (hs : attrStrict strict = s) {es ts} (h : CleanPre s es ts) :
    (loopReadTC false strict es ts).1 = .null := by
  simp only [loopReadTC, Bool.false_eq_true, if_false]; exact loopReadPre_clean hs _ h _

/-- … and the decision table holds at every attribute position of such an instance (redeclared positions included: `a` is any
    attribute descriptor), whatever redefining entries stand before and after it: the instance's severity is what the
    attribute's own read decided (`C15_attr_*` say what that is for `$` / no value) -/
theorem C15_pretc_position {strict s : Bool} (hs : attrStrict strict = s) {es₁ ts₁ es₂ ts₂} (a : AttrD) (t : Tok)
    (h₁ : CleanPre s es₁ ts₁) (h₂ : CleanPre s es₂ ts₂) :
    (loopReadTC false strict (es₁ ++ Slot.attr a :: es₂) (ts₁ ++ t :: ts₂)).1 = (attrRead s a t).1 := by
  simp only [loopReadTC, Bool.false_eq_true, if_false]
  rw [loopReadPre_clean_prefix hs _ h₁]
  cases ts₂ with
  | nil =>
    have := cleanPre_no_tokens h₂; subst this
    simp only [loopReadPre, hs]; rw [mergeAttr_null_left]; rfl
  | cons t' ts' =>
    simp only [loopReadPre, hs]; rw [loopReadPre_clean hs _ h₂, mergeAttr_null_left]

theorem greater_le_left (a b : Sev) : (Sev.greater a b).le a = true := by cases a <;> cases b <;> rfl
theorem sev_le_trans {a b c : Sev} (h₁ : a.le b = true) (h₂ : b.le c = true) : a.le c = true := by
  cases a <;> cases b <;> cases c <;> first | rfl | (exact absurd h₁ (by decide)) | (exact absurd h₂ (by decide))
theorem sev_le_refl (a : Sev) : a.le a = true := by cases a <;> rfl
theorem mergeAttr_le_left (a b : Sev) : (mergeAttr a b).le a = true := by cases a <;> cases b <;> rfl
theorem lookAheadR_le (step : Nat) (acc : Sev) (es : List Slot) : (lookAheadR step acc es).le acc = true := by
  unfold lookAheadR; split
  · exact greater_le_left _ _
  · exact sev_le_refl _

/-- the instance's severity only ever gets worse along the loop -/
theorem loopReadPre_le (step : Nat) (strict : Bool) : ∀ (es : List Slot) (ts : List Tok) (acc : Sev),
    (loopReadPre step strict acc es ts).1.le acc = true
  | [], [], acc => sev_le_refl acc
  | [], _ :: _, acc => greater_le_left _ _
  | .redefining :: es, [], acc => sev_le_refl acc
  | .attr _ :: es, [], acc => sev_le_refl acc
  | .attr a :: es, t :: ts, acc => by
    cases ts with
    | nil => simp only [loopReadPre]; exact sev_le_trans (lookAheadR_le _ _ _) (mergeAttr_le_left _ _)
    | cons t' ts' =>
      simp only [loopReadPre]
      exact sev_le_trans (loopReadPre_le step strict es (t' :: ts') _) (mergeAttr_le_left _ _)
  | .redefining :: es, t :: ts, acc => by
    cases t with
    | star =>
      cases ts with
      | nil => simp only [loopReadPre]; exact lookAheadR_le _ _ _
      | cons t' ts' => simp only [loopReadPre]; exact loopReadPre_le step strict es _ _
    | missing d =>
      cases d with
      | false =>
        cases ts with
        | nil => simp only [loopReadPre]; exact sev_le_trans (lookAheadR_le _ _ _) (greater_le_left _ _)
        | cons t' ts' =>
          simp only [loopReadPre]; exact sev_le_trans (loopReadPre_le step strict es _ _) (greater_le_left _ _)
      | true =>
        simp only [loopReadPre]; split
        · exact greater_le_left _ _
        · exact sev_le_trans (loopReadPre_le step strict es _ _) (greater_le_left _ _)
    | lit v sv =>
      simp only [loopReadPre]; split
      · exact sev_le_trans (greater_le_left _ _) (greater_le_left _ _)
      · exact sev_le_trans (loopReadPre_le step strict es _ _) (sev_le_trans (greater_le_left _ _) (greater_le_left _ _))

theorem greater_le_right (a b : Sev) : (Sev.greater a b).le b = true := by cases a <;> cases b <;> rfl

/-- a redefining entry that holds anything but `*` — `$`, nothing, a value —, after a conforming beginning and whatever
    follows: the instance is at SEVERITY_INCOMPLETE or worse, and the file is turned down (exit 1), in both modes -/
theorem C15_pretc_redefining_needs_star {strict s : Bool} (hs : attrStrict strict = s) {es₁ ts₁} (h₁ : CleanPre s es₁ ts₁)
    (t : Tok) (ht : t ≠ .star) (es : List Slot) (ts : List Tok) :
    let sev := (loopReadTC false strict (es₁ ++ Slot.redefining :: es) (ts₁ ++ t :: ts)).1
    sev.le .incomplete = true ∧ p21readExit (fileSevFor ⟨sev, false⟩) = 1 := by
  intro sev
  have hle : sev.le .incomplete = true := by
    simp only [sev, loopReadTC, Bool.false_eq_true, if_false]
    rw [loopReadPre_clean_prefix hs _ h₁]
    have hn : sevPreTcNoStar = .incomplete := rfl
    cases t with
    | star => exact absurd rfl ht
    | missing d =>
      cases d with
      | false =>
        cases ts with
        | nil => simp only [loopReadPre, hn]; exact sev_le_trans (lookAheadR_le _ _ _) (greater_le_right _ _)
        | cons t' ts' =>
          simp only [loopReadPre, hn]; exact sev_le_trans (loopReadPre_le _ _ es _ _) (greater_le_right _ _)
      | true =>
        simp only [loopReadPre, hn]; split
        · exact greater_le_right .null .incomplete
        · exact sev_le_trans (loopReadPre_le _ _ es _ _) (greater_le_right _ _)
    | lit v sv =>
      simp only [loopReadPre, hn]; split
      · exact sev_le_trans (greater_le_left (Sev.greater .null .incomplete) sevPreTcGarbage) (greater_le_right .null .incomplete)
      · exact sev_le_trans (loopReadPre_le _ _ es _ _) (sev_le_trans (greater_le_left _ _) (greater_le_right _ _))
  refine ⟨hle, ?_⟩
  generalize sev = x at hle
  cases x <;> first | rfl | (exact absurd hle (by decide))

/-- what "nothing more is consumed" means: `#1=E(5,$,6)` with the attribute list [a : INTEGER, redefining, b : INTEGER] —
    the `$` at the redefining entry leaves its delimiter unread, `b` reads an absent value and `6` is left over: `b` ends
    unset and the instance at SEVERITY_INPUT_ERROR ("No more attributes were expected"); with nothing at all at the
    redefining entry (`(5,,6)`) the loop stays aligned: `b` = 6, SEVERITY_INCOMPLETE -/
theorem C15_pretc_dollar_shifts_witness :
    let a : AttrD := ⟨.integer, false, false, false, false⟩
    let es := [Slot.attr a, Slot.redefining, Slot.attr a]
    loopReadTC false true es [Tok.lit (.tok "5") .null, Tok.missing true, Tok.lit (.tok "6") .null]
      = (.inputError, [.tok "5", .null]) ∧
    loopReadTC false true es [Tok.lit (.tok "5") .null, Tok.missing false, Tok.lit (.tok "6") .null]
      = (.incomplete, [.tok "5", .tok "6"]) ∧
    loopReadTC false true es [Tok.lit (.tok "5") .null, Tok.star, Tok.lit (.tok "6") .null] = (.null, [.tok "5", .tok "6"]) := by
  decide

/-! ### complex instances whose parts carry redefining entries (`complexReadLS`), both encodings -/

theorem partAttrSevL_cleanS {strict s : Bool} (hs : attrStrict strict = s) {es ts} (h : CleanSlots s es ts) (acc : Sev) :
    partAttrSevL true strict acc es ts = acc := by
  induction h generalizing acc with
  | nil => rfl
  | @attr a t es ts h1 _ ih => simp only [partAttrSevL, hs]; rw [ih, h1, mergeAttr_null_right]; simp
  | @red es ts _ _ ih => simp only [partAttrSevL, if_true]; exact ih acc

theorem partAttrSevL_cleanP {strict s : Bool} (hs : attrStrict strict = s) {es ts} (h : CleanPre s es ts) (acc : Sev) :
    partAttrSevL false strict acc es ts = acc := by
  induction h generalizing acc with
  | nil => rfl
  | @attr a t es ts h1 _ ih => simp only [partAttrSevL, hs]; rw [ih, h1, mergeAttr_null_right]; simp
  | @red es ts _ ih => simp only [partAttrSevL, Bool.false_eq_true, if_false, List.tail_cons]; exact ih acc

theorem partAttrSevL_atS {strict s : Bool} (hs : attrStrict strict = s) {es₁ ts₁ es₂ ts₂} (a : AttrD) (t : Tok)
    (h₁ : CleanSlots s es₁ ts₁) (h₂ : CleanSlots s es₂ ts₂) (acc : Sev) :
    partAttrSevL true strict acc (es₁ ++ Slot.attr a :: es₂) (ts₁ ++ t :: ts₂)
      = if a.derived then acc else mergeAttr acc (attrRead s a t).1 := by
  induction h₁ generalizing acc with
  | nil => simp only [List.nil_append, partAttrSevL, hs]; exact partAttrSevL_cleanS hs h₂ _
  | @attr a' t' es ts h1 _ ih => simp only [List.cons_append, partAttrSevL, hs]; rw [ih, h1, mergeAttr_null_right]; simp
  | @red es ts _ _ ih => simp only [List.cons_append, partAttrSevL, if_true]; exact ih acc

theorem partAttrSevL_atP {strict s : Bool} (hs : attrStrict strict = s) {es₁ ts₁ es₂ ts₂} (a : AttrD) (t : Tok)
    (h₁ : CleanPre s es₁ ts₁) (h₂ : CleanPre s es₂ ts₂) (acc : Sev) :
    partAttrSevL false strict acc (es₁ ++ Slot.attr a :: es₂) (ts₁ ++ t :: ts₂)
      = if a.derived then acc else mergeAttr acc (attrRead s a t).1 := by
  induction h₁ generalizing acc with
  | nil => simp only [List.nil_append, partAttrSevL, hs]; exact partAttrSevL_cleanP hs h₂ _
  | @attr a' t' es ts h1 _ ih => simp only [List.cons_append, partAttrSevL, hs]; rw [ih, h1, mergeAttr_null_right]; simp
  | @red es ts _ ih =>
    simp only [List.cons_append, partAttrSevL, Bool.false_eq_true, if_false, List.tail_cons]; exact ih acc

/-- conforming parts in encoding `tc` -/
def CleanPartsL (tc s : Bool) (ps : List (List Slot × List Tok)) : Prop :=
  ∀ p ∈ ps, if tc then CleanSlots s p.1 p.2 else CleanPre s p.1 p.2

theorem loopReadTC_clean {tc strict s : Bool} (hs : attrStrict strict = s) {es ts}
    (h : if tc then CleanSlots s es ts else CleanPre s es ts) : (loopReadTC tc strict es ts).1 = .null := by
  cases tc with
  | true => simp only [loopReadTC, if_true]; exact loopReadR_cleanS hs _ (by simpa using h) _
  | false => simp only [loopReadTC, Bool.false_eq_true, if_false]; exact loopReadPre_clean hs _ (by simpa using h) _

theorem partAttrSevL_clean {tc strict s : Bool} (hs : attrStrict strict = s) {es ts}
    (h : if tc then CleanSlots s es ts else CleanPre s es ts) (acc : Sev) : partAttrSevL tc strict acc es ts = acc := by
  cases tc with
  | true => exact partAttrSevL_cleanS hs (by simpa using h) acc
  | false => exact partAttrSevL_cleanP hs (by simpa using h) acc

theorem foldl_partAttrSevL_clean {tc strict s : Bool} (hs : attrStrict strict = s) (ps : List (List Slot × List Tok))
    (h : CleanPartsL tc s ps) (acc : Sev) : ps.foldl (fun acc p => partAttrSevL tc strict acc p.1 p.2) acc = acc := by
  induction ps generalizing acc with
  | nil => rfl
  | cons p ps ih =>
    simp only [List.foldl_cons]
    rw [partAttrSevL_clean hs (h p (by simp))]
    exact ih (fun x hx => h x (by simp [hx])) acc

/-- a conforming complex instance whose parts carry redefining entries reads clean, either encoding, either mode (code shape) -/
theorem C15_complex_redefining_conforming (tc fileStrict : Bool) (ps : List (List Slot × List Tok))
    (h : CleanPartsL tc fileStrict ps) :
    (complexReadLS repairedShape tc (fileStrictFor true fileStrict) ps).1 = .null := by
  have hs := (C15_strict_plumbing fileStrict).2.1
  cases ps with
  | nil => rfl
  | cons p ps =>
    simp only [complexReadLS, repairedShape]
    rw [loopReadTC_clean hs (h p (by simp)), foldl_partAttrSevL_clean hs ps (fun x hx => h x (by simp [hx]))]
    rfl

/-- the decision table at ANY attribute position of ANY part of such an instance, in either encoding (code shape: C15-7 + C15-8):
    the instance's severity is what the attribute's own read decided (`C15_attr_*`).  Excluded, as for internally mapped instances:
    an absent value that is the last of its part in the technical-corrigendum encoding (`hlast`); a position flagged derived in a
    part other than the first (`ha`). -/
theorem C15_complex_redefining_position (tc fileStrict : Bool) (ps₁ ps₂ : List (List Slot × List Tok)) {es₁ ts₁ es₂ ts₂}
    (a : AttrD) (t : Tok) (hp₁ : CleanPartsL tc fileStrict ps₁) (hp₂ : CleanPartsL tc fileStrict ps₂)
    (h₁ : if tc then CleanSlots fileStrict es₁ ts₁ else CleanPre fileStrict es₁ ts₁)
    (h₂ : if tc then CleanSlots fileStrict es₂ ts₂ else CleanPre fileStrict es₂ ts₂)
    (hlast : tc = true → t :: ts₂ ≠ [Tok.missing false]) (ha : a.derived = false) :
    (complexReadLS repairedShape tc (fileStrictFor true fileStrict)
      (ps₁ ++ (es₁ ++ Slot.attr a :: es₂, ts₁ ++ t :: ts₂) :: ps₂)).1 = (attrRead fileStrict a t).1 := by
  have hs := (C15_strict_plumbing fileStrict).2.1
  have hpos : (loopReadTC tc (partStrict (fileStrictFor true fileStrict)) (es₁ ++ Slot.attr a :: es₂) (ts₁ ++ t :: ts₂)).1
      = (attrRead fileStrict a t).1 := by
    cases tc with
    | true => exact loopRead_position hs a t (by simpa using h₁) (by simpa using h₂) (hlast rfl)
    | false => exact C15_pretc_position hs a t (by simpa using h₁) (by simpa using h₂)
  have hat : ∀ acc, partAttrSevL tc (partStrict (fileStrictFor true fileStrict)) acc (es₁ ++ Slot.attr a :: es₂) (ts₁ ++ t :: ts₂)
      = mergeAttr acc (attrRead fileStrict a t).1 := by
    intro acc
    cases tc with
    | true => rw [partAttrSevL_atS hs a t (by simpa using h₁) (by simpa using h₂)]; simp [ha]
    | false => rw [partAttrSevL_atP hs a t (by simpa using h₁) (by simpa using h₂)]; simp [ha]
  cases ps₁ with
  | nil =>
    simp only [List.nil_append, complexReadLS, repairedShape]
    rw [hpos, foldl_partAttrSevL_clean hs ps₂ hp₂, greater_null_right]
  | cons p ps =>
    simp only [List.cons_append, complexReadLS, repairedShape, List.foldl_append, List.foldl_cons]
    rw [loopReadTC_clean hs (hp₁ p (by simp)), foldl_partAttrSevL_clean hs ps (fun x hx => hp₁ x (by simp [hx])), hat,
      foldl_partAttrSevL_clean hs ps₂ hp₂, greater_null_left, mergeAttr_null_left]

/-- … with the table's rows spelled out at file level for such an instance standing alone among conforming ones (`fileSevForS`:
    what one instance with that severity does to the file, `C15-7` shape): required attribute unset, STRICT mode ⇒ INCOMPLETE, exit 1;
    required INTEGER/REAL/NUMBER/STRING `$`, LENIENT mode ⇒ user message, accepted — at any attribute position of any part, either
    encoding -/
theorem C15_complex_redefining_rows (tc : Bool) (ps₁ ps₂ : List (List Slot × List Tok)) {es₁ ts₁ es₂ ts₂}
    (k : Kind) (r d : Bool) :
    (∀ (_ : CleanPartsL tc true ps₁) (_ : CleanPartsL tc true ps₂)
       (_ : if tc then CleanSlots true es₁ ts₁ else CleanPre true es₁ ts₁)
       (_ : if tc then CleanSlots true es₂ ts₂ else CleanPre true es₂ ts₂)
       (_ : tc = true → Tok.missing d :: ts₂ ≠ [Tok.missing false]),
      let sev := (complexReadLS repairedShape tc (fileStrictFor true true)
        (ps₁ ++ (es₁ ++ Slot.attr (posAttr k false r false) :: es₂, ts₁ ++ Tok.missing d :: ts₂) :: ps₂)).1
      sev = .incomplete ∧ p21readExit (fileSevForS repairedShape ⟨sev, true⟩) = 1) ∧
    (substitutable k = true →
     ∀ (_ : CleanPartsL tc false ps₁) (_ : CleanPartsL tc false ps₂)
       (_ : if tc then CleanSlots false es₁ ts₁ else CleanPre false es₁ ts₁)
       (_ : if tc then CleanSlots false es₂ ts₂ else CleanPre false es₂ ts₂),
      let sev := (complexReadLS repairedShape tc (fileStrictFor true false)
        (ps₁ ++ (es₁ ++ Slot.attr (posAttr k false r false) :: es₂, ts₁ ++ Tok.missing true :: ts₂) :: ps₂)).1
      sev = .usermsg ∧ accepted (fileSevForS repairedShape ⟨sev, true⟩) = true) := by
  constructor
  · intro hp₁ hp₂ h₁ h₂ hl sev
    have hs : sev = .incomplete := by
      simp only [sev]
      rw [C15_complex_redefining_position tc true ps₁ ps₂ _ _ hp₁ hp₂ h₁ h₂ hl rfl, C15_attr_strict_required]
    rw [hs]; exact ⟨rfl, rfl⟩
  · intro hk hp₁ hp₂ h₁ h₂ sev
    have hs : sev = .usermsg := by
      simp only [sev]
      rw [C15_complex_redefining_position tc false ps₁ ps₂ _ _ hp₁ hp₂ h₁ h₂ (by intro _ h; simp at h) rfl,
        C15_attr_lenient_substitutes k r false false hk]
    rw [hs]; exact ⟨rfl, rfl⟩

theorem partAttrSevL_attrs (strict : Bool) : ∀ (as : List AttrD) (ts : List Tok) (acc : Sev),
    partAttrSevL true strict acc (as.map Slot.attr) ts = partAttrSev strict acc as ts
  | [], _, _ => by simp [partAttrSevL, partAttrSev]
  | _ :: _, [], _ => by simp [partAttrSevL, partAttrSev]
  | a :: as, t :: ts, acc => by
    simp only [List.map_cons, partAttrSevL, partAttrSev]
    exact partAttrSevL_attrs strict as ts _

/-- on parts WITHOUT redefining entries, in the technical-corrigendum encoding, the model with the loop is the model all the
    complex-instance theorems above are about (`complexReadS`): severity and values, whatever the shape -/
theorem C15_complex_loop_agrees (S : CxShape) (strict : Bool) (ps : List (List AttrD × List Tok))
    (hlen : ∀ p ∈ ps, p.1.length = p.2.length) :
    complexReadLS S true strict (ps.map (fun p => (p.1.map Slot.attr, p.2))) = complexReadS S strict ps := by
  have hpart : ∀ p ∈ ps, loopReadTC true (partStrict strict) (p.1.map Slot.attr) p.2 = instRead (partStrict strict) p.1 p.2 := by
    intro p hp
    simp only [loopReadTC, if_true]
    exact C15_loop_without_redefining _ p.1 p.2 (hlen p hp)
  have hvals : (ps.map (fun p => (p.1.map Slot.attr, p.2))).map (fun p => loopReadTC true (partStrict strict) p.1 p.2)
      = ps.map (fun p => instRead (partStrict strict) p.1 p.2) := by
    rw [List.map_map]
    apply List.map_congr_left
    intro p hp; exact hpart p hp
  unfold complexReadLS complexReadS
  rw [hvals]
  congr 1
  cases ps with
  | nil => rfl
  | cons h rest =>
    have hh := hpart h (by simp)
    have hrest : ∀ p ∈ rest, loopReadTC true (partStrict strict) (p.1.map Slot.attr) p.2 = instRead (partStrict strict) p.1 p.2 :=
      fun p hp => hpart p (by simp [hp])
    simp only [List.map_cons]
    rw [hh]
    obtain ⟨m, rp⟩ := S
    cases m with
    | none => rfl
    | all =>
      simp only [List.foldl_map]
      congr 1
      -- the two folds agree step by step
      have : ∀ (l : List (List AttrD × List Tok)) (acc : Sev), (∀ p ∈ l, p ∈ rest) →
          l.foldl (fun acc p => Sev.greater acc (loopReadTC true (partStrict strict) (p.1.map Slot.attr) p.2).1) acc =
          l.foldl (fun acc p => Sev.greater acc (instRead (partStrict strict) p.1 p.2).1) acc := by
        intro l
        induction l with
        | nil => intro _ _; rfl
        | cons q qs ih =>
          intro acc hm
          simp only [List.foldl_cons]
          rw [hrest q (hm q (by simp))]
          exact ih _ (fun p hp => hm p (by simp [hp]))
      exact this rest _ (fun _ h => h)
    | nonDerivedAttrs =>
      simp only [List.foldl_map]
      have : ∀ (l : List (List AttrD × List Tok)) (acc : Sev),
          l.foldl (fun acc p => partAttrSevL true (partStrict strict) acc (p.1.map Slot.attr) p.2) acc =
          l.foldl (fun acc p => partAttrSev (partStrict strict) acc p.1 p.2) acc := by
        intro l
        induction l with
        | nil => intro _; rfl
        | cons q qs ih => intro acc; simp only [List.foldl_cons]; rw [partAttrSevL_attrs]; exact ih _
      rw [this rest .null]

/-- the experiment's instance `(CA(5)CB(6)CR(7))`, CA = [redefining cr.n, x : INTEGER]: conforming in both encodings (`CA(5)` /
    `CA(*,5)`); `CA($)` is INCOMPLETE in strict mode in both encodings (in the older one the `$` stands at the redefining entry), and a
    user message with 0 substituted in lenient mode (technical-corrigendum encoding) -/
theorem C15_complex_redefining_example :
    let x : AttrD := ⟨.integer, false, false, false, false⟩
    let ca := [Slot.redefining, Slot.attr x]
    let cb := ([Slot.attr x], [Tok.lit (.tok "6") .null])
    let five := Tok.lit (.tok "5") .null
    (complexReadLS repairedShape true true [(ca, [five]), cb]).1 = .null ∧
    (complexReadLS repairedShape false true [(ca, [Tok.star, five]), cb]).1 = .null ∧
    (complexReadLS repairedShape false true [(ca, [Tok.missing true]), cb]).1 = .incomplete ∧
    (complexReadLS repairedShape true true [(ca, [Tok.missing true]), cb]).1 = .incomplete ∧
    (complexReadLS repairedShape true false [(ca, [Tok.missing true]), cb]).1 = .usermsg := by
  decide

/-! ### the mode that reaches the reader is the mode the caller asked for -/

open StepModel.ModeGlue in
theorem applyLetter_strict_mono (o : Opts) (c : Char) (h : o.strict = true) : (applyLetter o c).strict = true := by
  unfold applyLetter
  have hs : p21readStrictWithDashS = true := rfl
  repeat' split
  all_goals simp_all

open StepModel.ModeGlue in
/-- p21read called with 1 to 3 arguments (`_hargc`: outside `Generated.p21readArgcMin/Max` the program prints its usage before it
    looks at any flag) and any spelling of the flags whose letters are i, t, s (`hl`: no `-v`, no unknown letter): strict mode
    is requested iff some flag argument before `--` / before the first argument that is not a flag contains the letter `s` —
    every letter of a cluster counts -/
theorem C15_p21read_strict_iff_s (args : List String)
    (_hargc : p21readArgcMin ≤ args.length + 1 ∧ args.length + 1 ≤ p21readArgcMax)
    (hl : ∀ a ∈ flagArgs args, ∀ c ∈ a.toList.tail, c = 'i' ∨ c = 't' ∨ c = 's') :
    (parseArgs initial args).1.strict = true ↔ ∃ a ∈ flagArgs args, 's' ∈ a.toList.tail := by
  -- generalised over the options accumulated so far (never exited, never usage)
  have key : ∀ (args : List String) (o : Opts), o.version = false → o.usage = false →
      (∀ a ∈ flagArgs args, ∀ c ∈ a.toList.tail, c = 'i' ∨ c = 't' ∨ c = 's') →
      ((parseArgs o args).1.strict = true ↔ (o.strict = true ∨ ∃ a ∈ flagArgs args, 's' ∈ a.toList.tail)) := by
    intro args
    induction args with
    | nil => intro o _ _ _; simp [parseArgs, flagArgs]
    | cons a rest ih =>
      intro o hv hu hl
      by_cases hdd : a = "--"
      · simp [parseArgs, flagArgs, hdd]
      · by_cases hf : isFlagArg a = true
        · simp only [parseArgs, flagArgs, hdd, hf, if_false, if_true] at hl ⊢
          -- fold over the letters of this argument
          have hfold : ∀ (cs : List Char) (o : Opts), o.version = false → o.usage = false →
              (∀ c ∈ cs, c = 'i' ∨ c = 't' ∨ c = 's') →
              (cs.foldl applyLetter o).version = false ∧ (cs.foldl applyLetter o).usage = false ∧
              ((cs.foldl applyLetter o).strict = true ↔ (o.strict = true ∨ 's' ∈ cs)) := by
            intro cs
            induction cs with
            | nil => intro o hv hu _; simp [hv, hu]
            | cons c cs ihc =>
              intro o hv hu hc
              have hc1 := hc c (by simp)
              have hstep : (applyLetter o c).version = false ∧ (applyLetter o c).usage = false ∧
                  ((applyLetter o c).strict = true ↔ (o.strict = true ∨ c = 's')) := by
                have hi : 'i' ∈ p21readOptLetters := by decide
                have ht : 't' ∈ p21readOptLetters := by decide
                have hss : 's' ∈ p21readOptLetters := by decide
                have hs : p21readStrictWithDashS = true := rfl
                rcases hc1 with h | h | h <;> subst h <;> simp [applyLetter, hv, hu, hs, hi, ht, hss]
              obtain ⟨h1, h2, h3⟩ := hstep
              have := ihc (applyLetter o c) h1 h2 (fun x hx => hc x (by simp [hx]))
              simp only [List.foldl_cons]
              refine ⟨this.1, this.2.1, ?_⟩
              rw [this.2.2, h3]
              simp only [List.mem_cons]
              constructor
              · rintro ((h | h) | h)
                · exact Or.inl h
                · exact Or.inr (Or.inl h.symm)
                · exact Or.inr (Or.inr h)
              · rintro (h | h | h)
                · exact Or.inl (Or.inl h)
                · exact Or.inl (Or.inr h.symm)
                · exact Or.inr h
          have hthis := hfold a.toList.tail o hv hu (hl a (by simp))
          rw [ih _ hthis.1 hthis.2.1 (fun x hx => hl x (by simp [hx])), hthis.2.2]
          simp only [List.mem_cons, exists_eq_or_imp]
          constructor
          · rintro ((h | h) | h)
            · exact Or.inl h
            · exact Or.inr (Or.inl h)
            · exact Or.inr (Or.inr h)
          · rintro (h | h | h)
            · exact Or.inl (Or.inl h)
            · exact Or.inl (Or.inr h)
            · exact Or.inr h
        · have hf' : isFlagArg a = false := by simpa using hf
          simp [parseArgs, flagArgs, hdd, hf']
  have := key args initial rfl rfl hl
  rw [this]
  have : initial.strict = false := rfl
  simp [this]

open StepModel.ModeGlue in
/-- `-ts`, `-st`, `-is`, `-t -s`, `-s -- f` request strict mode; `-t`, `-i`, `-it`, `-- -s` do not (concrete spellings) -/
theorem C15_p21read_spellings :
    (parseArgs initial ["-ts", "f"]).1.strict = true ∧ (parseArgs initial ["-st", "f"]).1.strict = true ∧
    (parseArgs initial ["-is", "f"]).1.strict = true ∧ (parseArgs initial ["-t", "-s", "f"]).1.strict = true ∧
    (parseArgs initial ["-s", "--", "f"]).1.strict = true ∧ (parseArgs initial ["-it", "f"]).1.strict = false ∧
    (parseArgs initial ["--", "-s"]).1.strict = false ∧ (parseArgs initial ["f", "-s"]).1.strict = false := by
  decide

open StepModel.ModeGlue in
/-- Nothing but the constructor writes `STEPfile::_strict` (regenerated: `strictSites` has no assignment in any read function),
    so for EVERY history of ReadExchangeFile / AppendExchangeFile / ReadWorkingFile / AppendWorkingFile calls on one object —
    successful or failing at the open — the mode the reader is handed in every later call of any file type is the constructor's -/
theorem C15_mode_in_force (ctor : Bool) (history : List (Fn × Bool)) (f : Fn) (opened : Bool) :
    (callMode strictSites (afterHistory strictSites ctor history) f opened).1 = ctor ∧
    afterHistory strictSites ctor history = ctor := by
  have hcall : ∀ (cur : Bool) (f : Fn) (ok : Bool), callMode strictSites cur f ok = (cur, cur) := by
    intro cur f ok; cases f <;> cases ok <;> cases cur <;> rfl
  have hhist : ∀ (h : List (Fn × Bool)) (cur : Bool), afterHistory strictSites cur h = cur := by
    intro h
    induction h with
    | nil => intro cur; rfl
    | cons x xs ih => intro cur; obtain ⟨g, ok⟩ := x; simp only [afterHistory, hcall]; exact ih cur
  rw [hhist, hcall]; exact ⟨rfl, rfl⟩

open StepModel.ModeGlue in
/-- what assignments inside the read functions do to that: with `_strict = false` before the open and a restore after
    AppendFile in the two working-session readers, (i) a strict STEPfile reads a working-session file leniently and (ii) after
    ONE failed open the object stays lenient for every later exchange read -/
theorem C15_mode_sites_witness :
    let sites := [("readExchange", none, false), ("appendExchange", none, false),
                  ("readWorking", some false, true), ("appendWorking", some false, true)]
    (callMode sites true .readWorking true).1 = false ∧
    (callMode sites (afterHistory sites true [(.readWorking, false)]) .readExchange true).1 = false ∧
    (callMode sites (afterHistory sites true [(.readWorking, true)]) .readExchange true).1 = true := by
  decide

/-! ### hypotheses are satisfiable -/

example : OneMissingSimple false ⟨.real, false, false, false, false⟩ true
    (.simple ([⟨.integer, false, false, false, false⟩] ++ ⟨.real, false, false, false, false⟩ :: [⟨.entity, true, false, false, false⟩])
             ([Tok.lit (.tok "5") .null] ++ Tok.missing true :: [Tok.missing false])) :=
  .simple (.cons rfl .nil) (.cons rfl .nil)

example : OneMissingSH true ⟨.enum, false, false, false, false⟩ false
    (.complex (([] ++ ⟨.enum, false, false, false, false⟩ :: [], [] ++ Tok.missing false :: []) ::
               [([⟨.integer, false, false, false, false⟩], [Tok.lit (.tok "5") .null])])) :=
  .head (by intro p hp; simp at hp; subst hp; exact .cons rfl .nil) .nil .nil

example : OneMissing false ⟨.logical, true, false, false, false⟩ true
    (.complex ([([⟨.integer, false, false, false, false⟩], [Tok.lit (.tok "5") .null])] ++
               ([] ++ ⟨.logical, true, false, false, false⟩ :: [], [] ++ Tok.missing true :: []) :: [])) :=
  .complex (by intro p hp; simp at hp; subst hp; exact .cons rfl .nil) (by intro p hp; simp at hp) .nil .nil

end StepModel.AttrNull

import StepModel.AttrNull
/-!
C15 — strict and lenient handling of missing required attributes.

The decision table of the property, stated for EVERY attribute position of EVERY instance shape (own / inherited
attributes are positions of the flattened attribute list; a complex instance is a list of parts) at EVERY position
of a population whose other instances read cleanly.  All constants come from `Generated.*` (re-extracted from the
source on every run), so the theorems are re-checked against what the code says now.
-/
namespace StepModel.AttrNull
open StepModel StepModel.P21 StepModel.Generated

/-! ### inputs -/

/-- every position reads without complaint -/
inductive CleanL (strict : Bool) : List AttrD → List Tok → Prop
  | nil : CleanL strict [] []
  | cons {a t as ts} : (attrRead strict a t).1 = .null → CleanL strict as ts → CleanL strict (a :: as) (t :: ts)

/-- an instance as it stands in the file: attribute descriptors and tokens, per part -/
inductive InstIn where
  | simple (as : List AttrD) (ts : List Tok)
  | complex (parts : List (List AttrD × List Tok))

def readInst (fileStrict : Bool) : InstIn → InstResult
  | .simple as ts => ⟨(instRead (fileStrictFor false fileStrict) as ts).1, false⟩
  | .complex ps => ⟨(complexRead (fileStrictFor true fileStrict) ps).1, true⟩

/-- values stored, per part -/
def readVals (fileStrict : Bool) : InstIn → List (List Val)
  | .simple as ts => [(instRead (fileStrictFor false fileStrict) as ts).2]
  | .complex ps => (complexRead (fileStrictFor true fileStrict) ps).2

/-- severity of the STEPfile after reading the population -/
def readFile (fileStrict : Bool) (is : List InstIn) : Sev := fileSev (is.map (readInst fileStrict))

def CleanParts (strict : Bool) (ps : List (List AttrD × List Tok)) : Prop := ∀ p ∈ ps, CleanL strict p.1 p.2

inductive CleanInst (strict : Bool) : InstIn → Prop
  | simple {as ts} : CleanL strict as ts → CleanInst strict (.simple as ts)
  | complex {ps} : CleanParts strict ps → CleanInst strict (.complex ps)

/-- `inst` is conforming except that the value of attribute `a` (at any position, in any part) is `$` / empty -/
inductive OneMissing (strict : Bool) (a : AttrD) (d : Bool) : InstIn → Prop
  | simple {as₁ ts₁ as₂ ts₂} : CleanL strict as₁ ts₁ → CleanL strict as₂ ts₂ →
      OneMissing strict a d (.simple (as₁ ++ a :: as₂) (ts₁ ++ Tok.missing d :: ts₂))
  | complex {ps₁ ps₂ as₁ ts₁ as₂ ts₂} : CleanParts strict ps₁ → CleanParts strict ps₂ →
      CleanL strict as₁ ts₁ → CleanL strict as₂ ts₂ →
      OneMissing strict a d (.complex (ps₁ ++ (as₁ ++ a :: as₂, ts₁ ++ Tok.missing d :: ts₂) :: ps₂))

/-- lenient mode substitutes for exactly these base types … -/
def substitutable (k : Kind) : Bool := k = .integer || k = .real || k = .number || k = .string
/-- … these values (`''` is the Part 21 spelling of the empty string) -/
def substValue : Kind → String
  | .integer => "0" | .real => "0.0" | .number => "0" | .string => "''" | _ => ""

/-! ### the extracted tables are the ones the model understands -/

theorem C15_fillers_known :
    ∀ c ∈ fillerCases, c.2.2.1 ∈ ["ReadInteger", "ReadReal", "ReadNumber", "assign"] ∧ (Kind.ofName c.1).isSome := by
  decide

/-- the mode flag reaches every attribute of every instance shape unchanged (p21read `-s` → `STEPfile::_strict` →
    `ReadInstance` → `STEPread` of the instance / of each complex part → `STEPattribute::STEPread`) -/
theorem C15_strict_plumbing (s : Bool) :
    attrStrict (fileStrictFor false s) = s ∧ attrStrict (partStrict (fileStrictFor true s)) = s ∧
    p21readStrictDefault = false ∧ p21readStrictWithDashS = true := by
  cases s <;> decide

/-! ### attribute level: the decision table -/

theorem C15_attr_optional (strict d : Bool) (k : Kind) :
    attrRead strict ⟨k, true, false⟩ (.missing d) = (.null, .null) := by
  cases strict <;> rfl

theorem C15_attr_strict_required (d : Bool) (k : Kind) :
    attrRead true ⟨k, false, false⟩ (.missing d) = (.incomplete, .null) := by
  rfl

theorem C15_attr_lenient_substitutes (d : Bool) (k : Kind) (h : substitutable k = true) :
    attrRead false ⟨k, false, false⟩ (.missing d) = (.usermsg, .tok (substValue k)) := by
  cases k <;> first | rfl | (simp [substitutable] at h)

theorem C15_attr_lenient_other (d : Bool) (k : Kind) (h : substitutable k = false) :
    attrRead false ⟨k, false, false⟩ (.missing d) = (.incomplete, .null) := by
  cases k <;> first | rfl | (simp [substitutable] at h)

/-! ### instance level -/

theorem greater_null_right (e : Sev) : Sev.greater e .null = e := Sev.greater_null_right e
theorem greater_null_left (s : Sev) : Sev.greater .null s = s := Sev.greater_null_left s
theorem mergeAttr_null_right (acc : Sev) : mergeAttr acc .null = acc := by cases acc <;> rfl
theorem mergeAttr_null_left (s : Sev) : mergeAttr .null s = s := by cases s <;> rfl

theorem instReadAux_clean {strict s : Bool} (hs : attrStrict strict = s) {as ts} (h : CleanL s as ts) (acc : Sev) :
    (instReadAux strict acc as ts).1 = acc := by
  induction h generalizing acc with
  | nil => rfl
  | cons h1 _ ih =>
    simp only [instReadAux, hs]
    rw [ih]; rw [h1]; exact mergeAttr_null_right acc

theorem instReadAux_at {strict s : Bool} (hs : attrStrict strict = s) {as₁ ts₁ as₂ ts₂} (a : AttrD) (t : Tok)
    (h₁ : CleanL s as₁ ts₁) (h₂ : CleanL s as₂ ts₂) (acc : Sev) :
    (instReadAux strict acc (as₁ ++ a :: as₂) (ts₁ ++ t :: ts₂)).1 = mergeAttr acc (attrRead s a t).1 := by
  induction h₁ generalizing acc with
  | nil =>
    simp only [List.nil_append, instReadAux, hs]
    exact instReadAux_clean hs h₂ _
  | cons h1 _ ih =>
    simp only [List.cons_append, instReadAux, hs]
    rw [ih, h1, mergeAttr_null_right]

/-- severity of an instance that is clean except at one (arbitrary) position -/
theorem instRead_sev_at {strict s : Bool} (hs : attrStrict strict = s) {as₁ ts₁ as₂ ts₂} (a : AttrD) (t : Tok)
    (h₁ : CleanL s as₁ ts₁) (h₂ : CleanL s as₂ ts₂) :
    (instRead strict (as₁ ++ a :: as₂) (ts₁ ++ t :: ts₂)).1 = (attrRead s a t).1 := by
  unfold instRead
  rw [instReadAux_at hs a t h₁ h₂, mergeAttr_null_left]

theorem instRead_sev_clean {strict s : Bool} (hs : attrStrict strict = s) {as ts} (h : CleanL s as ts) :
    (instRead strict as ts).1 = .null := instReadAux_clean hs h _

theorem cleanL_length {s as ts} (h : CleanL s as ts) : as.length = ts.length := by
  induction h with
  | nil => rfl
  | cons _ _ ih => simp [ih]

theorem instReadAux_vals {strict s : Bool} (hs : attrStrict strict = s) (as : List AttrD) (ts : List Tok) (acc : Sev) :
    (instReadAux strict acc as ts).2 = List.zipWith (fun a t => (attrRead s a t).2) as ts := by
  induction as generalizing ts acc with
  | nil => cases ts <;> rfl
  | cons a as ih =>
    cases ts with
    | nil => rfl
    | cons t ts => simp only [instReadAux, hs, List.zipWith_cons_cons]; rw [ih]

/-- the value stored at the position of the missing attribute -/
theorem instRead_val_at {strict s : Bool} (hs : attrStrict strict = s) {as₁ ts₁} (as₂ ts₂) (a : AttrD) (t : Tok)
    (h₁ : CleanL s as₁ ts₁) :
    (instRead strict (as₁ ++ a :: as₂) (ts₁ ++ t :: ts₂)).2[as₁.length]? = some (attrRead s a t).2 := by
  unfold instRead
  rw [instReadAux_vals hs]
  have hl := cleanL_length h₁
  rw [List.zipWith_append hl]
  simp [List.length_zipWith, hl]

/-! ### complex instances -/

theorem foldl_greater_clean (rs : List (Sev × List Val)) (h : ∀ r ∈ rs, r.1 = .null) (init : Sev) :
    rs.foldl (fun acc r => Sev.greater acc r.1) init = init := by
  induction rs generalizing init with
  | nil => rfl
  | cons r rs ih =>
    simp only [List.foldl_cons]
    rw [h r (by simp), greater_null_right]
    exact ih (fun x hx => h x (by simp [hx])) init

theorem complexRead_sev_clean {strict s : Bool} (hs : attrStrict (partStrict strict) = s) {ps}
    (h : CleanParts s ps) : (complexRead strict ps).1 = .null := by
  unfold complexRead
  have hall : ∀ r ∈ ps.map (fun p => instRead (partStrict strict) p.1 p.2), r.1 = .null := by
    intro r hr
    simp only [List.mem_map] at hr
    obtain ⟨p, hp, rfl⟩ := hr
    exact instRead_sev_clean hs (h p hp)
  cases hps : ps.map (fun p => instRead (partStrict strict) p.1 p.2) with
  | nil => rfl
  | cons x xs =>
    rw [hps] at hall
    simp only []
    have : complexMergesParts = true := rfl
    simp only [this, if_true]
    rw [foldl_greater_clean xs (fun r hr => hall r (by simp [hr]))]
    exact hall x (by simp)

theorem complexRead_sev_at {strict s : Bool} (hs : attrStrict (partStrict strict) = s)
    {ps₁ ps₂ as₁ ts₁ as₂ ts₂} (a : AttrD) (t : Tok)
    (hp₁ : CleanParts s ps₁) (hp₂ : CleanParts s ps₂) (h₁ : CleanL s as₁ ts₁) (h₂ : CleanL s as₂ ts₂) :
    (complexRead strict (ps₁ ++ (as₁ ++ a :: as₂, ts₁ ++ t :: ts₂) :: ps₂)).1 = (attrRead s a t).1 := by
  unfold complexRead
  have hm : complexMergesParts = true := rfl
  have hc₁ : ∀ r ∈ ps₁.map (fun p => instRead (partStrict strict) p.1 p.2), r.1 = .null := by
    intro r hr
    simp only [List.mem_map] at hr
    obtain ⟨p, hp, rfl⟩ := hr
    exact instRead_sev_clean hs (hp₁ p hp)
  have hc₂ : ∀ r ∈ ps₂.map (fun p => instRead (partStrict strict) p.1 p.2), r.1 = .null := by
    intro r hr
    simp only [List.mem_map] at hr
    obtain ⟨p, hp, rfl⟩ := hr
    exact instRead_sev_clean hs (hp₂ p hp)
  have hx := instRead_sev_at hs a t h₁ h₂
  simp only [List.map_append, List.map_cons]
  cases hps : ps₁.map (fun p => instRead (partStrict strict) p.1 p.2) with
  | nil =>
    simp only [List.nil_append, hm, if_true]
    rw [foldl_greater_clean _ hc₂]; exact hx
  | cons x xs =>
    rw [hps] at hc₁
    simp only [List.cons_append, hm, if_true, List.foldl_append, List.foldl_cons]
    rw [foldl_greater_clean xs (fun r hr => hc₁ r (by simp [hr])), hc₁ x (by simp), hx, greater_null_left,
      foldl_greater_clean _ hc₂]

/-! ### file level -/

theorem afterInst_null (e : Sev) (r : InstResult) (h : r.sev = .null) : afterInst e r = e := by
  cases r with | mk s c => cases c <;> simp_all [afterInst, reportsError, entityMerge] <;> rfl

theorem foldl_afterInst_clean (rs : List InstResult) (h : ∀ r ∈ rs, r.sev = .null) (e : Sev) :
    rs.foldl afterInst e = e := by
  induction rs generalizing e with
  | nil => rfl
  | cons r rs ih =>
    simp only [List.foldl_cons]
    rw [afterInst_null e r (h r (by simp))]
    exact ih (fun x hx => h x (by simp [hx])) e

theorem rd2_of_null (r : InstResult) (h : r.sev = .null) : rd2Invalid r = false ∧ rd2Valid r = true := by
  cases r with | mk s c => cases c <;> simp_all [rd2Invalid, rd2Valid, leftOver, reportsError] <;> decide

/-- on this tree every instance shape hands its error to the file (so ReadData2 finds nothing left over) -/
theorem rd2_any (r : InstResult) : rd2Invalid r = false ∧ rd2Valid r = true := by
  cases r with | mk s c => cases c <;> cases s <;> decide

/-- file severity when exactly one instance (anywhere) reads with severity `s` and all others read cleanly:
    `AppendEntityErrorMsg`'s floor applied to `s` -/
theorem fileSev_one (rs₁ rs₂ : List InstResult) (r : InstResult)
    (h₁ : ∀ x ∈ rs₁, x.sev = .null) (h₂ : ∀ x ∈ rs₂, x.sev = .null) :
    fileSev (rs₁ ++ r :: rs₂) = entityMerge .null r.sev := by
  unfold fileSev
  have hany : (rs₁ ++ r :: rs₂).any rd2Invalid = false := by
    simp only [List.any_eq_false]; intro x _; simp [(rd2_any x).1]
  have hall : (rs₁ ++ r :: rs₂).all rd2Valid = true := by
    simp only [List.all_eq_true]; intro x _; exact (rd2_any x).2
  simp only [hany, hall, if_true, Bool.false_eq_true, if_false]
  rw [List.foldl_append, foldl_afterInst_clean rs₁ h₁, List.foldl_cons, foldl_afterInst_clean rs₂ h₂]
  cases r with | mk s c => cases c <;> rfl

theorem fileSev_clean (rs : List InstResult) (h : ∀ x ∈ rs, x.sev = .null) : fileSev rs = .null := by
  unfold fileSev
  have hany : rs.any rd2Invalid = false := by
    simp only [List.any_eq_false]; intro x _; simp [(rd2_any x).1]
  have hall : rs.all rd2Valid = true := by
    simp only [List.all_eq_true]; intro x _; exact (rd2_any x).2
  simp only [hany, hall, if_true, Bool.false_eq_true, if_false]
  exact foldl_afterInst_clean rs h _

theorem readInst_clean {s : Bool} {i : InstIn} (h : CleanInst s i) : (readInst s i).sev = .null := by
  cases h with
  | simple hc => exact instRead_sev_clean (C15_strict_plumbing s).1 hc
  | complex hp => exact complexRead_sev_clean (C15_strict_plumbing s).2.1 hp

/-- the severity of the affected instance is exactly what the attribute's pre-check decided -/
theorem readInst_oneMissing {s : Bool} {a : AttrD} {d : Bool} {i : InstIn} (h : OneMissing s a d i) :
    (readInst s i).sev = (attrRead s a (.missing d)).1 := by
  cases h with
  | simple h₁ h₂ => exact instRead_sev_at (C15_strict_plumbing s).1 a _ h₁ h₂
  | complex hp₁ hp₂ h₁ h₂ => exact complexRead_sev_at (C15_strict_plumbing s).2.1 a _ hp₁ hp₂ h₁ h₂

theorem readFile_oneMissing {s : Bool} {a : AttrD} {d : Bool} {i : InstIn} (pre post : List InstIn)
    (hpre : ∀ x ∈ pre, CleanInst s x) (hpost : ∀ x ∈ post, CleanInst s x) (h : OneMissing s a d i) :
    readFile s (pre ++ i :: post) = entityMerge .null (attrRead s a (.missing d)).1 := by
  unfold readFile
  rw [List.map_append, List.map_cons, fileSev_one, readInst_oneMissing h]
  · intro x hx; simp only [List.mem_map] at hx; obtain ⟨y, hy, rfl⟩ := hx; exact readInst_clean (hpre y hy)
  · intro x hx; simp only [List.mem_map] at hx; obtain ⟨y, hy, rfl⟩ := hx; exact readInst_clean (hpost y hy)

/-! ### the property -/

/-- A conforming population reads cleanly in either mode: severity NULL, exit 0. -/
theorem C15_conforming_clean (s : Bool) (is : List InstIn) (h : ∀ x ∈ is, CleanInst s x) :
    readFile s is = .null ∧ p21readExit (readFile s is) = 0 := by
  have : readFile s is = .null := by
    unfold readFile
    apply fileSev_clean
    intro x hx; simp only [List.mem_map] at hx; obtain ⟨y, hy, rfl⟩ := hx; exact readInst_clean (h y hy)
  rw [this]; exact ⟨rfl, rfl⟩

/-- OPTIONAL attribute unset (`$` or empty), any position of any instance shape, either mode:
    the file reads with severity NULL, p21read exits 0, the instance is complete. -/
theorem C15_optional_ok (s d : Bool) (k : Kind) (i : InstIn) (pre post : List InstIn)
    (hpre : ∀ x ∈ pre, CleanInst s x) (hpost : ∀ x ∈ post, CleanInst s x)
    (h : OneMissing s ⟨k, true, false⟩ d i) :
    readFile s (pre ++ i :: post) = .null ∧ accepted (readFile s (pre ++ i :: post)) = true ∧
    nodeState (readInst s i) = .complete := by
  have hs := readInst_oneMissing h
  rw [readFile_oneMissing pre post hpre hpost h, C15_attr_optional]
  rw [C15_attr_optional] at hs
  refine ⟨rfl, rfl, ?_⟩
  unfold nodeState; rw [hs]; rfl

/-- required attribute unset, STRICT mode, any kind: the instance is incomplete and the read fails (exit 1). -/
theorem C15_strict_required_incomplete (d : Bool) (k : Kind) (i : InstIn) (pre post : List InstIn)
    (hpre : ∀ x ∈ pre, CleanInst true x) (hpost : ∀ x ∈ post, CleanInst true x)
    (h : OneMissing true ⟨k, false, false⟩ d i) :
    readFile true (pre ++ i :: post) = .incomplete ∧ p21readExit (readFile true (pre ++ i :: post)) = 1 ∧
    nodeState (readInst true i) = .incomplete := by
  have hs := readInst_oneMissing h
  rw [readFile_oneMissing pre post hpre hpost h, C15_attr_strict_required]
  rw [C15_attr_strict_required] at hs
  refine ⟨rfl, rfl, ?_⟩
  unfold nodeState; rw [hs]; rfl

/-- required INTEGER / REAL / NUMBER / STRING unset, LENIENT mode: user message, file accepted (exit 0),
    instance complete. -/
theorem C15_lenient_substitutes (d : Bool) (k : Kind) (hk : substitutable k = true) (i : InstIn)
    (pre post : List InstIn)
    (hpre : ∀ x ∈ pre, CleanInst false x) (hpost : ∀ x ∈ post, CleanInst false x)
    (h : OneMissing false ⟨k, false, false⟩ d i) :
    readFile false (pre ++ i :: post) = .usermsg ∧ accepted (readFile false (pre ++ i :: post)) = true ∧
    nodeState (readInst false i) = .complete := by
  have hs := readInst_oneMissing h
  rw [readFile_oneMissing pre post hpre hpost h, C15_attr_lenient_substitutes d k hk]
  rw [C15_attr_lenient_substitutes d k hk] at hs
  refine ⟨rfl, rfl, ?_⟩
  unfold nodeState; rw [hs]; rfl

/-- … and the value stored at that position (the one written back) is 0 / 0.0 / 0 / '' — internally mapped instance -/
theorem C15_lenient_value_simple (d : Bool) (k : Kind) (hk : substitutable k = true)
    {as₁ ts₁} (as₂ ts₂) (h₁ : CleanL false as₁ ts₁) :
    ((readVals false (.simple (as₁ ++ ⟨k, false, false⟩ :: as₂) (ts₁ ++ Tok.missing d :: ts₂)))[0]?.bind
      (·[as₁.length]?)) = some (.tok (substValue k)) := by
  simp only [readVals, List.getElem?_cons_zero, Option.bind_some]
  rw [instRead_val_at (C15_strict_plumbing false).1 as₂ ts₂ _ _ h₁, C15_attr_lenient_substitutes d k hk]

/-- … the same inside a part of a complex instance -/
theorem C15_lenient_value_complex (d : Bool) (k : Kind) (hk : substitutable k = true)
    (ps₁ ps₂ : List (List AttrD × List Tok)) {as₁ ts₁} (as₂ ts₂) (h₁ : CleanL false as₁ ts₁) :
    ((readVals false (.complex (ps₁ ++ (as₁ ++ ⟨k, false, false⟩ :: as₂, ts₁ ++ Tok.missing d :: ts₂) :: ps₂)))[ps₁.length]?.bind
      (·[as₁.length]?)) = some (.tok (substValue k)) := by
  simp only [readVals, complexRead, List.map_append, List.map_cons, List.map_map]
  rw [List.getElem?_append_right (by simp)]
  simp only [List.length_map, Nat.sub_self, List.getElem?_cons_zero, Option.bind_some]
  rw [instRead_val_at (C15_strict_plumbing false).2.1 as₂ ts₂ _ _ h₁, C15_attr_lenient_substitutes d k hk]

/-- required attribute of any other kind unset, LENIENT mode: incomplete, read fails — as in strict mode. -/
theorem C15_lenient_other_incomplete (d : Bool) (k : Kind) (hk : substitutable k = false) (i : InstIn)
    (pre post : List InstIn)
    (hpre : ∀ x ∈ pre, CleanInst false x) (hpost : ∀ x ∈ post, CleanInst false x)
    (h : OneMissing false ⟨k, false, false⟩ d i) :
    readFile false (pre ++ i :: post) = .incomplete ∧ p21readExit (readFile false (pre ++ i :: post)) = 1 ∧
    nodeState (readInst false i) = .incomplete := by
  have hs := readInst_oneMissing h
  rw [readFile_oneMissing pre post hpre hpost h, C15_attr_lenient_other d k hk]
  rw [C15_attr_lenient_other d k hk] at hs
  refine ⟨rfl, rfl, ?_⟩
  unfold nodeState; rw [hs]; rfl

/-- the table is total: the two lenient rows partition the kinds, exactly as the property lists them -/
theorem C15_table_total (k : Kind) :
    (substitutable k = true ↔ k = .integer ∨ k = .real ∨ k = .number ∨ k = .string) ∧
    (substitutable k = true ∨ substitutable k = false) := by
  cases k <;> simp [substitutable]

/-! ### hypotheses are satisfiable -/

example : OneMissing false ⟨.real, false, false⟩ true
    (.simple ([⟨.integer, false, false⟩] ++ ⟨.real, false, false⟩ :: [⟨.entity, true, false⟩])
             ([Tok.lit (.tok "5") .null] ++ Tok.missing true :: [Tok.missing false])) :=
  .simple (.cons rfl .nil) (.cons rfl .nil)

example : OneMissing true ⟨.enum, false, false⟩ false
    (.complex ([([⟨.integer, false, false⟩], [Tok.lit (.tok "5") .null])] ++
               ([] ++ ⟨.enum, false, false⟩ :: [], [] ++ Tok.missing false :: []) :: [])) :=
  .complex (by intro p hp; simp at hp; subst hp; exact .cons rfl .nil) (by intro p hp; simp at hp) .nil .nil

end StepModel.AttrNull

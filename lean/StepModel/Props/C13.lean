import StepModel.InstMgr
namespace StepModel.InstMgr

theorem C13_stub : count init = 0 := rfl

end StepModel.InstMgr

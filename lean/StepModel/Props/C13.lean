import StepModel.InstMgrHistory
import StepModel.GenNodeArrayLemmas
import StepModel.InstMgrBufLemmas
import StepModel.GenNodeListLemmas
/-!
# C13 — the instance manager stays consistent under any sequence of operations

Model: `StepModel/InstMgr.lean` (tied to `/repo` by `Generated/InstMgrGen.lean`, regenerated on every run, and by
the in-process correspondence of `checks/c13.py`).  Helper lemmas: `InstMgrLemmas`, `InstMgrInv`, `InstMgrRefine`.
Every theorem below quantifies over **all** operation histories (`ops : List Op`), with no bound on their length.

API contract (operations outside it are `skipped` by both sides): indices `< InstanceCount()`, instance handles
alive, `Delete(instance)` only for an instance that is in the manager.
-/
namespace StepModel.InstMgr
open StepModel.Generated

/-- a state the manager can reach from construction by any history -/
def Reachable (s : State) : Prop := ∃ ops : List Op, s = run init ops

/-- The representation invariant holds after every history. -/
theorem C13_inv_reachable (ops : List Op) : Inv (run init ops) := inv_run inv_init ops

/-- No operation, after any history, makes the C++ dereference a null/dangling node or double-free an instance. -/
theorem C13_no_crash (ops : List Op) (op : Op) : (step (run init ops) op).2 ≠ .crash :=
  (inv_step (C13_inv_reachable ops) op).2

/-- **Refinement.** After any history, each operation changes the array of live instances exactly as the
list reference `specStep` says (append at the end unless already present, erase by index / by instance,
state change in place, empty on clear): so the count is the number of live instances and the i-th instance is
the i-th survivor in insertion order. -/
theorem C13_refines (ops : List Op) (op : Op) :
    abs (step (run init ops) op).1 =
      specStep (abs (run init ops)) (fun h => ((run init ops).heap h).isSome) op :=
  abs_step (C13_inv_reachable ops) op

/-- **History-level refinement.**  After ANY history the manager's array of live instances (handle and editing
state, in array order) and the set of allocated instances equal what the reference `Ref` — a plain list plus a
set, with no ids, map, cached indices or buffer — computes from the same history.  Hence the count is the number of
live instances and the i-th instance is the i-th survivor in insertion order. -/
theorem C13_refines_history (ops : List Op) :
    abs (run init ops) = (Ref.init.run ops).live ∧
    ∀ k, ((run init ops).heap k).isSome = (Ref.init.run ops).alive k :=
  rel_run inv_init rel_init ops

theorem C13_count_eq_ref (ops : List Op) : count (run init ops) = (Ref.init.run ops).live.length := by
  rw [← (C13_refines_history ops).1]; simp [count, abs]

theorem C13_instAt_eq_ref (ops : List Op) (i : Nat) :
    instAt (run init ops) i = ((Ref.init.run ops).live[i]?).map (·.1) := by
  rw [← (C13_refines_history ops).1]
  simp only [instAt, abs, List.getElem?_map]
  cases (run init ops).nodes[i]? <;> rfl

theorem C13_count_is_live (ops : List Op) : count (run init ops) = (abs (run init ops)).length := by
  simp [count, abs]

theorem C13_instAt_is_live (ops : List Op) (i : Nat) :
    instAt (run init ops) i = ((abs (run init ops))[i]?).map (·.1) := by
  simp only [instAt, abs, List.getElem?_map]
  cases (run init ops).nodes[i]? <;> rfl

/-- The i-th instance reports index i (`GetIndex`). -/
theorem C13_index_reported (ops : List Op) (i : Nat) (h : i < count (run init ops)) :
    indexAt (run init ops) i = some (i : Int) := by
  have I := C13_inv_reachable ops
  unfold indexAt
  unfold count at h
  rw [List.getElem?_eq_getElem h]
  simp [I.idx i h]

/-- Look-up by file id returns exactly the live instance carrying that id, and nothing for any other id. -/
theorem C13_find_exact (ops : List Op) (k : Int) :
    let s := run init ops
    (∀ n, findFileId s k = .node n ↔ (n ∈ s.nodes ∧ idOf s n.inst = some k)) ∧
    (findFileId s k = .none ↔ ∀ n ∈ s.nodes, idOf s n.inst ≠ some k) ∧
    findFileId s k ≠ .dangling := by
  intro s
  have I : Inv s := C13_inv_reachable ops
  rcases findFileId_spec I k with ⟨n, hn, hid, hf⟩ | ⟨hall, hf⟩
  · refine ⟨?_, ?_, by rw [hf]; simp⟩
    · intro m
      rw [hf]
      constructor
      · intro he; simp at he; subst he; exact ⟨hn, hid⟩
      · rintro ⟨hm, hmid⟩
        rw [I.node_eq_of_id hm hn hmid hid]
    · rw [hf]
      constructor
      · intro he; simp at he
      · intro hall; exact absurd hid (hall n hn)
  · refine ⟨?_, ?_, by rw [hf]; simp⟩
    · intro m
      rw [hf]
      constructor
      · intro he; simp at he
      · rintro ⟨hm, hmid⟩; exact absurd hmid (hall m hm)
    · rw [hf]; simp; exact hall

/-- No two live instances carry the same file id. -/
theorem C13_ids_unique (ops : List Op) (a b : Node) (k : Int) :
    let s := run init ops
    a ∈ s.nodes → b ∈ s.nodes → idOf s a.inst = some k → idOf s b.inst = some k → a = b := by
  intro s ha hb h1 h2
  exact (C13_inv_reachable ops).node_eq_of_id ha hb h1 h2

/-- The maximum id is never below a live id. -/
theorem C13_max_ge_live (ops : List Op) (n : Node) (k : Int) :
    let s := run init ops
    n ∈ s.nodes → idOf s n.inst = some k → k ≤ s.maxFileId := by
  intro s hn hk
  exact (C13_inv_reachable ops).maxGe n hn k hk

/-! ### automatically assigned ids -/
theorem pushNode_max_ge (s : State) (h : Nat) (st : St) (k : Int) :
    s.maxFileId ≤ (pushNode s h st k).maxFileId ∧ k ≤ (pushNode s h st k).maxFileId := by
  rw [pushNode_max]; split <;> omega

theorem appendFind_max {s1 : State} (I1 : Inv s1) {h : Nat} {id1 : Int} (st : St) :
    s1.maxFileId ≤ (appendFind s1 id1 h st).1.maxFileId ∧
    ∀ idx id, (appendFind s1 id1 h st).2 = .node idx id → id ≤ (appendFind s1 id1 h st).1.maxFileId := by
  unfold appendFind
  rcases findFileId_spec I1 id1 with ⟨n, hn, hnid, hf⟩ | ⟨hall, hf⟩
  · rw [hf]
    by_cases hnh : n.inst = h
    · simp [hnh]
    · simp only [hnh, if_false]
      have h1 := pushNode_max_ge (renumber s1 h).1 h st (renumber s1 h).2
      have h2 := nextFileIdVal_gt s1.maxFileId
      rw [renumber_max] at h1
      constructor
      · omega
      · intro idx id he
        simp at he
        rw [← he.2]; exact h1.2
  · rw [hf]
    have h1 := pushNode_max_ge s1 h st id1
    constructor
    · exact h1.1
    · intro idx id he
      simp at he
      rw [← he.2]; exact h1.2

/-- Between two emptyings `MaxFileId` never decreases, and it is at least every id an `Append` returned:
so it bounds every id seen since the manager was last emptied. -/
theorem C13_max_monotone (ops : List Op) (op : Op) (hc : op ≠ .clear) (hd : op ≠ .deleteAll) :
    let s := run init ops
    s.maxFileId ≤ (step s op).1.maxFileId ∧
    ∀ idx id, (step s op).2 = .node idx id → id ≤ (step s op).1.maxFileId := by
  intro s
  have I : Inv s := C13_inv_reachable ops
  cases op with
  | clear => exact absurd rfl hc
  | deleteAll => exact absurd rfl hd
  | lookup i => simp [step, lookup]
  | newInst h id name =>
    simp only [step, newInst]
    cases s.heap h <;> simp
  | changeState i st =>
    simp only [step, changeState]
    cases s.nodes[i]? with
    | none => simp
    | some n => simp only; split <;> simp
  | deleteNode i =>
    simp only [step, deleteNode]
    cases hg : s.nodes[i]? with
    | none => simp
    | some n =>
      have := inv_deleteNodeCore I (List.mem_of_getElem? hg)
      rcases List.getElem?_eq_some_iff.mp hg with ⟨hp, hpn⟩
      rcases deleteNodeCore_eq I hp hpn with ⟨i', _, he⟩
      simp only [he]
      simp
  | deleteInst h =>
    simp only [step, deleteInst]
    cases hh : s.heap h with
    | none => simp
    | some i =>
      simp only
      split
      · rcases findFileId_spec I i.fileId with ⟨n, hn, hnid, hf⟩ | ⟨hall, hf⟩
        · rw [hf]
          rcases List.getElem_of_mem hn with ⟨p, hp, hpn⟩
          rcases deleteNodeCore_eq I hp hpn with ⟨i', _, he⟩
          simp only [he]
          simp
        · rw [hf]; simp
      · simp
  | append h st =>
    simp only [step, append]
    cases hh : s.heap h with
    | none => simp
    | some i0 =>
      simp only
      by_cases hz : i0.fileId = unassignedFileId
      · simp only [hz, if_true]
        have hfresh : ∀ n ∈ s.nodes, n.inst ≠ h := by
          intro n hn he
          apply I.nonzero n hn
          simp [idOf, he, hh, hz]
        have I1 := inv_renumber I hfresh
        have := appendFind_max I1 (h := h) (id1 := (renumber s h).2) st
        have h2 := nextFileIdVal_gt s.maxFileId
        rw [renumber_max] at this
        exact ⟨by omega, this.2⟩
      · simp only [hz, if_false]
        exact appendFind_max I st

/-- An id handed out automatically (the instance came with the "unassigned" id, or with an id that a live
instance already carries) is fresh: strictly above `MaxFileId` before the call — hence above every live id and
every id seen since the manager was last emptied (`C13_max_monotone`, `C13_max_ge_live`) — and it is never the
"unassigned" value itself. -/
theorem C13_auto_id_fresh (ops : List Op) (h : Nat) (st : St) (i0 : Inst) :
    let s := run init ops
    s.heap h = some i0 →
    (∀ n ∈ s.nodes, n.inst ≠ h) →
    (i0.fileId = unassignedFileId ∨ ∃ n ∈ s.nodes, idOf s n.inst = some i0.fileId) →
    ∃ id, (step s (.append h st)).2 = .node s.nodes.length id ∧ s.maxFileId < id ∧ id ≠ unassignedFileId ∧
          idOf (step s (.append h st)).1 h = some id := by
  intro s hh hfresh hauto
  have I : Inv s := C13_inv_reachable ops
  have hgt := nextFileIdVal_gt s.maxFileId
  have hne := nextFileIdVal_ne_unassigned s.maxFileId
  simp only [step, append, hh]
  by_cases hz : i0.fileId = unassignedFileId
  · simp only [hz, if_true]
    have I1 := inv_renumber I hfresh
    -- after renumbering nobody carries the new id
    have hnone : ∀ n ∈ (renumber s h).1.nodes, idOf (renumber s h).1 n.inst ≠ some (renumber s h).2 := by
      intro n hn he
      rw [renumber_nodes] at hn
      rw [renumber_idOf_ne s h (hfresh n hn), renumber_snd] at he
      have := I.maxGe n hn _ he
      omega
    unfold appendFind
    rcases findFileId_spec I1 (renumber s h).2 with ⟨n, hn, hnid, _⟩ | ⟨_, hf⟩
    · exact absurd hnid (hnone n hn)
    · rw [hf]
      refine ⟨nextFileIdVal s.maxFileId, by simp [renumber_snd, renumber_nodes], hgt, hne, ?_⟩
      rw [idOf_pushNode]
      exact renumber_idOf_self s h (by simp [hh])
  · simp only [hz, if_false]
    rcases hauto with hz' | ⟨n0, hn0, hid0⟩
    · exact absurd hz' hz
    · unfold appendFind
      rcases findFileId_spec I i0.fileId with ⟨n, hn, hnid, hf⟩ | ⟨hall, _⟩
      · rw [hf]
        have hnh : n.inst ≠ h := hfresh n hn
        simp only [hnh, if_false]
        refine ⟨nextFileIdVal s.maxFileId, by simp [renumber_snd, renumber_nodes], hgt, hne, ?_⟩
        rw [idOf_pushNode]
        exact renumber_idOf_self s h (by simp [hh])
      · exact absurd hid0 (hall n0 hn0)

/-- An explicit id that no live instance carries is kept. -/
theorem C13_explicit_id_kept (ops : List Op) (h : Nat) (st : St) (i0 : Inst) :
    let s := run init ops
    s.heap h = some i0 → i0.fileId ≠ unassignedFileId →
    (∀ n ∈ s.nodes, idOf s n.inst ≠ some i0.fileId) →
    (step s (.append h st)).2 = .node s.nodes.length i0.fileId ∧
      idOf (step s (.append h st)).1 h = some i0.fileId := by
  intro s hh hz hfree
  have I : Inv s := C13_inv_reachable ops
  simp only [step, append, hh, hz, if_false]
  unfold appendFind
  rcases findFileId_spec I i0.fileId with ⟨n, hn, hnid, _⟩ | ⟨_, hf⟩
  · exact absurd hnid (hfree n hn)
  · rw [hf]
    refine ⟨rfl, ?_⟩
    rw [idOf_pushNode]; simp [idOf, hh]

/-! ### look-up by entity name -/
/-- `GetApplication_instance(name, start)` returns the first match at or after `start`, else nothing. -/
theorem C13_byName_first (s : State) (name start : Nat) :
    (∀ h, byName s name start = some h →
        ∃ j, ∃ hj : j < s.nodes.length, start ≤ j ∧ (s.nodes[j]).inst = h ∧ hasName s name s.nodes[j] = true ∧
          ∀ j', ∀ hj' : j' < s.nodes.length, start ≤ j' → j' < j → hasName s name s.nodes[j'] = false) ∧
    (byName s name start = none →
        ∀ j, ∀ hj : j < s.nodes.length, start ≤ j → hasName s name s.nodes[j] = false) := by
  unfold byName
  constructor
  · intro h hb
    cases hf : (s.nodes.drop start).find? (hasName s name) with
    | none => simp [hf] at hb
    | some n =>
      simp [hf] at hb
      rcases List.find?_eq_some_iff_getElem.mp hf with ⟨hp, i, hi, hin, hbefore⟩
      have hi' : start + i < s.nodes.length := by simp at hi; omega
      refine ⟨start + i, hi', by omega, ?_, ?_, ?_⟩
      · rw [List.getElem_drop] at hin; rw [hin]; exact hb
      · rw [List.getElem_drop] at hin; rw [hin]; exact hp
      · intro j' hj' h1 h2
        have := hbefore (j' - start) (by omega)
        rw [List.getElem_drop] at this
        have e : start + (j' - start) = j' := by omega
        simp only [e] at this
        simpa using this
  · intro hb j hj hs
    cases hf : (s.nodes.drop start).find? (hasName s name) with
    | some n => simp [hf] at hb
    | none =>
      rw [List.find?_eq_none] at hf
      have hm : s.nodes[j] ∈ s.nodes.drop start := by
        rw [List.mem_iff_getElem]
        refine ⟨j - start, by simp; omega, ?_⟩
        rw [List.getElem_drop]
        congr 1; omega
      have := hf _ hm
      simpa using this

/-! ### one level lower: the heap block behind the master array (`GenNodeArray`, `StepModel/GenNodeArray.lean`) -/
open StepModel.GenNodeArray in
/-- For ANY sequence of `Append` / `Remove(index)` / `ClearEntries` on a freshly constructed `GenNodeArray`, every pointer
store and every `memmove` stays inside the allocated block (no step returns the out-of-block result), `_count` never
exceeds `_bufsize`, the first `_count` slots are non-null and all others null, and the first `_count` slots are exactly
the list that `List` append / `eraseIdx` / `[]` (for both `ClearEntries` and `DeleteEntries`) compute — the list view `InstMgr.lean` works with. -/
theorem C13_buf_any_history (ops : List BufOp) :
    ∃ a, runBuf GenNodeArray.init ops = some a ∧ Wf a ∧ view a = ops.foldl stepList [] := by
  have := run_spec GenNodeArray.init ops wf_init
  simpa [view_mk, GenNodeArray.init] using this

open StepModel.GenNodeArray in
/-- `GetMgrNode( i )` / `GetApplication_instance( i )` read the slot `(*master)[i]` without looking at `_count`: after any
history of appends, removes, `ClearEntries` and `DeleteEntries` the slot is null for every `i` at or above the count (so
"no instance there" is answered) and holds the `i`-th element of the list below it.  Needs `DeleteEntries` to null the
slots it frees — regenerated from mgrnodearray.cc; on a tree where it does not, `deleteEntries_spec` fails to build. -/
theorem C13_buf_lookup_by_index (ops : List BufOp) (i : Nat) :
    ∃ a, runBuf GenNodeArray.init ops = some a ∧
      (a.count ≤ i → slotAt a i = none) ∧
      (i < a.count → slotAt a i = ((ops.foldl stepList [])[i]?).join) := by
  obtain ⟨a, h1, h2, h3⟩ := C13_buf_any_history ops
  exact ⟨a, h1, fun hi => slotAt_above a i h2 hi, fun hi => by rw [← h3]; exact slotAt_below a i h2 hi⟩

open StepModel.GenNodeArray in
/-- the defect that was repaired (fixes/C13-2): a `DeleteEntries` loop that frees the nodes without nulling the slots
leaves, for every former element, its freed pointer readable at its old index although the count is 0 -/
theorem C13_buf_unnulled_delete_witness (a : Arr) (i p : Nat) (hi : i < a.count) (hp : a.buf[i]? = some (some p)) :
    (dropAll false a).count = 0 ∧ slotAt (dropAll false a) i = some p :=
  dropAll_false_dangling a i p hi hp

/-- `GetApplication_instance( i )` for ANY index after any history: the `i`-th surviving instance when `i` is below the
count, null otherwise — and the look-up changes nothing but (possibly) the capacity of the block. -/
theorem C13_lookup_any_index (ops : List Op) (i : Nat) :
    let s := run init ops
    (step s (.lookup i)).2 = .found (instAt s i) ∧
    (count s ≤ i → instAt s i = none) ∧
    abs (step s (.lookup i)).1 = abs s ∧ (step s (.lookup i)).1.maxFileId = s.maxFileId := by
  intro s
  refine ⟨rfl, ?_, rfl, rfl⟩
  intro hi
  simp only [instAt, count] at *
  rw [List.getElem?_eq_none hi]; rfl

open StepModel.GenNodeArray in
/-- The list model and the buffer model describe one array.  Replaying, on the heap-block model, exactly the calls that
the operations of ANY history make on `master` (`traceOf`: `Append`/`Remove( ArrayIndex )`/`ClearEntries`/`DeleteEntries`/`operator[]( index )` of look-ups
in the order `InstMgr`'s control flow issues them) never leaves the block; afterwards the first `_count` slots are the
node identities of `s.nodes` in order, `_count` is `InstanceCount()`, the block length is the model's `bufsize`, and every
slot at or above the count is null — which is what `GetMgrNode( i )` / `GetApplication_instance( i )` read for such `i`. -/
theorem C13_master_array_is_buffer (ops : List Op) :
    ∃ a, runBuf GenNodeArray.init (traceOf init ops) = some a ∧ Wf a ∧
      view a = (run init ops).nodes.map (fun n => some n.nid) ∧
      a.buf.length = (run init ops).bufsize ∧ a.count = count (run init ops) ∧
      ∀ i, count (run init ops) ≤ i → slotAt a i = none := by
  obtain ⟨a, h1, L⟩ := link_run link_init ops
  refine ⟨a, h1, L.wf, L.view, L.len, link_count L, ?_⟩
  intro i hi
  exact slotAt_above a i L.wf (by rw [link_count L]; exact hi)

open StepModel.GenNodeArray in
/-- Slot by slot: after any history the pointer `operator[]( i )` reads from the block is the `i`-th node of the list model
(`GetMgrNode( i )`), for EVERY index `i` — a node below the count, null at and above it. -/
theorem C13_buffer_slot_is_node (ops : List Op) (i : Nat) :
    ∃ a, runBuf GenNodeArray.init (traceOf init ops) = some a ∧
      slotAt a i = ((run init ops).nodes[i]?).map (·.nid) := by
  obtain ⟨a, h1, L⟩ := link_run link_init ops
  refine ⟨a, h1, ?_⟩
  by_cases hi : i < a.count
  · rw [slotAt_below a i L.wf hi, L.view]
    simp only [ptrs, List.getElem?_map]
    cases (run init ops).nodes[i]? <;> rfl
  · have hc := link_count L
    rw [slotAt_above a i L.wf (by omega)]
    have : (run init ops).nodes[i]? = none := List.getElem?_eq_none (by omega)
    rw [this]; rfl

open StepModel.GenNodeArray in
/-- growth: `Check` always leaves room for the slot `Append` is about to write, whatever the default size is -/
theorem C13_buf_append_in_block (a : Arr) (gn : Nat) (h : Wf a) : (insertAtEnd a gn).isSome := by
  obtain ⟨a', h1, _⟩ := insertAtEnd_spec a gn h
  rw [h1]; rfl

/-! ### the hypotheses are satisfiable: a concrete non-trivial history -/
example : let s := run init [.newInst 0 0 1, .append 0 .complete, .newInst 1 1 2, .append 1 .new,
                              .append 0 .complete, .deleteNode 0, .newInst 2 2 0, .append 2 .incomplete]
    count s = 2 ∧ instAt s 0 = some 1 ∧ instAt s 1 = some 2 ∧ s.maxFileId = 3 ∧
    idOf s 1 = some 2 ∧ idOf s 2 = some 3 := by
  decide

end StepModel.InstMgr

/-! ### the state lists a `MgrNode` lives in (`GenNodeList` / `MgrNodeList` / `GenericNode::Remove`)

Model: `StepModel/GenNodeList.lean` — the intrusive circular doubly-linked list, every pointer store of
`GenNodeList::InsertBefore`, `GenericNode::Remove` and `MgrNodeList::InsertBefore`'s guard spelled out on a heap of
cells; a null dereference is an explicit `none`.  Tie: `harness/h_gennodelist.cc` vs `m_c13l` (checks/c13.py). -/
namespace StepModel.InstMgr

/-- Two state lists sharing the nodes of one manager: after ANY history of `MgrNodeList::Append` (to either list, of a
    node that is in the same list, in the other list or in none) and `MgrNode::Remove()`, no pointer store or read went
    through a null pointer, and each list is a well-formed ring (`next`/`prev` mutually inverse, all cells distinct)
    holding exactly the members, in exactly the order, of the plain-list reference `refRun`; the two rings share no cell
    and every node outside them has both pointers null. -/
theorem C13_state_lists_refine (hA hB : Nat) (hAB : hA ≠ hB) (ops : List StepModel.GenNodeList.Op)
    (hc : ∀ o ∈ ops, o.node ≠ hA ∧ o.node ≠ hB) :
    ∃ w, StepModel.GenNodeList.run (StepModel.GenNodeList.World.init hA hB) ops = some w ∧
      StepModel.GenNodeList.WInv w.heap hA (StepModel.GenNodeList.refRun ⟨[], []⟩ ops).a hB (StepModel.GenNodeList.refRun ⟨[], []⟩ ops).b := by
  obtain ⟨w, e, _, _, hw⟩ := StepModel.GenNodeList.winv_run ops (StepModel.GenNodeList.World.init hA hB) ⟨[], []⟩ (StepModel.GenNodeList.winv_init hA hB hAB) hc
  exact ⟨w, e, hw⟩

/-- What a consumer sees: the traversal `for( n = head->next; n != head; n = n->next )` of either list after any such
    history visits exactly the reference list, in order, and comes back to the head. -/
theorem C13_state_lists_walk (hA hB : Nat) (hAB : hA ≠ hB) (ops : List StepModel.GenNodeList.Op)
    (hc : ∀ o ∈ ops, o.node ≠ hA ∧ o.node ≠ hB) :
    ∃ w, StepModel.GenNodeList.run (StepModel.GenNodeList.World.init hA hB) ops = some w ∧
      StepModel.GenNodeList.walk w.heap hA ((StepModel.GenNodeList.refRun ⟨[], []⟩ ops).a.length + 1) hA = some (StepModel.GenNodeList.refRun ⟨[], []⟩ ops).a ∧
      StepModel.GenNodeList.walk w.heap hB ((StepModel.GenNodeList.refRun ⟨[], []⟩ ops).b.length + 1) hB = some (StepModel.GenNodeList.refRun ⟨[], []⟩ ops).b := by
  obtain ⟨w, e, hw⟩ := C13_state_lists_refine hA hB hAB ops hc
  exact ⟨w, e, StepModel.GenNodeList.ring_walk hw.1, StepModel.GenNodeList.ring_walk hw.2.1⟩

/-- … and the backward traversal (`head->prev`, `->prev`, … back to the head) visits it in reverse: `prev` is the exact
    inverse of `next` on both rings after any history. -/
theorem C13_state_lists_walk_back (hA hB : Nat) (hAB : hA ≠ hB) (ops : List StepModel.GenNodeList.Op)
    (hc : ∀ o ∈ ops, o.node ≠ hA ∧ o.node ≠ hB) :
    ∃ w, StepModel.GenNodeList.run (StepModel.GenNodeList.World.init hA hB) ops = some w ∧
      StepModel.GenNodeList.walkBack w.heap hA ((StepModel.GenNodeList.refRun ⟨[], []⟩ ops).a.length + 1) hA = some (StepModel.GenNodeList.refRun ⟨[], []⟩ ops).a.reverse ∧
      StepModel.GenNodeList.walkBack w.heap hB ((StepModel.GenNodeList.refRun ⟨[], []⟩ ops).b.length + 1) hB = some (StepModel.GenNodeList.refRun ⟨[], []⟩ ops).b.reverse := by
  obtain ⟨w, e, hw⟩ := C13_state_lists_refine hA hB hAB ops hc
  exact ⟨w, e, StepModel.GenNodeList.ring_walkBack hw.1, StepModel.GenNodeList.ring_walkBack hw.2.1⟩

/-- A node is in at most one state list: no history puts a node into both references (so `ChangeList` moves, never copies). -/
theorem C13_state_lists_exclusive (hA hB : Nat) (hAB : hA ≠ hB) (ops : List StepModel.GenNodeList.Op)
    (hc : ∀ o ∈ ops, o.node ≠ hA ∧ o.node ≠ hB) (n : Nat) :
    ¬ (n ∈ (StepModel.GenNodeList.refRun ⟨[], []⟩ ops).a ∧ n ∈ (StepModel.GenNodeList.refRun ⟨[], []⟩ ops).b) := by
  obtain ⟨w, _, hw⟩ := C13_state_lists_refine hA hB hAB ops hc
  intro ⟨h1, h2⟩
  exact hw.2.2.1 n (by simp [h1]) (by simp [h2])

/-- one step, stated on its own: unlinking a member leaves a ring without it and nulls the member's own pointers
    (what `~MgrNode` → `Remove()` relies on before the node's memory is released) -/
theorem C13_state_list_remove (h : StepModel.GenNodeList.Heap) (head n : Nat) (L : List Nat) (hr : StepModel.GenNodeList.Ring h head L) (hn : n ∈ L) :
    StepModel.GenNodeList.Ring (StepModel.GenNodeList.removeSelf h n) head (L.erase n) ∧ StepModel.GenNodeList.removeSelf h n n = StepModel.GenNodeList.Cell.unlinked :=
  ⟨(StepModel.GenNodeList.ring_removeSelf hr hn).1, (StepModel.GenNodeList.ring_removeSelf hr hn).2.1⟩

/-- `GenNodeList::ClearEntries()` on any ring (the loop modelled statement by statement with its look-ahead pointer `gn`):
    it meets no null pointer, terminates within `length + 1` iterations, leaves the empty ring, nulls both pointers of every
    former member and touches no other cell. -/
theorem C13_state_list_clear (h : StepModel.GenNodeList.Heap) (head : Nat) (L : List Nat) (hr : StepModel.GenNodeList.Ring h head L) :
    ∃ h', StepModel.GenNodeList.clearEntriesLoop h head (L.length + 1) = some h' ∧ StepModel.GenNodeList.Ring h' head [] ∧
      (∀ x ∈ L, h' x = StepModel.GenNodeList.Cell.unlinked) ∧ ∀ x, x ∉ head :: L → h' x = h x :=
  StepModel.GenNodeList.ring_clearEntries hr

/-- non-vacuity: a concrete history moving nodes between the lists, checked by evaluation -/
example : (StepModel.GenNodeList.run (StepModel.GenNodeList.World.init 0 1) [.append false 5, .append true 6, .append false 7, .append true 5, .remove 7,
      .append false 6, .append false 6]).map (fun w => (StepModel.GenNodeList.walk w.heap 0 9 0, StepModel.GenNodeList.walk w.heap 1 9 1)) =
    some (some [6], some [5]) := by decide

end StepModel.InstMgr

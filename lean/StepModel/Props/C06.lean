import StepModel.BuffersCore
import StepModel.Generated.C06Buffers
/-!
# C06 — EXPRESS tools are memory-safe and terminate: what Lean carries

Memory safety of C is not provable here; these theorems cover the *modelled* fixed-capacity sites for all inputs,
with capacities / copy bounds / guards regenerated from the source (`Generated.C06`).  Everything else is observed by
the sanitizer correspondence (checks/c06.py), which is testing.

General lemmas are stated for any configuration that passes a decidable static check (`opSafe`, `scopeCfgSafe`,
`errCfgSafe`, …); the `C06_…` theorems instantiate them with the regenerated configuration by evaluation, so a
changed array size, a weakened bound or a removed guard makes the instantiation fail.
`…_witness` theorems record the overflow of the configurations found in the tree before the `fix:` patches
(tree-independent: they name that configuration explicitly).
-/
namespace StepModel.C06
open StepModel.Buffers StepModel.Generated.C06

/-! ## remark buffer -/

def RemarkInv (cap : Nat) (b : Bytes) : Prop := b.length = cap ∧ b.getLast? = some 0

theorem getLast?_append_drop (w b : Bytes) (n : Nat) (h : n < b.length) :
    (w ++ b.drop n).getLast? = b.getLast? := by
  rw [List.getLast?_append, List.getLast?_drop]
  have : ¬ b.length ≤ n := by omega
  simp only [this, if_false]
  cases hb : b.getLast? with
  | none =>
    have : b = [] := List.getLast?_eq_none_iff.mp hb
    subst this; simp at h
  | some x => simp

theorem padTo_length (s : Bytes) (n : Nat) : (padTo s n).length = n := by
  unfold padTo
  simp
  omega

theorem applyOp_safe {cap : Nat} {b src : Bytes} {op : CopyOp} (hs : opSafe cap op = true)
    (hi : RemarkInv cap b) : ∃ b', applyOp b src op = .ok b' ∧ RemarkInv cap b' := by
  obtain ⟨hl, hz⟩ := hi
  cases op with
  | strcpy => simp [opSafe] at hs
  | strncpy n =>
    simp [opSafe] at hs
    have hn : n ≤ b.length := by omega
    refine ⟨padTo src n ++ b.drop n, by simp [applyOp, hn], ?_, ?_⟩
    · simp [padTo_length]; omega
    · rw [getLast?_append_drop _ _ _ (by omega)]; exact hz
  | store0 i =>
    simp [opSafe] at hs
    have hi' : i < b.length := by omega
    refine ⟨b.take i ++ 0 :: b.drop (i + 1), by simp [applyOp, hi'], ?_, ?_⟩
    · simp; omega
    · by_cases hlast : i + 1 < b.length
      · have : b.take i ++ 0 :: b.drop (i + 1) = (b.take i ++ [0]) ++ b.drop (i + 1) := by simp
        rw [this, getLast?_append_drop _ _ _ hlast]; exact hz
      · have : b.drop (i + 1) = [] := by
          apply List.drop_eq_nil_of_le; omega
        rw [this]
        simp

theorem runOps_safe {cap : Nat} {src : Bytes} (ops : List CopyOp) (hs : ops.all (opSafe cap) = true) :
    ∀ b, RemarkInv cap b → ∃ b', runOps b src ops = .ok b' ∧ RemarkInv cap b' := by
  induction ops with
  | nil => intro b hb; exact ⟨b, rfl, hb⟩
  | cons op rest ih =>
    intro b hb
    simp [List.all_cons] at hs
    obtain ⟨b1, h1, hb1⟩ := applyOp_safe (src := src) hs.1 hb
    obtain ⟨b2, h2, hb2⟩ := ih (by simpa using hs.2) b1 hb1
    exact ⟨b2, by simp [runOps, h1, h2], hb2⟩

theorem remarkRun_safe (p : RemarkProg) (h1 : p.semicolon.all (opSafe p.cap) = true)
    (h2 : p.save.all (opSafe p.cap) = true) (calls : List RemarkCall) :
    ∀ b, RemarkInv p.cap b → ∃ b', remarkRun p b calls = .ok b' ∧ RemarkInv p.cap b' := by
  induction calls with
  | nil => intro b hb; exact ⟨b, rfl, hb⟩
  | cons c rest ih =>
    intro b hb
    have : ∃ b1, remarkStep p b c = .ok b1 ∧ RemarkInv p.cap b1 := by
      cases c with
      | semicolon t => exact runOps_safe p.semicolon h1 b hb
      | save t => exact runOps_safe p.save h2 b hb
    obtain ⟨b1, hs, hb1⟩ := this
    obtain ⟨b2, hr, hb2⟩ := ih b1 hb1
    exact ⟨b2, by simp [remarkRun, hs, hr], hb2⟩

theorem remarkInit_inv (p : RemarkProg) (h : 0 < p.cap) : RemarkInv p.cap (remarkInit p) := by
  refine ⟨by simp [remarkInit], ?_⟩
  unfold remarkInit
  obtain ⟨k, hk⟩ : ∃ k, p.cap = k + 1 := ⟨p.cap - 1, by omega⟩
  rw [hk, List.replicate_succ']
  simp

theorem inv_readable {cap : Nat} {b : Bytes} (h : RemarkInv cap b) : readable b = true := by
  obtain ⟨_, hz⟩ := h
  have : (0 : UInt8) ∈ b := List.mem_of_getLast? hz
  simp [readable, this]

/-- the remark program of the current tree -/
def remarkProg : RemarkProg := { cap := remarkCap, semicolon := semicolonOps, save := saveCommentOps }

/-- **C06, `last_comment_`**: for every sequence of `; -- remark` and `-- remark` actions with any texts, no
statement stores outside `last_comment_[]`, and the buffer always holds a terminated string. -/
theorem C06_no_overflow_remark (calls : List RemarkCall) :
    ∃ b, remarkRun remarkProg (remarkInit remarkProg) calls = .ok b ∧ b.length = remarkCap ∧ readable b = true := by
  have h1 : remarkProg.semicolon.all (opSafe remarkProg.cap) = true := by decide
  have h2 : remarkProg.save.all (opSafe remarkProg.cap) = true := by decide
  have h0 : 0 < remarkProg.cap := by decide
  obtain ⟨b, hr, hb⟩ := remarkRun_safe remarkProg h1 h2 calls _ (remarkInit_inv remarkProg h0)
  exact ⟨b, hr, hb.1, inv_readable hb⟩

/-- the converse for an unguarded `strcpy`: any text at least as long as the buffer overflows it -/
theorem strcpy_overflows (b src : Bytes) (h : b.length ≤ (cstr src).length) :
    applyOp b src .strcpy = .overflow b.length := by
  simp [applyOp]
  omega

/-- the tree before `fix: C06-1`: `strcpy` into `last_comment_[256]` — a 256-byte remark overflows -/
theorem C06_remark_strcpy_witness :
    remarkRun { cap := 256, semicolon := [.strcpy], save := [.strncpy 255] } (List.replicate 256 0)
      [.semicolon (List.replicate 256 45)] = .overflow 256 := by
  have hc : cstr (List.replicate 256 (45 : UInt8)) = List.replicate 256 45 := by
    unfold cstr
    rw [List.takeWhile_replicate]
    have : ((45 : UInt8) != 0) = true := by decide
    simp only [this, if_true]
  have := strcpy_overflows (List.replicate 256 (0 : UInt8)) (List.replicate 256 45)
    (by rw [hc]; simp only [List.length_replicate]; exact Nat.le_refl _)
  simp only [List.length_replicate] at this
  simp only [remarkRun, remarkStep, runOps, this]

example : ∃ calls : List RemarkCall, calls ≠ [] := ⟨[.semicolon [45, 45, 10]], by simp⟩

/-! ## scope stack -/

theorem scopeStep_bound {c : ScopeCfg} (hs : scopeCfgSafe c = true) {i : Nat} (hi : i < c.cap) (e : ScopeEv) :
    (∃ j, scopeStep c i e = .ok j ∧ j < c.cap) ∨ scopeStep c i e = .reject ∨ scopeStep c i e = .underflow := by
  unfold scopeCfgSafe at hs
  cases hg : c.guard with
  | none => simp [hg] at hs
  | some l =>
    cases hd : c.dummyGuard with
    | none => simp [hg, hd] at hs
    | some d =>
      simp [hg, hd] at hs
      cases e with
      | push =>
        by_cases hh : l ≤ i
        · right; left; simp [scopeStep, guardHit, hg, hh]
        · left; refine ⟨i + 1, ?_, by omega⟩
          have : i + 1 < c.cap := by omega
          simp [scopeStep, guardHit, hg, hh, this]
      | pushDummy =>
        by_cases hh : d ≤ i
        · right; left; simp [scopeStep, guardHit, hd, hh]
        · left; refine ⟨i + 1, ?_, by omega⟩
          have : i + 1 < c.cap := by omega
          simp [scopeStep, guardHit, hd, hh, this]
      | pop =>
        by_cases h0 : i = 0
        · right; right; simp [scopeStep, h0]
        · left; exact ⟨i - 1, by simp [scopeStep, h0], by omega⟩

theorem scopeRun_no_overflow {c : ScopeCfg} (hs : scopeCfgSafe c = true) (evs : List ScopeEv) :
    ∀ i, i < c.cap → (scopeRun c i evs).isOverflow = false := by
  induction evs with
  | nil => intro i _; rfl
  | cons e rest ih =>
    intro i hi
    rcases scopeStep_bound hs hi e with ⟨j, hj, hjc⟩ | hr | hu
    · simp [scopeRun, hj, ih j hjc]
    · simp [scopeRun, hr, Outcome.isOverflow]
    · simp [scopeRun, hu, Outcome.isOverflow]

/-- **C06, `scopes[]`**: whatever sequence of scope pushes and pops the parser performs (any token stream),
no entry outside `scopes[MAX_SCOPE_DEPTH]` becomes current: the push is refused with a diagnostic first. -/
theorem C06_scope_depth (evs : List ScopeEv) : (scopeRun scopeCfg 0 evs).isOverflow = false :=
  scopeRun_no_overflow (by decide) evs 0 (by decide)

/-- the same for the keyword-level abstraction of a token stream -/
theorem C06_scope_depth_tokens (toks : List ScopeTok) :
    (scopeRun scopeCfg 0 (scopeEvents toks)).isOverflow = false :=
  C06_scope_depth _

/-- every state reached stays below the capacity (so `PREVIOUS_SCOPE`/`CURRENT_SCOPE` reads are in range too) -/
theorem C06_scope_index_in_range (evs : List ScopeEv) (j : Nat) (h : scopeRun scopeCfg 0 evs = .ok j) :
    j < scopeCfg.cap := by
  have key : ∀ (evs : List ScopeEv) (i : Nat), i < scopeCfg.cap → ∀ j, scopeRun scopeCfg i evs = .ok j → j < scopeCfg.cap := by
    intro evs
    induction evs with
    | nil => intro i hi j h; simp [scopeRun] at h; omega
    | cons e rest ih =>
      intro i hi j h
      rcases scopeStep_bound (c := scopeCfg) (by decide) hi e with ⟨k, hk, hkc⟩ | hr | hu
      · simp [scopeRun, hk] at h; exact ih k hkc j h
      · simp [scopeRun, hr] at h
      · simp [scopeRun, hu] at h
  exact key evs 0 (by decide) j h

def pushes (n : Nat) : List ScopeEv := List.replicate n .push

theorem scopeRun_pushes_unguarded (cap : Nat) : ∀ (n i : Nat), i + n < cap →
    scopeRun { cap := cap, guard := none, dummyGuard := none } i (pushes n) = .ok (i + n) := by
  intro n
  induction n with
  | zero => intro i _; simp [pushes, scopeRun]
  | succ n ih =>
    intro i h
    have h1 : i + 1 < cap := by omega
    have := ih (i + 1) (by omega)
    simp only [pushes] at this
    simp [pushes, List.replicate_succ, scopeRun, scopeStep, guardHit, h1, this]
    omega

/-- the tree before `fix: C06-2`: no guard, `scopes[20]` — the 20th nested scope (SCHEMA + 19 FUNCTIONs) is stored
at `scopes[20]` -/
theorem C06_scope_unguarded_witness :
    scopeRun { cap := 20, guard := none, dummyGuard := none } 0 (pushes 20) = .overflow 20 := by
  have h19 := scopeRun_pushes_unguarded 20 19 0 (by omega)
  have : pushes 20 = pushes 19 ++ [.push] := by simp only [pushes]; exact List.replicate_succ'
  rw [this]
  have app : ∀ (evs : List ScopeEv) (i j : Nat) (more : List ScopeEv),
      scopeRun { cap := 20, guard := none, dummyGuard := none } i evs = .ok j →
      scopeRun { cap := 20, guard := none, dummyGuard := none } i (evs ++ more) =
        scopeRun { cap := 20, guard := none, dummyGuard := none } j more := by
    intro evs
    induction evs with
    | nil => intro i j more h; simp [scopeRun] at h; simp [h]
    | cons e rest ih =>
      intro i j more h
      simp only [List.cons_append, scopeRun]
      cases hs : scopeStep { cap := 20, guard := none, dummyGuard := none } i e with
      | ok k => simp [scopeRun, hs] at h; simpa using ih k j more h
      | overflow k => simp [scopeRun, hs] at h
      | underflow => simp [scopeRun, hs] at h
      | reject => simp [scopeRun, hs] at h
  rw [app _ 0 19 _ (by simpa using h19)]
  simp [scopeRun, scopeStep, guardHit]

example : scopeRun scopeCfg 0 [.push, .push, .pop, .pop] = .ok 0 := by decide

/-! ## buffered diagnostics -/

def ErrInv (c : ErrCfg) (n : Nat) (s : ErrState) : Prop := s.count < n ∧ s.used ≤ c.span

theorem errPrint_bound {c : ErrCfg} (hb : c.boundedPrint = true) (hc : c.clampOnTruncation = true)
    (ha : c.span ≤ c.allocated) {u : Nat} (hu : u ≤ c.span) (len : Nat) :
    ∃ u', errPrint c u len = some u' ∧ u' ≤ c.span := by
  unfold errPrint
  simp only [hb, hc, if_true]
  have h1 : ¬ c.span < u := by omega
  have h2 : ¬ c.allocated < u + min (len + 1) (c.span - u) := by
    have : min (len + 1) (c.span - u) ≤ c.span - u := Nat.min_le_right _ _
    omega
  simp only [h1, h2, if_false]
  by_cases h3 : c.span - u < len
  · exact ⟨c.span, by simp [h3], Nat.le_refl _⟩
  · exact ⟨u + len, by simp [h3], by omega⟩

theorem errStep_safe {c : ErrCfg} (hs : errCfgSafe c = true) :
    ∃ n, c.countGuard = some n ∧ n + 1 ≤ c.heapSize ∧
      ∀ s e, ErrInv c n s → (∃ s', errStep c s e = .ok s' ∧ ErrInv c n s') ∨ errStep c s e = .reject := by
  unfold errCfgSafe at hs
  cases hg : c.countGuard with
  | none => simp [hg] at hs
  | some n =>
    simp [hg] at hs
    obtain ⟨⟨⟨⟨⟨hb, hc⟩, hn⟩, hw⟩, ha⟩, hh, h1⟩ := hs
    refine ⟨n, rfl, hh, ?_⟩
    intro s e hi
    obtain ⟨hcount, hused⟩ := hi
    cases e with
    | flush => left; exact ⟨⟨0, 0⟩, rfl, by simp [ErrInv]; omega⟩
    | report m =>
      obtain ⟨u1, hp1, hu1⟩ := errPrint_bound hb hc ha hused m.prefixLen
      obtain ⟨u2, hp2, hu2⟩ := errPrint_bound hb hc ha hu1 m.bodyLen
      have hidx : ¬ c.heapSize ≤ s.count + 1 := by omega
      have hnext : ∃ u3, errNext c u2 = some u3 ∧ u3 ≤ c.span := by
        unfold errNext
        by_cases he : u2 = c.span
        · exact ⟨u2, by simp [hn, he], by omega⟩
        · have hfit : ¬ c.allocated < u2 + c.nextWrites := by omega
          refine ⟨u2 + max 1 c.nextWrites, by simp [hn, he, hfit], ?_⟩
          rw [hw]; simp; omega
      obtain ⟨u3, hnx, hu3⟩ := hnext
      simp only [errStep, hidx, if_false, hp1, hp2, hnx]
      cases hfat : m.fatal with
      | true => right; simp
      | false =>
        cases hfin : (spaceHit c u3 || countHit c (s.count + 1)) with
        | true =>
          cases hfc : c.fullContinues with
          | true => left; exact ⟨⟨0, 0⟩, by simp, by simp [ErrInv]; omega⟩
          | false => right; simp
        | false =>
          left
          refine ⟨⟨u3, s.count + 1⟩, by simp, ?_, hu3⟩
          have hne : countHit c (s.count + 1) = false := by
            cases hq : countHit c (s.count + 1) with
            | false => rfl
            | true => simp [hq] at hfin
          have : s.count + 1 ≠ n := by
            simpa [countHit, hg] using hne
          show s.count + 1 < n
          omega

theorem errRun_no_overflow {c : ErrCfg} (hs : errCfgSafe c = true) (evs : List ErrEv) :
    (errRun c ⟨0, 0⟩ evs).isOverflow = false := by
  obtain ⟨n, hg, hh, step⟩ := errStep_safe hs
  have h1 : 1 ≤ n := by
    unfold errCfgSafe at hs
    simp [hg] at hs
    exact hs.2.2
  have key : ∀ (evs : List ErrEv) (s : ErrState), ErrInv c n s → (errRun c s evs).isOverflow = false := by
    intro evs
    induction evs with
    | nil => intro s _; rfl
    | cons e rest ih =>
      intro s hi
      rcases step s e hi with ⟨s', hs', hi'⟩ | hr
      · simp [errRun, hs', ih s' hi']
      · simp [errRun, hr, Outcome.isOverflow]
  exact key evs ⟨0, 0⟩ ⟨by simp; omega, by simp⟩

/-- **C06, error.c**: for every sequence of buffered diagnostics (any message lengths, any severities) and
flushes, neither `heap[]` nor the message buffer is written outside its bounds: the process flushes and exits
at the `ERROR_MAX_ERRORS`-th message, and `vsnprintf` is given the room that is left. -/
theorem C06_error_heap_bounded (evs : List ErrEv) : (errRun errCfg ⟨0, 0⟩ evs).isOverflow = false :=
  errRun_no_overflow (by decide) evs

/-- the heap index used by any report is at most `ERROR_MAX_ERRORS`, which is inside `heap[]` -/
theorem C06_error_heap_index (evs : List ErrEv) (s : ErrState) (h : errRun errCfg ⟨0, 0⟩ evs = .ok s) :
    s.count + 1 < errCfg.heapSize ∧ s.used ≤ errCfg.span := by
  obtain ⟨n, hg, hh, step⟩ := errStep_safe (c := errCfg) (by decide)
  have key : ∀ (evs : List ErrEv) (s0 : ErrState), ErrInv errCfg n s0 → ∀ s, errRun errCfg s0 evs = .ok s → ErrInv errCfg n s := by
    intro evs
    induction evs with
    | nil => intro s0 hi s h; simp [errRun] at h; rw [← h]; exact hi
    | cons e rest ih =>
      intro s0 hi s h
      rcases step s0 e hi with ⟨s', hs', hi'⟩ | hr
      · simp [errRun, hs'] at h; exact ih s' hi' s h
      · simp [errRun, hr] at h
  have hn : 1 ≤ n := by
    have : errCfgSafe errCfg = true := by decide
    unfold errCfgSafe at this
    simp [hg] at this
    exact this.2.2
  have := key evs ⟨0, 0⟩ ⟨by simp; omega, by simp⟩ s h
  exact ⟨by have := this.1; omega, this.2⟩

example : errRun errCfg ⟨0, 0⟩ [.report ⟨20, 30, false⟩, .flush] = .ok ⟨0, 0⟩ := by decide

/-! ## `ERRORset_warning` -/

theorem setWarning_guarded (name : String) (tab : List (String × Bool × Option String)) :
    ∀ found, ∃ f, setWarning true name tab found = .done f := by
  induction tab with
  | nil => intro found; exact ⟨found, rfl⟩
  | cons row rest ih =>
    intro found
    obtain ⟨code, warn, cls⟩ := row
    cases warn with
    | false => simpa [setWarning] using ih found
    | true =>
      cases cls with
      | none => simpa [setWarning] using ih found
      | some c => simpa [setWarning] using ih (found || c == name)

theorem setWarning_no_null (name : String) (tab : List (String × Bool × Option String))
    (h : tab.all (fun r => !r.2.1 || r.2.2.isSome) = true) (g : Bool) :
    ∀ found, ∃ f, setWarning g name tab found = .done f := by
  induction tab with
  | nil => intro found; exact ⟨found, rfl⟩
  | cons row rest ih =>
    intro found
    obtain ⟨code, warn, cls⟩ := row
    simp [List.all_cons] at h
    have ih' := ih (by simpa using h.2)
    cases warn with
    | false => simpa [setWarning] using ih' found
    | true =>
      cases cls with
      | none => simp at h
      | some c => simpa [setWarning] using ih' (found || c == name)

/-- **C06, `-w` / `-i`**: `ERRORset_warning` never passes a NULL class name to `strcmp`, for any option argument
(either the comparison is guarded, or no entry of severity ≤ WARNING has a NULL class). -/
theorem C06_setwarning_total (name : String) :
    ∃ f, setWarning setWarningNameGuard name libErrorClasses false = .done f := by
  by_cases hg : setWarningNameGuard = true
  · rw [hg]; exact setWarning_guarded name _ false
  · exact setWarning_no_null name _ (by revert hg; decide) _ false

/-- the tree before `fix: C20-2` (no guard, IMPLICIT_DOWNCAST … have classes, INTEGER_EXPRESSION_EXPECTED has none) -/
theorem C06_setwarning_unguarded_witness :
    setWarning false "downcast" [("INTEGER_EXPRESSION_EXPECTED", true, none), ("IMPLICIT_DOWNCAST", true, some "downcast")] false
      = .nullDeref "INTEGER_EXPRESSION_EXPECTED" := by decide

/-! ## exppp formatting buffers -/

theorem fmtOut_sized_exact (cap size me se len : Nat) (h1 : size ≤ cap) (_h2 : 1 ≤ me) (h3 : 1 ≤ se) (h4 : se ≤ me) :
    fmtOut { cap := cap, call := .sized size me se } len = .ok len := by
  unfold fmtOut
  simp only
  have a : ¬ cap < min (len + 1) size := by
    have : min (len + 1) size ≤ size := Nat.min_le_right _ _
    omega
  simp only [a, if_false]
  by_cases hl : len < size
  · simp [hl]
  · have b : ¬ len + me < min (len + 1) (len + se) := by
      have : min (len + 1) (len + se) ≤ len + 1 := Nat.min_le_left _ _
      omega
    have c : min len (len + se - 1) = len := by
      apply Nat.min_eq_left; omega
    rw [if_neg hl, if_neg b, c]

def fmtCfgExact (c : FmtCfg) : Bool :=
  match c.call with
  | .sized size me se => decide (size ≤ c.cap) && decide (1 ≤ me) && decide (1 ≤ se) && decide (se ≤ me)
  | _ => false

theorem fmtOut_exact_of_check (c : FmtCfg) (h : fmtCfgExact c = true) (len : Nat) : fmtOut c len = .ok len := by
  obtain ⟨cap, call⟩ := c
  cases call with
  | vsprintf => simp [fmtCfgExact] at h
  | vsnprintfTrunc s => simp [fmtCfgExact] at h
  | sized size me se =>
    simp [fmtCfgExact] at h
    exact fmtOut_sized_exact cap size me se len h.1.1.1 h.1.1.2 h.1.2 h.2

/-- **C06, exppp `wrap()`**: a fragment of any formatted length is stored inside the buffer it is formatted
into, and arrives complete (not truncated). -/
theorem C06_no_overflow_wrap (len : Nat) : fmtOut wrapFmt len = .ok len :=
  fmtOut_exact_of_check wrapFmt (by decide) len

/-- **C06, exppp `raw()`**: same. -/
theorem C06_no_overflow_raw (len : Nat) : fmtOut rawFmt len = .ok len :=
  fmtOut_exact_of_check rawFmt (by decide) len

/-- the tree before `fix: C06-3`: `vsprintf` into `buf[10000]` — a 10 000-character fragment overflows -/
theorem C06_fmt_vsprintf_witness : fmtOut { cap := 10000, call := .vsprintf } 10000 = .overflow 10000 := by decide

theorem fmtOut_vsprintf_iff (cap len : Nat) :
    (fmtOut { cap := cap, call := .vsprintf } len).isOverflow = true ↔ cap ≤ len := by
  unfold fmtOut
  by_cases h : len + 1 ≤ cap
  · simp [h, Outcome.isOverflow]; omega
  · simp [h, Outcome.isOverflow]; omega

def lineCfgSafe (c : LineCfg) : Bool :=
  match c.alloc with
  | .fixed => false
  | .mallocAbove te me => decide (2 ≤ me) && decide (2 ≤ te)

theorem lineOut_safe (c : LineCfg) (h : lineCfgSafe c = true) (indent2 : Nat) : lineOut c indent2 = .ok (indent2 + 1) := by
  obtain ⟨cap, alloc⟩ := c
  cases alloc with
  | fixed => simp [lineCfgSafe] at h
  | mallocAbove te me =>
    simp [lineCfgSafe] at h
    unfold lineOut
    simp only
    by_cases hc : cap < indent2 + te
    · have : indent2 + 2 ≤ indent2 + me := by omega
      simp [hc, this]
    · have : indent2 + 2 ≤ cap := by omega
      simp [hc, this]

/-- **C06, exppp continuation line**: for every indentation (≥ 0) the `"\n%*s"` line fits its buffer. -/
theorem C06_no_overflow_wrap_line (indent2 : Nat) : lineOut lineCfg indent2 = .ok (indent2 + 1) :=
  lineOut_safe lineCfg (by decide) indent2

theorem C06_line_fixed_witness : lineOut { cap := 1000, alloc := .fixed } 999 = .overflow 1000 := by decide

/-! ## `EXPRlength` -/

mutual
theorem PExpr.strLen_le_bound (fmax smax wfac base per kf : Nat) (hb : fmax ≤ base) (hp : smax ≤ per) (hk : wfac ≤ kf) :
    ∀ e : PExpr, e.wf fmax smax wfac → e.strLen ≤ e.bound base per kf true
  | .leaf f n x, h => by
    simp only [PExpr.wf] at h
    have : wfac * n ≤ kf * n := Nat.mul_le_mul_right n hk
    simp only [PExpr.strLen, PExpr.bound]; omega
  | .query f n a b, h => by
    simp only [PExpr.wf] at h
    have ha := PExpr.strLen_le_bound fmax smax wfac base per kf hb hp hk a h.2.1
    have hb' := PExpr.strLen_le_bound fmax smax wfac base per kf hb hp hk b h.2.2
    simp only [PExpr.strLen, PExpr.bound]; omega
  | .funcall f n as, h => by
    simp only [PExpr.wf] at h
    have ha := PArgs.strLen_le_bound fmax smax wfac base per kf hb hp hk as h.2
    simp only [PExpr.strLen, PExpr.bound]; omega
  | .op f a b, h => by
    simp only [PExpr.wf] at h
    have ha := PExpr.strLen_le_bound fmax smax wfac base per kf hb hp hk a h.2.1
    have hb' := PExpr.strLen_le_bound fmax smax wfac base per kf hb hp hk b h.2.2
    simp only [PExpr.strLen, PExpr.bound]; omega
  | .list f as, h => by
    simp only [PExpr.wf] at h
    have ha := PArgs.strLen_le_bound fmax smax wfac base per kf hb hp hk as h.2
    simp only [PExpr.strLen, PExpr.bound]; omega
theorem PArgs.strLen_le_bound (fmax smax wfac base per kf : Nat) (hb : fmax ≤ base) (hp : smax ≤ per) (hk : wfac ≤ kf) :
    ∀ as : PArgs, as.wf fmax smax wfac → as.strLen ≤ as.bound base per kf true
  | .nil, _ => by simp [PArgs.strLen, PArgs.bound]
  | .cons s e r, h => by
    simp only [PArgs.wf] at h
    have he := PExpr.strLen_le_bound fmax smax wfac base per kf hb hp hk e h.2.1
    have hr := PArgs.strLen_le_bound fmax smax wfac base per kf hb hp hk r h.2.2
    simp only [PArgs.strLen, PArgs.bound]; omega
  | .rep s e r, h => by
    simp only [PArgs.wf] at h
    have he := PExpr.strLen_le_bound fmax smax wfac base per kf hb hp hk e h.2.1
    have hr := PArgs.strLen_le_bound fmax smax wfac base per kf hb hp hk r h.2.2
    simp only [PArgs.strLen, PArgs.bound, if_true]; omega
end

def exprLenCfgSafe (c : ExprLenCfg) (fmax smax wfac : Nat) : Bool :=
  c.sized && decide (fmax ≤ c.base) && decide (smax ≤ c.perArg) && decide (1 ≤ c.needExtra) && decide (wfac ≤ c.nameFactor) &&
    c.repeatCounted

theorem exprLenOut_safe (c : ExprLenCfg) (fmax smax wfac : Nat) (h : exprLenCfgSafe c fmax smax wfac = true)
    (e : PExpr) (hw : e.wf fmax smax wfac) : exprLenOut c e = .ok e.strLen := by
  simp [exprLenCfgSafe] at h
  obtain ⟨⟨⟨⟨⟨hs, hb⟩, hp⟩, hn⟩, hk⟩, hr⟩ := h
  have hle := PExpr.strLen_le_bound fmax smax wfac c.base c.perArg c.nameFactor hb hp hk e hw
  unfold exprLenOut
  simp only [hs, hr, Bool.true_and]
  by_cases hc : c.cap < e.bound c.base c.perArg c.nameFactor true + c.needExtra
  · have : e.strLen + 1 ≤ e.bound c.base c.perArg c.nameFactor true + c.needExtra := by omega
    simp [hc, this]
  · have : e.strLen + 1 ≤ c.cap := by omega
    simp [hc, this]

/-- **C06, exppp `EXPRlength`**: for every printable expression tree whose per-node fixed text, list separators and bytes
per character of a literal are within what `EXPRstring` emits (regenerated from EXPRstring), `EXPRstring` stays inside the
buffer that `EXPRlength` sizes with `EXPRstring_bound` (constants regenerated from EXPRstring_bound): producer and capacity
agree for every literal; identifiers, strings and binary literals may be arbitrarily long, nesting arbitrarily deep,
repetition counts `[ x : count ]` of aggregate initialisers included (`PArgs.rep`: the bound must be taken of the count
expression the writer prints, regenerated as `repeatCounted`). -/
theorem C06_no_overflow_exprlength (e : PExpr) (hw : e.wf exprFixedMax exprSepMax exprNameWriteFactor) :
    exprLenOut exprLenCfg e = .ok e.strLen :=
  exprLenOut_safe exprLenCfg exprFixedMax exprSepMax exprNameWriteFactor (by decide) e hw

/-- **C06, `EXPRstring` and `EXPRstring_bound` descend into the same sub-expressions**, expression kind by expression kind
(regenerated by comparing the `case` blocks of the two functions: every argument of a recursive `EXPRstring( …, X )` —
`EXPRop_string` counted as `e->e.op1`, `e->e.op2` — must be an argument of `EXPRstring_bound( X )` under the same label).
This is what lets the model give one tree to both functions; the repetition count of an aggregate initialiser, where the
list holds a wrapper node, is modelled separately (`PArgs.rep`, `repeatCounted`). -/
theorem C06_exprlength_children_agree : exprChildMismatch = [] := by decide

/-- the tree before `fix: C06-3`: fixed `buffer[10000]` — a 10 000-character attribute name overflows -/
theorem C06_exprlength_fixed_witness :
    exprLenOut { cap := 10000, sized := false, base := 0, perArg := 0, needExtra := 0, nameFactor := 1, repeatCounted := true } (.leaf 0 10000 0) = .overflow 10000 := by
  decide

/-- seeded regression C06-d2: EXPRstring doubles every apostrophe of a string literal (2 bytes per character at most, plus
the two enclosing ones) while EXPRstring_bound still counts the text once: 6000 apostrophes need 12 002 bytes, the block has 6129 -/
theorem C06_exprlength_apostrophes_witness :
    exprLenOut { cap := 10000, sized := true, base := 128, perArg := 3, needExtra := 1, nameFactor := 1, repeatCounted := true } (.leaf 2 6000 6000) = .overflow 10000 := by
  decide

/-- the tree before C06-43 (audit finding C06-1): for `[ 0 : count ]` EXPRstring_bound looked at the wrapper node (128 bytes)
while EXPRstring prints the count expression: a 20 000-character identifier as count overflows `sbuffer[10000]` -/
theorem C06_exprlength_repeat_witness :
    exprLenOut { cap := 10000, sized := true, base := 128, perArg := 3, needExtra := 1, nameFactor := 1, repeatCounted := false }
      (.list 2 (.cons 0 (.leaf 1 0 0) (.rep 3 (.leaf 0 20000 0) .nil))) = .overflow 10000 := by
  decide

example : (PExpr.funcall 3 4 (.cons 0 (.leaf 0 9 0) (.cons 2 (.leaf 1 0 0) .nil))).wf exprFixedMax exprSepMax exprNameWriteFactor := by
  simp [PExpr.wf, PArgs.wf]; decide

/-! ## exp2cxx / exp2python case-conversion buffers and the identifier gate -/

theorem loopOut_small (c : LoopCfg) (len : Nat) (h : len < c.cap) : loopOut c len = .ok (match c.limit with | some l => min len l | none => len) := by
  unfold loopOut
  cases hl : c.limit with
  | none => simp [h]
  | some l =>
    have : min len l < c.cap := Nat.lt_of_le_of_lt (Nat.min_le_left _ _) h
    simp [this]

/-- a bounded loop (`i < L`, `L < cap`) is safe for every name -/
theorem loopOut_bounded (cap l len : Nat) (h : l < cap) : (loopOut { cap := cap, limit := some l } len).isOverflow = false := by
  unfold loopOut
  have : min len l < cap := Nat.lt_of_le_of_lt (Nat.min_le_right _ _) h
  simp [this, Outcome.isOverflow]

def loopCfgSafe (c : LoopCfg) : Bool :=
  match c.limit with | some l => decide (l < c.cap) | none => false

theorem loopOut_safe (c : LoopCfg) (h : loopCfgSafe c = true) (len : Nat) : (loopOut c len).isOverflow = false := by
  obtain ⟨cap, limit⟩ := c
  cases limit with
  | none => simp [loopCfgSafe] at h
  | some l => simp [loopCfgSafe] at h; exact loopOut_bounded cap l len h

/-- **C06, `StrToLower`/`StrToUpper`/`StrToConstant` of exp2cxx and exp2python**: for a name of any length the loop
stores only inside `newword[MAX_LEN+1]` (loop bound and terminator index below the capacity). -/
theorem C06_no_overflow_case_fns (fn : String) (c : LoopCfg) (hm : (fn, c) ∈ caseFns) (len : Nat) :
    (loopOut c len).isOverflow = false := by
  have hall : caseFns.all (fun p => loopCfgSafe p.2) = true := by decide
  have := List.all_eq_true.mp hall (fn, c) hm
  exact loopOut_safe c this len

/-- **C06, identifier gate**: in both generators an identifier longer than the gate's limit is refused before any
name buffer is touched, and every string of up to limit + 40 characters (an accepted identifier plus the prefixes and
suffixes the generators add) is case-converted completely — the bounded loops never truncate an accepted name. -/
theorem C06_ident_gate (tool : String) (g maxlen : Nat) (hg : (tool, some g, maxlen) ∈ identGates)
    (fn : String) (c : LoopCfg) (hm : (fn, c) ∈ caseFns) (len : Nat) :
    (g < len → gatedLoopOut (some g) c len = .reject) ∧ (len ≤ g + 40 → loopOut c len = .ok len) := by
  have hall : identGates.all (fun t => match t.2.1 with | some g => caseFns.all (fun p =>
      match p.2.limit with | some l => decide (g + 40 ≤ l) && decide (l < p.2.cap) | none => false) | none => false) = true := by decide
  have h1 := List.all_eq_true.mp hall (tool, some g, maxlen) hg
  simp only at h1
  have h2 := List.all_eq_true.mp h1 (fn, c) hm
  constructor
  · intro h; simp [gatedLoopOut, h]
  · intro h
    obtain ⟨cap, limit⟩ := c
    cases limit with
    | none => simp at h2
    | some l =>
      simp at h2
      unfold loopOut
      have hmin : min len l = len := Nat.min_eq_left (by omega)
      have : len < cap := by omega
      simp [hmin, this]

/-- both generators have the gate -/
theorem C06_ident_gate_present : identGates.all (fun t => t.2.1.isSome) = true ∧ identGates.length = 2 := by decide

/-- the unbounded loop into `newword[241]` (tree before `fix: C06-10/11`): a 241-character identifier overflows -/
theorem C06_case_fns_unbounded_witness : loopOut { cap := 241, limit := none } 241 = .overflow 241 := by decide

/-! ## exp2cxx `TypeDescription` -/

theorem descAppend_bounded (c : DescCfg) (hb : c.bounded = true) (used len : Nat) (hu : used + 1 ≤ c.cap) :
    ∃ u, descAppend c used len = .ok u ∧ u + 1 ≤ c.cap := by
  unfold descAppend
  simp only [hb, if_true]
  by_cases h : used + 1 < c.cap
  · refine ⟨used + min len (c.cap - 1 - used), by simp [h], ?_⟩
    have : min len (c.cap - 1 - used) ≤ c.cap - 1 - used := Nat.min_le_right _ _
    omega
  · exact ⟨used, by simp [h], hu⟩

/-- **C06, exp2cxx `TypeDescription`**: whatever pieces (type names, enumeration items, select members, bounds, any
number and length) are appended to the description, nothing is stored outside `buf[TYPE_DESCRIPTION_SIZE]`. -/
theorem C06_no_overflow_type_description (pieces : List Nat) :
    ∃ u, descRun descCfg 0 pieces = .ok u ∧ u + 1 ≤ descCfg.cap := by
  have hb : descCfg.bounded = true := by decide
  have key : ∀ (ps : List Nat) (used : Nat), used + 1 ≤ descCfg.cap → ∃ u, descRun descCfg used ps = .ok u ∧ u + 1 ≤ descCfg.cap := by
    intro ps
    induction ps with
    | nil => intro used hu; exact ⟨used, rfl, hu⟩
    | cons l rest ih =>
      intro used hu
      obtain ⟨u1, h1, hu1⟩ := descAppend_bounded descCfg hb used l hu
      obtain ⟨u2, h2, hu2⟩ := ih u1 hu1
      exact ⟨u2, by simp [descRun, h1, h2], hu2⟩
  exact key pieces 0 (by decide)

/-- the tree before `fix: C06-14`: plain `strcat` into `buf[6000]` — pieces totalling 6000 characters overflow
(e.g. 610 enumeration items of 8 characters with their ", " separators) -/
theorem C06_type_description_unbounded_witness :
    descRun { cap := 6000, bounded := false } 0 [17, 5973, 10] = .overflow 6000 := by decide

/-! ## exppp output file name -/

def fileNameCfgSafe (c : FileNameCfg) : Bool :=
  match c.guard with | some g => decide (c.ext + c.app + 1 ≤ g) | none => false

/-- **C06, exppp `SCHEMAout`**: for a schema name of any length the generated file name (with ".exp" and a possible
".pp") is stored inside `exppp_filename_buffer[]`, or the name is refused with a diagnostic. -/
theorem C06_no_overflow_exppp_filename (len : Nat) : (fileNameOut fileNameCfg len).isOverflow = false := by
  have h : fileNameCfgSafe fileNameCfg = true := by decide
  unfold fileNameCfgSafe at h
  cases hg : fileNameCfg.guard with
  | none => simp [hg] at h
  | some g =>
    simp [hg] at h
    unfold fileNameOut
    simp only [hg]
    by_cases h1 : fileNameCfg.cap < len + g
    · simp [h1, Outcome.isOverflow]
    · have : len + fileNameCfg.ext + fileNameCfg.app + 1 ≤ fileNameCfg.cap := by omega
      simp [h1, this, Outcome.isOverflow]

theorem C06_exppp_filename_unguarded_witness :
    fileNameOut { cap := 1000, ext := 4, app := 3, guard := none } 996 = .overflow 1000 := by decide

/-! ## recursion over the supertype relation -/

theorem notIn_of_mem {m : List Nat} {x : Nat} (h : x ∈ m) : notIn m x = false := by simp [notIn, h]
theorem notIn_of_not_mem {m : List Nat} {x : Nat} (h : x ∉ m) : notIn m x = true := by simp [notIn, h]

theorem unmarked_mono (u m m' : List Nat) (h : ∀ x, x ∈ m → x ∈ m') : unmarked u m' ≤ unmarked u m := by
  unfold unmarked
  induction u with
  | nil => simp
  | cons a t ih =>
    by_cases ha : a ∈ m
    · rw [List.filter_cons, List.filter_cons, notIn_of_mem ha, notIn_of_mem (h a ha)]
      simpa using ih
    · by_cases hb : a ∈ m'
      · rw [List.filter_cons, List.filter_cons, notIn_of_not_mem ha, notIn_of_mem hb]
        simp; omega
      · rw [List.filter_cons, List.filter_cons, notIn_of_not_mem ha, notIn_of_not_mem hb]
        simp; exact ih

theorem unmarked_lt (u m : List Nat) (e : Nat) (he : e ∈ u) (hm : e ∉ m) : unmarked u (e :: m) < unmarked u m := by
  induction u with
  | nil => simp at he
  | cons a t ih =>
    have mono := unmarked_mono t m (e :: m) (fun x hx => List.mem_cons_of_mem _ hx)
    unfold unmarked at mono ih ⊢
    by_cases hae : a = e
    · subst hae
      rw [List.filter_cons, List.filter_cons, notIn_of_not_mem hm, notIn_of_mem (List.mem_cons_self)]
      simp; omega
    · have het : e ∈ t := by
        cases he with
        | head => exact absurd rfl hae
        | tail _ h => exact h
      have := ih het
      by_cases ha : a ∈ m
      · rw [List.filter_cons, List.filter_cons, notIn_of_mem ha, notIn_of_mem (List.mem_cons_of_mem _ ha)]
        simpa using this
      · have : a ∉ e :: m := by simp [hae, ha]
        rw [List.filter_cons, List.filter_cons, notIn_of_not_mem ha, notIn_of_not_mem this]
        simp; omega

def Closed (u : List Nat) (h : Hier) : Prop := ∀ x, x ∈ u → ∀ y, y ∈ h x → y ∈ u

/-- the loop over supertypes, given that single visits with this fuel succeed on unmarked entities -/
theorem visitSupers_ok (u : List Nat) (h : Hier) (fuel : Nat)
    (IH : ∀ marked e, e ∈ u → e ∉ marked → unmarked u marked ≤ fuel →
      ∃ m, visit true h fuel marked e = some m ∧ ∀ x, x ∈ marked → x ∈ m) :
    ∀ (rest marked : List Nat), (∀ y, y ∈ rest → y ∈ u) → unmarked u marked ≤ fuel →
      ∃ m, visitSupers true h fuel marked rest = some m ∧ ∀ x, x ∈ marked → x ∈ m := by
  intro rest
  induction rest with
  | nil => intro marked _ _; exact ⟨marked, by simp [visitSupers], fun x hx => hx⟩
  | cons s rest ih =>
    intro marked hu hf
    by_cases hs : s ∈ marked
    · obtain ⟨m, hm, hsub⟩ := ih marked (fun y hy => hu y (List.mem_cons_of_mem _ hy)) hf
      exact ⟨m, by simp [visitSupers, hs, hm], hsub⟩
    · obtain ⟨m1, h1, hsub1⟩ := IH marked s (hu s List.mem_cons_self) hs hf
      have hf1 : unmarked u m1 ≤ fuel := Nat.le_trans (unmarked_mono u marked m1 hsub1) hf
      obtain ⟨m2, h2, hsub2⟩ := ih m1 (fun y hy => hu y (List.mem_cons_of_mem _ hy)) hf1
      exact ⟨m2, by simp [visitSupers, hs, h1, h2], fun x hx => hsub2 x (hsub1 x hx)⟩

theorem visit_ok (u : List Nat) (h : Hier) (hc : Closed u h) :
    ∀ (fuel : Nat) (marked : List Nat) (e : Nat), e ∈ u → e ∉ marked → unmarked u marked ≤ fuel →
      ∃ m, visit true h fuel marked e = some m ∧ ∀ x, x ∈ marked → x ∈ m := by
  intro fuel
  induction fuel with
  | zero =>
    intro marked e he hm hf
    have := unmarked_lt u marked e he hm
    omega
  | succ fuel IH =>
    intro marked e he hm hf
    have hlt := unmarked_lt u marked e he hm
    obtain ⟨m, hv, hsub⟩ := visitSupers_ok u h fuel IH (h e) (e :: marked) (hc e he) (by omega)
    exact ⟨m, by simp [visit, hv], fun x hx => hsub x (List.mem_cons_of_mem _ hx)⟩

/-- top level: the function is called for every entity, marked or not -/
theorem visit_terminates (u : List Nat) (h : Hier) (hc : Closed u h) (marked : List Nat) (e : Nat) (he : e ∈ u) :
    ∃ m, visit true h (u.length + 1) marked e = some m := by
  have hu : unmarked u (e :: marked) ≤ u.length := by
    unfold unmarked; exact List.length_filter_le _ _
  obtain ⟨m, hv, _⟩ := visitSupers_ok u h u.length (visit_ok u h hc u.length) (h e) (e :: marked) (hc e he) hu
  exact ⟨m, by simp [visit, hv]⟩

/-- without the mark an entity that names itself never returns, whatever the fuel -/
theorem visit_unmarked_self_loop (fuel : Nat) : visit false (fun _ => [0]) fuel [] 0 = none := by
  induction fuel with
  | zero => simp [visit]
  | succ n ih => simp [visit, visitSupers, ih]

theorem nuBody_false_le (sep : Nat) : ∀ (ks : List Nat) (fs : List Bool), nuBody sep false ks fs ≤ ks.sum + sep * ks.length
  | [], _ => by simp [nuBody]
  | _ :: _, [] => by simp [nuBody]
  | k :: ks, f :: fs => by
    have ih := nuBody_false_le sep ks fs
    cases f with
    | true => simp [nuBody, Nat.mul_add]; omega
    | false => simp [nuBody, Nat.mul_add]; omega

theorem nuBody_true_le (sep : Nat) : ∀ (ks : List Nat) (fs : List Bool), nuBody sep true ks fs ≤ ks.sum + sep * (ks.length - 1)
  | [], _ => by simp [nuBody]
  | _ :: _, [] => by simp [nuBody]
  | k :: ks, f :: fs => by
    cases f with
    | true =>
      have := nuBody_false_le sep ks fs
      simp [nuBody]; omega
    | false =>
      have ih := nuBody_true_le sep ks fs
      have : sep * (ks.length - 1) ≤ sep * ks.length := Nat.mul_le_mul_left _ (Nat.sub_le _ _)
      simp [nuBody]; omega

theorem nonUniqueLen_le_max (c : NonUniqueCfg) (flags : List Bool) : nonUniqueLen c flags ≤ nonUniqueMax c := by
  unfold nonUniqueLen nonUniqueMax
  have hb := nuBody_true_le c.sepLen c.kinds flags
  simp only
  split <;> omega

/-- **C06, `ENTITYcalculate_inheritance`**: on every supertype relation over a finite set of entities — cyclic ones
(an entity naming itself, a → c → b → a, cycles with ancestors outside) included — the recursion returns: with fuel
`|entities| + 1` the model never runs out.  Depends on the regenerated fact that the entity is marked before its
supertypes are walked. -/
theorem C06_inheritance_terminates (u : List Nat) (h : Hier) (hc : Closed u h) (marked : List Nat) (e : Nat) (he : e ∈ u) :
    ∃ m, visit inheritanceMarkFirst h (u.length + 1) marked e = some m := by
  have hm : inheritanceMarkFirst = true := by decide
  rw [hm]; exact visit_terminates u h hc marked e he

/-- **C06, the OVERLOADED_ATTR look-up of `ENTITYresolve_expressions`** (walks supertypes of entities outside a reported cycle):
same statement, from the regenerated `search_id` mark. -/
theorem C06_named_attribute_terminates (u : List Nat) (h : Hier) (hc : Closed u h) (marked : List Nat) (e : Nat) (he : e ∈ u) :
    ∃ m, visit namedAttrMarkFirst h (u.length + 1) marked e = some m := by
  have hm : namedAttrMarkFirst = true := by decide
  rw [hm]; exact visit_terminates u h hc marked e he

/-- the recursion without the mark (seeded regression C06-a1; `ENTITYget_named_attribute` before `fix: C06-17`):
an entity that is its own supertype is never left, whatever the fuel -/
theorem C06_recursion_unmarked_witness (fuel : Nat) : visit false (fun _ => [0]) fuel [] 0 = none :=
  visit_unmarked_self_loop fuel

example : Closed [0, 1, 2] (fun i => [(i + 1) % 3]) := by
  intro x hx y hy
  simp at hx hy
  rcases hx with rfl | rfl | rfl <;> simp_all

/-! ## `non_unique_types_string` -/

/-- **C06, `non_unique_types_string`** (exp2cxx and exp2python): whichever kinds of underlying type a select reaches twice,
the string built with unchecked `strcat` fits the malloc'ed block: capacity ≥ longest possible result + 1, both
regenerated (malloc argument; literals of the strcat calls). -/
theorem C06_no_overflow_non_unique_types (tool : String) (c : NonUniqueCfg) (hm : (tool, c) ∈ nonUniqueCfgs)
    (flags : List Bool) : nonUniqueOut c flags = .ok (nonUniqueLen c flags) := by
  have hall : nonUniqueCfgs.all (fun p => decide (nonUniqueMax p.2 + 1 ≤ p.2.cap)) = true := by decide
  have hc := List.all_eq_true.mp hall (tool, c) hm
  simp only [decide_eq_true_eq] at hc
  have := nonUniqueLen_le_max c flags
  unfold nonUniqueOut
  have : nonUniqueLen c flags + 1 ≤ c.cap := by omega
  simp [this]

/-- seeded regression C06-a2: 95 bytes, all eight kinds reached twice → 107 characters + NUL -/
theorem C06_non_unique_types_witness :
    nonUniqueOut { cap := 95, openLen := 1, sepLen := 3, zeroLen := 1, closeLen := 1, kinds := [11, 8, 10, 10, 15, 12, 8, 10] }
      [true, true, true, true, true, true, true, true] = .overflow 95 := by decide

/-! ## exppp print-to-string mode -/

def StrBufInv (c : StrBufCfg) (s : StrBufState) : Prop := s.used + s.remaining = c.room ∧ s.terminated = true

def strBufCfgSafe (c : StrBufCfg) : Bool :=
  decide (c.policy = .drop) && decide (c.copyExtra = 1) && decide (c.room + 1 ≤ c.allocated)

theorem strBufStep_safe (c : StrBufCfg) (h : strBufCfgSafe c = true) (s : StrBufState) (l : Nat) (hi : StrBufInv c s) :
    ∃ s', strBufStep c s l = .ok s' ∧ StrBufInv c s' := by
  simp [strBufCfgSafe] at h
  obtain ⟨⟨hp, he⟩, ha⟩ := h
  obtain ⟨hsum, ht⟩ := hi
  unfold strBufStep
  by_cases hl : s.remaining < l
  · refine ⟨s, by simp [hl, hp], hsum, ht⟩
  · have hfit : ¬ c.allocated < s.used + l + c.copyExtra := by omega
    refine ⟨⟨s.used + l, s.remaining - l, decide (1 ≤ c.copyExtra)⟩, by simp [hl, hfit], ?_, ?_⟩
    · show s.used + l + (s.remaining - l) = c.room
      omega
    · show decide (1 ≤ c.copyExtra) = true
      simp [he]

/-- **C06, exppp string mode** (`EXPRto_string`, `TYPEto_string`, … as used by exp2cxx): for every sequence of printed
chunks of any lengths, `exp_output` stores only inside the malloc'ed block and the string it leaves behind is always
terminated inside the block (a chunk that does not fit is dropped, never half-copied). -/
theorem C06_string_buffer_terminated (chunks : List Nat) :
    ∃ s, strBufRun strBufCfg (strBufInit strBufCfg) chunks = .ok s ∧ s.terminated = true ∧ s.used + 1 ≤ strBufCfg.allocated := by
  have hc : strBufCfgSafe strBufCfg = true := by decide
  have key : ∀ (cs : List Nat) (s0 : StrBufState), StrBufInv strBufCfg s0 →
      ∃ s, strBufRun strBufCfg s0 cs = .ok s ∧ StrBufInv strBufCfg s := by
    intro cs
    induction cs with
    | nil => intro s0 h0; exact ⟨s0, rfl, h0⟩
    | cons l rest ih =>
      intro s0 h0
      obtain ⟨s1, h1, hi1⟩ := strBufStep_safe strBufCfg hc s0 l h0
      obtain ⟨s2, h2, hi2⟩ := ih s1 hi1
      exact ⟨s2, by simp [strBufRun, h1, h2], hi2⟩
  obtain ⟨s, hr, hsum, ht⟩ := key chunks (strBufInit strBufCfg) ⟨by simp [strBufInit], rfl⟩
  have ha : strBufCfg.room + 1 ≤ strBufCfg.allocated := by decide
  exact ⟨s, hr, ht, by omega⟩

/-- seeded regression C06-b2 ("keep the part that fits" but copy `len + 1` bytes): one chunk longer than the room leaves
the buffer without a terminator -/
theorem C06_string_buffer_truncate_witness :
    strBufRun { allocated := 100001, room := 100000, policy := .truncate, copyExtra := 1 } ⟨0, 100000, true⟩ [120000]
      = .ok ⟨100000, 0, false⟩ := by decide

/-! ## qualifier resolution through select types -/

/-- **C06, `x.attr` / `x\\ent` through a SELECT**: `EXP_resolve_op_dot_fuzzy` / `EXP_resolve_op_group_fuzzy` return on every
select graph, circular ones (reported, but resolution goes on) included; depends on the regenerated fact that visited selects
are marked, before the members are searched, with an id that stays fixed during the search. -/
theorem C06_select_qualifier_terminates (u : List Nat) (h : Hier) (hc : Closed u h) (marked : List Nat) (e : Nat) (he : e ∈ u) :
    ∃ m, visit selectSearchMarkStable h (u.length + 1) marked e = some m := by
  have hm : selectSearchMarkStable = true := by decide
  rw [hm]; exact visit_terminates u h hc marked e he

/-! ## INCLUDE buffers -/

def scanCfgSafe (c : ScanCfg) : Bool :=
  match c.guard with | some k => decide (1 ≤ k) && decide (1 ≤ c.cap) | none => false

theorem scanStep_safe (c : ScanCfg) (h : scanCfgSafe c = true) (i : Nat) (hi : i < c.cap) (e : ScanEv) :
    ∃ j, scanStep c i e = .ok j ∧ j < c.cap := by
  unfold scanCfgSafe at h
  cases hg : c.guard with
  | none => simp [hg] at h
  | some k =>
    simp [hg] at h
    cases e with
    | includeMissing => exact ⟨i, rfl, hi⟩
    | newParse => exact ⟨0, rfl, by omega⟩
    | includeFound =>
      by_cases hr : c.cap ≤ i + k
      · exact ⟨i, by simp [scanStep, hg, hr], hi⟩
      · have : i + 1 < c.cap := by omega
        exact ⟨i + 1, by simp [scanStep, hg, hr, this], this⟩

theorem scanRun_safe (c : ScanCfg) (h : scanCfgSafe c = true) (evs : List ScanEv) :
    ∀ i, i < c.cap → ∃ j, scanRun c i evs = .ok j ∧ j < c.cap := by
  induction evs with
  | nil => intro i hi; exact ⟨i, rfl, hi⟩
  | cons e rest ih =>
    intro i hi
    obtain ⟨j, hj, hjc⟩ := scanStep_safe c h i hi e
    obtain ⟨k, hk, hkc⟩ := ih j hjc
    exact ⟨k, by simp [scanRun, hj, hk], hkc⟩

/-- **C06, INCLUDE**: for every sequence of INCLUDE directives (files found or not) and re-initialisations the scan buffer
index stays inside `SCAN_buffers[SCAN_NESTING_DEPTH]` (nothing pops with the perplex scanner; the directive is refused first). -/
theorem C06_no_overflow_scan_buffers (evs : List ScanEv) :
    ∃ j, scanRun scanCfg 0 evs = .ok j ∧ j < scanCfg.cap :=
  scanRun_safe scanCfg (by decide) evs 0 (by decide)

/-- the tree before `fix: C06-20`: the sixth successful INCLUDE is stored at `SCAN_buffers[6]` -/
theorem C06_scan_buffers_unguarded_witness :
    scanRun { cap := 6, guard := none } 0 (List.replicate 6 .includeFound) = .overflow 6 := by decide

/-! ## nested comments -/

theorem commentRun_safe (c : CommentCfg) (h : c.guarded = true) (evs : List CommentEv) :
    ∀ lvl, (commentRun c lvl evs).isOverflow = false := by
  induction evs with
  | nil => intro lvl; rfl
  | cons e rest ih =>
    intro lvl
    cases e with
    | close => simp [commentRun, commentStep, ih]
    | open_ =>
      by_cases hc : c.cap ≤ lvl
      · simp [commentRun, commentStep, h, hc, ih]
      · have : lvl < c.cap := by omega
        simp [commentRun, commentStep, h, hc, this, ih]

/-- **C06, nested comments**: for every sequence of `(*` and `*)` no store goes outside `open_comment[MAX_NESTED_COMMENTS]`
(every store is inside the regenerated `nesting_level < MAX_NESTED_COMMENTS` test, in expscan.l and in the generated scanner). -/
theorem C06_no_overflow_open_comment (evs : List CommentEv) : (commentRun commentCfg 0 evs).isOverflow = false :=
  commentRun_safe commentCfg (by decide) evs 0

/-- without the test (own mutation): the 21st nested `(*` is stored at `open_comment[20]` -/
theorem C06_open_comment_unguarded_witness :
    commentRun { cap := 20, guarded := false } 0 (List.replicate 21 .open_) = .overflow 20 := by decide

/-! ## schema file names -/

def schemaFileCfgSafe (c : SchemaFileCfg) : Bool :=
  c.nameGuard && c.boundedAppend && (match c.dirGuard with | some k => decide (2 ≤ k) | none => false)

theorem pathEntryOut_safe (c : SchemaFileCfg) (h : schemaFileCfgSafe c = true) (len : Nat) :
    pathEntryOut c len = .reject ∨ ∃ leaf, pathEntryOut c len = .ok leaf ∧ leaf < c.fullCap := by
  unfold schemaFileCfgSafe at h
  cases hg : c.dirGuard with
  | none => simp [hg] at h
  | some k =>
    simp [hg] at h
    unfold pathEntryOut
    simp only [hg]
    by_cases hs : c.fullCap < len + k
    · left; simp [hs]
    · right
      have : len + 2 ≤ c.fullCap := by omega
      exact ⟨len + 1, by simp [hs, this], by omega⟩

theorem findSchemaOut_safe (c : SchemaFileCfg) (h : schemaFileCfgSafe c = true) (leaf nameLen : Nat) (hl : leaf ≤ c.fullCap) :
    findSchemaOut c leaf nameLen = .reject ∨ ∃ n, findSchemaOut c leaf nameLen = .ok n ∧ n ≤ c.fullCap := by
  unfold schemaFileCfgSafe at h
  simp at h
  obtain ⟨⟨hn, hb⟩, _⟩ := h
  unfold findSchemaOut
  by_cases hg : c.lowerCap ≤ nameLen
  · left; simp [hn, hg]
  · right
    have h1 : ¬ c.lowerCap < nameLen + 1 := by omega
    have h2 : ¬ c.fullCap < leaf := by omega
    refine ⟨leaf + min (nameLen + c.ext + 1) (c.fullCap - leaf), by simp [hn, hg, h1, hb, h2], ?_⟩
    have : min (nameLen + c.ext + 1) (c.fullCap - leaf) ≤ c.fullCap - leaf := Nat.min_le_right _ _
    omega

/-- **C06, schema files**: an EXPRESS_PATH entry of any length is stored inside `Dir.full[]` or skipped, and for a schema name of
any length `EXPRESSfind_schema` stores only inside `lower[]` and behind the directory prefix inside `full[]`, or gives up. -/
theorem C06_no_overflow_schema_file_name (dirLen nameLen : Nat) :
    (pathEntryOut schemaFileCfg dirLen).isOverflow = false ∧
    (∀ leaf, leaf ≤ schemaFileCfg.fullCap → (findSchemaOut schemaFileCfg leaf nameLen).isOverflow = false) := by
  have hs : schemaFileCfgSafe schemaFileCfg = true := by decide
  constructor
  · rcases pathEntryOut_safe schemaFileCfg hs dirLen with h | ⟨l, h, _⟩ <;> simp [h, Outcome.isOverflow]
  · intro leaf hl
    rcases findSchemaOut_safe schemaFileCfg hs leaf nameLen hl with h | ⟨n, h, _⟩ <;> simp [h, Outcome.isOverflow]

/-- an accepted EXPRESS_PATH entry leaves its leaf inside `full`, which is what the look-up needs -/
theorem C06_schema_path_leaf_in_range (dirLen leaf : Nat) (h : pathEntryOut schemaFileCfg dirLen = .ok leaf) :
    leaf ≤ schemaFileCfg.fullCap := by
  rcases pathEntryOut_safe schemaFileCfg (by decide) dirLen with hr | ⟨l, hl, hlt⟩
  · rw [hr] at h; cases h
  · rw [hl] at h; cases h; omega

/-- the tree before `fix: C06-32`: an EXPRESS_PATH directory of 255 characters + '/' + terminator needs 257 bytes -/
theorem C06_schema_path_unguarded_witness :
    pathEntryOut { lowerCap := 256, fullCap := 256, nameGuard := true, boundedAppend := true, ext := 4, dirGuard := none } 255 = .overflow 256 := by decide

/-! ## format_for_stringout -/

theorem escapeOut_safe (c : EscapeCfg) (hm : c.perChar ≤ c.mul) (ha : 1 ≤ c.add) (hp : 1 ≤ c.perChar) (len specials : Nat) (hs : specials ≤ len) :
    (escapeOut c len specials).isOverflow = false := by
  unfold escapeOut
  have h1 : (c.perChar - 1) * specials ≤ (c.perChar - 1) * len := Nat.mul_le_mul_left _ hs
  have h2 : len + (c.perChar - 1) * len = c.perChar * len := by
    have : c.perChar = (c.perChar - 1) + 1 := by omega
    calc len + (c.perChar - 1) * len = ((c.perChar - 1) + 1) * len := by rw [Nat.add_mul, Nat.one_mul, Nat.add_comm]
      _ = c.perChar * len := by rw [← this]
  have h3 : c.perChar * len ≤ c.mul * len := Nat.mul_le_mul_right _ hm
  have : len + (c.perChar - 1) * specials + 1 ≤ c.mul * len + c.add := by omega
  simp [this, Outcome.isOverflow]

/-- **C06, exp2cxx DERIVE initialiser**: for a text of any length with any number of backslashes and newlines
`format_for_stringout` (at most `perChar` bytes per character, regenerated) stays inside the block `ENTITYincode_print`
allocates (`mul * strlen + add`, regenerated). -/
theorem C06_no_overflow_escape_buffer (len specials : Nat) (hs : specials ≤ len) :
    (escapeOut escapeCfg len specials).isOverflow = false :=
  escapeOut_safe escapeCfg (by decide) (by decide) (by decide) len specials hs

/-- the tree before `fix: C06-22`: `strlen + BUFSIZ` bytes for 8192 backslashes -/
theorem C06_escape_buffer_bufsiz_witness :
    escapeOut { mul := 1, add := 8192, perChar := 2 } 8192 8192 = .overflow 16384 := by decide

/-! ## EXPRto_python -/

def PyInv (s : PyCallState) : Prop := s.used + 2 ≤ s.cap

theorem pyCallArg_safe (c : PyCallCfg) (e : Nat) (he : c.ensure = some e) (h4 : c.sep + c.close + 1 ≤ e) (hc : 1 ≤ c.close)
    (s : PyCallState) (t : Nat) : ∃ s', pyCallArg c s t = .ok s' ∧ s'.used + c.close + 1 ≤ s'.cap := by
  unfold pyCallArg
  simp only [he]
  by_cases hg : s.cap < s.used + t + e
  · refine ⟨⟨s.used + (if s.first then 0 else c.sep) + t, s.used + t + e + c.initial, false⟩, ?_, ?_⟩
    · have : s.used + (if s.first then 0 else c.sep) + t + 1 ≤ s.used + t + e + c.initial := by split <;> omega
      simp [hg, this]
    · show s.used + (if s.first then 0 else c.sep) + t + c.close + 1 ≤ s.used + t + e + c.initial
      split <;> omega
  · refine ⟨⟨s.used + (if s.first then 0 else c.sep) + t, s.cap, false⟩, ?_, ?_⟩
    · have : s.used + (if s.first then 0 else c.sep) + t + 1 ≤ s.cap := by split <;> omega
      simp [hg, this]
    · show s.used + (if s.first then 0 else c.sep) + t + c.close + 1 ≤ s.cap
      split <;> omega

theorem pyCallArgs_safe (c : PyCallCfg) (e : Nat) (he : c.ensure = some e) (h4 : c.sep + c.close + 1 ≤ e) (hc : 1 ≤ c.close)
    (args : List Nat) : ∀ s, s.used + c.close + 1 ≤ s.cap → ∃ s', pyCallArgs c s args = .ok s' ∧ s'.used + c.close + 1 ≤ s'.cap := by
  induction args with
  | nil => intro s hs; exact ⟨s, rfl, hs⟩
  | cons t rest ih =>
    intro s _
    obtain ⟨s1, h1, hi1⟩ := pyCallArg_safe c e he h4 hc s t
    obtain ⟨s2, h2, hi2⟩ := ih s1 hi1
    exact ⟨s2, by simp [pyCallArgs, h1, h2], hi2⟩

theorem pyCallOut_safe (c : PyCallCfg) (e : Nat) (he : c.ensure = some e) (h4 : c.sep + c.close + 1 ≤ e) (hc : 1 ≤ c.close)
    (nameLen : Nat) (hn : nameLen + 1 + c.close + 1 ≤ c.initial) (args : List Nat) :
    (pyCallOut c nameLen args).isOverflow = false := by
  have hstart : (pyCallStart c nameLen).used + c.close + 1 ≤ (pyCallStart c nameLen).cap := by
    unfold pyCallStart
    have : min (nameLen + 1) (c.initial - 1) ≤ nameLen + 1 := Nat.min_le_left _ _
    show min (nameLen + 1) (c.initial - 1) + c.close + 1 ≤ c.initial
    omega
  obtain ⟨s, hs, hi⟩ := pyCallArgs_safe c e he h4 hc args _ hstart
  unfold pyCallOut
  simp [hs, hi, Outcome.isOverflow]

/-- **C06, exp2python `EXPRto_python`** (aggregate bounds): a function call with a name the identifier gate accepts and any
number of arguments of any translated lengths stays inside its buffer: it is grown before every argument so that the
argument, the separator, the closing parenthesis and the terminator fit. -/
theorem C06_no_overflow_exprto_python (g maxlen : Nat) (hg : ("exp2python", some g, maxlen) ∈ identGates)
    (nameLen : Nat) (hn : nameLen ≤ g) (args : List Nat) : (pyCallOut pyCallCfg nameLen args).isOverflow = false := by
  have hall : identGates.all (fun t => match t.2.1 with | some g => decide (g + 1 + pyCallCfg.close + 1 ≤ pyCallCfg.initial) | none => true) = true := by decide
  have hgate := List.all_eq_true.mp hall ("exp2python", some g, maxlen) hg
  simp only [decide_eq_true_eq] at hgate
  have he : pyCallCfg.ensure = some 4 := by decide
  exact pyCallOut_safe pyCallCfg 4 he (by decide) (by decide) nameLen (by omega) args

/-- the tree before `fix: C06-29`: no growth — one argument of 99 999 translated characters does not fit 100 000 bytes -/
theorem C06_exprto_python_fixed_witness :
    (pyCallOut { initial := 100000, ensure := none, sep := 2, close := 1 } 2 [99999]).isOverflow = true := by decide

/-! ## interface resolution over the USE graph -/

theorem renameSearchList_ok (u : List Nat) (h : Hier) (fuel : Nat) (path : List Nat)
    (IH : ∀ c, c ∈ u → ∃ r, renameSearch true h fuel path c = some r) :
    ∀ (cs : List Nat), (∀ c, c ∈ cs → c ∈ u) → ∃ r, renameSearchList true h fuel path cs = some r := by
  intro cs
  induction cs with
  | nil => intro _; exact ⟨false, by simp [renameSearchList]⟩
  | cons c rest ih =>
    intro hu
    obtain ⟨r1, h1⟩ := IH c (hu c List.mem_cons_self)
    obtain ⟨r2, h2⟩ := ih (fun y hy => hu y (List.mem_cons_of_mem _ hy))
    exact ⟨r2, by simp [renameSearchList, h1, h2]⟩

theorem renameSearch_ok (u : List Nat) (h : Hier) (hc : Closed u h) :
    ∀ (fuel : Nat) (path : List Nat) (s : Nat), s ∈ u → unmarked u path + 1 ≤ fuel →
      ∃ r, renameSearch true h fuel path s = some r := by
  intro fuel
  induction fuel with
  | zero => intro path s _ hf; omega
  | succ fuel IH =>
    intro path s hs hf
    by_cases hp : s ∈ path
    · exact ⟨false, by simp [renameSearch, hp]⟩
    · have hlt := unmarked_lt u path s hs hp
      obtain ⟨r, hr⟩ := renameSearchList_ok u h fuel (s :: path)
        (fun c hcu => IH (s :: path) c hcu (by omega)) (h s) (hc s hs)
      exact ⟨r, by simp [renameSearch, hp, hr]⟩

theorem renameSearch_unguarded_cycle2 : ∀ (fuel : Nat) (path : List Nat) (s : Nat), s < 2 →
    renameSearch false (fun i => [1 - i]) fuel path s = none := by
  intro fuel
  induction fuel with
  | zero => intro path s _; simp [renameSearch]
  | succ n ih =>
    intro path s hs
    have : 1 - s < 2 := by omega
    simp [renameSearch, renameSearchList, ih (s :: path) (1 - s) this]

/-- **C06, `SCOPEfind_for_rename`**: the look-up behind `USE FROM s (item)` / `REFERENCE FROM s (item)` returns on every
graph of whole-schema USE clauses — self-imports, 2- and 3-cycles, any cycle — also for a name that no schema declares
(the worst case: every reachable schema is searched); depends on the regenerated fact that a schema already on the call
chain is not entered again.  Fuel `|schemas| + 1` suffices: the call chain never holds a schema twice. -/
theorem C06_rename_search_terminates (u : List Nat) (h : Hier) (hc : Closed u h) (s : Nat) (hs : s ∈ u) :
    ∃ r, renameSearch renameSearchPathGuard h (u.length + 1) [] s = some r := by
  have hg : renameSearchPathGuard = true := by decide
  rw [hg]
  have hu : unmarked u [] + 1 ≤ u.length + 1 := by
    have : unmarked u [] ≤ u.length := by unfold unmarked; exact List.length_filter_le _ _
    omega
  exact renameSearch_ok u h hc (u.length + 1) [] s hs hu

/-- the tree before `fix: C06-30`: two schemas that USE each other and a name neither declares — the look-up never
returns, whatever the fuel -/
theorem C06_rename_search_unguarded_witness (fuel : Nat) : renameSearch false (fun i => [1 - i]) fuel [] 0 = none :=
  renameSearch_unguarded_cycle2 fuel [] 0 (by omega)

/-- **C06, the remaining walks over possibly cyclic graphs**: `SCHEMA_get_entities_use` and `SCOPE_find` over whole-schema USE
clauses (mutual USE between schemas is legal EXPRESS), `SCOPE_dfs` over the supertypes (both generators),
`TYPE_resolve_` over defined types that name each other, `RENAMEresolve` over item-wise USE/REFERENCE chains (its inner
search is `C06_rename_search_terminates`), and the two cyclicity checks `ENTITY_check_subsuper_cyclicity_` (subtypes) and
`TYPE_check_select_cyclicity` (select members), which mark a successor before they descend into it (the root is cut by
their equality test), and exp2cxx's `TYPEselect_print` over selects that contain each other through named aggregates (the
tag stored as client data is the mark).  Each returns on every graph, because each marks the node before it recurses
and the mark stays: regenerated per function — the guard and the order of mark and recursion; that nothing in the body
starts another search (the set of functions that increment `__SCOPE_search_id` is regenerated too); for the resolve marks
that "in progress" is only cleared after "failed" or the result has been set. -/
theorem C06_import_graph_walks_terminate (w : String) (mf : Bool) (hm : (w, mf) ∈ graphWalks)
    (u : List Nat) (h : Hier) (hc : Closed u h) (marked : List Nat) (e : Nat) (he : e ∈ u) :
    ∃ m, visit mf h (u.length + 1) marked e = some m := by
  have hall : graphWalks.all (fun p => p.2) = true := by decide
  have : mf = true := List.all_eq_true.mp hall (w, mf) hm
  rw [this]; exact visit_terminates u h hc marked e he

theorem renameSearchG_origin_ring (fuel : Nat) :
    renameSearchG .origin (tailRing 1 2) fuel (some 0) [0] 1 = none ∧
    renameSearchG .origin (tailRing 1 2) fuel (some 0) [1, 0] 2 = none ∧
    (∀ p, renameSearchG .origin (tailRing 1 2) fuel (some 0) p 1 = none) ∧
    (∀ p, renameSearchG .origin (tailRing 1 2) fuel (some 0) p 2 = none) := by
  induction fuel with
  | zero => simp [renameSearchG]
  | succ n ih =>
    obtain ⟨_, _, h1, h2⟩ := ih
    have e1 : tailRing 1 2 1 = [2] := by decide
    have e2 : tailRing 1 2 2 = [1] := by decide
    refine ⟨?_, ?_, ?_, ?_⟩ <;> (try intro p) <;>
      simp [renameSearchG, renameSearchGList, e1, e2, h1, h2]

/-- seeded regression C06-e1: a guard that only remembers the schema the search started in does not cut a ring of USE clauses
that the start schema is not part of (facade → geometry ⇄ topology): the look-up of a name that is not found before the
ring is entered again never returns, whatever the fuel; the guard over the whole call chain returns (`C06_rename_search_terminates`) -/
theorem C06_rename_search_origin_guard_witness (fuel : Nat) :
    renameSearchG .origin (tailRing 1 2) fuel none [] 0 = none := by
  cases fuel with
  | zero => simp [renameSearchG]
  | succ n =>
    have e0 : tailRing 1 2 0 = [1] := by decide
    have h := (renameSearchG_origin_ring n).2.2.1 [0]
    simp [renameSearchG, renameSearchGList, e0, h]

/-- the regenerated answers agree: the Boolean the termination theorems use is "the guard is the call chain" -/
theorem C06_rename_guard_kind_is_path : renameSearchGuardKind = .path ∧ renameSearchPathGuard = true := by decide

example : renameSearchG .path (tailRing 1 2) 5 none [] 0 = some false := by
  simp [renameSearchG, renameSearchGList, tailRing]

/-! ## item-wise interface resolution as a whole -/

structure ImportClosed (R S : List Nat) (g : ImportGraph) : Prop where
  uses : ∀ s, s ∈ S → ∀ y, y ∈ g.uses s → y ∈ S
  renames : ∀ s, s ∈ S → ∀ r, r ∈ g.renames s → r ∈ R
  source : ∀ r, r ∈ R → g.source r ∈ S

abbrev Sub (a b : List Nat) : Prop := ∀ x, x ∈ a → x ∈ b

theorem renameFindList_ok (R S : List Nat) (g : ImportGraph) (fuel : Nat) (path : List Nat) (bound : Nat)
    (IH : ∀ seen c, c ∈ S → unmarked R seen * (S.length + 2) + bound ≤ fuel →
      ∃ m, renameFind true true g fuel seen path c = some m ∧ Sub seen m) :
    ∀ (cs seen : List Nat), (∀ c, c ∈ cs → c ∈ S) → unmarked R seen * (S.length + 2) + bound ≤ fuel →
      ∃ m, renameFindList true true g fuel seen path cs = some m ∧ Sub seen m := by
  intro cs
  induction cs with
  | nil => intro seen _ _; exact ⟨seen, by simp [renameFindList], fun x hx => hx⟩
  | cons c rest ih =>
    intro seen hcs hf
    obtain ⟨m1, h1, s1⟩ := IH seen c (hcs c List.mem_cons_self) hf
    have hmono := unmarked_mono R seen m1 s1
    have hf1 : unmarked R m1 * (S.length + 2) + bound ≤ fuel :=
      Nat.le_trans (Nat.add_le_add_right (Nat.mul_le_mul_right _ hmono) _) hf
    obtain ⟨m2, h2, s2⟩ := ih m1 (fun y hy => hcs y (List.mem_cons_of_mem _ hy)) hf1
    exact ⟨m2, by simp [renameFindList, h1, h2], fun x hx => s2 x (s1 x hx)⟩

theorem renameResolveList_ok (R S : List Nat) (g : ImportGraph) (fuel : Nat)
    (IH : ∀ seen r, r ∈ R → unmarked R seen * (S.length + 2) + 1 ≤ fuel →
      ∃ m, renameResolve true true g fuel seen r = some m ∧ Sub seen m) :
    ∀ (rs seen : List Nat), (∀ r, r ∈ rs → r ∈ R) → unmarked R seen * (S.length + 2) + 1 ≤ fuel →
      ∃ m, renameResolveList true true g fuel seen rs = some m ∧ Sub seen m := by
  intro rs
  induction rs with
  | nil => intro seen _ _; exact ⟨seen, by simp [renameResolveList], fun x hx => hx⟩
  | cons r rest ih =>
    intro seen hrs hf
    obtain ⟨m1, h1, s1⟩ := IH seen r (hrs r List.mem_cons_self) hf
    have hmono := unmarked_mono R seen m1 s1
    have hf1 : unmarked R m1 * (S.length + 2) + 1 ≤ fuel :=
      Nat.le_trans (Nat.add_le_add_right (Nat.mul_le_mul_right _ hmono) _) hf
    obtain ⟨m2, h2, s2⟩ := ih m1 (fun y hy => hrs y (List.mem_cons_of_mem _ hy)) hf1
    exact ⟨m2, by simp [renameResolveList, h1, h2], fun x hx => s2 x (s1 x hx)⟩

theorem rename_ok (R S : List Nat) (g : ImportGraph) (hc : ImportClosed R S g) :
    ∀ (fuel : Nat),
      (∀ seen r, r ∈ R → unmarked R seen * (S.length + 2) + 1 ≤ fuel →
        ∃ m, renameResolve true true g fuel seen r = some m ∧ Sub seen m) ∧
      (∀ seen path s, s ∈ S → unmarked R seen * (S.length + 2) + (unmarked S path + 2) ≤ fuel →
        ∃ m, renameFind true true g fuel seen path s = some m ∧ Sub seen m) := by
  intro fuel
  induction fuel with
  | zero =>
    constructor
    · intro seen r _ hf; omega
    · intro seen path s _ hf; omega
  | succ fuel IH =>
    obtain ⟨IHr, IHf⟩ := IH
    constructor
    · intro seen r hr hf
      by_cases hs : r ∈ seen
      · exact ⟨seen, by simp [renameResolve, hs], fun x hx => hx⟩
      · have hlt := unmarked_lt R seen r hr hs
        have hS : unmarked S [] ≤ S.length := by unfold unmarked; exact List.length_filter_le _ _
        have hfuel : unmarked R (r :: seen) * (S.length + 2) + (unmarked S [] + 2) ≤ fuel := by
          have h1 : (unmarked R (r :: seen) + 1) * (S.length + 2) ≤ unmarked R seen * (S.length + 2) :=
            Nat.mul_le_mul_right _ hlt
          rw [Nat.add_mul] at h1
          omega
        obtain ⟨m, hm, hsub⟩ := IHf (r :: seen) [] (g.source r) (hc.source r hr) hfuel
        exact ⟨m, by simp [renameResolve, hs, hm], fun x hx => hsub x (List.mem_cons_of_mem _ hx)⟩
    · intro seen path s hs hf
      by_cases hp : s ∈ path
      · exact ⟨seen, by simp [renameFind, hp], fun x hx => hx⟩
      · have hlt := unmarked_lt S path s hs hp
        obtain ⟨m1, h1, s1⟩ := renameFindList_ok R S g fuel (s :: path) (unmarked S (s :: path) + 2)
          (fun seen' c hc' hf' => IHf seen' (s :: path) c hc' hf') (g.uses s) seen (hc.uses s hs) (by omega)
        have hmono := unmarked_mono R seen m1 s1
        have hf1 : unmarked R m1 * (S.length + 2) + 1 ≤ fuel := by
          have := Nat.mul_le_mul_right (S.length + 2) hmono
          omega
        obtain ⟨m2, h2, s2⟩ := renameResolveList_ok R S g fuel IHr (g.renames s) m1 (hc.renames s hs) hf1
        exact ⟨m2, by simp [renameFind, hp, h1, h2], fun x hx => s2 x (s1 x hx)⟩

theorem rename_resolve_terminates (R S : List Nat) (g : ImportGraph) (hc : ImportClosed R S g) (seen : List Nat) (r : Nat) (hr : r ∈ R) :
    ∃ m, renameResolve true true g (R.length * (S.length + 2) + 1) seen r = some m := by
  have hu : unmarked R seen ≤ R.length := by unfold unmarked; exact List.length_filter_le _ _
  obtain ⟨m, hm, _⟩ := (rename_ok R S g hc (R.length * (S.length + 2) + 1)).1 seen r hr
    (by have := Nat.mul_le_mul_right (S.length + 2) hu; omega)
  exact ⟨m, hm⟩

/-- without the in-progress mark: a rename that imports from a schema holding the same rename never resolves -/
theorem rename_unmarked_loop (fuel : Nat) :
    renameResolve false true ⟨fun _ => [], fun _ => [0], fun _ => 0⟩ fuel [] 0 = none ∧
    renameFind false true ⟨fun _ => [], fun _ => [0], fun _ => 0⟩ fuel [] [] 0 = none := by
  induction fuel with
  | zero => simp [renameResolve, renameFind]
  | succ n ih => simp [renameResolve, renameFind, renameFindList, renameResolveList, ih.1, ih.2]


/-- **C06, item-wise interface resolution as a whole**: `RENAMEresolve` and `SCOPE_find_for_rename` call each other (a rename
is resolved by a search, the search resolves the renames it meets).  For every finite set of schemas and renames, every
graph of whole-schema USE clauses, every placement of renames and every source schema — rename cycles, USE cycles and
both at once — the resolution of any rename returns: fuel |renames| · (|schemas| + 2) + 1 is never used up (measure:
renames not yet seen, then schemas not on the call chain).  Regenerated: `renameResolveMarkFirst` (the in-progress mark is set
before the search and only cleared after `failed` or the result is set) and `renameSearchPathGuard`. -/
theorem C06_rename_resolution_terminates (R S : List Nat) (g : ImportGraph) (hc : ImportClosed R S g)
    (seen : List Nat) (r : Nat) (hr : r ∈ R) :
    ∃ m, renameResolve renameResolveMarkFirst renameSearchPathGuard g (R.length * (S.length + 2) + 1) seen r = some m := by
  have h1 : renameResolveMarkFirst = true := by decide
  have h2 : renameSearchPathGuard = true := by decide
  rw [h1, h2]; exact rename_resolve_terminates R S g hc seen r hr

/-- without the in-progress mark a rename that imports from a schema holding the same rename never resolves, whatever the fuel -/
theorem C06_rename_resolution_unmarked_witness (fuel : Nat) :
    renameResolve false true ⟨fun _ => [], fun _ => [0], fun _ => 0⟩ fuel [] 0 = none :=
  (rename_unmarked_loop fuel).1

/-! ## lattices: many paths through few nodes -/

/-- successors of the nodes of `u` that have not been expanded yet: what a walk that expands every node once can still spend -/
def edgesLeft (u : List Nat) (h : Hier) (seen : List Nat) : Nat :=
  ((u.filter (notIn seen)).map (fun x => (h x).length)).sum

theorem edgesLeft_mono (u : List Nat) (h : Hier) (m m' : List Nat) (hs : ∀ x, x ∈ m → x ∈ m') :
    edgesLeft u h m' ≤ edgesLeft u h m := by
  unfold edgesLeft
  induction u with
  | nil => simp
  | cons a t ih =>
    by_cases ha : a ∈ m
    · rw [List.filter_cons, List.filter_cons, notIn_of_mem ha, notIn_of_mem (hs a ha)]
      simpa using ih
    · by_cases ha' : a ∈ m'
      · rw [List.filter_cons, List.filter_cons, notIn_of_not_mem ha, notIn_of_mem ha']
        simp only [if_true, Bool.false_eq_true, if_false, List.map_cons, List.sum_cons]
        omega
      · rw [List.filter_cons, List.filter_cons, notIn_of_not_mem ha, notIn_of_not_mem ha']
        simp only [if_true, List.map_cons, List.sum_cons]
        omega

theorem edgesLeft_expand (u : List Nat) (h : Hier) (m : List Nat) (e : Nat) (he : e ∈ u) (hm : e ∉ m) :
    edgesLeft u h (e :: m) + (h e).length ≤ edgesLeft u h m := by
  induction u with
  | nil => simp at he
  | cons a t ih =>
    have mono := edgesLeft_mono t h m (e :: m) (fun x hx => List.mem_cons_of_mem _ hx)
    unfold edgesLeft at mono ih ⊢
    by_cases hae : a = e
    · subst hae
      rw [List.filter_cons, List.filter_cons, notIn_of_mem (List.mem_cons_self), notIn_of_not_mem hm]
      simp only [Bool.false_eq_true, if_false, if_true, List.map_cons, List.sum_cons]
      omega
    · have het : e ∈ t := by
        rcases List.mem_cons.mp he with h1 | h1
        · exact absurd h1.symm hae
        · exact h1
      have ih' := ih het
      by_cases ham : a ∈ m
      · have : a ∈ e :: m := List.mem_cons_of_mem _ ham
        rw [List.filter_cons, List.filter_cons, notIn_of_mem this, notIn_of_mem ham]
        simpa using ih'
      · have : a ∉ e :: m := by
          intro hc
          rcases List.mem_cons.mp hc with h1 | h1
          · exact hae h1
          · exact ham h1
        rw [List.filter_cons, List.filter_cons, notIn_of_not_mem this, notIn_of_not_mem ham]
        simp only [if_true, List.map_cons, List.sum_cons]
        omega

theorem walkStepsList_ok (u : List Nat) (h : Hier) (fuel bound : Nat)
    (IH : ∀ seen e, e ∈ u → unmarked u seen ≤ bound →
      ∃ s k, walkSteps true h fuel seen e = some (s, k) ∧ (∀ x, x ∈ seen → x ∈ s) ∧ k + edgesLeft u h s ≤ edgesLeft u h seen + 1) :
    ∀ (cs seen : List Nat), (∀ c, c ∈ cs → c ∈ u) → unmarked u seen ≤ bound →
      ∃ s k, walkStepsList true h fuel seen cs = some (s, k) ∧ (∀ x, x ∈ seen → x ∈ s) ∧
        k + edgesLeft u h s ≤ edgesLeft u h seen + cs.length := by
  intro cs
  induction cs with
  | nil => intro seen _ _; exact ⟨seen, 0, by simp [walkStepsList], fun x hx => hx, by simp⟩
  | cons c rest ih =>
    intro seen hcs hf
    obtain ⟨s1, k1, h1, sub1, b1⟩ := IH seen c (hcs c List.mem_cons_self) hf
    have hf1 : unmarked u s1 ≤ bound := Nat.le_trans (unmarked_mono u seen s1 sub1) hf
    obtain ⟨s2, k2, h2, sub2, b2⟩ := ih s1 (fun y hy => hcs y (List.mem_cons_of_mem _ hy)) hf1
    refine ⟨s2, k1 + k2, by simp [walkStepsList, h1, h2], fun x hx => sub2 x (sub1 x hx), ?_⟩
    simp only [List.length_cons]
    omega

theorem walkSteps_ok (u : List Nat) (h : Hier) (hc : Closed u h) :
    ∀ (fuel : Nat) (seen : List Nat) (e : Nat), e ∈ u → unmarked u seen ≤ fuel →
      ∃ s k, walkSteps true h (fuel + 1) seen e = some (s, k) ∧ (∀ x, x ∈ seen → x ∈ s) ∧
        k + edgesLeft u h s ≤ edgesLeft u h seen + 1 := by
  intro fuel
  induction fuel with
  | zero =>
    intro seen e he hf
    by_cases hs : e ∈ seen
    · exact ⟨seen, 1, by simp [walkSteps, hs], fun x hx => hx, by omega⟩
    · have := unmarked_lt u seen e he hs
      omega
  | succ fuel IH =>
    intro seen e he hf
    by_cases hs : e ∈ seen
    · exact ⟨seen, 1, by simp [walkSteps, hs], fun x hx => hx, by omega⟩
    · have hlt := unmarked_lt u seen e he hs
      have hexp := edgesLeft_expand u h seen e he hs
      obtain ⟨s, k, hl, sub, b⟩ := walkStepsList_ok u h (fuel + 1) fuel
        (fun seen' c hc' hf' => IH seen' c hc' hf') (h e) (e :: seen) (hc e he) (by omega)
      refine ⟨s, k + 1, by simp [walkSteps, hs, hl], fun x hx => sub x (List.mem_cons_of_mem _ hx), ?_⟩
      omega

theorem filter_notIn_nil (u : List Nat) : u.filter (notIn []) = u := by
  induction u with
  | nil => rfl
  | cons a t ih => simp [notIn, ih]

/-- a walk that expands every node once makes at most one call per successor entry, plus the first -/
theorem walkSteps_linear (u : List Nat) (h : Hier) (hc : Closed u h) (seen : List Nat) (e : Nat) (he : e ∈ u) :
    ∃ s k, walkSteps true h (u.length + 1) seen e = some (s, k) ∧ k ≤ (u.map (fun x => (h x).length)).sum + 1 := by
  have hu : unmarked u seen ≤ u.length := by unfold unmarked; exact List.length_filter_le _ _
  obtain ⟨s, k, hw, _, b⟩ := walkSteps_ok u h hc u.length seen e he hu
  refine ⟨s, k, hw, ?_⟩
  have h0 : edgesLeft u h seen ≤ (u.map (fun x => (h x).length)).sum := by
    have := edgesLeft_mono u h [] seen (by simp)
    simpa [edgesLeft, filter_notIn_nil] using this
  omega

/-- a walk that follows every path: on the ladder the number of calls doubles with every level -/
theorem walkSteps_ladder (n : Nat) : walkSteps false ladderH (n + 1) [] n = some ([], 2 ^ (n + 1) - 1) := by
  induction n with
  | zero => simp [walkSteps, ladderH, walkStepsList]
  | succ n ih =>
    have hl : ladderH (n + 1) = [n, n] := by simp [ladderH]
    have hp : 1 ≤ 2 ^ (n + 1) := Nat.one_le_two_pow
    simp only [walkSteps, Bool.false_and, Bool.false_eq_true, if_false, hl, walkStepsList, ih]
    congr 2
    rw [Nat.pow_succ 2 (n + 1)]
    omega


/-- **C06, walks over lattices take one call per edge**: `ENTITYget_all_attributes` (all generators' view of inherited
attributes), exp2python's ancestor test and exp2cxx's count of select paths each remember what they have expanded
(regenerated: the membership test with its return, and the insertion, both before the recursion).  For every finite graph
— any number of paths between two nodes — such a walk returns after at most one call per successor entry plus one. -/
theorem C06_dag_walks_linear (w : String) (memo : Bool) (hm : (w, memo) ∈ dagWalks)
    (u : List Nat) (h : Hier) (hc : Closed u h) (seen : List Nat) (e : Nat) (he : e ∈ u) :
    ∃ s k, walkSteps memo h (u.length + 1) seen e = some (s, k) ∧ k ≤ (u.map (fun x => (h x).length)).sum + 1 := by
  have hall : dagWalks.all (fun p => p.2) = true := by decide
  have : memo = true := List.all_eq_true.mp hall (w, memo) hm
  rw [this]; exact walkSteps_linear u h hc seen e he

/-- the walks before C06-38, 39, 41 followed every path: on n levels of nodes that name the level below twice the number
of calls is 2^(n+1) − 1 (40 levels: 2·10^12) -/
theorem C06_path_walk_exponential_witness (n : Nat) :
    walkSteps false ladderH (n + 1) [] n = some ([], 2 ^ (n + 1) - 1) :=
  walkSteps_ladder n

/-- **C06, exp2cxx complex entity support**: the tree of subtype lists is unfolded path by path by design (it is what
compstructs.cc is written from), so its size is not bounded by the size of the schema; the constructor of the list
nodes counts them and ends the run beyond the regenerated budget: never more than that many nodes are built, whatever
the schema. -/
theorem C06_complex_support_nodes_bounded :
    ∃ b, complexNodeBudget = some b ∧ b ≤ 10000000 ∧
      ∀ built, built ≤ b → countNode complexNodeBudget built = .reject ∨ ∃ m, countNode complexNodeBudget built = .ok m ∧ m ≤ b := by
  cases hb : complexNodeBudget with
  | none => exact absurd hb (by decide)
  | some b =>
    have hle : b ≤ 10000000 := by
      have : complexNodeBudget.all (fun x => decide (x ≤ 10000000)) = true := by decide
      simpa [hb] using this
    refine ⟨b, rfl, hle, ?_⟩
    intro built _
    by_cases hx : b < built + 1
    · left; simp [countNode, hx]
    · right; exact ⟨built + 1, by simp [countNode, hx], by omega⟩

/-! ## nesting depth -/

theorem Tree.height_pos (t : Tree) : 1 ≤ t.height := by
  cases t with
  | node k => simp [Tree.height]

mutual
theorem Tree.accepted_iff (l : Nat) : ∀ (t : Tree) (d : Nat), t.accepted (some l) d = true ↔ d + t.height ≤ l
  | .node k, d => by
    have ih := Forest.accepted_iff l k (d + 1)
    simp only [Tree.accepted, Tree.height]
    by_cases h : l ≤ d
    · simp [h]; omega
    · simp only [h, if_false]
      rw [ih]
      omega
theorem Forest.accepted_iff (l : Nat) : ∀ (f : Forest) (d : Nat), f.accepted (some l) d = true ↔ (f.height = 0 ∨ d + f.height ≤ l)
  | .nil, d => by simp [Forest.accepted, Forest.height]
  | .cons t r, d => by
    have iht := Tree.accepted_iff l t d
    have ihr := Forest.accepted_iff l r d
    have hp := Tree.height_pos t
    simp only [Forest.accepted, Forest.height, Bool.and_eq_true]
    rw [iht, ihr]
    have hmax : max t.height r.height = if t.height ≤ r.height then r.height else t.height := by
      by_cases hle : t.height ≤ r.height
      · simp [hle, Nat.max_eq_right hle]
      · simp [hle]; omega
    rw [hmax]
    by_cases hle : t.height ≤ r.height
    · simp only [hle, if_true]; omega
    · simp only [hle, if_false]; omega
end

mutual
theorem Tree.accepted_none : ∀ (t : Tree) (d : Nat), t.accepted none d = true
  | .node k, d => by simp only [Tree.accepted]; exact Forest.accepted_none k (d + 1)
theorem Forest.accepted_none : ∀ (f : Forest) (d : Nat), f.accepted none d = true
  | .nil, _ => by simp [Forest.accepted]
  | .cons t r, d => by simp [Forest.accepted, Tree.accepted_none t d, Forest.accepted_none r d]
end

/-- a tree of n nested nodes -/
def chainTree : Nat → Tree
  | 0 => .node .nil
  | n + 1 => .node (.cons (chainTree n) .nil)

theorem chainTree_height (n : Nat) : (chainTree n).height = n + 1 := by
  induction n with
  | zero => simp [chainTree, Tree.height, Forest.height]
  | succ n ih => simp [chainTree, Tree.height, Forest.height, ih]; omega

/-- **C06, nesting depth**: for each kind of recursive structure (expression, statement, type, supertype expression, chains of sub- and supertypes) the
resolver — the first pass that walks it — accepts a tree exactly when its height is within the regenerated limit; so for
every accepted input the recursion depth of every later recursive pass (pretty printer, generators: `Tree.height`) is at
most that limit, whatever the shape of the tree. -/
theorem C06_nesting_bounded (kind : String) (l : Nat) (hm : (kind, some l) ∈ nestingLimits) (t : Tree) :
    (t.accepted (some l) 0 = true ↔ t.height ≤ l) ∧ l ≤ 5000 := by
  have hall : nestingLimits.all (fun p => match p.2 with | some l => decide (l ≤ 5000) | none => false) = true := by decide
  have := List.all_eq_true.mp hall (kind, some l) hm
  refine ⟨?_, by simpa using this⟩
  have := Tree.accepted_iff l t 0
  simpa using this

/-- all six recursive walks of the resolver (expression, statement, type, supertype expression, chain of subtypes, chain of
supertypes) carry the limit, and the OTHERWISE branch of CASE is resolved (counted) too -/
theorem C06_nesting_limits_present :
    nestingLimits.all (fun p => p.2.isSome) = true ∧ nestingLimits.length = 6 ∧ otherwiseResolved = true := by decide

/-- the tree before `fix: C06-27`: no counter — a chain of any depth is accepted and handed to the recursive passes -/
theorem C06_nesting_unbounded_witness (n : Nat) : (chainTree n).accepted none 0 = true ∧ (chainTree n).height = n + 1 :=
  ⟨Tree.accepted_none _ 0, chainTree_height n⟩

example : (chainTree 3).accepted (some 4) 0 = true ∧ (chainTree 4).accepted (some 4) 0 = false := by decide

/-! ## exp2python `python_indent` -/

/-- **C06, exp2python indentation**: for every statement nesting level the bytes written as indentation come from inside
their source (one `fprintf` per level, or an array that is long enough). -/
theorem C06_no_overread_python_indent (level : Nat) : indentOut pythonIndent level = .ok level := by
  have h : pythonIndent = .loop := by decide
  rw [h]; rfl

/-- seeded regression C06-c2: `fwrite( tabs, 1, indent_level, file )` from 32 tabs — level 33 reads the terminator, 34 past it -/
theorem C06_python_indent_array_witness : indentOut (.array 32) 33 = .overflow 33 := by decide

/-! ## exit status -/

def exitCfgSmall (c : ExitCfg) : Bool :=
  decide (c.succeed = 0) && c.hooks.all (· == 0) && decide (c.hooks.length = 2) &&
  decide (0 < c.fail) && decide (c.fail ≤ 2) && c.usage.all (fun u => decide (0 < u) && decide (u ≤ 2))

/-- **C06, exit status**: on every path through `main` the status is 0 exactly when the input was accepted, and
otherwise a small positive number (1 = errors in input, 2 = usage). -/
theorem C06_exit_small (t : Tool) (v : Verdict) (s : Nat) (h : exitStatus exitCfg t v = some s) :
    s ≤ 2 ∧ (s = 0 ↔ v = .accepted) := by
  have hc : exitCfgSmall exitCfg = true := by decide
  simp [exitCfgSmall] at hc
  obtain ⟨⟨⟨⟨⟨h0, hh⟩, hl⟩, hf0⟩, hf2⟩, hu⟩ := hc
  cases v with
  | accepted =>
    have : s = 0 := by
      cases t with
      | checkExpress => simp [exitStatus] at h; omega
      | exppp => simp [exitStatus] at h; omega
      | exp2cxx =>
        have hm : s ∈ exitCfg.hooks := List.mem_of_getElem? (by simpa [exitStatus] using h)
        have := hh _ hm
        omega
      | exp2python =>
        have hm : s ∈ exitCfg.hooks := List.mem_of_getElem? (by simpa [exitStatus] using h)
        have := hh _ hm
        omega
    simp [this]
  | errors =>
    have : s = exitCfg.fail := by cases t <;> simp [exitStatus] at h <;> omega
    constructor
    · omega
    · simp; omega
  | usage k =>
    have hk : s ∈ exitCfg.usage := by
      cases t <;> exact List.mem_of_getElem? (by simpa [exitStatus] using h)
    have := hu _ hk
    constructor
    · omega
    · simp; omega

example : exitStatus exitCfg .exppp .errors = some 1 := by decide

/-! ## exit-status discipline

The run of `main` is interpreted over a finite abstraction of the state (`AState`); the abstraction commutes with every
operation, so what is decided for all 64 abstract states and all kinds of reports holds for every real run. -/

structure AState where
  printedPos : Bool   -- printed ≥ 1
  pendingPos : Bool   -- pending ≥ 1
  staged : Bool
  occurred : Bool
  errIssued : Bool
  trailer : Bool      -- trailer ≥ 1
  lost : Bool         -- lost ≥ 1
  deriving DecidableEq, Repr

def AState.nonempty (a : AState) : Bool := a.printedPos || a.pendingPos
def AState.pzero (a : AState) : Bool := !a.pendingPos

def absS (s : RState) : AState :=
  ⟨Nat.ble 1 s.printed, Nat.ble 1 s.pending, s.staged, s.occurred, s.errIssued, Nat.ble 1 s.trailer, Nat.ble 1 s.lost⟩

def AState.step : RAct → AState → AState
  | .print, a => { a with printedPos := true }
  | .buf, a => { a with staged := true }
  | .commit, a => if a.staged then { a with pendingPos := true, staged := false } else a
  | .setOccurred, a => { a with occurred := true }
  | .flush, a => { a with printedPos := a.printedPos || a.pendingPos, pendingPos := false }
  | .restart, a => { a with lost := a.lost || a.pendingPos, pendingPos := false, staged := false }

def AState.ops : Ops AState where
  step := AState.step
  occurred := fun a => a.occurred
  markErr := fun a => { a with errIssued := true }
  markTrailer := fun a => { a with trailer := true }

/-- `f` commutes with the operations -/
structure Hom {σ τ : Type} (o1 : Ops σ) (o2 : Ops τ) (f : σ → τ) : Prop where
  step : ∀ a s, f (o1.step a s) = o2.step a (f s)
  occurred : ∀ s, o1.occurred s = o2.occurred (f s)
  markErr : ∀ s, f (o1.markErr s) = o2.markErr (f s)
  markTrailer : ∀ s, f (o1.markTrailer s) = o2.markTrailer (f s)

theorem ble_one_add (p q : Nat) : Nat.ble 1 (p + q) = (Nat.ble 1 p || Nat.ble 1 q) := by
  rw [Bool.eq_iff_iff]; simp [Nat.ble_eq]; omega

theorem ble_one_false {n : Nat} : Nat.ble 1 n = false ↔ n = 0 := by
  cases n <;> simp [Nat.ble]

theorem absS_hom : Hom RState.ops AState.ops absS where
  step := by
    intro a s
    obtain ⟨p, q, stg, oc, ei, tr, lo⟩ := s
    cases a <;> cases stg <;> simp [absS, RState.ops, AState.ops, RAct.step, AState.step, ble_one_add, Nat.ble] <;> (try omega)
  occurred := by intro s; rfl
  markErr := by intro s; rfl
  markTrailer := by
    intro s
    obtain ⟨p, q, stg, oc, ei, tr, lo⟩ := s
    simp [absS, RState.ops, AState.ops]

section
variable {σ τ : Type} {o1 : Ops σ} {o2 : Ops τ} {f : σ → τ}

theorem runActs_hom (h : Hom o1 o2 f) : ∀ (l : List RAct) (s : σ), f (runActs o1 l s) = runActs o2 l (f s) := by
  intro l
  induction l with
  | nil => intro s; rfl
  | cons a l ih => intro s; simp [runActs, ih, h.step]

theorem doFail_hom (h : Hom o1 o2 f) (c : ExitDiscCfg) (s : σ) :
    (f (doFail o1 c s).1, (doFail o1 c s).2) = doFail o2 c (f s) := by
  simp [doFail, h.markTrailer, runActs_hom h]

theorem doSucceed_hom (h : Hom o1 o2 f) (c : ExitDiscCfg) (s : σ) :
    (f (doSucceed o1 c s).1, (doSucceed o1 c s).2) = doSucceed o2 c (f s) := by
  simp [doSucceed, h.markTrailer, runActs_hom h]

theorem reportL_hom (h : Hom o1 o2 f) (c : ExitDiscCfg) (b : Bool) (l : Lvl) (sym full : Bool) (s : σ) :
    (f (reportL o1 c b l sym full s).1, (reportL o1 c b l sym full s).2) = reportL o2 c b l sym full (f s) := by
  obtain ⟨e, x, d⟩ := l
  simp only [reportL]
  cases hx : (x || ((pickFn c b sym).alsoWhenFull && full)) <;> cases e <;> cases d <;> cases full <;>
    simp [doFail, h.markTrailer, h.markErr, runActs_hom h]

theorem runLevels_hom (h : Hom o1 o2 f) (c : ExitDiscCfg) (b : Bool) :
    ∀ (evs : List (Lvl × Bool × Bool)) (s : σ),
      (f (runLevels o1 c b evs s).1, (runLevels o1 c b evs s).2) = runLevels o2 c b evs (f s) := by
  intro evs
  induction evs with
  | nil => intro s; rfl
  | cons e rest ih =>
    intro s
    obtain ⟨l, sym, full⟩ := e
    have hr := reportL_hom h c b l sym full s
    simp only [runLevels]
    cases h1 : reportL o1 c b l sym full s with
    | mk s1 st =>
      rw [h1] at hr
      cases st with
      | some x => simp at hr; simp [← hr]
      | none => simp at hr; simp [← hr, ih]

theorem runPhases_hom (h : Hom o1 o2 f) (c : ExitDiscCfg) (b : Bool) :
    ∀ (ps : List (List (Lvl × Bool × Bool) × Bool)) (s : σ),
      (f (runPhases o1 c b ps s).1, (runPhases o1 c b ps s).2) = runPhases o2 c b ps (f s) := by
  intro ps
  induction ps with
  | nil => intro s; exact doSucceed_hom h c s
  | cons p rest ih =>
    intro s
    obtain ⟨evs, chk⟩ := p
    have hr := runLevels_hom h c b evs s
    simp only [runPhases]
    cases h1 : runLevels o1 c b evs s with
    | mk s1 st =>
      rw [h1] at hr
      cases st with
      | some x => simp at hr; simp [← hr]
      | none =>
        simp at hr
        simp only [← hr, h.occurred]
        cases hc : (chk && o2.occurred (f s1))
        · simp [ih]
        · simp; exact doFail_hom h c s1
end

/-! ### what is decided on the abstraction -/

def allBool (p : Bool → Bool) : Bool := p true && p false

theorem allBool_spec {p : Bool → Bool} (h : allBool p = true) : ∀ b, p b = true := by
  intro b; cases b <;> simp_all [allBool]

def allAState (p : AState → Bool) : Bool :=
  allBool fun a => allBool fun b => allBool fun c => allBool fun d => allBool fun e => allBool fun g => allBool fun k =>
    p ⟨a, b, c, d, e, g, k⟩

theorem allAState_spec {p : AState → Bool} (h : allAState p = true) : ∀ a, p a = true := by
  intro ⟨a, b, c, d, e, g, k⟩
  exact allBool_spec (allBool_spec (allBool_spec (allBool_spec (allBool_spec (allBool_spec (allBool_spec h a) b) c) d) e) g) k

def allLvl (p : Lvl → Bool) : Bool := allBool fun a => allBool fun b => allBool fun c => p ⟨a, b, c⟩

theorem allLvl_spec {p : Lvl → Bool} (h : allLvl p = true) : ∀ l, p l = true := by
  intro ⟨a, b, c⟩
  exact allBool_spec (allBool_spec (allBool_spec h a) b) c

/-- severities are tested against increasing thresholds: fatal implies error, dump implies fatal -/
def lvlMono (l : Lvl) : Bool := (!l.exit || l.err) && (!l.dump || l.exit)

/-- between two reports: `ERRORoccurred` exactly when an error diagnostic was issued, and then something is on stderr or in
the buffer; nothing half-written in the buffer; nothing in the buffer at all without -B; nothing was dropped -/
def ainvB (buffered : Bool) (a : AState) : Bool :=
  (!a.occurred || a.nonempty) && (a.errIssued == a.occurred) && !a.staged && (buffered || a.pzero) && !a.lost

/-- how a run may end: with the failure status after an error diagnostic, on stderr together with the trailer, nothing left
in the buffer and nothing dropped; with the success status, no error diagnostic issued, nothing left in the buffer, nothing
dropped; or in abort() after the flushed diagnostic -/
def finalOk (c : ExitDiscCfg) (r : AState × Option Stop) : Bool :=
  match r.2 with
  | none => false
  | some .aborted => r.1.printedPos && r.1.pzero && !r.1.lost
  | some (.exited st) =>
    if st == c.failStatus then r.1.printedPos && r.1.pzero && r.1.trailer && !r.1.lost && r.1.errIssued
    else st == c.succStatus && r.1.pzero && !r.1.errIssued && r.1.trailer && !r.1.lost

def stopOk (c : ExitDiscCfg) (r : AState × Option Stop) : Bool :=
  match r.2 with
  | none => true
  | some _ => finalOk c r

def stepOk (c : ExitDiscCfg) : Bool :=
  allBool fun b => allLvl fun l => allBool fun sym => allBool fun full => allAState fun a =>
    !lvlMono l || !ainvB b a ||
      (ainvB b (reportL AState.ops c b l sym full a).1 && stopOk c (reportL AState.ops c b l sym full a))

def finishOk (c : ExitDiscCfg) : Bool :=
  allBool fun b => allAState fun a =>
    !ainvB b a || (if a.occurred then finalOk c (doFail AState.ops c a) else finalOk c (doSucceed AState.ops c a))

def discCfgOk (c : ExitDiscCfg) : Bool :=
  stepOk c && finishOk c && c.failStatus != c.succStatus && c.failHooks == 0 && c.strayWrites == 0 &&
    decide (c.sevError ≤ c.sevExit) && decide (c.sevExit ≤ c.sevDump) &&
    c.checks.getD 0 false && c.checks.getD 1 false && c.checks.getD 2 false

abbrev LevelsMono (evs : List (Lvl × Bool × Bool)) : Prop := ∀ e, e ∈ evs → lvlMono e.1 = true

theorem levelsOf_mono (c : ExitDiscCfg) (h1 : c.sevError ≤ c.sevExit) (h2 : c.sevExit ≤ c.sevDump)
    (enabled : Nat → Bool) (evs : List Ev) : LevelsMono (levelsOf c enabled evs) := by
  intro e he
  simp only [levelsOf, List.mem_filterMap, Option.map_eq_some_iff] at he
  obtain ⟨ev, _, l, hl, rfl⟩ := he
  unfold evLevel at hl
  split at hl
  · cases hl
  · cases hl
    simp only [lvlMono, Bool.and_eq_true, Bool.or_eq_true, Bool.not_eq_true', decide_eq_false_iff_not, decide_eq_true_eq]
    constructor
    · by_cases hx : c.sevExit ≤ c.sevs.getD ev.code 0
      · right; omega
      · left; exact hx
    · by_cases hx : c.sevDump ≤ c.sevs.getD ev.code 0
      · right; omega
      · left; exact hx

theorem runLevels_ok {c : ExitDiscCfg} (hs : stepOk c = true) (b : Bool) :
    ∀ (evs : List (Lvl × Bool × Bool)) (a : AState), LevelsMono evs → ainvB b a = true →
      ainvB b (runLevels AState.ops c b evs a).1 = true ∧ stopOk c (runLevels AState.ops c b evs a) = true := by
  intro evs
  induction evs with
  | nil => intro a _ ha; exact ⟨ha, rfl⟩
  | cons e rest ih =>
    intro a hmono ha
    obtain ⟨l, sym, full⟩ := e
    have hl : lvlMono l = true := hmono (l, sym, full) List.mem_cons_self
    have h1 := allAState_spec (allBool_spec (allBool_spec (allLvl_spec (allBool_spec hs b) l) sym) full) a
    simp only [hl, ha, Bool.not_true, Bool.false_or, Bool.and_eq_true] at h1
    simp only [runLevels]
    cases hr : reportL AState.ops c b l sym full a with
    | mk a1 st =>
      rw [hr] at h1
      cases st with
      | some x => exact h1
      | none => exact ih a1 (fun e he => hmono e (List.mem_cons_of_mem _ he)) h1.1

theorem runPhases_ok {c : ExitDiscCfg} (hs : stepOk c = true) (hf : finishOk c = true) (b : Bool) :
    ∀ (ps : List (List (Lvl × Bool × Bool) × Bool)), (∀ p ∈ ps, p.2 = true ∧ LevelsMono p.1) →
      ∀ (a : AState), ainvB b a = true → a.occurred = false → finalOk c (runPhases AState.ops c b ps a) = true := by
  intro ps
  induction ps with
  | nil =>
    intro _ a ha ho
    have h1 := allAState_spec (allBool_spec hf b) a
    simp only [ha, Bool.not_true, Bool.false_or, ho] at h1
    simpa [runPhases] using h1
  | cons p rest ih =>
    intro hp a ha _
    obtain ⟨evs, chk⟩ := p
    obtain ⟨hchk, hmono⟩ := hp (evs, chk) (List.mem_cons_self)
    have hchk : chk = true := hchk
    have hl := runLevels_ok hs b evs a hmono ha
    simp only [runPhases]
    cases hr : runLevels AState.ops c b evs a with
    | mk a1 st =>
      rw [hr] at hl
      cases st with
      | some x => simpa [stopOk] using hl.2
      | none =>
        have h1 := allAState_spec (allBool_spec hf b) a1
        simp only [hl.1, Bool.not_true, Bool.false_or] at h1
        subst hchk
        cases ho : a1.occurred with
        | true => simpa [AState.ops, ho] using h1
        | false =>
          simp only [AState.ops, ho, Bool.and_false]
          exact ih (fun p hpm => hp p (List.mem_cons_of_mem _ hpm)) a1 hl.1 ho

/-- every run of `main` ends in one of the three ways of `finalOk` (read on the abstraction of the real state) -/
theorem runMain_ok {c : ExitDiscCfg} (hc : discCfgOk c = true) (buffered : Bool) (enabled : Nat → Bool)
    (parse resolve backend : List Ev) :
    finalOk c (absS (runMain c buffered enabled parse resolve backend).1, (runMain c buffered enabled parse resolve backend).2) = true := by
  simp only [discCfgOk, Bool.and_eq_true, decide_eq_true_eq] at hc
  obtain ⟨⟨⟨⟨⟨⟨⟨⟨⟨hs, hf⟩, _⟩, _⟩, _⟩, hm1⟩, hm2⟩, h0⟩, h1⟩, h2⟩ := hc
  unfold runMain
  rw [runPhases_hom absS_hom]
  apply runPhases_ok hs hf
  · intro p hp
    simp only [List.mem_cons, List.not_mem_nil, or_false] at hp
    rcases hp with rfl | rfl | rfl
    · exact ⟨h0, levelsOf_mono c hm1 hm2 enabled parse⟩
    · exact ⟨h1, levelsOf_mono c hm1 hm2 enabled resolve⟩
    · exact ⟨h2, levelsOf_mono c hm1 hm2 enabled backend⟩
  · cases buffered <;> rfl
  · rfl

/-- **C06, exit status ⇒ diagnostic**: whatever is reported during parse, resolve and back end, with or without -B and
under any setting of -w and -i: a run that ends with a status other than the success status ends with the failure status,
a diagnostic of severity ERROR or higher was issued (warnings alone never fail a run), at least one diagnostic is on
stderr, followed by the "Errors in input" trailer, nothing is left in the message buffer and no message was dropped
from it.  (Regenerated: the action sequences of the branches of ERRORreport and ERRORvreport_with_symbol — what happens
when the -B buffer is full included —, the severities of LibErrors and their thresholds, EXPRESS_fail, the three
`if( ERRORoccurred )` tests of main, that no tool installs an EXPRESSfail hook and that `ERRORoccurred` is assigned
nowhere else.) -/
theorem C06_nonzero_exit_has_diagnostic (buffered : Bool) (enabled : Nat → Bool) (parse resolve backend : List Ev)
    (s : RState) (st : Nat) (h : runMain exitDiscCfg buffered enabled parse resolve backend = (s, some (.exited st)))
    (hne : st ≠ exitDiscCfg.succStatus) :
    st = exitDiscCfg.failStatus ∧ s.errIssued = true ∧ 1 ≤ s.printed ∧ s.pending = 0 ∧ 1 ≤ s.trailer ∧ s.lost = 0 := by
  have hc : discCfgOk exitDiscCfg = true := by decide
  have hm := runMain_ok hc buffered enabled parse resolve backend
  rw [h] at hm
  simp only [finalOk] at hm
  by_cases hfs : st = exitDiscCfg.failStatus
  · simp [hfs, absS, AState.pzero, ble_one_false] at hm
    obtain ⟨⟨⟨⟨h1, h2⟩, h3⟩, h4⟩, h5⟩ := hm
    exact ⟨hfs, h5, h1, h2, h3, h4⟩
  · simp [hfs, hne] at hm

/-- **C06, success status ⇒ no error and nothing lost**: a run that ends with the success status has issued no
diagnostic of severity ERROR or higher, no (warning) message is left unprinted in the -B buffer and none was dropped. -/
theorem C06_zero_exit_no_error_nothing_buffered (buffered : Bool) (enabled : Nat → Bool) (parse resolve backend : List Ev)
    (s : RState) (h : runMain exitDiscCfg buffered enabled parse resolve backend = (s, some (.exited exitDiscCfg.succStatus))) :
    s.errIssued = false ∧ s.pending = 0 ∧ s.lost = 0 := by
  have hc : discCfgOk exitDiscCfg = true := by decide
  have hm := runMain_ok hc buffered enabled parse resolve backend
  rw [h] at hm
  have hne : (exitDiscCfg.succStatus == exitDiscCfg.failStatus) = false := by decide
  simp [finalOk, hne, absS, AState.pzero, ble_one_false] at hm
  obtain ⟨⟨⟨h1, h2⟩, _⟩, h4⟩ := hm
  exact ⟨h2, h1, h4⟩

/-- **C06, abort() only after the diagnostic**: a run that ends in abort() (severity DUMP) has its diagnostic on stderr,
the buffer flushed; and every run ends — in an exit status or in abort(). -/
theorem C06_run_ends_and_abort_after_diagnostic (buffered : Bool) (enabled : Nat → Bool) (parse resolve backend : List Ev) :
    (∃ s stop, runMain exitDiscCfg buffered enabled parse resolve backend = (s, some stop)) ∧
    ∀ s, runMain exitDiscCfg buffered enabled parse resolve backend = (s, some .aborted) →
      1 ≤ s.printed ∧ s.pending = 0 ∧ s.lost = 0 := by
  have hc : discCfgOk exitDiscCfg = true := by decide
  have hm := runMain_ok hc buffered enabled parse resolve backend
  constructor
  · cases hr : runMain exitDiscCfg buffered enabled parse resolve backend with
    | mk s stop =>
      rw [hr] at hm
      cases stop with
      | none => simp [finalOk] at hm
      | some x => exact ⟨s, x, rfl⟩
  · intro s h
    rw [h] at hm
    simp [finalOk, absS, AState.pzero, ble_one_false] at hm
    obtain ⟨⟨h1, h2⟩, h3⟩ := hm
    exact ⟨h1, h2, h3⟩

/-! ### the verdict does not depend on -B or on how full the message buffer is -/

/-- the state reduced to `ERRORoccurred` -/
def occOps : Ops Bool where
  step := fun a s => match a with | .setOccurred => true | _ => s
  occurred := fun s => s
  markErr := fun s => s
  markTrailer := fun s => s

theorem occ_hom : Hom RState.ops occOps (fun s => s.occurred) where
  step := by
    intro a s
    obtain ⟨p, q, stg, oc, ei, tr, lo⟩ := s
    cases a <;> cases stg <;> simp [RState.ops, occOps, RAct.step]
  occurred := by intro s; rfl
  markErr := by intro s; rfl
  markTrailer := by intro s; rfl

def clr (e : Lvl × Bool × Bool) : Lvl × Bool × Bool := (e.1, e.2.1, false)

def clearFull (evs : List Ev) : List Ev := evs.map (fun e => { e with full := false })

def indepOk (c : ExitDiscCfg) : Bool :=
  allBool fun b => allLvl fun l => allBool fun sym => allBool fun full => allBool fun a =>
    decide (reportL occOps c b l sym full a = reportL occOps c false l sym false a)

theorem runLevels_indep {c : ExitDiscCfg} (hi : indepOk c = true) (b : Bool) :
    ∀ (evs : List (Lvl × Bool × Bool)) (a : Bool),
      runLevels occOps c b evs a = runLevels occOps c false (evs.map clr) a := by
  intro evs
  induction evs with
  | nil => intro a; rfl
  | cons e rest ih =>
    intro a
    obtain ⟨l, sym, full⟩ := e
    have h1 := allBool_spec (allBool_spec (allBool_spec (allLvl_spec (allBool_spec hi b) l) sym) full) a
    simp only [decide_eq_true_eq] at h1
    simp only [runLevels, List.map_cons, clr, h1]
    cases reportL occOps c false l sym false a with
    | mk a1 st =>
      cases st with
      | some x => rfl
      | none => exact ih a1

theorem runPhases_indep {c : ExitDiscCfg} (hi : indepOk c = true) (b : Bool) :
    ∀ (ps : List (List (Lvl × Bool × Bool) × Bool)) (a : Bool),
      runPhases occOps c b ps a = runPhases occOps c false (ps.map (fun p => (p.1.map clr, p.2))) a := by
  intro ps
  induction ps with
  | nil => intro a; rfl
  | cons p rest ih =>
    intro a
    obtain ⟨evs, chk⟩ := p
    simp only [runPhases, List.map_cons, runLevels_indep hi b evs a]
    cases runLevels occOps c false (evs.map clr) a with
    | mk a1 st =>
      cases st with
      | some x => rfl
      | none =>
        simp only
        cases (chk && occOps.occurred a1)
        · exact ih a1
        · rfl

theorem levelsOf_clearFull (c : ExitDiscCfg) (enabled : Nat → Bool) (evs : List Ev) :
    levelsOf c enabled (clearFull evs) = (levelsOf c enabled evs).map clr := by
  induction evs with
  | nil => rfl
  | cons e rest ih =>
    have he : evLevel c enabled { e with full := false } = evLevel c enabled e := rfl
    simp only [clearFull, List.map_cons, levelsOf, List.filterMap_cons, he] at ih ⊢
    cases evLevel c enabled e with
    | none => simpa using ih
    | some l => simpa [clr] using ih

theorem runMain_stop_indep {c : ExitDiscCfg} (hi : indepOk c = true) (buffered : Bool) (enabled : Nat → Bool)
    (parse resolve backend : List Ev) :
    (runMain c buffered enabled parse resolve backend).2 =
      (runMain c false enabled (clearFull parse) (clearFull resolve) (clearFull backend)).2 := by
  have hL := congrArg Prod.snd (runPhases_hom occ_hom c buffered
    [(levelsOf c enabled parse, c.checks.getD 0 false), (levelsOf c enabled resolve, c.checks.getD 1 false),
     (levelsOf c enabled backend, c.checks.getD 2 false)] RState.init)
  have hR := congrArg Prod.snd (runPhases_hom occ_hom c false
    [(levelsOf c enabled (clearFull parse), c.checks.getD 0 false), (levelsOf c enabled (clearFull resolve), c.checks.getD 1 false),
     (levelsOf c enabled (clearFull backend), c.checks.getD 2 false)] RState.init)
  simp only at hL hR
  unfold runMain
  rw [hL, hR, runPhases_indep hi buffered]
  simp [levelsOf_clearFull]

/-- **C06, the verdict does not depend on -B**: for every sequence of reports and every -w and -i setting, a run with -B —
however often the message buffer fills up on the way — ends exactly like the run without -B: the same exit status, or
abort() at the same report. -/
theorem C06_exit_status_independent_of_buffering (buffered : Bool) (enabled : Nat → Bool) (parse resolve backend : List Ev) :
    (runMain exitDiscCfg buffered enabled parse resolve backend).2 =
      (runMain exitDiscCfg false enabled (clearFull parse) (clearFull resolve) (clearFull backend)).2 :=
  runMain_stop_indep (by decide) buffered enabled parse resolve backend

/-- the tree before C06-37: with -B, a full buffer after a warning ended the run with the failure status -/
theorem C06_full_buffer_exit_witness :
    let c := { exitDiscCfg with symBuffered := { exitDiscCfg.symBuffered with alsoWhenFull := true, fullActs := [] }, sevs := [0, 0], subordinate := 0 }
    (runMain c true (fun _ => true) [] [⟨1, true, true⟩] []).2 = some (.exited c.failStatus) ∧
    (runMain c false (fun _ => true) [] [⟨1, true, false⟩] []).2 = some (.exited c.succStatus) := by
  decide

/-- **C06, the other exits**: every other `exit( )` in the sources of the four tools with a status that is not literally
0 comes after output to stderr in the same function (or in a function it calls), `main` tests the usage function pointer
before calling it, and only check-express relies on that. -/
theorem C06_every_exit_site_prints :
    (∀ site ∈ exitSites, site.2.1 ≠ "0" → site.2.2 = true) ∧ usageFallback = true := by
  decide

/-- the configurations found before the fixes: the success path did not flush (warnings of a clean run lost with -B) -/
theorem C06_success_without_flush_witness :
    let c := { exitDiscCfg with succActs := [], sevs := [0, 0], subordinate := 0 }
    ∃ s, runMain c true (fun _ => true) [⟨1, true, false⟩] [] [] = (s, some (.exited c.succStatus)) ∧ s.pending = 1 ∧ s.printed = 0 := by
  refine ⟨_, rfl, ?_, ?_⟩ <;> decide

/-! ## marked walks in general: one theorem, every walk an instance through its regenerated shape -/

/-- what a marked walk that returned has done: kept every earlier mark, marked its start, marked nothing outside the universe -/
def WalkSound (u marked : List Nat) (e : Nat) (m : List Nat) : Prop :=
  (∀ x, x ∈ marked → x ∈ m) ∧ e ∈ m ∧ ∀ x, x ∈ m → x ∈ marked ∨ x ∈ u

theorem visitSupers_sound (u : List Nat) (h : Hier) (fuel : Nat)
    (IH : ∀ marked e m, e ∈ u → visit true h fuel marked e = some m → WalkSound u marked e m) :
    ∀ (rest marked m : List Nat), (∀ y, y ∈ rest → y ∈ u) → visitSupers true h fuel marked rest = some m →
      (∀ x, x ∈ marked → x ∈ m) ∧ ∀ x, x ∈ m → x ∈ marked ∨ x ∈ u := by
  intro rest
  induction rest with
  | nil =>
    intro marked m _ hv
    simp [visitSupers] at hv
    subst hv
    exact ⟨fun x hx => hx, fun x hx => Or.inl hx⟩
  | cons s rest ih =>
    intro marked m hu hv
    by_cases hs : s ∈ marked
    · simp [visitSupers, hs] at hv
      exact ih marked m (fun y hy => hu y (List.mem_cons_of_mem _ hy)) hv
    · simp only [visitSupers, hs, if_false] at hv
      cases h1 : visit true h fuel marked s with
      | none => simp [h1] at hv
      | some m1 =>
        simp only [h1] at hv
        obtain ⟨a1, _, c1⟩ := IH marked s m1 (hu s List.mem_cons_self) h1
        obtain ⟨a2, c2⟩ := ih m1 m (fun y hy => hu y (List.mem_cons_of_mem _ hy)) hv
        refine ⟨fun x hx => a2 x (a1 x hx), fun x hx => ?_⟩
        rcases c2 x hx with hx1 | hx1
        · exact c1 x hx1
        · exact Or.inr hx1

theorem visit_sound (u : List Nat) (h : Hier) (hc : Closed u h) :
    ∀ (fuel : Nat) (marked : List Nat) (e : Nat) (m : List Nat), e ∈ u → visit true h fuel marked e = some m →
      WalkSound u marked e m := by
  intro fuel
  induction fuel with
  | zero => intro marked e m _ hv; simp [visit] at hv
  | succ fuel IH =>
    intro marked e m he hv
    simp only [visit, if_true] at hv
    cases h1 : visitSupers true h fuel (e :: marked) (h e) with
    | none => simp [h1] at hv
    | some m1 =>
      simp [h1] at hv
      subst hv
      obtain ⟨a, c⟩ := visitSupers_sound u h fuel IH (h e) (e :: marked) m1 (hc e he) h1
      refine ⟨fun x hx => a x (List.mem_cons_of_mem _ hx), a e List.mem_cons_self, fun x hx => ?_⟩
      rcases c x hx with hx1 | hx1
      · rcases List.mem_cons.mp hx1 with rfl | hx2
        · exact Or.inr he
        · exact Or.inl hx2
      · exact Or.inr hx1

/-- the shape of a recursive C function over a graph, as the extractor reports it: its name and whether it puts a mark that
stays (guard form, mark before the recursion, nothing in the body restarts a search) -/
abbrev WalkShape := String × Bool

/-- **C06, marked walks in general**: for every table of walk shapes all of whose entries carry the mark — whatever the
functions are — every walk of the table returns on every finite graph from every start, within fuel |nodes| + 1, keeps
the marks it found, marks its start and marks nothing outside the graph.  A new recursive function is covered by adding
its regenerated shape to a table; nothing else has to be proved. -/
theorem C06_marked_walks_terminate (tbl : List WalkShape) (hall : tbl.all (fun p => p.2) = true)
    (w : String) (mf : Bool) (hm : (w, mf) ∈ tbl)
    (u : List Nat) (h : Hier) (hc : Closed u h) (marked : List Nat) (e : Nat) (he : e ∈ u) :
    ∃ m, visit mf h (u.length + 1) marked e = some m ∧ WalkSound u marked e m := by
  have : mf = true := List.all_eq_true.mp hall (w, mf) hm
  subst this
  obtain ⟨m, hv⟩ := visit_terminates u h hc marked e he
  exact ⟨m, hv, visit_sound u h hc (u.length + 1) marked e m he hv⟩

/-- every recursive function over a possibly cyclic graph that C06 covers through its mark, with its regenerated shape -/
def markedWalks : List WalkShape :=
  [("ENTITYcalculate_inheritance", inheritanceMarkFirst), ("ENTITY_get_named_attribute_once", namedAttrMarkFirst),
   ("EXP_resolve_op_dot_fuzzy / EXP_resolve_op_group_fuzzy", selectSearchMarkStable)] ++ graphWalks

/-- **C06, all marked walks of the tools** (11 C functions): each is an instance of `C06_marked_walks_terminate` through its
regenerated shape; `C06_inheritance_terminates`, `C06_named_attribute_terminates`, `C06_select_qualifier_terminates` and
`C06_import_graph_walks_terminate` are the entries of this table (and follow from it, see the examples below), now with
what the walk leaves behind as well. -/
theorem C06_all_marked_walks (w : String) (mf : Bool) (hm : (w, mf) ∈ markedWalks)
    (u : List Nat) (h : Hier) (hc : Closed u h) (marked : List Nat) (e : Nat) (he : e ∈ u) :
    ∃ m, visit mf h (u.length + 1) marked e = some m ∧ WalkSound u marked e m :=
  C06_marked_walks_terminate markedWalks (by decide) w mf hm u h hc marked e he

/-- a table with an unmarked entry is refused: the general theorem has nothing to say about it, and the walk it describes
need not return (`C06_recursion_unmarked_witness`) -/
theorem C06_unmarked_shape_not_covered :
    ([("seed a1", false)] : List WalkShape).all (fun p => p.2) = false ∧
    ∀ fuel, visit false (fun _ => [0]) fuel [] 0 = none :=
  ⟨by decide, visit_unmarked_self_loop⟩

-- the four earlier theorems as corollaries of the table
example (u : List Nat) (h : Hier) (hc : Closed u h) (marked : List Nat) (e : Nat) (he : e ∈ u) :
    ∃ m, visit inheritanceMarkFirst h (u.length + 1) marked e = some m := by
  obtain ⟨m, hv, _⟩ := C06_all_marked_walks "ENTITYcalculate_inheritance" inheritanceMarkFirst (by simp [markedWalks]) u h hc marked e he
  exact ⟨m, hv⟩

example (u : List Nat) (h : Hier) (hc : Closed u h) (marked : List Nat) (e : Nat) (he : e ∈ u) :
    ∃ m, visit namedAttrMarkFirst h (u.length + 1) marked e = some m := by
  obtain ⟨m, hv, _⟩ := C06_all_marked_walks "ENTITY_get_named_attribute_once" namedAttrMarkFirst (by simp [markedWalks]) u h hc marked e he
  exact ⟨m, hv⟩

example (u : List Nat) (h : Hier) (hc : Closed u h) (marked : List Nat) (e : Nat) (he : e ∈ u) :
    ∃ m, visit selectSearchMarkStable h (u.length + 1) marked e = some m := by
  obtain ⟨m, hv, _⟩ := C06_all_marked_walks "EXP_resolve_op_dot_fuzzy / EXP_resolve_op_group_fuzzy" selectSearchMarkStable (by simp [markedWalks]) u h hc marked e he
  exact ⟨m, hv⟩

example (w : String) (mf : Bool) (hm : (w, mf) ∈ graphWalks)
    (u : List Nat) (h : Hier) (hc : Closed u h) (marked : List Nat) (e : Nat) (he : e ∈ u) :
    ∃ m, visit mf h (u.length + 1) marked e = some m := by
  obtain ⟨m, hv, _⟩ := C06_all_marked_walks w mf (by simp [markedWalks, hm]) u h hc marked e he
  exact ⟨m, hv⟩

/-! ## marked walks: nothing reachable is left out -/

/-- every node the walk marked itself has all its successors marked when the walk returns -/
def WalkClosed (h : Hier) (marked m : List Nat) : Prop :=
  ∀ x, x ∈ m → x ∉ marked → ∀ y, y ∈ h x → y ∈ m

theorem visitSupers_closed (u : List Nat) (h : Hier) (hc : Closed u h) (fuel : Nat)
    (IH : ∀ marked e m, e ∈ u → visit true h fuel marked e = some m → WalkClosed h marked m) :
    ∀ (rest marked m : List Nat), (∀ y, y ∈ rest → y ∈ u) → visitSupers true h fuel marked rest = some m →
      (∀ s, s ∈ rest → s ∈ m) ∧ (∀ x, x ∈ marked → x ∈ m) ∧ WalkClosed h marked m := by
  intro rest
  induction rest with
  | nil =>
    intro marked m _ hv
    simp [visitSupers] at hv
    subst hv
    exact ⟨by simp, fun x hx => hx, fun x hx hn => absurd hx hn⟩
  | cons s rest ih =>
    intro marked m hu hv
    by_cases hs : s ∈ marked
    · simp [visitSupers, hs] at hv
      obtain ⟨a, b, c⟩ := ih marked m (fun y hy => hu y (List.mem_cons_of_mem _ hy)) hv
      refine ⟨fun t ht => ?_, b, c⟩
      rcases List.mem_cons.mp ht with rfl | ht'
      · exact b _ hs
      · exact a t ht'
    · simp only [visitSupers, hs, if_false] at hv
      cases h1 : visit true h fuel marked s with
      | none => simp [h1] at hv
      | some m1 =>
        simp only [h1] at hv
        have hsu := hu s List.mem_cons_self
        obtain ⟨sub1, smem, _⟩ := visit_sound u h hc fuel marked s m1 hsu h1
        have c1 := IH marked s m1 hsu h1
        obtain ⟨a, b, c⟩ := ih m1 m (fun y hy => hu y (List.mem_cons_of_mem _ hy)) hv
        refine ⟨fun t ht => ?_, fun x hx => b x (sub1 x hx), fun x hx hn y hy => ?_⟩
        · rcases List.mem_cons.mp ht with rfl | ht'
          · exact b _ smem
          · exact a t ht'
        · by_cases hx1 : x ∈ m1
          · exact b y (c1 x hx1 hn y hy)
          · exact c x hx hx1 y hy

theorem visit_closed (u : List Nat) (h : Hier) (hc : Closed u h) :
    ∀ (fuel : Nat) (marked : List Nat) (e : Nat) (m : List Nat), e ∈ u → visit true h fuel marked e = some m →
      WalkClosed h marked m := by
  intro fuel
  induction fuel with
  | zero => intro marked e m _ hv; simp [visit] at hv
  | succ fuel IH =>
    intro marked e m he hv
    simp only [visit, if_true] at hv
    cases h1 : visitSupers true h fuel (e :: marked) (h e) with
    | none => simp [h1] at hv
    | some m1 =>
      simp [h1] at hv
      subst hv
      obtain ⟨a, b, c⟩ := visitSupers_closed u h hc fuel IH (h e) (e :: marked) m1 (hc e he) h1
      intro x hx hn y hy
      by_cases hxe : x = e
      · subst hxe; exact a y hy
      · exact c x hx (by
          intro hc'
          rcases List.mem_cons.mp hc' with h2 | h2
          · exact hxe h2
          · exact hn h2) y hy

/-- nodes reachable from `e` along successor edges -/
inductive Reach (h : Hier) : Nat → Nat → Prop where
  | refl (a : Nat) : Reach h a a
  | step {a b c : Nat} : Reach h a b → c ∈ h b → Reach h a c

/-- **C06, a marked walk leaves nothing out**: when a walk of the table starts with no marks, everything reachable from
the start is marked when it returns (and, by `C06_marked_walks_terminate`, nothing else outside the old marks): each of
the 11 functions sees every ancestor / member / schema exactly once — the property `ENTITYget_all_attributes` needs to
return every inherited attribute once (C06-38), and the cyclicity checks need to find every cycle. -/
theorem C06_marked_walks_complete (w : String) (mf : Bool) (hm : (w, mf) ∈ markedWalks)
    (u : List Nat) (h : Hier) (hc : Closed u h) (e : Nat) (he : e ∈ u) :
    ∃ m, visit mf h (u.length + 1) [] e = some m ∧ ∀ y, Reach h e y → y ∈ m := by
  obtain ⟨m, hv, _, hem, _⟩ := C06_all_marked_walks w mf hm u h hc [] e he
  have hmf : mf = true := List.all_eq_true.mp (by decide : markedWalks.all (fun p => p.2) = true) (w, mf) hm
  subst hmf
  have hcl := visit_closed u h hc (u.length + 1) [] e m he hv
  refine ⟨m, hv, fun y hr => ?_⟩
  induction hr with
  | refl => exact hem
  | step _ hcb ih => exact hcl _ ih (by simp) _ hcb

/-- with earlier marks in place the walk still closes what it marks itself: a successor of a newly marked node is marked -/
theorem C06_marked_walks_closed (w : String) (mf : Bool) (hm : (w, mf) ∈ markedWalks)
    (u : List Nat) (h : Hier) (hc : Closed u h) (marked : List Nat) (e : Nat) (he : e ∈ u) :
    ∃ m, visit mf h (u.length + 1) marked e = some m ∧ WalkClosed h marked m := by
  obtain ⟨m, hv, _⟩ := C06_all_marked_walks w mf hm u h hc marked e he
  have hmf : mf = true := List.all_eq_true.mp (by decide : markedWalks.all (fun p => p.2) = true) (w, mf) hm
  subst hmf
  exact ⟨m, hv, visit_closed u h hc (u.length + 1) marked e m he hv⟩

/-! ## walks that remember what they expanded: nothing reachable is left out -/

theorem walkStepsList_closed (h : Hier) (fuel : Nat)
    (IH : ∀ seen e s k, walkSteps true h fuel seen e = some (s, k) →
      (∀ x, x ∈ seen → x ∈ s) ∧ e ∈ s ∧ WalkClosed h seen s) :
    ∀ (cs seen s : List Nat) (k : Nat), walkStepsList true h fuel seen cs = some (s, k) →
      (∀ c, c ∈ cs → c ∈ s) ∧ (∀ x, x ∈ seen → x ∈ s) ∧ WalkClosed h seen s := by
  intro cs
  induction cs with
  | nil =>
    intro seen s k hv
    simp [walkStepsList] at hv
    obtain ⟨rfl, _⟩ := hv
    exact ⟨by simp, fun x hx => hx, fun x hx hn => absurd hx hn⟩
  | cons c rest ih =>
    intro seen s k hv
    simp only [walkStepsList] at hv
    cases h1 : walkSteps true h fuel seen c with
    | none => simp [h1] at hv
    | some r1 =>
      obtain ⟨s1, k1⟩ := r1
      simp only [h1] at hv
      cases h2 : walkStepsList true h fuel s1 rest with
      | none => simp [h2] at hv
      | some r2 =>
        obtain ⟨s2, k2⟩ := r2
        simp [h2] at hv
        obtain ⟨rfl, _⟩ := hv
        obtain ⟨sub1, cm, c1⟩ := IH seen c s1 k1 h1
        obtain ⟨a, b, c2⟩ := ih s1 s2 k2 h2
        refine ⟨fun t ht => ?_, fun x hx => b x (sub1 x hx), fun x hx hn y hy => ?_⟩
        · rcases List.mem_cons.mp ht with rfl | ht'
          · exact b _ cm
          · exact a t ht'
        · by_cases hx1 : x ∈ s1
          · exact b y (c1 x hx1 hn y hy)
          · exact c2 x hx hx1 y hy

theorem walkSteps_closed (h : Hier) :
    ∀ (fuel : Nat) (seen : List Nat) (e : Nat) (s : List Nat) (k : Nat), walkSteps true h fuel seen e = some (s, k) →
      (∀ x, x ∈ seen → x ∈ s) ∧ e ∈ s ∧ WalkClosed h seen s := by
  intro fuel
  induction fuel with
  | zero => intro seen e s k hv; simp [walkSteps] at hv
  | succ fuel IH =>
    intro seen e s k hv
    by_cases hs : e ∈ seen
    · simp [walkSteps, hs] at hv
      obtain ⟨rfl, _⟩ := hv
      exact ⟨fun x hx => hx, hs, fun x hx hn => absurd hx hn⟩
    · simp only [walkSteps, hs, Bool.true_and, decide_false, Bool.false_eq_true, if_false, if_true] at hv
      cases h1 : walkStepsList true h fuel (e :: seen) (h e) with
      | none => simp [h1] at hv
      | some r1 =>
        obtain ⟨s1, k1⟩ := r1
        simp [h1] at hv
        obtain ⟨rfl, _⟩ := hv
        obtain ⟨a, b, c⟩ := walkStepsList_closed h fuel IH (h e) (e :: seen) s1 k1 h1
        refine ⟨fun x hx => b x (List.mem_cons_of_mem _ hx), b e List.mem_cons_self, fun x hx hn y hy => ?_⟩
        by_cases hxe : x = e
        · subst hxe; exact a y hy
        · exact c x hx (by
            intro hc'
            rcases List.mem_cons.mp hc' with h2 | h2
            · exact hxe h2
            · exact hn h2) y hy

/-- **C06, a walk that remembers what it expanded leaves nothing out**: for `ENTITYget_all_attributes`, exp2python's ancestor
test and exp2cxx's select path count (the regenerated `dagWalks`), started with an empty memory, every node reachable from
the start has been expanded when the walk returns — in at most one call per edge (`C06_dag_walks_linear`).  Together: every
ancestor contributes its attributes, and contributes them once. -/
theorem C06_dag_walks_complete (w : String) (memo : Bool) (hm : (w, memo) ∈ dagWalks)
    (u : List Nat) (h : Hier) (hc : Closed u h) (e : Nat) (he : e ∈ u) :
    ∃ s k, walkSteps memo h (u.length + 1) [] e = some (s, k) ∧ k ≤ (u.map (fun x => (h x).length)).sum + 1 ∧
      ∀ y, Reach h e y → y ∈ s := by
  obtain ⟨s, k, hw, hk⟩ := C06_dag_walks_linear w memo hm u h hc [] e he
  have hmemo : memo = true := List.all_eq_true.mp (by decide : dagWalks.all (fun p => p.2) = true) (w, memo) hm
  subst hmemo
  obtain ⟨_, hes, hcl⟩ := walkSteps_closed h (u.length + 1) [] e s k hw
  refine ⟨s, k, hw, hk, fun y hr => ?_⟩
  induction hr with
  | refl => exact hes
  | step _ hcb ih => exact hcl _ ih (by simp) _ hcb

end StepModel.C06

import StepModel.ExpressDiagLemmas
import StepModel.ExpressResolveLemmas
import StepModel.ExpressWF
import StepModel.ExpressLookup
import StepModel.Props.C20
/-!
# C04 — all EXPRESS tools give the same, correct verdict on a schema

Statement (properties.jsonl): a well-formed file is accepted (exit 0, no ERROR) by check-express, exppp, exp2cxx and
exp2python; a file with a fault of the listed classes is rejected by all of them with at least one ERROR and a non-zero
exit status, no artefact is presented as a success; exit status ≠ 0 exactly when an ERROR (not merely a WARNING) was
printed.

Theorems are about `Express.Diag.runMain` (fedex.c main with its three gates, regenerated), the regenerated severity
table, and `Express.Resolve` (declaration level, one schema per file).  The cycle theorems mention the regenerated
constants `ResolveGen.visitedReturns…`: they stop checking when a cycle search `return 0`s on a visited node.
-/
namespace StepModel.Express.C04
open StepModel.Generated
open StepModel.Express.Diag
open StepModel.Express.Resolve

def isErr (code : Nat) : Bool := decide (severityOf code ≥ LibErrors.SEVERITY_ERROR)
def errorPrinted (l : List (Nat × List Char)) : Bool := l.any (fun q => isErr q.1)

/-! ## exit status ⇔ ERROR printed -/

/-- invariant of the reporting loop: the sticky flag says exactly whether an ERROR-or-worse message was printed, and
    a run that was cut short (exit / abort) has printed one -/
def Inv (r : Run) : Prop :=
  r.occurred = errorPrinted r.printed ∧ (r.halt.isSome → r.occurred = true) ∧
  (∀ rc, r.halt = some (.exit rc) → rc = LibErrors.failStatus)

theorem inv_empty : Inv emptyRun := by simp [Inv, emptyRun, errorPrinted]

theorem exit_is_error {c : Nat} (h : severityOf c ≥ LibErrors.SEVERITY_EXIT) : severityOf c ≥ LibErrors.SEVERITY_ERROR := by
  have : LibErrors.SEVERITY_ERROR ≤ LibErrors.SEVERITY_EXIT := by decide
  omega

theorem dump_is_error {c : Nat} (h : severityOf c ≥ LibErrors.SEVERITY_DUMP) : severityOf c ≥ LibErrors.SEVERITY_ERROR := by
  have : LibErrors.SEVERITY_ERROR ≤ LibErrors.SEVERITY_DUMP := by decide
  omega

theorem report_inv (fwd : Bool) (amb : Ambient) (ov : Overrides) :
    ∀ (ds : List Diag) (r : Run), r.halt = none → Inv r → Inv (report fwd amb ov ds r)
  | [], r, _, h => by simpa [report] using h
  | d :: ds, r, hn, h => by
    simp only [report]
    split
    · exact report_inv fwd amb ov ds r hn h
    · obtain ⟨h1, h2, _⟩ := h
      by_cases s3 : severityOf d.code ≥ LibErrors.SEVERITY_DUMP
      · simp only [s3, if_true]
        have := dump_is_error s3
        simp [Inv, errorPrinted, isErr, h1, this, List.any_append]
      · by_cases s2 : severityOf d.code ≥ LibErrors.SEVERITY_EXIT
        · simp only [s3, s2, if_true, if_false]
          have := exit_is_error s2
          simp [Inv, errorPrinted, isErr, h1, this, List.any_append]
        · simp only [s3, s2, if_false]
          exact report_inv fwd amb ov ds _ hn
            ⟨by simp [errorPrinted, isErr, h1, List.any_append], by simp [hn], by simp [hn]⟩

theorem report_halt_mono (fwd : Bool) (amb : Ambient) (ov : Overrides) :
    ∀ (ds : List Diag) (r : Run), r.halt = none → (report fwd amb ov ds r).halt = none →
      True := fun _ _ _ _ => trivial

/-- **exit status is non-zero exactly when an ERROR was printed** — for every tool, every override column, every
    sequence of diagnostics in the three phases; uses the regenerated gates, statuses and severities -/
theorem C04_exit_iff_error (tool : Tool) (fwd : Bool) (amb : Ambient) (ov : Overrides) (p r b : List Diag) :
    (runMain tool fwd amb ov p r b).status ≠ some 0 ↔ errorPrinted (runMain tool fwd amb ov p r b).printed = true := by
  have g1 : LibErrors.gateAfterParse = true := by decide
  have g2 : LibErrors.gateAfterResolve = true := by decide
  have g3 : LibErrors.gateAfterBackend = true := by decide
  have f0 : LibErrors.failStatus ≠ 0 := by decide
  have s0 : succeedStatusOf tool = 0 := by cases tool <;> decide
  have i1 := report_inv fwd amb ov p emptyRun rfl inv_empty
  simp only [runMain]
  cases hh1 : (report fwd amb ov p emptyRun).halt with
  | some h =>
    have ho := i1.2.1 (by simp [hh1])
    cases h with
    | abort => simp [haltResult, ← i1.1, ho]
    | exit rc => have := i1.2.2 rc hh1; subst this; simp [haltResult, f0, ← i1.1, ho]
  | none =>
    simp only [g1, true_and]
    by_cases ho1 : (report fwd amb ov p emptyRun).occurred = true
    · simp [ho1, failResult, f0, ← i1.1]
    · simp only [ho1, if_false, Bool.false_eq_true]
      have i2 := report_inv fwd amb ov r _ hh1 i1
      cases hh2 : (report fwd amb ov r (report fwd amb ov p emptyRun)).halt with
      | some h =>
        have ho := i2.2.1 (by simp [hh2])
        cases h with
        | abort => simp [haltResult, ← i2.1, ho]
        | exit rc => have := i2.2.2 rc hh2; subst this; simp [haltResult, f0, ← i2.1, ho]
      | none =>
        simp only [g2, true_and]
        by_cases ho2 : (report fwd amb ov r (report fwd amb ov p emptyRun)).occurred = true
        · simp [ho2, failResult, f0, ← i2.1]
        · simp only [ho2, if_false, Bool.false_eq_true]
          have i3 : Inv (if hasBackend tool = true then report fwd amb ov b (report fwd amb ov r (report fwd amb ov p emptyRun))
                         else report fwd amb ov r (report fwd amb ov p emptyRun)) := by
            split
            · exact report_inv fwd amb ov b _ hh2 i2
            · exact i2
          generalize (if hasBackend tool = true then report fwd amb ov b (report fwd amb ov r (report fwd amb ov p emptyRun))
                         else report fwd amb ov r (report fwd amb ov p emptyRun)) = r3 at i3 ⊢
          cases hh3 : r3.halt with
          | some h =>
            have ho := i3.2.1 (by simp [hh3])
            cases h with
            | abort => simp [haltResult, ← i3.1, ho]
            | exit rc => have := i3.2.2 rc hh3; subst this; simp [haltResult, f0, ← i3.1, ho]
          | none =>
            simp only [g3, true_and]
            by_cases ho3 : r3.occurred = true
            · simp [ho3, failResult, f0, ← i3.1]
            · simp [ho3, s0, ← i3.1]

/-- a run whose diagnostics are all warnings exits 0 (corollary, stated on what was printed) -/
theorem C04_warning_only_exit0 (tool : Tool) (fwd : Bool) (amb : Ambient) (ov : Overrides) (p r b : List Diag)
    (h : errorPrinted (runMain tool fwd amb ov p r b).printed = false) :
    (runMain tool fwd amb ov p r b).status = some 0 := by
  by_cases hc : (runMain tool fwd amb ov p r b).status = some 0
  · exact hc
  · have := (C04_exit_iff_error tool fwd amb ov p r b).mp hc
    simp [h] at this

/-- the four front ends share parse and resolve: same diagnostics, same accept/reject (backends that report nothing) -/
theorem C04_tools_agree (t₁ t₂ : Tool) (fwd : Bool) (amb : Ambient) (ov : Overrides) (p r : List Diag) :
    (runMain t₁ fwd amb ov p r []).printed = (runMain t₂ fwd amb ov p r []).printed ∧
    ((runMain t₁ fwd amb ov p r []).status = some 0 ↔ (runMain t₂ fwd amb ov p r []).status = some 0) := by
  have hp : (runMain t₁ fwd amb ov p r []).printed = (runMain t₂ fwd amb ov p r []).printed := by
    simp only [runMain, report]
    cases (report fwd amb ov p emptyRun).halt with
    | some h => cases h <;> simp [haltResult]
    | none =>
      simp only
      split
      · simp [failResult]
      · cases (report fwd amb ov r (report fwd amb ov p emptyRun)).halt with
        | some h => cases h <;> simp [haltResult]
        | none =>
          simp only
          split
          · simp [failResult]
          · simp only [ite_self]
            cases (report fwd amb ov r (report fwd amb ov p emptyRun)).halt with
            | some h => cases h <;> simp [haltResult]
            | none => simp only; split <;> simp [failResult]
  refine ⟨hp, ?_⟩
  have e₁ := C04_exit_iff_error t₁ fwd amb ov p r []
  have e₂ := C04_exit_iff_error t₂ fwd amb ov p r []
  rw [hp] at e₁
  constructor
  · intro h
    by_cases hc : (runMain t₂ fwd amb ov p r []).status = some 0
    · exact hc
    · exact absurd h (e₁.mpr (e₂.mp hc))
  · intro h
    by_cases hc : (runMain t₁ fwd amb ov p r []).status = some 0
    · exact hc
    · exact absurd h (e₂.mpr (e₁.mp hc))

/-- the backend (the only writer of artefacts) runs only when neither parsing nor resolution printed an ERROR -/
theorem C04_no_artefact_on_error (tool : Tool) (fwd : Bool) (amb : Ambient) (ov : Overrides) (p r b : List Diag)
    (h : (runMain tool fwd amb ov p r b).backendRan = true) :
    errorPrinted (report fwd amb ov r (report fwd amb ov p emptyRun)).printed = false := by
  have g1 : LibErrors.gateAfterParse = true := by decide
  have g2 : LibErrors.gateAfterResolve = true := by decide
  have i1 := report_inv fwd amb ov p emptyRun rfl inv_empty
  simp only [runMain] at h
  cases hh1 : (report fwd amb ov p emptyRun).halt with
  | some x => rw [hh1] at h; cases x <;> simp [haltResult] at h
  | none =>
    rw [hh1] at h
    simp only [g1, true_and] at h
    by_cases ho1 : (report fwd amb ov p emptyRun).occurred = true
    · simp [ho1, failResult] at h
    · simp only [ho1, if_false, Bool.false_eq_true] at h
      have i2 := report_inv fwd amb ov r _ hh1 i1
      cases hh2 : (report fwd amb ov r (report fwd amb ov p emptyRun)).halt with
      | some x => rw [hh2] at h; cases x <;> simp [haltResult] at h
      | none =>
        rw [hh2] at h
        simp only [g2, true_and] at h
        by_cases ho2 : (report fwd amb ov r (report fwd amb ov p emptyRun)).occurred = true
        · simp [ho2, failResult] at h
        · rw [← i2.1]; simpa using ho2

/-! ## cycles (DESIGN §6 row 20) -/

/-- with the sibling loop as it is now (regenerated), a sub/super cycle through `e` is always found: a finished
    search that did not report proves there is none — any graph, any sibling order, any fuel -/
theorem C04_subsuper_cycle_reported (e : String) (g : String → List String) (fuel : Nat) (r : Dfs)
    (h : dfs ResolveGen.visitedReturnsSubsuper e g fuel (g e) [] = some r) (hc : Reach g e e) : r.found = true := by
  have hv : ResolveGen.visitedReturnsSubsuper = false := by decide
  rw [hv] at h
  cases hf : r.found with
  | true => rfl
  | false => exact absurd hc (dfs_complete e g fuel r h hf)

theorem C04_select_cycle_reported (e : String) (g : String → List String) (fuel : Nat) (r : Dfs)
    (h : dfs ResolveGen.visitedReturnsSelect e g fuel (g e) [] = some r) (hc : Reach g e e) : r.found = true := by
  have hv : ResolveGen.visitedReturnsSelect = false := by decide
  rw [hv] at h
  cases hf : r.found with
  | true => rfl
  | false => exact absurd hc (dfs_complete e g fuel r h hf)

/-- and a cycle is reported only when there is one (either variant) -/
theorem C04_cycle_reported_only_if_cyclic (ret : Bool) (e : String) (g : String → List String) (fuel : Nat) (r : Dfs)
    (h : dfs ret e g fuel (g e) [] = some r) (hf : r.found = true) : Reach g e e :=
  (dfs_sound ret e g fuel (g e) [] r h hf e (fun _ hc => Reach.step hc)).1

/-- the `return 0` variant misses a cycle hidden behind an already-visited sibling (the graph of
    `q SUBTYPE OF (v1, v2)`, `v1 SUPERTYPE OF (ONEOF(q, v2)) SUBTYPE OF (v2)`, `v2 SUPERTYPE OF (ONEOF(q, v1)) SUBTYPE OF (v1)`) -/
def witnessGraph : String → List String
  | "v1" => ["q", "v2"]
  | "v2" => ["q", "v1"]
  | _ => []

theorem C04_visited_return_witness :
    (dfs true "v1" witnessGraph 10 (witnessGraph "v1") []).map (·.found) = some false ∧
    (dfs true "v2" witnessGraph 10 (witnessGraph "v2") []).map (·.found) = some false ∧
    (dfs true "q" witnessGraph 10 (witnessGraph "q") []).map (·.found) = some false ∧
    Reach witnessGraph "v1" "v1" ∧
    (dfs false "v1" witnessGraph 10 (witnessGraph "v1") []).map (·.found) = some true := by
  refine ⟨by decide, by decide, by decide, ?_, by decide⟩
  exact .trans (b := "v2") (by decide) (.step (by decide))

/-! ## imports (USE / REFERENCE): the verdict does not depend on the order in which pass 2 visits the schemas -/

/-- what a schema hands out under a name (`SCOPEfind_for_rename`) is the same whichever schemas pass 2 has already
    been through — for every file whose USE clauses do not bind one visible name twice, every fuel.  Needs the
    regenerated `renameUselistFallback` (the on-demand scan of the exporting schema's `uselist`): without it the
    answer depends on hash order (next theorem). -/
theorem C04_import_order_independent (f : File) (hnd : NoDupAlias f) (p₁ p₂ : String → Bool) (fuel : Nat) :
    exportOf f ResolveGen.renameUselistFallback p₁ fuel = exportOf f ResolveGen.renameUselistFallback p₂ fuel := by
  have hv : ResolveGen.renameUselistFallback = true := by decide
  rw [hv]
  exact exportOf_order_independent f hnd p₁ p₂ fuel

/-- hence the REF_NONEXISTENT / duplicate-alias diagnostics of pass 2 are the same for every visiting order -/
theorem C04_pass2_order_independent (f : File) (hnd : NoDupAlias f) (p₁ p₂ : String → Bool) (items : List (String × Item)) :
    resolvedItems f ResolveGen.renameUselistFallback p₁ items = resolvedItems f ResolveGen.renameUselistFallback p₂ items := by
  simp only [resolvedItems, C04_import_order_independent f hnd p₁ p₂]

/-- a valid chained import, `design: USE FROM catalogue (point)`, `catalogue: USE FROM geometry (point)`, `geometry`
    declares `point` -/
def chainFile : File :=
  ⟨"c.exp",
   [⟨"design", 0, [], [⟨.use, "catalogue", 1, some [⟨"point", none, 1⟩]⟩], none⟩,
    ⟨"catalogue", 5, [], [⟨.use, "geometry", 6, some [⟨"point", none, 6⟩]⟩], none⟩,
    ⟨"geometry", 9, [.entity ⟨"point", 10, [], [], [], [], [], false⟩], [], none⟩], []⟩

/-- without the fall-back scan the chained import resolves only when the re-exporting schema was visited first -/
theorem C04_import_order_witness :
    exportOf chainFile false (fun _ => false) 5 "catalogue" "point" = none ∧
    exportOf chainFile false (fun T => T = "catalogue") 5 "catalogue" "point" = some ⟨"geometry", "point", .entity⟩ ∧
    exportOf chainFile true (fun _ => false) 5 "catalogue" "point" = some ⟨"geometry", "point", .entity⟩ := by
  decide

example : NoDupAlias chainFile := by
  intro s hs
  simp [chainFile] at hs
  rcases hs with rfl | rfl | rfl <;> decide

/-! ## fault classes of the declaration-level model: an ERROR is produced -/

theorem hasError_of_mem {ds : List Diag} {d : Diag} (h : d ∈ ds) (he : isErrorCode d.code = true) : hasError ds = true := by
  simp only [hasError, List.any_eq_true]; exact ⟨d, h, he⟩

/-! ### ERROR ⇔ not well-formed, class by class (the predicates are in `StepModel/ExpressWF.lean`) -/

/-- **duplicate declaration in one scope** (`DICTdefine`: attributes of an entity, items of an enumeration): an ERROR is reported
    exactly when two names entered into the scope coincide -/
theorem C04_duplicate_iff (path : String) (items : List (String × Nat)) :
    hasError (dupDiags path items []) = false ↔ (items.map (·.1)).Nodup :=
  dupDiags_noError_iff path items

/-- **undefined super/subtype**: `ENTITYresolve_supertypes/_subtypes` report no ERROR for `e` exactly when every name in
    SUBTYPE OF and in the SUPERTYPE OF expression denotes an entity (declared in the schema or imported) -/
theorem C04_super_sub_iff (path : String) (env : Env) (s : Schema) (e : Entity) :
    hasError (superSubDiags path env s e) = false ↔
      (∀ x ∈ e.supers, isEnt env s x.1 = true) ∧ (∀ n ∈ e.subs, isEnt env s n = true) :=
  superSub_noError_iff path env s e

/-- hence a schema with such a name is rejected by pass 3 -/
theorem C04_reject_undefined_supertype (path : String) (env : Env) (s : Schema) (e : Entity) (n : String) (l : Nat)
    (he : Decl.entity e ∈ s.decls) (hfo : e.foreign = false) (hs : (n, l) ∈ e.supers) (hn : isEnt env s n = false) :
    hasError (pass3 path env s) = true := by
  cases hp : hasError (pass3 path env s) with
  | true => rfl
  | false =>
    have := (hasError_flatMap_false _ _).mp hp (.entity e) he
    simp only [hfo, Bool.false_eq_true, if_false] at this
    have := ((superSub_noError_iff path env s e).mp this).1 (n, l) hs
    simp [hn] at this

theorem C04_reject_undefined_subtype (path : String) (env : Env) (s : Schema) (e : Entity) (n : String)
    (he : Decl.entity e ∈ s.decls) (hfo : e.foreign = false) (hs : n ∈ e.subs) (hn : isEnt env s n = false) :
    hasError (pass3 path env s) = true := by
  cases hp : hasError (pass3 path env s) with
  | true => rfl
  | false =>
    have := (hasError_flatMap_false _ _).mp hp (.entity e) he
    simp only [hfo, Bool.false_eq_true, if_false] at this
    have := ((superSub_noError_iff path env s e).mp this).2 n hs
    simp [hn] at this

/-- **undefined type**: a type reference (attribute type, underlying type, select item) is reported exactly when the name at its
    core denotes neither a type nor an entity of the schema nor an imported one -/
theorem C04_undefined_type_iff (path : String) (env : Env) (s : Schema) (t : TypeRef) :
    hasError (typeRefDiags path env s t) = false ↔ TypeRefWF env s t :=
  typeRef_noError_iff path env s t

/-- **subtype not listing its supertype**: MISSING_SUPERTYPE is reported for `e` exactly when some entity on `e`'s subtype list
    does not name `e` among its supertypes (checked per subtype) -/
theorem C04_missing_supertype_iff (path : String) (s : Schema) (e : Entity) :
    hasError (missingSuperDiags path s e) = false ↔ SubtypesListSuper s e :=
  missingSuper_noError_iff path s e

/-- **inherited attribute re-declared**: OVERLOADED_ATTR exactly when a new attribute of `e` is found in a supertype -/
theorem C04_overloaded_attr_iff (path : String) (s : Schema) (fuel : Nat) (e : Entity) :
    hasError (overloadDiags path s fuel e) = false ↔ NoOverload s fuel e :=
  overload_noError_iff path s fuel e

/-- `_partial` (one direction, every fuel and graph): when the look-up behind `SELF.a` / an unqualified UNIQUE reference
    (`ENTITYget_named_attribute`) succeeds, `a` really is declared by the entity or by an entity reachable from it through
    `SUBTYPE OF`.  The converse needs an acyclic supertype graph and enough fuel (on a cycle the C recursion does not return: the
    model answers `none`) and is not proved -/
theorem C04_self_attr_lookup_sound_partial (s : Schema) (an : String) (fuel : Nat) (en : String)
    (h : namedAttr s an fuel en = some true) : ∃ x, ReachRefl (superGraph s) en x ∧ ownsAttr s an x = true :=
  namedAttr_sound s an fuel en h

/-- **the look-up behind `SELF.a` / unqualified UNIQUE references, whenever it answers**: if `ENTITYget_named_attribute` returns within
    the fuel (`namedAttr … = some b`; `none` = the C recursion is deeper than the fuel, i.e. runs through cyclic supertypes), then it says
    "found" exactly when the entity or an entity reachable from it through `SUBTYPE OF` declares the attribute -/
theorem C04_self_attr_lookup_iff (s : Schema) (an : String) (fuel : Nat) (en : String) (b : Bool)
    (h : namedAttr s an fuel en = some b) :
    b = true ↔ ∃ x, ReachRefl (superGraph s) en x ∧ ownsAttr s an x = true :=
  namedAttr_answer_iff s an fuel en b h

/-- hence `AttrVisible` (the condition of `SELF.a`, UNIQUE and INVERSE references in `FileWF`) is reachability whenever the look-up
    terminates: independent of the order of the supertype lists and of the fuel -/
theorem C04_attr_visible_iff_reach (s : Schema) (fuel : Nat) (e : Entity) (an : String)
    (hterm : namedAttr s an fuel e.name ≠ none) :
    AttrVisible s fuel e an ↔ ∃ x, ReachRefl (superGraph s) e.name x ∧ ownsAttr s an x = true := by
  unfold AttrVisible
  cases h : namedAttr s an fuel e.name with
  | none => exact absurd h hterm
  | some b =>
    have := namedAttr_answer_iff s an fuel e.name b h
    cases b with
    | true => simpa using this
    | false => simpa using this

/-- **`ENTITYget_named_attribute` answers unless the supertypes are cyclic** (with the fuel the passes give it): no answer means
    some entity reachable from `en` through `SUBTYPE OF` is its own ancestor — the situation SUBSUPER_LOOP reports -/
theorem C04_self_attr_lookup_terminates (s : Schema) (an : String) (en : String)
    (h : namedAttr s an (s.decls.length + 1) en = none) :
    ∃ y, Reach (superGraph s) en y ∧ Reach (superGraph s) y y := by
  apply namedAttr_none_cycle s an _ en _ h
  have : s.entities.length ≤ s.decls.length := List.length_filterMap_le _ _
  omega

/-- hence, on a schema whose supertype graph has no cycle below `e`, the condition `AttrVisible` of `FileWF` IS reachability: `SELF.a`
    (and an unqualified UNIQUE / INVERSE reference) is accepted ⇔ `e` or an entity reachable from it through `SUBTYPE OF` declares `a` -/
theorem C04_attr_visible_iff_reach_acyclic (s : Schema) (e : Entity) (an : String)
    (hacyc : ¬ ∃ y, Reach (superGraph s) e.name y ∧ Reach (superGraph s) y y) :
    AttrVisible s (s.decls.length + 1) e an ↔ ∃ x, ReachRefl (superGraph s) e.name x ∧ ownsAttr s an x = true :=
  C04_attr_visible_iff_reach s _ e an (fun hn => hacyc (C04_self_attr_lookup_terminates s an e.name hn))

/-- **the qualifier of `SELF\name.attr`** (`ENTITYfind_inherited_entity( e, name, 0 )`, the condition `isAncestor` inside `RedeclWF` /
    `UniqueWF`): with fuel `f` it succeeds ⇔ a chain of at most `f` `SUBTYPE OF` edges leads from the entity to `name` -/
theorem C04_qualifier_lookup_iff_path (s : Schema) (name : String) (fuel : Nat) (en : String) :
    isAncestor s name fuel en = true ↔
      ∃ l, l ≠ [] ∧ l.length ≤ fuel ∧ IsPath (superGraph s) en l ∧ l.getLast? = some name :=
  isAncestor_iff_path s name fuel en

/-- in particular a qualifier that is accepted names a proper ancestor -/
theorem C04_qualifier_lookup_sound (s : Schema) (name : String) (fuel : Nat) (en : String)
    (h : isAncestor s name fuel en = true) : Reach (superGraph s) en name :=
  isAncestor_sound s name fuel en h

/-- **with the fuel the passes use the qualifier look-up IS reachability**: `SELF\name.attr` (redeclaration, qualified UNIQUE reference)
    passes the ancestor test ⇔ `name` is reachable from the entity through one or more `SUBTYPE OF` edges — cyclic supertypes included
    (a repetition-free chain has at most as many edges as there are entities) -/
theorem C04_qualifier_lookup_iff_reach (s : Schema) (name en : String) :
    isAncestor s name (s.decls.length + 1) en = true ↔ Reach (superGraph s) en name :=
  isAncestor_iff_reach s name en

/-- **attribute redeclarations, stated through reachability**: `ENTITYresolve_expressions` reports no REDECL_… ERROR for `e` ⇔ every
    `SELF\sup.a : …` names a `sup` that is not `e` itself, is reachable from `e` through one or more `SUBTYPE OF` edges, and declares `a` -/
theorem C04_redeclaration_reach_iff (path : String) (s : Schema) (e : Entity) :
    hasError (redeclDiags path s (s.decls.length + 1) e) = false ↔
      ∀ a ∈ e.attrs, ∀ sup, a.redeclOf = some sup →
        (sup ≠ e.name ∧ Reach (superGraph s) e.name sup) ∧
        (∀ se, findEntity s sup = some se → se.attrs.any (·.name = a.name) = true) := by
  rw [redecl_noError_iff]
  unfold RedeclWF
  simp only [isAncestor_iff_reach]

/-- **UNIQUE references on a schema without supertype cycles below `e`, stated through reachability**: no ERROR ⇔ the attribute is
    declared by `e` or an entity reachable from it, and — for `SELF\q.a` — `q` is reachable from `e` and (when it is an entity of the
    schema) declares `a` itself -/
theorem C04_unique_reach_iff (p : String) (s : Schema) (e : Entity) (u : UniqueItem)
    (hacyc : ¬ ∃ y, Reach (superGraph s) e.name y ∧ Reach (superGraph s) y y) :
    hasError (uniqueDiags p s e (s.decls.length + 1) u) = false ↔
      (match u.qual with
       | none => True
       | some q => Reach (superGraph s) e.name q ∧
           (∀ qe, findEntity s q = some qe → qe.attrs.any (·.name = u.attr) = true)) ∧
      ∃ x, ReachRefl (superGraph s) e.name x ∧ ownsAttr s u.attr x = true := by
  rw [unique_noError_iff]
  unfold UniqueWF
  have hv := C04_attr_visible_iff_reach_acyclic s e u.attr hacyc
  cases hq : u.qual with
  | none => simp only [true_and]; exact hv
  | some q =>
    simp only [isAncestor_iff_reach]
    cases hf : findEntity s q with
    | none =>
      simp only [reduceCtorEq, false_implies, implies_true, and_true]
      rw [hv]
    | some qe =>
      simp only [Option.some.injEq, forall_eq']
      rw [hv]
      exact ⟨fun ⟨h1, h2, h3⟩ => ⟨⟨h1, h2⟩, h3⟩, fun ⟨⟨h1, h2⟩, h3⟩ => ⟨h1, h2, h3⟩⟩

/-- **overloaded attribute, stated without the look-up function**: `ENTITYresolve_expressions` reports OVERLOADED_ATTR for `e` ⇔ some new
    (not redeclared) attribute of `e` has a second declaration in a direct supertype or in an entity reachable from one through
    `SUBTYPE OF` — two distinct reachable declarations of one name.  (The look-up is the marked search the code uses since C06-17; it
    returns on cyclic supertypes too.) -/
theorem C04_overloaded_attr_reach_iff (path : String) (s : Schema) (e : Entity) :
    hasError (overloadDiags path s (s.decls.length + 1) e) = true ↔
      ∃ a ∈ e.attrs, a.redeclOf = none ∧ ∃ sup ∈ supersOf s e, ∃ x, ReachRefl (superGraph s) sup x ∧ ownsAttr s a.name x = true := by
  have h := (overload_noError_iff path s (s.decls.length + 1) e).trans (noOverload_iff_reach s e)
  constructor
  · intro he
    apply Classical.byContradiction
    intro hne
    have : hasError (overloadDiags path s (s.decls.length + 1) e) = false := by
      apply h.mpr
      intro a ha hr sup hs hx
      exact hne ⟨a, ha, hr, sup, hs, hx⟩
    rw [this] at he; cases he
  · rintro ⟨a, ha, hr, sup, hs, hx⟩
    cases hh : hasError (overloadDiags path s (s.decls.length + 1) e) with
    | true => rfl
    | false => exact absurd hx (h.mp hh a ha hr sup hs)

/-- **bad INVERSE**: reported exactly when the inverted type is no entity, or the entity and its supertypes do not declare the
    attribute (an attribute of a subtype or sibling does not count) -/
theorem C04_bad_inverse_iff (path : String) (s : Schema) (a : Attr) (hasAttr : String → String → Bool) :
    hasError (inverseDiags path s a hasAttr) = false ↔ InverseWF s hasAttr a :=
  inverse_noError_iff path s a hasAttr

/-- **undefined function** in a domain rule (of an entity or of a type, used or not): an ERROR exactly when the name is neither a
    function of the schema nor a built-in; a wrong argument count is only a warning -/
theorem C04_undefined_function_iff (path : String) (s : Schema) (r : Rule) (fn : String) (argc : Nat) :
    hasError (callDiags path s r fn argc) = false ↔ CallWF s fn :=
  callDiags_noError_iff path s r fn argc

/-- **`ENTITYresolve_expressions`** reports no ERROR for `e` ⇔ no overload, well-formed redeclarations, and expressions — domain
    rules, DERIVE initialisers, aggregate bounds of attribute types — whose calls name functions and whose attribute references
    (`SELF.a`, bare `a`) are own or inherited attributes; outside domain rules a bare name may also denote something of the
    schema scope (`RuleItemWF`) -/
theorem C04_entity_expressions_iff (path : String) (env : Env) (s : Schema) (fuel : Nat) (e : Entity) :
    hasError (entityPass5 path env s fuel e) = false ↔ NoOverload s fuel e ∧ RedeclWF s fuel e ∧ RulesWF env s fuel e :=
  entityPass5_noError_iff path env s fuel e

/-- one expression item in entity scope, context by context (`r.isWhere` distinguishes a domain rule from a DERIVE initialiser /
    aggregate bound: only the former must refer to SELF or an attribute) -/
theorem C04_expression_item_iff (path : String) (env : Env) (s : Schema) (fuel : Nat) (e : Entity) (r : Rule) (it : RuleItem) :
    hasError (ruleItemDiags path env s fuel e r it) = false ↔ RuleItemWF env s fuel e r it :=
  ruleItem_noError_iff path env s fuel e r it

/-- **bare attribute references** (`VARfind`, the marked search): with the fuel the passes use, the look-up succeeds ⇔ the entity
    itself or an entity reachable from it through `SUBTYPE OF` declares the attribute — on cyclic supertype graphs too, where
    `ENTITYget_named_attribute` (used for `SELF.a`) does not terminate -/
theorem C04_bare_lookup_iff (s : Schema) (an : String) (en : String) :
    varFind s an (s.decls.length + 1) en = true ↔ ∃ x, ReachRefl (superGraph s) en x ∧ ownsAttr s an x = true := by
  apply varFind_iff
  have : s.entities.length ≤ s.decls.length := List.length_filterMap_le _ _
  omega

/-- **`operand.field`** (`EXPresolve_op_dot`) reports no ERROR ⇔ the operand's type knows the field: an entity connected to it
    declares it, the enumeration has the item, a member of the select knows it — or every member of the select is an enumeration
    (then only the default-silent CASE_SKIP_LABEL warning); never for an aggregate or a simple type -/
theorem C04_dot_operand_iff (p : String) (s : Schema) (fuel : Nat) (r : Rule) (field : String) (t : TypeRef) :
    hasError (operandDiags p s fuel r field t) = false ↔ OperandWF s fuel field t :=
  operand_noError_iff p s fuel r field t

/-- **an undefined attribute on a SELECT-typed operand is an ERROR ⇔ some member of the select is not an enumeration** -/
theorem C04_undefined_attr_on_select_iff (p : String) (s : Schema) (fuel : Nat) (r : Rule) (field : String) (t : TypeRef)
    (items : List (String × Nat)) (hk : operandKind s fuel t = .select items) (hno : selectHas s field fuel items = false) :
    hasError (operandDiags p s fuel r field t) = true ↔ ∃ i ∈ items, isEnumType s fuel i.1 = false := by
  -- the shape of the test in EXPresolve_op_dot, regenerated: a conjunction over the select's member list
  have _shape : ResolveGen.dotAllEnumsIsConjunction = true := by decide
  exact select_undefined_attr_iff p s fuel r field t items hk hno

/-- hence: with at least one non-enumeration leaf anywhere below the select (through nested selects) it is an ERROR -/
theorem C04_undefined_attr_on_select_with_nonenum_leaf (p : String) (s : Schema) (fuel : Nat) (r : Rule) (field : String)
    (t : TypeRef) (items : List (String × Nat)) (hk : operandKind s fuel t = .select items)
    (hno : selectHas s field fuel items = false) (hleaf : NonEnumLeaf s fuel items) :
    hasError (operandDiags p s fuel r field t) = true :=
  (select_undefined_attr_iff p s fuel r field t items hk hno).mpr (nonEnumLeaf_member hleaf)

/-- … whatever the order of the member list: two select types whose member lists are permutations of each other get the same
    verdict for an attribute neither knows -/
theorem C04_undefined_attr_on_select_order_independent (p : String) (s : Schema) (fuel : Nat) (r : Rule) (field : String)
    (t t' : TypeRef) (items items' : List (String × Nat)) (hp : items.Perm items')
    (hk : operandKind s fuel t = .select items) (hk' : operandKind s fuel t' = .select items')
    (hno : selectHas s field fuel items = false) (hno' : selectHas s field fuel items' = false) :
    hasError (operandDiags p s fuel r field t) = hasError (operandDiags p s fuel r field t') := by
  have h1 := select_undefined_attr_iff p s fuel r field t items hk hno
  have h2 := select_undefined_attr_iff p s fuel r field t' items' hk' hno'
  have hiff : (∃ i ∈ items, isEnumType s fuel i.1 = false) ↔ (∃ i ∈ items', isEnumType s fuel i.1 = false) := by
    constructor
    · rintro ⟨i, hi, hv⟩; exact ⟨i, hp.mem_iff.mp hi, hv⟩
    · rintro ⟨i, hi, hv⟩; exact ⟨i, hp.mem_iff.mpr hi, hv⟩
  cases ha : hasError (operandDiags p s fuel r field t) with
  | true => exact (h2.mpr (hiff.mp (h1.mp ha))).symm
  | false =>
    cases hb : hasError (operandDiags p s fuel r field t') with
    | false => rfl
    | true => rw [h1.mpr (hiff.mpr (h2.mp hb))] at ha; cases ha

/-- **a call with its argument list** reports no ERROR ⇔ the function exists, every argument resolves and — in a domain rule — one of
    them refers to SELF or an attribute -/
theorem C04_call_with_arguments_iff (p : String) (env : Env) (s : Schema) (fuel : Nat) (e : Entity) (r : Rule) (fn : String)
    (args : List CallArg) : hasError (callWithDiags p env s fuel e r fn args) = false ↔ CallWithWF env s fuel e r fn args :=
  callWith_noError_iff p env s fuel e r fn args

/-- **function bodies, global RULEs, constants**: their expressions produce no ERROR ⇔ every call names a function and every
    bare identifier is a parameter / local variable or known to the schema scope -/
theorem C04_algorithm_expressions_iff (path : String) (env : Env) (s : Schema) :
    hasError (algDiags path env s) = false ↔ ∀ f, Decl.func f ∈ s.decls → AlgWF env s f :=
  alg_noError_iff path env s

/-- **the cycle search terminates** with the fuel pass 4 gives it (number of declarations + 1), whatever the sibling order -/
theorem C04_cycle_search_terminates (ret : Bool) (s : Schema) (n : String) :
    ∃ r, dfs ret n (subGraph s) (s.decls.length + 1) (subGraph s n) [] = some r :=
  dfs_terminates ret n (subGraph s) (s.entities.map (·.name)) (fun m _ => subGraph_closed s m) (subGraph_closed s n) _
    (by have := entities_length_le s; omega)

/-- pass 4 gives the search exactly that fuel unless the schema has more declarations than the recursion-depth guard allows
    (5000 on this tree); beyond it a deep chain of subtypes is refused with SYNTAX (severity EXIT) -/
theorem C04_subsuper_fuel (s : Schema) (h : ∀ k, ResolveGen.subsuperDepthLimit = some k → s.decls.length < k) :
    subsuperFuel s = s.decls.length + 1 := by
  unfold subsuperFuel
  cases hk : ResolveGen.subsuperDepthLimit with
  | none => rfl
  | some k => have := h k hk; simp only; omega

/-- **subtype cycle ⇔ SUBSUPER_LOOP**: with the regenerated visited-node action the search pass 4 runs from entity `n` reports
    exactly when `n` is a subtype of itself -/
theorem C04_subsuper_cycle_iff (s : Schema) (n : String) :
    (∃ r, dfs ResolveGen.visitedReturnsSubsuper n (subGraph s) (s.decls.length + 1) (subGraph s n) [] = some r ∧ r.found = true) ↔
      Reach (subGraph s) n n := by
  have hv : ResolveGen.visitedReturnsSubsuper = false := by decide
  rw [hv]; exact subsuper_found_iff s n

/-- undefined schema in an interface clause -/
theorem C04_reject_undefined_schema (f : File) (s : Schema) (i : Iface)
    (hs : s ∈ f.schemas) (hi : i ∈ s.ifaces) (hn : findSchema f i.schema = none) (hne : i.items ≠ some []) :
    hasError (resolveDiags f).diags = true := by
  apply hasError_of_mem (d := mk (fileOf f s) LibErrors.UNDEFINED_SCHEMA i.line [sArg i.schema])
  · simp only [resolveDiags, List.mem_append, List.mem_flatMap]
    refine Or.inl (Or.inl (Or.inl (Or.inl (Or.inr ⟨s, hs, ?_⟩))))
    simp only [pass1, List.mem_flatMap]
    refine ⟨i, hi, ?_⟩
    simp only [hn, Option.isSome_none, Bool.false_eq_true, if_false]
    cases hit : i.items with
    | none => simp
    | some its =>
      cases its with
      | nil => exact absurd hit hne
      | cons x xs => simp
  · show isErrorCode LibErrors.UNDEFINED_SCHEMA = true
    decide

/-- a syntax error ends the run with an ERROR-severity (EXIT) diagnostic -/
theorem C04_syntax_is_exit : severityOf LibErrors.SYNTAX ≥ LibErrors.SEVERITY_EXIT ∧ isErrorCode LibErrors.SYNTAX = true := by
  decide

/-- resolve-time errors are reported whenever parsing was clean (the gate is the only thing between them) -/
theorem C04_resolve_errors_reach_verdict (f : File) (lex : List Diag)
    (hp : hasError (lex ++ parseDiags f) = false) (hr : hasError (resolveDiags f).diags = true) :
    (verdict f lex).rejects = true := by
  simp [Verdict.rejects, verdict, hp, hr]

/-! ## the composed statement: exit status 0 ⇔ the file is well formed -/

/-- the parse phase reports no ERROR exactly for files whose schema bodies have no syntax error, declare pairwise distinct
    names, and have distinct attribute / enumeration-item names inside every declaration -/
theorem C04_parse_error_iff (p : String) (ss : List Schema) :
    hasError (parseSchemas p ss) = false ↔ ∀ s ∈ ss, ParseWF s := parseSchemas_noError_iff p ss

/-- pass 1 reports an ERROR for a schema exactly when one of its interface clauses names a schema that does not exist -/
theorem C04_undefined_schema_iff (f : File) (s : Schema) : hasError (pass1 f s) = false ↔ ClausesWF f s :=
  pass1_noError_iff f s

/-- **the import look-up against a relational specification** (`HandsOut`: declared there / handed out by a whole-USE'd schema / a USE
    item visible under the name whose source hands its original name out): whatever `SCOPEfind_for_rename` finds is handed out — for
    every fuel, visiting order and with or without the fall-back scan -/
theorem C04_import_lookup_sound (f : File) (fb : Bool) (pr : String → Bool) (fuel : Nat) (T n : String) (o : Obj)
    (h : exportOf f fb pr fuel T n = some o) : HandsOut f T n o :=
  exportOf_sound f fb pr fuel T n o h

/-- … and what is handed out is found from some fuel on (code as it is: with the fall-back scan; no two USE items of a schema under
    one visible name).  `_partial`: "from some fuel on", not "with the fuel the pass uses" — that `importFuel f` suffices is tied by
    the correspondence (chains and rings of imports under permuted schema names) only -/
theorem C04_import_lookup_complete_partial (f : File) (hnd : NoDupAlias f) (pr : String → Bool) (T n : String) (o : Obj)
    (h : HandsOut f T n o) : ∃ k, ∀ fuel, k ≤ fuel → (exportOf f true pr fuel T n).isSome = true :=
  exportOf_complete f hnd pr h

/-- pass 2 reports an ERROR for a schema exactly when an imported item does not resolve in the schema it is imported from
    (as far as that schema can hand it out at this point of the pass) or one visible name stands for two different objects -/
theorem C04_imports_iff (f : File) (fb : Bool) (s : Schema) : hasError (pass2 f fb s) = false ↔ ImportsWF f fb s :=
  pass2_noError_iff f fb s

/-- passes 3–5 report an ERROR for a schema exactly when it is not well formed: `SchemaWF` lists, per declaration, the
    conditions the class theorems above are about (type references denote types, supertypes / subtypes are entities and
    list each other, no inheritance / SELECT cycle, UNIQUE / INVERSE / redeclaration / rule items resolve, no
    overloaded attribute, functions called exist).  The hypothesis is the regenerated nesting bound of the inheritance
    walk (C06-17): inside it the walk is exact -/
theorem C04_schema_error_iff (p : String) (env : Env) (s : Schema)
    (hlim : ∀ k, ResolveGen.subsuperDepthLimit = some k → s.decls.length < k) :
    hasError (pass3 p env s ++ pass4 p env s ++ (pass5 p env s).diags) = false ↔ SchemaWF env s :=
  schema_noError_iff p env s hlim

/-- **the front end accepts a file ⇔ the text is lexically clean and the file is well formed** (`FileWF`: the four
    statements above over every schema of the run, own file and schema files pulled in alike) -/
theorem C04_accepts_iff_wellformed (f : File) (lex : List Diag)
    (hlim : ∀ k, ResolveGen.subsuperDepthLimit = some k →
      ∀ s ∈ liveSchemas f, (linked f ResolveGen.renameUselistFallback s).decls.length < k) :
    (verdict f lex).rejects = false ↔ hasError lex = false ∧ FileWF f :=
  file_accepts_iff f lex hlim

theorem isErr_eq (c : Nat) : isErr c = isErrorCode c := rfl

/-- the sticky "an error occurred" flag after a sequence of reports is: what it was, or an ERROR in the sequence —
    provided ERRORs cannot be switched off (`C20_errors_always_enabled`) and none of them is the silent code -/
theorem report_occurred (fwd : Bool) (amb : Ambient) (ov : Overrides)
    (henab : ∀ c, isErrorCode c = true → enabled ov c = true) :
    ∀ (ds : List Diag) (r : Run), r.halt = none → (∀ d ∈ ds, d.code ≠ LibErrors.SUBORDINATE_FAILED) →
      (report fwd amb ov ds r).occurred = (r.occurred || hasError ds)
  | [], r, _, _ => by simp [report, hasError_nil]
  | d :: ds, r, hn, hs => by
    have hd := hs d (List.mem_cons_self ..)
    have hs' : ∀ x ∈ ds, x.code ≠ LibErrors.SUBORDINATE_FAILED := fun x hx => hs x (List.mem_cons_of_mem _ hx)
    simp only [report, hasError_cons]
    by_cases hen : enabled ov d.code = true
    · simp only [hd, hen, Bool.not_true, Bool.false_eq_true, or_self, if_false]
      by_cases s3 : severityOf d.code ≥ LibErrors.SEVERITY_DUMP
      · have e : isErrorCode d.code = true := by simp [isErrorCode, sev, dump_is_error s3]
        simp [s3, e, dump_is_error s3]
      · by_cases s2 : severityOf d.code ≥ LibErrors.SEVERITY_EXIT
        · have e : isErrorCode d.code = true := by simp [isErrorCode, sev, exit_is_error s2]
          simp [s3, s2, e, exit_is_error s2]
        · simp only [s3, s2, if_false]
          refine (report_occurred fwd amb ov henab ds _ (by exact hn) hs').trans ?_
          simp [isErrorCode, sev, Bool.or_assoc]
    · have e : isErrorCode d.code = false := by
        cases h : isErrorCode d.code with
        | false => rfl
        | true => exact absurd (henab _ h) hen
      simp only [Bool.not_eq_true] at hen
      simp only [hen, Bool.not_false, or_true, if_true, e, Bool.false_or]
      exact report_occurred fwd amb ov henab ds r hn hs'

/-- **every tool exits 0 exactly on well-formed files**: for each of the four tools, with any admissible warning switches,
    the exit status of the run over the model's diagnostics for `f` is 0 ⇔ the text is lexically clean and `FileWF f`.
    Hypotheses: ERRORs are not switched off (what `C20_errors_always_enabled` proves of every override column the option
    parser can produce), the lexical diagnostics do not use the silent code, the back end reports nothing, the inheritance
    nesting bound. -/
theorem C04_exit0_iff_wellformed (tool : Tool) (fwd : Bool) (amb : Ambient) (ov : Overrides) (f : File) (lex : List Diag)
    (henab : ∀ c, isErrorCode c = true → enabled ov c = true)
    (hlex : ∀ d ∈ lex, d.code ≠ LibErrors.SUBORDINATE_FAILED)
    (hlim : ∀ k, ResolveGen.subsuperDepthLimit = some k →
      ∀ s ∈ liveSchemas f, (linked f ResolveGen.renameUselistFallback s).decls.length < k) :
    (runMain tool fwd amb ov (verdict f lex).parse (verdict f lex).resolve []).status = some 0 ↔
      hasError lex = false ∧ FileWF f := by
  rw [← file_accepts_iff f lex hlim]
  have g1 : LibErrors.gateAfterParse = true := by decide
  have g2 : LibErrors.gateAfterResolve = true := by decide
  have g3 : LibErrors.gateAfterBackend = true := by decide
  have f0 : LibErrors.failStatus ≠ 0 := by decide
  have s0 : succeedStatusOf tool = 0 := by cases tool <;> decide
  have hp : ∀ d ∈ (verdict f lex).parse, d.code ≠ LibErrors.SUBORDINATE_FAILED := by
    intro d hd
    rcases List.mem_append.mp hd with h | h
    · exact hlex d h
    · exact (parseDiags_ok f d h).2.2.2
  have hr : ∀ d ∈ (verdict f lex).resolve, d.code ≠ LibErrors.SUBORDINATE_FAILED := by
    intro d hd
    obtain ⟨p, hp⟩ := resolveDiags_ok f d hd
    exact hp.2.2.2
  have i1 := report_inv fwd amb ov (verdict f lex).parse emptyRun rfl inv_empty
  have o1 : (report fwd amb ov (verdict f lex).parse emptyRun).occurred = hasError (verdict f lex).parse := by
    rw [report_occurred fwd amb ov henab (verdict f lex).parse emptyRun rfl hp]; simp [emptyRun]
  simp only [runMain, Verdict.rejects, g1, if_true]
  cases hh1 : (report fwd amb ov (verdict f lex).parse emptyRun).halt with
  | some h =>
    have ho := i1.2.1 (by simp [hh1])
    rw [o1] at ho
    cases h with
    | abort => simp [haltResult, ho]
    | exit rc => have := i1.2.2 rc hh1; subst this; simp [haltResult, f0, ho]
  | none =>
    simp only [true_and]
    cases hpe : hasError (verdict f lex).parse with
    | true => simp [o1, hpe, failResult, f0]
    | false =>
      simp only [o1, hpe, Bool.false_eq_true, if_false, Bool.false_or, Bool.not_false, Bool.true_and]
      have i2 := report_inv fwd amb ov (verdict f lex).resolve _ hh1 i1
      have o2 := report_occurred fwd amb ov henab (verdict f lex).resolve _ hh1 hr
      rw [o1, hpe, Bool.false_or] at o2
      cases hh2 : (report fwd amb ov (verdict f lex).resolve (report fwd amb ov (verdict f lex).parse emptyRun)).halt with
      | some h =>
        have ho := i2.2.1 (by simp [hh2])
        rw [o2] at ho
        cases h with
        | abort => simp [haltResult, ho]
        | exit rc => have := i2.2.2 rc hh2; subst this; simp [haltResult, f0, ho]
      | none =>
        simp only [g2, true_and]
        cases hre : hasError (verdict f lex).resolve with
        | true => simp [o2, hre, failResult, f0]
        | false =>
          have r3 : (if hasBackend tool = true then
                report fwd amb ov [] (report fwd amb ov (verdict f lex).resolve (report fwd amb ov (verdict f lex).parse emptyRun))
              else report fwd amb ov (verdict f lex).resolve (report fwd amb ov (verdict f lex).parse emptyRun)) =
              report fwd amb ov (verdict f lex).resolve (report fwd amb ov (verdict f lex).parse emptyRun) := by
            split <;> simp [report]
          simp only [r3, hh2, o2, hre, g3, Bool.false_eq_true, and_false, if_false, s0]

/-- the same for the whole command line: whatever `-w` / `-i` switches the option parser accepts, each tool exits 0 exactly
    on the lexically clean, well-formed files (the switches cannot touch ERRORs: `C20_errors_always_enabled`) -/
theorem C04_command_exit0_iff_wellformed (tool : Tool) (guard fwd : Bool) (amb : Ambient) (sws : List Switch) (ov : Overrides)
    (hc : configure guard sws = .ok ov) (f : File) (lex : List Diag)
    (hlex : ∀ d ∈ lex, d.code ≠ LibErrors.SUBORDINATE_FAILED)
    (hlim : ∀ k, ResolveGen.subsuperDepthLimit = some k →
      ∀ s ∈ liveSchemas f, (linked f ResolveGen.renameUselistFallback s).decls.length < k) :
    runCmd tool guard fwd amb sws (verdict f lex).parse (verdict f lex).resolve [] =
      .ran (runMain tool fwd amb ov (verdict f lex).parse (verdict f lex).resolve []) ∧
    ((runMain tool fwd amb ov (verdict f lex).parse (verdict f lex).resolve []).status = some 0 ↔
      hasError lex = false ∧ FileWF f) := by
  refine ⟨by simp [runCmd, hc], ?_⟩
  apply C04_exit0_iff_wellformed tool fwd amb ov f lex _ hlex hlim
  intro c hce
  apply StepModel.Express.C20.C20_errors_always_enabled guard sws ov hc c
  have : LibErrors.SEVERITY_WARNING < LibErrors.SEVERITY_ERROR := by decide
  have hce' : severityOf c ≥ LibErrors.SEVERITY_ERROR := by simpa [isErrorCode, sev] using hce
  omega

/-! ## the fuel of the import look-up is NOT always sufficient (a limit of the model, found by asking whether `importFuel` suffices) -/

/-- two schemas that USE items from each other under new names, three items per clause: `t0.a1` is `t1.b1` is `t0.a2` is `t1.b2` is
    `t0.a3` is `t1.b3` is `t0.c` -/
def zigzagFile : File :=
  ⟨"z.exp",
   [⟨"t0", 1, [.entity ⟨"c", 3, [], [], [], [], [], false⟩],
      [⟨.use, "t1", 2, some [⟨"b1", some "a1", 2⟩, ⟨"b2", some "a2", 2⟩, ⟨"b3", some "a3", 2⟩]⟩], none⟩,
    ⟨"t1", 10, [], [⟨.use, "t0", 11, some [⟨"a2", some "b1", 11⟩, ⟨"a3", some "b2", 11⟩, ⟨"c", some "b3", 11⟩]⟩], none⟩], []⟩

/-- `_witness` — **`importFuel` (schemas + interface CLAUSES + 2) does not bound the chain of renamed ITEMS**: on `zigzagFile` the
    relation hands `t0.c` out under `a1`, the look-up finds it with fuel 7, and with `importFuel = 6` the model answers `none` (it would
    report REF_NONEXISTENT; check-express accepts the file: `SCOPEfind_for_rename` has no bound).  So `ImportsWF` cannot be restated with
    `HandsOut` for the model as it is; the fuel should count the items.  No generated input has more than two renamed items in a
    chain through one pair of schemas, which is why the correspondence never showed it -/
theorem C04_import_fuel_insufficient_witness :
    importFuel zigzagFile = 6 ∧
    exportOf zigzagFile true (fun _ => false) (importFuel zigzagFile) "t0" "a1" = none ∧
    exportOf zigzagFile true (fun _ => false) 7 "t0" "a1" = some ⟨"t0", "c", .entity⟩ ∧
    HandsOut zigzagFile "t0" "a1" ⟨"t0", "c", .entity⟩ := by
  refine ⟨by decide, by decide, by decide, ?_⟩
  exact exportOf_sound zigzagFile true (fun _ => false) 7 "t0" "a1" _ (by decide)

/-! ## `FileWF` is inhabited by a non-trivial file (and refuted by a one-token change of it)

A two-schema file with inheritance across the schema border: `client` interfaces `lib.p` under the new name `pp`; `e SUBTYPE OF (pp)`
has an attribute of a defined type, a DERIVE initialiser calling a function and naming an attribute inherited from `lib.p`, UNIQUE
references to an inherited and an own attribute, a domain rule on `SELF.pb` (declared by `lib.p`); `e2 SUBTYPE OF (e)` refers to
`SELF.x` and to `SELF.y.pa` with `y : pp`; `lib.p` is itself a subtype of `lib.g`, which lists it in `SUPERTYPE OF`.  (No `SELF\pp.a`
qualifier: `declName` goes through `String.splitOn`, which the kernel does not evaluate.)  Every conjunct of `FileWF` is discharged
through `file_accepts_iff` by evaluating the model. -/

/-- the example file -/
def wfExample : File :=
  ⟨"x.exp",
   [⟨"client", 1,
      [.type ⟨"len", 3, .ref .simple, []⟩,
       .func ⟨"f", 5, 1, .function, ["p0"], [⟨"s0", 6, [.bareAttr "p0"], false⟩]⟩,
       .entity ⟨"e", 8, [("pp", 8)], [],
          [⟨"x", 9, .named "len" 9, none, none⟩, ⟨"d", 12, .simple, none, none⟩],
          [⟨"d", 12, [.call "f" 1, .bareAttr "pb"], false⟩, ⟨"w1", 16, [.selfAttr "pb"], true⟩],
          [⟨"u1", 14, none, "pb"⟩, ⟨"u2", 15, none, "x"⟩], false⟩,
       .entity ⟨"e2", 18, [("e", 18)], [], [⟨"y", 19, .named "pp" 19, none, none⟩],
          [⟨"w1", 21, [.selfAttr "x", .dot "y" "pa" false], true⟩], [], false⟩],
      [⟨.use, "lib", 2, some [⟨"p", some "pp", 2⟩]⟩], none⟩,
    ⟨"lib", 24,
      [.entity ⟨"g", 25, [], ["p"], [⟨"ga", 26, .simple, none, none⟩], [], [], false⟩,
       .entity ⟨"p", 28, [("g", 28)], [], [⟨"pa", 29, .simple, none, none⟩, ⟨"pb", 30, .simple, none, none⟩], [], [], false⟩],
      [], none⟩],
   []⟩

/-- the nesting-bound hypothesis of `file_accepts_iff` from a bound on the linked views -/
theorem wfExample_hlim (f : File) (h : ∀ s ∈ liveSchemas f, (linked f ResolveGen.renameUselistFallback s).decls.length < 5000) :
    ∀ k, ResolveGen.subsuperDepthLimit = some k →
      ∀ s ∈ liveSchemas f, (linked f ResolveGen.renameUselistFallback s).decls.length < k := by
  intro k hk
  have : k = 5000 := by
    have h5 : ResolveGen.subsuperDepthLimit = some 5000 := by decide
    rw [h5] at hk; exact (Option.some.inj hk).symm
  subst this; exact h

set_option maxRecDepth 100000 in
/-- `_witness`: the predicate of `C04_accepts_iff_wellformed` holds for a concrete multi-schema file with interfaced supertypes -/
theorem C04_FileWF_inhabited_witness : FileWF wfExample :=
  ((file_accepts_iff wfExample [] (wfExample_hlim wfExample (by decide))).mp (by decide)).2

/-- the same file with one reference changed (`SELF.pb` -> `SELF.pc`, which nobody declares) -/
def wfExampleBroken : File :=
  { wfExample with schemas := wfExample.schemas.map fun s =>
      { s with decls := s.decls.map fun
          | .entity e => .entity { e with rules := e.rules.map fun r =>
              { r with items := r.items.map fun | .selfAttr "pb" => .selfAttr "pc" | it => it } }
          | d => d } }

set_option maxRecDepth 100000 in
/-- `_witness`: … and fails when one reference of that file names an attribute nobody declares -/
theorem C04_FileWF_fails_witness : ¬ FileWF wfExampleBroken := by
  intro h
  have := (file_accepts_iff wfExampleBroken [] (wfExample_hlim wfExampleBroken (by decide))).mpr ⟨rfl, h⟩
  revert this
  decide

example : ∃ r, dfs false "a" (fun _ => ["a"]) 3 ["a"] [] = some r ∧ r.found = true := ⟨⟨true, [], []⟩, by decide, rfl⟩

end StepModel.Express.C04

import StepModel.ComplexTerm
/-! Fuel: the tree-walking functions `unmarkAll`, `acceptChoice`, `tryNext` do not run out of fuel when the fuel is at
least twice the size of the hierarchy; the retry loop needs one unit more per remaining choice combination. -/
namespace StepModel.Complex.Match
open StepModel.Generated StepModel.Complex

mutual
  def sz : VT → Nat
    | .simple _ _ => 1
    | .mult _ _ cs => szL cs + cs.length + 2
  def szL : List VT → Nat
    | [] => 0
    | c :: cs => sz c + szL cs
end

def NF {α : Type} (o : Outcome α) : Prop := o ≠ .outOfFuel

theorem NF_bind {α β : Type} {x : Outcome α} {k : α → Outcome β} (hx : NF x) (hk : ∀ a, x = .ok a → NF (k a)) : NF (x >>= k) := by
  cases x with
  | ok a => exact hk a rfl
  | crash c => intro h; cases h
  | outOfFuel => exact absurd rfl hx

theorem NF_ok {α : Type} (a : α) : NF (Outcome.ok a) := by intro h; cases h
theorem NF_pure {α : Type} (a : α) : NF (pure a : Outcome α) := by intro h; cases h
theorem NF_crash {α : Type} (c : Crash) : NF (Outcome.crash c : Outcome α) := by intro h; cases h

theorem sz_mem {cs : List ST} {i : Nat} {ch : ST} (h : cs[i]? = some ch) : sz (skel ch) ≤ szL (skelL cs) := by
  induction cs generalizing i with
  | nil => simp at h
  | cons c cs ih =>
    simp only [skelL, szL]
    cases i with
    | zero => simp at h; subst h; omega
    | succ i => have := ih (by simpa using h : cs[i]? = some ch); omega

theorem sz_pos (t : VT) : 0 < sz t := by cases t <;> simp [sz]

-- ------------------------------------------------------------------ unmarkAll
theorem unmark_fuel : ∀ f : Nat,
    (∀ t es, 2 * sz (skel t) ≤ f → NF (unmarkAll f t es)) ∧
    (∀ cs es, 2 * szL (skelL cs) + cs.length + 1 ≤ f → NF (unmarkList f cs es)) := by
  intro f
  induction f with
  | zero =>
    refine ⟨fun t es h => ?_, fun cs es h => by omega⟩
    have := sz_pos (skel t); omega
  | succ f ih =>
    obtain ⟨ih1, ih2⟩ := ih
    refine ⟨?_, ?_⟩
    · intro t es hf
      cases t with
      | simple n v im =>
        simp only [unmarkAll, simpleUnmark]
        split
        · exact NF_ok _
        · split
          · exact NF_crash _
          · split
            · exact NF_crash _
            · exact NF_ok _
      | mult j v c c1 k cs =>
        simp only [skel, sz, skelL_length] at hf
        cases j with
        | or =>
          simp only [unmarkAll]
          split
          · exact NF_ok _
          · split
            · exact NF_ok _
            · rename_i i _ _ ch hch
              refine NF_bind (ih1 ch es (by have := sz_mem hch; omega)) (fun a _ => NF_pure _)
        | and =>
          simp only [unmarkAll]
          exact NF_bind (ih2 cs es (by omega)) (fun a _ => NF_pure _)
        | andor =>
          simp only [unmarkAll]
          exact NF_bind (ih2 cs es (by omega)) (fun a _ => NF_pure _)
    · intro cs es hf
      cases cs with
      | nil => simp only [unmarkList]; exact NF_ok _
      | cons ch rest =>
        simp only [skelL, szL, List.length_cons] at hf
        simp only [unmarkList]
        refine NF_bind (ih1 ch es (by omega)) (fun a _ => ?_)
        exact NF_bind (ih2 rest _ (by omega)) (fun b _ => NF_pure _)

-- ------------------------------------------------------------------ acceptChoice
theorem accept_fuel : ∀ f : Nat,
    (∀ t es, 2 * sz (skel t) ≤ f → NF (acceptChoice f t es)) ∧
    (∀ cs es, 2 * szL (skelL cs) + cs.length + 1 ≤ f → NF (acceptJoin f cs es)) ∧
    (∀ cs i es, 2 * szL (skelL cs) + (cs.length - i) + 1 ≤ f → NF (acceptOr f cs i es)) := by
  intro f
  induction f with
  | zero =>
    refine ⟨fun t es h => ?_, fun cs es h => by omega, fun cs i es h => by omega⟩
    have := sz_pos (skel t); omega
  | succ f ih =>
    obtain ⟨ih1, ih2, ih3⟩ := ih
    refine ⟨?_, ?_, ?_⟩
    · intro t es hf
      cases t with
      | simple n v im => simp only [acceptChoice]; exact NF_ok _
      | mult j v c c1 k cs =>
        simp only [skel, sz, skelL_length] at hf
        cases j with
        | or =>
          simp only [acceptChoice]
          split
          · exact NF_ok _
          · refine NF_bind (ih3 cs _ es (by omega)) (fun a _ => ?_)
            split <;> exact NF_pure _
        | and =>
          simp only [acceptChoice]
          exact NF_bind (ih2 cs es (by omega)) (fun a _ => NF_pure _)
        | andor =>
          simp only [acceptChoice]
          exact NF_bind (ih2 cs es (by omega)) (fun a _ => NF_pure _)
    · intro cs es hf
      cases cs with
      | nil => simp only [acceptJoin]; exact NF_ok _
      | cons ch rest =>
        simp only [skelL, szL, List.length_cons] at hf
        simp only [acceptJoin]
        split
        · refine NF_bind (ih1 ch es (by omega)) (fun a _ => ?_)
          exact NF_bind (ih2 rest _ (by omega)) (fun b _ => NF_pure _)
        · refine NF_bind (NF_pure _) (fun a _ => ?_)
          exact NF_bind (ih2 rest _ (by omega)) (fun b _ => NF_pure _)
    · intro cs i es hf
      simp only [acceptOr]
      split
      · exact NF_ok _
      · rename_i ch hch
        have hl : i < cs.length := (List.getElem?_eq_some_iff.mp hch).1
        split
        · refine NF_bind (ih1 ch es (by have := sz_mem hch; omega)) (fun a ha => ?_)
          have hs := (accept_skel f).1 ch es a ha
          split
          · exact NF_pure _
          · refine ih3 _ (i + 1) _ ?_
            rw [skelL_set' cs i ch a.1 hch hs, List.length_set]; omega
        · exact ih3 cs (i + 1) es (by omega)


-- ------------------------------------------------------------------ tryNext
theorem nextCands_length (cs : List ST) (i : Nat) : (nextCands cs i).length ≤ cs.length := by
  unfold nextCands
  exact Nat.le_trans (List.length_filter_le _ _) (by simp)

theorem NF_ite_bind {α β : Type} {c : Prop} [Decidable c] {a b : Outcome α} {k : α → Outcome β}
    (h : NF (if c then a else b)) (hk : ∀ x, (if c then a else b) = .ok x → NF (k x)) :
    NF (if c then a >>= k else b >>= k) := by
  split
  · rename_i hc; simp only [hc, if_true] at h hk; exact NF_bind h hk
  · rename_i hc; simp only [hc, if_false] at h hk; exact NF_bind h hk

theorem trynext_fuel : ∀ f : Nat,
    (∀ t es, smallOr (skel t) → 2 * sz (skel t) + 1 ≤ f → NF (tryNext f t es)) ∧
    (∀ cs start es, smallOrL (skelL cs) → 2 * szL (skelL cs) + start + cs.length + 3 ≤ f → NF (tryBack f cs start es)) ∧
    (∀ cs js es, 2 * szL (skelL cs) + js.length + 1 ≤ f → NF (tryFwd f cs js es)) := by
  intro f
  induction f with
  | zero => exact ⟨fun t es _ h => by omega, fun cs s es _ h => by omega, fun cs js es h => by omega⟩
  | succ f ih =>
    obtain ⟨ih1, ih2, ih3⟩ := ih
    refine ⟨?_, ?_, ?_⟩
    · intro t es hsm hf
      cases t with
      | simple n v im => simp only [tryNext]; exact NF_crash _
      | mult j v c c1 k cs =>
        have hsmL : smallOrL (skelL cs) := by simp only [skel, smallOr] at hsm; exact hsm.2
        simp only [skel, sz, skelL_length] at hf
        cases j with
        | or =>
          simp only [tryNext]
          split
          · exact NF_ok _
          · split
            · exact NF_crash _
            · rename_i i hir
              split
              · exact NF_crash _
              · rename_i ch hch
                have hszc := sz_mem hch
                have h1 : NF (if (!ch.isSimple) = true then tryNext f ch es else pure (ch, es, MT.nomore)) := by
                  split
                  · exact ih1 ch es (smallOrL_mem hsmL hch) (by omega)
                  · exact NF_pure _
                refine NF_ite_bind h1 (fun x hx => ?_)
                have hs1 : skel x.1 = skel ch := by
                  split at hx
                  · exact (trynext_val f).1 ch es x hx (smallOrL_mem hsmL hch) |>.1
                  · cases hx; rfl
                try dsimp only
                split
                · exact NF_pure _
                · split
                  · exact NF_pure _
                  · refine NF_bind ((unmark_fuel f).1 x.1 x.2.1 (by rw [hs1]; omega)) (fun y hy => ?_)
                    have hs2 := (unmark_skel f).1 x.1 x.2.1 y hy
                    try dsimp only
                    split
                    · exact NF_pure _
                    · have hget : (cs.set i x.1)[i]? = some x.1 := by
                        have hl : i < cs.length := (List.getElem?_eq_some_iff.mp hch).1
                        simp [hl]
                      have hsk : skelL ((cs.set i x.1).set i y.1) = skelL cs := by
                        rw [skelL_set' _ i x.1 y.1 hget hs2, skelL_set' cs i ch x.1 hch hs1]
                      refine NF_bind ((accept_fuel f).1 _ _ (by
                        simp only [skel, sz, skelL_length, hsk, List.length_set]; omega)) (fun z _ => ?_)
                      split <;> exact NF_pure _
        | and =>
          simp only [tryNext]
          split
          · split
            · exact NF_ok _
            · exact NF_crash _
          · exact NF_bind (ih2 cs _ es hsmL (by omega)) (fun a _ => NF_pure _)
        | andor =>
          simp only [tryNext]
          split
          · split
            · exact NF_ok _
            · exact NF_crash _
          · exact NF_bind (ih2 cs _ es hsmL (by omega)) (fun a _ => NF_pure _)
    · intro cs start es hsm hf
      simp only [tryBack]
      split
      · exact NF_ok _
      · rename_i i hi
        have hile := firstCand_le cs start i hi
        split
        · exact NF_ok _
        · rename_i ch hch
          have hszc := sz_mem hch
          refine NF_bind (ih1 ch es (smallOrL_mem hsm hch) (by omega)) (fun a ha => ?_)
          have hs1 := ((trynext_val f).1 ch es a ha (smallOrL_mem hsm hch)).1
          have hsk : skelL (cs.set i a.1) = skelL cs := skelL_set' cs i ch a.1 hch hs1
          try dsimp only
          split
          · exact NF_pure _
          · split
            · refine ih3 _ _ _ ?_
              rw [hsk]
              have := nextCands_length (cs.set i a.1) i
              simp only [List.length_set] at this
              omega
            · split
              · exact NF_pure _
              · refine ih2 _ (i - 1) _ (by rw [hsk]; exact hsm) ?_
                rw [hsk, List.length_set]; omega
    · intro cs js es hf
      cases js with
      | nil => simp only [tryFwd]; exact NF_ok _
      | cons j js =>
        simp only [List.length_cons] at hf
        simp only [tryFwd]
        split
        · exact ih3 cs js es (by omega)
        · rename_i ch hch
          have hszc := sz_mem hch
          refine NF_bind ((accept_fuel f).1 ch es (by omega)) (fun a ha => ?_)
          have hs := (accept_skel f).1 ch es a ha
          try dsimp only
          split
          · exact NF_pure _
          · refine ih3 _ js _ ?_
            rw [skelL_set' cs j ch a.1 hch hs]; omega

/-- **Termination of the retry loop of `ComplexList::matches`.**  With `cap − val` choice combinations left and fuel for
one walk through the hierarchy on top, `retry` does not run out of fuel: the loop ends after at most `cap − val` rounds. -/
theorem retry_terminates (combo : Bool) : ∀ (m f : Nat) (head : ST) (es : Ents), smallOr (skel head) →
    cap (skel head) - val head ≤ m → m + 2 * sz (skel head) + 2 ≤ f → NF (retry f combo head es) := by
  intro m
  induction m with
  | zero =>
    intro f head es hsm hm hf
    have := val_lt_cap head
    omega
  | succ m ih =>
    intro f head es hsm hm hf
    cases f with
    | zero => omega
    | succ f =>
      simp only [retry]
      refine NF_bind ((trynext_fuel f).1 head es hsm (by omega)) (fun a ha => ?_)
      obtain ⟨hs, hv⟩ := (trynext_val f).1 head es a ha hsm
      have hnext : Moved a.2.2 → NF (retry f combo a.1 a.2.1) := by
        intro hmv
        have hlt := hv hmv
        have hb := val_lt_cap a.1
        rw [hs] at hb
        refine ih f a.1 a.2.1 (by rw [hs]; exact hsm) (by rw [hs]; omega) (by rw [hs]; omega)
      try dsimp only
      split
      · rename_i hall
        split
        · exact NF_pure _
        · exact hnext (Or.inr hall)
      · split
        · rename_i hnc; exact hnext (Or.inl hnc)
        · exact NF_pure _

end StepModel.Complex.Match

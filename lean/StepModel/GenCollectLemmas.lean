import StepModel.GenCollect
/-!
# Lemmas about the `ComplexCollect` model (`GenCollect.lean`): insertion keeps the name order, `remove` with the walk over equal
names removes exactly the list it is given, the pruning loop terminates and leaves the non-dependent lists; the written names do
not depend on the insertion order.
-/
namespace StepModel.Collect
open StepModel.AlphaOrder (StrictTotal)
open StepModel.Generated.CxxCollect

variable (lt : String → String → Bool)

/-! ## insert -/

theorem insert_perm (c : CL) (l : List CL) : (insert lt c l).Perm (c :: l) := by
  induction l with
  | nil => exact List.Perm.refl _
  | cons x r ih =>
    simp only [insert]
    split
    · exact (List.Perm.cons x ih).trans (List.Perm.swap c x r)
    · exact List.Perm.refl _

theorem insert_ordered (h : StrictTotal lt) (c : CL) (l : List CL) (hl : Ordered lt l) : Ordered lt (insert lt c l) := by
  induction l with
  | nil => simp [insert, Ordered]
  | cons x r ih =>
    have hx := List.pairwise_cons.mp hl
    simp only [insert]
    split
    · rename_i hlt
      refine List.pairwise_cons.mpr ⟨?_, ih hx.2⟩
      intro a ha
      cases List.mem_cons.mp ((List.Perm.mem_iff (insert_perm lt c r)).mp ha) with
      | inl e =>
        subst e
        -- x < c, so not c < x
        cases hcx : lt a.name x.name with
        | false => rfl
        | true => have := h.trans _ _ _ hlt hcx; rw [h.irrefl] at this; cases this
      | inr e => exact hx.1 a e
    · rename_i hnlt
      have hnlt' : lt x.name c.name = false := by simpa using hnlt
      refine List.pairwise_cons.mpr ⟨?_, hl⟩
      intro a ha
      cases List.mem_cons.mp ha with
      | inl e => subst e; exact hnlt'
      | inr e =>
        -- not a < x (ordered), not x < c: so not a < c
        have hax := hx.1 a e
        cases hac : lt a.name c.name with
        | false => rfl
        | true =>
          -- a < c, ¬ x < c  ⇒  x ≠ a-name…; by totality either x = c, x > c
          by_cases hxe : x.name = c.name
          · rw [← hxe] at hac; rw [hac] at hax; cases hax
          · rcases h.total _ _ hxe with h1 | h1
            · rw [h1] at hnlt'; cases hnlt'
            · have := h.trans _ _ _ hac h1; rw [this] at hax; cases hax

theorem inserted_ordered (h : StrictTotal lt) (cs acc : List CL) (ha : Ordered lt acc) :
    Ordered lt (cs.foldl (fun l c => insert lt c l) acc) := by
  induction cs generalizing acc with
  | nil => exact ha
  | cons c r ih => exact ih _ (insert_ordered lt h c acc ha)

theorem inserted_perm (cs acc : List CL) : (cs.foldl (fun l c => insert lt c l) acc).Perm (acc ++ cs) := by
  induction cs generalizing acc with
  | nil => simp
  | cons c r ih =>
    simp only [List.foldl_cons]
    refine (ih _).trans ?_
    refine (List.Perm.append_right r (insert_perm lt c acc)).trans ?_
    simp only [List.cons_append]
    exact List.perm_middle.symm

/-! ## remove, with the walk that goes on over equal names -/

theorem remove_mid (pre : List CL) (c : CL) (r : List CL) (ho : Ordered lt (pre ++ c :: r)) (hd : DistinctIds (pre ++ c :: r)) :
    remove lt .untilSelfWhileNotGreater c (pre ++ c :: r) = pre ++ r := by
  induction pre with
  | nil => simp [remove, stepsOver]
  | cons x p ih =>
    have ho' := List.pairwise_cons.mp ho
    have hd' : x.id ∉ (p ++ c :: r).map (·.id) ∧ ((p ++ c :: r).map (·.id)).Nodup := by
      have : (x.id :: (p ++ c :: r).map (·.id)).Nodup := hd
      exact List.nodup_cons.mp this
    have hne : x.id ≠ c.id := by
      intro e
      apply hd'.1
      simp [e]
    have hlt : lt c.name x.name = false := ho'.1 c (by simp)
    have hs : stepsOver lt .untilSelfWhileNotGreater c x = true := by simp [stepsOver, hne, hlt]
    simp only [List.cons_append, remove, hs, if_true]
    rw [ih ho'.2 hd'.2]

/-! ## the pruning loop -/

theorem prune_split (post pre : List CL) (fuel : Nat) (ho : Ordered lt (pre ++ post)) (hd : DistinctIds (pre ++ post))
    (hf : post.length + 1 ≤ fuel) :
    prune lt .untilSelfWhileNotGreater fuel (pre ++ post) pre.length = some (pre ++ post.filter (fun c => !c.dependent)) := by
  induction post generalizing pre fuel with
  | nil =>
    cases fuel with
    | zero => omega
    | succ f => simp [prune]
  | cons c r ih =>
    cases fuel with
    | zero => omega
    | succ f =>
      have hget : (pre ++ c :: r)[pre.length]? = some c := by simp
      simp only [prune, hget]
      have hf' : r.length + 1 ≤ f := by simp at hf; omega
      cases hdep : c.dependent with
      | true =>
        simp only [if_true]
        rw [remove_mid lt pre c r ho hd]
        have ho2 : Ordered lt (pre ++ r) := by
          refine List.Pairwise.sublist ?_ ho
          exact List.Sublist.append_left (List.sublist_cons_self c r) pre
        have hd2 : DistinctIds (pre ++ r) := by
          refine List.Nodup.sublist ?_ hd
          exact List.Sublist.map _ (List.Sublist.append_left (List.sublist_cons_self c r) pre)
        rw [ih pre f ho2 hd2 hf']
        simp [hdep]
      | false =>
        simp only [Bool.false_eq_true, if_false]
        have e : pre ++ c :: r = (pre ++ [c]) ++ r := by simp
        have hl : pre.length + 1 = (pre ++ [c]).length := by simp
        rw [e, hl, ih (pre ++ [c]) f (by rw [← e]; exact ho) (by rw [← e]; exact hd) hf']
        simp [hdep]

/-- with the walk found in the tree after fix C17-2 the constructor's loop ends after at most `length + 1` rounds and
    leaves exactly the non-dependent lists, in name order -/
theorem build_current (h : StrictTotal lt) (cs : List CL) (hd : DistinctIds cs) :
    build lt .untilSelfWhileNotGreater (cs.length + 1) cs
      = some ((cs.foldl (fun l c => insert lt c l) []).filter (fun c => !c.dependent)) := by
  unfold build
  have hp := inserted_perm lt cs []
  have ho := inserted_ordered lt h cs [] (by simp [Ordered])
  have hd' : DistinctIds (cs.foldl (fun l c => insert lt c l) []) := by
    unfold DistinctIds at *
    exact (List.Perm.nodup_iff (List.Perm.map _ (by simpa using hp))).mpr hd
  have hlen : (cs.foldl (fun l c => insert lt c l) []).length = cs.length := by simpa using hp.length_eq
  have := prune_split lt (cs.foldl (fun l c => insert lt c l) []) [] (cs.length + 1) (by simpa using ho) (by simpa using hd') (by omega)
  simpa using this

/-- the walk `while( cl && *cl < *c )`: two lists of one name, the second dependent — `remove` gives up, the cursor stays: for every
    amount of fuel the loop is still running (exp2cxx hangs: the defect fixed by C17-2) -/
theorem prune_whileLess_hangs (hirr : ∀ a, lt a a = false) (a b : CL) (hn : a.name = b.name) (hi : a.id ≠ b.id)
    (ha : a.dependent = false) (hb : b.dependent = true) : ∀ fuel, prune lt .whileLess fuel [a, b] 0 = none := by
  have hrem : remove lt .whileLess b [a, b] = [a, b] := by
    have h1 : stepsOver lt .whileLess b a = false := by simp [stepsOver, hn, hirr]
    have h2 : stepsOver lt .whileLess b b = false := by simp [stepsOver, hirr]
    simp [remove, h1, hi]
  have h1 : ∀ fuel, prune lt .whileLess fuel [a, b] 1 = none := by
    intro fuel
    induction fuel with
    | zero => rfl
    | succ f ih => simp [prune, hb, hrem, ih]
  intro fuel
  cases fuel with
  | zero => rfl
  | succ f => simp [prune, ha, h1]

/-! ## compstructs.cc does not depend on the order of insertion -/

theorem written_order_independent (h : StrictTotal lt) (cs₁ cs₂ : List CL) (hp : cs₁.Perm cs₂) :
    written ((cs₁.foldl (fun l c => insert lt c l) []).filter (fun c => !c.dependent))
      = written ((cs₂.foldl (fun l c => insert lt c l) []).filter (fun c => !c.dependent)) := by
  have o₁ := List.Pairwise.filter (fun c : CL => !c.dependent) (inserted_ordered lt h cs₁ [] (by simp [Ordered]))
  have o₂ := List.Pairwise.filter (fun c : CL => !c.dependent) (inserted_ordered lt h cs₂ [] (by simp [Ordered]))
  have p₁ : (cs₁.foldl (fun l c => insert lt c l) []).Perm cs₁ := by simpa using inserted_perm lt cs₁ []
  have p₂ : (cs₂.foldl (fun l c => insert lt c l) []).Perm cs₂ := by simpa using inserted_perm lt cs₂ []
  have pp := List.Perm.map (·.name) (List.Perm.filter (fun c : CL => !c.dependent) ((p₁.trans hp).trans p₂.symm))
  unfold written
  refine List.Perm.eq_of_pairwise (le := fun a b => lt b a = false) ?_ ?_ ?_ pp
  · intro a b _ _ hab hba
    by_cases e : a = b
    · exact e
    · rcases h.total a b e with t | t
      · rw [t] at hba; cases hba
      · rw [t] at hab; cases hab
  · exact List.pairwise_map.mpr o₁
  · exact List.pairwise_map.mpr o₂

end StepModel.Collect

import StepModel.Generated.HashGen
/-!
# Model of libexpress' linear hash table (`src/express/hash.c`) and `DICTdo` (`src/express/dict.c`)

Follows the code that exists:
* `HASHhash`: `h = h * PRIME1 ^ (c - ' ')` over the key bytes in `unsigned long` (64 bit) arithmetic,
  `h %= PRIME2`, `address = h mod maxp`, and `h mod 2*maxp` when `address < p`;
* `HASHsearch(…, HASH_INSERT)`: walk the chain comparing **keys** (`strcmp`), append at the end of the chain,
  `++KeyCount / (SegmentCount << 8) > MaxLoadFactor` triggers `HASHexpand_table`;
* `HASHexpand_table`: splits bucket `p` (linear hashing); note `SegmentCount++` on *every* split (not per new
  segment) exactly as in the source — it only enters the load test and the bound of the iteration loop;
* `HASHlist` / `DICTdo`: segments `0 … SegmentCount-1` (unallocated directory slots are NULL and skipped),
  buckets `0 … 255`, each chain front to back, optionally filtered by the one-character class.

The table is polymorphic in the payload `π` (the `data`/`symbol` pointers and the class character of an
`Element`, i.e. everything that is *not* the key).  No operation inspects the payload except the class filter of
`HASHlist`, which is passed as a predicate.  `C12` proves that the iteration order is a function of the key
sequence only.
-/
namespace StepModel.ExpressHash

-- SEGMENT_SIZE, DIRECTORY_SIZE, PRIME1, PRIME2, MAX_LOAD_FACTOR: regenerated from include/express/hash.h
export StepModel.Generated.Hash (segmentSize directorySize prime1 prime2 maxLoadFactor)
def wordMod : Nat := 2 ^ 64        -- `Address` = unsigned long on the LP64 targets the check runs on

/-- one step of the string-to-integer loop: `h = h * PRIME1 ^ (*k++ - ' ')`; the `int` operand is converted to
    `unsigned long` (two's complement for bytes below 32). -/
def hashStep (h : Nat) (c : UInt8) : Nat :=
  ((h * prime1) % wordMod) ^^^ ((c.toNat + wordMod - 32) % wordMod)

def rawHash (key : String) : Nat :=
  (key.toUTF8.toList.foldl hashStep 0) % prime2

/-- the part of `Hash_Table_` the algorithms read -/
structure Table (π : Type) where
  segmentCount : Nat
  p : Nat
  maxp : Nat
  keyCount : Nat
  /-- bucket chains by address; `buckets.size` = 256 × allocated segments -/
  buckets : Array (List (String × π))

/-- `HASHcreate(count)` for `count ≤ 256` (every dictionary of libexpress): one segment. -/
def create {π : Type} : Table π :=
  { segmentCount := 1, p := 0, maxp := segmentSize, keyCount := 0, buckets := Array.replicate segmentSize [] }

/-- `HASHhash(key, table)`: reads `maxp` and `p` only -/
def addressOf (p maxp : Nat) (key : String) : Nat :=
  let h := rawHash key
  let a := h % maxp
  if a < p then h % (2 * maxp) else a

def address {π : Type} (t : Table π) (key : String) : Nat := addressOf t.p t.maxp key

/-- the bucket array after a possible `CALLOC` of a new segment -/
def grow {π : Type} (bs : Array (List (String × π))) (newAddr : Nat) : Array (List (String × π)) :=
  if newAddr % segmentSize == 0 then bs ++ Array.replicate segmentSize [] else bs

/-- `HASHexpand_table`: split bucket `p`; the records whose new address is `maxp + p` move (in order) to the new
    chain, the others stay (in order) -/
def expand {π : Type} (t : Table π) : Table π :=
  if t.maxp + t.p < directorySize * segmentSize then
    let newAddr := t.maxp + t.p
    let pm : Nat × Nat := if t.p + 1 == t.maxp then (0, t.maxp * 2) else (t.p + 1, t.maxp)
    let bs := grow t.buckets newAddr
    let old := bs.getD t.p []
    { segmentCount := t.segmentCount + 1, p := pm.1, maxp := pm.2, keyCount := t.keyCount,
      buckets := (bs.setIfInBounds t.p (old.filter fun e => !(addressOf pm.1 pm.2 e.1 == newAddr))).setIfInBounds newAddr
                   (old.filter fun e => addressOf pm.1 pm.2 e.1 == newAddr) }
  else t

/-- `HASHsearch(table, item, HASH_INSERT)` (`DICTdefine` calls it): no-op when the key is present. -/
def insert {π : Type} (t : Table π) (key : String) (v : π) : Table π :=
  if (t.buckets.getD (address t key) []).any (fun e => e.1 == key) then t
  else if (t.keyCount + 1) / (t.segmentCount * segmentSize) > maxLoadFactor then
    expand { segmentCount := t.segmentCount, p := t.p, maxp := t.maxp, keyCount := t.keyCount + 1,
             buckets := t.buckets.setIfInBounds (address t key) (t.buckets.getD (address t key) [] ++ [(key, v)]) }
  else
    { segmentCount := t.segmentCount, p := t.p, maxp := t.maxp, keyCount := t.keyCount + 1,
      buckets := t.buckets.setIfInBounds (address t key) (t.buckets.getD (address t key) [] ++ [(key, v)]) }

def insertAll {π : Type} (t : Table π) (kvs : List (String × π)) : Table π :=
  kvs.foldl (fun t kv => insert t kv.1 kv.2) t

/-- `HASHlistinit_by_type` + repeated `HASHlist`: all elements accepted by `sel`, in iteration order.
    Segments `i < SegmentCount`; a directory slot that was never allocated is NULL and skipped. -/
def list {π : Type} (t : Table π) (sel : π → Bool) : List (String × π) :=
  (List.range t.segmentCount).flatMap fun i =>
    if (i + 1) * segmentSize ≤ t.buckets.size then
      (List.range segmentSize).flatMap fun j => (t.buckets.getD (i * segmentSize + j) []).filter (fun e => sel e.2)
    else []

/-- `DICTdo` order of the keys of a dictionary built by defining `kvs` in this order -/
def dictOrder {π : Type} (kvs : List (String × π)) (sel : π → Bool := fun _ => true) : List (String × π) :=
  list (insertAll create kvs) sel

end StepModel.ExpressHash

/-!
# The order in which exp2cxx emits the SELECT types of a schema (`SCOPEPrint` + `TYPEselect_print`, src/exp2cxx)

`SCOPEPrint` walks the types of the schema in dictionary order and calls `TYPEselect_print( t )` for every select still marked
CANPROCESS.  `TYPEselect_print`: a type that carries the tag (`TYPEget_clientData`) is left alone; otherwise it is tagged, then
* a renamed select (`TYPE b = a`): the original is printed first if it has no tag yet, then b's typedef block is written — no class;
* otherwise every item is looked at in declaration order — an aggregate is replaced by its base type when that is a select or an
  entity (one level) — and an item that is a select without tag is printed first (recursion); then `TYPEPrint( t )` writes the class
  (type/Sdai<T>.h/.cc and the `#include` in Sdai<SCHEMA>.h).
The tags stay for the whole run, i.e. across the schemas of a file.  Types are identified by their qualified names.
-/
namespace StepModel.SelOrder

/-- what `TYPEselect_print` looks at in a select type -/
inductive Sel
  | renamed (orig : String)          -- TYPEget_ancestor: the end of the head chain
  | items (sels : List String)       -- the items that are selects (through one aggregate level), in item order
  deriving Repr

inductive Ev
  | cls (t : String)        -- TYPEPrint: the class of a select
  | typedefs (t : String)   -- the typedef block of a renamed select
  deriving DecidableEq, Repr

def Ev.name : Ev → String
  | .cls t => t
  | .typedefs t => t

structure St where
  tagged : List String := []     -- types carrying a SelectTag
  out : List Ev := []

/-- `TYPEselect_print( t )`; `fuel` bounds the nesting depth -/
def visit (G : String → Option Sel) : Nat → String → St → St
  | 0, _, st => st
  | fuel + 1, t, st =>
    if t ∈ st.tagged then st
    else
      let st := { st with tagged := t :: st.tagged }
      match G t with
      | none => st                       -- not a select of the file
      | some (.renamed i) =>
        let st' := visit G fuel i st     -- (returns at once when i is tagged)
        { st' with out := st'.out ++ [.typedefs t] }
      | some (.items sels) =>
        let st' := sels.foldl (fun s ii => visit G fuel ii s) st
        { st' with out := st'.out ++ [.cls t] }

/-- the select loop of `SCOPEPrint` over the selects of the schema marked CANPROCESS, in dictionary order -/
def visitAll (G : String → Option Sel) (fuel : Nat) (roots : List String) (st : St) : St :=
  roots.foldl (fun s t => visit G fuel t s) st

end StepModel.SelOrder

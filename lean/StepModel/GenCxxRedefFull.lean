import StepModel.GenCxxRedefSpec
import StepModel.GenCxxFrame
/-! `_redefAttr` never appears out of nothing, for ANY supertype graph: an attribute of a fresh instance that is wired to a
redefining attribute is meant by an explicit redeclaration `SELF\sup.x` of some entity of the instance's ancestry — same name,
and (fix C02-9) owned by the entity that declares `sup`'s `x`. -/
namespace StepModel.GenCxx
open StepModel.Generated

def rAt (st : IState) (j : Nat) : Bool :=
  match st.objs[j]? with
  | some o => o.redef
  | none => false

/-- `m` is `n0` or reached from it through SUBTYPE OF lists -/
inductive AncOrSelf (s : Schema) (n0 : String) : String → Prop
  | refl : AncOrSelf s n0 n0
  | step {m q : String} {e : Entity} : AncOrSelf s n0 m → s.findE m = some e → q ∈ e.supers → AncOrSelf s n0 q

/-- some entity of `n0`'s ancestry redeclares this attribute explicitly -/
def RedefBy (s : Schema) (n0 : String) (sa : SA) : Prop :=
  ∃ m e a, AncOrSelf s n0 m ∧ s.findE m = some e ∧ a ∈ e.attrs ∧ a.kind = .explicit ∧ a.redecl.isSome = true ∧
    a.name = sa.name ∧ ownerOK (redefOwner s a) sa.owner = true

def RInv (s : Schema) (n0 : String) (st : IState) : Prop :=
  ∀ j sa, saAt st j = some sa → rAt st j = true → RedefBy s n0 sa

/-- at least the objects of `st`, same descriptors, no `_redefAttr` that `st` does not have -/
def NoNewR (st st' : IState) : Prop :=
  st.objs.length ≤ st'.objs.length ∧ (∀ j, j < st.objs.length → saAt st' j = saAt st j) ∧ ∀ j, rAt st' j = true → rAt st j = true

theorem NoNewR.refl (st : IState) : NoNewR st st := ⟨Nat.le_refl _, fun _ _ => rfl, fun _ h => h⟩

theorem rAt_lt {st : IState} {j : Nat} (h : rAt st j = true) : j < st.objs.length := by
  unfold rAt at h
  cases hj : st.objs[j]? with
  | none => simp [hj] at h
  | some o => exact Nat.lt_of_not_le (fun hl => by rw [List.getElem?_eq_none hl] at hj; cases hj)

theorem NoNewR.trans {x y z : IState} (h1 : NoNewR x y) (h2 : NoNewR y z) : NoNewR x z :=
  ⟨Nat.le_trans h1.1 h2.1,
   fun j hj => (h2.2.1 j (Nat.lt_of_lt_of_le hj h1.1)).trans (h1.2.1 j hj),
   fun j h => h1.2.2 j (h2.2.2 j h)⟩

theorem RInv.noNew {s : Schema} {n0 : String} {st st' : IState} (h : RInv s n0 st) (hn : NoNewR st st') : RInv s n0 st' := by
  intro j sa hs hr
  have hr0 := hn.2.2 j hr
  have hlt := rAt_lt hr0
  exact h j sa (by rw [← hn.2.1 j hlt]; exact hs) hr0

theorem rAt_setDerive (st : IState) (i j : Nat) : rAt (setDerive st i) j = rAt st j := by
  unfold rAt setDerive
  simp only [modAt_getElem]
  cases st.objs[j]? with
  | none => rfl
  | some o => simp only [Option.map_some]; split <;> rfl

theorem rAt_setRedef (st : IState) (i j : Nat) :
    rAt (setRedef st i) j = (rAt st j || (j == i && decide (j < st.objs.length))) := by
  unfold rAt setRedef
  simp only [modAt_getElem]
  cases h : st.objs[j]? with
  | none =>
    have : ¬ j < st.objs.length := by
      intro hl; rw [List.getElem?_eq_getElem hl] at h; cases h
    simp [this]
  | some o =>
    have : j < st.objs.length :=
      Nat.lt_of_not_le (fun hl => by rw [List.getElem?_eq_none hl] at h; cases h)
    by_cases e : j = i
    · subst e; simp [this]
    · simp [e]

theorem noNewR_setDerive (st : IState) (i : Nat) : NoNewR st (setDerive st i) :=
  ⟨by simp [setDerive, modAt_length], fun j _ => saAt_setDerive st i j, fun j h => by rw [rAt_setDerive] at h; exact h⟩

theorem noNewR_applyDerived (calls : List (String × String)) (l : List Nat) : ∀ st : IState, NoNewR st (applyDerived st l calls) := by
  unfold applyDerived
  induction calls with
  | nil => intro st; exact NoNewR.refl st
  | cons c cs ih =>
    intro st
    simp only [List.foldl_cons]
    cases findAttr st l c.1 (some c.2) with
    | none => exact ih st
    | some i => exact (noNewR_setDerive st i).trans (ih _)

theorem noNewR_newObj (st : IState) (sa : SA) (hd : List Nat) :
    NoNewR st { objs := st.objs ++ [{ sa := sa }], head := hd } := by
  refine ⟨by simp, fun j hj => ?_, fun j h => ?_⟩
  · show ((st.objs ++ [({ sa := sa } : Obj)])[j]?).map (·.sa) = saAt st j
    unfold saAt; rw [List.getElem?_append_left hj]
  · have hlt := rAt_lt h
    simp only [List.length_append, List.length_singleton] at hlt
    by_cases hj : j < st.objs.length
    · unfold rAt at h ⊢
      simp only at h
      rw [List.getElem?_append_left hj] at h
      exact h
    · have : j = st.objs.length := by omega
      subst this
      unfold rAt at h
      simp at h

/-- the attribute `MakeRedefined( a, nm [, owner] )` finds has that name and, when an owner is given, that owner -/
theorem findAttr_spec {st : IState} {l : List Nat} {nm : String} {ow : Option String} {j : Nat}
    (h : findAttr st l nm ow = some j) : ∃ sa, saAt st j = some sa ∧ sa.name = nm ∧ ownerOK ow sa.owner = true := by
  unfold findAttr at h
  have hp := List.find?_some h
  cases hs : saAt st j with
  | none => simp [hs] at hp
  | some sa =>
    simp only [hs, Bool.and_eq_true, beq_iff_eq] at hp
    refine ⟨sa, rfl, hp.1, ?_⟩
    unfold ownerOK
    cases ow with
    | none => rfl
    | some o => simpa using hp.2

theorem setRedef_rinv {s : Schema} {n0 : String} {st : IState} (h : RInv s n0 st) {j : Nat} {sa : SA} (hs : saAt st j = some sa)
    (hb : RedefBy s n0 sa) : RInv s n0 (setRedef st j) := by
  intro i sb hsb hr
  rw [saAt_setRedef] at hsb
  rw [rAt_setRedef] at hr
  simp only [Bool.or_eq_true, Bool.and_eq_true, beq_iff_eq, decide_eq_true_eq] at hr
  rcases hr with hr | ⟨hij, _⟩
  · exact h i sb hsb hr
  · subst hij
    rw [hs] at hsb
    cases hsb
    exact hb

/-- one own attribute of entity `e` (= `m`, in the ancestry of `n0`) -/
theorem ownStep_rinv {s : Schema} {n0 m : String} {e : Entity} (ha0 : AncOrSelf s n0 m) (hE : s.findE m = some e)
    (st : IState) (c : Option (List Nat)) (a : Attr) (ha : a ∈ e.attrs) (hk : a.kind = .explicit) (h : RInv s n0 st) :
    RInv s n0 (ownStep (redefOwner s) e (st, c) a).1 := by
  let sa : SA := { owner := e.name, name := dictAttrName a, kind := attrDKind a }
  let st1 : IState := { st with objs := st.objs ++ [{ sa := sa }] }
  let st2 : IState := { st1 with head := pushId st1 st1.head st.objs.length }
  have h2 : RInv s n0 st2 := h.noNew (noNewR_newObj st sa _)
  have found : ∀ (l : List Nat) (j : Nat), a.redecl.isSome = true → findAttr st2 l a.name (redefOwner s a) = some j →
      RInv s n0 (setRedef st2 j) := by
    intro l j hr hf
    obtain ⟨sb, hsb, hn, ho⟩ := findAttr_spec hf
    exact setRedef_rinv h2 hsb ⟨m, e, a, ha0, hE, ha, hk, hr, hn.symm, ho⟩
  cases c with
  | none =>
    have hres : (ownStep (redefOwner s) e (st, none) a).1 =
        (if a.redecl.isSome then
          (match findAttr st2 st2.head a.name (redefOwner s a) with | some j => setRedef st2 j | none => st2) else st2) := rfl
    rw [hres]
    by_cases hr : a.redecl.isSome = true
    · simp only [hr, ↓reduceIte]
      cases hf : findAttr st2 st2.head a.name (redefOwner s a) with
      | none => exact h2
      | some j => exact found _ j hr hf
    · simp only [hr]; exact h2
  | some l =>
    let l' := pushId st1 l st.objs.length
    have hres : (ownStep (redefOwner s) e (st, some l) a).1 =
        (if a.redecl.isSome then
          (match findAttr st2 l' a.name (redefOwner s a) with | some j => setRedef st2 j | none => st2) else st2) := rfl
    rw [hres]
    by_cases hr : a.redecl.isSome = true
    · simp only [hr, ↓reduceIte]
      cases hf : findAttr st2 l' a.name (redefOwner s a) with
      | none => exact h2
      | some j => exact found _ j hr hf
    · simp only [hr]; exact h2

theorem ownLoop_rinv {s : Schema} {n0 m : String} {e : Entity} (ha0 : AncOrSelf s n0 m) (hE : s.findE m = some e)
    (st : IState) (c : Option (List Nat)) (h : RInv s n0 st) : RInv s n0 (ownLoop (redefOwner s) e st c).1 := by
  unfold ownLoop
  have hmem : ∀ a ∈ e.attrs.filter (fun a => a.kind == .explicit), a ∈ e.attrs ∧ a.kind = .explicit := by
    intro a ha
    have := List.mem_filter.1 ha
    exact ⟨this.1, by simpa using this.2⟩
  generalize e.attrs.filter (fun a => a.kind == .explicit) = as at hmem
  induction as generalizing st c with
  | nil => exact h
  | cons a as ih =>
    simp only [List.foldl_cons]
    have h1 := ownStep_rinv ha0 hE st c a (hmem a (by simp)).1 (hmem a (by simp)).2 h
    have hpair : ownStep (redefOwner s) e (st, c) a = ((ownStep (redefOwner s) e (st, c) a).1, (ownStep (redefOwner s) e (st, c) a).2) := rfl
    rw [hpair]
    exact ih _ _ h1 (fun b hb => hmem b (by simp [hb]))

theorem ctorWF_rinv (s : Schema) (n0 : String) :
    ∀ (f : Nat) (m : String) (st : IState) (cur : List Nat), AncOrSelf s n0 m → RInv s n0 st → RInv s n0 (ctorWF s f m st cur).1 := by
  intro f
  induction f with
  | zero => intro m st cur _ h; exact h
  | succ f ih =>
    intro m st cur ha h
    rw [ctorWF_succ]
    cases hE : s.findE m with
    | none => exact h
    | some e =>
      simp only
      have hfold : ∀ (L : List String), (∀ q ∈ L, q ∈ e.supers) → ∀ st' : IState, RInv s n0 st' →
          RInv s n0 (L.foldl (fun st q => (ctorWF s f q st []).1) st') := by
        intro L
        induction L with
        | nil => intro _ st' h'; exact h'
        | cons q qs ihq =>
          intro hmem st' h'
          simp only [List.foldl_cons]
          exact ihq (fun r hr => hmem r (by simp [hr])) _ (ih q st' [] (.step ha hE (hmem q (by simp))) h')
      have body : ∀ (p1 : IState × List Nat) (tail : List String), (∀ q ∈ tail, q ∈ e.supers) → RInv s n0 p1.1 →
          RInv s n0 (applyDerived (ownLoop (redefOwner s) e (tail.foldl (fun st q => (ctorWF s f q st []).1) p1.1) (some p1.2)).1
              ((ownLoop (redefOwner s) e (tail.foldl (fun st q => (ctorWF s f q st []).1) p1.1) (some p1.2)).2.getD []) (derivedCalls s m)) := by
        intro p1 tail ht hp1
        exact (ownLoop_rinv ha hE _ _ (hfold tail ht p1.1 hp1)).noNew (noNewR_applyDerived _ _ _)
      cases hs : e.supers with
      | nil => exact body (st, cur) [] (by simp) h
      | cons p ps =>
        have hp : p ∈ e.supers := by rw [hs]; simp
        exact body (ctorWF s f p st cur) ps (fun q hq => by rw [hs]; simp [hq]) (ih p st cur (.step ha hE hp) h)

theorem ctorNF_rinv (s : Schema) (n0 : String) :
    ∀ (f : Nat) (m : String) (st : IState), AncOrSelf s n0 m → RInv s n0 st → RInv s n0 (ctorNF s f m st) := by
  intro f
  induction f with
  | zero => intro m st _ h; exact h
  | succ f ih =>
    intro m st ha h
    rw [ctorNF_succ]
    cases hE : s.findE m with
    | none => exact h
    | some e =>
      simp only
      have hfold : ∀ (L : List String), (∀ q ∈ L, q ∈ e.supers) → ∀ st' : IState, RInv s n0 st' →
          RInv s n0 (L.foldl (fun st q => (ctorWF s f q st []).1) st') := by
        intro L
        induction L with
        | nil => intro _ st' h'; exact h'
        | cons q qs ihq =>
          intro hmem st' h'
          simp only [List.foldl_cons]
          exact ihq (fun r hr => hmem r (by simp [hr])) _ (ctorWF_rinv s n0 f q st' [] (.step ha hE (hmem q (by simp))) h')
      have body : ∀ (st1 : IState) (tail : List String), (∀ q ∈ tail, q ∈ e.supers) → RInv s n0 st1 →
          RInv s n0 (applyDerived (ownLoop (redefOwner s) e (tail.foldl (fun st q => (ctorWF s f q st []).1) st1) none).1
              (ownLoop (redefOwner s) e (tail.foldl (fun st q => (ctorWF s f q st []).1) st1) none).1.head (derivedCalls s m)) := by
        intro st1 tail ht hp1
        exact (ownLoop_rinv ha hE _ _ (hfold tail ht st1 hp1)).noNew (noNewR_applyDerived _ _ _)
      cases hs : e.supers with
      | nil => exact body st [] (by simp) h
      | cons p ps =>
        have hp : p ∈ e.supers := by rw [hs]; simp
        exact body (ctorNF s f p st) ps (fun q hq => by rw [hs]; simp [hq]) (ih p st (.step ha hE hp) h)

/-- every wired attribute of a fresh instance of `n` is meant by an explicit redeclaration in `n`'s ancestry -/
theorem flags_redef_sound_full (s : Schema) (n : String) (f : Nat) : RInv s n (ctorNF s f n {}) :=
  ctorNF_rinv s n f n {} .refl (fun j sa hs _ => by simp [saAt] at hs)

end StepModel.GenCxx

import StepModel.ExpressDiag
/-! Helper lemmas about `Express.Diag` (printf rendering, the `-w` / `-i` loops, reporting). -/
set_option linter.unusedSimpArgs false
namespace StepModel.Express.Diag
open StepModel.Generated

/-! ### rendering -/

theorem render_eq_subst (amb : Ambient) : ∀ (ps : List Piece) (as : List Arg) (k : Nat),
    fits ps as = true → renderPieces amb ps as k = subst ps as
  | [], as, k, _ => by simp [renderPieces, subst]
  | .lit c :: ps, as, k, h => by
    simp only [fits] at h
    simp [renderPieces, subst, render_eq_subst amb ps as k h]
  | .bad :: ps, as, k, h => by simp [fits] at h
  | .conv c :: ps, [], k, h => by simp [fits] at h
  | .conv c :: ps, a :: as, k, h => by
    simp only [fits, Bool.and_eq_true] at h
    obtain ⟨h1, h2⟩ := h
    cases hc : convArg c a with
    | none => simp [hc] at h1
    | some t => simp [renderPieces, subst, hc, render_eq_subst amb ps as (k + 1) h2]

/-! ### whether arguments fit a format depends on their kinds only -/

inductive Kind | str | chr | int | real
  deriving Repr, DecidableEq

def Arg.kind : Arg → Kind
  | .str _ => .str | .chr _ => .chr | .int _ => .int | .real _ => .real

/-- does a conversion accept an argument of that kind (mirror of `convArg … |>.isSome`) -/
def convOK : Conv → Kind → Bool
  | .s, .str => true
  | .ch, .chr => true | .ch, .int => true
  | .d, .int => true | .d, .chr => true
  | .x, .int => true | .x, .chr => true
  | .f, .real => true
  | _, _ => false

def kindFits : List Piece → List Kind → Bool
  | [], [] => true
  | [], _ :: _ => true
  | .lit _ :: ps, ks => kindFits ps ks
  | .bad :: _, _ => false
  | .conv _ :: _, [] => false
  | .conv c :: ps, k :: ks => convOK c k && kindFits ps ks

theorem convArg_isSome (c : Conv) (a : Arg) : (convArg c a).isSome = convOK c a.kind := by
  cases c <;> cases a <;> rfl

theorem fits_eq_kindFits : ∀ (ps : List Piece) (as : List Arg), fits ps as = kindFits ps (as.map Arg.kind)
  | [], [] => rfl
  | [], _ :: _ => rfl
  | .lit _ :: ps, as => by simp only [fits, kindFits]; exact fits_eq_kindFits ps as
  | .bad :: _, _ => rfl
  | .conv _ :: _, [] => rfl
  | .conv c :: ps, a :: as => by
    simp only [fits, kindFits, List.map_cons, convArg_isSome]; rw [fits_eq_kindFits ps as]

/-- the kinds of arguments a code's format expects are met -/
def codeFits (code : Nat) (ks : List Kind) : Bool := kindFits (parseFmt (formatOf code)) ks

theorem fits_of_codeFits (code : Nat) (as : List Arg) (h : codeFits code (as.map Arg.kind) = true) :
    fits (parseFmt (formatOf code)) as = true := by
  rw [fits_eq_kindFits]; exact h

/-! ### `ERRORset_warning` -/

/-- what one `ERRORset_warning` call does to entry `j`, as a function of the old value -/
def newOverride (name : String) (b : Bool) (j : Nat) (old : Bool) : Bool :=
  if switchable j = true ∧ classOf j = some name then b else old

/-- with the severity test in place only warnings are switchable (regenerated constant) -/
theorem switchable_le {j : Nat} (h : switchable j = true) : severityOf j ≤ LibErrors.SEVERITY_WARNING := by
  simpa [switchable, LibErrors.setWarningSeverityGuard] using h

/-- pointwise description of a successful loop over indices `i .. i+n-1` -/
theorem setWarningLoop_apply (guard : Bool) (name : String) (b : Bool) :
    ∀ (n i : Nat) (ov : Overrides) (found : Bool) (ov' : Overrides) (f' : Bool),
      setWarningLoop guard name b n i ov found = .ok ov' f' →
      ∀ j, ov' j = if i ≤ j ∧ j < i + n then newOverride name b j (ov j) else ov j
  | 0, i, ov, found, ov', f', h, j => by
    simp [setWarningLoop] at h
    rw [← h.1]; simp; omega
  | n + 1, i, ov, found, ov', f', h, j => by
    have step : ∀ (ovm : Overrides) (fm : Bool),
        setWarningLoop guard name b n (i + 1) ovm fm = .ok ov' f' →
        ovm i = newOverride name b i (ov i) → (∀ k, k ≠ i → ovm k = ov k) →
        ov' j = if i ≤ j ∧ j < i + (n + 1) then newOverride name b j (ov j) else ov j := by
      intro ovm fm hm hi hk
      have ih := setWarningLoop_apply guard name b n (i + 1) ovm fm ov' f' hm j
      rw [ih]
      by_cases hj : j = i
      · subst hj
        have h1 : ¬ (j + 1 ≤ j ∧ j < j + 1 + n) := by omega
        have h2 : j ≤ j ∧ j < j + (n + 1) := by omega
        simp [h1, h2, hi]
      · have e1 : (i + 1 ≤ j ∧ j < i + 1 + n) ↔ (i ≤ j ∧ j < i + (n + 1)) := by omega
        simp [e1, hk j hj]
    unfold setWarningLoop at h
    split at h
    next hs =>
      split at h
      next hc =>
        split at h
        · exact step ov found h (by simp [newOverride, hc]) (fun _ _ => rfl)
        · simp at h
      next c hc =>
        split at h
        next hcn =>
          exact step (setAt ov i b) true h (by simp [setAt, newOverride, hs, hc, hcn])
            (fun k hk => by simp [setAt, hk])
        next hcn =>
          exact step ov found h (by simp [newOverride, hc, hcn]) (fun _ _ => rfl)
    next hs =>
      exact step ov found h (by simp [newOverride, hs]) (fun _ _ => rfl)

/-- two outcomes agree on everything but the override column -/
def sameShape : SetOutcome → SetOutcome → Prop
  | .ok _ f1, .ok _ f2 => f1 = f2
  | .crash, .crash => True
  | _, _ => False

/-- the `found` flag and the crash depend on the table and the name only, never on the override column -/
theorem setWarningLoop_shape (guard : Bool) (name : String) (b b' : Bool) :
    ∀ (n i : Nat) (ov1 ov2 : Overrides) (found : Bool),
      sameShape (setWarningLoop guard name b n i ov1 found) (setWarningLoop guard name b' n i ov2 found)
  | 0, i, ov1, ov2, found => by simp [setWarningLoop, sameShape]
  | n + 1, i, ov1, ov2, found => by
    simp only [setWarningLoop]
    by_cases hs : switchable i = true
    · simp only [hs, if_true]
      cases hc : classOf i with
      | none =>
        cases guard
        · simp [sameShape]
        · simpa using setWarningLoop_shape true name b b' n (i + 1) ov1 ov2 found
      | some c =>
        by_cases hcn : c = name
        · simpa [hcn] using setWarningLoop_shape guard name b b' n (i + 1) _ _ true
        · simpa [hcn] using setWarningLoop_shape guard name b b' n (i + 1) ov1 ov2 found
    · simpa [hs] using setWarningLoop_shape guard name b b' n (i + 1) ov1 ov2 found

theorem setWarning_guarded_no_crash (ov : Overrides) (name : String) (b : Bool) {guard : Bool} (hg : guard = true) :
    setWarning guard ov name b ≠ .crash := by
  subst hg
  have : ∀ (n i : Nat) (ov : Overrides) (found : Bool), setWarningLoop true name b n i ov found ≠ .crash := by
    intro n
    induction n with
    | zero => intro i ov found; simp [setWarningLoop]
    | succ n ih =>
      intro i ov found
      simp only [setWarningLoop]
      split
      · split
        · simp; exact ih _ _ _
        · split <;> exact ih _ _ _
      · exact ih _ _ _
  exact this _ _ _ _

/-! ### locality of a switch -/

/-- the two override columns differ at most on warning entries of class `X` -/
def DiffOnly (X : String) (ov₁ ov₂ : Overrides) : Prop :=
  ∀ j, ov₁ j ≠ ov₂ j → classOf j = some X ∧ severityOf j ≤ LibErrors.SEVERITY_WARNING

theorem diffOnly_setWarning (guard : Bool) (X name : String) (b₁ b₂ : Bool) (ov₁ ov₂ ov₁' ov₂' : Overrides) (f₁ f₂ : Bool)
    (h : DiffOnly X ov₁ ov₂) (hb : b₁ = b₂ ∨ name = X)
    (h₁ : setWarning guard ov₁ name b₁ = .ok ov₁' f₁) (h₂ : setWarning guard ov₂ name b₂ = .ok ov₂' f₂) :
    DiffOnly X ov₁' ov₂' := by
  intro j hj
  have a₁ := setWarningLoop_apply guard name b₁ _ 0 ov₁ false ov₁' f₁ h₁ j
  have a₂ := setWarningLoop_apply guard name b₂ _ 0 ov₂ false ov₂' f₂ h₂ j
  rw [a₁, a₂] at hj
  by_cases hr : 0 ≤ j ∧ j < 0 + LibErrors.tableSize
  · simp only [hr, and_self, if_true] at hj
    unfold newOverride at hj
    by_cases hc : switchable j = true ∧ classOf j = some name
    · simp only [hc, and_self, if_true] at hj
      rcases hb with hb | hb
      · exact absurd hb hj
      · exact ⟨hb ▸ hc.2, switchable_le hc.1⟩
    · simp only [hc, if_false] at hj
      exact h j hj
  · simp only [hr, if_false] at hj
    exact h j hj

theorem applySwitches_local (guard : Bool) (X : String) :
    ∀ (post : List Switch) (ov₁ ov₂ : Overrides), DiffOnly X ov₁ ov₂ →
      match applySwitches guard post ov₁, applySwitches guard post ov₂ with
      | .ok o₁, .ok o₂ => DiffOnly X o₁ o₂
      | .crash, .crash => True
      | .usage, .usage => True
      | _, _ => False
  | [], ov₁, ov₂, h => by simpa [applySwitches] using h
  | s :: ss, ov₁, ov₂, h => by
    simp only [applySwitches]
    have sh := setWarningLoop_shape guard s.name (s.opt = (if LibErrors.overrideLetter = 'w' then Sw.w else Sw.i))
      (s.opt = (if LibErrors.overrideLetter = 'w' then Sw.w else Sw.i)) LibErrors.tableSize 0 ov₁ ov₂ false
    unfold setWarning
    cases h₁ : setWarningLoop guard s.name (decide (s.opt = (if LibErrors.overrideLetter = 'w' then Sw.w else Sw.i))) LibErrors.tableSize 0 ov₁ false with
    | crash =>
      cases h₂ : setWarningLoop guard s.name (decide (s.opt = (if LibErrors.overrideLetter = 'w' then Sw.w else Sw.i))) LibErrors.tableSize 0 ov₂ false with
      | crash => simp
      | ok o f => rw [h₁, h₂] at sh; simp [sameShape] at sh
    | ok o₁ f₁ =>
      cases h₂ : setWarningLoop guard s.name (decide (s.opt = (if LibErrors.overrideLetter = 'w' then Sw.w else Sw.i))) LibErrors.tableSize 0 ov₂ false with
      | crash => rw [h₁, h₂] at sh; simp [sameShape] at sh
      | ok o₂ f₂ =>
        rw [h₁, h₂] at sh
        simp only [sameShape] at sh
        subst sh
        cases f₁ with
        | false => simp
        | true =>
          simp only
          exact applySwitches_local guard X ss o₁ o₂
            (diffOnly_setWarning guard X s.name _ _ ov₁ ov₂ o₁ o₂ true true h (Or.inl rfl) h₁ h₂)

theorem applySwitches_prefix (guard : Bool) :
    ∀ (pre rest : List Switch) (ov : Overrides),
      applySwitches guard (pre ++ rest) ov =
        match applySwitches guard pre ov with
        | .ok o => applySwitches guard rest o
        | .crash => .crash
        | .usage => .usage
  | [], rest, ov => by simp [applySwitches]
  | s :: ss, rest, ov => by
    simp only [List.cons_append, applySwitches]
    cases setWarning guard ov s.name _ with
    | crash => simp
    | ok o f =>
      cases f with
      | false => simp
      | true => simpa using applySwitches_prefix guard ss rest o

theorem switch_local_config (guard : Bool) (X : String) (pre post : List Switch) :
    match configure guard (pre ++ ⟨.w, X⟩ :: post), configure guard (pre ++ ⟨.i, X⟩ :: post) with
    | .ok ov₁, .ok ov₂ => ∀ j, ov₁ j ≠ ov₂ j → classOf j = some X ∧ severityOf j ≤ LibErrors.SEVERITY_WARNING
    | .crash, .crash => True
    | .usage, .usage => True
    | _, _ => False := by
  have c₁ : ∀ s, configure guard (pre ++ s :: post) = applySwitches guard (pre ++ s :: post) initOverrides := by
    intro s; cases pre <;> simp [configure, show LibErrors.switchResetsAll = false by decide]
  rw [c₁, c₁, applySwitches_prefix, applySwitches_prefix]
  cases hp : applySwitches guard pre initOverrides with
  | crash => simp
  | usage => simp
  | ok o =>
    simp only [applySwitches]
    have sh := setWarningLoop_shape guard X (Sw.w = (if LibErrors.overrideLetter = 'w' then Sw.w else Sw.i))
      (Sw.i = (if LibErrors.overrideLetter = 'w' then Sw.w else Sw.i)) LibErrors.tableSize 0 o o false
    unfold setWarning
    cases h₁ : setWarningLoop guard X (decide (Sw.w = (if LibErrors.overrideLetter = 'w' then Sw.w else Sw.i))) LibErrors.tableSize 0 o false with
    | crash =>
      cases h₂ : setWarningLoop guard X (decide (Sw.i = (if LibErrors.overrideLetter = 'w' then Sw.w else Sw.i))) LibErrors.tableSize 0 o false with
      | crash => simp
      | ok o f => rw [h₁, h₂] at sh; simp [sameShape] at sh
    | ok o₁ f₁ =>
      cases h₂ : setWarningLoop guard X (decide (Sw.i = (if LibErrors.overrideLetter = 'w' then Sw.w else Sw.i))) LibErrors.tableSize 0 o false with
      | crash => rw [h₁, h₂] at sh; simp [sameShape] at sh
      | ok o₂ f₂ =>
        rw [h₁, h₂] at sh
        simp only [sameShape] at sh
        subst sh
        cases f₁ with
        | false => simp
        | true =>
          simp only
          have d0 : DiffOnly X o o := fun j hj => absurd rfl hj
          exact applySwitches_local guard X post o₁ o₂
            (diffOnly_setWarning guard X X _ _ o o o₁ o₂ true true d0 (Or.inr rfl) h₁ h₂)

/-- one switch for class `X` changes the column only on warning entries of class `X` -/
theorem diffOnly_one_switch (guard : Bool) (X : String) (b : Bool) (ov ov' : Overrides) (f : Bool)
    (h : setWarning guard ov X b = .ok ov' f) : DiffOnly X ov ov' := by
  intro j hj
  have a := setWarningLoop_apply guard X b _ 0 ov false ov' f h j
  rw [a] at hj
  by_cases hr : 0 ≤ j ∧ j < 0 + LibErrors.tableSize
  · simp only [hr, and_self, if_true] at hj
    unfold newOverride at hj
    by_cases hc : switchable j = true ∧ classOf j = some X
    · exact ⟨hc.2, switchable_le hc.1⟩
    · simp only [hc, if_false] at hj; exact absurd rfl hj
  · simp only [hr, if_false] at hj; exact absurd rfl hj

/-- **with and without a switch** — on a command line that already holds a switch (`p :: pre`): inserting `-w X` / `-i X` either is
    refused (usage: `X` names no class) or changes the override column only on warning entries of class `X`.  (For the FIRST switch of a
    command line this is false: see `C20_first_switch_enables_other_classes_witness`.) -/
theorem switch_added_config (guard : Bool) (hg : guard = true) (X : String) (o : Sw) (p : Switch) (pre post : List Switch) :
    match configure guard (p :: pre ++ post), configure guard (p :: pre ++ ⟨o, X⟩ :: post) with
    | .ok ov₁, .ok ov₂ => DiffOnly X ov₁ ov₂
    | _, .usage => True
    | _, _ => False := by
  have c₁ : ∀ l, configure guard ((p :: pre) ++ l) = applySwitches guard ((p :: pre) ++ l) initOverrides := by
    intro l; simp [configure, show LibErrors.switchResetsAll = false by decide]
  rw [c₁, c₁, applySwitches_prefix, applySwitches_prefix]
  have nocrash : ∀ (l : List Switch) (ov : Overrides), applySwitches guard l ov ≠ .crash := by
    intro l
    induction l with
    | nil => intro ov; simp [applySwitches]
    | cons s ss ih =>
      intro ov
      simp only [applySwitches]
      have := setWarning_guarded_no_crash ov s.name (s.opt = (if LibErrors.overrideLetter = 'w' then Sw.w else Sw.i)) hg
      cases hsw : setWarning guard ov s.name (s.opt = (if LibErrors.overrideLetter = 'w' then Sw.w else Sw.i)) with
      | crash => exact absurd hsw this
      | ok o' f => cases f with
        | false => simp
        | true => simpa using ih o'
  cases hp : applySwitches guard (p :: pre) initOverrides with
  | crash => exact absurd hp (nocrash _ _)
  | usage => simp
  | ok ov =>
    simp only [applySwitches]
    have hnc := setWarning_guarded_no_crash ov X (o = (if LibErrors.overrideLetter = 'w' then Sw.w else Sw.i)) hg
    cases hsw : setWarning guard ov X (o = (if LibErrors.overrideLetter = 'w' then Sw.w else Sw.i)) with
    | crash => exact absurd hsw hnc
    | ok ov' f =>
      cases f with
      | false => cases applySwitches guard post ov <;> simp
      | true =>
        simp only
        have hd := diffOnly_one_switch guard X _ ov ov' true hsw
        have hl := applySwitches_local guard X post ov ov' hd
        cases h₁ : applySwitches guard post ov <;> cases h₂ : applySwitches guard post ov' <;>
          simp only [h₁, h₂] at hl ⊢ <;> first | exact hl | trivial | exact absurd h₁ (nocrash _ _) | exact absurd h₂ (nocrash _ _)

theorem warning_not_error {j : Nat} (h : severityOf j ≤ LibErrors.SEVERITY_WARNING) :
    ¬ severityOf j ≥ LibErrors.SEVERITY_ERROR ∧ ¬ severityOf j ≥ LibErrors.SEVERITY_EXIT ∧ ¬ severityOf j ≥ LibErrors.SEVERITY_DUMP := by
  have e0 : LibErrors.SEVERITY_WARNING < LibErrors.SEVERITY_ERROR := by decide
  have e1 : LibErrors.SEVERITY_ERROR ≤ LibErrors.SEVERITY_EXIT := by decide
  have e2 : LibErrors.SEVERITY_EXIT ≤ LibErrors.SEVERITY_DUMP := by decide
  omega

def filt (X : String) (l : List (Nat × List Char)) : List (Nat × List Char) := l.filter (fun p => classOf p.1 ≠ some X)

theorem filt_append (X : String) (a b : List (Nat × List Char)) : filt X (a ++ b) = filt X a ++ filt X b := by
  simp [filt]

theorem filt_single_class (X : String) (c : Nat) (m : List Char) (h : classOf c = some X) : filt X [(c, m)] = [] := by
  simp [filt, h]

theorem switch_local_report (fwd : Bool) (amb : Ambient) (X : String) (ov₁ ov₂ : Overrides) (h : DiffOnly X ov₁ ov₂) :
    ∀ (ds : List Diag) (r₁ r₂ : Run), r₁.occurred = r₂.occurred → r₁.halt = r₂.halt →
      filt X r₁.printed = filt X r₂.printed →
      (report fwd amb ov₁ ds r₁).occurred = (report fwd amb ov₂ ds r₂).occurred ∧
      (report fwd amb ov₁ ds r₁).halt = (report fwd amb ov₂ ds r₂).halt ∧
      filt X (report fwd amb ov₁ ds r₁).printed = filt X (report fwd amb ov₂ ds r₂).printed
  | [], r₁, r₂, ho, hh, hp => by simp [report, ho, hh, hp]
  | d :: ds, r₁, r₂, ho, hh, hp => by
    simp only [report]
    by_cases hsub : d.code = LibErrors.SUBORDINATE_FAILED
    · simp only [hsub, true_or, if_true]
      have := switch_local_report fwd amb X ov₁ ov₂ h ds r₁ r₂ ho hh hp
      simpa [hsub] using this
    · by_cases e₁ : ov₁ d.code = ov₂ d.code
      · -- same enabledness
        cases hen : ov₂ d.code with
        | true =>
          simp only [enabled, e₁, hen, hsub, Bool.not_true, Bool.not_false, false_or, or_true, if_true, Bool.false_eq_true, ↓reduceIte]
          exact switch_local_report fwd amb X ov₁ ov₂ h ds r₁ r₂ ho hh hp
        | false =>
          simp only [enabled, e₁, hen, hsub, Bool.not_false, Bool.not_true, false_or, or_false, if_false, Bool.false_eq_true, ↓reduceIte]
          by_cases s3 : severityOf d.code ≥ LibErrors.SEVERITY_DUMP
          · simp only [s3, if_true]
            exact ⟨by simp [ho], trivial, by rw [filt_append, filt_append, hp]⟩
          · by_cases s2 : severityOf d.code ≥ LibErrors.SEVERITY_EXIT
            · simp only [s3, s2, if_true, if_false]
              exact ⟨by simp [ho], trivial, by rw [filt_append, filt_append, hp]⟩
            · simp only [s3, s2, if_false]
              exact switch_local_report fwd amb X ov₁ ov₂ h ds _ _ (by simp [ho]) hh
                (by simp only []; rw [filt_append, filt_append, hp])
      · obtain ⟨hcX, hsev⟩ := h d.code e₁
        obtain ⟨n1, n2, n3⟩ := warning_not_error hsev
        cases hen : ov₂ d.code with
        | true =>
          have hen1 : ov₁ d.code = false := by cases h1 : ov₁ d.code <;> simp_all
          simp only [enabled, hen, hen1, hsub, Bool.not_true, Bool.not_false, false_or, or_true, or_false, if_true, if_false, n2, n3, Bool.false_eq_true, ↓reduceIte]
          exact switch_local_report fwd amb X ov₁ ov₂ h ds _ _ (by simp [ho, n1]) hh
            (by simp only []; rw [filt_append, filt_single_class X _ _ hcX, List.append_nil, hp])
        | false =>
          have hen1 : ov₁ d.code = true := by cases h1 : ov₁ d.code <;> simp_all
          simp only [enabled, hen, hen1, hsub, Bool.not_true, Bool.not_false, false_or, or_true, or_false, if_true, if_false, n2, n3, Bool.false_eq_true, ↓reduceIte]
          exact switch_local_report fwd amb X ov₁ ov₂ h ds _ _ (by simp [ho, n1]) hh
            (by simp only []; rw [filt_append, filt_single_class X _ _ hcX, List.append_nil, hp])

/-- two runs that look the same outside class `X` -/
def Sim (X : String) (a b : Run) : Prop :=
  a.occurred = b.occurred ∧ a.halt = b.halt ∧ filt X a.printed = filt X b.printed

theorem sim_report (fwd : Bool) (amb : Ambient) (X : String) (ov₁ ov₂ : Overrides) (h : DiffOnly X ov₁ ov₂)
    (ds : List Diag) (a b : Run) (hs : Sim X a b) : Sim X (report fwd amb ov₁ ds a) (report fwd amb ov₂ ds b) :=
  switch_local_report fwd amb X ov₁ ov₂ h ds a b hs.1 hs.2.1 hs.2.2

/-- what the properties observe of a tool run, outside class `X` -/
def SimResult (X : String) (a b : ToolResult) : Prop :=
  a.status = b.status ∧ a.banner = b.banner ∧ a.backendRan = b.backendRan ∧ filt X a.printed = filt X b.printed

theorem sim_haltResult (X : String) (a b : Run) (hs : Sim X a b) (h : Halt) (ran : Bool) :
    SimResult X (haltResult a h ran) (haltResult b h ran) := by
  cases h <;> exact ⟨rfl, rfl, rfl, hs.2.2⟩

theorem sim_failResult (X : String) (a b : Run) (hs : Sim X a b) (ran : Bool) :
    SimResult X (failResult a ran) (failResult b ran) := ⟨rfl, rfl, rfl, hs.2.2⟩

/-- **switch locality for the whole tool run**: with override columns that differ only on warning entries of class `X`,
    `main` ends with the same exit status, banner and backend decision and prints the same diagnostics outside class `X` -/
theorem switch_local_main (tool : Tool) (fwd : Bool) (amb : Ambient) (X : String) (ov₁ ov₂ : Overrides)
    (h : DiffOnly X ov₁ ov₂) (p r b : List Diag) :
    SimResult X (runMain tool fwd amb ov₁ p r b) (runMain tool fwd amb ov₂ p r b) := by
  have s0 : Sim X emptyRun emptyRun := ⟨rfl, rfl, rfl⟩
  have s1 := sim_report fwd amb X ov₁ ov₂ h p _ _ s0
  simp only [runMain]
  generalize report fwd amb ov₁ p emptyRun = A1 at s1 ⊢
  generalize report fwd amb ov₂ p emptyRun = B1 at s1 ⊢
  rw [s1.2.1]
  cases hh1 : B1.halt with
  | some x => exact sim_haltResult X A1 B1 s1 x false
  | none =>
    simp only [s1.1]
    split
    · exact sim_failResult X A1 B1 s1 false
    · have s2 := sim_report fwd amb X ov₁ ov₂ h r _ _ s1
      generalize report fwd amb ov₁ r A1 = A2 at s2 ⊢
      generalize report fwd amb ov₂ r B1 = B2 at s2 ⊢
      rw [s2.2.1]
      cases hh2 : B2.halt with
      | some x => exact sim_haltResult X A2 B2 s2 x false
      | none =>
        simp only [s2.1]
        split
        · exact sim_failResult X A2 B2 s2 false
        · have s3 : Sim X (if hasBackend tool = true then report fwd amb ov₁ b A2 else A2)
                          (if hasBackend tool = true then report fwd amb ov₂ b B2 else B2) := by
            split
            · exact sim_report fwd amb X ov₁ ov₂ h b _ _ s2
            · exact s2
          generalize (if hasBackend tool = true then report fwd amb ov₁ b A2 else A2) = A3 at s3 ⊢
          generalize (if hasBackend tool = true then report fwd amb ov₂ b B2 else B2) = B3 at s3 ⊢
          rw [s3.2.1]
          cases hh3 : B3.halt with
          | some x => exact sim_haltResult X A3 B3 s3 x _
          | none =>
            simp only [s3.1]
            split
            · exact sim_failResult X A3 B3 s3 _
            · exact ⟨rfl, rfl, rfl, s3.2.2⟩

end StepModel.Express.Diag

/-!
# Fixed-capacity sites of the EXPRESS tools (property C06)

Each site is a small total function that returns an explicit `Outcome`: `overflow i` when the C code would store
outside the object (first bad index), `underflow`, `reject` when the code itself stops with a diagnostic, `ok`.
Nothing is totalised away.  The functions are parametrised by a configuration (capacity, copy bound, guard,
flush rule); the configurations of the current source tree are regenerated into `Generated/C06Buffers.lean`
by `tools/extract.d/c06_buffers.py`.

Modelled sites (source):
* `last_comment_[]`          src/express/lexact.c  `SCANprocess_semicolon`, `SCANsave_comment`
* `scopes[MAX_SCOPE_DEPTH]`  src/express/expparse.y `PUSH_SCOPE`, `PUSH_SCOPE_DUMMY`, `POP_SCOPE`
* `heap[]`, `ERROR_string`   src/express/error.c   buffered branch of `ERRORreport_with_symbol`, `ERROR_vprintf`, `ERROR_nexterror`
* `ERRORset_warning`         src/express/error.c   `strcmp( err->name, name )` over `LibErrors[]`
* `wrap()`/`raw()` buffers   src/exppp/exppp.c     `buf[10000]`, `line[1000]`
* `EXPRlength` buffer        src/exppp/pretty_expr.c  `EXPRstring` into `buffer[10000]`
* `newword[MAX_LEN+1]`       src/exp2cxx/class_strings.c `StrToLower`, `StrToUpper`, `StrToConstant`
* exit statuses              src/express/fedex.c `main`, express.c `EXPRESS_fail/EXPRESS_succeed`, usage functions
-/
namespace StepModel.Buffers

inductive Outcome (α : Type) where
  | ok (a : α)
  | overflow (index : Nat)
  | underflow
  | reject
  deriving Repr, DecidableEq

def Outcome.isOverflow {α : Type} : Outcome α → Bool
  | .overflow _ => true
  | _ => false

abbrev Bytes := List UInt8

/-- the C string stored at the start of a byte sequence -/
def cstr (s : Bytes) : Bytes := s.takeWhile (· != 0)

/-! ## `last_comment_` -/

/-- one statement that writes the remark buffer; the source is always the call's text argument -/
inductive CopyOp where
  | strcpy
  | strncpy (n : Nat)
  | store0 (idx : Nat)
  deriving Repr, DecidableEq

/-- `strncpy( dst, src, n )` stores exactly `n` bytes: the string, then NUL padding -/
def padTo (s : Bytes) (n : Nat) : Bytes :=
  (cstr s).take n ++ List.replicate (n - ((cstr s).take n).length) 0

def applyOp (buf src : Bytes) : CopyOp → Outcome Bytes
  | .strcpy =>
    let w := cstr src ++ [0]
    if w.length ≤ buf.length then .ok (w ++ buf.drop w.length) else .overflow buf.length
  | .strncpy n =>
    if n ≤ buf.length then .ok (padTo src n ++ buf.drop n) else .overflow buf.length
  | .store0 i =>
    if i < buf.length then .ok (buf.take i ++ 0 :: buf.drop (i + 1)) else .overflow i

def runOps (buf src : Bytes) : List CopyOp → Outcome Bytes
  | [] => .ok buf
  | op :: rest =>
    match applyOp buf src op with
    | .ok b => runOps b src rest
    | .overflow i => .overflow i
    | .underflow => .underflow
    | .reject => .reject

structure RemarkProg where
  cap : Nat
  semicolon : List CopyOp
  save : List CopyOp

/-- the scanner actions that touch the buffer; `text` = what the action passes as source -/
inductive RemarkCall where
  | semicolon (text : Bytes)   -- `; -- remark\n` : source is the text from the first '-'
  | save (text : Bytes)        -- `-- remark\n` line
  deriving Repr

def remarkInit (p : RemarkProg) : Bytes := List.replicate p.cap 0

def remarkStep (p : RemarkProg) (buf : Bytes) : RemarkCall → Outcome Bytes
  | .semicolon t => runOps buf t p.semicolon
  | .save t => runOps buf t p.save

def remarkRun (p : RemarkProg) (buf : Bytes) : List RemarkCall → Outcome Bytes
  | [] => .ok buf
  | c :: rest =>
    match remarkStep p buf c with
    | .ok b => remarkRun p b rest
    | .overflow i => .overflow i
    | .underflow => .underflow
    | .reject => .reject

/-- static check of one statement against the capacity: bounded below the last byte, which stays NUL -/
def opSafe (cap : Nat) : CopyOp → Bool
  | .strcpy => false
  | .strncpy n => n + 1 ≤ cap
  | .store0 i => i < cap

/-- a later `%s`/`strlen` on the buffer stays inside it -/
def readable (b : Bytes) : Bool := b.contains 0

/-! ## `scopes[]` -/

structure ScopeCfg where
  cap : Nat
  guard : Option Nat        -- `some L`: PUSH_SCOPE stops with a fatal diagnostic when `scope - scopes ≥ L`
  dummyGuard : Option Nat   -- same for PUSH_SCOPE_DUMMY
  deriving Repr

inductive ScopeEv where
  | push | pushDummy | pop
  deriving Repr, DecidableEq

def guardHit (g : Option Nat) (i : Nat) : Bool :=
  match g with
  | some l => decide (l ≤ i)
  | none => false

/-- `i` = `scope - scopes`.  A push makes `scopes[i+1]` current (PUSH_SCOPE stores into it, the dummy push
only makes later reads go there). -/
def scopeStep (c : ScopeCfg) (i : Nat) : ScopeEv → Outcome Nat
  | .push => if guardHit c.guard i then .reject else if i + 1 < c.cap then .ok (i + 1) else .overflow (i + 1)
  | .pushDummy => if guardHit c.dummyGuard i then .reject else if i + 1 < c.cap then .ok (i + 1) else .overflow (i + 1)
  | .pop => if i = 0 then .underflow else .ok (i - 1)

def scopeRun (c : ScopeCfg) (i : Nat) : List ScopeEv → Outcome Nat
  | [] => .ok i
  | e :: rest =>
    match scopeStep c i e with
    | .ok j => scopeRun c j rest
    | .overflow k => .overflow k
    | .underflow => .underflow
    | .reject => .reject

def scopeCfgSafe (c : ScopeCfg) : Bool :=
  (match c.guard with | some l => decide (l + 1 ≤ c.cap) | none => false) &&
  (match c.dummyGuard with | some l => decide (l + 1 ≤ c.cap) | none => false)

/-- token-level view: which keywords of a token stream open / close a parser scope (expparse.y productions
with PUSH_SCOPE / POP_SCOPE) -/
inductive ScopeTok where
  | schema | entity | typeItem | function | procedure | rule | aliasStmt | repeatIncr | query
  | endSchema | endEntity | endType | endFunction | endProcedure | endRule | endAlias | endRepeatIncr | queryClose
  | other
  deriving Repr, DecidableEq

def scopeEvents : List ScopeTok → List ScopeEv
  | [] => []
  | t :: rest =>
    match t with
    | .schema | .entity | .typeItem | .function | .procedure | .rule | .aliasStmt | .repeatIncr | .query =>
      .push :: scopeEvents rest
    | .endSchema | .endEntity | .endType | .endFunction | .endProcedure | .endRule | .endAlias | .endRepeatIncr
    | .queryClose => .pop :: scopeEvents rest
    | .other => scopeEvents rest

/-! ## error.c: buffered diagnostics -/

structure ErrCfg where
  maxErrors : Nat
  maxSpace : Nat
  maxStrlen : Nat
  heapSize : Nat               -- elements of `heap[]`
  allocated : Nat              -- bytes malloc'ed for the message buffer
  span : Nat                   -- `ERROR_string_end - ERROR_string_base`
  boundedPrint : Bool          -- `vsnprintf( ERROR_string, ERROR_string_end - ERROR_string, … )`
  clampOnTruncation : Bool     -- result larger than the room ⇒ `ERROR_string = ERROR_string_end`
  nextGuard : Bool             -- `ERROR_nexterror` does not step past the end
  nextWrites : Nat             -- bytes `ERROR_nexterror` itself stores at `ERROR_string` (0: it only steps over the terminator)
  spaceGuard : Option (Nat × Nat)   -- flush+exit when `ERROR_string + a > base + b`
  countGuard : Option Nat           -- flush+exit when `ERROR_with_lines == n`
  fullContinues : Bool              -- a full buffer is flushed and started again (the run goes on) instead of flush+exit
  deriving Repr

structure ErrState where
  used : Nat     -- `ERROR_string - ERROR_string_base`
  count : Nat    -- `ERROR_with_lines`
  deriving Repr, DecidableEq

structure Msg where
  prefixLen : Nat   -- formatted length of "file:line: --ERROR PEnnn: "
  bodyLen : Nat     -- formatted length of the message with its arguments
  fatal : Bool      -- severity ≥ SEVERITY_EXIT
  deriving Repr

inductive ErrEv where
  | report (m : Msg)
  | flush             -- `ERRORflush_messages` : print, then `ERROR_start_message_buffer`
  deriving Repr

/-- one `ERROR_vprintf`; `none` = a store outside the allocated block -/
def errPrint (c : ErrCfg) (u len : Nat) : Option Nat :=
  if c.boundedPrint then
    if c.span < u then none                       -- negative room, converted to a huge size_t: unbounded
    else
      let room := c.span - u
      let stored := min (len + 1) room            -- bytes written, terminator included
      if c.allocated < u + stored then none
      else if room < len then (if c.clampOnTruncation then some c.span else some (u + len))
      else some (u + len)
  else
    if c.allocated < u + len + 1 then none else some (u + len)

/-- `ERROR_nexterror`; `none` = a store outside the allocated block -/
def errNext (c : ErrCfg) (u : Nat) : Option Nat :=
  if c.nextGuard && u == c.span then some u
  else if c.allocated < u + c.nextWrites then none
  else some (u + max 1 c.nextWrites)

def spaceHit (c : ErrCfg) (u : Nat) : Bool :=
  match c.spaceGuard with | some (a, b) => decide (b < u + a) | none => false

def countHit (c : ErrCfg) (idx : Nat) : Bool :=
  match c.countGuard with | some n => idx == n | none => false

def errStep (c : ErrCfg) (s : ErrState) : ErrEv → Outcome ErrState
  | .flush => .ok ⟨0, 0⟩
  | .report m =>
    let idx := s.count + 1                         -- `child = ++ERROR_with_lines; … heap[child] = …`
    if c.heapSize ≤ idx then .overflow idx
    else
      match errPrint c s.used m.prefixLen with
      | none => .overflow c.allocated
      | some u1 =>
        match errPrint c u1 m.bodyLen with
        | none => .overflow c.allocated
        | some u2 =>
          match errNext c u2 with
          | none => .overflow c.allocated
          | some u3 =>
            if m.fatal then .reject
            else if spaceHit c u3 || countHit c idx then (if c.fullContinues then .ok ⟨0, 0⟩ else .reject)
            else .ok ⟨u3, idx⟩

def errRun (c : ErrCfg) (s : ErrState) : List ErrEv → Outcome ErrState
  | [] => .ok s
  | e :: rest =>
    match errStep c s e with
    | .ok s' => errRun c s' rest
    | .overflow k => .overflow k
    | .underflow => .underflow
    | .reject => .reject

def errCfgSafe (c : ErrCfg) : Bool :=
  c.boundedPrint && c.clampOnTruncation && c.nextGuard && decide (c.nextWrites = 0) && decide (c.span ≤ c.allocated) &&
  (match c.countGuard with | some n => decide (n + 1 ≤ c.heapSize) && decide (1 ≤ n) | none => false)

/-! ## `ERRORset_warning` -/

inductive WarnOutcome where
  | done (found : Bool)
  | nullDeref (code : String)     -- `strcmp( NULL, name )`
  deriving Repr, DecidableEq

/-- table rows: (error code, severity ≤ WARNING, warning class name or NULL) -/
def setWarning (nameGuard : Bool) (name : String) : List (String × Bool × Option String) → Bool → WarnOutcome
  | [], found => .done found
  | (code, warn, cls) :: rest, found =>
    if warn then
      match cls with
      | none => if nameGuard then setWarning nameGuard name rest found else .nullDeref code
      | some c => setWarning nameGuard name rest (found || c == name)
    else setWarning nameGuard name rest found

/-! ## exppp `wrap()` / `raw()` -/

inductive FmtCall where
  | vsprintf                                   -- `vsprintf( buf, fmt, args )`
  | vsnprintfTrunc (size : Nat)                -- `vsnprintf( buf, size, … )`, result truncated
  | sized (size mallocExtra secondExtra : Nat) -- vsnprintf(buf,size); when it does not fit: malloc(len+a); vsnprintf(big,len+b)
  deriving Repr, DecidableEq

structure FmtCfg where
  cap : Nat
  call : FmtCall
  deriving Repr

/-- formatting a fragment whose complete formatted length is `len`; `ok n` = characters the caller then sees -/
def fmtOut (c : FmtCfg) (len : Nat) : Outcome Nat :=
  match c.call with
  | .vsprintf => if len + 1 ≤ c.cap then .ok len else .overflow c.cap
  | .vsnprintfTrunc size =>
    if min (len + 1) size ≤ c.cap then .ok (min len (size - 1)) else .overflow c.cap
  | .sized size me se =>
    if c.cap < min (len + 1) size then .overflow c.cap
    else if len < size then .ok len
    else if len + me < min (len + 1) (len + se) then .overflow (len + me)
    else .ok (min len (len + se - 1))

inductive LineAlloc where
  | fixed
  | mallocAbove (thresholdExtra mallocExtra : Nat)   -- `if( indent2 + a > sizeof buf ) line = malloc( indent2 + b )`
  deriving Repr, DecidableEq

structure LineCfg where
  cap : Nat
  alloc : LineAlloc
  deriving Repr

/-- `sprintf( line, "\n%*s", indent2, "" )` stores `indent2 + 2` bytes (indent2 ≥ 0) -/
def lineOut (c : LineCfg) (indent2 : Nat) : Outcome Nat :=
  match c.alloc with
  | .fixed => if indent2 + 2 ≤ c.cap then .ok (indent2 + 1) else .overflow c.cap
  | .mallocAbove te me =>
    if c.cap < indent2 + te then
      (if indent2 + 2 ≤ indent2 + me then .ok (indent2 + 1) else .overflow (indent2 + me))
    else (if indent2 + 2 ≤ c.cap then .ok (indent2 + 1) else .overflow c.cap)

/-! ## `EXPRlength` / `EXPRstring` -/

mutual
/-- printable expression as `EXPRstring` sees it: `fixed` = literal text and formatted numbers this node adds,
`name` = length of the symbol / string / binary text it copies, `extra` = bytes written in addition to that text
because of it (an apostrophe doubled, …) -/
inductive PExpr where
  | leaf (fixed name extra : Nat)
  | query (fixed name : Nat) (agg body : PExpr)
  | funcall (fixed name : Nat) (args : PArgs)
  | op (fixed : Nat) (a b : PExpr)
  | list (fixed : Nat) (args : PArgs)
inductive PArgs where
  | nil
  | cons (sep : Nat) (e : PExpr) (rest : PArgs)
  /-- an element of an aggregate initialiser that is a repetition count `[ x : count ]`: the list holds a wrapper node
  (Type_Repeat) whose `e.op1` is the count expression — the writer prints the count, the bound sees the wrapper -/
  | rep (sep : Nat) (count : PExpr) (rest : PArgs)
end

mutual
def PExpr.strLen : PExpr → Nat
  | .leaf f n x => f + n + x
  | .query f n a b => f + n + a.strLen + b.strLen
  | .funcall f n as => f + n + as.strLen
  | .op f a b => f + a.strLen + b.strLen
  | .list f as => f + as.strLen
def PArgs.strLen : PArgs → Nat
  | .nil => 0
  | .cons s e r => s + e.strLen + r.strLen
  | .rep s e r => s + e.strLen + r.strLen
end

mutual
/-- `EXPRstring_bound` with its constants: `base` per node, `per` per list element, `kf` times the length of a leaf's text;
`rc`: for a repetition count the bound descends into the count expression, as the writer does (else it only sees the
wrapper node: `base`) -/
def PExpr.bound (base per kf : Nat) (rc : Bool) : PExpr → Nat
  | .leaf _ n _ => base + kf * n
  | .query _ n a b => base + n + a.bound base per kf rc + b.bound base per kf rc
  | .funcall _ n as => base + n + as.bound base per kf rc
  | .op _ a b => base + a.bound base per kf rc + b.bound base per kf rc
  | .list _ as => base + as.bound base per kf rc
def PArgs.bound (base per kf : Nat) (rc : Bool) : PArgs → Nat
  | .nil => 0
  | .cons _ e r => per + e.bound base per kf rc + r.bound base per kf rc
  | .rep _ e r => per + (if rc then e.bound base per kf rc else base) + r.bound base per kf rc
end

mutual
/-- every node's fixed text is at most `fmax`, every separator at most `smax`, and a leaf's text is written in at most
`wfac` bytes per character (all regenerated from EXPRstring) -/
def PExpr.wf (fmax smax wfac : Nat) : PExpr → Prop
  | .leaf f n x => f ≤ fmax ∧ n + x ≤ wfac * n
  | .query f _ a b => f ≤ fmax ∧ a.wf fmax smax wfac ∧ b.wf fmax smax wfac
  | .funcall f _ as => f ≤ fmax ∧ as.wf fmax smax wfac
  | .op f a b => f ≤ fmax ∧ a.wf fmax smax wfac ∧ b.wf fmax smax wfac
  | .list f as => f ≤ fmax ∧ as.wf fmax smax wfac
def PArgs.wf (fmax smax wfac : Nat) : PArgs → Prop
  | .nil => True
  | .cons s e r => s ≤ smax ∧ e.wf fmax smax wfac ∧ r.wf fmax smax wfac
  | .rep s e r => s ≤ smax ∧ e.wf fmax smax wfac ∧ r.wf fmax smax wfac
end

structure ExprLenCfg where
  cap : Nat
  sized : Bool        -- buffer is `malloc( EXPRstring_bound( e ) + needExtra )` when that exceeds the array
  base : Nat
  perArg : Nat
  needExtra : Nat
  nameFactor : Nat    -- `n += nameFactor * strlen( e->symbol.name )` for string / identifier / binary leaves
  repeatCounted : Bool  -- for `[ x : count ]` the bound is taken of the expression the writer prints (`arg->e.op1`), not of the wrapper
  deriving Repr

/-- `EXPRstring( buffer, e )` stores `strLen e + 1` bytes -/
def exprLenOut (c : ExprLenCfg) (e : PExpr) : Outcome Nat :=
  let need := e.bound c.base c.perArg c.nameFactor c.repeatCounted + c.needExtra
  let room := if c.sized && decide (c.cap < need) then need else c.cap
  if e.strLen + 1 ≤ room then .ok e.strLen else .overflow room

/-! ## case-conversion name buffers -/

structure LoopCfg where
  cap : Nat
  limit : Option Nat
  deriving Repr

/-- `while( word[i] != 0 [&& i < L] ) { newword[i] = …; ++i; }  newword[i] = 0;` -/
def loopOut (c : LoopCfg) (len : Nat) : Outcome Nat :=
  let n := match c.limit with | some l => min len l | none => len
  if n < c.cap then .ok n else .overflow c.cap

/-- the generators' identifier gate followed by one of the case-conversion loops: an identifier longer than
the gate's limit never reaches the loop (`print_file` exits first) -/
def gatedLoopOut (gate : Option Nat) (c : LoopCfg) (len : Nat) : Outcome Nat :=
  match gate with
  | some g => if g < len then .reject else loopOut c len
  | none => loopOut c len

/-! ## exp2cxx `TypeDescription` -/

structure DescCfg where
  cap : Nat
  bounded : Bool      -- appends go through `desc_cat`: `if( used + 1 < cap ) strncat( buf, s, cap - 1 - used )`
  deriving Repr

/-- one append of a piece of `len` characters to a description that is `used` characters long -/
def descAppend (c : DescCfg) (used len : Nat) : Outcome Nat :=
  if c.bounded then
    (if used + 1 < c.cap then .ok (used + min len (c.cap - 1 - used)) else .ok used)
  else
    (if used + len + 1 ≤ c.cap then .ok (used + len) else .overflow c.cap)

def descRun (c : DescCfg) (used : Nat) : List Nat → Outcome Nat
  | [] => .ok used
  | l :: rest =>
    match descAppend c used l with
    | .ok u => descRun c u rest
    | .overflow i => .overflow i
    | .underflow => .underflow
    | .reject => .reject

/-! ## exppp output file name -/

structure FileNameCfg where
  cap : Nat
  ext : Nat              -- length of the extension `sprintf` adds
  app : Nat              -- length of what may be `strcat`ed afterwards
  guard : Option Nat     -- `some g`: refused (diagnostic, no file) when strlen(name) + g > cap
  deriving Repr

/-- bytes stored into `exppp_filename_buffer` for a schema name of `len` characters (worst case: with the appendix) -/
def fileNameOut (c : FileNameCfg) (len : Nat) : Outcome Nat :=
  match c.guard with
  | some g => if c.cap < len + g then .reject
              else if len + c.ext + c.app + 1 ≤ c.cap then .ok (len + c.ext + c.app) else .overflow c.cap
  | none => if len + c.ext + c.app + 1 ≤ c.cap then .ok (len + c.ext + c.app) else .overflow c.cap

/-! ## `non_unique_types_string` (exp2cxx selects.c, exp2python selects_python.c) -/

structure NonUniqueCfg where
  cap : Nat            -- bytes malloc'ed for the result
  openLen : Nat        -- "("
  sepLen : Nat         -- " | "
  zeroLen : Nat        -- "0" (when no kind is reached twice)
  closeLen : Nat       -- ")"
  kinds : List Nat     -- lengths of "sdaiINTEGER", … in switch order
  deriving Repr

/-- characters the loop over the kinds appends; `flags[i]` = kind i is reached along two or more paths -/
def nuBody (sep : Nat) : Bool → List Nat → List Bool → Nat
  | _, [], _ => 0
  | _, _ :: _, [] => 0
  | first, k :: ks, f :: fs =>
    if f then (if first then 0 else sep) + k + nuBody sep false ks fs else nuBody sep first ks fs

/-- `strlen` of the string the function builds -/
def nonUniqueLen (c : NonUniqueCfg) (flags : List Bool) : Nat :=
  let body := nuBody c.sepLen true c.kinds flags
  c.openLen + (if (List.zipWith (fun (_ : Nat) (f : Bool) => f) c.kinds flags).any id then body else c.zeroLen) + c.closeLen

/-- the unchecked `strcat`s store `strlen + 1` bytes into the malloc'ed block -/
def nonUniqueOut (c : NonUniqueCfg) (flags : List Bool) : Outcome Nat :=
  if nonUniqueLen c flags + 1 ≤ c.cap then .ok (nonUniqueLen c flags) else .overflow c.cap

/-- longest possible result -/
def nonUniqueMax (c : NonUniqueCfg) : Nat :=
  c.openLen + max c.zeroLen (c.kinds.sum + c.sepLen * (c.kinds.length - 1)) + c.closeLen

/-! ## recursion over the supertype relation (`ENTITYcalculate_inheritance`, `ENTITYget_named_attribute`) -/

/-- `supers e` = the entities entity `e` names in SUBTYPE OF — any relation, cyclic ones included -/
abbrev Hier := Nat → List Nat

mutual
/-- one call for entity `e`; `marked` = entities that already carry the visited mark.
`markFirst` = the function marks `e` before it walks the supertypes (else after).  `none` = out of fuel
(the C recursion would not return). -/
def visit (markFirst : Bool) (h : Hier) : Nat → List Nat → Nat → Option (List Nat)
  | 0, _, _ => none
  | fuel + 1, marked, e =>
    match visitSupers markFirst h fuel (if markFirst then e :: marked else marked) (h e) with
    | none => none
    | some m => some (if markFirst then m else e :: m)
/-- the loop over the supertypes: recurse into those that are not marked yet -/
def visitSupers (markFirst : Bool) (h : Hier) : Nat → List Nat → List Nat → Option (List Nat)
  | _, marked, [] => some marked
  | fuel, marked, s :: rest =>
    if s ∈ marked then visitSupers markFirst h fuel marked rest
    else
      match visit markFirst h fuel marked s with
      | none => none
      | some m => visitSupers markFirst h fuel m rest
end

/-- entities of the universe `u` that are not marked -/
def notIn (marked : List Nat) (x : Nat) : Bool := !decide (x ∈ marked)

def unmarked (u marked : List Nat) : Nat := (u.filter (notIn marked)).length

/-! ## exppp print-to-string mode (`exp_output` into the `prep_string` buffer) -/

inductive FullPolicy where
  | drop        -- a chunk that does not fit is ignored
  | truncate    -- `len = exppp_buflen`: the part that fits is kept
  deriving Repr, DecidableEq

structure StrBufCfg where
  allocated : Nat     -- malloc'ed bytes
  room : Nat          -- initial `exppp_buflen`
  policy : FullPolicy
  copyExtra : Nat     -- `memcpy( exppp_bufp, buf, len + copyExtra )`
  deriving Repr

structure StrBufState where
  used : Nat          -- `exppp_bufp - exppp_buf`
  remaining : Nat     -- `exppp_buflen`
  terminated : Bool   -- the bytes stored so far end in a NUL inside the block
  deriving Repr, DecidableEq

/-- one `exp_output( buf, strlen( buf ) )` with a chunk of `l` characters (so `buf[l]` is the terminator and every byte
before it is not) -/
def strBufStep (c : StrBufCfg) (s : StrBufState) (l : Nat) : Outcome StrBufState :=
  if s.remaining < l then
    match c.policy with
    | .drop => .ok s
    | .truncate =>
      -- copies `remaining + copyExtra` bytes of the chunk, all of them before its terminator when copyExtra ≤ l - remaining
      if c.allocated < s.used + s.remaining + c.copyExtra then .overflow c.allocated
      else .ok ⟨s.used + s.remaining, 0, decide (l < s.remaining + c.copyExtra)⟩
  else
    if c.allocated < s.used + l + c.copyExtra then .overflow c.allocated
    else .ok ⟨s.used + l, s.remaining - l, decide (1 ≤ c.copyExtra)⟩

def strBufRun (c : StrBufCfg) (s : StrBufState) : List Nat → Outcome StrBufState
  | [] => .ok s
  | l :: rest =>
    match strBufStep c s l with
    | .ok s' => strBufRun c s' rest
    | .overflow i => .overflow i
    | .underflow => .underflow
    | .reject => .reject

def strBufInit (c : StrBufCfg) : StrBufState := ⟨0, c.room, true⟩

/-! ## INCLUDE: `SCAN_buffers[SCAN_NESTING_DEPTH]` (lexact.c `SCANinclude_file`, `SCANpush_buffer`) -/

structure ScanCfg where
  cap : Nat                -- SCAN_NESTING_DEPTH
  guard : Option Nat       -- `some k`: the directive is refused (diagnostic) when `SCAN_current_buffer + k >= cap`
  deriving Repr

inductive ScanEv where
  | includeFound      -- `INCLUDE 'file';` whose file can be opened
  | includeMissing    -- fopen fails: diagnostic, nothing pushed
  | newParse          -- `SCAN_lex_init`: another file is parsed from the start (schema found through EXPRESS_PATH)
  deriving Repr, DecidableEq

/-- `i` = SCAN_current_buffer; with the perplex scanner nothing ever pops a buffer -/
def scanStep (c : ScanCfg) (i : Nat) : ScanEv → Outcome Nat
  | .includeMissing => .ok i
  | .newParse => .ok 0
  | .includeFound =>
    let refused := match c.guard with | some k => decide (c.cap ≤ i + k) | none => false
    if refused then .ok i else if i + 1 < c.cap then .ok (i + 1) else .overflow (i + 1)

def scanRun (c : ScanCfg) (i : Nat) : List ScanEv → Outcome Nat
  | [] => .ok i
  | e :: rest =>
    match scanStep c i e with
    | .ok j => scanRun c j rest
    | .overflow k => .overflow k
    | .underflow => .underflow
    | .reject => .reject

/-! ## nested comments: `open_comment[MAX_NESTED_COMMENTS]` (expscan.l) -/

structure CommentCfg where
  cap : Nat
  guarded : Bool      -- `if (nesting_level < MAX_NESTED_COMMENTS)` around the stores
  deriving Repr

inductive CommentEv where
  | open_ | close
  deriving Repr, DecidableEq

/-- state = nesting_level; `(*` stores into `open_comment[nesting_level]` -/
def commentStep (c : CommentCfg) (lvl : Nat) : CommentEv → Outcome Nat
  | .open_ => if c.guarded && decide (c.cap ≤ lvl) then .ok (lvl + 1)
              else if lvl < c.cap then .ok (lvl + 1) else .overflow lvl
  | .close => .ok (lvl - 1)      -- only scanned inside a comment (lvl ≥ 1); `*)` outside is a diagnostic

def commentRun (c : CommentCfg) (lvl : Nat) : List CommentEv → Outcome Nat
  | [] => .ok lvl
  | e :: rest =>
    match commentStep c lvl e with
    | .ok j => commentRun c j rest
    | .overflow k => .overflow k
    | .underflow => .underflow
    | .reject => .reject

/-! ## schema files looked for on disk (express.c `EXPRESS_PATHinit`, `EXPRESSfind_schema`) -/

structure SchemaFileCfg where
  lowerCap : Nat           -- `char lower[MAX_SCHEMA_FILENAME_SIZE]`
  fullCap : Nat            -- `Dir.full[MAX_SCHEMA_FILENAME_SIZE]`
  nameGuard : Bool         -- `if( strlen( name ) >= sizeof( lower ) ) return 0;`
  boundedAppend : Bool     -- `snprintf( dir->leaf, sizeof( dir->full ) - ( dir->leaf - dir->full ), "%s.exp", lower )`
  ext : Nat                -- strlen( ".exp" )
  dirGuard : Option Nat    -- `some k`: an EXPRESS_PATH entry with `length + k > sizeof( dir->full )` is skipped
  deriving Repr

/-- one EXPRESS_PATH entry of `len` characters (not ending in '/'): `sprintf( dir->full, "%s/", start )`; `ok leaf` -/
def pathEntryOut (c : SchemaFileCfg) (len : Nat) : Outcome Nat :=
  let skipped := match c.dirGuard with | some k => decide (c.fullCap < len + k) | none => false
  if skipped then .reject else if len + 2 ≤ c.fullCap then .ok (len + 1) else .overflow c.fullCap

/-- `EXPRESSfind_schema( name )` with `dir->leaf = dir->full + leaf`: bytes stored into `lower` and `full` -/
def findSchemaOut (c : SchemaFileCfg) (leaf nameLen : Nat) : Outcome Nat :=
  if c.nameGuard && decide (c.lowerCap ≤ nameLen) then .reject
  else if c.lowerCap < nameLen + 1 then .overflow c.lowerCap
  else if c.boundedAppend then
    (if c.fullCap < leaf then .overflow c.fullCap      -- negative room
     else .ok (leaf + min (nameLen + c.ext + 1) (c.fullCap - leaf)))
  else if leaf + nameLen + c.ext + 1 ≤ c.fullCap then .ok (leaf + nameLen + c.ext + 1) else .overflow c.fullCap

/-! ## exp2cxx `format_for_stringout` into the buffer `ENTITYincode_print` allocates -/

structure EscapeCfg where
  mul : Nat        -- malloc( mul * strlen( tmp ) + add )
  add : Nat
  perChar : Nat    -- most bytes the loop stores for one input character
  deriving Repr

/-- a text of `len` characters, `specials` of them backslashes or newlines -/
def escapeOut (c : EscapeCfg) (len specials : Nat) : Outcome Nat :=
  let written := len + (c.perChar - 1) * specials + 1
  if written ≤ c.mul * len + c.add then .ok (written - 1) else .overflow (c.mul * len + c.add)

/-! ## exp2python `EXPRto_python`: function call translated into a malloc'ed buffer -/

structure PyCallCfg where
  initial : Nat            -- malloc( BIGBUFSIZ )
  ensure : Option Nat      -- `some e`: before an argument of t characters is appended the buffer is grown to hold used + t + e
  sep : Nat                -- strlen( ", " )
  close : Nat              -- strlen( ")" )
  deriving Repr

structure PyCallState where
  used : Nat
  cap : Nat
  first : Bool
  deriving Repr, DecidableEq

def pyCallStart (c : PyCallCfg) (nameLen : Nat) : PyCallState :=
  ⟨min (nameLen + 1) (c.initial - 1), c.initial, true⟩       -- snprintf( buf, bufsize, "%s(", name )

def pyCallArg (c : PyCallCfg) (s : PyCallState) (t : Nat) : Outcome PyCallState :=
  let cap := match c.ensure with
    | some e => if s.cap < s.used + t + e then s.used + t + e + c.initial else s.cap
    | none => s.cap
  let used := s.used + (if s.first then 0 else c.sep) + t
  if used + 1 ≤ cap then .ok ⟨used, cap, false⟩ else .overflow cap

def pyCallArgs (c : PyCallCfg) (s : PyCallState) : List Nat → Outcome PyCallState
  | [] => .ok s
  | t :: rest =>
    match pyCallArg c s t with
    | .ok s' => pyCallArgs c s' rest
    | .overflow k => .overflow k
    | .underflow => .underflow
    | .reject => .reject

/-- the whole call: name, arguments, closing parenthesis and terminator -/
def pyCallOut (c : PyCallCfg) (nameLen : Nat) (args : List Nat) : Outcome Nat :=
  match pyCallArgs c (pyCallStart c nameLen) args with
  | .ok s => if s.used + c.close + 1 ≤ s.cap then .ok (s.used + c.close) else .overflow s.cap
  | .overflow k => .overflow k
  | .underflow => .underflow
  | .reject => .reject

/-! ## interface resolution: `SCOPEfind_for_rename` over the USE graph -/

mutual
/-- look-up of a name that no schema on the way declares, starting in schema `s`; `h s` = the schemas `s` names in
whole-schema USE clauses (any graph); `path` = the schemas whose USE clauses are being followed (the C call chain).
`guard` = a schema that is already on the path is not searched again.  `none` = out of fuel (the C recursion does not
return); `some false` = "not found". -/
def renameSearch (guard : Bool) (h : Hier) : Nat → List Nat → Nat → Option Bool
  | 0, _, _ => none
  | fuel + 1, path, s =>
    if guard && decide (s ∈ path) then some false
    else renameSearchList guard h fuel (s :: path) (h s)
def renameSearchList (guard : Bool) (h : Hier) : Nat → List Nat → List Nat → Option Bool
  | _, _, [] => some false
  | fuel, path, c :: rest =>
    match renameSearch guard h fuel path c with
    | none => none
    | some _ => renameSearchList guard h fuel path rest
end

/-- what `SCOPE_find_for_rename` knows about the search it is part of -/
inductive RenameGuard where
  | none      -- nothing
  | origin    -- only the schema the search started in (seeded regression C06-e1)
  | path      -- every schema whose USE clauses are being followed (the chain of stack frames)
  deriving Repr, DecidableEq

mutual
/-- the same look-up as `renameSearch`, with the three kinds of guard side by side: `origin` = the schema of the first call,
`path` = the call chain -/
def renameSearchG (k : RenameGuard) (h : Hier) : Nat → Option Nat → List Nat → Nat → Option Bool
  | 0, _, _, _ => none
  | fuel + 1, origin, path, s =>
    let refused := match k with
      | .none => false
      | .origin => origin == some s
      | .path => decide (s ∈ path)
    if refused then some false
    else renameSearchGList k h fuel (some (origin.getD s)) (s :: path) (h s)
def renameSearchGList (k : RenameGuard) (h : Hier) : Nat → Option Nat → List Nat → List Nat → Option Bool
  | _, _, _, [] => some false
  | fuel, origin, path, c :: rest =>
    match renameSearchG k h fuel origin path c with
    | none => none
    | some _ => renameSearchGList k h fuel origin path rest
end

/-- a tail of `tail` schemas (0 … tail − 1, each USEs the next) that leads into a ring of `ring` schemas which does not
contain the start: `tailRing 1 2` is facade → geometry ⇄ topology -/
def tailRing (tail ring : Nat) : Hier := fun i =>
  if i + 1 < tail + ring then [i + 1] else [tail]

/-! ## item-wise interface resolution as a whole: `RENAMEresolve` and `SCOPE_find_for_rename` call each other -/

/-- what item-wise interface resolution sees of a set of schemas, for one name that is being looked up -/
structure ImportGraph where
  uses : Nat → List Nat       -- the schemas a schema names in whole-schema USE clauses
  renames : Nat → List Nat    -- the renames (usedict / uselist entries) for the name in a schema
  source : Nat → Nat          -- the schema a rename imports from (`r->schema`)

mutual
/-- `RENAMEresolve( r )`; `seen` = renames that have an object, have failed or are in progress.  `none` = out of fuel. -/
def renameResolve (markFirst pathGuard : Bool) (g : ImportGraph) : Nat → List Nat → Nat → Option (List Nat)
  | 0, _, _ => none
  | fuel + 1, seen, r =>
    if r ∈ seen then some seen
    else
      match renameFind markFirst pathGuard g fuel (if markFirst then r :: seen else seen) [] (g.source r) with
      | none => none
      | some m => some (if markFirst then m else r :: m)
/-- `SCOPE_find_for_rename( s, name, up )` for a name no schema declares (the longest walk): the USEd schemas first, then
the renames of `s`, each of which is resolved (the C code resolves at most one of them) -/
def renameFind (markFirst pathGuard : Bool) (g : ImportGraph) : Nat → List Nat → List Nat → Nat → Option (List Nat)
  | 0, _, _, _ => none
  | fuel + 1, seen, path, s =>
    if pathGuard && decide (s ∈ path) then some seen
    else
      match renameFindList markFirst pathGuard g fuel seen (s :: path) (g.uses s) with
      | none => none
      | some m => renameResolveList markFirst pathGuard g fuel m (g.renames s)
def renameFindList (markFirst pathGuard : Bool) (g : ImportGraph) : Nat → List Nat → List Nat → List Nat → Option (List Nat)
  | _, seen, _, [] => some seen
  | fuel, seen, path, c :: rest =>
    match renameFind markFirst pathGuard g fuel seen path c with
    | none => none
    | some m => renameFindList markFirst pathGuard g fuel m path rest
def renameResolveList (markFirst pathGuard : Bool) (g : ImportGraph) : Nat → List Nat → List Nat → Option (List Nat)
  | _, seen, [] => some seen
  | fuel, seen, r :: rest =>
    match renameResolve markFirst pathGuard g fuel seen r with
    | none => none
    | some m => renameResolveList markFirst pathGuard g fuel m rest
end

/-! ## walks over a graph with many paths through few nodes (supertype lattices, select graphs): how many calls -/

mutual
/-- a walk over the successor lists `h` that counts its calls.  `memo`: a node that has been expanded (is in `seen`) is not
expanded again.  Result: the nodes seen and the number of calls; `none` = out of fuel. -/
def walkSteps (memo : Bool) (h : Hier) : Nat → List Nat → Nat → Option (List Nat × Nat)
  | 0, _, _ => none
  | fuel + 1, seen, e =>
    if memo && decide (e ∈ seen) then some (seen, 1)
    else
      match walkStepsList memo h fuel (if memo then e :: seen else seen) (h e) with
      | none => none
      | some (s, k) => some (s, k + 1)
def walkStepsList (memo : Bool) (h : Hier) : Nat → List Nat → List Nat → Option (List Nat × Nat)
  | _, seen, [] => some (seen, 0)
  | fuel, seen, c :: rest =>
    match walkSteps memo h fuel seen c with
    | none => none
    | some (s1, k1) =>
      match walkStepsList memo h fuel s1 rest with
      | none => none
      | some (s2, k2) => some (s2, k1 + k2)
end

/-- n levels, every node names the node below twice (two supertypes that share their ancestors): 2n + 1 … paths double per level -/
def ladderH : Hier := fun i => if i = 0 then [] else [i - 1, i - 1]

/-- exp2cxx's complex entity support copies a subtype's list for every path that leads to it; the constructor of every list
node counts what has been built.  `budget = none`: no limit in the source.  `reject` = the diagnostic and the failure status. -/
def countNode (budget : Option Nat) (built : Nat) : Outcome Nat :=
  match budget with
  | some b => if b < built + 1 then .reject else .ok (built + 1)
  | none => .ok (built + 1)

/-! ## nesting depth of expressions, statements, types, supertype expressions -/

mutual
/-- shape of anything the resolver recurses over: a node and its children -/
inductive Tree where
  | node (kids : Forest)
inductive Forest where
  | nil
  | cons (t : Tree) (rest : Forest)
end

mutual
/-- recursion depth of every pass that walks the tree (resolver, pretty printer, generators) -/
def Tree.height : Tree → Nat
  | .node k => 1 + k.height
def Forest.height : Forest → Nat
  | .nil => 0
  | .cons t r => max t.height r.height
end

mutual
/-- the resolver with its depth counter `d` (`X_resolve_depth`): `false` = refused with the fatal diagnostic.
`limit = none`: no counter in the source. -/
def Tree.accepted (limit : Option Nat) (d : Nat) : Tree → Bool
  | .node k =>
    match limit with
    | some l => if l ≤ d then false else k.accepted limit (d + 1)
    | none => k.accepted limit (d + 1)
def Forest.accepted (limit : Option Nat) (d : Nat) : Forest → Bool
  | .nil => true
  | .cons t r => t.accepted limit d && r.accepted limit d
end

/-! ## exp2python `python_indent` -/

inductive IndentCfg where
  | loop                -- `for( i < indent_level ) fprintf( file, "\t" )`
  | array (tabs : Nat)  -- `fwrite( tabs, 1, indent_level, file )` from `static const char tabs[] = "\t…"` (tabs + 1 bytes)
  deriving Repr, DecidableEq

/-- bytes read from the indentation source for one line at `level`; `overflow` = read past the array -/
def indentOut (c : IndentCfg) (level : Nat) : Outcome Nat :=
  match c with
  | .loop => .ok level
  | .array tabs => if level ≤ tabs then .ok level else .overflow (tabs + 1)

/-! ## exit status -/

inductive Tool where
  | checkExpress | exppp | exp2cxx | exp2python
  deriving Repr, DecidableEq

inductive Verdict where
  | accepted | errors | usage (which : Nat)
  deriving Repr, DecidableEq

structure ExitCfg where
  fail : Nat
  succeed : Nat
  hooks : List Nat
  usage : List Nat
  deriving Repr

/-- `main` of fedex.c: EXPRESS_succeed (or the generator's `success` hook: `hooks = [exp2cxx, exp2python]`),
EXPRESS_fail, or the k-th usage function's `exit( n )`.  `none` = no such hook / usage function in the source. -/
def exitStatus (c : ExitCfg) : Tool → Verdict → Option Nat
  | .checkExpress, .accepted => some c.succeed
  | .exppp, .accepted => some c.succeed
  | .exp2cxx, .accepted => c.hooks[0]?
  | .exp2python, .accepted => c.hooks[1]?
  | _, .errors => some c.fail
  | _, .usage k => c.usage[k]?

/-! ## exit-status discipline: ERRORreport / ERRORreport_with_symbol / EXPRESS_fail / EXPRESS_succeed / main

The reporting functions are modelled as the *sequences of actions* found in their branches (regenerated), interpreted over
a state that says what has reached stderr, what waits in the message buffer (-B) and whether `ERRORoccurred` is set.
The interpreter is written once, over any state type with the operations `Ops`, so that the proofs can run it on a
finite abstraction of the state. -/

inductive RAct where
  | print          -- fprintf / vfprintf / fputc to error_file or stderr
  | buf            -- ERROR_printf / ERROR_vprintf: text into the message buffer
  | commit         -- ERROR_nexterror: the text becomes a stored message
  | setOccurred    -- ERRORoccurred = true
  | flush          -- ERROR_flush_message_buffer / ERRORflush_messages
  | restart        -- ERROR_start_message_buffer: the buffer is emptied without being printed
  deriving Repr, DecidableEq

structure RState where
  printed : Nat       -- pieces of diagnostics on stderr
  pending : Nat       -- messages stored in the buffer, not printed yet
  staged : Bool       -- text in the buffer that has not been committed
  occurred : Bool     -- ERRORoccurred
  errIssued : Bool    -- a diagnostic of severity ≥ ERROR was issued
  trailer : Nat       -- "Errors in input" / "No errors in input" lines
  lost : Nat          -- messages that were in the buffer when it was started again
  deriving Repr, DecidableEq

def RState.init : RState := ⟨0, 0, false, false, false, 0, 0⟩

def RAct.step : RAct → RState → RState
  | .print, s => { s with printed := s.printed + 1 }
  | .buf, s => { s with staged := true }
  | .commit, s => if s.staged then { s with pending := s.pending + 1, staged := false } else s
  | .setOccurred, s => { s with occurred := true }
  | .flush, s => { s with printed := s.printed + s.pending, pending := 0 }
  | .restart, s => { s with lost := s.lost + s.pending, pending := 0, staged := false }

/-- the operations the interpreter needs -/
structure Ops (σ : Type) where
  step : RAct → σ → σ
  occurred : σ → Bool
  markErr : σ → σ
  markTrailer : σ → σ

def RState.ops : Ops RState where
  step := RAct.step
  occurred := fun s => s.occurred
  markErr := fun s => { s with errIssued := true }
  markTrailer := fun s => { s with trailer := s.trailer + 1 }

inductive Stop where
  | exited (status : Nat)
  | aborted
  deriving Repr, DecidableEq

/-- one reporting function (or one of its two modes): the branch for severity ≥ ERROR, the other branch, what is done
before the abort()/exit( EXPRESS_fail ) decision, whether that decision is also taken when the buffer is full, and what is
done for a full buffer otherwise -/
structure ReportFn where
  errActs : List RAct
  warnActs : List RAct
  exitActs : List RAct
  alsoWhenFull : Bool
  fullActs : List RAct       -- what is done when the buffer is full and the run goes on
  deriving Repr

structure ExitDiscCfg where
  sevs : List Nat            -- severity of every entry of LibErrors, in the order of `enum ErrorCode`
  subordinate : Nat          -- SUBORDINATE_FAILED: never printed
  sevError : Nat
  sevExit : Nat
  sevDump : Nat
  plain : ReportFn           -- ERRORreport
  symBuffered : ReportFn     -- ERRORvreport_with_symbol with -B
  symPlain : ReportFn        -- ERRORvreport_with_symbol without
  failActs : List RAct       -- EXPRESS_fail before its hook/trailer
  failHooks : Nat            -- source files that install an EXPRESSfail hook
  strayWrites : Nat          -- assignments to ERRORoccurred other than the ones in the branches above
  failStatus : Nat
  succActs : List RAct       -- EXPRESS_succeed before its hook/trailer
  succStatus : Nat
  checks : List Bool         -- `if( ERRORoccurred )` after parse, resolve, back end
  deriving Repr

/-- one call of a reporting function -/
structure Ev where
  code : Nat
  sym : Bool       -- through ERRORreport_with_symbol / _with_line
  full : Bool      -- the message buffer is full after this message (count or space)
  deriving Repr

structure Lvl where
  err : Bool
  exit : Bool
  dump : Bool
  deriving Repr, DecidableEq

/-- `none`: nothing happens (SUBORDINATE_FAILED, or switched off by -w or -i) -/
def evLevel (c : ExitDiscCfg) (enabled : Nat → Bool) (e : Ev) : Option Lvl :=
  if e.code == c.subordinate || !enabled e.code then none
  else
    let sev := c.sevs.getD e.code 0
    some ⟨decide (c.sevError ≤ sev), decide (c.sevExit ≤ sev), decide (c.sevDump ≤ sev)⟩

section
variable {σ : Type} (o : Ops σ)

def runActs : List RAct → σ → σ
  | [], s => s
  | a :: l, s => runActs l (o.step a s)

/-- EXPRESS_fail( ): flush, trailer, status -/
def doFail (c : ExitDiscCfg) (s : σ) : σ × Option Stop :=
  (o.markTrailer (runActs o c.failActs s), some (.exited c.failStatus))

def doSucceed (c : ExitDiscCfg) (s : σ) : σ × Option Stop :=
  (o.markTrailer (runActs o c.succActs s), some (.exited c.succStatus))

def pickFn (c : ExitDiscCfg) (buffered sym : Bool) : ReportFn :=
  if sym then (if buffered then c.symBuffered else c.symPlain) else c.plain

def reportL (c : ExitDiscCfg) (buffered : Bool) (l : Lvl) (sym full : Bool) (s : σ) : σ × Option Stop :=
  let f := pickFn c buffered sym
  let s1 := if l.err then o.markErr (runActs o f.errActs s) else runActs o f.warnActs s
  if l.exit || (f.alsoWhenFull && full) then
    let s2 := runActs o f.exitActs s1
    if l.dump then (s2, some .aborted) else doFail o c s2
  else if full then (runActs o f.fullActs s1, none)
  else (s1, none)

def runLevels (c : ExitDiscCfg) (buffered : Bool) : List (Lvl × Bool × Bool) → σ → σ × Option Stop
  | [], s => (s, none)
  | (l, sym, full) :: rest, s =>
    match reportL o c buffered l sym full s with
    | (s1, some st) => (s1, some st)
    | (s1, none) => runLevels c buffered rest s1

/-- `main`: the phases (parse, resolve, back end) with their reports and whether `ERRORoccurred` is tested after them -/
def runPhases (c : ExitDiscCfg) (buffered : Bool) : List (List (Lvl × Bool × Bool) × Bool) → σ → σ × Option Stop
  | [], s => doSucceed o c s
  | (evs, chk) :: rest, s =>
    match runLevels o c buffered evs s with
    | (s1, some st) => (s1, some st)
    | (s1, none) => if chk && o.occurred s1 then doFail o c s1 else runPhases c buffered rest s1
end

def levelsOf (c : ExitDiscCfg) (enabled : Nat → Bool) (evs : List Ev) : List (Lvl × Bool × Bool) :=
  evs.filterMap (fun e => (evLevel c enabled e).map (fun l => (l, e.sym, e.full)))

/-- a whole run of one of the tools on an input file: the reports of the three phases under a set of enabled warnings -/
def runMain (c : ExitDiscCfg) (buffered : Bool) (enabled : Nat → Bool) (parse resolve backend : List Ev) : RState × Option Stop :=
  runPhases RState.ops c buffered
    [(levelsOf c enabled parse, c.checks.getD 0 false), (levelsOf c enabled resolve, c.checks.getD 1 false),
     (levelsOf c enabled backend, c.checks.getD 2 false)] RState.init

end StepModel.Buffers

import StepModel.ExpressHashComplete
/-!
# Completeness of the dictionary iteration, whatever expansions happened (lemmas; the model is `ExpressHash.lean`)

Linear hashing (`HASHexpand_table`): bucket `p` is split, the records whose address under the NEW `(p, maxp)` is `maxp + p`
move to the new bucket, `p` advances (and `maxp` doubles when `p` reaches it).  The invariant `GInv`: every bucket `i` holds, in
definition order, exactly the kept entries whose CURRENT address (`HASHhash` under the current `p`, `maxp`) is `i`; the bucket
array has `⌈(maxp + p) / SEGMENT_SIZE⌉` segments, all of them within the `SegmentCount` the iteration loop runs to.
It holds of `HASHcreate`, is kept by every `HASH_INSERT` with or without expansion (`addr_split`: a split changes the address
of the records of bucket `p` only, to `p` or `maxp + p`), and gives: `HASHlist`/`DICTdo` deliver a permutation of the entries
kept (`dictOrder_perm_firsts_all`), for any class filter.  No bound on the number of entries.
-/
namespace StepModel.ExpressHash

/-- `r = h % (2m)` is `h % m` or `h % m + m` -/
theorem mod_two_mul (h m : Nat) (hm : 0 < m) : h % (2 * m) = h % m ∨ h % (2 * m) = h % m + m := by
  have h1 : h % (2 * m) % m = h % m := by rw [Nat.mul_comm]; exact Nat.mod_mul_right_mod h m 2
  have h2 : h % (2 * m) < 2 * m := Nat.mod_lt _ (by omega)
  have h3 := Nat.div_add_mod (h % (2 * m)) m
  have h4 : h % (2 * m) / m < 2 := Nat.div_lt_of_lt_mul (by omega)
  rw [h1] at h3
  generalize h % (2 * m) / m = q at h3 h4
  have : q = 0 ∨ q = 1 := by omega
  rcases this with e | e
  · subst e; left; omega
  · subst e; right; omega

theorem addressOf_lt (p maxp : Nat) (hp : p < maxp) (key : String) : addressOf p maxp key < maxp + p := by
  unfold addressOf
  simp only
  have hm : 0 < maxp := by omega
  have hlt := Nat.mod_lt (rawHash key) hm
  split
  · rcases mod_two_mul (rawHash key) maxp hm with e | e <;> omega
  · omega

/-- the parameters after a split -/
def nextPM (p maxp : Nat) : Nat × Nat := if p + 1 == maxp then (0, maxp * 2) else (p + 1, maxp)

theorem addr_split (p maxp : Nat) (hp : p < maxp) (key : String) :
    (addressOf p maxp key ≠ p → addressOf (nextPM p maxp).1 (nextPM p maxp).2 key = addressOf p maxp key) ∧
    (addressOf p maxp key = p → addressOf (nextPM p maxp).1 (nextPM p maxp).2 key = p ∨
                                addressOf (nextPM p maxp).1 (nextPM p maxp).2 key = maxp + p) := by
  have hm : 0 < maxp := by omega
  have hlt := Nat.mod_lt (rawHash key) hm
  have h2 := mod_two_mul (rawHash key) maxp hm
  unfold nextPM addressOf
  by_cases hw : p + 1 = maxp
  · simp only [hw, beq_self_eq_true, if_true, Nat.not_lt_zero, if_false]
    have e2 : maxp * 2 = 2 * maxp := Nat.mul_comm _ _
    rw [e2]
    have hlt2 := Nat.mod_lt (rawHash key) (show 0 < 2 * maxp by omega)
    constructor
    · intro hne
      split at hne
      · split
        · omega
        · rfl
      · split <;> omega
    · intro he
      split at he
      · omega
      · omega
  · have hb : (p + 1 == maxp) = false := by simp [hw]
    simp only [hb, Bool.false_eq_true, if_false]
    constructor
    · intro hne
      split at hne
      · rename_i hlt'
        have : rawHash key % maxp < p + 1 := by omega
        simp only [this, hlt', if_true]
      · rename_i hlt'
        have : ¬ rawHash key % maxp < p + 1 := by omega
        simp only [this, hlt', if_false]
    · intro he
      split at he
      · omega
      · have : rawHash key % maxp < p + 1 := by omega
        simp only [this, if_true]
        omega

theorem nextPM_sum (p maxp : Nat) (_hp : p < maxp) : (nextPM p maxp).2 + (nextPM p maxp).1 = maxp + p + 1 := by
  unfold nextPM
  by_cases hw : p + 1 = maxp
  · simp only [hw, beq_self_eq_true, if_true]; omega
  · have hb : (p + 1 == maxp) = false := by simp [hw]
    simp only [hb, Bool.false_eq_true, if_false]; omega

theorem nextPM_lt (p maxp : Nat) (hp : p < maxp) : (nextPM p maxp).1 < (nextPM p maxp).2 := by
  unfold nextPM
  by_cases hw : p + 1 = maxp
  · simp only [hw, beq_self_eq_true, if_true]; omega
  · have hb : (p + 1 == maxp) = false := by simp [hw]
    simp only [hb, Bool.false_eq_true, if_false]; omega

/-- what holds of a table after any number of insertions and expansions; `F` = the entries kept so far -/
structure GInv {π : Type} (t : Table π) (F : List (String × π)) : Prop where
  ppos : t.p < t.maxp
  lo : t.maxp + t.p ≤ t.buckets.size
  hi : t.buckets.size < t.maxp + t.p + segmentSize
  dvd : t.buckets.size % segmentSize = 0
  segs : t.buckets.size ≤ t.segmentCount * segmentSize
  cap : t.buckets.size ≤ directorySize * segmentSize
  bucket : ∀ i, t.buckets.getD i [] = F.filter (fun e => addressOf t.p t.maxp e.1 == i)

theorem ginv_create {π : Type} : GInv (create : Table π) [] := by
  refine ⟨by simp [create, segmentSize_pos], by simp [create], by simp [create, segmentSize_pos], by simp [create], by simp [create], by simp [create]; decide, ?_⟩
  intro i
  simp only [create, Array.getD_eq_getD_getElem?, Array.getElem?_replicate, List.filter_nil]
  split <;> rfl

theorem getD_grow {π : Type} (bs : Array (List (String × π))) (a i : Nat) : (grow bs a).getD i [] = bs.getD i [] := by
  unfold grow
  split
  · simp only [Array.getD_eq_getD_getElem?, Array.getElem?_append]
    split
    · rfl
    · rename_i h
      have h1 : bs[i]? = none := by simp at h; simp [h]
      rw [h1]
      simp [Array.getElem?_replicate]
      split <;> rfl
  · rfl

theorem size_grow {π : Type} (bs : Array (List (String × π))) (a : Nat) :
    (grow bs a).size = if a % segmentSize = 0 then bs.size + segmentSize else bs.size := by
  unfold grow
  by_cases h : a % segmentSize = 0
  · simp [h]
  · simp [h]


theorem mult_between (S a n : Nat) (h1 : a % S = 0) (h2 : n % S = 0) (h3 : n ≤ a) (h4 : a < n + S) : a = n := by
  obtain ⟨x, rfl⟩ := Nat.dvd_of_mod_eq_zero h1
  obtain ⟨y, rfl⟩ := Nat.dvd_of_mod_eq_zero h2
  by_cases hS : S = 0
  · subst hS; simp
  · have hS' : 0 < S := Nat.pos_of_ne_zero hS
    have hyx : y ≤ x := Nat.le_of_mul_le_mul_left h3 hS'
    have : S * x < S * (y + 1) := by rw [Nat.mul_succ]; exact h4
    have hxy : x < y + 1 := Nat.lt_of_mul_lt_mul_left this
    have : x = y := by omega
    rw [this]

theorem getD_set2 {α : Type} (bs : Array (List α)) (a b i : Nat) (A B : List α) (ha : a < bs.size) (hb : b < bs.size) :
    ((bs.setIfInBounds a A).setIfInBounds b B).getD i [] = if i = b then B else if i = a then A else bs.getD i [] := by
  rw [getD_set _ _ _ _ (by simpa using hb), getD_set _ _ _ _ ha]

theorem ginv_expand {π : Type} (t : Table π) (F : List (String × π)) (h : GInv t F) : GInv (expand t) F := by
  unfold expand
  split
  · have hpm : (if t.p + 1 == t.maxp then (0, t.maxp * 2) else (t.p + 1, t.maxp)) = nextPM t.p t.maxp := rfl
    simp only [hpm]
    have hsum := nextPM_sum t.p t.maxp h.ppos
    have hsz := size_grow t.buckets (t.maxp + t.p)
    -- the size of the grown array against the new address
    have hnew : t.maxp + t.p < (grow t.buckets (t.maxp + t.p)).size := by
      rw [hsz]
      split
      · rename_i hz
        have := mult_between segmentSize t.buckets.size (t.maxp + t.p) h.dvd hz h.lo h.hi
        have := segmentSize_pos
        omega
      · rename_i hz
        have : t.buckets.size ≠ t.maxp + t.p := fun e => hz (e ▸ h.dvd)
        have := h.lo
        omega
    have hpl : t.p < (grow t.buckets (t.maxp + t.p)).size := by have := h.ppos; omega
    rename_i hguard
    refine ⟨nextPM_lt _ _ h.ppos, ?_, ?_, ?_, ?_, ?_, ?_⟩
    · simp only [Array.size_setIfInBounds]; omega
    · simp only [Array.size_setIfInBounds]
      rw [hsz, hsum]
      split
      · rename_i hz
        have := mult_between segmentSize t.buckets.size (t.maxp + t.p) h.dvd hz h.lo h.hi
        omega
      · have := h.hi; omega
    · simp only [Array.size_setIfInBounds]
      rw [hsz]
      split
      · rw [Nat.add_mod_right]; exact h.dvd
      · exact h.dvd
    · simp only [Array.size_setIfInBounds]
      rw [hsz, Nat.succ_mul]
      have := h.segs
      split <;> omega
    · simp only [Array.size_setIfInBounds]
      rw [hsz]
      split
      · rename_i hz
        have e := mult_between segmentSize t.buckets.size (t.maxp + t.p) h.dvd hz h.lo h.hi
        obtain ⟨y, hy⟩ := Nat.dvd_of_mod_eq_zero hz
        rw [e, hy]
        rw [hy, Nat.mul_comm directorySize segmentSize] at hguard
        have hyD : y < directorySize := Nat.lt_of_mul_lt_mul_left hguard
        rw [Nat.mul_comm directorySize segmentSize, ← Nat.mul_succ]
        exact Nat.mul_le_mul_left _ hyD
      · exact h.cap
    · intro i
      simp only
      rw [getD_set2 _ _ _ _ _ _ hpl hnew, getD_grow, getD_grow, h.bucket t.p, List.filter_filter, List.filter_filter]
      have hm : 0 < t.maxp := by have := h.ppos; omega
      have hm0 : ¬ t.maxp = 0 := by omega
      by_cases hi1 : i = t.maxp + t.p
      · simp only [hi1, if_true]
        apply List.filter_congr
        intro e _
        have sp := addr_split t.p t.maxp h.ppos e.1
        have hlt := addressOf_lt t.p t.maxp h.ppos e.1
        by_cases he : addressOf t.p t.maxp e.1 = t.p
        · simp [he]
        · have := sp.1 he
          have hne : ¬ addressOf (nextPM t.p t.maxp).1 (nextPM t.p t.maxp).2 e.1 = t.maxp + t.p := by omega
          simp [he, hne]
      · simp only [hi1, if_false]
        by_cases hi2 : i = t.p
        · simp only [hi2, if_true]
          apply List.filter_congr
          intro e _
          have sp := addr_split t.p t.maxp h.ppos e.1
          by_cases he : addressOf t.p t.maxp e.1 = t.p
          · rcases sp.2 he with e1 | e1
            · simp [he, e1, hm0]
            · simp [he, e1, hm0]
          · have := sp.1 he
            simp [he, this]
        · simp only [hi2, if_false]
          rw [h.bucket i]
          apply List.filter_congr
          intro e _
          have sp := addr_split t.p t.maxp h.ppos e.1
          by_cases he : addressOf t.p t.maxp e.1 = t.p
          · rcases sp.2 he with e1 | e1
            · simp [he, e1]
            · have b1 : (t.p == i) = false := by simp; exact fun x => hi2 x.symm
              have b2 : (t.maxp + t.p == i) = false := by simp; exact fun x => hi1 x.symm
              rw [he, e1, b1, b2]
          · rw [sp.1 he]
  · exact h


theorem ginv_insert {π : Type} (t : Table π) (F : List (String × π)) (k : String) (v : π) (h : GInv t F) :
    GInv (insert t k v) (if F.any (fun e => e.1 == k) then F else F ++ [(k, v)]) := by
  have hlt : address t k < t.buckets.size := by
    have := addressOf_lt t.p t.maxp h.ppos k
    have := h.lo
    unfold address; omega
  have hchain : t.buckets.getD (address t k) [] = F.filter (fun e => addressOf t.p t.maxp e.1 == address t k) := h.bucket _
  have hany : (t.buckets.getD (address t k) []).any (fun e => e.1 == k) = F.any (fun e => e.1 == k) := by
    rw [hchain, List.any_filter]
    congr 1
    funext e
    by_cases he : e.1 = k
    · simp [he, address]
    · simp [he]
  have h1 : GInv ({ segmentCount := t.segmentCount, p := t.p, maxp := t.maxp, keyCount := t.keyCount + 1,
                    buckets := t.buckets.setIfInBounds (address t k) (t.buckets.getD (address t k) [] ++ [(k, v)]) } : Table π)
                 (F ++ [(k, v)]) := by
    refine ⟨h.ppos, by simpa using h.lo, by simpa using h.hi, by simpa using h.dvd, by simpa using h.segs, by simpa using h.cap, ?_⟩
    intro i
    simp only
    rw [getD_set _ _ _ _ hlt, List.filter_append, hchain]
    by_cases hik : i = address t k
    · subst hik; simp [address]
    · have : ¬ addressOf t.p t.maxp k = i := fun e => hik (by unfold address; exact e.symm)
      simp [hik, this, h.bucket i]
  unfold insert
  rw [hany]
  by_cases hp : F.any (fun e => e.1 == k) = true
  · simp only [hp, if_true]; exact h
  · simp only [hp, Bool.false_eq_true, if_false]
    by_cases hload : (t.keyCount + 1) / (t.segmentCount * segmentSize) > maxLoadFactor
    · rw [if_pos hload]; exact ginv_expand _ _ h1
    · rw [if_neg hload]; exact h1

theorem ginv_insertAll {π : Type} (kvs : List (String × π)) (t : Table π) (F : List (String × π)) (h : GInv t F) :
    GInv (insertAll t kvs) (kvs.foldl (fun acc kv => if acc.any (fun e => e.1 == kv.1) then acc else acc ++ [kv]) F) := by
  induction kvs generalizing t F with
  | nil => exact h
  | cons kv r ih =>
    simp only [insertAll, List.foldl_cons]
    exact ih _ _ (ginv_insert t F kv.1 kv.2 h)


theorem gfilter_lt_succ {α : Type} (g : α → Nat) (F : List α) (n : Nat) :
    (F.filter (fun e => decide (g e < n + 1))).Perm
      (F.filter (fun e => decide (g e < n)) ++ F.filter (fun e => g e == n)) := by
  induction F with
  | nil => simp
  | cons a F ihF =>
    simp only [List.filter_cons]
    by_cases h1 : g a < n
    · have h2 : g a < n + 1 := by omega
      have h3 : ¬ g a = n := by omega
      simp only [h1, h2, h3, decide_true, if_true, beq_iff_eq, if_false, List.cons_append]
      exact List.Perm.cons a ihF
    · by_cases h2 : g a = n
      · have h4 : ¬ (n < n) := by omega
        have h5 : n < n + 1 := by omega
        simp only [h2, h4, h5, decide_true, decide_false, if_true, Bool.false_eq_true, if_false, beq_self_eq_true]
        exact (List.Perm.cons a ihF).trans List.perm_middle.symm
      · have h3 : ¬ g a < n + 1 := by omega
        simp only [h1, h2, h3, decide_false, Bool.false_eq_true, if_false, beq_iff_eq]
        exact ihF

theorem gbuckets_perm {α : Type} (g : α → Nat) (F : List α) (n : Nat) :
    ((List.range n).flatMap fun j => F.filter (fun e => g e == j)).Perm (F.filter (fun e => decide (g e < n))) := by
  induction n with
  | zero => simp
  | succ n ih =>
    rw [List.range_succ, List.flatMap_append]
    simp only [List.flatMap_cons, List.flatMap_nil, List.append_nil]
    exact (List.Perm.append_right _ ih).trans (gfilter_lt_succ g F n).symm

/-- segments × buckets = all bucket addresses in order -/
theorem flatMap_segments {β : Type} (G : Nat → List β) (S n : Nat) :
    ((List.range n).flatMap fun i => (List.range S).flatMap fun j => G (i * S + j)) = (List.range (n * S)).flatMap G := by
  induction n with
  | zero => simp
  | succ n ih =>
    rw [List.range_succ, List.flatMap_append, ih, Nat.succ_mul, List.range_add, List.flatMap_append]
    simp only [List.flatMap_cons, List.flatMap_nil, List.append_nil, List.flatMap_map]

theorem flatMap_nil_of {α β : Type} (l : List α) (f : α → List β) (h : ∀ x ∈ l, f x = []) : l.flatMap f = [] := by
  induction l with
  | nil => rfl
  | cons a r ih =>
    simp only [List.flatMap_cons]
    rw [h a List.mem_cons_self, ih (fun x hx => h x (List.mem_cons_of_mem _ hx))]
    rfl


/-- the iteration of a table that satisfies the invariant delivers exactly the kept entries the class filter accepts -/
theorem list_of_ginv {π : Type} (t : Table π) (F : List (String × π)) (sel : π → Bool) (h : GInv t F) :
    (list t sel).Perm (F.filter (fun e => sel e.2)) := by
  have hS := segmentSize_pos
  obtain ⟨n, hn⟩ := Nat.dvd_of_mod_eq_zero h.dvd
  have hn' : t.buckets.size = n * segmentSize := by rw [hn, Nat.mul_comm]
  have hnle : n ≤ t.segmentCount := by
    have := h.segs
    rw [hn'] at this
    exact Nat.le_of_mul_le_mul_right this hS
  unfold list
  -- the segments beyond the allocated ones are skipped
  have hsplit : t.segmentCount = n + (t.segmentCount - n) := by omega
  rw [hsplit, List.range_add, List.flatMap_append]
  have htail : ((List.range (t.segmentCount - n)).map (fun x => n + x)).flatMap (fun i =>
      if (i + 1) * segmentSize ≤ t.buckets.size then
        (List.range segmentSize).flatMap fun j => (t.buckets.getD (i * segmentSize + j) []).filter (fun e => sel e.2)
      else []) = [] := by
    apply flatMap_nil_of
    intro i hi
    obtain ⟨x, _, rfl⟩ := List.mem_map.mp hi
    have : ¬ (n + x + 1) * segmentSize ≤ t.buckets.size := by
      rw [hn']
      intro hle
      have := Nat.le_of_mul_le_mul_right hle hS
      omega
    rw [if_neg this]
  rw [htail, List.append_nil]
  have hhead : ((List.range n).flatMap fun i =>
      if (i + 1) * segmentSize ≤ t.buckets.size then
        (List.range segmentSize).flatMap fun j => (t.buckets.getD (i * segmentSize + j) []).filter (fun e => sel e.2)
      else []) = ((List.range n).flatMap fun i => (List.range segmentSize).flatMap fun j =>
        ((F.filter (fun e => sel e.2)).filter (fun e => addressOf t.p t.maxp e.1 == i * segmentSize + j))) := by
    apply flatMap_congr'
    intro i hi
    have hi' := List.mem_range.mp hi
    have : (i + 1) * segmentSize ≤ t.buckets.size := by
      rw [hn']; exact Nat.mul_le_mul_right _ (by omega)
    rw [if_pos this]
    apply flatMap_congr'
    intro j _
    rw [h.bucket, List.filter_filter, List.filter_filter]
    apply List.filter_congr
    intro e _
    exact Bool.and_comm _ _
  rw [hhead, flatMap_segments (fun a => (F.filter (fun e => sel e.2)).filter (fun e => addressOf t.p t.maxp e.1 == a))]
  refine (gbuckets_perm (fun e : String × π => addressOf t.p t.maxp e.1) (F.filter (fun e => sel e.2)) (n * segmentSize)).trans ?_
  rw [List.filter_eq_self.mpr]
  intro e _
  have := addressOf_lt t.p t.maxp h.ppos e.1
  have := h.lo
  simp only [decide_eq_true_eq]
  omega

/-- **DICTdo / HASHlist is complete and duplicate-free whatever expansions happened** -/
theorem dictOrder_perm_firsts_all {π : Type} (kvs : List (String × π)) (sel : π → Bool) :
    (dictOrder kvs sel).Perm ((firsts kvs).filter (fun e => sel e.2)) := by
  unfold dictOrder firsts
  exact list_of_ginv _ _ sel (ginv_insertAll kvs create [] ginv_create)


/-! ## how far `SegmentCount` (incremented by every split) can run: the walk over `Directory[]` -/

/-- the number of directory slots `HASHlist` looks at -/
def walkSlots {π : Type} (b : Generated.Hash.WalkBound) (t : Table π) : Nat :=
  match b with
  | .segmentCount => t.segmentCount
  | .clampedToDirectory => min t.segmentCount directorySize

/-- the k-th split happens only when `(MAX_LOAD_FACTOR + 1) * SEGMENT_SIZE * k` keys are in the table; `n` insertions so far -/
structure LInv {π : Type} (t : Table π) (n : Nat) : Prop where
  load : (maxLoadFactor + 1) * segmentSize * (t.segmentCount - 1) ≤ t.keyCount
  cnt : t.keyCount ≤ n
  pos : 1 ≤ t.segmentCount

theorem expand_counts {π : Type} (t : Table π) :
    (expand t).keyCount = t.keyCount ∧ ((expand t).segmentCount = t.segmentCount ∨ (expand t).segmentCount = t.segmentCount + 1) := by
  unfold expand
  split
  · exact ⟨rfl, Or.inr rfl⟩
  · exact ⟨rfl, Or.inl rfl⟩

theorem linv_expand {π : Type} (t : Table π) (n : Nat) (hpos : 1 ≤ t.segmentCount)
    (hge : (maxLoadFactor + 1) * segmentSize * t.segmentCount ≤ t.keyCount) (hc : t.keyCount ≤ n) : LInv (expand t) n := by
  have h := expand_counts t
  refine ⟨?_, by rw [h.1]; exact hc, ?_⟩
  · rw [h.1]
    rcases h.2 with e | e
    · rw [e]
      refine Nat.le_trans (Nat.mul_le_mul_left _ ?_) hge
      omega
    · rw [e]; simpa using hge
  · rcases h.2 with e | e <;> rw [e] <;> omega

theorem linv_insert {π : Type} (t : Table π) (n : Nat) (k : String) (v : π) (h : LInv t n) : LInv (insert t k v) (n + 1) := by
  unfold insert
  by_cases hp : (t.buckets.getD (address t k) []).any (fun e => e.1 == k) = true
  · rw [if_pos hp]; exact ⟨h.load, Nat.le_succ_of_le h.cnt, h.pos⟩
  · rw [if_neg hp]
    by_cases hload : (t.keyCount + 1) / (t.segmentCount * segmentSize) > maxLoadFactor
    · rw [if_pos hload]
      have hpos : 0 < t.segmentCount * segmentSize := Nat.mul_pos h.pos segmentSize_pos
      have hge : (maxLoadFactor + 1) * (t.segmentCount * segmentSize) ≤ t.keyCount + 1 :=
        (Nat.le_div_iff_mul_le hpos).mp hload
      have hge' : (maxLoadFactor + 1) * segmentSize * t.segmentCount ≤ t.keyCount + 1 := by
        rw [Nat.mul_assoc, Nat.mul_comm segmentSize t.segmentCount]; exact hge
      exact linv_expand _ _ h.pos hge' (Nat.succ_le_succ h.cnt)
    · rw [if_neg hload]
      exact ⟨Nat.le_succ_of_le h.load, Nat.succ_le_succ h.cnt, h.pos⟩

theorem linv_insertAll {π : Type} (kvs : List (String × π)) (t : Table π) (n : Nat) (h : LInv t n) :
    LInv (insertAll t kvs) (n + kvs.length) := by
  induction kvs generalizing t n with
  | nil => exact h
  | cons kv r ih =>
    simp only [insertAll, List.foldl_cons, List.length_cons]
    have := ih _ _ (linv_insert t n kv.1 kv.2 h)
    simp only [insertAll] at this
    rw [show n + (r.length + 1) = n + 1 + r.length by omega]
    exact this

/-- fewer than `(MAX_LOAD_FACTOR + 1) * SEGMENT_SIZE * DIRECTORY_SIZE` definitions: `SegmentCount` stays within the directory -/
theorem segmentCount_le_directory {π : Type} (kvs : List (String × π))
    (hn : kvs.length < (maxLoadFactor + 1) * segmentSize * directorySize) :
    (insertAll (create : Table π) kvs).segmentCount ≤ directorySize := by
  have h := linv_insertAll kvs (create : Table π) 0 ⟨by simp [create], by simp [create], by simp [create]⟩
  have h1 : (maxLoadFactor + 1) * segmentSize * ((insertAll (create : Table π) kvs).segmentCount - 1)
      < (maxLoadFactor + 1) * segmentSize * directorySize := by
    have := h.load; have := h.cnt; omega
  have := Nat.lt_of_mul_lt_mul_left h1
  omega

/-- the walk stays inside `Directory[]` and reaches every allocated segment -/
theorem walk_in_bounds {π : Type} (b : Generated.Hash.WalkBound) (kvs : List (String × π))
    (hb : b = .clampedToDirectory ∨ kvs.length < (maxLoadFactor + 1) * segmentSize * directorySize) :
    walkSlots b (insertAll (create : Table π) kvs) ≤ directorySize ∧
    (insertAll (create : Table π) kvs).buckets.size ≤ walkSlots b (insertAll (create : Table π) kvs) * segmentSize := by
  have g := ginv_insertAll kvs (create : Table π) [] ginv_create
  cases b with
  | segmentCount =>
    rcases hb with hb | hb
    · cases hb
    · exact ⟨segmentCount_le_directory kvs hb, g.segs⟩
  | clampedToDirectory =>
    refine ⟨Nat.min_le_right _ _, ?_⟩
    simp only [walkSlots]
    by_cases hle : (insertAll (create : Table π) kvs).segmentCount ≤ directorySize
    · rw [Nat.min_eq_left hle]; exact g.segs
    · rw [Nat.min_eq_right (by omega)]; exact g.cap

end StepModel.ExpressHash

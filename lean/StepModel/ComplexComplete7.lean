import StepModel.ComplexComplete6
/-! Completeness on distinct leaves, phase 2: `matchORs` on an alive waiting list finishes it — every member of the
request among its leaves is held, the list counts, MATCHALL sits where the last mark was placed, and what `matchORs`
returns is what it stored. -/
namespace StepModel.Complex.Match
open StepModel.Generated StepModel.Complex

structure P2 (N : List Name) (W : Prop) (t : ST) (r : ST × Ents × MT) : Prop where
  pa : PA N r.1
  cov : ∀ n ∈ N, n ∈ lvS t → n ∈ holds r.1
  has : allMarked r.2.1 = true → W ∨ HasAll r.1
  ret : r.2.2 = r.1.viable

structure H2 (N : List Name) (t : ST) (o : Name → Nat) (es : Ents) : Prop where
  pp : PP N t
  pend : Pend t
  sem : SemV N (skel t)
  nm : names es = N
  fr : Fr o t es
  tidy : Tidy t
  cov : Cov N t
  nd : (lvS t).Nodup
  out : ∀ n ∈ lvS t, o n = 0
  sm : smallOr (skel t)

structure H2L (N : List Name) (cs : List ST) (o : Name → Nat) (es : Ents) : Prop where
  pend : PendL cs
  sem : SemVL N (skelL cs)
  nm : names es = N
  fr : FrL o cs es
  tidy : TidyL cs
  cov : CovL N cs
  nd : (lvSL cs).Nodup
  out : ∀ n ∈ lvSL cs, o n = 0
  sm : smallOrL (skelL cs)

theorem PA_known {N : List Name} {t : ST} (h : PA N t) : t.viable ≠ .unknown := by
  have := PA_als h
  intro e
  simp [ST.atLeastSome, e, MT.rank] at this

theorem PP_unknown {N : List Name} {t : ST} (h : PP N t) : t.viable = .unknown := by
  cases t with
  | simple => simp [PP] at h
  | mult j v c c1 k cs =>
    cases j with
    | or =>
      simp only [PP] at h
      obtain ⟨ts, hts, _⟩ := h
      simp only [fresh] at hts
      injection hts with _ hv
    | and => simp only [PP] at h; exact h.1
    | andor => simp only [PP] at h; exact h.1

/-- a finished alive list covers all its leaves once its `dl` does (it is known) -/
theorem cov_full {N : List Name} {t : ST} (hc : Cov N t) (hk : t.viable ≠ .unknown) : ∀ n ∈ N, n ∈ lvS t → n ∈ holds t :=
  fun n hn hx => hc n hn (by rw [dl_known hk]; exact hx)

theorem lvS_of_skel {a b : ST} (h : skel a = skel b) : lvS a = lvS b := by rw [lvS_eq, lvS_eq, h]

theorem CovL_head {N : List Name} {c : ST} {cs : List ST} (h : CovL N (c :: cs)) (hnd : (lvSL (c :: cs)).Nodup) : Cov N c := by
  intro n hn hd
  have := h n hn (by simp [dlL, hd])
  simp only [holdsL, List.mem_append] at this
  rcases this with e | e
  · exact e
  · exfalso
    simp only [lvSL] at hnd
    exact (nodup_append_disj hnd).2.2 n (dl_sub c n hd) (holdsL_sub cs n e)

theorem CovL_tail {N : List Name} {c : ST} {cs : List ST} (h : CovL N (c :: cs)) (hnd : (lvSL (c :: cs)).Nodup) : CovL N cs := by
  intro n hn hd
  have := h n hn (by simp [dlL, hd])
  simp only [holdsL, List.mem_append] at this
  rcases this with e | e
  · exfalso
    simp only [lvSL] at hnd
    exact (nodup_append_disj hnd).2.2 n (holds_sub c n e) (dlL_sub cs n hd)
  · exact e


mutual
  theorem not_hasAll_fresh : ∀ (T : Tree), ¬ HasAll (fresh T)
    | .simple _, h => by simp [fresh, HasAll] at h
    | .and cs, h => by
      simp only [fresh, HasAll] at h
      rcases h with e | e
      · cases e
      · exact not_hasAllAny_fresh cs e.2
    | .or cs, h => by
      simp only [fresh, HasAll] at h
      rcases h with e | e
      · cases e
      · exact not_hasAllAny_fresh cs e.2
    | .andor cs, h => by
      simp only [fresh, HasAll] at h
      rcases h with e | e
      · cases e
      · exact not_hasAllAny_fresh cs e.2
  theorem not_hasAllAny_fresh : ∀ (cs : List Tree), ¬ HasAllAny (freshL cs)
    | [], h => by simp [freshL, HasAllAny] at h
    | c :: cs, h => by
      simp only [freshL, HasAllAny] at h
      rcases h with e | e
      · exact not_hasAll_fresh c e
      · exact not_hasAllAny_fresh cs e
end

mutual
  theorem smallOrT_of : ∀ (v : VT), smallOr v → smallOrT (trV v)
    | .simple _ _, _ => trivial
    | .mult .and _ cs, h => by
      simp only [smallOr] at h
      simp only [trV, smallOrT]
      exact smallOrTL_of cs h.2
    | .mult .or _ cs, h => by
      simp only [smallOr] at h
      simp only [trV, smallOrT, trVL_length]
      exact ⟨h.1 trivial, smallOrTL_of cs h.2⟩
    | .mult .andor _ cs, h => by
      simp only [smallOr] at h
      simp only [trV, smallOrT]
      exact smallOrTL_of cs h.2
  theorem smallOrTL_of : ∀ (cs : List VT), smallOrL cs → smallOrTL (trVL cs)
    | [], _ => trivial
    | c :: cs, h => by
      simp only [smallOrL] at h
      simp only [trVL, smallOrTL]
      exact ⟨smallOrT_of c h.1, smallOrTL_of cs h.2⟩
end

end StepModel.Complex.Match

import StepModel.ExpTypeDeclSyn
import StepModel.ExpStmtSynLemmas
/-! Lemmas for `StepModel/ExpTypeDeclSyn.lean`. -/
namespace StepModel.Express

def wfTypeDecl (d : TypeDeclS) : Prop :=
  match d.body with
  | .ty t => wfTy t
  | .enum is => is ≠ []
  | .select is => is ≠ []

theorem tyToks_not_enum (t : Ty) (hw : wfTy t) (r : List DTok) :
    (∀ r1, tyToks t ++ r ≠ .kw "ENUMERATION" :: .kw "OF" :: .sym "(" :: r1) ∧ (∀ r1, tyToks t ++ r ≠ .kw "SELECT" :: .sym "(" :: r1) := by
  cases t with
  | named s => simp [tyToks]
  | simple k p f =>
    obtain ⟨hk, _, _⟩ := hw
    simp only [simpleKinds, List.mem_cons, List.mem_nil_iff, or_false] at hk
    constructor <;> intro r1 h <;> simp [tyToks] at h <;> rcases hk with rfl | rfl | rfl | rfl | rfl | rfl | rfl <;> simp at h
  | aggr k b u o base =>
    obtain ⟨hk, _, _, _⟩ := hw
    simp only [aggrKinds, List.mem_cons, List.mem_nil_iff, or_false] at hk
    constructor <;> intro r1 h <;> simp [tyToks] at h <;> rcases hk with rfl | rfl | rfl | rfl <;> simp at h
  | generic l => cases l <;> simp [tyToks]
  | aggregate l base => cases l <;> simp [tyToks]

theorem typeDecl_rt (d : TypeDeclS) (hw : wfTypeDecl d) (r : List DTok) :
    Ev (fun n => parseTypeDecl n (typeDeclToks d ++ r)) (d, r) := by
  obtain ⟨name, body, dom⟩ := d
  have hdom : ∀ n, dom.length + 1 ≤ n →
      optClause "WHERE" (parseDom n) ((if dom = [] then [] else .kw "WHERE" :: dom.flatMap domToks) ++ (.kw "END_TYPE" :: .sym ";" :: r))
        = some (dom, .kw "END_TYPE" :: .sym ";" :: r) := by
    intro n hn
    exact clause_rt "WHERE" (parseDom n) domToks dom _ ⟨"END_TYPE", _, rfl, by decide⟩
      (fun _ => parseDom_rt dom n hn _ trivial)
  cases body with
  | ty t =>
    simp only [wfTypeDecl] at hw
    obtain ⟨h1, h2⟩ := tyToks_not_enum t hw
      (.sym ";" :: ((if dom = [] then [] else .kw "WHERE" :: dom.flatMap domToks) ++ (.kw "END_TYPE" :: .sym ";" :: r)))
    refine ⟨tyDepth t + dom.length + 1, fun n hn => ?_⟩
    have e1 := type_roundtrip t hw n (by omega)
      (.sym ";" :: ((if dom = [] then [] else .kw "WHERE" :: dom.flatMap domToks) ++ (.kw "END_TYPE" :: .sym ";" :: r))) (by simp [TyFol])
    have e2 := hdom n (by omega)
    dsimp only
    simp only [typeDeclToks, tyBodyToks, List.append_assoc, List.cons_append, List.nil_append, parseTypeDecl]
    simp [e1, e2]
  | enum is =>
    simp only [wfTypeDecl] at hw
    refine ⟨is.length + dom.length + 1, fun n hn => ?_⟩
    have e1 := parseIdList_rt is hw n (by omega)
      (.sym ";" :: ((if dom = [] then [] else .kw "WHERE" :: dom.flatMap domToks) ++ (.kw "END_TYPE" :: .sym ";" :: r)))
    have e2 := hdom n (by omega)
    simp [typeDeclToks, tyBodyToks, parseTypeDecl, e1, e2]
  | select is =>
    simp only [wfTypeDecl] at hw
    refine ⟨is.length + dom.length + 1, fun n hn => ?_⟩
    have e1 := parseIdList_rt is hw n (by omega)
      (.sym ";" :: ((if dom = [] then [] else .kw "WHERE" :: dom.flatMap domToks) ++ (.kw "END_TYPE" :: .sym ";" :: r)))
    have e2 := hdom n (by omega)
    simp [typeDeclToks, tyBodyToks, parseTypeDecl, e1, e2]

theorem parseConstList_rt : ∀ (cs : List ConstDeclS), (∀ c ∈ cs, wfTy c.ty) → ∀ D, (∀ c ∈ cs, tyDepth c.ty ≤ D) →
    ∀ n, cs.length + D + 1 ≤ n → ∀ r,
    parseConstList n (cs.flatMap constToks ++ .kw "END_CONSTANT" :: .sym ";" :: r) = some (cs, r) := by
  intro cs
  induction cs with
  | nil =>
    intro _ D _ n hn r
    obtain ⟨k, rfl⟩ : ∃ k, n = k + 1 := ⟨n - 1, by omega⟩
    simp [parseConstList]
  | cons c cs ih =>
    intro hwf D hD n hn r
    obtain ⟨k, rfl⟩ : ∃ k, n = k + 1 := ⟨n - 1, by simp at hn; omega⟩
    have hrec := ih (fun x hx => hwf x (List.mem_cons_of_mem _ hx)) D (fun x hx => hD x (List.mem_cons_of_mem _ hx)) k
      (by simp at hn; omega) r
    have hd : tyDepth c.ty ≤ k := by have := hD c (by simp); simp at hn; omega
    have hwc : wfTy c.ty := hwf c (by simp)
    obtain ⟨name, ty, init⟩ := c
    have hty := type_roundtrip ty hwc k hd
      (.sym ":=" :: .ex init :: .sym ";" :: (cs.flatMap constToks ++ .kw "END_CONSTANT" :: .sym ";" :: r)) (by simp [TyFol])
    simp only [List.flatMap_cons, constToks, List.append_assoc, List.cons_append, List.nil_append, parseConstList]
    rw [hty]; simp [hrec]

theorem consts_rt (cs : List ConstDeclS) (hwf : ∀ c ∈ cs, wfTy c.ty) (r : List DTok) (hr : ∀ r', r ≠ .kw "CONSTANT" :: r') :
    Ev (fun n => parseConsts n (constsToks cs ++ r)) (cs, r) := by
  obtain ⟨D, hD⟩ := exists_bound cs (fun c => tyDepth c.ty)
  refine ⟨cs.length + D + 1, fun n hn => ?_⟩
  dsimp only
  unfold constsToks
  by_cases h0 : cs = []
  · subst h0
    simp only [if_true, List.nil_append]
    unfold parseConsts
    split
    · exact absurd rfl (hr _)
    · rfl
  · simp only [h0, if_false, List.append_assoc, List.cons_append, List.nil_append, parseConsts]
    exact parseConstList_rt cs hwf D hD n hn r

theorem stmtsToks_head (b : Stmt) (r : List DTok) (hr : ∀ r', r ≠ .kw "LOCAL" :: r') (hw : wfStmts b) :
    ∀ r', stmtsToks b ++ r ≠ .kw "LOCAL" :: r' := by
  cases b with
  | cons s t =>
    intro r' h
    simp only [wfStmts] at hw
    have := stmt_starts s hw.1 (stmtsToks t ++ r)
    simp only [stmtsToks, List.append_assoc] at h
    rw [h] at this
    simp [startsStmt, stmtStarters] at this
  | _ => simpa [stmtsToks] using hr

theorem algBody_rt (ls : List Local) (b : Stmt) (hn : ∀ l ∈ ls, l.name.length ≠ 0) (hwf : ∀ l ∈ ls, wfTy l.ty) (hb : wfStmts b)
    (r : List DTok) (hr : startsStmt r = false) (hr2 : ∀ r', r ≠ .kw "LOCAL" :: r') :
    Ev (fun n => parseAlgBody n (algBodyToks ls b ++ r)) ((ls, b), r) := by
  obtain ⟨D, hD⟩ := exists_bound ls (fun l => tyDepth l.ty)
  obtain ⟨n2, h2⟩ := stmts_roundtrip b hb r hr
  refine ⟨ls.length + D + 1 + n2, fun n hn' => ?_⟩
  have e2 := h2 n (by omega)
  dsimp only at e2 ⊢
  -- `locals_roundtrip` is stated for its exact fuel; the reader is monotone in it only through the type depth bound, so use a
  -- bound that makes the fuel equal
  have hD' : ∀ l ∈ ls, tyDepth l.ty ≤ n - ls.length - 1 := fun l hl => by have := hD l hl; omega
  have e1 := locals_roundtrip ls hn hwf (n - ls.length - 1) hD' (stmtsToks b ++ r) (stmtsToks_head b r hr2 hb)
  have hfuel : ls.length + (n - ls.length - 1) + 1 = n := by omega
  rw [hfuel] at e1
  simp only [parseAlgBody, algBodyToks, List.append_assoc, e1, e2]

end StepModel.Express

import StepModel.LazyRefs
/-!
# The dictionary side of inverse-attribute resolution

Models, over a dictionary given as data (`Dict` = the entities with their declared supertypes in order, explicit
attributes and INVERSE declarations):

* `supWalk` — `supertypesIterator` (include/clstepcore/SubSuperIterators.h): breadth first over the supertype lists with a
  FIFO queue, **one visit per path** (a shared ancestor of a diamond is reached once per path);
* `slots` — `SDAI_Application_instance::InitIAttrs` through `superInvAttrIter` (src/clstepcore/superInvAttrIter.h): which
  inverse attributes get a slot in `iAMap`; the iterator's shape is regenerated (`Generated.superIterAdvances`): the repaired
  one scans every supertype of the walk, the old one scanned the supertype `supertypesIterator::next()` *leaves* and therefore
  never the last one;
* `iaList` — `lazyRefs::getInverseAttrs` (a `std::set`: supertypes of the walk, then the entity itself);
* `typesOf` — the entity a keyword names with all its supertypes (what `potentialReferentInsts` tests through the subtype lists);
* `attrOrder` / `instAttrs` — the order of an instance's `attributes` list (supertypes in declaration order, each once, then own);
* `attrOwner` — `EntityDescriptor::InitIAttrs` / `initIAttr`: the descriptor an `INVERSE … FOR a` over `E` is linked to
  (E's own explicit attributes first, then the supertypes in `supWalk` order);
* `mkInst`, `resolveD` — a loaded instance as `lazyRefs` sees it, and the resolver on dictionary + population.
-/
namespace StepModel.LazyRefs
open StepModel.Generated

structure InvDecl where
  key : Nat
  aggr : Bool
  over : Nat
  attrName : Nat
  deriving Repr, DecidableEq

structure EntityD where
  name : Nat
  sups : List Nat
  attrs : List (Nat × Bool)        -- (attribute name, aggregate-valued)
  redecl : List Nat := []          -- names of inherited attributes this entity redeclares (SELF\e.a : t)
  invs : List InvDecl := []
  deriving Repr, DecidableEq

abbrev Dict := List EntityD

def Dict.ent (d : Dict) (n : Nat) : Option EntityD := d.find? (fun e => e.name == n)
def supsOf (d : Dict) (n : Nat) : List Nat := match d.ent n with | some e => e.sups | none => []
def invsOf (d : Dict) (n : Nat) : List InvDecl := match d.ent n with | some e => e.invs | none => []
def attrsOf (d : Dict) (n : Nat) : List (Nat × Bool) := match d.ent n with | some e => e.attrs | none => []

/-- the queue discipline of `recursiveEntDescripIterator`: the whole current level, then the next one -/
def levels (d : Dict) : Nat → List Nat → List Nat
  | 0, _ => []
  | _ + 1, [] => []
  | f + 1, l => l ++ levels d f (l.flatMap (supsOf d))

/-- `supertypesIterator( ed )`: every supertype, breadth first, once per path -/
def supWalk (d : Dict) (n : Nat) : List Nat := levels d (d.length + 1) (supsOf d n)

/-- the subtype lists of the registry: the entities that name `n` among their supertypes, in declaration order -/
def subsOf (d : Dict) (n : Nat) : List Nat := (d.filter (fun e => e.sups.contains n)).map (·.name)

/-- the same FIFO walk over any successor function (`recursiveEntDescripIterator` is shared by both iterators) -/
def levelsG (next : Nat → List Nat) : Nat → List Nat → List Nat
  | 0, _ => []
  | _ + 1, [] => []
  | f + 1, l => l ++ levelsG next f (l.flatMap next)

/-- `subtypesIterator( ed )`: every subtype, breadth first, once per path -/
def subWalk (d : Dict) (n : Nat) : List Nat := levelsG (subsOf d) (d.length + 1) (subsOf d n)

/-- `edL` of `lazyRefs::checkAnInvAttr`: the inverted entity and everything `subtypesIterator` reaches from it -/
def candEntities (d : Dict) (over : Nat) : List Nat := over :: subWalk d over

/-- the same `edL` over subtype lists given as such — `subs n` is the registry's `_subtypes` list of `n` as the generated schema
    init code's `AddSubtype` calls built it (`candEntities d = candEntitiesBy (subsOf d) (d.length + 1)`) -/
def candEntitiesBy (subs : Nat → List Nat) (fuel : Nat) (over : Nat) : List Nat := over :: levelsG subs fuel (subs over)

def dedupBy {α} [DecidableEq α] : List α → List α
  | [] => []
  | a :: t => if a ∈ t then dedupBy t else a :: dedupBy t

/-- the supertypes `superInvAttrIter` scans; `adv = false` is the old shape: the supertype `supertypesIterator::next()`
    leaves is scanned again and the last one of the walk never -/
def scannedWith (adv : Bool) (d : Dict) (n : Nat) : List Nat :=
  let w := supWalk d n
  if adv then w else (if w.length ≤ 1 then w else w.dropLast)

def slotsWith (adv : Bool) (d : Dict) (n : Nat) : List InvDecl :=
  dedupBy ((n :: scannedWith adv d n).flatMap (invsOf d))

/-- `InitIAttrs()`: the inverse attributes that get a slot in `iAMap` (a `std::map`: each once) -/
def slots (d : Dict) (n : Nat) : List InvDecl := slotsWith superIterAdvances d n

/-- `lazyRefs::getInverseAttrs` (a `std::set`) -/
def iaList (d : Dict) (n : Nat) : List InvDecl := dedupBy ((supWalk d n ++ [n]).flatMap (invsOf d))

/-- `lazyRefs::invAttr` aborts when an inverse attribute of `iaList` has no slot -/
def slotsCover (d : Dict) (n : Nat) : Bool := (iaList d n).all (fun ia => (slots d n).contains ia)

/-- the entity and all its supertypes -/
def typesOf (d : Dict) (n : Nat) : List Nat := dedupBy (n :: supWalk d n)

/-- order of the entities whose attributes make up an instance's `attributes` list -/
def attrOrderAux (d : Dict) : Nat → List Nat → Nat → List Nat
  | 0, seen, _ => seen
  | f + 1, seen, n =>
    let seen' := (supsOf d n).foldl (fun s sp => attrOrderAux d f s sp) seen
    if seen'.contains n then seen' else seen' ++ [n]

def attrOrder (d : Dict) (n : Nat) : List Nat := attrOrderAux d (d.length + 1) [] n

/-- `INVERSE … FOR a` over `E`: the entity whose explicit attribute `a` the inverse is linked to -/
def attrOwner (d : Dict) (over a : Nat) : Option Nat :=
  (over :: supWalk d over).find? (fun e => (attrsOf d e).any (fun p => p.1 == a))

/-- `EntityDescriptor::InitIAttrs` on the inverse attributes of one entity, in declaration order: each is linked to the entity that
    declares the attribute it inverts (`attrOwner`).  `perInverse` (regenerated from the loop's shape): every inverse attribute is
    linked on its own; in the other shape the loop is left (`return`) after the first one whose inverted attribute was found in a
    SUPERTYPE of the inverted entity, and the siblings declared after it keep a null `_inverted_attr` -/
def initIAttrsWith (perInverse : Bool) (d : Dict) : List InvDecl → List (InvDecl × Option Nat)
  | [] => []
  | iv :: t =>
    let own := (attrsOf d iv.over).any (fun p => p.1 == iv.attrName)
    if own || perInverse then (iv, attrOwner d iv.over iv.attrName) :: initIAttrsWith perInverse d t
    else (iv, attrOwner d iv.over iv.attrName) :: t.map (fun j => (j, none))

def initIAttrs (d : Dict) (n : Nat) : List (InvDecl × Option Nat) := initIAttrsWith initIAttrsPerInverse d (invsOf d n)

/-- the entity (the instance's own or a supertype) that declares inverse attribute `iv` -/
def declarerOf (d : Dict) (k : Nat) (iv : InvDecl) : Option Nat := (k :: supWalk d k).find? (fun e => (invsOf d e).contains iv)

/-- `ia->inverted_attr_()` as `InitIAttrs` left it: the entity declaring the inverted attribute, `none` = null descriptor -/
def linkedOwner (d : Dict) (k : Nat) (iv : InvDecl) : Option Nat :=
  match declarerOf d k iv with
  | some e => ((initIAttrs d e).find? (fun p => p.1 == iv)).bind (·.2)
  | none => none

/-- an instance of the population as it is in the file: keyword (`none` for an external mapping, which the lazy index
    files under the empty keyword) and, per attribute of `instAttrs`, the ids mentioned -/
structure PInst where
  id : Nat
  kw : Option Nat
  vals : List (List Nat)
  deriving Repr, DecidableEq

/-- attributes redeclared by the entity or one of its supertypes: `STEPread` skips their value -/
def redeclOf (d : Dict) (n : Nat) : List Nat :=
  (n :: supWalk d n).flatMap (fun e => match d.ent e with | some x => x.redecl | none => [])

def zipAttrs (rd : List Nat) : List (Nat × Nat × Bool) → List (List Nat) → List Attr
  | [], _ => []
  | (o, a, g) :: t, [] => { owner := o, name := a, aggr := g, refs := [] } :: zipAttrs rd t []
  | (o, a, g) :: t, v :: vs =>
    { owner := o, name := a, aggr := g, refs := if rd.contains a then [] else v } :: zipAttrs rd t vs

/-- the loaded instance as `lazyRefs` sees it -/
def mkInst (d : Dict) (p : PInst) : Inst :=
  match p.kw with
  | none => { id := p.id, types := [], attrs := [] }
  | some k =>
    let layout := (attrOrder d k).flatMap (fun e => (attrsOf d e).map (fun q => (e, q.1, q.2)))
    { id := p.id, types := typesOf d k, attrs := zipAttrs (redeclOf d k) layout p.vals }

def mkIA (iv : InvDecl) (owner : Nat) : InvAttr :=
  { key := iv.key, aggr := iv.aggr, over := iv.over, attrName := iv.attrName, attrOwner := owner }

/-- inverse attribute `iv` of instance `x` (keyword `k`), on dictionary + population; `crash` when `iv` has no slot (`lazyRefs::invAttr`
    aborts).  An inverse attribute without its inverted attribute: in the source shape (`initIAttrsPerInverse`) `initIAttr` `abort()`s
    during schema initialisation when it finds the attribute neither in the inverted entity nor in a supertype — `crash`, unreachable
    for well-formed dictionaries (`C11_inverted_attr_resolved`); in the other shape (the loop left early: seed C11-d2) the siblings keep
    a null `_inverted_attr`, `attrIndex( referrer, 0 )` is -1 for every candidate and the inverse stays empty -/
def resolveD (d : Dict) (pop : List PInst) (x k : Nat) (iv : InvDecl) : Outcome (List Nat) :=
  if !(slots d k).contains iv then .crash
  else match linkedOwner d k iv with
    | some o => resolve fromSource (pop.map (mkInst d)) x (mkIA iv o)
    | none => if initIAttrsPerInverse then .crash else .ok []

end StepModel.LazyRefs

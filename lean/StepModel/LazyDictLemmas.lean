import StepModel.LazyDict
/-! Lemmas about the dictionary walk (core Lean only). -/
namespace StepModel.LazyRefs
open StepModel.Generated

/-- `x` is `n` or a (transitive) supertype of `n` -/
inductive SupStar (d : Dict) : Nat → Nat → Prop
  | refl {n} : SupStar d n n
  | head {n s x} : s ∈ supsOf d n → SupStar d s x → SupStar d n x

theorem mem_dedupBy {α} [DecidableEq α] (a : α) (l : List α) : a ∈ dedupBy l ↔ a ∈ l := by
  induction l with
  | nil => simp [dedupBy]
  | cons b t ih =>
    unfold dedupBy
    by_cases h : b ∈ t
    · simp only [h, ↓reduceIte, ih, List.mem_cons]
      constructor
      · intro h1; exact Or.inr h1
      · intro h1; rcases h1 with h1 | h1
        · rw [h1]; exact h
        · exact h1
    · simp [h, ih]

theorem nodup_dedupBy {α} [DecidableEq α] (l : List α) : (dedupBy l).Nodup := by
  induction l with
  | nil => simp [dedupBy]
  | cons b t ih =>
    unfold dedupBy
    by_cases h : b ∈ t
    · simp [h, ih]
    · simp only [h, ↓reduceIte, List.nodup_cons]
      exact ⟨fun hb => h ((mem_dedupBy b t).mp hb), ih⟩

/-- everything the walk visits is a supertype (sound for every fuel) -/
theorem levels_sound (d : Dict) : ∀ (f : Nat) (l : List Nat) (x : Nat), x ∈ levels d f l → ∃ y ∈ l, SupStar d y x := by
  intro f
  induction f with
  | zero => intro l x h; simp [levels] at h
  | succ f ih =>
    intro l x h
    cases l with
    | nil => simp [levels] at h
    | cons a t =>
      simp only [levels, List.mem_append] at h
      rcases h with h | h
      · exact ⟨x, h, SupStar.refl⟩
      · obtain ⟨y, hy, hs⟩ := ih _ x h
        rw [List.mem_flatMap] at hy
        obtain ⟨z, hz, hyz⟩ := hy
        exact ⟨z, hz, SupStar.head hyz hs⟩

/-- with a rank that decreases along supertype links the walk (with `f` rounds) visits every supertype of its start list -/
theorem levels_complete (d : Dict) (rank : Nat → Nat) (hr : ∀ n s, s ∈ supsOf d n → rank s < rank n) :
    ∀ (f : Nat) (l : List Nat), (∀ y ∈ l, rank y < f) → ∀ y ∈ l, ∀ x, SupStar d y x → x ∈ levels d f l := by
  intro f
  induction f with
  | zero => intro l hl y hy; exact absurd (hl y hy) (by omega)
  | succ f ih =>
    intro l hl y hy x hs
    cases l with
    | nil => cases hy
    | cons a t =>
      simp only [levels, List.mem_append]
      cases hs with
      | refl => exact Or.inl hy
      | head hsup hrest =>
        rename_i s
        right
        have hsl : s ∈ (a :: t).flatMap (supsOf d) := List.mem_flatMap.mpr ⟨y, hy, hsup⟩
        apply ih _ _ s hsl x hrest
        intro z hz
        rw [List.mem_flatMap] at hz
        obtain ⟨w, hw, hzw⟩ := hz
        have := hr w z hzw
        have := hl w hw
        omega

theorem mem_supWalk (d : Dict) (rank : Nat → Nat) (hr : ∀ n s, s ∈ supsOf d n → rank s < rank n)
    (hb : ∀ n, rank n ≤ d.length) (n x : Nat) :
    x ∈ supWalk d n ↔ ∃ s ∈ supsOf d n, SupStar d s x := by
  unfold supWalk
  constructor
  · exact levels_sound d _ _ x
  · rintro ⟨s, hs, hx⟩
    exact levels_complete d rank hr _ _ (fun y _ => by have := hb y; omega) s hs x hx

theorem supStar_iff (d : Dict) (rank : Nat → Nat) (hr : ∀ n s, s ∈ supsOf d n → rank s < rank n)
    (hb : ∀ n, rank n ≤ d.length) (n x : Nat) :
    SupStar d n x ↔ x = n ∨ x ∈ supWalk d n := by
  rw [mem_supWalk d rank hr hb]
  constructor
  · intro h
    cases h with
    | refl => exact Or.inl rfl
    | head h1 h2 => exact Or.inr ⟨_, h1, h2⟩
  · rintro (h | ⟨s, hs, hx⟩)
    · rw [h]; exact SupStar.refl
    · exact SupStar.head hs hx

/-- acyclicity, stated on the declarations: a rank that every declared supertype link decreases, bounded by the number of entities -/
def Ranked (d : Dict) (rank : Nat → Nat) : Prop :=
  (∀ e ∈ d, ∀ s ∈ e.sups, rank s < rank e.name) ∧ (∀ n, rank n ≤ d.length)

theorem Ranked.sups {d : Dict} {rank : Nat → Nat} (h : Ranked d rank) : ∀ n s, s ∈ supsOf d n → rank s < rank n := by
  intro n s hs
  unfold supsOf Dict.ent at hs
  cases hf : d.find? (fun e => e.name == n) with
  | none => simp [hf] at hs
  | some e =>
    simp only [hf] at hs
    have hn : e.name = n := by simpa using List.find?_some hf
    have := h.1 e (List.mem_of_find?_eq_some hf) s hs
    rw [hn] at this; exact this


/-! ### the attribute layout of a loaded instance has one attribute per descriptor -/

theorem foldl_nodup (d : Dict) (f : Nat) (ih : ∀ seen n, seen.Nodup → (attrOrderAux d f seen n).Nodup) :
    ∀ (l : List Nat) (seen : List Nat), seen.Nodup → (l.foldl (fun s sp => attrOrderAux d f s sp) seen).Nodup := by
  intro l
  induction l with
  | nil => intro seen h; exact h
  | cons a t iht => intro seen h; exact iht _ (ih seen a h)

theorem attrOrderAux_nodup (d : Dict) : ∀ (f : Nat) (seen : List Nat) (n : Nat), seen.Nodup → (attrOrderAux d f seen n).Nodup := by
  intro f
  induction f with
  | zero => intro seen n h; exact h
  | succ f ih =>
    intro seen n h
    simp only [attrOrderAux]
    have h' := foldl_nodup d f ih (supsOf d n) seen h
    split
    · exact h'
    · rename_i hc
      rw [List.nodup_append]
      refine ⟨h', by simp, ?_⟩
      intro a ha b hb
      have hb' : b = n := by simpa using hb
      intro e
      rw [hb'] at e
      rw [e] at ha
      exact hc (by simpa using ha)

theorem attrOrder_nodup (d : Dict) (n : Nat) : (attrOrder d n).Nodup :=
  attrOrderAux_nodup d _ [] n List.nodup_nil

theorem nodup_map_pair (e : Nat) : ∀ (l : List Nat), l.Nodup → (l.map (fun a => (e, a))).Nodup := by
  intro l
  induction l with
  | nil => intro _; simp
  | cons a t ih =>
    intro h
    rw [List.nodup_cons] at h
    simp only [List.map_cons, List.nodup_cons]
    refine ⟨?_, ih h.2⟩
    intro hm
    rw [List.mem_map] at hm
    obtain ⟨b, hb, hbe⟩ := hm
    injection hbe with _ h2
    rw [h2] at hb; exact h.1 hb

theorem nodup_flatMap_pairs (g : Nat → List Nat) (hg : ∀ e, (g e).Nodup) :
    ∀ (l : List Nat), l.Nodup → (l.flatMap (fun e => (g e).map (fun a => (e, a)))).Nodup := by
  intro l
  induction l with
  | nil => intro _; simp
  | cons e t ih =>
    intro hl
    rw [List.nodup_cons] at hl
    simp only [List.flatMap_cons]
    rw [List.nodup_append]
    refine ⟨?_, ih hl.2, ?_⟩
    · exact nodup_map_pair e (g e) (hg e)
    · intro x hx y hy hxy
      rw [List.mem_map] at hx
      obtain ⟨a, _, rfl⟩ := hx
      rw [List.mem_flatMap] at hy
      obtain ⟨e', he', hy'⟩ := hy
      rw [List.mem_map] at hy'
      obtain ⟨b, _, rfl⟩ := hy'
      injection hxy with h1 _
      rw [h1] at hl
      exact hl.1 he'

theorem zipAttrs_keys (rd : List Nat) : ∀ (l : List (Nat × Nat × Bool)) (v : List (List Nat)),
    (zipAttrs rd l v).map (fun a => (a.owner, a.name)) = l.map (fun t => (t.1, t.2.1)) := by
  intro l
  induction l with
  | nil => intro v; simp [zipAttrs]
  | cons t ts ih =>
    intro v
    obtain ⟨o, a, g⟩ := t
    cases v with
    | nil => simp [zipAttrs, ih]
    | cons x xs => simp [zipAttrs, ih]

theorem eq_of_nodup_keys {α β} (key : α → β) : ∀ (l : List α), (l.map key).Nodup → ∀ a ∈ l, ∀ b ∈ l, key a = key b → a = b := by
  intro l
  induction l with
  | nil => intro _ a ha; cases ha
  | cons h t ih =>
    intro hd a ha b hb hk
    simp only [List.map_cons, List.nodup_cons] at hd
    rcases List.mem_cons.mp ha with ha1 | ha1 <;> rcases List.mem_cons.mp hb with hb1 | hb1
    · rw [ha1, hb1]
    · rw [ha1] at hk
      exact absurd (List.mem_map.mpr ⟨b, hb1, hk.symm⟩ : key h ∈ t.map key) hd.1
    · rw [hb1] at hk
      exact absurd (List.mem_map.mpr ⟨a, ha1, hk⟩ : key h ∈ t.map key) hd.1
    · exact ih hd.2 a ha1 b hb1 hk

/-- attribute names are unique within each entity declaration -/
def AttrNamesUnique (d : Dict) : Prop := ∀ e ∈ d, (e.attrs.map (·.1)).Nodup

theorem attrsOf_nodup (d : Dict) (h : AttrNamesUnique d) (n : Nat) : ((attrsOf d n).map (·.1)).Nodup := by
  unfold attrsOf Dict.ent
  cases hf : d.find? (fun e => e.name == n) with
  | none => simp
  | some e => exact h e (List.mem_of_find?_eq_some hf)


/-! ### `subtypesIterator`: the candidate entities are exactly the entities below the inverted entity -/

inductive StarG (next : Nat → List Nat) : Nat → Nat → Prop
  | refl {n} : StarG next n n
  | head {n s x} : s ∈ next n → StarG next s x → StarG next n x

theorem StarG.tail {next : Nat → List Nat} {a b c : Nat} (h : StarG next a b) (hc : c ∈ next b) : StarG next a c := by
  induction h with
  | refl => exact StarG.head hc StarG.refl
  | head h1 _ ih => exact StarG.head h1 (ih hc)

theorem SupStar.tail {d : Dict} {a b c : Nat} (h : SupStar d a b) (hc : c ∈ supsOf d b) : SupStar d a c := by
  induction h with
  | refl => exact SupStar.head hc SupStar.refl
  | head h1 _ ih => exact SupStar.head h1 (ih hc)

theorem levelsG_sound (next : Nat → List Nat) : ∀ (f : Nat) (l : List Nat) (x : Nat), x ∈ levelsG next f l → ∃ y ∈ l, StarG next y x := by
  intro f
  induction f with
  | zero => intro l x h; simp [levelsG] at h
  | succ f ih =>
    intro l x h
    cases l with
    | nil => simp [levelsG] at h
    | cons a t =>
      simp only [levelsG, List.mem_append] at h
      rcases h with h | h
      · exact ⟨x, h, StarG.refl⟩
      · obtain ⟨y, hy, hs⟩ := ih _ x h
        rw [List.mem_flatMap] at hy
        obtain ⟨z, hz, hyz⟩ := hy
        exact ⟨z, hz, StarG.head hyz hs⟩

theorem levelsG_complete (next : Nat → List Nat) (rank : Nat → Nat) (hr : ∀ n s, s ∈ next n → rank s < rank n) :
    ∀ (f : Nat) (l : List Nat), (∀ y ∈ l, rank y < f) → ∀ y ∈ l, ∀ x, StarG next y x → x ∈ levelsG next f l := by
  intro f
  induction f with
  | zero => intro l hl y hy; exact absurd (hl y hy) (by omega)
  | succ f ih =>
    intro l hl y hy x hs
    cases l with
    | nil => cases hy
    | cons a t =>
      simp only [levelsG, List.mem_append]
      cases hs with
      | refl => exact Or.inl hy
      | head hsup hrest =>
        rename_i s
        right
        have hsl : s ∈ (a :: t).flatMap next := List.mem_flatMap.mpr ⟨y, hy, hsup⟩
        apply ih _ _ s hsl x hrest
        intro z hz
        rw [List.mem_flatMap] at hz
        obtain ⟨w, hw, hzw⟩ := hz
        have := hr w z hzw
        have := hl w hw
        omega

/-- entity names are declared once -/
def NamesUnique (d : Dict) : Prop := (d.map (·.name)).Nodup

/-- the subtype lists are the inverse of the supertype lists -/
theorem mem_subsOf (d : Dict) (hn : NamesUnique d) (n s : Nat) : s ∈ subsOf d n ↔ n ∈ supsOf d s := by
  unfold subsOf supsOf Dict.ent
  constructor
  · intro h
    rw [List.mem_map] at h
    obtain ⟨e, he, hes⟩ := h
    rw [List.mem_filter] at he
    have hfind : d.find? (fun x => x.name == s) = some e := by
      cases hf : d.find? (fun x => x.name == s) with
      | none =>
        rw [List.find?_eq_none] at hf
        exact absurd (by simpa using hes) (hf e he.1)
      | some e' =>
        have he' := List.mem_of_find?_eq_some hf
        have hn' : e'.name = s := by simpa using List.find?_some hf
        have : e' = e := eq_of_nodup_keys (fun x : EntityD => x.name) d hn e' he' e he.1 (by rw [hn', hes])
        rw [this]
    simp only [hfind]
    simpa using he.2
  · intro h
    cases hf : d.find? (fun x => x.name == s) with
    | none => simp [hf] at h
    | some e =>
      simp only [hf] at h
      rw [List.mem_map]
      refine ⟨e, ?_, by simpa using List.find?_some hf⟩
      rw [List.mem_filter]
      exact ⟨List.mem_of_find?_eq_some hf, by simpa using h⟩

theorem starSub_iff_supStar (d : Dict) (hn : NamesUnique d) (over k : Nat) : StarG (subsOf d) over k ↔ SupStar d k over := by
  constructor
  · intro h
    induction h with
    | refl => exact SupStar.refl
    | head h1 _ ih => exact SupStar.tail ih ((mem_subsOf d hn _ _).mp h1)
  · intro h
    induction h with
    | refl => exact StarG.refl
    | head h1 _ ih => exact StarG.tail ih ((mem_subsOf d hn _ _).mpr h1)

theorem starBy_iff_supStar (d : Dict) (subs : Nat → List Nat) (hs : ∀ n s, s ∈ subs n ↔ n ∈ supsOf d s) (over k : Nat) :
    StarG subs over k ↔ SupStar d k over := by
  constructor
  · intro h
    induction h with
    | refl => exact SupStar.refl
    | head h1 _ ih => exact SupStar.tail ih ((hs _ _).mp h1)
  · intro h
    induction h with
    | refl => exact StarG.refl
    | head h1 _ ih => exact StarG.tail ih ((hs _ _).mpr h1)

/-- `subtypesIterator` over any subtype lists that are the inverse of the supertype lists reaches exactly the entities below -/
theorem candBy_iff (d : Dict) (rank : Nat → Nat) (h : Ranked d rank) (subs : Nat → List Nat)
    (hs : ∀ n s, s ∈ subs n ↔ n ∈ supsOf d s) (over k : Nat) :
    k ∈ candEntitiesBy subs (d.length + 1) over ↔ SupStar d k over := by
  rw [← starBy_iff_supStar d subs hs]
  have hr' : ∀ n s, s ∈ subs n → (fun m => d.length - rank m) s < (fun m => d.length - rank m) n := by
    intro n s hs'
    have h1 := h.sups s n ((hs n s).mp hs')
    have h2 := h.2 s
    simp only; omega
  unfold candEntitiesBy
  constructor
  · intro hk
    rcases List.mem_cons.mp hk with h1 | h1
    · rw [h1]; exact StarG.refl
    · obtain ⟨y, hy, hs'⟩ := levelsG_sound subs _ _ k h1
      exact StarG.head hy hs'
  · intro hs'
    cases hs' with
    | refl => simp
    | head h1 h2 =>
      rename_i s
      refine List.mem_cons_of_mem _ ?_
      exact levelsG_complete subs (fun m => d.length - rank m) hr' _ _
        (fun y _ => by omega) s h1 k h2

/-! ### the attribute layout lists exactly the entity and its supertypes -/

theorem SupStar.trans {d : Dict} {a b c : Nat} (h1 : SupStar d a b) (h2 : SupStar d b c) : SupStar d a c := by
  induction h1 with
  | refl => exact h2
  | head hs _ ih => exact SupStar.head hs (ih h2)

theorem foldl_attr_mono (d : Dict) (f : Nat) (ih : ∀ seen n x, x ∈ seen → x ∈ attrOrderAux d f seen n) :
    ∀ (l : List Nat) (seen : List Nat) (x : Nat), x ∈ seen → x ∈ l.foldl (fun s sp => attrOrderAux d f s sp) seen := by
  intro l
  induction l with
  | nil => intro seen x h; exact h
  | cons a t iht => intro seen x h; exact iht _ x (ih seen a x h)

theorem attrOrderAux_mono (d : Dict) : ∀ (f : Nat) (seen : List Nat) (n x : Nat), x ∈ seen → x ∈ attrOrderAux d f seen n := by
  intro f
  induction f with
  | zero => intro seen n x h; exact h
  | succ f ih =>
    intro seen n x h
    simp only [attrOrderAux]
    have h' := foldl_attr_mono d f ih (supsOf d n) seen x h
    split
    · exact h'
    · exact List.mem_append_left _ h'

theorem attrOrderAux_sound (d : Dict) : ∀ (f : Nat) (seen : List Nat) (n x : Nat),
    x ∈ attrOrderAux d f seen n → x ∈ seen ∨ SupStar d n x := by
  intro f
  induction f with
  | zero => intro seen n x h; exact Or.inl h
  | succ f ih =>
    intro seen n x h
    simp only [attrOrderAux] at h
    have hfold : ∀ (l : List Nat) (sn : List Nat), (∀ s ∈ l, s ∈ supsOf d n) →
        x ∈ l.foldl (fun s sp => attrOrderAux d f s sp) sn → x ∈ sn ∨ SupStar d n x := by
      intro l
      induction l with
      | nil => intro sn _ hx; exact Or.inl hx
      | cons a t iht =>
        intro sn hl hx
        rcases iht _ (fun s hs => hl s (List.mem_cons_of_mem _ hs)) hx with h1 | h1
        · rcases ih sn a x h1 with h2 | h2
          · exact Or.inl h2
          · exact Or.inr (SupStar.head (hl a (by simp)) h2)
        · exact Or.inr h1
    split at h
    · exact hfold _ seen (fun _ hs => hs) h
    · rcases List.mem_append.mp h with h1 | h1
      · exact hfold _ seen (fun _ hs => hs) h1
      · have : x = n := by simpa using h1
        rw [this]; exact Or.inr SupStar.refl

theorem attrOrderAux_complete (d : Dict) (rank : Nat → Nat) (hr : ∀ n s, s ∈ supsOf d n → rank s < rank n) :
    ∀ (f : Nat) (seen : List Nat) (n x : Nat), rank n < f → SupStar d n x → x ∈ attrOrderAux d f seen n := by
  intro f
  induction f with
  | zero => intro seen n x h; exact absurd h (Nat.not_lt_zero _)
  | succ f ih =>
    intro seen n x hf hs
    simp only [attrOrderAux]
    have mono := attrOrderAux_mono d f
    cases hs with
    | refl =>
      split
      · rename_i hc; simpa using hc
      · simp
    | head h1 h2 =>
      rename_i s
      have hfold : ∀ (l : List Nat) (sn : List Nat), (s ∈ l ∨ x ∈ sn) → (∀ t ∈ l, t ∈ supsOf d n) →
          x ∈ l.foldl (fun s sp => attrOrderAux d f s sp) sn := by
        intro l
        induction l with
        | nil =>
          intro sn h _
          rcases h with h | h
          · cases h
          · exact h
        | cons a t iht =>
          intro sn h hl
          refine iht _ ?_ (fun u hu => hl u (List.mem_cons_of_mem _ hu))
          rcases h with h | h
          · rcases List.mem_cons.mp h with e | e
            · refine Or.inr ?_
              rw [← e]
              exact ih sn s x (by have := hr n s h1; omega) h2
            · exact Or.inl e
          · exact Or.inr (mono sn a x h)
      have := hfold (supsOf d n) seen (Or.inl h1) (fun _ h => h)
      split
      · exact this
      · exact List.mem_append_left _ this

/-- the entities whose attributes make up an instance's attribute list are exactly the entity and its supertypes (at any depth) -/
theorem mem_attrOrder (d : Dict) (rank : Nat → Nat) (h : Ranked d rank) (k o : Nat) : o ∈ attrOrder d k ↔ SupStar d k o := by
  unfold attrOrder
  constructor
  · intro hm
    rcases attrOrderAux_sound d _ [] k o hm with h1 | h1
    · cases h1
    · exact h1
  · intro hs
    exact attrOrderAux_complete d rank h.sups _ [] k o (Nat.lt_succ_of_le (h.2 k)) hs

/-- an attribute with the given descriptor that mentions `x`, in the decoded attribute list of a parameter list -/
theorem zipAttrs_any (rd : List Nat) (f : Nat × Nat × Bool → List Nat) (o a x : Nat) :
    ∀ (l : List (Nat × Nat × Bool)),
      (zipAttrs rd l (l.map f)).any (fun t => t.owner == o && t.name == a && t.refs.contains x) = true ↔
        ∃ q ∈ l, q.1 = o ∧ q.2.1 = a ∧ rd.contains a = false ∧ x ∈ f q := by
  intro l
  induction l with
  | nil => simp [zipAttrs]
  | cons t ts ih =>
    obtain ⟨o', a', g⟩ := t
    simp only [List.map_cons, zipAttrs, List.any_cons, Bool.or_eq_true, ih, List.mem_cons, exists_eq_or_imp]
    constructor
    · rintro (h | h)
      · left
        simp only [Bool.and_eq_true, beq_iff_eq] at h
        obtain ⟨⟨h1, h2⟩, h3⟩ := h
        subst h1; subst h2
        cases hc : rd.contains a' with
        | true => rw [hc] at h3; simp at h3
        | false => rw [hc] at h3; exact ⟨rfl, rfl, rfl, by simpa using h3⟩
      · exact Or.inr h
    · rintro (⟨h1, h2, h3, h4⟩ | h)
      · left
        have e1 : o' = o := h1
        have e2 : a' = a := h2
        subst e1; subst e2
        simp only [beq_self_eq_true, Bool.true_and, h3, Bool.false_eq_true, ↓reduceIte]
        simpa using h4
      · exact Or.inr h

end StepModel.LazyRefs

import StepModel.LazyDict
/-! Lemmas about the dictionary walk (core Lean only). -/
namespace StepModel.LazyRefs
open StepModel.Generated

/-- `x` is `n` or a (transitive) supertype of `n` -/
inductive SupStar (d : Dict) : Nat → Nat → Prop
  | refl {n} : SupStar d n n
  | head {n s x} : s ∈ supsOf d n → SupStar d s x → SupStar d n x

theorem mem_dedupBy {α} [DecidableEq α] (a : α) (l : List α) : a ∈ dedupBy l ↔ a ∈ l := by
  induction l with
  | nil => simp [dedupBy]
  | cons b t ih =>
    unfold dedupBy
    by_cases h : b ∈ t
    · simp only [h, ↓reduceIte, ih, List.mem_cons]
      constructor
      · intro h1; exact Or.inr h1
      · intro h1; rcases h1 with h1 | h1
        · rw [h1]; exact h
        · exact h1
    · simp [h, ih]

theorem nodup_dedupBy {α} [DecidableEq α] (l : List α) : (dedupBy l).Nodup := by
  induction l with
  | nil => simp [dedupBy]
  | cons b t ih =>
    unfold dedupBy
    by_cases h : b ∈ t
    · simp [h, ih]
    · simp only [h, ↓reduceIte, List.nodup_cons]
      exact ⟨fun hb => h ((mem_dedupBy b t).mp hb), ih⟩

/-- everything the walk visits is a supertype (sound for every fuel) -/
theorem levels_sound (d : Dict) : ∀ (f : Nat) (l : List Nat) (x : Nat), x ∈ levels d f l → ∃ y ∈ l, SupStar d y x := by
  intro f
  induction f with
  | zero => intro l x h; simp [levels] at h
  | succ f ih =>
    intro l x h
    cases l with
    | nil => simp [levels] at h
    | cons a t =>
      simp only [levels, List.mem_append] at h
      rcases h with h | h
      · exact ⟨x, h, SupStar.refl⟩
      · obtain ⟨y, hy, hs⟩ := ih _ x h
        rw [List.mem_flatMap] at hy
        obtain ⟨z, hz, hyz⟩ := hy
        exact ⟨z, hz, SupStar.head hyz hs⟩

/-- with a rank that decreases along supertype links the walk (with `f` rounds) visits every supertype of its start list -/
theorem levels_complete (d : Dict) (rank : Nat → Nat) (hr : ∀ n s, s ∈ supsOf d n → rank s < rank n) :
    ∀ (f : Nat) (l : List Nat), (∀ y ∈ l, rank y < f) → ∀ y ∈ l, ∀ x, SupStar d y x → x ∈ levels d f l := by
  intro f
  induction f with
  | zero => intro l hl y hy; exact absurd (hl y hy) (by omega)
  | succ f ih =>
    intro l hl y hy x hs
    cases l with
    | nil => cases hy
    | cons a t =>
      simp only [levels, List.mem_append]
      cases hs with
      | refl => exact Or.inl hy
      | head hsup hrest =>
        rename_i s
        right
        have hsl : s ∈ (a :: t).flatMap (supsOf d) := List.mem_flatMap.mpr ⟨y, hy, hsup⟩
        apply ih _ _ s hsl x hrest
        intro z hz
        rw [List.mem_flatMap] at hz
        obtain ⟨w, hw, hzw⟩ := hz
        have := hr w z hzw
        have := hl w hw
        omega

theorem mem_supWalk (d : Dict) (rank : Nat → Nat) (hr : ∀ n s, s ∈ supsOf d n → rank s < rank n)
    (hb : ∀ n, rank n ≤ d.length) (n x : Nat) :
    x ∈ supWalk d n ↔ ∃ s ∈ supsOf d n, SupStar d s x := by
  unfold supWalk
  constructor
  · exact levels_sound d _ _ x
  · rintro ⟨s, hs, hx⟩
    exact levels_complete d rank hr _ _ (fun y _ => by have := hb y; omega) s hs x hx

theorem supStar_iff (d : Dict) (rank : Nat → Nat) (hr : ∀ n s, s ∈ supsOf d n → rank s < rank n)
    (hb : ∀ n, rank n ≤ d.length) (n x : Nat) :
    SupStar d n x ↔ x = n ∨ x ∈ supWalk d n := by
  rw [mem_supWalk d rank hr hb]
  constructor
  · intro h
    cases h with
    | refl => exact Or.inl rfl
    | head h1 h2 => exact Or.inr ⟨_, h1, h2⟩
  · rintro (h | ⟨s, hs, hx⟩)
    · rw [h]; exact SupStar.refl
    · exact SupStar.head hs hx

/-- acyclicity, stated on the declarations: a rank that every declared supertype link decreases, bounded by the number of entities -/
def Ranked (d : Dict) (rank : Nat → Nat) : Prop :=
  (∀ e ∈ d, ∀ s ∈ e.sups, rank s < rank e.name) ∧ (∀ n, rank n ≤ d.length)

theorem Ranked.sups {d : Dict} {rank : Nat → Nat} (h : Ranked d rank) : ∀ n s, s ∈ supsOf d n → rank s < rank n := by
  intro n s hs
  unfold supsOf Dict.ent at hs
  cases hf : d.find? (fun e => e.name == n) with
  | none => simp [hf] at hs
  | some e =>
    simp only [hf] at hs
    have hn : e.name = n := by simpa using List.find?_some hf
    have := h.1 e (List.mem_of_find?_eq_some hf) s hs
    rw [hn] at this; exact this

end StepModel.LazyRefs

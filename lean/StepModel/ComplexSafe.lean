import StepModel.ComplexMatch
/-!
# The matcher model never reaches a crash site (on well-formed trees, with the regenerated null guard)

Hoare-style: `Good o P` = outcome `o` is not a crash and, when it is a value, satisfies `P` (`outOfFuel` is treated
separately, see `ComplexFuel`).  Every member function gets a specification `pre → Good (f …) post`; the specifications
are proved by induction on the fuel, one mutual block of the model at a time.

Invariants (all of them are about state the C++ keeps in the objects):

* `WFv N (skel t)` — every list has a child; a `SimpleList` whose `viable ≥ MATCHSOME` names a member of the request
  (`N` = names of the request; marks change, names do not)  — keeps `SimpleList::unmarkAll` on the list;
* `Ch t` — for every `OrList`: `viable = UNKNOWN → choice = -1` (never matched since `reset()`), and
  `viable ≥ MATCHSOME → choice = LISTEND ∨ choice selects a child whose viable ≥ MATCHSOME`
  — keeps `getChild( choice )` non-null where `OrList::tryNext` dereferences it;
* `ReadyV (skel t)` — an AND/ANDOR list whose viable is UNKNOWN has been through `matchNonORs`: its `SimpleList`
  children are no longer UNKNOWN — keeps `dynamic_cast< MultList * >( child )` off `SimpleList`s in `matchORs`.
-/
namespace StepModel.Complex.Match
open StepModel.Generated StepModel.Complex

def Good {α : Type} (o : Outcome α) (P : α → Prop) : Prop :=
  match o with
  | .ok a => P a
  | .crash _ => False
  | .outOfFuel => True

theorem Good.bind {α β : Type} {x : Outcome α} {f : α → Outcome β} {P : α → Prop} {Q : β → Prop}
    (hx : Good x P) (hf : ∀ a, P a → Good (f a) Q) : Good (x >>= f) Q := by
  cases x with
  | ok a => exact hf a hx
  | crash c => exact hx.elim
  | outOfFuel => trivial

theorem Good.ite_bind {α β : Type} {c : Prop} [Decidable c] {a b : Outcome α} {k : α → Outcome β}
    {P : α → Prop} {Q : β → Prop} (h : Good (if c then a else b) P) (hk : ∀ x, P x → Good (k x) Q) :
    Good (if c then a >>= k else b >>= k) Q := by
  split
  · rename_i hc; simp only [hc, if_true] at h; exact Good.bind h hk
  · rename_i hc; simp only [hc, if_false] at h; exact Good.bind h hk

theorem Good.ok {α : Type} {a : α} {P : α → Prop} (h : P a) : Good (Outcome.ok a) P := h
theorem Good.pure' {α : Type} {a : α} {P : α → Prop} (h : P a) : Good (pure a : Outcome α) P := h
theorem Good.fuel {α : Type} {P : α → Prop} : Good (Outcome.outOfFuel : Outcome α) P := trivial

theorem Good.mono {α : Type} {x : Outcome α} {P Q : α → Prop} (hx : Good x P) (h : ∀ a, P a → Q a) : Good x Q := by
  cases x with
  | ok a => exact h a hx
  | crash c => exact hx.elim
  | outOfFuel => trivial

theorem Good.not_crash {α : Type} {x : Outcome α} {P : α → Prop} (hx : Good x P) (c : Crash) : x ≠ .crash c := by
  intro h; rw [h] at hx; exact hx

-- ------------------------------------------------------------------ request names
def names (es : Ents) : List Name := es.map (·.name)

theorem names_setMark (es : Ents) (i : Nat) (m : Mark) : names (setMark es i m) = names es := by
  unfold setMark
  cases h : es[i]? with
  | none => rfl
  | some e =>
    simp only [names, List.map_set]
    apply List.ext_getElem?
    intro j
    rw [List.getElem?_set]
    split
    · rename_i hij; subst hij
      have hl : i < es.length := (List.getElem?_eq_some_iff.mp h).1
      have he : es[i] = e := (List.getElem?_eq_some_iff.mp h).2
      simp [hl, he]
    · rfl


theorem findGe_bound (n : Name) : ∀ (es : Ents) (k i : Nat), findGe n es k = some i → k ≤ i ∧ i - k < es.length := by
  intro es
  induction es with
  | nil => intro k i h; simp [findGe] at h
  | cons e es ih =>
    intro k i h
    unfold findGe at h
    split at h
    · have := ih (k + 1) i h
      simp only [List.length_cons]; omega
    · simp at h; subst h; simp

theorem findGe_some_of_mem (n : Name) : ∀ (es : Ents) (k : Nat), n ∈ names es → ∃ i, findGe n es k = some i := by
  intro es
  induction es with
  | nil => intro k h; simp [names] at h
  | cons e es ih =>
    intro k h
    unfold findGe
    split
    · rename_i hlt
      have : n ∈ names es := by
        simp only [names, List.map_cons, List.mem_cons] at h
        rcases h with h | h
        · rw [h] at hlt; exact absurd hlt (Nat.lt_irrefl _)
        · exact h
      exact ih (k + 1) this
    · exact ⟨k, rfl⟩

theorem findEq_bound (n : Name) : ∀ (es : Ents) (k i : Nat), findEq n es k = some i →
    k ≤ i ∧ ∃ e, es[i - k]? = some e ∧ e.name = n := by
  intro es
  induction es with
  | nil => intro k i h; simp [findEq] at h
  | cons e es ih =>
    intro k i h
    unfold findEq at h
    split at h
    · simp at h; subst h; rename_i he; exact ⟨Nat.le_refl _, e, by simp, he⟩
    · split at h
      · simp at h
      · obtain ⟨h1, e', h2, h3⟩ := ih (k + 1) i h
        refine ⟨by omega, e', ?_, h3⟩
        have : i - k = (i - (k + 1)) + 1 := by omega
        rw [this]; simpa using h2

-- ------------------------------------------------------------------ the viable skeleton of an EntList hierarchy
inductive VT where
  | simple (n : Name) (v : MT)
  | mult (j : Join) (v : MT) (cs : List VT)

mutual
  def skel : ST → VT
    | .simple n v _ => .simple n v
    | .mult j v _ _ _ cs => .mult j v (skelL cs)
  def skelL : List ST → List VT
    | [] => []
    | c :: cs => skel c :: skelL cs
end

theorem skelL_eq_map (cs : List ST) : skelL cs = cs.map skel := by
  induction cs with
  | nil => rfl
  | cons c cs ih => simp [skelL, ih]

def VT.viable : VT → MT
  | .simple _ v => v
  | .mult _ v _ => v
def VT.isSimple : VT → Bool
  | .simple .. => true
  | _ => false
def VT.isOr : VT → Bool
  | .mult .or .. => true
  | _ => false

theorem viable_skel (t : ST) : (skel t).viable = t.viable := by cases t <;> rfl
theorem isSimple_skel (t : ST) : (skel t).isSimple = t.isSimple := by cases t <;> rfl
theorem isOr_skel (t : ST) : (skel t).isOr = t.isOr := by
  cases t with
  | simple => rfl
  | mult j => cases j <;> rfl

theorem viable_of_skel {t t' : ST} (h : skel t' = skel t) : t'.viable = t.viable := by
  rw [← viable_skel, h, viable_skel]
theorem isSimple_of_skel {t t' : ST} (h : skel t' = skel t) : t'.isSimple = t.isSimple := by
  rw [← isSimple_skel, h, isSimple_skel]
theorem isOr_of_skel {t t' : ST} (h : skel t' = skel t) : t'.isOr = t.isOr := by
  rw [← isOr_skel, h, isOr_skel]
theorem atLeastSome_of_skel {t t' : ST} (h : skel t' = skel t) : t'.atLeastSome = t.atLeastSome := by
  unfold ST.atLeastSome; rw [viable_of_skel h]

mutual
  /-- lists have children; a SimpleList with viable ≥ MATCHSOME names a member of the request -/
  def WFv (N : List Name) : VT → Prop
    | .simple n v => MT.rank .some_ ≤ v.rank → n ∈ N
    | .mult _ _ cs => cs ≠ [] ∧ WFvL N cs
  def WFvL (N : List Name) : List VT → Prop
    | [] => True
    | c :: cs => WFv N c ∧ WFvL N cs
end

mutual
  /-- AND/ANDOR whose viable is UNKNOWN: SimpleList children are known, AND/ANDOR children are ready in turn -/
  def ReadyV : VT → Prop
    | .simple _ v => v ≠ .unknown
    | .mult .or _ _ => True
    | .mult _ v cs => v = .unknown → ReadyVL cs
  def ReadyVL : List VT → Prop
    | [] => True
    | c :: cs => ReadyV c ∧ ReadyVL cs
end

theorem WFvL_iff (N : List Name) (cs : List VT) : WFvL N cs ↔ ∀ c ∈ cs, WFv N c := by
  induction cs with
  | nil => simp [WFvL]
  | cons c cs ih => simp [WFvL, ih]

theorem ReadyVL_iff (cs : List VT) : ReadyVL cs ↔ ∀ c ∈ cs, ReadyV c := by
  induction cs with
  | nil => simp [ReadyVL]
  | cons c cs ih => simp [ReadyVL, ih]

/-- what `choice` of an OrList must satisfy given its `viable` and its children -/
def ChoiceOK (v : MT) (c : Int) (cs : List ST) : Prop :=
  (v = .unknown → c = -1) ∧
  (MT.rank .some_ ≤ v.rank → c = listEnd ∨ ∃ i ch, inRange c cs.length = some i ∧ cs[i]? = some ch ∧ ch.atLeastSome = true)

mutual
  def Ch : ST → Prop
    | .simple .. => True
    | .mult j v c _ _ cs => ChL cs ∧ (j = .or → ChoiceOK v c cs)
  def ChL : List ST → Prop
    | [] => True
    | c :: cs => Ch c ∧ ChL cs
end

theorem ChL_iff (cs : List ST) : ChL cs ↔ ∀ c ∈ cs, Ch c := by
  induction cs with
  | nil => simp [ChL]
  | cons c cs ih => simp [ChL, ih]

/-- a child replaced by one with the same skeleton keeps `ChoiceOK` -/
theorem ChoiceOK_set {v : MT} {c : Int} {cs : List ST} {i : Nat} {ch ch' : ST}
    (hc : cs[i]? = some ch) (hs : skel ch' = skel ch) (h : ChoiceOK v c cs) : ChoiceOK v c (cs.set i ch') := by
  refine ⟨h.1, fun hv => ?_⟩
  rcases h.2 hv with h1 | ⟨j, x, hj, hx, ha⟩
  · exact Or.inl h1
  · refine Or.inr ?_
    by_cases hij : i = j
    · subst hij
      refine ⟨i, ch', by simpa using hj, ?_, ?_⟩
      · have hl : i < cs.length := (List.getElem?_eq_some_iff.mp hc).1
        simp [hl]
      · rw [hc] at hx; cases hx
        rw [atLeastSome_of_skel hs]; exact ha
    · refine ⟨j, x, by simpa using hj, ?_, ha⟩
      rw [List.getElem?_set_ne hij]; exact hx

theorem skelL_set (cs : List ST) (i : Nat) (ch ch' : ST) (hc : cs[i]? = some ch) (hs : skel ch' = skel ch) :
    skelL (cs.set i ch') = skelL cs := by
  rw [skelL_eq_map, skelL_eq_map, List.map_set]
  apply List.ext_getElem?
  intro j
  rw [List.getElem?_set]
  split
  · rename_i hij; subst hij
    have hl : i < cs.length := (List.getElem?_eq_some_iff.mp hc).1
    have he : cs[i] = ch := (List.getElem?_eq_some_iff.mp hc).2
    simp [hl, he, hs]
  · rfl

theorem ChL_set {cs : List ST} {i : Nat} {ch' : ST} (h : ChL cs) (h' : Ch ch') : ChL (cs.set i ch') := by
  rw [ChL_iff] at *
  intro c hc
  rcases List.mem_or_eq_of_mem_set hc with h1 | h1
  · exact h c h1
  · subst h1; exact h'

theorem Ch_of_mem {cs : List ST} {i : Nat} {ch : ST} (h : ChL cs) (hc : cs[i]? = some ch) : Ch ch :=
  (ChL_iff cs).mp h ch (List.mem_of_getElem? hc)

theorem WFv_of_mem {N : List Name} {cs : List ST} {i : Nat} {ch : ST} (h : WFvL N (skelL cs)) (hc : cs[i]? = some ch) :
    WFv N (skel ch) := by
  rw [WFvL_iff, skelL_eq_map] at h
  exact h _ (List.mem_map_of_mem (List.mem_of_getElem? hc))


-- ------------------------------------------------------------------ block 1: unmarkAll
theorem simpleUnmark_spec (N : List Name) (n : Name) (v : MT) (im : Mark) (es : Ents)
    (hw : WFv N (.simple n v)) (hn : names es = N) :
    Good (simpleUnmark n v im es) (fun r => skel r.1 = .simple n v ∧ Ch r.1 ∧ names r.2 = N) := by
  unfold simpleUnmark
  split
  · exact ⟨rfl, trivial, hn⟩
  · rename_i hv
    have hmem : n ∈ names es := by rw [hn]; exact hw (by omega)
    obtain ⟨i, hi⟩ := findGe_some_of_mem n es 0 hmem
    rw [hi]
    have hb := findGe_bound n es 0 i hi
    have hl : i < es.length := by omega
    have : es[i]? = some es[i] := by simp [hl]
    simp only [this]
    refine ⟨rfl, trivial, ?_⟩
    show names (if _ then _ else _) = N
    split
    · rw [names_setMark]; exact hn
    · exact hn

theorem unmark_spec (N : List Name) : ∀ f : Nat,
    (∀ t es, WFv N (skel t) → Ch t → names es = N →
      Good (unmarkAll f t es) (fun r => skel r.1 = skel t ∧ Ch r.1 ∧ names r.2 = N)) ∧
    (∀ cs es, WFvL N (skelL cs) → ChL cs → names es = N →
      Good (unmarkList f cs es) (fun r => skelL r.1 = skelL cs ∧ ChL r.1 ∧ names r.2 = N)) := by
  intro f
  induction f with
  | zero => exact ⟨fun _ _ _ _ _ => by simp [unmarkAll, Good], fun _ _ _ _ _ => by simp [unmarkList, Good]⟩
  | succ f ih =>
    obtain ⟨ih1, ih2⟩ := ih
    refine ⟨?_, ?_⟩
    · intro t es hw hc hn
      cases t with
      | simple n v im =>
        simp only [unmarkAll]
        exact simpleUnmark_spec N n v im es hw hn
      | mult j v c c1 k cs =>
        have hwl : WFvL N (skelL cs) := by simp only [skel, WFv] at hw; exact hw.2
        have hcl : ChL cs := by simp only [Ch] at hc; exact hc.1
        cases j with
        | or =>
          simp only [unmarkAll]
          split
          · exact ⟨rfl, hc, hn⟩
          · rename_i i hi
            split
            · exact ⟨rfl, hc, hn⟩
            · rename_i ch hch
              refine Good.bind (ih1 ch es (WFv_of_mem hwl hch) (Ch_of_mem hcl hch) hn) ?_
              rintro ⟨ch', es'⟩ ⟨hs, hc', hn'⟩
              refine ⟨?_, ?_, hn'⟩
              · simp only [skel]; rw [skelL_set cs i ch ch' hch hs]
              · simp only [Ch]
                refine ⟨ChL_set hcl hc', fun _ => ?_⟩
                have := hc.2 rfl
                exact ChoiceOK_set hch hs this
        | and =>
          simp only [unmarkAll]
          refine Good.bind (ih2 cs es hwl hcl hn) ?_
          rintro ⟨cs', es'⟩ ⟨hs, hc', hn'⟩
          exact ⟨by simp only [skel]; rw [hs], by simp only [Ch]; exact ⟨hc', fun h => by cases h⟩, hn'⟩
        | andor =>
          simp only [unmarkAll]
          refine Good.bind (ih2 cs es hwl hcl hn) ?_
          rintro ⟨cs', es'⟩ ⟨hs, hc', hn'⟩
          exact ⟨by simp only [skel]; rw [hs], by simp only [Ch]; exact ⟨hc', fun h => by cases h⟩, hn'⟩
    · intro cs es hw hc hn
      cases cs with
      | nil => simp only [unmarkList]; exact ⟨rfl, trivial, hn⟩
      | cons ch rest =>
        simp only [unmarkList]
        simp only [skelL, WFvL] at hw
        simp only [ChL] at hc
        refine Good.bind (ih1 ch es hw.1 hc.1 hn) ?_
        rintro ⟨ch', es'⟩ ⟨hs, hc', hn'⟩
        refine Good.bind (ih2 rest es' hw.2 hc.2 hn') ?_
        rintro ⟨rest', es''⟩ ⟨hs2, hc2, hn2⟩
        exact ⟨by simp only [skelL]; rw [hs, hs2], ⟨hc', hc2⟩, hn2⟩


-- ------------------------------------------------------------------ block 2: acceptChoice
theorem simpleAccept_spec (N : List Name) (n : Name) (v : MT) (im : Mark) (es : Ents) (hn : names es = N) :
    skel (simpleAccept n v im es).1 = .simple n v ∧ Ch (simpleAccept n v im es).1 ∧ names (simpleAccept n v im es).2.1 = N := by
  unfold simpleAccept
  split
  · exact ⟨rfl, trivial, hn⟩
  · split
    · exact ⟨rfl, trivial, hn⟩
    · split
      · exact ⟨rfl, trivial, by rw [names_setMark]; exact hn⟩
      · exact ⟨rfl, trivial, hn⟩

theorem inRange_ofNat {j n : Nat} (h : j < n) : inRange (j : Int) n = some j := by
  unfold inRange
  have : (0 : Int) ≤ (j : Int) ∧ (j : Int) < (n : Int) := ⟨by omega, by omega⟩
  simp [this]

theorem WFvL_set {N : List Name} {cs : List ST} {i : Nat} {ch ch' : ST} (hc : cs[i]? = some ch)
    (hs : skel ch' = skel ch) (h : WFvL N (skelL cs)) : WFvL N (skelL (cs.set i ch')) := by
  rw [skelL_set cs i ch ch' hc hs]; exact h

def c1Of : ST → Int
  | .simple .. => 0
  | .mult _ _ _ c1 _ _ => c1
/-- the invariant of the children only (what `acceptChoice` needs: it re-establishes the node's own `ChoiceOK`) -/
def ChKids : ST → Prop
  | .simple .. => True
  | .mult _ _ _ _ _ cs => ChL cs
theorem Ch.kids {t : ST} (h : Ch t) : ChKids t := by
  cases t with
  | simple => trivial
  | mult j v c c1 k cs => simp only [Ch] at h; exact h.1
def APost (N : List Name) (t : ST) (r : ST × Ents × Bool) : Prop :=
  skel r.1 = skel t ∧ Ch r.1 ∧ names r.2.1 = N ∧ c1Of r.1 = c1Of t
def ALPost (N : List Name) (cs : List ST) (r : List ST × Ents × Bool) : Prop :=
  skelL r.1 = skelL cs ∧ ChL r.1 ∧ names r.2.1 = N
def AOPost (N : List Name) (cs : List ST) (r : List ST × Ents × Option Nat) : Prop :=
  skelL r.1 = skelL cs ∧ ChL r.1 ∧ names r.2.1 = N ∧
  ∀ j, r.2.2 = some j → ∃ ch, r.1[j]? = some ch ∧ ch.atLeastSome = true

theorem atLeastSome_rank {t : ST} (h : t.atLeastSome = true) : MT.rank .some_ ≤ t.viable.rank := by
  simpa [ST.atLeastSome] using h

theorem accept_spec (N : List Name) : ∀ f : Nat,
    (∀ t es, WFv N (skel t) → ChKids t → names es = N → t.atLeastSome = true → Good (acceptChoice f t es) (APost N t)) ∧
    (∀ cs es, WFvL N (skelL cs) → ChL cs → names es = N → Good (acceptJoin f cs es) (ALPost N cs)) ∧
    (∀ cs i es, WFvL N (skelL cs) → ChL cs → names es = N → Good (acceptOr f cs i es) (AOPost N cs)) := by
  intro f
  induction f with
  | zero =>
    exact ⟨fun _ _ _ _ _ _ => by simp [acceptChoice, Good], fun _ _ _ _ _ => by simp [acceptJoin, Good],
      fun _ _ _ _ _ _ => by simp [acceptOr, Good]⟩
  | succ f ih =>
    obtain ⟨ih1, ih2, ih3⟩ := ih
    refine ⟨?_, ?_, ?_⟩
    · intro t es hw hc hn hal
      cases t with
      | simple n v im =>
        simp only [acceptChoice]
        have := simpleAccept_spec N n v im es hn
        refine ⟨this.1, this.2.1, this.2.2, ?_⟩
        have h1 := this.1
        generalize (simpleAccept n v im es).1 = t' at h1
        cases t' with
        | simple => rfl
        | mult => simp [skel] at h1
      | mult j v c c1 k cs =>
        have hwl : WFvL N (skelL cs) := by simp only [skel, WFv] at hw; exact hw.2
        have hcl : ChL cs := hc
        have hv : MT.rank .some_ ≤ v.rank := atLeastSome_rank hal
        have hvu : v ≠ .unknown := by intro h; rw [h] at hv; simp [MT.rank] at hv
        cases j with
        | or =>
          simp only [acceptChoice]
          split
          · exact ⟨rfl, by simp only [Ch]; exact ⟨hcl, fun _ => ⟨fun h => absurd h hvu, fun _ => Or.inl rfl⟩⟩, hn, rfl⟩
          · rename_i i hi
            refine Good.bind (ih3 cs i es hwl hcl hn) ?_
            rintro ⟨cs', es', r⟩ ⟨hs, hc', hn', hr⟩
            cases r with
            | none =>
              exact ⟨by simp only [skel]; rw [hs],
                by simp only [Ch]; exact ⟨hc', fun _ => ⟨fun h => absurd h hvu, fun _ => Or.inl rfl⟩⟩, hn', rfl⟩
            | some j =>
              obtain ⟨ch, hch, ha⟩ := hr j rfl
              have hl : j < cs'.length := (List.getElem?_eq_some_iff.mp hch).1
              exact ⟨by simp only [skel]; rw [hs],
                by simp only [Ch]; exact ⟨hc', fun _ => ⟨fun h => absurd h hvu,
                  fun _ => Or.inr ⟨j, ch, inRange_ofNat hl, hch, ha⟩⟩⟩, hn', rfl⟩
        | and =>
          simp only [acceptChoice]
          refine Good.bind (ih2 cs es hwl hcl hn) ?_
          rintro ⟨cs', es', r⟩ ⟨hs, hc', hn'⟩
          exact ⟨by simp only [skel]; rw [hs], by simp only [Ch]; exact ⟨hc', fun h => by cases h⟩, hn', rfl⟩
        | andor =>
          simp only [acceptChoice]
          refine Good.bind (ih2 cs es hwl hcl hn) ?_
          rintro ⟨cs', es', r⟩ ⟨hs, hc', hn'⟩
          exact ⟨by simp only [skel]; rw [hs], by simp only [Ch]; exact ⟨hc', fun h => by cases h⟩, hn', rfl⟩
    · intro cs es hw hc hn
      cases cs with
      | nil => simp only [acceptJoin]; exact ⟨rfl, trivial, hn⟩
      | cons ch rest =>
        simp only [acceptJoin]
        simp only [skelL, WFvL] at hw
        simp only [ChL] at hc
        have hk : ∀ a : ST × Ents × Bool, APost N ch a →
            Good (acceptJoin f rest a.2.1 >>= fun b => (pure (a.1 :: b.1, b.2.1, a.2.2 || b.2.2) : Outcome _))
              (ALPost N (ch :: rest)) := by
          rintro ⟨ch', es', r⟩ ⟨hs, hc', hn', _⟩
          refine Good.bind (ih2 rest es' hw.2 hc.2 hn') ?_
          rintro ⟨rest', es'', r'⟩ ⟨hs2, hc2, hn2⟩
          exact ⟨by simp only [skelL]; rw [hs, hs2], ⟨hc', hc2⟩, hn2⟩
        split
        · rename_i ha; exact Good.bind (ih1 ch es hw.1 hc.1.kids hn ha) hk
        · exact Good.bind (Good.pure' (P := APost N ch) ⟨rfl, hc.1, hn, rfl⟩) hk
    · intro cs i es hw hc hn
      simp only [acceptOr]
      split
      · exact ⟨rfl, hc, hn, fun j h => by cases h⟩
      · rename_i ch hch
        split
        · rename_i ha
          refine Good.bind (ih1 ch es (WFv_of_mem hw hch) (Ch_of_mem hc hch).kids hn ha) ?_
          rintro ⟨ch', es', r⟩ ⟨hs, hc', hn', _⟩
          have hl : i < cs.length := (List.getElem?_eq_some_iff.mp hch).1
          cases r with
          | true =>
            simp only [if_true]
            refine ⟨skelL_set cs i ch ch' hch hs, ChL_set hc hc', hn', ?_⟩
            intro j hj
            cases hj
            exact ⟨ch', by simp [hl], by rw [atLeastSome_of_skel hs]; exact ha⟩
          | false =>
            simp only [Bool.false_eq_true, if_false]
            refine Good.mono (ih3 (cs.set i ch') (i + 1) es' (WFvL_set hch hs hw) (ChL_set hc hc') hn') ?_
            rintro ⟨cs2, es2, r2⟩ ⟨hs2, hc2, hn2, hr2⟩
            exact ⟨by rw [hs2]; exact skelL_set cs i ch ch' hch hs, hc2, hn2, hr2⟩
        · exact ih3 cs (i + 1) es hw hc hn


-- ------------------------------------------------------------------ list forms of the invariants
def WFs (N : List Name) (cs : List ST) : Prop := ∀ c ∈ cs, WFv N (skel c)
def Rds (cs : List ST) : Prop := ∀ c ∈ cs, ReadyV (skel c)
def Chs (cs : List ST) : Prop := ∀ c ∈ cs, Ch c

theorem WFs_iff (N : List Name) (cs : List ST) : WFvL N (skelL cs) ↔ WFs N cs := by
  rw [WFvL_iff, skelL_eq_map]; simp [WFs]
theorem Rds_iff (cs : List ST) : ReadyVL (skelL cs) ↔ Rds cs := by
  rw [ReadyVL_iff, skelL_eq_map]; simp [Rds]
theorem Chs_iff (cs : List ST) : ChL cs ↔ Chs cs := ChL_iff cs

theorem WFs_snoc {N : List Name} {a : List ST} {c : ST} (h : WFs N a) (hc : WFv N (skel c)) : WFs N (a ++ [c]) := by
  intro x hx; simp at hx; rcases hx with hx | hx
  · exact h x hx
  · subst hx; exact hc
theorem Rds_snoc {a : List ST} {c : ST} (h : Rds a) (hc : ReadyV (skel c)) : Rds (a ++ [c]) := by
  intro x hx; simp at hx; rcases hx with hx | hx
  · exact h x hx
  · subst hx; exact hc
theorem Chs_snoc {a : List ST} {c : ST} (h : Chs a) (hc : Ch c) : Chs (a ++ [c]) := by
  intro x hx; simp at hx; rcases hx with hx | hx
  · exact h x hx
  · subst hx; exact hc
theorem WFs_mid {N : List Name} {a b : List ST} {c : ST} (h : WFs N a) (hc : WFv N (skel c)) (hb : WFs N b) :
    WFs N (a ++ c :: b) := by
  intro x hx; simp at hx; rcases hx with hx | hx | hx
  · exact h x hx
  · subst hx; exact hc
  · exact hb x hx
theorem Chs_mid {a b : List ST} {c : ST} (h : Chs a) (hc : Ch c) (hb : Chs b) : Chs (a ++ c :: b) := by
  intro x hx; simp at hx; rcases hx with hx | hx | hx
  · exact h x hx
  · subst hx; exact hc
  · exact hb x hx

theorem ReadyV_of_skel {t t' : ST} (h : skel t' = skel t) (hr : ReadyV (skel t)) : ReadyV (skel t') := by rw [h]; exact hr
theorem WFv_of_skel {N : List Name} {t t' : ST} (h : skel t' = skel t) (hr : WFv N (skel t)) : WFv N (skel t') := by
  rw [h]; exact hr

theorem ReadyV_or (v : MT) (c c1 : Int) (k : Nat) (cs : List ST) : ReadyV (skel (.mult .or v c c1 k cs)) := by
  simp [skel, ReadyV]

theorem ReadyV_isOr {t : ST} (h : t.isOr = true) : ReadyV (skel t) := by
  cases t with
  | simple => simp [ST.isOr] at h
  | mult j v c c1 k cs =>
    cases j with
    | or => exact ReadyV_or v c c1 k cs
    | and => simp [ST.isOr] at h
    | andor => simp [ST.isOr] at h

-- ------------------------------------------------------------------ block 3: matchNonORs
structure NPost (N : List Name) (t : ST) (r : ST × Ents × MT) : Prop where
  wf : WFv N (skel r.1)
  ch : Ch r.1
  nm : names r.2.1 = N
  rd : ReadyV (skel r.1)
  simp_eq : r.1.isSimple = t.isSimple
  or_eq : r.1.isOr = t.isOr
  res : t.isOr = false → r.2.2 = r.1.viable
  known : t.isSimple = true → r.1.viable ≠ .unknown

theorem simpleMatchNonORs_spec (N : List Name) (n : Name) (im : Mark) (es : Ents) (hn : names es = N) (v0 : MT) (im0 : Mark) :
    NPost N (.simple n v0 im0) (simpleMatchNonORs n im es) := by
  have hmem : ∀ i e, findEq n es 0 = some i → es[i]? = some e → n ∈ N := by
    intro i e hi he
    obtain ⟨_, e', he', hname⟩ := findEq_bound n es 0 i hi
    simp at he'
    rw [← hn, ← hname]
    exact List.mem_map_of_mem (List.mem_of_getElem? he')
  unfold simpleMatchNonORs
  split
  · exact ⟨by simp [skel, WFv, MT.rank], trivial, hn, by simp [skel, ReadyV], rfl, rfl, fun _ => rfl, fun _ => by simp [ST.viable]⟩
  · rename_i i hi
    split
    · exact ⟨by simp [skel, WFv, MT.rank], trivial, hn, by simp [skel, ReadyV], rfl, rfl, fun _ => rfl, fun _ => by simp [ST.viable]⟩
    · rename_i e he
      have hm := hmem i e hi he
      split
      · split
        · dsimp only
          split
          · exact ⟨by simp only [skel, WFv]; intro _; exact hm, trivial, by simp [names_setMark, hn], by simp [skel, ReadyV], rfl, rfl,
              fun _ => rfl, fun _ => by simp [ST.viable]⟩
          · exact ⟨by simp only [skel, WFv]; intro _; exact hm, trivial, by simp [names_setMark, hn], by simp [skel, ReadyV], rfl, rfl,
              fun _ => rfl, fun _ => by simp [ST.viable]⟩
        · exact ⟨by simp only [skel, WFv]; intro _; exact hm, trivial, hn, by simp [skel, ReadyV], rfl, rfl, fun _ => rfl,
            fun _ => by simp [ST.viable]⟩
      · exact ⟨by simp [skel, WFv, MT.rank], trivial, hn, by simp [skel, ReadyV], rfl, rfl, fun _ => rfl, fun _ => by simp [ST.viable]⟩


structure NLPost (N : List Name) (n : Nat) (r : List ST × Ents × Bool) : Prop where
  wf : WFs N r.1
  ch : Chs r.1
  nm : names r.2.1 = N
  len : r.1.length = n
  rd : r.2.2 = false → Rds r.1

theorem WFv_mult_intro {N : List Name} {j : Join} {v : MT} {c c1 : Int} {k : Nat} {cs : List ST}
    (hne : cs ≠ []) (h : WFs N cs) : WFv N (skel (.mult j v c c1 k cs)) := by
  simp only [skel, WFv]
  refine ⟨?_, (WFs_iff N cs).mpr h⟩
  cases cs with
  | nil => exact absurd rfl hne
  | cons a b => simp [skelL]

theorem WFv_mult_elim {N : List Name} {j : Join} {v : MT} {c c1 : Int} {k : Nat} {cs : List ST}
    (h : WFv N (skel (.mult j v c c1 k cs))) : cs ≠ [] ∧ WFs N cs := by
  simp only [skel, WFv] at h
  refine ⟨?_, (WFs_iff N cs).mp h.2⟩
  intro he; subst he; exact h.1 rfl

theorem ne_nil_of_length {α : Type} {l : List α} {n : Nat} (h : l.length = n) (hn : 0 < n) : l ≠ [] := by
  intro he; subst he; simp at h; omega

theorem ReadyV_join {j : Join} {v : MT} {c c1 : Int} {k : Nat} {cs : List ST} (h : v = .unknown → Rds cs) :
    ReadyV (skel (.mult j v c c1 k cs)) := by
  cases j with
  | or => exact ReadyV_or v c c1 k cs
  | and => simp only [skel, ReadyV]; exact fun hv => (Rds_iff cs).mpr (h hv)
  | andor => simp only [skel, ReadyV]; exact fun hv => (Rds_iff cs).mpr (h hv)

theorem Ch_join {j : Join} {v : MT} {c c1 : Int} {k : Nat} {cs : List ST} (hj : j ≠ .or) (h : Chs cs) :
    Ch (.mult j v c c1 k cs) := by
  simp only [Ch]; exact ⟨(Chs_iff cs).mpr h, fun h' => absurd h' hj⟩

theorem Ch_mult_elim {j : Join} {v : MT} {c c1 : Int} {k : Nat} {cs : List ST} (h : Ch (.mult j v c c1 k cs)) : Chs cs := by
  simp only [Ch] at h; exact (Chs_iff cs).mp h.1

theorem nonors_spec (N : List Name) : ∀ f : Nat,
    (∀ t es, WFv N (skel t) → Ch t → names es = N → Good (matchNonORs f t es) (NPost N t)) ∧
    (∀ done rest es, WFs N done → WFs N rest → Chs done → Chs rest → Rds done → names es = N →
      Good (andorNonORs f done rest es) (NLPost N (done.length + rest.length))) ∧
    (∀ done rest es, WFs N done → WFs N rest → Chs done → Chs rest → Rds done → names es = N →
      Good (andNonORs f done rest es) (NLPost N (done.length + rest.length))) := by
  intro f
  induction f with
  | zero =>
    exact ⟨fun _ _ _ _ _ => by simp [matchNonORs, Good], fun _ _ _ _ _ _ _ _ _ => by simp [andorNonORs, Good],
      fun _ _ _ _ _ _ _ _ _ => by simp [andNonORs, Good]⟩
  | succ f ih =>
    obtain ⟨ih1, ih2, ih3⟩ := ih
    refine ⟨?_, ?_, ?_⟩
    · intro t es hw hc hn
      cases t with
      | simple n v im =>
        simp only [matchNonORs]
        exact simpleMatchNonORs_spec N n im es hn v im
      | mult j v c c1 k cs =>
        obtain ⟨hne, hws⟩ := WFv_mult_elim hw
        have hcs := Ch_mult_elim hc
        have hemp : cs.isEmpty = false := by cases cs with | nil => exact absurd rfl hne | cons => rfl
        have hpos : 0 < cs.length := by cases cs with | nil => exact absurd rfl hne | cons => simp
        cases j with
        | or =>
          simp only [matchNonORs]
          exact ⟨hw, hc, hn, ReadyV_or v c c1 k cs, rfl, rfl, fun h => by simp [ST.isOr] at h, fun h => by simp [ST.isSimple] at h⟩
        | andor =>
          simp only [matchNonORs, hemp, Bool.false_eq_true, if_false]
          refine Good.bind (ih2 [] cs es (fun _ h => by cases h) hws (fun _ h => by cases h) hcs (fun _ h => by cases h) hn) ?_
          rintro ⟨cs', es', early⟩ ⟨hw', hc', hn', hlen, hrd⟩
          have hne' : cs' ≠ [] := ne_nil_of_length hlen (by simpa using hpos)
          cases early with
          | true =>
            exact ⟨WFv_mult_intro hne' hw', Ch_join (by decide) hc', hn', ReadyV_join (fun h => by cases h), rfl, rfl,
              fun _ => rfl, fun h => by simp [ST.isSimple] at h⟩
          | false =>
            exact ⟨WFv_mult_intro hne' hw', Ch_join (by decide) hc', hn', ReadyV_join (fun _ => hrd rfl), rfl, rfl,
              fun _ => rfl, fun h => by simp [ST.isSimple] at h⟩
        | and =>
          simp only [matchNonORs, hemp, Bool.false_eq_true, if_false]
          refine Good.bind (ih3 [] cs es (fun _ h => by cases h) hws (fun _ h => by cases h) hcs (fun _ h => by cases h) hn) ?_
          rintro ⟨cs', es', failed⟩ ⟨hw', hc', hn', hlen, hrd⟩
          have hne' : cs' ≠ [] := ne_nil_of_length hlen (by simpa using hpos)
          cases failed with
          | true =>
            exact ⟨WFv_mult_intro hne' hw', Ch_join (by decide) hc', hn', ReadyV_join (fun h => by cases h), rfl, rfl,
              fun _ => rfl, fun h => by simp [ST.isSimple] at h⟩
          | false =>
            exact ⟨WFv_mult_intro hne' hw', Ch_join (by decide) hc', hn', ReadyV_join (fun _ => hrd rfl), rfl, rfl,
              fun _ => rfl, fun h => by simp [ST.isSimple] at h⟩
    · intro done rest es hwd hwr hcd hcr hrd hn
      cases rest with
      | nil =>
        simp only [andorNonORs]
        exact ⟨hwd, hcd, hn, by simp, fun _ => hrd⟩
      | cons ch rest =>
        have hwc : WFv N (skel ch) := hwr ch (by simp)
        have hcc : Ch ch := hcr ch (by simp)
        have hwr' : WFs N rest := fun x hx => hwr x (by simp [hx])
        have hcr' : Chs rest := fun x hx => hcr x (by simp [hx])
        have hlen : (done ++ [ch]).length + rest.length = done.length + (ch :: rest).length := by simp; omega
        simp only [andorNonORs]
        split
        · rename_i hor
          have := ih2 (done ++ [ch]) rest es (WFs_snoc hwd hwc) hwr' (Chs_snoc hcd hcc) hcr' (Rds_snoc hrd (ReadyV_isOr hor)) hn
          rw [hlen] at this; exact this
        · refine Good.bind (ih1 ch es hwc hcc hn) ?_
          rintro ⟨ch', es', r⟩ hp
          have hp1 : WFv N (skel ch') := hp.wf
          have hp2 : Ch ch' := hp.ch
          have hp3 : names es' = N := hp.nm
          have hp4 : ReadyV (skel ch') := hp.rd
          dsimp only
          split
          · split
            · refine ⟨WFs_mid hwd hp1 hwr', Chs_mid hcd hp2 hcr', hp3, by simp, fun h => by cases h⟩
            · have := ih2 (done ++ [ch']) rest es' (WFs_snoc hwd hp1) hwr' (Chs_snoc hcd hp2) hcr' (Rds_snoc hrd hp4) hp3
              simp only [List.length_append, List.length_cons, List.length_nil] at this hlen ⊢
              rw [show done.length + (rest.length + 1) = done.length + (0 + 1) + rest.length by omega]; exact this
          · split
            · refine Good.bind ((unmark_spec N f).1 ch' es' hp1 hp2 hp3) ?_
              rintro ⟨ch'', es''⟩ ⟨hs, hc2, hn2⟩
              have := ih2 (done ++ [ch'']) rest es'' (WFs_snoc hwd (WFv_of_skel hs hp1)) hwr' (Chs_snoc hcd hc2) hcr'
                (Rds_snoc hrd (ReadyV_of_skel hs hp4)) hn2
              simp only [List.length_append, List.length_cons, List.length_nil] at this ⊢
              rw [show done.length + (rest.length + 1) = done.length + (0 + 1) + rest.length by omega]; exact this
            · have := ih2 (done ++ [ch']) rest es' (WFs_snoc hwd hp1) hwr' (Chs_snoc hcd hp2) hcr' (Rds_snoc hrd hp4) hp3
              simp only [List.length_append, List.length_cons, List.length_nil] at this ⊢
              rw [show done.length + (rest.length + 1) = done.length + (0 + 1) + rest.length by omega]; exact this
    · intro done rest es hwd hwr hcd hcr hrd hn
      cases rest with
      | nil =>
        simp only [andNonORs]
        exact ⟨hwd, hcd, hn, by simp, fun _ => hrd⟩
      | cons ch rest =>
        have hwc : WFv N (skel ch) := hwr ch (by simp)
        have hcc : Ch ch := hcr ch (by simp)
        have hwr' : WFs N rest := fun x hx => hwr x (by simp [hx])
        have hcr' : Chs rest := fun x hx => hcr x (by simp [hx])
        simp only [andNonORs]
        split
        · rename_i hor
          have := ih3 (done ++ [ch]) rest es (WFs_snoc hwd hwc) hwr' (Chs_snoc hcd hcc) hcr' (Rds_snoc hrd (ReadyV_isOr hor)) hn
          simp only [List.length_append, List.length_cons, List.length_nil] at this ⊢
          rw [show done.length + (rest.length + 1) = done.length + (0 + 1) + rest.length by omega]; exact this
        · refine Good.bind (ih1 ch es hwc hcc hn) ?_
          rintro ⟨ch', es', r⟩ hp
          have hp1 : WFv N (skel ch') := hp.wf
          have hp2 : Ch ch' := hp.ch
          have hp3 : names es' = N := hp.nm
          have hp4 : ReadyV (skel ch') := hp.rd
          dsimp only
          split
          · refine ⟨WFs_mid hwd hp1 hwr', Chs_mid hcd hp2 hcr', hp3, by simp, fun h => by cases h⟩
          · have := ih3 (done ++ [ch']) rest es' (WFs_snoc hwd hp1) hwr' (Chs_snoc hcd hp2) hcr' (Rds_snoc hrd hp4) hp3
            simp only [List.length_append, List.length_cons, List.length_nil] at this ⊢
            rw [show done.length + (rest.length + 1) = done.length + (0 + 1) + rest.length by omega]; exact this


-- ------------------------------------------------------------------ block 4: matchORs
structure OPost (N : List Name) (t : ST) (r : ST × Ents × MT) : Prop where
  wf : WFv N (skel r.1)
  ch : Ch r.1
  nm : names r.2.1 = N
  simp_eq : r.1.isSimple = t.isSimple
  or_eq : r.1.isOr = t.isOr

structure OLPost (N : List Name) (n : Nat) (r : List ST × Ents × Bool) : Prop where
  wf : WFs N r.1
  ch : Chs r.1
  nm : names r.2.1 = N
  len : r.1.length = n

/-- loop invariant of `OrList::matchORs`: no viable child yet and `choice` untouched, or `choice1` names a visited child -/
def J (v : MT) (c c1 : Int) (idx : Nat) : Prop :=
  (c = -1 ∧ v.rank < 3) ∨ (3 ≤ v.rank ∧ ∃ i : Nat, i < idx ∧ c1 = (i : Int))

structure OOPost (N : List Name) (n : Nat) (r : List ST × Ents × MT × MT × Int × Int × Nat) : Prop where
  wf : WFs N r.1
  ch : Chs r.1
  nm : names r.2.1 = N
  len : r.1.length = n
  j : J r.2.2.2.1 r.2.2.2.2.1 r.2.2.2.2.2.1 n

theorem length_of_skelL {a b : List ST} (h : skelL a = skelL b) : a.length = b.length := by
  have := congrArg List.length h
  simpa [skelL_eq_map] using this

theorem ReadyV_kids {j : Join} {v : MT} {c c1 : Int} {k : Nat} {cs : List ST} (hj : j ≠ .or)
    (h : ReadyV (skel (.mult j v c c1 k cs))) (hv : v = .unknown) : Rds cs := by
  cases j with
  | or => exact absurd rfl hj
  | and => simp only [skel, ReadyV] at h; exact (Rds_iff cs).mp (h hv)
  | andor => simp only [skel, ReadyV] at h; exact (Rds_iff cs).mp (h hv)

theorem not_simple_unknown_ready {t : ST} (hr : ReadyV (skel t)) (hv : t.viable = .unknown) : t.isSimple = false := by
  cases t with
  | simple n v im => simp only [skel, ReadyV] at hr; exact absurd hv hr
  | mult => rfl

theorem len_shift (a b : Nat) : a + (b + 1) = a + (0 + 1) + b := by omega

theorem ors_spec (N : List Name) : ∀ f : Nat,
    (∀ t es, WFv N (skel t) → Ch t → names es = N → ReadyV (skel t) → t.isSimple = false → t.viable = .unknown →
      Good (matchORs f t es) (OPost N t)) ∧
    (∀ isAnd done rest es, WFs N done → WFs N rest → Chs done → Chs rest → Rds rest → names es = N →
      Good (joinORs f isAnd done rest es) (OLPost N (done.length + rest.length))) ∧
    (∀ idx done rest es rv v c c1 k, WFs N done → WFs N rest → Chs done → Chs rest → names es = N →
      idx = done.length → J v c c1 idx →
      Good (orORs f idx done rest es rv v c c1 k) (OOPost N (done.length + rest.length))) := by
  intro f
  induction f with
  | zero =>
    exact ⟨fun _ _ _ _ _ _ _ _ => by simp [matchORs, Good], fun _ _ _ _ _ _ _ _ _ _ => by simp [joinORs, Good],
      fun _ _ _ _ _ _ _ _ _ _ _ _ _ _ _ _ => by simp [orORs, Good]⟩
  | succ f ih =>
    obtain ⟨ih1, ih2, ih3⟩ := ih
    refine ⟨?_, ?_, ?_⟩
    · intro t es hw hc hn hr hns hvu
      cases t with
      | simple n v im => simp [ST.isSimple] at hns
      | mult j v c c1 k cs =>
        obtain ⟨hne, hws⟩ := WFv_mult_elim hw
        have hcs := Ch_mult_elim hc
        have hemp : cs.isEmpty = false := by cases cs with | nil => exact absurd rfl hne | cons => rfl
        have hpos : 0 < cs.length := by cases cs with | nil => exact absurd rfl hne | cons => simp
        have hv : v = .unknown := hvu
        cases j with
        | andor =>
          simp only [matchORs, hemp, Bool.false_eq_true, if_false]
          refine Good.bind (ih2 false [] cs es (fun _ h => by cases h) hws (fun _ h => by cases h) hcs
            (ReadyV_kids (by decide) hr hv) hn) ?_
          rintro ⟨cs', es', b⟩ ⟨hw', hc', hn', hlen⟩
          have hne' : cs' ≠ [] := ne_nil_of_length hlen (by simpa using hpos)
          exact ⟨WFv_mult_intro hne' hw', Ch_join (by decide) hc', hn', rfl, rfl⟩
        | and =>
          simp only [matchORs, hemp, Bool.false_eq_true, if_false]
          refine Good.bind (ih2 true [] cs es (fun _ h => by cases h) hws (fun _ h => by cases h) hcs
            (ReadyV_kids (by decide) hr hv) hn) ?_
          rintro ⟨cs', es', b⟩ ⟨hw', hc', hn', hlen⟩
          have hne' : cs' ≠ [] := ne_nil_of_length hlen (by simpa using hpos)
          cases b with
          | true => exact ⟨WFv_mult_intro hne' hw', Ch_join (by decide) hc', hn', rfl, rfl⟩
          | false => exact ⟨WFv_mult_intro hne' hw', Ch_join (by decide) hc', hn', rfl, rfl⟩
        | or =>
          have hco : ChoiceOK v c cs := hc.2 rfl
          have hc0 : c = -1 := hco.1 hv
          simp only [matchORs]
          have hJ0 : J v c c1 0 := Or.inl ⟨hc0, by rw [hv]; simp [MT.rank]⟩
          refine Good.bind (ih3 0 [] cs es .unknown v c c1 k (fun _ h => by cases h) hws (fun _ h => by cases h) hcs hn rfl hJ0) ?_
          rintro ⟨cs', es', rv, v', c', c1', k'⟩ ⟨hw', hc', hn', hlen, hJ⟩
          simp only [List.length_nil, Nat.zero_add] at hlen hJ
          have hne' : cs' ≠ [] := ne_nil_of_length hlen hpos
          dsimp only
          -- the acceptChoice step
          have hstep : Good (if MT.rank .some_ ≤ v'.rank then acceptDrop f (ST.mult .or v' c' c1' k' cs') es'
              else pure (ST.mult .or v' c' c1' k' cs', es'))
              (fun r => WFv N (skel r.1) ∧ Ch r.1 ∧ names r.2 = N ∧ skel r.1 = skel (ST.mult .or v' c' c1' k' cs') ∧ c1Of r.1 = c1') := by
            split
            · rename_i hge
              unfold acceptDrop
              refine Good.bind ((accept_spec N f).1 _ es' (WFv_mult_intro hne' hw') ((Chs_iff cs').mpr hc') hn'
                (by simp only [ST.atLeastSome, ST.viable]; exact decide_eq_true hge)) ?_
              rintro ⟨n', e', b⟩ ⟨hs, hch, hnm, hc1⟩
              exact ⟨by rw [hs]; exact WFv_mult_intro hne' hw', hch, hnm, hs, hc1⟩
            · rename_i hlt
              refine ⟨WFv_mult_intro hne' hw', ?_, hn', rfl, rfl⟩
              simp only [Ch]
              refine ⟨(Chs_iff cs').mpr hc', fun _ => ⟨fun hu => ?_, fun hge => absurd hge hlt⟩⟩
              rcases hJ with ⟨h1, _⟩ | ⟨h1, _⟩
              · exact h1
              · rw [hu] at h1; simp [MT.rank] at h1
          refine Good.ite_bind hstep ?_
          rintro ⟨node', es''⟩ ⟨hwn, hcn, hnn, hsn, hc1n⟩
          dsimp only
          have hnode : node'.isSimple = false ∧ node'.isOr = true := by
            constructor
            · rw [isSimple_of_skel hsn]; rfl
            · rw [isOr_of_skel hsn]; rfl
          split
          · rename_i hall
            cases node' with
            | simple => simp [ST.isSimple] at hnode
            | mult j2 v2 c2 c12 k2 cs2 =>
              have hl2 : cs2.length = cs.length := by
                simp only [skel, VT.mult.injEq] at hsn
                rw [length_of_skelL hsn.2.2, hlen]
              have hc12 : c12 = c1' := hc1n
              rcases hJ with ⟨_, h1⟩ | ⟨_, i, hi, hci⟩
              · rw [hall] at h1; simp [MT.rank] at h1
              · dsimp only
                have hir : inRange c12 cs2.length = some i := by
                  rw [hc12, hci]; exact inRange_ofNat (by omega)
                rw [hir]
                have hget : cs2[i]? = some cs2[i] := by simp [show i < cs2.length by omega]
                simp only [hget]
                exact ⟨hwn, hcn, hnn, hnode.1, hnode.2⟩
          · exact ⟨hwn, hcn, hnn, hnode.1, hnode.2⟩
    · intro isAnd done rest es hwd hwr hcd hcr hrr hn
      cases rest with
      | nil => simp only [joinORs]; exact ⟨hwd, hcd, hn, by simp⟩
      | cons ch rest =>
        have hwc : WFv N (skel ch) := hwr ch (by simp)
        have hcc : Ch ch := hcr ch (by simp)
        have hrc : ReadyV (skel ch) := hrr ch (by simp)
        have hwr' : WFs N rest := fun x hx => hwr x (by simp [hx])
        have hcr' : Chs rest := fun x hx => hcr x (by simp [hx])
        have hrr' : Rds rest := fun x hx => hrr x (by simp [hx])
        simp only [joinORs]
        split
        · rename_i hvu
          have hns := not_simple_unknown_ready hrc hvu
          simp only [hns, Bool.false_eq_true, if_false]
          refine Good.bind (ih1 ch es hwc hcc hn hrc hns hvu) ?_
          rintro ⟨ch', es', r⟩ hp
          have hp1 : WFv N (skel ch') := hp.wf
          have hp2 : Ch ch' := hp.ch
          have hp3 : names es' = N := hp.nm
          dsimp only
          split
          · split
            · exact ⟨WFs_mid hwd hp1 hwr', Chs_mid hcd hp2 hcr', hp3, by simp⟩
            · refine Good.bind ((unmark_spec N f).1 ch' es' hp1 hp2 hp3) ?_
              rintro ⟨ch'', es''⟩ ⟨hs, hc2, hn2⟩
              have := ih2 isAnd (done ++ [ch'']) rest es'' (WFs_snoc hwd (WFv_of_skel hs hp1)) hwr' (Chs_snoc hcd hc2) hcr' hrr' hn2
              simp only [List.length_append, List.length_cons, List.length_nil] at this ⊢
              rw [len_shift]; exact this
          · have := ih2 isAnd (done ++ [ch']) rest es' (WFs_snoc hwd hp1) hwr' (Chs_snoc hcd hp2) hcr' hrr' hp3
            simp only [List.length_append, List.length_cons, List.length_nil] at this ⊢
            rw [len_shift]; exact this
        · have := ih2 isAnd (done ++ [ch]) rest es (WFs_snoc hwd hwc) hwr' (Chs_snoc hcd hcc) hcr' hrr' hn
          simp only [List.length_append, List.length_cons, List.length_nil] at this ⊢
          rw [len_shift]; exact this
    · intro idx done rest es rv v c c1 k hwd hwr hcd hcr hn hidx hJ
      cases rest with
      | nil => simp only [orORs]; exact ⟨hwd, hcd, hn, by simp, by simpa [hidx] using hJ⟩
      | cons ch rest =>
        have hwc : WFv N (skel ch) := hwr ch (by simp)
        have hcc : Ch ch := hcr ch (by simp)
        have hwr' : WFs N rest := fun x hx => hwr x (by simp [hx])
        have hcr' : Chs rest := fun x hx => hcr x (by simp [hx])
        simp only [orORs]
        -- step 1: matchNonORs on a non-OR child
        have h1 : Good (if (!ch.isOr) = true then matchNonORs f ch es else pure (ch, es, rv))
            (fun r => WFv N (skel r.1) ∧ Ch r.1 ∧ names r.2.1 = N ∧ ReadyV (skel r.1) ∧
              (r.1.viable = .unknown → r.1.isSimple = false)) := by
          split
          · rename_i hno
            refine Good.mono ((nonors_spec N f).1 ch es hwc hcc hn) ?_
            rintro ⟨a, b, c⟩ hp
            refine ⟨hp.wf, hp.ch, hp.nm, hp.rd, fun hu => ?_⟩
            exact not_simple_unknown_ready hp.rd hu
          · rename_i hor
            have hor' : ch.isOr = true := by simpa using hor
            refine ⟨hwc, hcc, hn, ReadyV_isOr hor', fun _ => ?_⟩
            cases ch with
            | simple => simp [ST.isOr] at hor'
            | mult => rfl
        refine Good.ite_bind h1 ?_
        rintro ⟨ch1, es1, rv1⟩ ⟨hw1, hc1, hn1, hr1, hs1⟩
        dsimp only
        have h2 : Good (if ch1.viable = .unknown then
              (if ch1.isSimple = true then Outcome.crash .castSimple else matchORs f ch1 es1) else pure (ch1, es1, rv1))
            (fun r => WFv N (skel r.1) ∧ Ch r.1 ∧ names r.2.1 = N) := by
          split
          · rename_i hu
            have hns := hs1 hu
            simp only [hns, Bool.false_eq_true, if_false]
            refine Good.mono (ih1 ch1 es1 hw1 hc1 hn1 hr1 hns hu) ?_
            rintro ⟨a, b, c⟩ hp
            exact ⟨hp.wf, hp.ch, hp.nm⟩
          · exact ⟨hw1, hc1, hn1⟩
        refine Good.ite_bind h2 ?_
        rintro ⟨ch2, es2, rv2⟩ ⟨hw2, hc2, hn2⟩
        dsimp only
        refine Good.bind ((unmark_spec N f).1 ch2 es2 hw2 hc2 hn2) ?_
        rintro ⟨ch3, es3⟩ ⟨hs3, hc3, hn3⟩
        dsimp only
        have hJ' : J (if v.rank < rv2.rank then rv2 else v)
            (if (decide (MT.rank .some_ ≤ rv2.rank) && decide (c = -1)) = true then (idx : Int) else c)
            (if (decide (MT.rank .some_ ≤ rv2.rank) && decide (c = -1)) = true then (idx : Int) else c1) (idx + 1) := by
          have h3 : MT.rank .some_ = 3 := rfl
          by_cases hsome : MT.rank .some_ ≤ rv2.rank
          · by_cases hcm : c = -1
            · simp only [hsome, hcm, decide_true, Bool.and_self, if_true]
              refine Or.inr ⟨?_, idx, by omega, rfl⟩
              split <;> omega
            · simp only [hsome, hcm, decide_true, decide_false, Bool.and_false, Bool.false_eq_true, if_false]
              rcases hJ with ⟨h, _⟩ | ⟨h, i, hi, hci⟩
              · exact absurd h hcm
              · refine Or.inr ⟨?_, i, by omega, hci⟩
                split <;> omega
          · simp only [hsome, decide_false, Bool.false_and, Bool.false_eq_true, if_false]
            rcases hJ with ⟨h, hlt⟩ | ⟨h, i, hi, hci⟩
            · refine Or.inl ⟨h, ?_⟩
              split <;> omega
            · refine Or.inr ⟨?_, i, by omega, hci⟩
              split <;> omega
        have := ih3 (idx + 1) (done ++ [ch3]) rest es3 rv2 _ _ _ (if decide (MT.rank .some_ ≤ rv2.rank) = true then k + 1 else k)
          (WFs_snoc hwd (WFv_of_skel hs3 hw2)) hwr' (Chs_snoc hcd hc3) hcr' hn3 (by simp [hidx]) hJ'
        have e : (done ++ [ch3]).length + rest.length = done.length + (ch :: rest).length := by simp; omega
        rw [e] at this; exact this


-- ------------------------------------------------------------------ block 5: tryNext
theorem firstCand_spec (cs : List ST) : ∀ (s i : Nat), firstCand cs s = some i →
    ∃ ch, cs[i]? = some ch ∧ ch.isSimple = false ∧ ch.atLeastSome = true := by
  intro s
  induction s with
  | zero =>
    intro i h
    unfold firstCand at h
    split at h
    · rename_i c hc
      split at h
      · rename_i hcond
        simp at h; subst h
        simp only [Bool.and_eq_true, Bool.not_eq_true'] at hcond
        exact ⟨c, hc, hcond.1, hcond.2⟩
      · simp at h
    · simp at h
  | succ k ih =>
    intro i h
    unfold firstCand at h
    split at h
    · rename_i c hc
      split at h
      · rename_i hcond
        simp at h; subst h
        simp only [Bool.and_eq_true, Bool.not_eq_true'] at hcond
        exact ⟨c, hc, hcond.1, hcond.2⟩
      · exact ih i h
    · exact ih i h

theorem nextCands_spec (cs : List ST) (i j : Nat) (h : j ∈ nextCands cs i) :
    ∀ ch, cs[j]? = some ch → ch.atLeastSome = true := by
  intro ch hch
  simp only [nextCands, List.mem_filter, hch, Bool.and_eq_true, Bool.not_eq_true'] at h
  exact h.2.2.2

def TPost (N : List Name) (t : ST) (r : ST × Ents × MT) : Prop := skel r.1 = skel t ∧ Ch r.1 ∧ names r.2.1 = N
def TLPost (N : List Name) (cs : List ST) (r : List ST × Ents × MT) : Prop :=
  skelL r.1 = skelL cs ∧ ChL r.1 ∧ names r.2.1 = N

theorem getElem?_set_self' {α : Type} {l : List α} {i : Nat} {a b : α} (h : l[i]? = some a) : (l.set i b)[i]? = some b := by
  have hl : i < l.length := (List.getElem?_eq_some_iff.mp h).1
  simp [hl]

/-- replacing the selected child of an OrList by one with the same skeleton keeps skeleton and invariant of the node -/
theorem or_node_set {v : MT} {c : Int} {cs : List ST} {i : Nat} {ch ch' : ST}
    (hcl : ChL cs) (hco : ChoiceOK v c cs) (hch : cs[i]? = some ch) (hs : skel ch' = skel ch) (hc' : Ch ch') :
    skelL (cs.set i ch') = skelL cs ∧ ChL (cs.set i ch') ∧ ChoiceOK v c (cs.set i ch') :=
  ⟨skelL_set cs i ch ch' hch hs, ChL_set hcl hc', ChoiceOK_set hch hs hco⟩

theorem trynext_spec (N : List Name) : ∀ f : Nat,
    (∀ t es, WFv N (skel t) → Ch t → names es = N → t.isSimple = false → (t.isOr = true → t.atLeastSome = true) →
      Good (tryNext f t es) (TPost N t)) ∧
    (∀ cs start es, WFvL N (skelL cs) → ChL cs → names es = N → Good (tryBack f cs start es) (TLPost N cs)) ∧
    (∀ cs js es, WFvL N (skelL cs) → ChL cs → names es = N →
      (∀ j ∈ js, ∀ ch, cs[j]? = some ch → ch.atLeastSome = true) → Good (tryFwd f cs js es) (TLPost N cs)) := by
  -- `simp only [tryBack]` evaluates the regenerated constant `tryNextNullSafe`; with `false` the i = 0 branch is a crash
  intro f
  induction f with
  | zero =>
    exact ⟨fun _ _ _ _ _ _ _ => by simp [tryNext, Good], fun _ _ _ _ _ _ => by simp [tryBack, Good],
      fun _ _ _ _ _ _ _ => by simp [tryFwd, Good]⟩
  | succ f ih =>
    obtain ⟨ih1, ih2, ih3⟩ := ih
    refine ⟨?_, ?_, ?_⟩
    · intro t es hw hc hn hns hor
      cases t with
      | simple n v im => simp [ST.isSimple] at hns
      | mult j v c c1 k cs =>
        have hwl : WFvL N (skelL cs) := by simp only [skel, WFv] at hw; exact hw.2
        have hne : cs ≠ [] := (WFv_mult_elim hw).1
        have hcl : ChL cs := hc.1
        cases j with
        | or =>
          have hco : ChoiceOK v c cs := hc.2 rfl
          have hal : (ST.mult .or v c c1 k cs).atLeastSome = true := hor rfl
          have hv : MT.rank .some_ ≤ v.rank := atLeastSome_rank hal
          have hvu : v ≠ .unknown := by intro h; rw [h] at hv; simp [MT.rank] at hv
          simp only [tryNext]
          split
          · exact ⟨rfl, hc, hn⟩
          · rename_i hnle
            rcases hco.2 hv with h1 | ⟨i, ch, hir, hch, hcha⟩
            · exact absurd h1 hnle
            · simp only [hir, hch]
              have h1 : Good (if (!ch.isSimple) = true then tryNext f ch es else pure (ch, es, MT.nomore))
                  (fun r => skel r.1 = skel ch ∧ Ch r.1 ∧ names r.2.1 = N) := by
                split
                · rename_i hs
                  exact ih1 ch es (WFv_of_mem hwl hch) (Ch_of_mem hcl hch) hn (by simpa using hs) (fun _ => hcha)
                · exact ⟨rfl, Ch_of_mem hcl hch, hn⟩
              refine Good.ite_bind h1 ?_
              rintro ⟨ch1, es1, r⟩ ⟨hs1, hc1, hn1⟩
              dsimp only
              obtain ⟨hsk1, hcl1, hco1⟩ := or_node_set hcl hco hch hs1 hc1
              have hnode1 : TPost N (ST.mult .or v c c1 k cs) (ST.mult .or v c c1 k (cs.set i ch1), es1, MT.all) :=
                ⟨by simp only [skel]; rw [hsk1], ⟨hcl1, fun _ => hco1⟩, hn1⟩
              split
              · exact hnode1
              · split
                · exact ⟨hnode1.1, hnode1.2.1, hn1⟩
                · have hch1 : (cs.set i ch1)[i]? = some ch1 := getElem?_set_self' hch
                  have hw1 : WFv N (skel ch1) := by rw [hs1]; exact WFv_of_mem hwl hch
                  refine Good.bind ((unmark_spec N f).1 ch1 es1 hw1 hc1 hn1) ?_
                  rintro ⟨ch2, es2⟩ ⟨hs2, hc2, hn2⟩
                  dsimp only
                  obtain ⟨hsk2, hcl2, hco2⟩ := or_node_set hcl1 hco1 hch1 hs2 hc2
                  have hsk : skelL ((cs.set i ch1).set i ch2) = skelL cs := by rw [hsk2, hsk1]
                  split
                  · refine ⟨by simp only [skel]; rw [hsk], ⟨hcl2, fun _ => ⟨fun h => absurd h hvu, fun _ => Or.inl rfl⟩⟩, hn2⟩
                  · have hwn : WFv N (skel (ST.mult .or v (c + 1) c1 k ((cs.set i ch1).set i ch2))) := by
                      simp only [skel]; rw [hsk]; exact hw
                    refine Good.bind ((accept_spec N f).1 _ es2 hwn hcl2 hn2 hal) ?_
                    rintro ⟨node, es3, b⟩ ⟨hsn, hcn, hnn, _⟩
                    have hsk' : skel node = skel (ST.mult .or v c c1 k cs) := by
                      rw [hsn]; simp only [skel]; rw [hsk]
                    dsimp only
                    split
                    · exact ⟨hsk', hcn, hnn⟩
                    · exact ⟨hsk', hcn, hnn⟩
        | and =>
          have hemp : cs.isEmpty = false := by cases cs with | nil => exact absurd rfl hne | cons => rfl
          simp only [tryNext, hemp, Bool.false_eq_true, if_false]
          refine Good.bind (ih2 cs (cs.length - 1) es hwl hcl hn) ?_
          rintro ⟨cs', es', r⟩ ⟨hs, hc', hn'⟩
          exact ⟨by simp only [skel]; rw [hs], ⟨hc', fun h => by cases h⟩, hn'⟩
        | andor =>
          have hemp : cs.isEmpty = false := by cases cs with | nil => exact absurd rfl hne | cons => rfl
          simp only [tryNext, hemp, Bool.false_eq_true, if_false]
          refine Good.bind (ih2 cs (cs.length - 1) es hwl hcl hn) ?_
          rintro ⟨cs', es', r⟩ ⟨hs, hc', hn'⟩
          exact ⟨by simp only [skel]; rw [hs], ⟨hc', fun h => by cases h⟩, hn'⟩
    · intro cs start es hw hc hn
      simp only [tryBack]
      split
      · exact ⟨rfl, hc, hn⟩
      · rename_i i hi
        obtain ⟨ch, hch, hns, hal⟩ := firstCand_spec cs start i hi
        simp only [hch]
        refine Good.bind (ih1 ch es (WFv_of_mem hw hch) (Ch_of_mem hc hch) hn hns (fun _ => hal)) ?_
        rintro ⟨ch', es', r⟩ ⟨hs, hc', hn'⟩
        dsimp only
        have hsk : skelL (cs.set i ch') = skelL cs := skelL_set cs i ch ch' hch hs
        have hcl : ChL (cs.set i ch') := ChL_set hc hc'
        have hwl : WFvL N (skelL (cs.set i ch')) := by rw [hsk]; exact hw
        split
        · exact ⟨hsk, hcl, hn'⟩
        · split
          · refine Good.mono (ih3 (cs.set i ch') _ es' hwl hcl hn' (fun j hj => nextCands_spec _ i j hj)) ?_
            rintro ⟨a, b, c⟩ ⟨h1, h2, h3⟩
            exact ⟨by rw [h1, hsk], h2, h3⟩
          · split
            · exact ⟨hsk, hcl, hn'⟩
            · refine Good.mono (ih2 (cs.set i ch') (i - 1) es' hwl hcl hn') ?_
              rintro ⟨a, b, c⟩ ⟨h1, h2, h3⟩
              exact ⟨by rw [h1, hsk], h2, h3⟩
    · intro cs js es hw hc hn hjs
      cases js with
      | nil => simp only [tryFwd]; exact ⟨rfl, hc, hn⟩
      | cons j js =>
        simp only [tryFwd]
        have hjs' : ∀ j' ∈ js, ∀ ch, cs[j']? = some ch → ch.atLeastSome = true :=
          fun j' hj' => hjs j' (List.mem_cons_of_mem _ hj')
        split
        · exact ih3 cs js es hw hc hn hjs'
        · rename_i ch hch
          have hal := hjs j (by simp) ch hch
          refine Good.bind ((accept_spec N f).1 ch es (WFv_of_mem hw hch) (Ch_of_mem hc hch).kids hn hal) ?_
          rintro ⟨ch', es', b⟩ ⟨hs, hc', hn', _⟩
          dsimp only
          have hsk : skelL (cs.set j ch') = skelL cs := skelL_set cs j ch ch' hch hs
          have hcl : ChL (cs.set j ch') := ChL_set hc hc'
          have hwl : WFvL N (skelL (cs.set j ch')) := by rw [hsk]; exact hw
          split
          · exact ⟨hsk, hcl, hn'⟩
          · refine Good.mono (ih3 (cs.set j ch') js es' hwl hcl hn' ?_) ?_
            · intro j2 hj2 x hx
              by_cases hjj : j = j2
              · subst hjj
                rw [getElem?_set_self' hch] at hx
                cases hx
                rw [atLeastSome_of_skel hs]; exact hal
              · rw [List.getElem?_set_ne hjj] at hx
                exact hjs' j2 hj2 x hx
            · rintro ⟨a, b', c⟩ ⟨h1, h2, h3⟩
              exact ⟨by rw [h1, hsk], h2, h3⟩

end StepModel.Complex.Match

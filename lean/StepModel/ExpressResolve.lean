import StepModel.ExpressLex
import StepModel.Generated.ResolveGen
/-!
# `Express.Resolve` — declaration-level verdict of the EXPRESS front end

Models, for ONE schema per file (no USE/REFERENCE), what `EXPRESSparse` + `EXPRESSresolve` report:

* parse time: `DICTdefine` duplicates (declarations of a schema share one dictionary; attributes per entity;
  items per enumeration — `DICT_define`), a syntax error (`%syntax_error` ⇒ `SYNTAX`, severity EXIT), the lexical
  diagnostics of `Express.Lex`;
* pass 3 (`SCOPEresolve_subsupers`): `ENTITYresolve_supertypes` (UNKNOWN_SUPERTYPE), `ENTITYresolve_subtypes`
  (UNKNOWN_SUBTYPE, severity EXIT), `TYPEresolve` of type declarations (UNDEFINED_TYPE / NOT_A_TYPE);
* pass 4 (`SCOPEresolve_types`): select cycles (`TYPE_check_select_cyclicity`), `ENTITYcheck_missing_supertypes`,
  attribute types, INVERSE checks (`VAR_resolve_types`), sub/super cycles (`ENTITY_check_subsuper_cyclicity`);
* pass 5: `ENTITYresolve_expressions` (OVERLOADED_ATTR via `ENTITYget_named_attribute`), function calls in domain
  rules (UNDEFINED_FUNC + the MISSING_SELF it entails, WRONG_ARG_COUNT), attribute references `SELF.x`
  (UNKNOWN_ATTR_IN_ENTITY), REAL literals below FLT_MIN (WARN_SMALL_REAL, reported while parsing).

All passes run even when an earlier one reported errors (as in `EXPRESSresolve`); only an EXIT-severity diagnostic
stops the run.  The order in which the code visits declarations inside a pass is the hash-table order of `DICTdo`
and is NOT modelled: the model lists diagnostics in declaration order and consumers compare multisets.  The order of
an entity's run-time `subtypes` list (explicit `SUPERTYPE OF` members interleaved with implicitly added ones in
hash order) is a parameter of the cycle search; the theorems hold for every order.

The two cycle searches share one function, `dfs`; whether it *returns* or *continues* when it meets an
already-visited node is the regenerated constant `ResolveGen.visitedReturns…`.
-/
namespace StepModel.Express.Resolve
open StepModel.Generated
open StepModel.Express.Diag (Arg Diag Via)

/-! ## declaration-level syntax -/

inductive TypeRef
  | simple
  | named (n : String) (line : Nat)
  | aggr (base : TypeRef)
  deriving Repr, DecidableEq

def TypeRef.core : TypeRef → TypeRef
  | .aggr b => b.core
  | t => t

structure Attr where
  name : String
  line : Nat
  ty : TypeRef
  inverseFor : Option (String × Nat) := none     -- `INVERSE a : ty FOR name` (name, line)
  redeclOf : Option String := none               -- `SELF\\sup.name : ty` — the supertype named in the redeclaration
  deriving Repr, DecidableEq

/-- an actual parameter of a call -/
inductive CallArg
  | lit                                           -- a literal
  | bare (n : String)                             -- a bare identifier
  | selfAttr (a : String)                         -- `SELF.a`
  deriving Repr, DecidableEq

/-- something inside a domain rule -/
inductive RuleItem
  | call (fn : String) (argc : Nat)               -- `fn(SELF.…, …)`, SELF occurs only inside the arguments
  | selfAttr (attr : String)                      -- `SELF.attr`
  | bareAttr (attr : String)                      -- `attr` (no SELF): found through `VARfind` = own and inherited attributes
  | badGroup (attr : String)                      -- `SELF.x\ent.attr` with `x` of a non-entity type: group reference of an unusual expression
  | smallReal (shown : String)                    -- a REAL literal with |x| ≤ FLT_MIN; `shown` = its `%f` rendering
  | dot (attr field : String) (indexed : Bool)    -- `SELF.attr.field` / `SELF.attr[1].field`: attribute reference on an operand of any type
  | callWith (fn : String) (args : List CallArg)  -- `fn(a1, …, an)`: the arguments are resolved left to right until one fails
  deriving Repr, DecidableEq

/-- an expression with the line it is reported on.  `isWhere`: it is a domain (WHERE) rule of an entity or type — the only
    context in which `WHEREresolve( …, need_self )` demands a reference to SELF or an attribute; `false` for a DERIVE
    initialiser, an aggregate bound of an attribute type, a constant's value, a statement of a function body, a WHERE clause of a
    global RULE -/
structure Rule where
  label : String
  line : Nat
  items : List RuleItem
  isWhere : Bool := true
  deriving Repr, DecidableEq

/-- one attribute reference of a UNIQUE rule: `attr` or `SELF\\qual.attr` -/
structure UniqueItem where
  label : String
  line : Nat
  qual : Option String
  attr : String
  deriving Repr, DecidableEq

structure Entity where
  name : String
  line : Nat
  supers : List (String × Nat)       -- `SUBTYPE OF ( … )`: name, line of the symbol
  subs : List String                 -- entity references of the `SUPERTYPE OF` expression, left to right
  attrs : List Attr
  rules : List Rule
  uniques : List UniqueItem := []
  /-- a copy of an entity of ANOTHER schema of the run, present (under the name `<schema>.<entity>`) so that the inheritance
      look-ups of this schema's entities can walk through it; the passes do not visit it (see `linked`) -/
  foreign : Bool := false
  deriving Repr, DecidableEq

inductive TypeBody
  | ref (t : TypeRef)
  | enum (items : List (String × Nat))
  | select (items : List (String × Nat))
  deriving Repr, DecidableEq

structure TypeDecl where
  name : String
  line : Nat
  body : TypeBody
  rules : List Rule := []            -- WHERE rules of the type (`fn(SELF, …) > 0`)
  deriving Repr, DecidableEq

/-- what a schema-level algorithm-like declaration is: all three enter the schema's dictionary under their name; only a
    FUNCTION can be called -/
inductive AlgKind | function | rule | constant
  deriving Repr, DecidableEq

/-- FUNCTION / global RULE / CONSTANT: `locals` = formal parameters and local variables (for a RULE: the entities it is FOR),
    `body` = the expressions of its statements (for a constant: its value), each with its line -/
structure Func where
  name : String
  line : Nat
  nparams : Nat
  kind : AlgKind := .function
  locals : List String := []
  body : List Rule := []
  deriving Repr, DecidableEq

inductive Decl
  | entity (e : Entity)
  | type (t : TypeDecl)
  | func (f : Func)
  | syntaxError (scopeKind scopeName : String) (line : Nat)
  deriving Repr, DecidableEq

/-- one item of a partial interface clause: `old [AS new]` -/
structure Item where
  old : String
  new : Option String
  line : Nat
  deriving Repr, DecidableEq

def Item.visibleName (i : Item) : String := i.new.getD i.old

inductive IfaceKind | use | ref
  deriving Repr, DecidableEq

/-- `USE FROM schema [( items )]` / `REFERENCE FROM schema [( items )]`; `items = none` is the whole-schema form -/
structure Iface where
  kind : IfaceKind
  schema : String
  line : Nat
  items : Option (List Item)
  deriving Repr, DecidableEq

structure Schema where
  name : String
  line : Nat
  decls : List Decl
  ifaces : List Iface := []
  /-- the file the schema was read from when it is not the file given on the command line (found through the current
      directory / EXPRESS_PATH by `EXPRESSfind_schema` while pass 1 connects an interface clause) -/
  file : Option String := none
  deriving Repr, DecidableEq

/-- one input file: path and its schemas in text order -/
structure File where
  path : String
  schemas : List Schema
  /-- the order in which `DICTdo` delivers the schemas (hash order; a parameter — see `C04_import_order_independent`) -/
  order : List String := []
  deriving Repr, DecidableEq

/-! ## look-up -/

def Schema.entities (s : Schema) : List Entity := s.decls.filterMap fun | .entity e => some e | _ => none
def Schema.types (s : Schema) : List TypeDecl := s.decls.filterMap fun | .type t => some t | _ => none
/-- the callable ones -/
def Schema.funcs (s : Schema) : List Func :=
  s.decls.filterMap fun | .func f => if f.kind = .function then some f else none | _ => none

def findEntity (s : Schema) (n : String) : Option Entity := s.entities.find? (·.name = n)
def findType (s : Schema) (n : String) : Option TypeDecl := s.types.find? (·.name = n)
def findFunc (s : Schema) (n : String) : Option Func := s.funcs.find? (·.name = n)
def isEntity (s : Schema) (n : String) : Bool := (findEntity s n).isSome

/-- built-in functions and their parameter counts (`BUILTINSinitialize`), regenerated -/
def builtinArity (n : String) : Option Nat := (ResolveGen.builtins.find? (·.1 = n.toUpper)).map (·.2)

def sev (code : Nat) : Nat := Diag.severityOf code
def isErrorCode (code : Nat) : Bool := decide (sev code ≥ LibErrors.SEVERITY_ERROR)
def hasError (ds : List Diag) : Bool := ds.any fun d => isErrorCode d.code

/-- the name an entity was declared under: a copy from another schema is called `<schema>.<entity>` (identifiers have no `.`) -/
def declName (n : String) : String := ((n.splitOn ".").getLast?).getD n

def mk (path : String) (code line : Nat) (args : List Arg) : Diag := ⟨code, path.toList, line, args, .symbol⟩
def sArg (s : String) : Arg := .str s.toList


/-! ## interfaces (USE / REFERENCE), pass 1 and pass 2 of `EXPRESSresolve` -/

inductive Kind | entity | type | func
  deriving Repr, DecidableEq

/-- a declared object: home schema, declared name, kind -/
structure Obj where
  schema : String
  name : String
  kind : Kind
  deriving Repr, DecidableEq

def findSchema (f : File) (n : String) : Option Schema := f.schemas.find? (·.name = n)

/-- the file a schema's symbols carry -/
def fileOf (f : File) (s : Schema) : String := s.file.getD f.path

/-- `DICTlookup( schema->symbol_table, name )`: the first declaration of that name -/
def ownObj (s : Schema) (n : String) : Option Obj :=
  s.decls.findSome? fun
    | .entity e => if e.name = n then some ⟨s.name, n, .entity⟩ else none
    | .type t => if t.name = n then some ⟨s.name, n, .type⟩ else none
    | .func fn => if fn.name = n then some ⟨s.name, n, .func⟩ else none
    | .syntaxError .. => none

/-- partial USE items with the schema they import from, in clause order (`uselist`) -/
def useItems (s : Schema) : List (String × Item) :=
  s.ifaces.flatMap fun i => match i.kind, i.items with
    | .use, some its => its.map fun it => (i.schema, it)
    | _, _ => []

def refItems (s : Schema) : List (String × Item) :=
  s.ifaces.flatMap fun i => match i.kind, i.items with
    | .ref, some its => its.map fun it => (i.schema, it)
    | _, _ => []

def fullUses (s : Schema) : List String :=
  s.ifaces.filterMap fun i => match i.kind, i.items with | .use, none => some i.schema | _, _ => none

def fullRefs (s : Schema) : List String :=
  s.ifaces.filterMap fun i => match i.kind, i.items with | .ref, none => some i.schema | _, _ => none

/-- a schema one of whose interface clauses names an undefined schema is marked RESOLVE_FAILED in pass 1 and skipped
    by every later pass (`is_not_resolvable`) -/
def resolvable (f : File) (s : Schema) : Bool := s.ifaces.all fun i => (findSchema f i.schema).isSome

def firstSome {α β : Type} (l : List α) (g : α → Option β) : Option β := l.findSome? g

/-- an entry of `T`'s `usedict` under `n`: the first USE item with that visible name that resolved -/
def viaDict (rec : String → String → Option Obj) (t : Schema) (n : String) : Option Obj :=
  firstSome (useItems t) (fun x => if x.2.visibleName = n then rec x.1 x.2.old else none)

/-- the fall-back scan of `T`'s `uselist`: the first item with that visible name, resolved on demand -/
def viaList (rec : String → String → Option Obj) (t : Schema) (n : String) : Option Obj :=
  ((useItems t).find? (fun x => x.2.visibleName = n)).bind fun x => rec x.1 x.2.old

/-- one level of `SCOPEfind_for_rename( T, n )`; `rec` is the recursive call -/
def exportStep (f : File) (fb : Bool) (processed : String → Bool) (rec : String → String → Option Obj)
    (T n : String) : Option Obj :=
  match findSchema f T with
  | none => none
  | some t =>
    (ownObj t n).or <| (firstSome (fullUses t) (fun U => rec U n)).or <|
      (if processed T then viaDict rec t n else none).or (if fb then viaList rec t n else none)

/-- `SCOPEfind_for_rename( T, name )`: what schema `T` can hand out under `name` — its own declaration, what a fully
    USE'd schema hands out, an entry of its `usedict` (exists once `T` itself went through pass 2: `processed T`),
    and — when the code has the fall-back scan (`fb`, regenerated) — a not-yet-processed item of its `uselist`,
    resolved on demand.  `none` also when the recursion exceeds `fuel` (cyclic clauses). -/
def exportOf (f : File) (fb : Bool) (processed : String → Bool) : Nat → String → String → Option Obj
  | 0 => fun _ _ => none
  | fuel + 1 => exportStep f fb processed (exportOf f fb processed fuel)

def importFuel (f : File) : Nat := f.schemas.length + (f.schemas.map fun s => s.ifaces.length).sum + 2

/-- the schemas pass 2 has finished before it reaches `S` -/
def processedBefore (f : File) (S : String) : String → Bool :=
  let ord := if f.order.isEmpty then f.schemas.map (·.name) else f.order
  fun T => T ∈ ord.takeWhile (· ≠ S)

/-- `SCHEMAdefine_use` / `SCHEMAdefine_reference` over the items that resolved: a second item under the same visible
    name is a duplicate unless it is the same object -/
def aliasDups (path : String) : List (String × Nat × Obj) → List (String × Nat × Obj) → List Diag
  | [], _ => []
  | (n, l, o) :: rest, seen =>
    match seen.find? (·.1 = n) with
    | some (_, l0, o0) =>
      if o0 = o then aliasDups path rest seen
      else mk path LibErrors.DUPLICATE_DECL l [sArg n, .int l0] :: aliasDups path rest seen
    | none => aliasDups path rest (seen ++ [(n, l, o)])

/-- pass 1 for one schema: `connect_lists` reports every item of a partial clause, `connect_schema_lists` every
    whole-schema clause, whose schema does not exist -/
def pass1 (f : File) (s : Schema) : List Diag :=
  s.ifaces.flatMap fun i =>
    if (findSchema f i.schema).isSome then []
    else match i.items with
      | some its => its.map fun _ => mk (fileOf f s) LibErrors.UNDEFINED_SCHEMA i.line [sArg i.schema]
      | none => [mk (fileOf f s) LibErrors.UNDEFINED_SCHEMA i.line [sArg i.schema]]

/-- the items of one list that resolve, with the object they resolve to -/
def resolvedItems (f : File) (fb : Bool) (processed : String → Bool) (items : List (String × Item)) : List (String × Nat × Obj) :=
  items.filterMap fun (src, it) =>
    (exportOf f fb processed (importFuel f) src it.old).map fun o => (it.visibleName, it.line, o)

/-- pass 2 for one schema: `RENAMEresolve` of the USE items, then of the REFERENCE items -/
def pass2 (f : File) (fb : Bool) (s : Schema) : List Diag :=
  let pr := processedBefore f s.name
  let miss := fun (items : List (String × Item)) => items.filterMap fun (src, it) =>
    match exportOf f fb pr (importFuel f) src it.old with
    | some _ => none
    | none => some (mk (fileOf f s) LibErrors.REF_NONEXISTENT it.line [sArg it.old, sArg src])
  miss (useItems s) ++ aliasDups (fileOf f s) (resolvedItems f fb pr (useItems s)) [] ++
  miss (refItems s) ++ aliasDups (fileOf f s) (resolvedItems f fb pr (refItems s)) []

/-- `SCOPE_find( S, name, ENTITY|TYPE )` after pass 2: own declaration, fully USE'd schemas (recursively, with
    everything *they* see), `usedict`, fully REFERENCE'd schemas (own declarations only), `refdict` -/
def visible (f : File) (fb : Bool) : Nat → String → String → Option Obj
  | 0, _, _ => none
  | fuel + 1, S, n =>
    match findSchema f S with
    | none => none
    | some s =>
      match ownObj s n with
      | some o => some o
      | none =>
        match firstSome (fullUses s) (fun U => visible f fb fuel U n) with
        | some o => some o
        | none =>
          let all := fun (_ : String) => true
          match (resolvedItems f fb all (useItems s)).find? (·.1 = n) with
          | some (_, _, o) => some o
          | none =>
            match firstSome (fullRefs s) (fun R => (findSchema f R).bind fun r => ownObj r n) with
            | some o => some o
            | none => ((resolvedItems f fb all (refItems s)).find? (·.1 = n)).map (·.2.2)

/-- what the names that are not declared in `s` itself denote inside `s` -/
structure Env where
  foreign : String → Option Kind
  /-- declared name and line of the foreign object a name denotes (for SUPERTYPE_RESOLVE / SUBTYPE_RESOLVE) -/
  foreignDecl : String → Option (String × Nat) := fun _ => none

/-- line of the declaration of an object in its home schema -/
def objLine (f : File) (o : Obj) : Nat :=
  ((findSchema f o.schema).bind fun s => s.decls.findSome? fun
      | .entity e => if e.name = o.name then some e.line else none
      | .type t => if t.name = o.name then some t.line else none
      | .func fn => if fn.name = o.name then some fn.line else none
      | .syntaxError .. => none).getD 0

def envOf (f : File) (fb : Bool) (s : Schema) : Env :=
  let look := fun n => match ownObj s n with
    | some _ => none
    | none => visible f fb (importFuel f) s.name n
  ⟨fun n => (look n).map (·.kind), fun n => (look n).map fun o => (o.name, objLine f o)⟩

def noEnv : Env := ⟨fun _ => none, fun _ => none⟩

/-- `SCOPEfind( …, SCOPE_FIND_ENTITY )` succeeds -/
def isEnt (env : Env) (s : Schema) (n : String) : Bool := isEntity s n || env.foreign n = some .entity

/-! ## parse time -/

/-- the name / line / kind a declaration enters the schema's dictionary with -/
def declKey : Decl → Option (String × Nat)
  | .entity e => some (e.name, e.line)
  | .type t => some (t.name, t.line)
  | .func f => some (f.name, f.line)
  | .syntaxError .. => none

/-- `DICTdefine` over a sequence of (name, line): every later occurrence of a name already present is reported
    against the FIRST one (the failed insertion leaves the old element in place) -/
def dupDiags (path : String) : List (String × Nat) → List (String × Nat) → List Diag
  | [], _ => []
  | (n, l) :: rest, seen =>
    match seen.find? (·.1 = n) with
    | some (_, l0) => mk path LibErrors.DUPLICATE_DECL l [sArg n, .int l0] :: dupDiags path rest seen
    | none => dupDiags path rest (seen ++ [(n, l)])

/-- diagnostics produced while one declaration is parsed (text order) -/
def declParseDiags (path : String) : Decl → List Diag
  | .entity e =>
    dupDiags path (e.attrs.map fun a => (a.name, a.line)) [] ++
    (e.rules.flatMap fun r => r.items.filterMap fun
      | .smallReal shown => some (mk path LibErrors.WARN_SMALL_REAL r.line [.real shown.toList])
      | _ => none)
  | .type t =>
    match t.body with
    | .enum items => dupDiags path items []
    | _ => []
  | _ => []

/-- parse-time diagnostics of a schema body up to (and including) the first syntax error; the flag says whether the
    run was cut there -/
def parseDeclsFrom (path : String) : List Decl → List (String × Nat) → List Diag × Bool
  | [], _ => ([], false)
  | .syntaxError k n l :: _, _ => ([mk path LibErrors.SYNTAX l [.str "Syntax error".toList, sArg k, sArg n]], true)
  | d :: ds, seen =>
    let own := declParseDiags path d
    match declKey d with
    | some (n, l) =>
      (match seen.find? (·.1 = n) with
       | some (_, l0) =>
         let r := parseDeclsFrom path ds seen
         (mk path LibErrors.DUPLICATE_DECL l [sArg n, .int l0] :: own ++ r.1, r.2)
       | none =>
         let r := parseDeclsFrom path ds (seen ++ [(n, l)])
         (own ++ r.1, r.2))
    | none =>
      let r := parseDeclsFrom path ds seen
      (own ++ r.1, r.2)

def parseSchemas (path : String) : List Schema → List Diag
  | [] => []
  | s :: ss =>
    let r := parseDeclsFrom path s.decls []
    if r.2 then r.1 else r.1 ++ parseSchemas path ss

def parseDiags (f : File) : List Diag := parseSchemas f.path (f.schemas.filter (·.file.isNone))

/-- parse-time diagnostics of the schema files pulled in by interface clauses (reported while pass 1 runs, under their
    own file name) -/
def externalParseDiags (f : File) : List Diag :=
  (f.schemas.filter (·.file.isSome)).flatMap fun s => (parseDeclsFrom (fileOf f s) s.decls []).1

/-! ## the cycle search shared by `ENTITY_check_subsuper_cyclicity` and `TYPE_check_select_cyclicity` -/

/-- result of examining a sibling list -/
structure Dfs where
  found : Bool
  visited : List String
  trail : List String        -- the nodes named by the CONTINUATION messages, innermost first
  deriving Repr, DecidableEq

/-- the sibling loop: `rec` is the recursive call one level down -/
def dfsList (ret : Bool) (e : String) (g : String → List String)
    (rec : List String → List String → Option Dfs) : List String → List String → Option Dfs
  | [], vis => some ⟨false, vis, []⟩
  | c :: cs, vis =>
    if c = e then some ⟨true, vis, []⟩
    else if c ∈ vis then
      (if ret then some ⟨false, vis, []⟩ else dfsList ret e g rec cs vis)
    else
      match rec (g c) (c :: vis) with
      | none => none
      | some r => if r.found then some ⟨true, r.visited, r.trail ++ [c]⟩ else dfsList ret e g rec cs r.visited

/-- `fuel` bounds the recursion depth (each level marks a new node); `none` = out of fuel -/
def dfs (ret : Bool) (e : String) (g : String → List String) : Nat → List String → List String → Option Dfs
  | 0 => fun _ _ => none
  | n + 1 => dfsList ret e g (dfs ret e g n)

/-! ## resolve time -/

/-- run-time `subtypes` list of `e` in the canonical order: explicit members (found, first occurrence), then
    entities that name `e` in their `SUBTYPE OF` and are not yet listed, in declaration order -/
def subtypesOf (s : Schema) (e : Entity) : List String :=
  let explicit := (e.subs.filter (isEntity s)).eraseDups
  explicit ++ ((s.entities.filter fun x => x.supers.any (·.1 = e.name)).map (·.name)).filter (· ∉ explicit)

def subGraph (s : Schema) (n : String) : List String :=
  match findEntity s n with
  | some e => subtypesOf s e
  | none => []

/-- resolved `supertypes` list -/
def supersOf (s : Schema) (e : Entity) : List String := (e.supers.map (·.1)).filter (isEntity s)

/-- select items that are themselves select types -/
def selectGraph (s : Schema) (n : String) : List String :=
  match findType s n with
  | some ⟨_, _, .select items, _⟩ => (items.map (·.1)).filter fun i =>
      match findType s i with | some ⟨_, _, .select _, _⟩ => true | _ => false
  | _ => []

def lineOfEntity (s : Schema) (n : String) : Nat := ((findEntity s n).map (·.line)).getD 0
def lineOfType (s : Schema) (n : String) : Nat := ((findType s n).map (·.line)).getD 0

/-- outcome of one pass: diagnostics, or the C recursion does not terminate (stack overflow) -/
structure Pass where
  diags : List Diag
  diverges : Bool := false
  deriving Repr

/-- `TYPEresolve` of a reference: UNDEFINED_TYPE / NOT_A_TYPE -/
def typeRefDiags (path : String) (env : Env) (s : Schema) : TypeRef → List Diag
  | .simple => []
  | .aggr b => typeRefDiags path env s b
  | .named n l =>
    if (findType s n).isSome || isEntity s n then []
    else if (findFunc s n).isSome then [mk path LibErrors.NOT_A_TYPE l [sArg n, .str "function".toList]]
    else match env.foreign n with
      | some .func => [mk path LibErrors.NOT_A_TYPE l [sArg n, .str "function".toList]]
      | some _ => []
      | none => [mk path LibErrors.UNDEFINED_TYPE l [sArg n]]

/-- the arguments `ENTITYresolve_subtype_expression` passes with SUBTYPE_RESOLVE ("Subtype %s resolves to non-entity %s on
    line %d."): all three, or — regenerated `subtypeResolvePassesName = false` — only the name and the line, so that the second
    `%s` consumes the line number as a pointer -/
def subtypeResolveArgs (n dn : String) (dl : Nat) : List Arg :=
  if ResolveGen.subtypeResolvePassesName then [sArg n, sArg dn, .int dl] else [sArg n, .int dl]

/-- `ENTITYresolve_supertypes` + `ENTITYresolve_subtypes` for one entity.  A name imported through an interface clause is
    found whatever its kind (`SCOPE_find` filters own declarations only): a non-entity gives SUPERTYPE_RESOLVE /
    SUBTYPE_RESOLVE instead of "unknown" -/
def superSubDiags (path : String) (env : Env) (s : Schema) (e : Entity) : List Diag :=
  (e.supers.filterMap fun x =>
    if isEnt env s x.1 then none
    else match env.foreignDecl x.1 with
      | some q => some (mk path LibErrors.SUPERTYPE_RESOLVE x.2 [sArg x.1, .int q.2])
      | none => some (mk path LibErrors.UNKNOWN_SUPERTYPE x.2 [sArg x.1, sArg e.name])) ++
  (e.subs.filterMap fun n =>
    if isEnt env s n then none
    else match env.foreignDecl n with
      | some q => some (mk path LibErrors.SUBTYPE_RESOLVE e.line (subtypeResolveArgs n q.1 q.2))
      | none => some (mk path LibErrors.UNKNOWN_SUBTYPE e.line [sArg n, sArg e.name]))

/-- `TYPEresolve` of one type declaration -/
def typeDeclDiags (path : String) (env : Env) (s : Schema) (t : TypeDecl) : List Diag :=
  match t.body with
  | .ref r =>
    -- `TYPE t = t;` / `TYPE t = LIST OF t;` (longer cycles are reported in a hash-order dependent way: not modelled)
    (match r.core with
     | .named n _ => if n = t.name then [mk path LibErrors.CIRCULAR_REFERENCE t.line [sArg n]] else []
     | _ => []) ++
    typeRefDiags path env s r ++
    -- `TYPE t = e;` with `e` an entity (the check sits behind `ERRORis_enabled( TYPE_IS_ENTITY )`, always on)
    (match r with
     | .named n _ => if isEnt env s n then [mk path LibErrors.TYPE_IS_ENTITY t.line [sArg n]] else []
     | _ => [])
  | .select items => items.flatMap fun x => typeRefDiags path env s (.named x.1 x.2)
  | .enum _ => []

def pass3 (path : String) (env : Env) (s : Schema) : List Diag :=
  s.decls.flatMap fun
    | .entity e => if e.foreign then [] else superSubDiags path env s e
    | .type t => typeDeclDiags path env s t
    | _ => []

/-- the messages of one cycle search started at `start` -/
def cycleDiags (path : String) (loopCode contCode : Nat) (lineOf : String → Nat) (start : String) : Option Dfs → List Diag
  | some r => if r.found then
      mk path loopCode (lineOf start) [sArg start] :: r.trail.map (fun n => mk path contCode (lineOf n) [sArg (declName n)])
    else []
  | none => []

def inverseDiags (path : String) (s : Schema) (a : Attr) (hasAttr : String → String → Bool := fun _ _ => false) : List Diag :=
  match a.inverseFor with
  | none => []
  | some (attrName, l) =>
    match a.ty.core with
    | .named n _ =>
      (match findEntity s n with
       | some target =>
         -- VARfind( entity, name, 1 ): own attributes and inherited ones (never those of a subtype)
         if target.attrs.any (·.name = attrName) || hasAttr target.name attrName then []
         else [mk path LibErrors.INVERSE_BAD_ATTR l [sArg attrName, sArg target.name]]
       | none => if (findType s n).isSome then [mk path LibErrors.INVERSE_BAD_ENTITY a.line [sArg attrName]] else [])
    | _ => [mk path LibErrors.INVERSE_BAD_ENTITY a.line [sArg attrName]]

/-- `ENTITYget_named_attribute( entity, name )`: own attributes, then the supertypes, depth-first.
    `none` = the C recursion does not terminate within `fuel` levels (cyclic supertypes, name absent) -/
def namedAttr (s : Schema) (name : String) : Nat → String → Option Bool
  | 0, _ => none
  | fuel + 1, en =>
    match findEntity s en with
    | none => some false
    | some e =>
      if e.attrs.any (·.name = name) then some true
      else (supersOf s e).foldl (fun acc sup =>
        match acc with
        | none => none
        | some true => some true
        | some false => namedAttr s name fuel sup) (some false)

/-- resolved supertypes by name -/
def superGraph (s : Schema) (n : String) : List String :=
  match findEntity s n with
  | some e => supersOf s e
  | none => []

/-- append the elements of the second list that are not there yet, one by one -/
def addNew (acc : List String) : List String → List String
  | [] => acc
  | x :: xs => if x ∈ acc then addNew acc xs else addNew (acc ++ [x]) xs

/-- the nodes reachable from `acc` in graph `g` (`acc` included), `fuel` rounds — for `g = superGraph s` what the marked search
    `ENTITY_find_inherited_attribute` (one visit per entity and search) gets to see, cyclic supertypes or not -/
def upClosure (g : String → List String) : Nat → List String → List String
  | 0, acc => acc
  | k + 1, acc =>
    let acc' := addNew acc (acc.flatMap g)
    if acc'.length = acc.length then acc else upClosure g k acc'

def ownsAttr (s : Schema) (an : String) (en : String) : Bool :=
  match findEntity s en with
  | some e => e.attrs.any (·.name = an)
  | none => false

/-- `VARfind( entity, name, … )` = `ENTITYfind_inherited_attribute( entity, name, 0 )`: some entity among `en` and its
    ancestors declares the attribute (terminates on cyclic supertypes, unlike `ENTITYget_named_attribute`) -/
def varFind (s : Schema) (an : String) (fuel : Nat) (en : String) : Bool :=
  (upClosure (superGraph s) fuel [en]).any (ownsAttr s an)

/-- sub/supertype links in both directions -/
def linkGraph (s : Schema) (n : String) : List String := superGraph s n ++ subGraph s n

/-- `ENTITYfind_inherited_attribute( e, name, &down )` (the search behind `x.name`): the entity, its supertypes and — `down` — the
    subtypes of everything it visits, one visit per entity: some entity connected to `en` through sub/supertype links declares it -/
def linkFind (s : Schema) (field : String) (fuel : Nat) (en : String) : Bool :=
  (upClosure (linkGraph s) fuel [en]).any (ownsAttr s field)

/-- is the named type an enumeration (also behind renamings `TYPE t2 = t1`) -/
def isEnumType (s : Schema) : Nat → String → Bool
  | 0, _ => false
  | k + 1, n =>
    match findType s n with
    | some td =>
      (match td.body with
       | .enum _ => true
       | .ref (.named m _) => isEnumType s k m
       | _ => false)
    | none => false

/-- what `op1type->u.type->body->type` is for the operand of `.` -/
inductive OperandKind
  | simple
  | aggregate
  | entity (n : String)
  | enumeration (tn : String) (items : List (String × Nat))
  | select (items : List (String × Nat))
  | unknown
  deriving Repr, DecidableEq

def operandKind (s : Schema) : Nat → TypeRef → OperandKind
  | _, .simple => .simple
  | _, .aggr _ => .aggregate
  | 0, .named _ _ => .unknown
  | k + 1, .named n _ =>
    if isEntity s n then .entity n
    else match findType s n with
      | some td =>
        (match td.body with
         | .select items => .select items
         | .enum items => .enumeration n items
         | .ref r =>
           (match operandKind s k r with
            | .enumeration _ _ => .enumeration n []     -- a renamed enumeration: reported under the new name, has no items of its own
            | kd => kd))
      | none => .unknown

/-- `EXP_resolve_op_dot_fuzzy` found the name in some member of the select (entities: `linkFind`; enumerations: an item; nested
    selects: their members) -/
def selectHas (s : Schema) (field : String) : Nat → List (String × Nat) → Bool
  | 0, _ => false
  | k + 1, items => items.any fun i =>
      match operandKind s (s.decls.length + 1) (.named i.1 i.2) with
      | .entity n => linkFind s field (s.decls.length + 1) n
      | .enumeration _ its => its.any (·.1 = field)
      | .select its => selectHas s field k its
      | _ => false

/-- the type of attribute `attr` as seen from entity `en` (own or inherited) -/
def attrTypeOf (s : Schema) (fuel : Nat) (en attr : String) : Option TypeRef :=
  (upClosure (superGraph s) fuel [en]).findSome? fun x =>
    (findEntity s x).bind fun e => (e.attrs.find? (·.name = attr)).map (·.ty)

/-- `EXPresolve_op_dot`: `operand.field`, by the kind of the operand's type.  In the select branch, when no member knows the
    name: the (default-silent) warning CASE_SKIP_LABEL if EVERY member of the select is an enumeration, the error UNDEFINED_ATTR
    otherwise — a conjunction over the member list, so the order of the members does not matter -/
def operandDiags (path : String) (s : Schema) (fuel : Nat) (r : Rule) (field : String) (t : TypeRef) : List Diag :=
  match operandKind s fuel t with
  | .simple => [mk path LibErrors.ATTRIBUTE_REF_FROM_NON_ENTITY r.line [sArg field]]
  | .aggregate => [mk path LibErrors.ATTRIBUTE_REF_ON_AGGREGATE r.line [sArg field]]
  | .entity n => if linkFind s field fuel n then [] else [mk path LibErrors.UNKNOWN_ATTR_IN_ENTITY r.line [sArg field, sArg n]]
  | .enumeration tn items =>
    if items.any (·.1 = field) then [] else [mk path LibErrors.ENUM_NO_SUCH_ITEM r.line [sArg tn, sArg field]]
  | .select items =>
    if selectHas s field fuel items then []
    else if items.all (fun i => isEnumType s fuel i.1) then [mk path LibErrors.CASE_SKIP_LABEL r.line [sArg field]]
    else [mk path LibErrors.UNDEFINED_ATTR r.line [sArg field]]
  | .unknown => []

/-- the operand of `SELF.attr.field` / `SELF.attr[1].field` -/
def dotOperand (ty : TypeRef) (indexed : Bool) : TypeRef :=
  if indexed then (match ty with | .aggr b => b | t => t) else ty

def dotDiags (path : String) (s : Schema) (fuel : Nat) (e : Entity) (r : Rule) (attr field : String) (indexed : Bool) : List Diag :=
  match attrTypeOf s fuel e.name attr with
  | none => [mk path LibErrors.UNKNOWN_ATTR_IN_ENTITY r.line [sArg attr, sArg e.name]]
  | some ty => operandDiags path s fuel r field (dotOperand ty indexed)

/-- the arguments of a call: resolved left to right; the first one that fails ends the walk (`resolve_failed( expr ); break;`).
    Result: the diagnostics, and whether a resolved argument referred to SELF or an attribute -/
def argsRun (diagsOf : CallArg → List Diag) (sees : CallArg → Bool) : List CallArg → List Diag × Bool
  | [] => ([], false)
  | a :: as =>
    if hasError (diagsOf a) then (diagsOf a, sees a)
    else ((diagsOf a) ++ (argsRun diagsOf sees as).1, sees a || (argsRun diagsOf sees as).2)

/-- `ENTITYfind_inherited_entity( e, name, 0 )`: is `name` a proper ancestor of `en` (within `fuel` levels) -/
def isAncestor (s : Schema) (name : String) : Nat → String → Bool
  | 0, _ => false
  | fuel + 1, en =>
    match findEntity s en with
    | none => false
    | some e => (supersOf s e).any fun sup => sup = name || isAncestor s name fuel sup

/-- `ENTITYcheck_missing_supertypes`: every entity on `e`'s (run-time) subtype list must name `e` among its supertypes; the
    `found` flag is per subtype -/
def missingSuperDiags (path : String) (s : Schema) (e : Entity) : List Diag :=
  (subtypesOf s e).filterMap fun sub =>
    match findEntity s sub with
    | some se => if e.name ∈ supersOf s se then none
                 else some (mk path LibErrors.MISSING_SUPERTYPE se.line [sArg e.name, sArg (declName se.name)])
    | none => none

/-- `ENTITYresolve_uniques` for one attribute reference of a UNIQUE rule -/
def uniqueDiags (path : String) (s : Schema) (e : Entity) (fuel : Nat) (u : UniqueItem) : List Diag :=
  let unqualified :=
    match namedAttr s u.attr fuel e.name with
    | some true => []
    | _ => [mk path LibErrors.UNKNOWN_ATTR_IN_ENTITY u.line [sArg u.attr, sArg e.name]]
  -- `attr2 && attr != attr2 && ENTITYdeclares_variable( e, attr2 )`: the unqualified look-up ends at an attribute that
  -- `e` itself declares, which is never the one (if any) the qualified look-up found in the supertype
  let needless :=
    if e.attrs.any (·.name = u.attr) then [mk path LibErrors.UNIQUE_QUAL_REDECL u.line [sArg u.attr, sArg e.name]] else []
  match u.qual with
  | none => unqualified
  | some q =>
    if !isAncestor s q fuel e.name then
      -- EXPresolve of the group reference, then ENTITYresolve_attr_ref( e, grp, attr ), then the unqualified look-up
      [mk path LibErrors.GROUP_REF_NO_SUCH_ENTITY u.line [sArg q],
       mk path LibErrors.UNKNOWN_SUPERTYPE u.line [sArg q, sArg e.name]] ++ unqualified ++ needless
    else
      match findEntity s q with
      | none => unqualified
      | some qe =>
        if qe.attrs.any (·.name = u.attr) then needless ++ unqualified
        else
          [mk path LibErrors.UNKNOWN_ATTR_IN_ENTITY u.line [sArg u.attr, sArg (declName q)],
           mk path LibErrors.UNKNOWN_ATTR_IN_ENTITY u.line [sArg u.attr, sArg (declName q)]] ++ unqualified ++ needless

/-- recursion budget of the sub/super cycle search: one level per newly marked entity, cut at the depth guard if there is one -/
def subsuperFuel (s : Schema) : Nat :=
  match ResolveGen.subsuperDepthLimit with
  | some k => min (s.decls.length + 1) k
  | none => s.decls.length + 1

/-- the refusal of `RESOLVEnested_too_deeply` (SYNTAX, severity EXIT) when the search would go deeper than the guard allows -/
def nestingDiags (path : String) (e : Entity) : List Diag :=
  match ResolveGen.subsuperDepthLimit with
  | some k => [mk path LibErrors.SYNTAX e.line
      [.str ("More than " ++ toString k ++ " levels of nesting").toList, .str "one".toList, .str "chain of subtypes".toList]]
  | none => []

/-- `TYPEcheck_select_cyclicity` for one type declaration -/
def selectCycleDiags (path : String) (s : Schema) (t : TypeDecl) : List Diag :=
  match t.body with
  | .select _ =>
    cycleDiags path LibErrors.SELECT_LOOP LibErrors.SELECT_CONTINUATION (lineOfType s) t.name
      (dfs ResolveGen.visitedReturnsSelect t.name (selectGraph s) (s.decls.length + 1) (selectGraph s t.name) [])
  | _ => []

/-- `ENTITYresolve_types`: attribute types and INVERSE clauses -/
def attrDiags (path : String) (env : Env) (s : Schema) (fuel : Nat) (e : Entity) : List Diag :=
  e.attrs.flatMap fun a => typeRefDiags path env s a.ty ++
    (if (typeRefDiags path env s a.ty).isEmpty then inverseDiags path s a (fun en an => namedAttr s an fuel en = some true) else [])

/-- `ENTITYcheck_subsuper_cyclicity` (behind a recursion-depth guard when the code has one) -/
def subsuperCycleDiags (path : String) (s : Schema) (e : Entity) : List Diag :=
  match dfs ResolveGen.visitedReturnsSubsuper e.name (subGraph s) (subsuperFuel s) (subGraph s e.name) [] with
  | none => nestingDiags path e
  | some r => cycleDiags path LibErrors.SUBSUPER_LOOP LibErrors.SUBSUPER_CONTINUATION (lineOfEntity s) e.name (some r)

/-- pass 4 for one entity -/
def entityPass4 (path : String) (env : Env) (s : Schema) (e : Entity) : List Diag :=
  missingSuperDiags path s e ++ attrDiags path env s (s.decls.length + 1) e ++
    (e.uniques.flatMap (uniqueDiags path s e (s.decls.length + 1))) ++ subsuperCycleDiags path s e

def pass4 (path : String) (env : Env) (s : Schema) : List Diag :=
  s.decls.flatMap fun
    | .type t => selectCycleDiags path s t
    | .entity e => if e.foreign then [] else entityPass4 path env s e
    | _ => []

/-- a function call inside a domain rule: arity warning, or undefined function (+ the MISSING_SELF it entails: the
    arguments, where SELF occurs, are not resolved) -/
def missingSelf (path : String) (r : Rule) : List Diag :=
  if r.isWhere then [mk path LibErrors.MISSING_SELF r.line [sArg r.label]] else []

/-- a bare identifier that is no attribute of the entity at hand: what the enclosing schema scope makes of it — `none` when
    nothing of that name is visible (own declarations of any kind, imported objects); a function named without an argument
    list is a call with no arguments -/
def globalRef (path : String) (env : Env) (s : Schema) (r : Rule) (n : String) : Option (List Diag) :=
  match findFunc s n with
  | some fd => some (if fd.nparams = 0 then [] else [mk path LibErrors.WRONG_ARG_COUNT r.line [sArg n, .int 0, .int fd.nparams]])
  | none => if (ownObj s n).isSome || (env.foreign n).isSome then some [] else none

/-- a bare identifier of an entity-level expression that is no attribute: the enclosing scopes are searched; a domain rule,
    having no other reference to SELF or an attribute, is reported as well -/
def bareOutside (path : String) (env : Env) (s : Schema) (r : Rule) (n : String) : List Diag :=
  match globalRef path env s r n with
  | some ds => ds ++ missingSelf path r
  | none => mk path LibErrors.UNDEFINED r.line [sArg n] :: missingSelf path r

def callDiags (path : String) (s : Schema) (r : Rule) (fn : String) (argc : Nat) : List Diag :=
  match findFunc s fn with
  | some fd => if fd.nparams = argc then []
               else [mk path LibErrors.WRONG_ARG_COUNT r.line [sArg fn, .int argc, .int fd.nparams]]
  | none =>
    match builtinArity fn with
    | some n => if n = argc then [] else [mk path LibErrors.WRONG_ARG_COUNT r.line [sArg fn.toUpper, .int argc, .int n]]
    | none => mk path LibErrors.UNDEFINED_FUNC r.line [sArg fn] :: missingSelf path r

/-- `TYPEresolve_expressions` for the WHERE rules of every type declaration of the schema — whatever its underlying type
    (simple, aggregate, enumeration, select, or another defined type) and whether or not anything uses it -/
def typeRuleDiags (path : String) (s : Schema) : List Diag :=
  s.types.flatMap fun t => t.rules.flatMap fun r => r.items.flatMap fun
    | .call fn argc => callDiags path s r fn argc
    | _ => []

/-- `ENTITY_get_named_attribute_once( supertype, name )` (since C06-17 the OVERLOADED_ATTR check uses the marked search: every
    entity is visited once, so it also returns on cyclic supertypes): the supertype or an entity reachable from it declares `name` -/
def overloadFound (s : Schema) (name : String) (fuel : Nat) (sup : String) : Option Bool := some (varFind s name fuel sup)

/-- OVERLOADED_ATTR candidates of one entity: for every new (not redeclared) attribute and every supertype, the result of
    the look-up in that supertype and the diagnostic to print when it finds one -/
def overloadCands (path : String) (s : Schema) (fuel : Nat) (e : Entity) : List (Option Bool × Diag) :=
  e.attrs.flatMap fun a =>
    match a.redeclOf with
    | some _ => []
    | none => (supersOf s e).map fun sup =>
        (overloadFound s a.name fuel sup, mk path LibErrors.OVERLOADED_ATTR a.line [sArg a.name, sArg (declName sup)])

def overloadDiags (path : String) (s : Schema) (fuel : Nat) (e : Entity) : List Diag :=
  (overloadCands path s fuel e).filterMap fun (r, d) => if r = some true then some d else none

/-- attribute redeclarations `SELF\sup.attr` -/
def redeclDiags (path : String) (s : Schema) (fuel : Nat) (e : Entity) : List Diag :=
  e.attrs.flatMap fun a =>
    match a.redeclOf with
    | none => []
    | some sup =>
      if sup = e.name || !isAncestor s sup fuel e.name then
        [mk path LibErrors.REDECL_NO_SUCH_SUPERTYPE a.line [sArg sup, sArg a.name]]
      else match findEntity s sup with
        | some se => if se.attrs.any (·.name = a.name) then []
                     else [mk path LibErrors.REDECL_NO_SUCH_ATTR a.line [sArg a.name, sArg (declName sup)]]
        | none => []

/-- one actual parameter in entity scope -/
def argDiags (path : String) (env : Env) (s : Schema) (fuel : Nat) (e : Entity) (r : Rule) : CallArg → List Diag
  | .lit => []
  | .bare n =>
    if varFind s n fuel e.name then []
    else (match globalRef path env s r n with
      | some ds => ds
      | none => [mk path LibErrors.UNDEFINED r.line [sArg n]])
  | .selfAttr a =>
    (match namedAttr s a fuel e.name with
     | some true => []
     | _ => [mk path LibErrors.UNKNOWN_ATTR_IN_ENTITY r.line [sArg a, sArg e.name]])

def argSeesSelf (s : Schema) (fuel : Nat) (e : Entity) : CallArg → Bool
  | .lit => false
  | .bare n => varFind s n fuel e.name
  | .selfAttr _ => true

def knownFunc (s : Schema) (fn : String) : Bool := (findFunc s fn).isSome || (builtinArity fn).isSome

/-- a call with its argument list: the count check (`callDiags`: WRONG_ARG_COUNT quotes the number of arguments WRITTEN, whatever
    happens to them afterwards), then the arguments; an undefined function leaves them unresolved -/
def callWithDiags (path : String) (env : Env) (s : Schema) (fuel : Nat) (e : Entity) (r : Rule) (fn : String)
    (args : List CallArg) : List Diag :=
  if knownFunc s fn then
    callDiags path s r fn args.length ++ (argsRun (argDiags path env s fuel e r) (argSeesSelf s fuel e) args).1 ++
      (if (argsRun (argDiags path env s fuel e r) (argSeesSelf s fuel e) args).2 then [] else missingSelf path r)
  else callDiags path s r fn args.length

/-- one item of a domain rule of entity `e` -/
def ruleItemDiags (path : String) (env : Env) (s : Schema) (fuel : Nat) (e : Entity) (r : Rule) : RuleItem → List Diag
  | .call fn argc => callDiags path s r fn argc
  | .selfAttr an =>
    (match namedAttr s an fuel e.name with
     | some true => []
     | _ => [mk path LibErrors.UNKNOWN_ATTR_IN_ENTITY r.line [sArg an, sArg e.name]])
  | .bareAttr an =>
    -- `VARfind`: own and inherited attributes only; otherwise the name is looked up in the enclosing scopes, and a domain
    -- rule, having no other reference to SELF or an attribute, is reported as well
    (if varFind s an fuel e.name then [] else bareOutside path env s r an)
  | .badGroup an =>
    -- `EXPresolve_op_group` on an operand that is no entity (the operand `SELF.x` has no name of its own), then the `.attr`
    [mk path LibErrors.GROUP_REF_UNEXPECTED_TYPE r.line [.str "<expression>".toList],
     mk path LibErrors.ATTRIBUTE_REF_FROM_NON_ENTITY r.line [sArg an]]
  | .smallReal _ => []
  | .dot attr field indexed => dotDiags path s fuel e r attr field indexed
  | .callWith fn args => callWithDiags path env s fuel e r fn args

def ruleDiags (path : String) (env : Env) (s : Schema) (fuel : Nat) (e : Entity) : List Diag :=
  e.rules.flatMap fun r => r.items.flatMap (ruleItemDiags path env s fuel e r)

/-- `ENTITYresolve_expressions` for one entity -/
def entityPass5 (path : String) (env : Env) (s : Schema) (fuel : Nat) (e : Entity) : List Diag :=
  overloadDiags path s fuel e ++ redeclDiags path s fuel e ++ ruleDiags path env s fuel e

/-- one actual parameter inside an algorithm -/
def algArgDiags (path : String) (env : Env) (s : Schema) (f : Func) (r : Rule) : CallArg → List Diag
  | .bare n =>
    if n ∈ f.locals then []
    else (match globalRef path env s r n with
      | some ds => ds
      | none => [mk path LibErrors.UNDEFINED r.line [sArg n]])
  | _ => []

/-- one item of an expression inside FUNCTION / RULE / CONSTANT `f` (no SELF there: `SELF.x` items are not interpreted) -/
def algItemDiags (path : String) (env : Env) (s : Schema) (f : Func) (r : Rule) : RuleItem → List Diag
  | .call fn argc => callDiags path s { r with isWhere := false } fn argc
  | .bareAttr n =>
    if n ∈ f.locals then []
    else match globalRef path env s r n with
      | some ds => ds
      | none => [mk path LibErrors.UNDEFINED r.line [sArg n]]
  | .callWith fn args =>
    if knownFunc s fn then
      callDiags path s { r with isWhere := false } fn args.length ++
        (argsRun (algArgDiags path env s f r) (fun _ => false) args).1
    else callDiags path s { r with isWhere := false } fn args.length
  | _ => []

/-- `ALGresolve_expressions_statements` / `RULEresolve` / constant values: the expressions of every algorithm-like declaration -/
def algDiags (path : String) (env : Env) (s : Schema) : List Diag :=
  s.decls.flatMap fun
    | .func f => f.body.flatMap fun r => r.items.flatMap (algItemDiags path env s f r)
    | _ => []

def pass5 (path : String) (env : Env) (s : Schema) : Pass :=
  let fuel := s.decls.length + 1
  { diags := typeRuleDiags path s ++ (s.entities.filter (!·.foreign)).flatMap (entityPass5 path env s fuel) ++ algDiags path env s,
    diverges := (s.entities.filter (!·.foreign)).any fun e => (overloadCands path s fuel e).any fun (r, _) => r = none }

/-- pass 2 dereferences the NULL entry that a failed `USE FROM <undefined>;` leaves in `use_schemas` when some schema
    imports an item from the schema holding that clause and the look-up gets as far as the fully USE'd schemas — unless
    the loop skips NULL entries (regenerated `useSchemasSkipsNull`) -/
def nullUseCrash (f : File) : Bool :=
  !ResolveGen.useSchemasSkipsNull &&
  f.schemas.any fun s => resolvable f s && (useItems s ++ refItems s).any fun (src, it) =>
    match findSchema f src with
    | some t => (ownObj t it.old).isNone && (fullUses t).any fun U => (findSchema f U).isNone
    | none => false

/-- an attribute whose `DICTdefine` failed (duplicate name) never enters the entity's attribute list -/
def dedupAttrs : List Attr → List String → List Attr
  | [], _ => []
  | a :: as, seen => if a.name ∈ seen then dedupAttrs as seen else a :: dedupAttrs as (a.name :: seen)

def normSchema (s : Schema) : Schema :=
  { s with decls := s.decls.map fun
      | .entity e => .entity { e with attrs := dedupAttrs e.attrs [] }
      | d => d }

/-- the schemas the later passes look at (as the parser left them) -/
def liveSchemas (f : File) : List Schema := (f.schemas.filter (resolvable f)).map normSchema

/-! ## inheritance across schemas

An entity may name a supertype (or a subtype) that its schema interfaces from another schema, under the name it has there or
under a new one (`USE FROM b ( p AS pp )`).  `linked f fb cur` is schema `cur` with every entity reference of an entity header
resolved: own entities keep their names, an entity of another schema is called `<schema>.<entity>`; and with a copy (flagged
`foreign`) of every entity of every other schema, its own header resolved in ITS schema's scope.  All inheritance look-ups of
passes 4 and 5 (`supersOf`, `subtypesOf`, `namedAttr`, `varFind`, `isAncestor`, the cycle searches) then walk across schema
borders; the passes themselves visit only the entities that are not `foreign`. -/

def qn (S n : String) : String := S ++ "." ++ n

/-- (home schema, declared name) of the entity that `n`, written in schema `t`, denotes -/
def entityRefIn (f : File) (fb : Bool) (t : Schema) (n : String) : Option (String × String) :=
  if isEntity t n then some (t.name, n)
  else match ownObj t n with
    | some _ => none
    | none => match visible f fb (importFuel f) t.name n with
      | some o => if o.kind = .entity then some (o.schema, o.name) else none
      | none => none

/-- the name of entity (S, n) inside the linked view of schema `cur` -/
def canonName (cur : String) (r : String × String) : String := if r.1 = cur then r.2 else qn r.1 r.2

/-- an entity header (`SUBTYPE OF`, `SUPERTYPE OF`) with its references resolved in its home schema `t`; unresolved names stay -/
def linkHeader (f : File) (fb : Bool) (cur : String) (t : Schema) (e : Entity) : Entity :=
  let nameOf := fun (x : String) => match entityRefIn f fb t x with | some r => canonName cur r | none => x
  { e with name := canonName cur (t.name, e.name),
           supers := e.supers.map fun x => (nameOf x.1, x.2),
           subs := e.subs.map nameOf,
           foreign := t.name != cur }

/-- stage 1: headers resolved, the other schemas' entities appended -/
def linked0 (f : File) (fb : Bool) (cur : Schema) : Schema :=
  { cur with decls :=
      (cur.decls.map fun | .entity e => .entity (linkHeader f fb cur.name cur e) | d => d) ++
      ((f.schemas.filter (·.name != cur.name)).flatMap fun t =>
        (normSchema t).entities.map fun e => .entity (linkHeader f fb cur.name t e)) }

/-- the supertype that `w`, written as the qualifier of `SELF\w.attr` inside entity `en`, denotes (`ENTITYfind_inherited_entity`):
    an ancestor DECLARED under that name; failing that — regenerated `groupQualifierResolvesAlias` — the ancestor that `w` denotes in
    the schema's scope (an interfaced supertype known under a new name); `w` itself when there is none -/
def qualifierTarget (f : File) (fb : Bool) (cur : Schema) (l0 : Schema) (en w : String) : String :=
  let anc := upClosure (superGraph l0) (l0.decls.length + 1) (superGraph l0 en)
  match anc.find? (fun a => declName a = w) with
  | some a => a
  | none =>
    if ResolveGen.groupQualifierResolvesAlias then
      (match entityRefIn f fb cur w with
       | some r => if canonName cur.name r ∈ anc then canonName cur.name r else w
       | none => w)
    else w

/-- stage 2: the qualifiers of attribute redeclarations and UNIQUE references of the schema's own entities name their target -/
def linked (f : File) (fb : Bool) (cur : Schema) : Schema :=
  let l0 := linked0 f fb cur
  { l0 with decls := l0.decls.map fun
      | .entity e =>
        if e.foreign then .entity e
        else .entity { e with
          attrs := e.attrs.map fun a => { a with redeclOf := a.redeclOf.map (qualifierTarget f fb cur l0 e.name) },
          uniques := e.uniques.map fun u => { u with qual := u.qual.map (qualifierTarget f fb cur l0 e.name) } }
      | d => d }

/-- all five passes over the whole file (each pass runs over every live schema before the next one starts; no pass is
    gated on errors of an earlier one) -/
def resolveDiags (f : File) : Pass :=
  let fb := ResolveGen.renameUselistFallback
  let live := liveSchemas f
  let p5 := live.map fun s => pass5 (fileOf f s) (envOf f fb s) (linked f fb s)
  { diags := externalParseDiags f ++ f.schemas.flatMap (pass1 f) ++ live.flatMap (pass2 f fb) ++
             live.flatMap (fun s => pass3 (fileOf f s) (envOf f fb s) (linked f fb s)) ++
             live.flatMap (fun s => pass4 (fileOf f s) (envOf f fb s) (linked f fb s)) ++ p5.flatMap (·.diags),
    diverges := p5.any (·.diverges) || nullUseCrash f }

/-! ## the verdict -/

/-- everything the front end reports for a file: lexical + parse-time diagnostics, and — when none of those is an
    error — the resolve-time ones -/
structure Verdict where
  parse : List Diag
  resolve : List Diag
  diverges : Bool
  deriving Repr

def verdict (f : File) (lex : List Diag) : Verdict :=
  let p := lex ++ parseDiags f
  let r := resolveDiags f
  ⟨p, r.diags, r.diverges⟩

/-- does the front end report at least one ERROR for the file -/
def Verdict.rejects (v : Verdict) : Bool :=
  hasError v.parse || (if LibErrors.gateAfterParse then !hasError v.parse && hasError v.resolve else hasError v.resolve)

end StepModel.Express.Resolve

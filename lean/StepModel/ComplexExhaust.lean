import StepModel.ComplexTreeKeep
/-!
# The retry odometer runs to its end

`tryNext` reports NOMORE (anything but MATCHALL / NEWCHOICE) only when every OrList it could still step — the OrLists
reached through the candidates of `firstCandidate`/`nextCandidate` — has itself run out of alternatives (`choice =
LISTEND`); so a refusal by the retry loop of `ComplexList::matches` means the odometer of OrList choices has been run to
its end.  No hypothesis on the state.
-/
namespace StepModel.Complex.Match
open StepModel.Generated StepModel.Complex

mutual
  /-- every OrList that `tryNext` could still step has `choice = LISTEND` -/
  def Exh : ST → Prop
    | .simple .. => True
    | .mult .or _ c _ _ _ => c = listEnd
    | .mult .and _ _ _ _ cs => ExhL cs
    | .mult .andor _ _ _ _ cs => ExhL cs
  def ExhL : List ST → Prop
    | [] => True
    | c :: cs => (Cand c → Exh c) ∧ ExhL cs
end

theorem ExhL_iff (cs : List ST) : ExhL cs ↔ ∀ (p : Nat) (ch : ST), cs[p]? = some ch → Cand ch → Exh ch := by
  induction cs with
  | nil => simp [ExhL]
  | cons a l ih =>
    simp only [ExhL, ih]
    constructor
    · rintro ⟨h1, h2⟩ p ch hp hc
      cases p with
      | zero => simp at hp; subst hp; exact h1 hc
      | succ p => exact h2 p ch (by simpa using hp) hc
    · intro h
      exact ⟨fun hc => h 0 a (by simp) hc, fun p ch hp hc => h (p + 1) ch (by simpa using hp) hc⟩

/-- `OrList::acceptChoice` that marks nothing leaves `choice = LISTEND` -/
theorem acceptOr_false_listEnd (f : Nat) (v : MT) (c c1 : Int) (k : Nat) (cs : List ST) (es : Ents) (r : ST × Ents × Bool)
    (h : acceptChoice f (.mult .or v c c1 k cs) es = .ok r) (hb : r.2.2 = false) : Exh r.1 := by
  cases f with
  | zero => simp [acceptChoice] at h
  | succ f =>
    simp only [acceptChoice] at h
    split at h
    · cases h; simp [Exh]
    · obtain ⟨⟨cs', es', res⟩, _, h2⟩ := bind_ok' h
      cases res with
      | none => cases h2; simp [Exh]
      | some j => cases h2; simp at hb

theorem nomore_exh : ∀ f : Nat,
    (∀ t es r, tryNext f t es = .ok r → r.2.2 ≠ .all → r.2.2 ≠ .newchoice → Exh r.1) ∧
    (∀ cs start es r, tryBack f cs start es = .ok r →
      (∀ (p : Nat) (ch : ST), cs[p]? = some ch → start < p → Cand ch → Exh ch) →
      r.2.2 ≠ .all → r.2.2 ≠ .newchoice → ExhL r.1) ∧
    (∀ cs js es r, tryFwd f cs js es = .ok r → r.2.2 = .all ∨ r.2.2 = .newchoice) := by
  intro f
  induction f with
  | zero =>
    exact ⟨fun _ _ _ h => by simp [tryNext] at h, fun _ _ _ _ h => by simp [tryBack] at h,
      fun _ _ _ _ h => by simp [tryFwd] at h⟩
  | succ f ih =>
    obtain ⟨ih1, ih2, ih3⟩ := ih
    refine ⟨?_, ?_, ?_⟩
    · intro t es r h hna hnn
      cases t with
      | simple n v im => simp only [tryNext] at h; cases h
      | mult j v c c1 k cs =>
        cases j with
        | or =>
          simp only [tryNext] at h
          split at h
          · rename_i hc; cases h; simp only [Exh]; exact hc
          · split at h
            · cases h
            · split at h
              · cases h
              · obtain ⟨⟨ch1, es1, r1⟩, _, h2⟩ := ite_bind_ok h
                simp only at h2
                split at h2
                · cases h2; exact absurd rfl hna
                · split at h2
                  · cases h2; exact absurd rfl hnn
                  · obtain ⟨⟨ch2, es2⟩, _, h4⟩ := bind_ok' h2
                    simp only at h4
                    split at h4
                    · cases h4; simp [Exh]
                    · obtain ⟨⟨node, es3, b⟩, h5, h6⟩ := bind_ok' h4
                      simp only at h6
                      cases b with
                      | true =>
                        simp only [if_true] at h6
                        cases h6
                        simp only at hna hnn
                        split at hna
                        · exact absurd rfl hna
                        · rename_i hx; simp only [hx] at hnn; exact absurd rfl hnn
                      | false =>
                        simp only [Bool.false_eq_true, if_false] at h6
                        cases h6
                        exact acceptOr_false_listEnd f _ _ _ _ _ _ _ h5 rfl
        | and =>
          simp only [tryNext] at h
          split at h
          · rename_i hemp
            have hcs : cs = [] := by cases cs with | nil => rfl | cons => simp at hemp
            subst hcs
            split at h
            · cases h; simp [Exh, ExhL]
            · cases h
          · obtain ⟨⟨cs', es', r'⟩, h1, h2⟩ := bind_ok' h
            cases h2
            simp only [Exh]
            refine ih2 cs _ es _ h1 (fun p ch hp hlt _ => ?_) hna hnn
            have := (List.getElem?_eq_some_iff.mp hp).1
            omega
        | andor =>
          simp only [tryNext] at h
          split at h
          · rename_i hemp
            have hcs : cs = [] := by cases cs with | nil => rfl | cons => simp at hemp
            subst hcs
            split at h
            · cases h; simp [Exh, ExhL]
            · cases h
          · obtain ⟨⟨cs', es', r'⟩, h1, h2⟩ := bind_ok' h
            cases h2
            simp only [Exh]
            refine ih2 cs _ es _ h1 (fun p ch hp hlt _ => ?_) hna hnn
            have := (List.getElem?_eq_some_iff.mp hp).1
            omega
    · intro cs start es r h hbi hna hnn
      simp only [tryBack] at h
      cases hfc : firstCand cs start with
      | none =>
        simp only [hfc] at h
        cases h
        apply (ExhL_iff cs).mpr
        intro p ch hp hc
        by_cases hps : p ≤ start
        · exact absurd hc (firstCand_none cs start hfc p ch hps hp)
        · exact hbi p ch hp (by omega) hc
      | some i =>
        simp only [hfc] at h
        obtain ⟨ch, hch, _, _⟩ := firstCand_spec cs start i hfc
        have hle := firstCand_le cs start i hfc
        have hgap := firstCand_gap cs start i hfc
        simp only [hch] at h
        have hilt : i < cs.length := (List.getElem?_eq_some_iff.mp hch).1
        obtain ⟨⟨ch', es', r1⟩, h1, h2⟩ := bind_ok' h
        simp only at h2
        split at h2
        · cases h2; exact absurd rfl hna
        · rename_i hr1a
          split at h2
          · rcases ih3 _ _ _ _ h2 with e | e
            · exact absurd e hna
            · exact absurd e hnn
          · rename_i hr1n
            have hexh : Exh ch' := ih1 ch es _ h1 hr1a hr1n
            have hbi' : ∀ (p : Nat) (c0 : ST), (cs.set i ch')[p]? = some c0 → i ≤ p → Cand c0 → Exh c0 := by
              intro p c0 hp hip hc
              by_cases hpi : p = i
              · subst hpi
                simp [hilt] at hp
                rw [← hp]; exact hexh
              · rw [List.getElem?_set_ne (fun e => hpi e.symm)] at hp
                by_cases hps : p ≤ start
                · exact absurd hc (hgap p c0 (by omega) hps hp)
                · exact hbi p c0 hp (by omega) hc
            split at h2
            · rename_i hi0
              subst hi0
              split at h2
              · cases h2
                apply (ExhL_iff _).mpr
                intro p c0 hp hc
                exact hbi' p c0 hp (Nat.zero_le _) hc
              · cases h2
            · exact ih2 _ _ _ _ h2 (fun p c0 hp hlt hc => hbi' p c0 hp (by omega) hc) hna hnn
    · intro cs js es r h
      cases js with
      | nil => simp only [tryFwd] at h; cases h; exact Or.inr rfl
      | cons j js' =>
        simp only [tryFwd] at h
        split at h
        · exact ih3 _ _ _ _ h
        · obtain ⟨⟨ch', es', b⟩, _, h2⟩ := bind_ok' h
          simp only at h2
          split at h2
          · cases h2; exact Or.inl rfl
          · exact ih3 _ _ _ _ h2

/-- a refusal by the retry loop: the last `tryNext` left every steppable OrList at LISTEND -/
theorem retry_false_exh (combo : Bool) : ∀ (f : Nat) (head : ST) (es : Ents), retry f combo head es = .ok false →
    ∃ (g : Nat) (h0 : ST) (e0 : Ents) (r : ST × Ents × MT), tryNext g h0 e0 = .ok r ∧ r.2.2 ≠ .all ∧ r.2.2 ≠ .newchoice ∧
      Exh r.1 := by
  intro f
  induction f with
  | zero => intro head es h; simp [retry] at h
  | succ f ih =>
    intro head es h
    simp only [retry] at h
    obtain ⟨⟨head', es', r⟩, h1, h2⟩ := bind_ok' h
    simp only at h2
    split at h2
    · split at h2
      · cases h2
      · exact ih head' es' h2
    · rename_i hna
      split at h2
      · exact ih head' es' h2
      · rename_i hnn
        exact ⟨f, head, es, _, h1, hna, hnn, (nomore_exh f).1 head es _ h1 hna hnn⟩


-- ------------------------------------------------------------------ no alternative that counts is skipped
theorem lvSL_set_of_skel {cs : List ST} {i : Nat} {ch ch' : ST} (hch : cs[i]? = some ch) (hs : skel ch' = skel ch) :
    lvSL (cs.set i ch') = lvSL cs := by
  rw [lvSL_eq, lvSL_eq, skelL_set cs i ch ch' hch hs]

/-- **`OrList::acceptChoice` does not pass over an alternative that counts and whose members are still unmarked.**
Scanning from position `i` with nothing held below the OrList, if some alternative at `p ≥ i` is a finished alive list
(`PA`: it and everything on its chosen path has `viable ≥ MATCHSOME`; distinct leaves, none held elsewhere), the scan
stops at some `j ≤ p` — it never reports "no choice" and never skips `p`. -/
theorem acceptOr_progress (N : List Name) (hN : N.Pairwise (· < ·)) : ∀ (f : Nat) (cs : List ST) (i : Nat) (es : Ents)
    (r : List ST × Ents × Option Nat) (o : Name → Nat) (p : Nat) (chp : ST),
    acceptOr f cs i es = .ok r → names es = N → FrL o cs es → holdsL cs = [] → (lvSL cs).Nodup →
    (∀ n ∈ lvSL cs, o n = 0) → TidyL cs → i ≤ p → cs[p]? = some chp → PA N chp →
    ∃ j, r.2.2 = some j ∧ i ≤ j ∧ j ≤ p := by
  intro f
  induction f with
  | zero => intro cs i es r o p chp h; simp [acceptOr] at h
  | succ f ih =>
    intro cs i es r o p chp h hnm hfr h0 hnd hout htidy hip hp hpa
    have hf0 : Fr0 o es := fun x => by
      have := hfr.1 x
      have hz : cntL x cs = 0 := by simp [cntL, h0]
      rw [hz, Nat.add_zero] at this; exact this
    have hplt : p < cs.length := (List.getElem?_eq_some_iff.mp hp).1
    simp only [acceptOr] at h
    cases hci : cs[i]? with
    | none =>
      have := List.getElem?_eq_none_iff.mp hci
      omega
    | some ch =>
      simp only [hci] at h
      have hch0 : holds ch = [] := (holdsL_nil_iff cs).mp h0 ch (List.mem_of_getElem? hci)
      by_cases hal : ch.atLeastSome = true
      · simp only [hal, if_true] at h
        obtain ⟨⟨ch', es1, b⟩, h1, h2⟩ := bind_ok' h
        have hfrc : Fr o ch es := Fr_of_H0 hch0 hf0
        have htc : Tidy ch := (TidyL_iff cs).mp htidy ch (List.mem_of_getElem? hci)
        have PM := (accept_marks N hN f).1 ch es _ o h1 hnm hfrc htc (Idle_of_H0 ch hch0) (fun _ => hal)
        simp only at h2
        cases b with
        | true =>
          simp only [if_true] at h2
          cases h2
          exact ⟨i, rfl, Nat.le_refl _, hip⟩
        | false =>
          simp only [Bool.false_eq_true, if_false] at h2
          have hpi : p ≠ i := by
            intro e; subst e
            have hcc : ch = chp := by rw [hci] at hp; exact Option.some.inj hp
            have hpa' : PA N ch := by rw [hcc]; exact hpa
            have := ((accept_pos N hN f).1 ch es _ o h1 hnm hfrc hch0 (nodup_child hnd hci)
              (fun n hn => hout n (lvS_sub_lvSL hci n hn)) hpa' htc).2.1
            simp at this
          obtain ⟨q1, q2⟩ := PM.noop rfl
          have hsk := (accept_skel f).1 ch es _ h1
          have hn1 : names es1 = N := by rw [(accept_names f).1 ch es _ h1]; exact hnm
          have hch'0 : holds ch' = [] := by rw [q1]; exact hch0
          have hothers : ∀ q c0, cs[q]? = some c0 → q ≠ i → holds c0 = [] :=
            fun q c0 hq _ => (holdsL_nil_iff cs).mp h0 c0 (List.mem_of_getElem? hq)
          have h0' : holdsL (cs.set i ch') = [] := holdsL_set_nil hothers hch'0
          have hf1 : Fr0 o es1 := fun x => by rw [q2 x]; exact hf0 x
          have hlv : lvSL (cs.set i ch') = lvSL cs := lvSL_set_of_skel hci hsk
          have htd' : TidyL (cs.set i ch') := TidyL_set htidy PM.tidy
          obtain ⟨j, hj1, hj2, hj3⟩ := ih (cs.set i ch') (i + 1) es1 r o p chp h2 hn1 (FrL_of_H0 h0' hf1) h0'
            (by rw [hlv]; exact hnd) (by rw [hlv]; exact hout) htd' (by omega)
            (by rw [List.getElem?_set_ne (fun e => hpi e.symm)]; exact hp) hpa
          exact ⟨j, hj1, by omega, hj3⟩
      · simp only [hal, Bool.false_eq_true, if_false] at h
        have hpi : p ≠ i := by
          intro e; subst e
          have hcc : ch = chp := by rw [hci] at hp; exact Option.some.inj hp
          exact hal (by rw [hcc]; exact PA_als hpa)
        obtain ⟨j, hj1, hj2, hj3⟩ := ih cs (i + 1) es r o p chp h hnm hfr h0 hnd hout htidy (by omega) hp hpa
        exact ⟨j, hj1, by omega, hj3⟩

end StepModel.Complex.Match

import StepModel.Sev
import StepModel.P21.Val
import StepModel.Generated.AttrNullGen
import StepModel.Generated.StepFileGen
/-!
Model of how a missing attribute value travels from `STEPattribute::STEPread`'s null/derived pre-check
(src/clstepcore/STEPattribute.cc) through `SDAI_Application_instance::STEPread` / `STEPcomplex::STEPread`,
`STEPfile::ReadInstance` / `AppendEntityErrorMsg` / `ReadData2` / `AppendFile` to the file severity, the MgrNode state and
p21read's exit status (src/test/p21read/p21read.cc).

Every severity constant, filler string, default argument and "is the flag forwarded" fact comes from
`Generated.AttrNullGen` / `Generated.StepFileGen`, which are re-extracted from the source on every run.
Literal values are opaque (`Tok.lit v sev` carries the value and the severity the literal/aggregate/select readers
produce for it – property C09's subject); the three numeric readers are modelled only as far as the pre-check uses
them: on the filler strings.
-/
namespace StepModel.AttrNull
open StepModel StepModel.P21 StepModel.Generated

/-- `PrimitiveType` classes `STEPattribute::STEPread` switches on (`NonRefType()`) -/
inductive Kind where
  | integer | real | number | string | binary | boolean | logical | enum | entity | select | aggregate
  deriving DecidableEq, Repr, Inhabited

/-- the `*_TYPE` spelling (without the suffix) used as key in `Generated.fillerCases` -/
def Kind.cname : Kind → String
  | .integer => "INTEGER" | .real => "REAL" | .number => "NUMBER" | .string => "STRING" | .binary => "BINARY"
  | .boolean => "BOOLEAN" | .logical => "LOGICAL" | .enum => "ENUM" | .entity => "ENTITY" | .select => "SELECT"
  | .aggregate => "AGGREGATE"

def Kind.all : List Kind :=
  [.integer, .real, .number, .string, .binary, .boolean, .logical, .enum, .entity, .select, .aggregate]
def Kind.ofName (s : String) : Option Kind := Kind.all.find? (fun k => k.cname == s)

/-- an explicit attribute as the reader sees it: `NonRefType()` (the underlying type behind any chain of defined types),
    `Nullable()`, `IsDerived()`, and whether `Type()` is REFERENCE_TYPE (the attribute's type is a defined type declared on
    another defined type, or a renamed select) -/
structure AttrD where
  kind : Kind
  optional : Bool
  derived : Bool := false
  typeRef : Bool := false
  /-- the position is redeclared by the entity at hand (`_redefAttr` set): the read is forwarded to the redefining
      attribute, which has the narrower type described by the other fields -/
  redef : Bool := false
  deriving DecidableEq, Repr, Inhabited

/-- what stands at an attribute position in the file -/
inductive Tok where
  | missing (dollar : Bool)        -- `$` (true) or nothing before the `,`/`)` (false)
  | star                           -- `*`
  | lit (v : Val) (sev : Sev)      -- any other text: value and severity produced by the literal-level readers
  deriving DecidableEq, Repr, Inhabited

/-! ### the three numeric readers on a C string (read_func.cc), as far as the fillers exercise them -/

def isWs (c : Char) : Bool := c = ' ' || c = '\t' || c = '\n' || c = '\r' || c.toNat = 11 || c.toNat = 12
def skipWs (cs : List Char) : List Char := cs.dropWhile isWs

/-- `CheckRemainingInput( in, err, typeName, delims )` (src/clutils/Str.cc): the severity it merges into `err` -/
def checkRemaining (cs : List Char) (delims : List Char) : Sev :=
  match skipWs cs with
  | [] => .null
  | c :: rest =>
    if delims.contains c then .null
    else if rest.any delims.contains then .warning else .inputError

def splitSign (cs : List Char) : List Char × List Char :=
  match cs with
  | '+' :: r => (['+'], r)
  | '-' :: r => (['-'], r)
  | _ => ([], cs)

/-- `ReadInteger( val, const char *, err, delims )`: (token read if a value was assigned, severity left in `err`).
    Out-of-range digit strings are not modelled (C09). -/
def readInteger (s : List Char) (delims : List Char) : Option (List Char) × Sev :=
  let cs := skipWs s
  let (sg, r) := splitSign cs
  let ds := r.takeWhile Char.isDigit
  let rest := r.dropWhile Char.isDigit
  if ds.isEmpty then
    -- extraction failed: "Invalid integer value" unless there was nothing but white space
    (none, Sev.greater (if cs.isEmpty then .null else .warning) (checkRemaining r delims))
  else (some (sg ++ ds), checkRemaining rest delims)

/-- mantissa/exponent scan shared by `ReadReal` (hand-written scan, then `istringstream >> double` on the copy) -/
structure RealScan where
  buf : List Char
  rest : List Char
  sev : Sev          -- `e`: format complaints, merged into `err` only when a value was assigned
  mantDigits : Nat
  expOk : Bool

def scanReal (s : List Char) : RealScan :=
  let cs := skipWs s
  let (sg, r) := splitSign cs
  let d1 := r.takeWhile Char.isDigit
  let r1 := r.dropWhile Char.isDigit
  let e0 : Sev := if d1.isEmpty then .warning else .null
  let (dot, r2, e1) := match r1 with
    | '.' :: t => (['.'], t, e0)
    | _ => ([], r1, Sev.greater e0 .warning)
  let d2 := r2.takeWhile Char.isDigit
  let r3 := r2.dropWhile Char.isDigit
  match r3 with
  | c :: t =>
    if c = 'e' || c = 'E' then
      let e2 := if c = 'e' then Sev.greater e1 .warning else e1
      let (sg2, t1) := splitSign t
      let d3 := t1.takeWhile Char.isDigit
      let t2 := t1.dropWhile Char.isDigit
      let e3 := if d3.isEmpty then Sev.greater e2 .warning else e2
      { buf := sg ++ d1 ++ dot ++ d2 ++ [c] ++ sg2 ++ d3, rest := t2, sev := e3,
        mantDigits := d1.length + d2.length, expOk := !d3.isEmpty }
    else { buf := sg ++ d1 ++ dot ++ d2, rest := r3, sev := e1, mantDigits := d1.length + d2.length, expOk := true }
  | [] => { buf := sg ++ d1 ++ dot ++ d2, rest := [], sev := e1, mantDigits := d1.length + d2.length, expOk := true }

/-- `ReadReal( val, const char *, err, delims )` -/
def readReal (s : List Char) (delims : List Char) : Option (List Char) × Sev :=
  let sc := scanReal s
  if sc.mantDigits > 0 && sc.expOk then
    (some sc.buf, Sev.greater sc.sev (checkRemaining sc.rest delims))
  else
    -- characters taken but not a number: "Invalid real value"; nothing taken: no complaint of its own
    (none, Sev.greater (if sc.buf.isEmpty then .null else .warning) (checkRemaining sc.rest delims))

/-- `ReadNumber( val, const char *, err, delims )`: `in >> double` (sign, digits, optional fraction, optional exponent) -/
def readNumber (s : List Char) (delims : List Char) : Option (List Char) × Sev :=
  let cs := skipWs s
  let (sg, r) := splitSign cs
  let d1 := r.takeWhile Char.isDigit
  let r1 := r.dropWhile Char.isDigit
  let (dot, d2, r2) := match r1 with
    | '.' :: t => (['.'], t.takeWhile Char.isDigit, t.dropWhile Char.isDigit)
    | _ => ([], [], r1)
  if d1.isEmpty && d2.isEmpty then
    (none, Sev.greater (if cs.isEmpty then .null else .warning) (checkRemaining r1 delims))
  else (some (sg ++ d1 ++ dot ++ d2), checkRemaining r2 delims)   -- an exponent after the mantissa is not modelled (C09)

/-- the outcome of handing a filler to its reader: value assigned (as token text) and severity of the discarded `err` -/
def runFiller (reader filler arg : String) : Option String × Sev :=
  if reader = "ReadInteger" then
    let (v, s) := readInteger filler.toList arg.toList; (v.map String.ofList, s)
  else if reader = "ReadReal" then
    let (v, s) := readReal filler.toList arg.toList; (v.map String.ofList, s)
  else if reader = "ReadNumber" then
    let (v, s) := readNumber filler.toList arg.toList; (v.map String.ofList, s)
  else if reader = "assign" then (some arg, .null)
  else (none, .max)   -- unknown reader: `C15_fillers_known` proves this branch is never taken for the extracted table

def fillerFor (k : Kind) : Option (String × String × String) :=
  (fillerCases.find? (fun c => c.1 == k.cname)).map (fun c => c.2)

/-- the type class the filler switch sees: the underlying kind when it dispatches on `NonRefType()` (or `BaseType()`),
    nothing it has a case for when it dispatches on `Type()` and that is REFERENCE_TYPE -/
def fillerKey (a : AttrD) : Option Kind :=
  if fillerDispatch = "Type" && a.typeRef then none else some a.kind

/-- `STEPattribute::STEPread` of an attribute that is not forwarded: (severity left in its error, value stored) -/
def attrReadOwn (strict : Bool) (a : AttrD) (t : Tok) : Sev × Val :=
  if a.derived then
    match t with
    | .star => (sevDerivedOk, .derived)
    | _ => (Sev.greater sevDerivedBad .warning, .derived)
  else
    match t with
    | .missing dollar =>
      -- `$` is consumed and CheckRemainingInput runs; `Tok.missing` stands for a `$` (or nothing) directly followed by
      -- its delimiter, for which CheckRemainingInput finds nothing
      if a.optional then ((match sevNullableOverride with | some s => s | none => Sev.null), .null)
      else if !strict && (match lenientOnlyFor with | none => true | some c => dollar && c = consumedNullChar) then
        match (fillerKey a).bind fillerFor with
        | none => (sevLenientOtherKind, .null)
        | some (filler, reader, arg) =>
          let (v, e) := runFiller reader filler arg
          if e.le sevFillerFailThreshold then (sevFillerFail, match v with | some s => .tok s | none => .null)
          else (sevFillerOk, match v with | some s => .tok s | none => .null)
      else (sevStrictMissing, .null)
    | .star => (.warning, .null)       -- not a pre-check case; the literal readers reject `*` (not used by C15's inputs)
    | .lit v s => (s, v)

/-- `STEPattribute::STEPread` with the shape of the `_redefAttr` block as parameters: a redeclared position forwards to its
    redefining attribute FIRST (before the derived and the null checks), handing it `rstrict` (`none` = the caller's flag);
    the instance then looks at the error of the redeclared position itself, which carries what the redefining attribute
    found only when `reports` -/
def attrReadR (reports : Bool) (rstrict : Option Bool) (strict : Bool) (a : AttrD) (t : Tok) : Sev × Val :=
  if a.redef then
    let r := attrReadOwn (match rstrict with | none => strict | some b => b) { a with redef := false, derived := false } t
    if reports then r else (.null, r.2)
  else attrReadOwn strict a t

/-- `STEPattribute::STEPread` of the code at hand (`Generated.redefReportsError`, `Generated.redefStrict`) -/
def attrRead (strict : Bool) (a : AttrD) (t : Tok) : Sev × Val := attrReadR redefReportsError redefStrict strict a t

/-- merge step of `SDAI_Application_instance::STEPread` -/
def mergeAttr (acc s : Sev) : Sev := if s.le sevAttrMergeThreshold then Sev.greater acc s else acc

/-- `strict` as received by `attributes[i].STEPread` -/
def attrStrict (instStrict : Bool) : Bool := match instAttrStrict with | none => instStrict | some b => b

/-- `SDAI_Application_instance::STEPread` on as many tokens as attributes: (instance severity, values) -/
def instReadAux (strict : Bool) : Sev → List AttrD → List Tok → Sev × List Val
  | acc, a :: as, t :: ts =>
    let (s, v) := attrRead (attrStrict strict) a t
    let (s', vs) := instReadAux strict (mergeAttr acc s) as ts
    (s', v :: vs)
  | acc, _, _ => (acc, [])

def instRead (strict : Bool) (as : List AttrD) (ts : List Tok) : Sev × List Val := instReadAux strict .null as ts

/-! ### the read loop of `SDAI_Application_instance::STEPread` with redefining attributes (technical-corrigendum encoding)

The C++ attribute list of an entity that redeclares inherited attributes is: inherited positions, then one *redefining*
attribute per redeclaration, then the entity's own attributes.  A redefining attribute has no value in the file; the
loop only peeks: when the next character is `)` (the last value was left out) it consumes it.  After any `)` the
look-ahead reports "Missing attribute value[s]" if a non-redefining attribute is still to come — examining every
`step`-th remaining entry (`Generated.lookAheadStep`). -/

inductive Slot where
  | attr (a : AttrD)
  | redefining
  deriving DecidableEq, Repr, Inhabited

def Slot.isAttr : Slot → Bool | .attr _ => true | .redefining => false

/-- the entries the look-ahead examines: the first, then every `step`-th (`i++` once per entry examined and `step - 1`
    more times before the next test); `skip` = entries still to step over -/
def everyNthAux (step : Nat) : Nat → List Slot → List Slot
  | _, [] => []
  | 0, x :: xs => x :: everyNthAux step (step - 1) xs
  | k + 1, _ :: xs => everyNthAux step k xs

def everyNth (step : Nat) (l : List Slot) : List Slot := everyNthAux step 0 l

def lookAheadR (step : Nat) (acc : Sev) (rest : List Slot) : Sev :=
  if (everyNth step rest).any Slot.isAttr then Sev.greater acc sevMissingTrailing else acc

/-- values of the attributes that were never reached -/
def unreadVals (rest : List Slot) : List Val := (rest.filter Slot.isAttr).map (fun _ => Val.null)

/-- the loop: (instance severity, value per non-redefining attribute).  `ts` is what is left of the parameter list; the
    last token is the one followed by `)` -/
def loopReadR (step : Nat) (strict : Bool) : Sev → List Slot → List Tok → Sev × List Val
  | acc, [], [] => (acc, [])
  | acc, [], _ :: _ => (Sev.greater acc .inputError, [])          -- "No more attributes were expected"
  | acc, .redefining :: es, ts =>
    match ts with
    | [.missing false] => (lookAheadR step acc es, unreadVals es)   -- the `)` of a left-out last value is consumed here
    | _ => loopReadR step strict acc es ts
  | acc, .attr _ :: es, [] => (acc, Val.null :: unreadVals es)      -- not reachable from a parameter list (the loop returns at `)`)
  | acc, .attr a :: es, t :: ts =>
    let (s, v) := attrRead (attrStrict strict) a t
    let acc' := mergeAttr acc s
    match ts with
    | [] => (lookAheadR step acc' es, v :: unreadVals es)          -- the delimiter read after the value was `)`
    | _ => let (s', vs) := loopReadR step strict acc' es ts; (s', v :: vs)

def loopRead (strict : Bool) (es : List Slot) (ts : List Tok) : Sev × List Val := loopReadR lookAheadStep strict .null es ts

/-! ### the same loop with the pre-technical-corrigendum encoding (`useTechCor == false`)

Every redefining attribute has a value of its own in the parameter list, `*`.  The loop reads ONE character there; `*` →
the delimiter is read as well and the loop goes on as after an attribute.  Anything else → `Generated.sevPreTcNoStar`; if the
character was the delimiter itself (no value at all) the loop is aligned again, otherwise "Delimiter expected" is reported,
`CheckRemainingInput` skips the rest of the value (`Generated.sevPreTcGarbage` if there was a rest) and leaves the delimiter
UNREAD: the next entry of the attribute list starts at that delimiter, i.e. sees an absent value, and every later value is
read by the entry after the one it belongs to.  A token at a redefining entry stands for: `.star` `*`; `.missing false`
nothing; `.missing true` the one character `$`; `.lit` a value of two or more characters without `,` or `)` inside. -/

def loopReadPre (step : Nat) (strict : Bool) : Sev → List Slot → List Tok → Sev × List Val
  | acc, [], [] => (acc, [])
  | acc, [], _ :: _ => (Sev.greater acc .inputError, [])
  | acc, .redefining :: es, [] => (acc, unreadVals es)               -- not reachable (the loop returns at `)`)
  | acc, .redefining :: es, t :: ts =>
    match t with
    | .star =>
      (match ts with
       | [] => (lookAheadR step acc es, unreadVals es)
       | _ => loopReadPre step strict acc es ts)
    | .missing false =>
      let acc' := Sev.greater acc sevPreTcNoStar
      (match ts with
       | [] => (lookAheadR step acc' es, unreadVals es)
       | _ => loopReadPre step strict acc' es ts)
    | .missing true =>
      let acc' := Sev.greater acc sevPreTcNoStar
      if acc'.le preTcGiveUpAt then (acc', unreadVals es) else loopReadPre step strict acc' es (.missing false :: ts)
    | .lit _ _ =>
      let acc' := Sev.greater (Sev.greater acc sevPreTcNoStar) sevPreTcGarbage
      if acc'.le preTcGiveUpAt then (acc', unreadVals es) else loopReadPre step strict acc' es (.missing false :: ts)
  | acc, .attr _ :: es, [] => (acc, Val.null :: unreadVals es)
  | acc, .attr a :: es, t :: ts =>
    let (s, v) := attrRead (attrStrict strict) a t
    let acc' := mergeAttr acc s
    match ts with
    | [] => (lookAheadR step acc' es, v :: unreadVals es)
    | _ => let (s', vs) := loopReadPre step strict acc' es ts; (s', v :: vs)

/-- `SDAI_Application_instance::STEPread( …, useTechCor, strict )` -/
def loopReadTC (useTechCor strict : Bool) (es : List Slot) (ts : List Tok) : Sev × List Val :=
  if useTechCor then loopReadR lookAheadStep strict .null es ts else loopReadPre lookAheadStep strict .null es ts

/-- `strict` as received by the parts of a complex instance -/
def partStrict (fileStrict : Bool) : Bool := match complexPartStrict with | none => fileStrict | some b => b

/-- how `STEPcomplex::STEPread` lets the errors of the parts reach the instance's own error -/
inductive CxMerge where
  /-- not at all: only the error of the first part (the `STEPcomplex` object the read was called on) survives -/
  | none
  /-- the whole error of every other part is appended (rejected repair C15-3: a sibling part's derived attribute then counts) -/
  | all
  /-- the errors of the other parts' attributes are appended, attributes flagged derived excepted (repair C15-8) -/
  | nonDerivedAttrs
  deriving DecidableEq, Repr, Inhabited

def CxMerge.ofName (s : String) : CxMerge :=
  if s = "all" then .all else if s = "nonDerivedAttrs" then .nonDerivedAttrs else .none

/-- the two places that decide what a complex instance's attribute errors do to the file: the merge in
    `STEPcomplex::STEPread` and whether `STEPfile::ReadInstance` hands the instance's error to `AppendEntityErrorMsg` -/
structure CxShape where
  merge : CxMerge
  reports : Bool
  deriving DecidableEq, Repr, Inhabited

/-- the shape of the code at hand (regenerated) -/
def codeShape : CxShape := ⟨CxMerge.ofName complexMerge, readInstComplexReportsError⟩

/-- severities of the attributes of one part that are not flagged derived, merged with the instance's threshold -/
def partAttrSev (strict : Bool) : Sev → List AttrD → List Tok → Sev
  | acc, a :: as, t :: ts =>
    partAttrSev strict (if a.derived then acc else mergeAttr acc (attrRead (attrStrict strict) a t).1) as ts
  | acc, _, _ => acc

/-- `STEPcomplex::STEPread`: parts in the order head, rest; head = the part that is `this` -/
def complexReadS (S : CxShape) (strict : Bool) (parts : List (List AttrD × List Tok)) : Sev × List (List Val) :=
  let rs := parts.map (fun p => instRead (partStrict strict) p.1 p.2)
  let sev := match parts with
    | [] => Sev.null
    | h :: rest =>
      let hs := (instRead (partStrict strict) h.1 h.2).1
      match S.merge with
      | .none => hs
      | .all => rest.foldl (fun acc p => Sev.greater acc (instRead (partStrict strict) p.1 p.2).1) hs
      | .nonDerivedAttrs => Sev.greater hs (rest.foldl (fun acc p => partAttrSev (partStrict strict) acc p.1 p.2) .null)
  (sev, rs.map (·.2))

def complexRead (strict : Bool) (parts : List (List AttrD × List Tok)) : Sev × List (List Val) :=
  complexReadS codeShape strict parts

/-! ### complex instances whose parts carry redefining entries (an ANDOR member that redeclares an attribute of its supertype)

`STEPcomplex::BuildAttrs` builds a part from `ExplicitAttr()` of its entity, redefining attribute descriptors included, and every
part is read by `SDAI_Application_instance::STEPread( …, useTechCor, strict )`: the loop above, per part, in either encoding
(`CA(5)` / pre-technical-corrigendum `CA(*,5)` for a part [redefining cr.n, x]). -/

/-- what C15-8 merges from a part other than the first: the errors its ATTRIBUTES hold after the part has been read, attributes
    flagged derived excepted.  A redefining attribute object is never read (its error is empty); in the technical-corrigendum
    encoding it takes no value, in the older one it takes one.  Aligned parameter lists only: a value other than `*` at a
    redefining entry of the older encoding shifts the rest of the list in the code (`C15_pretc_dollar_shifts_witness`), which
    this walk over a part that is NOT the first does not follow. -/
def partAttrSevL (tc strict : Bool) : Sev → List Slot → List Tok → Sev
  | acc, .redefining :: es, ts => if tc then partAttrSevL tc strict acc es ts else partAttrSevL tc strict acc es ts.tail
  | acc, .attr a :: es, t :: ts =>
    partAttrSevL tc strict (if a.derived then acc else mergeAttr acc (attrRead (attrStrict strict) a t).1) es ts
  | acc, _, _ => acc

/-- `STEPcomplex::STEPread` over parts given as attribute lists WITH redefining entries, in encoding `tc` -/
def complexReadLS (S : CxShape) (tc strict : Bool) (parts : List (List Slot × List Tok)) : Sev × List (List Val) :=
  let rs := parts.map (fun p => loopReadTC tc (partStrict strict) p.1 p.2)
  let sev := match parts with
    | [] => Sev.null
    | h :: rest =>
      let hs := (loopReadTC tc (partStrict strict) h.1 h.2).1
      match S.merge with
      | .none => hs
      | .all => rest.foldl (fun acc p => Sev.greater acc (loopReadTC tc (partStrict strict) p.1 p.2).1) hs
      | .nonDerivedAttrs => Sev.greater hs (rest.foldl (fun acc p => partAttrSevL tc (partStrict strict) acc p.1 p.2) .null)
  (sev, rs.map (·.2))

/-- `strict` as received by `obj->STEPread` in `STEPfile::ReadInstance` -/
def fileStrictFor (complex : Bool) (fileStrict : Bool) : Bool :=
  if complex then (if readInstComplexPassesStrict then fileStrict else true)
  else (if readInstSimplePassesStrict then fileStrict else true)

/-- what `ReadInstance` knows about one instance after reading it -/
structure InstResult where
  sev : Sev
  complex : Bool
  deriving DecidableEq, Repr, Inhabited

def reportsErrorS (S : CxShape) (r : InstResult) : Bool :=
  if r.complex then S.reports else readInstSimpleReportsError

/-- `AppendEntityErrorMsg` effect on the file's severity -/
def entityMerge (e s : Sev) : Sev :=
  if s = .null then e else Sev.greater e (if s.lt sevEntityFloorBelow then sevEntityFloor else s)

def afterInstS (S : CxShape) (e : Sev) (r : InstResult) : Sev := if reportsErrorS S r then entityMerge e r.sev else e

/-- the severity `ReadData2` still finds on the instance (AppendEntityErrorMsg clears it) -/
def leftOverS (S : CxShape) (r : InstResult) : Sev := if reportsErrorS S r then .null else r.sev
def rd2InvalidS (S : CxShape) (r : InstResult) : Bool :=
  (leftOverS S r).lt rd2InvalidBelow || leftOverS S r = rd2IncompleteAt
def rd2ValidS (S : CxShape) (r : InstResult) : Bool :=
  !((leftOverS S r).lt rd2InvalidBelow) && !(leftOverS S r = rd2IncompleteAt) && !(leftOverS S r = rd2WarningAt)

/-- `STEPfile::Error().severity()` after `ReadExchangeFile` of a file whose header, section keywords and entity names
    are fine (every instance created in pass 1) -/
def fileSevS (S : CxShape) (rs : List InstResult) : Sev :=
  let e := rs.foldl (afterInstS S) .null
  let e := if rs.any (rd2InvalidS S) then Sev.greater e rd2SevWhenInvalid else e
  if rs.all (rd2ValidS S) then e else Sev.greater e sevNotAllValid

def reportsError (r : InstResult) : Bool := reportsErrorS codeShape r
def afterInst (e : Sev) (r : InstResult) : Sev := afterInstS codeShape e r
def leftOver (r : InstResult) : Sev := leftOverS codeShape r
def rd2Invalid (r : InstResult) : Bool := rd2InvalidS codeShape r
def rd2Valid (r : InstResult) : Bool := rd2ValidS codeShape r
def fileSev (rs : List InstResult) : Sev := fileSevS codeShape rs

/-- p21read's exit status after reading (before it attempts to write) -/
def p21readExit (e : Sev) : Nat := if e.le p21readExitThreshold then 1 else 0

/-- "the file is accepted" -/
def accepted (e : Sev) : Bool := p21readExit e = 0

def nodeState (r : InstResult) : NodeState := exchangeStateOf r.sev

end StepModel.AttrNull

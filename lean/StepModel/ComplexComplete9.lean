import StepModel.ComplexComplete8
/-! **Completeness of the matcher on lists with distinct leaves, OrLists included** (requests without multiply-inheriting
members): if the request is — as a set — one of the name sets a list derives, `ComplexList::matches` accepts it, already
in its first two phases (no backtracking is needed: every OrList on the chosen path has exactly one alternative that
counts). -/
namespace StepModel.Complex.Match
open StepModel.Generated StepModel.Complex

theorem matches_complete (fuel : Nat) (r0 : Name) (rest : List Tree) (es : Ents)
    (hwf : treeWF (.and (.simple r0 :: rest)) = true) (hnd : (leaves (.and (.simple r0 :: rest))).Nodup)
    (hsmall : smallOrT (.and (.simple r0 :: rest))) (hN : (names es).Pairwise (· < ·)) (hfresh : ∀ n, markAt es n = .no)
    (Y : List Name) (hY : Y ∈ denote (.and (.simple r0 :: rest))) (hss : SameSet Y (names es)) (b : Bool)
    (h : matchesList fuel false (.and (.simple r0 :: rest)) es = .ok b) : b = true := by
  generalize hhead : Tree.and (.simple r0 :: rest) = head at *
  have halive : AliveT (names es) head := alive_of_der (names es) head Y hY hnd (fun x _ => (hss x).symm)
  have hsubL : ∀ n ∈ names es, n ∈ leaves head := fun n hn => denote_sub head Y hY n ((hss n).mpr hn)
  have hr0 : r0 ∈ names es := by
    rw [← hhead] at halive
    simp only [AliveT, AliveAll] at halive
    exact halive.1
  have hf0 : Fr0 (fun _ => 0) es := fun n => by simp [hfresh n]
  have hnotall : allMarked es = true → False := by
    intro ham
    have := (allMarked_markAt (nodup_of_sorted hN)).mp ham r0 hr0
    exact this (hfresh r0)
  have HT0 : HT (names es) head (fun _ => 0) es := ⟨hwf, hnd, fun _ _ => rfl, hf0, rfl⟩
  have hnotor : isOrT head = false := by rw [← hhead]; rfl
  unfold matchesList at h
  have hbl : buildList head = some ((leavesL rest).foldl (fun acc x => ins x acc) [r0]) := by rw [← hhead]; rfl
  rw [hbl] at h
  simp only at h
  have hcw : containsWalk ((leavesL rest).foldl (fun acc x => ins x acc) [r0]) (es.map (·.name)) = true := by
    have hsub : ∀ x ∈ es.map (·.name), x ∈ insAll [r0] (leavesL rest) := by
      intro x hx
      have := hsubL x hx
      rw [← hhead] at this
      apply (mem_insAll (leavesL rest) [r0] x).mpr
      simp only [leaves, leavesL, List.mem_append, List.mem_singleton] at this
      rcases this with e | e
      · exact Or.inl (by simp [e])
      · exact Or.inr e
    exact containsWalk_complete _ _ (sorted_insAll (leavesL rest) [r0] (by simp)) hN hsub
  simp only [hcw, Bool.not_true, Bool.false_eq_true, if_false] at h
  obtain ⟨⟨h1, es1, r1⟩, hA, hB⟩ := bind_ok' h
  have S := (nonors_sem (names es) hN fuel).1 head es _ hA hwf rfl
  have M := (nonors_marks (names es) hN fuel).1 head es _ _ hA hwf rfl hf0
  have P := (nonors_pos (names es) hN fuel).1 head es _ _ False hA HT0 halive hnotall
  have hvia : h1.viable = r1 := S.via hnotor
  have hlv1 : lvS h1 = leaves head := by rw [lvS_eq, S.trr]
  simp only at hB
  -- once every leaf in the request is held, all members are marked
  have allm : ∀ (t' : ST) (es' : Ents), Fr (fun _ => 0) t' es' → names es' = names es → lvS t' = leaves head →
      (∀ n ∈ names es, n ∈ lvS t' → n ∈ holds t') → allMarked es' = true := by
    intro t' es' hfr hnm hlv hcov
    apply (am_char hN (L := lvS t') hfr hnm hcov (fun n hn => holds_sub t' n hn)).mpr
    intro n hn
    exact Or.inr (by rw [hlv]; exact hsubL n hn)
  by_cases hall : r1 = .all
  · simp only [hall, if_true] at hB; cases hB; rfl
  · simp only [hall, if_false] at hB
    by_cases hu : r1 = .unknown
    · simp only [hu, ne_eq, not_true_eq_false, if_false] at hB
      obtain ⟨⟨h2, es2, r2⟩, hC, hD⟩ := bind_ok' hB
      have hu1 : h1.viable = .unknown := by rw [hvia]; exact hu
      have hpend : Pend h1 := S.pend hu1
      have O := (ors_sem (names es) hN fuel).1 h1 es1 _ hC hpend S.sem S.nm
      have OM := (ors_marks (names es) hN fuel).1 h1 es1 _ _ hC hpend S.sem S.nm M.fr M.tidy
      have H : H2 (names es) h1 (fun _ => 0) es1 :=
        ⟨P.ac.2 hu1, hpend, S.sem, S.nm, M.fr, M.tidy, P.cov, by rw [hlv1]; exact hnd, fun _ _ => rfl,
          smallOr_trV _ (by rw [S.trr]; exact hsmall)⟩
      have Q := (ors_pos (names es) hN fuel).1 h1 es1 _ _ False hC H P.has
      have hlv2 : lvS h2 = leaves head := by rw [lvS_eq, O.trr, S.trr]
      have ham2 : allMarked es2 = true :=
        allm h2 es2 OM.fr O.nm hlv2 (fun n hn hx => Q.cov n hn (by rw [hlv1, ← hlv2]; exact hx))
      have hr2 : r2 = .all := by
        rcases Q.has ham2 with w | w
        · exact w.elim
        · have := Q.ret; simp only at this
          rw [this]; exact HasAll_known w (PA_known Q.pa)
      simp only [hr2, hitMultNodes, Bool.not_false, if_true, decide_true, Bool.and_self] at hD
      cases hD; rfl
    · -- known but not MATCHALL: impossible
      exfalso
      have hk1 : h1.viable ≠ .unknown := by rw [hvia]; exact hu
      have ham1 : allMarked es1 = true := allm h1 es1 M.fr S.nm hlv1 (cov_full P.cov hk1)
      rcases P.has ham1 with w | w
      · exact w
      · exact hall (by rw [← hvia]; exact HasAll_known w hk1)

/-- **completeness of `supports`** on collects whose lists have distinct leaves (requests without multiply-inheriting
members) -/
theorem supports_complete (c : Collect) (parts : List Name) (hc : ∀ h ∈ c, headWF h = true)
    (hnd : ∀ h ∈ c, (leaves h).Nodup) (hsm : ∀ h ∈ c, smallOrT h) (b : Bool) (hs : supports c [] parts = .ok b)
    (he : evalB c [] parts = true) : b = true := by
  have hn : names (mkEnts [] parts) = mkNames parts := by
    simp [names, mkEnts, List.map_map, Function.comp_def]
  have hsorted : (names (mkEnts [] parts)).Pairwise (· < ·) := by rw [hn]; exact sorted_mkNames parts
  obtain ⟨h, hh, Y, hY, hss⟩ := (evalB_nomult c parts).mp he
  cases b with
  | true => rfl
  | false =>
    exfalso
    unfold supports supportsEnts at hs
    have hnm : (mkEnts [] parts).any (fun e => e.mult) = false := by simp [mkEnts]
    simp only [hnm, Bool.false_eq_true, if_false] at hs
    have hm := (foldlM_false false hs).2 h hh
    obtain ⟨n, t, rfl, ht⟩ := headWF_shape (hc h hh)
    have hwf : treeWF (.and [.simple n, t]) = true := by simp [treeWF, treeWFL, ht]
    have := matches_complete _ n [t] _ hwf (hnd _ hh) (hsm _ hh) hsorted (markAt_mkEnts parts) Y hY
      (by rw [hn]; exact hss.trans (fun x => (mem_mkNames parts x).symm)) false hm
    cases this

end StepModel.Complex.Match

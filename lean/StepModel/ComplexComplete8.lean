import StepModel.ComplexComplete7
/-! Completeness on distinct leaves, phase 2: the induction over `matchORs` / `joinORs` / `orORs`. -/
namespace StepModel.Complex.Match
open StepModel.Generated StepModel.Complex

/-- state of the loop of `OrList::matchORs` on an alive OrList: the alive alternative still ahead, or already tried -/
def OrSt (N : List Name) (W : Prop) (o : Name → Nat) (restT : List Tree) (done : List ST) (v : MT) (c c1 : Int) : Prop :=
  (AliveOne N restT ∧ v.rank ≤ 1 ∧ c = -1 ∧ ∀ d ∈ done, DeadS N d) ∨
  (DeadL N restT ∧ ∃ (i0 : Nat) (alt : ST), done[i0]? = some alt ∧ PA N alt ∧
    (∀ p d, done[p]? = some d → p ≠ i0 → DeadS N d) ∧ v = alt.viable ∧ c = (i0 : Int) ∧ c1 = (i0 : Int) ∧
    ((∀ n ∈ N, 0 < o n ∨ n ∈ lvS alt) → W ∨ v = .all))

theorem ors_pos (N : List Name) (hN : N.Pairwise (· < ·)) : ∀ f : Nat,
    (∀ t es r o W, matchORs f t es = .ok r → H2 N t o es → (allMarked es = true → W ∨ HasAll t) → P2 N W t r) ∧
    (∀ isAnd done rest es r o W, joinORs f isAnd done rest es = .ok r → H2L N rest o es →
      (isAnd = true → PPall N rest) → (isAnd = false → PPsome N rest) →
      (allMarked es = true → W ∨ HasAllAny rest) →
      ∃ tail, r.1 = done ++ tail ∧ r.2.2 = false ∧ (∀ n ∈ N, n ∈ lvSL rest → n ∈ holdsL tail) ∧
        (allMarked r.2.1 = true → W ∨ HasAllAny tail) ∧ (∀ x ∈ tail, x.viable ≠ .unknown) ∧
        (isAnd = true → PAall N tail) ∧ (isAnd = false → PAsome N tail ∧ (PPany N rest → PAany N tail)) ∧
        tail.length = rest.length) ∧
    (∀ restT idx done es rv v c c1 k r o W, orORs f idx done (freshL restT) es rv v c c1 k = .ok r →
      HTL N restT o es → idx = done.length → smallOrTL restT → OrSt N W o restT done v c c1 → (allMarked es = true → W) →
      ∃ tail, r.1 = done ++ tail ∧ holdsL tail = [] ∧ Fr0 o r.2.1 ∧ names r.2.1 = N ∧
        (∀ x, markAt r.2.1 x = markAt es x) ∧ lvSL tail = leavesL restT ∧ tail.length = restT.length ∧
        OrSt N W o [] r.1 r.2.2.2.1 r.2.2.2.2.1 r.2.2.2.2.2.1) := by
  intro f
  induction f with
  | zero =>
    exact ⟨fun _ _ _ _ _ h => by simp [matchORs] at h, fun _ _ _ _ _ _ _ h => by simp [joinORs] at h,
      fun _ _ _ _ _ _ _ _ _ _ _ _ h => by simp [orORs] at h⟩
  | succ f ih =>
    obtain ⟨ih1, ih2, ih3⟩ := ih
    refine ⟨?_, ?_, ?_⟩
    · intro t es r o W h H hW
      have O := (ors_sem N hN (f + 1)).1 t es r h H.pend H.sem H.nm
      cases t with
      | simple n v im => exact absurd H.pp (by simp [PP])
      | mult j v c c1 k cs =>
        have hfr := H.fr
        obtain ⟨hc, hl⟩ := hfr
        simp only [Loc] at hl
        have htidy := H.tidy
        simp only [Tidy] at htidy
        have hsem := H.sem
        simp only [skel] at hsem
        have hne : cs ≠ [] := by intro e; subst e; exact hsem.1 rfl
        have hemp : cs.isEmpty = false := by cases cs with | nil => exact absurd rfl hne | cons => rfl
        have hsm := H.sm
        simp only [skel, smallOr] at hsm
        have hvu := PP_unknown H.pp
        simp only [ST.viable] at hvu
        have hWL : j ≠ .or → allMarked es = true → W ∨ HasAllAny cs := by
          intro _ ham
          rcases hW ham with w | hh
          · exact Or.inl w
          · simp only [HasAll] at hh
            rcases hh with e | e
            · rw [hvu] at e; cases e
            · exact Or.inr e.2
        -- the finished AND / ANDOR node
        have fin : ∀ (cs' : List ST) (es' : Ents) (c' c1' : Int) (k' : Nat) (j' : Join), j' ≠ .or →
            (∀ n ∈ N, n ∈ lvSL cs → n ∈ holdsL cs') → (allMarked es' = true → W ∨ HasAllAny cs') →
            (∀ x ∈ cs', x.viable ≠ .unknown) → (∀ x ∈ cs', Stored x.viable) → cs' ≠ [] →
            (∃ x ∈ cs', x.atLeastSome = true) →
            (MT.rank .some_ ≤ (setViableVal cs' es').rank → PA N (.mult j' (setViableVal cs' es') c' c1' k' cs')) →
            P2 N W (.mult j v c c1 k cs) (.mult j' (setViableVal cs' es') c' c1' k' cs', es', setViableVal cs' es') := by
          intro cs' es' c' c1' k' j' _ hcov hhas hknown hst hne' hals hpa
          have hrk := setViableVal_ge_some (es := es') hknown hals
          refine ⟨hpa hrk, fun n hn hx => by simp only [lvS] at hx; simp only [holds]; exact hcov n hn hx, fun ham => ?_, rfl⟩
          rcases hhas ham with w | w
          · exact Or.inl w
          · obtain ⟨x, hx, hxa⟩ := (HasAllAny_iff cs').mp w
            exact Or.inr (Or.inl (setViableVal_all_of ham hknown hst ⟨x, hx, HasAll_known hxa (hknown x hx)⟩))
        cases j with
        | and =>
          have hpp := H.pp
          simp only [PP] at hpp
          have hpend := H.pend
          simp only [Pend] at hpend
          have hcovL : CovL N cs := fun n hn hd => by
            have := H.cov n hn (by simp [dl, hpp.1, hd]); simpa [holds] using this
          have HL : H2L N cs o es := ⟨hpend.2, hsem.2.1, H.nm, ⟨hc, hl⟩, htidy.1, hcovL, by simpa [lvS] using H.nd,
            fun n hn => H.out n (by simpa [lvS] using hn), hsm.2⟩
          simp only [matchORs, hemp, Bool.false_eq_true, if_false] at h
          obtain ⟨⟨cs', es', failed⟩, h1, h2⟩ := bind_ok' h
          obtain ⟨tail, htail, hflag, hcov, hhas, hknown, hpaall, _, hlen⟩ :=
            ih2 true [] cs es _ o W h1 HL (fun _ => hpp.2) (fun h' => by cases h') (hWL (by simp))
          simp only [List.nil_append] at htail
          subst htail
          simp only at hflag
          subst hflag
          simp only [Bool.false_eq_true, if_false] at h2
          cases h2
          have hne' : cs' ≠ [] := ne_nil_of_len hlen hne
          have hsem' := O.sem
          simp only [skel] at hsem'
          have hst : ∀ x ∈ cs', Stored x.viable := fun x hx => by
            have := SemV_stored (SemV_child hsem'.2.1 hx); rwa [viable_skel'] at this
          have hpa' := hpaall rfl
          obtain ⟨x0, hx0⟩ := List.exists_mem_of_ne_nil cs' hne'
          have hals : ∃ x ∈ cs', x.atLeastSome = true := by
            have : ∀ (l : List ST), PAall N l → ∀ x ∈ l, PA N x := by
              intro l
              induction l with
              | nil => intro _ x hx; cases hx
              | cons a l ih => intro h x hx; exact (List.mem_cons.mp hx).elim (fun e => e ▸ h.1) (fun e => ih h.2 x e)
            exact ⟨x0, hx0, PA_als (this cs' hpa' x0 hx0)⟩
          exact fin cs' es' c c1 k .and (by simp) hcov hhas hknown hst hne' hals
            (fun hrk => by simp only [PA]; exact ⟨hrk, hne', hpa'⟩)
        | andor =>
          have hpp := H.pp
          simp only [PP] at hpp
          have hpend := H.pend
          simp only [Pend] at hpend
          have hcovL : CovL N cs := fun n hn hd => by
            have := H.cov n hn (by simp [dl, hpp.1, hd]); simpa [holds] using this
          have HL : H2L N cs o es := ⟨hpend.2, hsem.2.1, H.nm, ⟨hc, hl⟩, htidy.1, hcovL, by simpa [lvS] using H.nd,
            fun n hn => H.out n (by simpa [lvS] using hn), hsm.2⟩
          simp only [matchORs, hemp, Bool.false_eq_true, if_false] at h
          obtain ⟨⟨cs', es', flag⟩, h1, h2⟩ := bind_ok' h
          obtain ⟨tail, htail, _, hcov, hhas, hknown, _, hpas, hlen⟩ :=
            ih2 false [] cs es _ o W h1 HL (fun h' => by cases h') (fun _ => hpp.2.1) (hWL (by simp))
          simp only [List.nil_append] at htail
          subst htail
          cases h2
          have hne' : cs' ≠ [] := ne_nil_of_len hlen hne
          have hsem' := O.sem
          simp only [skel] at hsem'
          have hst : ∀ x ∈ cs', Stored x.viable := fun x hx => by
            have := SemV_stored (SemV_child hsem'.2.1 hx); rwa [viable_skel'] at this
          obtain ⟨hsome', hany'⟩ := hpas rfl
          have hany'' := hany' hpp.2.2
          have hals : ∃ x ∈ cs', x.atLeastSome = true := by
            have : ∀ (l : List ST), PAany N l → ∃ x ∈ l, PA N x := by
              intro l
              induction l with
              | nil => intro h; simp [PAany] at h
              | cons a l ih =>
                intro h
                rcases h with e | e
                · exact ⟨a, by simp, e⟩
                · obtain ⟨x, hx, hp⟩ := ih e; exact ⟨x, List.mem_cons_of_mem _ hx, hp⟩
            obtain ⟨x, hx, hp⟩ := this cs' hany''
            exact ⟨x, hx, PA_als hp⟩
          exact fin cs' es' c c1 k .andor (by simp) hcov hhas hknown hst hne' hals
            (fun hrk => by simp only [PA]; exact ⟨hrk, hsome', hany''⟩)
        | or =>
          have hpp := H.pp
          simp only [PP] at hpp
          obtain ⟨ts, hts, hone⟩ := hpp
          have hpend := H.pend
          simp only [Pend] at hpend
          obtain ⟨ts', hts', hwf⟩ := hpend
          have : ts' = ts := by
            rw [hts] at hts'
            simp only [fresh] at hts'
            injection hts' with _ _ _ _ _ hcs
            have := congrArg (fun l => trVL (skelL l)) hcs
            simp only [trVL_fresh] at this
            exact this.symm
          subst this
          simp only [treeWF, Bool.and_eq_true, Bool.not_eq_true', List.isEmpty_eq_false_iff] at hwf
          have hsmT : smallOrT (.or ts') := by
            have := smallOrT_of _ H.sm
            rw [hts, trV_fresh] at this; exact this
          simp only [smallOrT] at hsmT
          have hlvt : lvS (ST.mult .or v c c1 k cs) = leavesL ts' := by rw [hts, lvS_fresh]; rfl
          have hh00 : holds (ST.mult .or v c c1 k cs) = [] := by rw [hts]; exact holds_fresh _
          have hf0 : Fr0 o es := fun x => by
            have := H.fr.1 x; rw [cnt_zero_of_nil hh00, Nat.add_zero] at this; exact this
          have HL : HTL N ts' o es := ⟨hwf.2, by rw [← hlvt]; exact H.nd, fun n hn => H.out n (by rw [hlvt]; exact hn), hf0, H.nm⟩
          have hW0 : allMarked es = true → W := fun ham => by
            rcases hW ham with w | w
            · exact w
            · rw [hts] at w; exact absurd w (not_hasAll_fresh _)
          simp only [fresh] at hts
          injection hts with _ hv' hc' hc1' hk' hcs'
          subst hv' hc' hc1' hk' hcs'
          simp only [matchORs] at h
          obtain ⟨⟨cs', es', rv', v', c', c1', k'⟩, h1, h2⟩ := bind_ok' h
          obtain ⟨tail, htail, h0t, hf1, hn1, hms1, hlvs, hlen, hfin⟩ :=
            ih3 ts' 0 [] es _ _ _ _ _ _ o W h1 HL rfl hsmT.2
              (Or.inl ⟨hone, by simp [MT.rank], rfl, fun d hd => by cases hd⟩) hW0
          simp only [List.nil_append] at htail
          subst htail
          simp only at h0t hf1 hn1 hms1 hfin h2
          rcases hfin with ⟨hbad, _⟩ | ⟨_, i0, alt, hi0, hpa0, hoth0, hv0, hc0, hc10, hT0⟩
          · simp [AliveOne] at hbad
          · subst hv0 hc0 hc10
            have hi0l : i0 < cs'.length := (List.getElem?_eq_some_iff.mp hi0).1
            have hrk : MT.rank .some_ ≤ alt.viable.rank := of_decide_eq_true (PA_als hpa0)
            have hne_le : ((i0 : Nat) : Int) ≠ listEnd := by
              have h1' : ((cs'.length : Nat) : Int) < listEnd := by rw [hlen]; exact hsmT.1
              have h2' : ((i0 : Nat) : Int) < (cs'.length : Int) := by exact_mod_cast hi0l
              omega
            have hpanode : PA N (ST.mult .or alt.viable (i0 : Int) (i0 : Int) k' cs') := by
              simp only [PA]
              refine ⟨hrk, hne_le, ?_, ?_⟩
              · rw [inRange_cast hi0l]; simp
              · simp only [Int.toNat_natCast]
                exact PAone_of cs' i0 alt hi0 hpa0 hoth0
            have hhn : holds (ST.mult .or alt.viable (i0 : Int) (i0 : Int) k' cs') = [] := by simp only [holds]; exact h0t
            have hndn : (lvS (ST.mult .or alt.viable (i0 : Int) (i0 : Int) k' cs')).Nodup := by
              simp only [lvS]; rw [hlvs]; exact HL.nd
            have houtn : ∀ n ∈ lvS (ST.mult .or alt.viable (i0 : Int) (i0 : Int) k' cs'), o n = 0 := by
              intro n hn; simp only [lvS] at hn; rw [hlvs] at hn; exact HL.out n hn
            obtain ⟨⟨node', es''⟩, hA, hB⟩ := ite_bind_ok h2
            simp only [hrk, if_true] at hA
            unfold acceptDrop at hA
            obtain ⟨⟨n', e', b⟩, a1, a2⟩ := bind_ok' hA
            cases a2
            obtain ⟨hcovA, _, hpaA⟩ := (accept_pos N hN f).1 _ es' _ o a1 hn1 (Fr_of_H0 hhn hf1) hhn hndn houtn hpanode
              (Tidy_of_H0 _ hhn)
            have PM := (accept_marks N hN f).1 _ es' _ o a1 hn1 (Fr_of_H0 hhn hf1) (Tidy_of_H0 _ hhn)
              (by simp only [Idle]; exact h0t) (fun h' => by cases h')
            obtain ⟨c'', cs'', hshape, hskL⟩ := accept_or_shape f _ _ _ _ _ es' _ a1
            simp only at hshape hcovA hpaA
            subst hshape
            have hn'' : names es'' = N := by rw [(accept_names f).1 _ es' _ a1]; exact hn1
            have hlen'' : cs''.length = cs'.length := by rw [← skelL_length cs'', hskL, skelL_length]
            obtain ⟨alt'', halt'', hva''⟩ := getElem?_viable_of_skelL hskL.symm hi0
            -- what is returned
            have hret : r = (ST.mult .or alt.viable c'' (i0 : Int) k' cs'', es'', alt.viable) := by
              simp only at hB
              split at hB
              · rename_i hall
                rw [inRange_cast (by rw [hlen'']; exact hi0l)] at hB
                simp only [halt''] at hB
                cases hB
                rw [hva'']
              · cases hB; rfl
            rw [hret]
            refine ⟨hpaA, fun n hn hx => hcovA n hn (by simp only [lvS]; rw [hlvs, ← hlvt]; exact hx), fun ham => ?_, rfl⟩
            have hlvn' : lvS (ST.mult .or alt.viable c'' (i0 : Int) k' cs'') = lvSL cs' := by
              have := (accept_skel f).1 _ es' _ a1
              rw [lvS_of_skel this]; rfl
            have hchar := am_char hN (o := o) (t' := ST.mult .or alt.viable c'' (i0 : Int) k' cs'') (es' := es'') (L := lvS alt) PM.fr hn''
              (fun n hn hx => hcovA n hn (by simp only [lvS]; exact lvS_sub_lvSL hi0 n hx))
              (fun n hn => by
                have hnl := holds_sub _ n hn
                rw [hlvn'] at hnl
                obtain ⟨p, d, hp, hnd'⟩ := mem_lvSL hnl
                by_cases hpi : p = i0
                · subst hpi; rw [hi0] at hp; cases hp; exact hnd'
                · exfalso
                  have hpos : 0 < cnt n (ST.mult .or alt.viable c'' (i0 : Int) k' cs'') := List.count_pos_iff.mpr hn
                  have := PM.fr.1 n
                  have hm : markAt es'' n ≠ .no := by
                    intro e; rw [e] at this; simp at this; omega
                  exact hoth0 p d hp hpi n hnd' (by rw [← hn'']; exact mem_of_markAt hm))
            rcases hT0 (hchar.mp ham) with w | w
            · exact Or.inl w
            · right
              apply HasAll_of_all
              exact w
    -- ================================================================ joinORs
    · intro isAnd done rest es r o W h H hcla hclo hW
      cases rest with
      | nil =>
        simp only [joinORs] at h; cases h
        refine ⟨[], (by simp), rfl, (fun n _ hx => by simp [lvSL] at hx), (fun ham => ?_), (fun x hx => by cases hx),
          (fun _ => trivial), (fun _ => ⟨trivial, fun h' => by simp [PPany] at h'⟩), rfl⟩
        rcases hW ham with w | w
        · exact Or.inl w
        · simp [HasAllAny] at w
      | cons ch rest' =>
        have hpend := H.pend
        simp only [PendL] at hpend
        have hsem := H.sem
        simp only [skelL, SemVL] at hsem
        have hfr := H.fr
        obtain ⟨hc, hl⟩ := hfr
        simp only [LocL] at hl
        have htidy := H.tidy
        simp only [TidyL] at htidy
        have hnd := H.nd
        simp only [lvSL] at hnd
        obtain ⟨n1, n2, dj⟩ := nodup_append_disj hnd
        have hsm := H.sm
        simp only [skelL, smallOrL] at hsm
        have hcovh : Cov N ch := CovL_head H.cov H.nd
        have hcovt : CovL N rest' := CovL_tail H.cov H.nd
        have houth : ∀ n ∈ lvS ch, o n = 0 := fun n hn => H.out n (by simp [lvSL, hn])
        have houtt : ∀ n ∈ lvSL rest', o n = 0 := fun n hn => H.out n (by simp [lvSL, hn])
        have hfrc : Fr (fun n => o n + cntL n rest') ch es := by
          refine ⟨fun x => ?_, hl.1⟩
          have := hc x
          rw [cntL_cons] at this
          show o x + cntL x rest' + cnt x ch = _
          omega
        have houtc : ∀ n ∈ lvS ch, (fun n => o n + cntL n rest') n = 0 := by
          intro n hn
          have h0 := houth n hn
          have hc0 : cntL n rest' = 0 := by
            apply List.count_eq_zero_of_not_mem
            intro hh
            exact dj n hn (holdsL_sub rest' n hh)
          show o n + cntL n rest' = 0
          omega
        -- the class of the first child
        have hcls : (ch.viable ≠ .unknown ∧ PA N ch) ∨ PP N ch ∨ (isAnd = false ∧ DeadS N ch ∧ ch.atLeastSome = false) := by
          cases isAnd with
          | true =>
            have := (hcla rfl).1
            rcases this with e | e
            · exact Or.inl e
            · exact Or.inr (Or.inl e)
          | false =>
            have := (hclo rfl).1
            rcases this with e | e | e
            · exact Or.inl e
            · exact Or.inr (Or.inl e)
            · exact Or.inr (Or.inr ⟨rfl, e⟩)
        have hclat : isAnd = true → PPall N rest' := fun hi => (hcla hi).2
        have hclot : isAnd = false → PPsome N rest' := fun hi => (hclo hi).2
        -- the rest of the list after the first child became `x` (same leaves) under request `es1`
        have restH : ∀ (x : ST) (es1 : Ents), lvS x = lvS ch → Fr (fun n => o n + cntL n rest') x es1 →
            SameOut (fun n => o n + cntL n rest') es es1 → names es1 = N → H2L N rest' (fun n => o n + cnt n x) es1 := by
          intro x es1 hlv hx hsx hn1
          refine ⟨hpend.2, hsem.2, hn1, ⟨fun y => ?_, LocL_congr rest' (fun y hy => hsx y (by show 0 < o y + cntL y rest'; omega)) hl.2⟩,
            htidy.2, hcovt, n2, fun n hn => ?_, hsm.2⟩
          · have h' : o y + cntL y rest' + cnt y x = (if markAt es1 y = Mark.no then 0 else 1) := hx.1 y
            show o y + cnt y x + cntL y rest' = _
            omega
          · have h0 := houtt n hn
            have hc0 : cnt n x = 0 := by
              apply List.count_eq_zero_of_not_mem
              intro hh
              have := holds_sub x n hh
              rw [hlv] at this
              exact dj n this hn
            show o n + cnt n x = 0
            omega
        -- assembling the result from the first child `x` and the result for the rest
        have asm : ∀ (x : ST) (tail2 : List ST) (esf : Ents) (Wx : Prop), x.viable ≠ .unknown →
            (∀ n ∈ N, n ∈ lvS ch → n ∈ holds x) → (∀ n ∈ N, n ∈ lvSL rest' → n ∈ holdsL tail2) →
            (allMarked esf = true → (W ∨ Wx) ∨ HasAllAny tail2) → (Wx → HasAll x) →
            (∀ y ∈ tail2, y.viable ≠ .unknown) → (PA N x ∨ (isAnd = false ∧ DeadS N x ∧ x.atLeastSome = false)) →
            (isAnd = true → PAall N tail2) → (isAnd = false → PAsome N tail2 ∧ (PPany N rest' → PAany N tail2)) →
            (PPany N (ch :: rest') → ¬ PA N x → PPany N rest') →
            tail2.length = rest'.length →
            (∀ n ∈ N, n ∈ lvSL (ch :: rest') → n ∈ holdsL (x :: tail2)) ∧
            (allMarked esf = true → W ∨ HasAllAny (x :: tail2)) ∧ (∀ y ∈ x :: tail2, y.viable ≠ .unknown) ∧
            (isAnd = true → PAall N (x :: tail2)) ∧
            (isAnd = false → PAsome N (x :: tail2) ∧ (PPany N (ch :: rest') → PAany N (x :: tail2))) ∧
            (x :: tail2).length = (ch :: rest').length := by
          intro x tail2 esf Wx hxk hcx hct hhas hWx hk2 hclx hall2 hsome2 hany hlen
          refine ⟨fun n hn hx' => ?_, fun ham => ?_, fun y hy => ?_, fun hi => ?_, fun hi => ⟨?_, fun hp => ?_⟩, by simp [hlen]⟩
          · simp only [lvSL, List.mem_append] at hx'
            simp only [holdsL, List.mem_append]
            rcases hx' with e | e
            · exact Or.inl (hcx n hn e)
            · exact Or.inr (hct n hn e)
          · rcases hhas ham with (w | w) | w
            · exact Or.inl w
            · exact Or.inr (Or.inl (hWx w))
            · exact Or.inr (Or.inr w)
          · rcases List.mem_cons.mp hy with e | e
            · rw [e]; exact hxk
            · exact hk2 y e
          · rcases hclx with e | e
            · exact ⟨e, hall2 hi⟩
            · rw [hi] at e; cases e.1
          · rcases hclx with e | e
            · exact ⟨Or.inl e, (hsome2 hi).1⟩
            · exact ⟨Or.inr e.2, (hsome2 hi).1⟩
          · by_cases hpx : PA N x
            · exact Or.inl hpx
            · exact Or.inr ((hsome2 hi).2 (hany hp hpx))
        simp only [joinORs] at h
        by_cases hu : ch.viable = .unknown
        · simp only [hu, if_true] at h
          split at h
          · cases h
          · obtain ⟨⟨ch', es1, rc⟩, h1, h2⟩ := bind_ok' h
            have hpendc : Pend ch := by
              rcases hpend.1 with h' | h'
              · exact absurd hu h'
              · exact h'
            have O := (ors_sem N hN f).1 ch es _ h1 hpendc hsem.1 H.nm
            have OM := (ors_marks N hN f).1 ch es _ _ h1 hpendc hsem.1 H.nm hfrc htidy.1
            have hlv' : lvS ch' = lvS ch := by rw [lvS_eq, lvS_eq, O.trr]
            simp only at h2
            -- the alive case, as a function of `PP ch` (also used to refute `PP` of a dead child)
            have alive : PP N ch → P2 N (W ∨ HasAllAny rest') ch (ch', es1, rc) := by
              intro hppc
              refine ih1 ch es _ _ (W ∨ HasAllAny rest') h1
                ⟨hppc, hpendc, hsem.1, H.nm, hfrc, htidy.1, hcovh, n1, houtc, hsm.1⟩ (fun ham => ?_)
              rcases hW ham with w | w
              · exact Or.inl (Or.inl w)
              · simp only [HasAllAny] at w
                rcases w with e | e
                · exact Or.inr e
                · exact Or.inl (Or.inr e)
            rcases hcls with hkn | hppc | hdead
            · exact absurd hu hkn.1
            · have P := alive hppc
              have hrk : MT.rank .some_ ≤ ch'.viable.rank := of_decide_eq_true (PA_als P.pa)
              have hnun : rc ≠ .unsat := by
                intro e
                have := P.ret; simp only at this
                rw [e] at this; rw [← this] at hrk; simp [MT.rank] at hrk
              simp only [hnun, if_false] at h2
              obtain ⟨tail2, ht2, hfl2, hct, hhas2, hk2, hall2, hsome2, hlen2⟩ :=
                ih2 isAnd (done ++ [ch']) rest' es1 r _ (W ∨ HasAll ch') h2 (restH ch' es1 hlv' OM.fr OM.same O.nm) hclat hclot
                  (fun ham => by
                    rcases P.has ham with (w | w) | w
                    · exact Or.inl (Or.inl w)
                    · exact Or.inr w
                    · exact Or.inl (Or.inr w))
              obtain ⟨a1, a2, a3, a4, a5, a6⟩ := asm ch' tail2 r.2.1 (HasAll ch') (PA_known P.pa) P.cov hct hhas2 id hk2
                (Or.inl P.pa) hall2 hsome2 (fun _ hnp => absurd P.pa hnp) hlen2
              exact ⟨ch' :: tail2, by rw [ht2]; simp, hfl2, a1, a2, a3, a4, a5, a6⟩
            · -- a dead waiting child: UNSATISFIED, unmarked, nothing changes
              obtain ⟨hia, hdeadc, hnals⟩ := hdead
              subst hia
              have hdead' : DeadS N ch' := fun x hx => hdeadc x (by rw [← hlv']; exact hx)
              have hh0 : holds ch = [] := dead_H0 hfrc H.nm hdeadc
              have hh1 : holds ch' = [] := dead_H0 OM.fr O.nm hdead'
              have hf0 : Fr0 (fun n => o n + cntL n rest') es := fun x => by
                have := hfrc.1 x; rw [cnt_zero_of_nil hh0, Nat.add_zero] at this; exact this
              have hf1 : Fr0 (fun n => o n + cntL n rest') es1 := fun x => by
                have := OM.fr.1 x; rw [cnt_zero_of_nil hh1, Nat.add_zero] at this; exact this
              have hms1 := marks_same_of_H0 hf0 hf1 OM.same
              have hrc : rc = .unsat := by
                rcases O.ret.2.2 with e | e
                · exact e
                · exact absurd (O.ret.2.1 e) (dead_notK O.sem hdead')
              simp only [hrc, if_true, Bool.false_eq_true, if_false] at h2
              obtain ⟨⟨ch2, es2⟩, h3, h4⟩ := bind_ok' h2
              have U := (unmark_marks N hN f).1 ch' es1 _ _ h3 O.nm OM.fr (OrT_of_Tidy _ OM.tidy)
              have hs2 := (unmark_skel f).1 ch' es1 _ h3
              have hn2 : names es2 = N := by rw [(unmark_names f).1 ch' es1 _ h3]; exact O.nm
              have hms2 := marks_same_of_H0 hf1 U.fr U.same
              have hlv2 : lvS ch2 = lvS ch := by rw [lvS_of_skel hs2]; exact hlv'
              have hv2 : ch2.viable = .unsat := by
                rw [viable_of_skel hs2]
                exact O.ret.1 hrc
              have hnd0 : (names es).Nodup := by rw [H.nm]; exact nodup_of_sorted hN
              have ham2 : allMarked es2 = allMarked es := by
                apply allMarked_congr' (by rw [hn2, H.nm]) hnd0
                intro x; rw [hms2 x, hms1 x]
              have hnotall : ¬ HasAll ch := dead_not_hasAll N ch hsem.1 hdeadc
              have H2' : H2L N rest' (fun n => o n + cnt n ch2) es2 :=
                restH ch2 es2 hlv2 (Fr_of_H0 U.h0 U.fr) (fun x hx => by rw [U.same x hx]; exact OM.same x hx) hn2
              obtain ⟨tail2, ht2, hfl2, hct, hhas2, hk2, hall2, hsome2, hlen2⟩ :=
                ih2 false (done ++ [ch2]) rest' es2 r _ (W ∨ False) h4 H2' hclat hclot
                  (fun ham => by
                    rcases hW (by rw [← ham2]; exact ham) with w | w
                    · exact Or.inl (Or.inl w)
                    · simp only [HasAllAny] at w
                      rcases w with e | e
                      · exact absurd e hnotall
                      · exact Or.inr e)
              have hnals2 : ch2.atLeastSome = false := by simp [ST.atLeastSome, hv2, MT.rank]
              have hdead2 : DeadS N ch2 := fun x hx => hdeadc x (by rw [← hlv2]; exact hx)
              obtain ⟨a1, a2, a3, a4, a5, a6⟩ := asm ch2 tail2 r.2.1 False (by rw [hv2]; simp)
                (fun n hn hx => absurd hn (hdeadc n hx)) hct hhas2 (fun h' => h'.elim) hk2
                (Or.inr ⟨rfl, hdead2, hnals2⟩) hall2 hsome2
                (fun hp _ => by
                  simp only [PPany] at hp
                  rcases hp with (e | e) | e
                  · exact absurd hu e.1
                  · -- an alive waiting child would have become a list that counts
                    exfalso
                    have P := alive e
                    have := PA_known P.pa
                    have hrk : MT.rank .some_ ≤ ch'.viable.rank := of_decide_eq_true (PA_als P.pa)
                    rw [O.ret.1 hrc] at hrk; simp [MT.rank] at hrk
                  · exact e) hlen2
              exact ⟨ch2 :: tail2, by rw [ht2]; simp, hfl2, a1, a2, a3, a4, a5, a6⟩
        · simp only [hu, if_false] at h
          rcases hcls with hkn | hppc | hdead
          · -- an alive child finished in phase 1
            have hlv0 : lvS ch = lvS ch := rfl
            obtain ⟨tail2, ht2, hfl2, hct, hhas2, hk2, hall2, hsome2, hlen2⟩ :=
              ih2 isAnd (done ++ [ch]) rest' es r _ (W ∨ HasAll ch) h (restH ch es hlv0 hfrc (fun _ _ => rfl) H.nm) hclat hclot
                (fun ham => by
                  rcases hW ham with w | w
                  · exact Or.inl (Or.inl w)
                  · simp only [HasAllAny] at w
                    rcases w with e | e
                    · exact Or.inl (Or.inr e)
                    · exact Or.inr e)
            obtain ⟨a1, a2, a3, a4, a5, a6⟩ := asm ch tail2 r.2.1 (HasAll ch) hu (cov_full hcovh hu) hct hhas2 id hk2
              (Or.inl hkn.2) hall2 hsome2 (fun _ hnp => absurd hkn.2 hnp) hlen2
            exact ⟨ch :: tail2, by rw [ht2]; simp, hfl2, a1, a2, a3, a4, a5, a6⟩
          · exact absurd (PP_unknown hppc) hu
          · obtain ⟨hia, hdeadc, hnals⟩ := hdead
            have hnotall : ¬ HasAll ch := dead_not_hasAll N ch hsem.1 hdeadc
            obtain ⟨tail2, ht2, hfl2, hct, hhas2, hk2, hall2, hsome2, hlen2⟩ :=
              ih2 isAnd (done ++ [ch]) rest' es r _ (W ∨ False) h (restH ch es rfl hfrc (fun _ _ => rfl) H.nm) hclat hclot
                (fun ham => by
                  rcases hW ham with w | w
                  · exact Or.inl (Or.inl w)
                  · simp only [HasAllAny] at w
                    rcases w with e | e
                    · exact absurd e hnotall
                    · exact Or.inr e)
            obtain ⟨a1, a2, a3, a4, a5, a6⟩ := asm ch tail2 r.2.1 False hu
              (fun n hn hx => absurd hn (hdeadc n hx)) hct hhas2 (fun h' => h'.elim) hk2
              (Or.inr ⟨hia, hdeadc, hnals⟩) hall2 hsome2
              (fun hp _ => by
                simp only [PPany] at hp
                rcases hp with (e | e) | e
                · have := PA_als e.2; rw [hnals] at this; cases this
                · exact absurd (PP_unknown e) hu
                · exact e) hlen2
            exact ⟨ch :: tail2, by rw [ht2]; simp, hfl2, a1, a2, a3, a4, a5, a6⟩
    -- ================================================================ orORs
    · intro restT idx done es rv v c c1 k r o W h H hidx hsmT hst hW
      cases restT with
      | nil =>
        simp only [freshL, orORs] at h; cases h
        exact ⟨[], (by simp), rfl, H.f0, H.nm, (fun _ => rfl), rfl, rfl, hst⟩
      | cons t rest =>
        have Ht := H.head
        simp only [smallOrTL] at hsmT
        have hndn : (names es).Nodup := by rw [H.nm]; exact nodup_of_sorted hN
        simp only [freshL, orORs] at h
        obtain ⟨⟨ch1, es1, rv1⟩, hA, hB⟩ := ite_bind_ok h
        have SA := orstep_A N hN f t es rv _ Ht.wf Ht.nm hA
        have MA : Fr o ch1 es1 ∧ SameOut o es es1 ∧ Tidy ch1 ∧ (ch1.viable ≠ .unknown → rv1 = ch1.viable) := by
          split at hA
          · rename_i hno
            have M := (nonors_marks N hN f).1 t es _ o hA Ht.wf Ht.nm Ht.f0
            have S := (nonors_sem N hN f).1 t es _ hA Ht.wf Ht.nm
            have hnotor : isOrT t = false := by rw [← isOr_fresh']; simpa using hno
            exact ⟨M.fr, M.same, M.tidy, fun _ => (S.via hnotor).symm⟩
          · cases hA
            exact ⟨Fr_of_H0 (holds_fresh t) Ht.f0, fun _ _ => rfl, Tidy_of_H0 _ (holds_fresh t),
              fun hk => absurd (fresh_viable t) hk⟩
        obtain ⟨ma1, ma2, ma3, ma4⟩ := MA
        simp only at hB SA
        obtain ⟨⟨ch2, es2, rv2⟩, hC, hD⟩ := ite_bind_ok hB
        have SB := orstep_B N hN f t (ch1, es1, rv1) (ch2, es2, rv2) SA hC
        simp only at hD SB
        obtain ⟨⟨ch3, es3⟩, hE, hF⟩ := bind_ok' hD
        simp only at hF
        have hlv1 : lvS ch1 = leaves t := by rw [lvS_eq, SA.2.1]
        have hlv2 : lvS ch2 = leaves t := by rw [lvS_eq, SB.1]
        have hs3 := (unmark_skel f).1 ch2 es2 _ hE
        have hlv3 : lvS ch3 = leaves t := by rw [lvS_of_skel hs3]; exact hlv2
        have hn3 : names es3 = N := by rw [(unmark_names f).1 ch2 es2 _ hE]; exact SB.2
        -- the marks side of the second step
        have MB : Fr o ch2 es2 ∧ SameOut o es1 es2 ∧ Tidy ch2 := by
          split at hC
          · rename_i hu
            split at hC
            · cases hC
            · have OM := (ors_marks N hN f).1 ch1 es1 _ o hC (SA.2.2.2 hu) SA.1 SA.2.2.1 ma1 ma3
              exact ⟨OM.fr, OM.same, OM.tidy⟩
          · cases hC; exact ⟨ma1, fun _ _ => rfl, ma3⟩
        obtain ⟨mb1, mb2, mb3⟩ := MB
        have U := (unmark_marks N hN f).1 ch2 es2 _ o hE SB.2 mb1 (OrT_of_Tidy _ mb3)
        have hsame3 : SameOut o es es3 := fun x hx => by rw [U.same x hx, mb2 x hx]; exact ma2 x hx
        have hms3 : ∀ x, markAt es3 x = markAt es x := marks_same_of_H0 Ht.f0 U.fr hsame3
        have H3 : HTL N rest o es3 := ⟨H.tail_same.wf, H.tail_same.nd, H.tail_same.out, U.fr, hn3⟩
        have ham3 : allMarked es3 = allMarked es := allMarked_congr' (by rw [hn3, H.nm]) hndn hms3
        -- what a dead alternative leaves
        have deadAlt : DeadT N t → rv2 = .unsat ∧ DeadS N ch3 := by
          intro hdead
          have hd3 : DeadS N ch3 := fun x hx => hdead x (by rw [← hlv3]; exact hx)
          have hd2 : DeadS N ch2 := fun x hx => hdead x (by rw [← hlv2]; exact hx)
          have hd1 : DeadS N ch1 := fun x hx => hdead x (by rw [← hlv1]; exact hx)
          refine ⟨?_, hd3⟩
          split at hC
          · rename_i hu
            split at hC
            · cases hC
            · have O := (ors_sem N hN f).1 ch1 es1 _ hC (SA.2.2.2 hu) SA.1 SA.2.2.1
              rcases O.ret.2.2 with e | e
              · exact e
              · exact absurd (O.ret.2.1 e) (dead_notK O.sem hd2)
          · rename_i hu
            cases hC
            have hst1 : Stored ch1.viable := by have := SemV_stored SA.1; rwa [viable_skel'] at this
            rw [ma4 hu]
            rcases stored_cases hst1 with e | e | e
            · exact absurd e hu
            · exact e
            · exact absurd e (dead_notK SA.1 hd1)
        -- the continuation with the new loop state
        have cont : OrSt N W o rest (done ++ [ch3]) (if v.rank < rv2.rank then rv2 else v)
              (if (decide (MT.rank .some_ ≤ rv2.rank) && decide (c = -1)) = true then (idx : Int) else c)
              (if (decide (MT.rank .some_ ≤ rv2.rank) && decide (c = -1)) = true then (idx : Int) else c1) →
            ∃ tail, r.1 = done ++ tail ∧ holdsL tail = [] ∧ Fr0 o r.2.1 ∧ names r.2.1 = N ∧
              (∀ x, markAt r.2.1 x = markAt es x) ∧ lvSL tail = leavesL (t :: rest) ∧ tail.length = (t :: rest).length ∧
              OrSt N W o [] r.1 r.2.2.2.1 r.2.2.2.2.1 r.2.2.2.2.2.1 := by
          intro hst'
          obtain ⟨tail2, ht2, h02, hf2, hn2, hm2, hl2, hlen2, hfin⟩ :=
            ih3 rest (idx + 1) (done ++ [ch3]) es3 _ _ _ _ _ r o W hF H3 (by simp [hidx]) hsmT.2 hst'
              (fun ham => hW (by rw [← ham3]; exact ham))
          exact ⟨ch3 :: tail2, by rw [ht2]; simp, by simp only [holdsL, U.h0, h02, List.append_nil], hf2, hn2,
            fun x => by rw [hm2 x, hms3 x], by simp only [lvSL, leavesL, hlv3, hl2], by simp [hlen2], hfin⟩
        have hidx3 : (done ++ [ch3])[idx]? = some ch3 := by rw [hidx]; simp
        rcases hst with ⟨hone, hvr, hcm, hdd⟩ | ⟨hdl, i0, alt, hi0, hpa0, hoth0, hv0, hc0, hc10, hT0⟩
        · simp only [AliveOne] at hone
          rcases hone with ⟨halive, hdrest⟩ | ⟨hdead, hone'⟩
          · -- the alive alternative
            have Q1 : AC N ch1 ∧ Cov N ch1 ∧ (allMarked es1 = true → W ∨ HasAll ch1) := by
              split at hA
              · have P := (nonors_pos N hN f).1 t es _ o W hA Ht halive hW
                exact ⟨P.ac, P.cov, P.has⟩
              · rename_i hno
                cases hA
                have hor : isOrT t = true := by rw [← isOr_fresh']; simpa using hno
                obtain ⟨ts, rfl⟩ : ∃ ts, t = .or ts := by
                  cases t with
                  | or ts => exact ⟨ts, rfl⟩
                  | simple n => cases hor
                  | and ts => cases hor
                  | andor ts => cases hor
                refine ⟨⟨fun hk => absurd (fresh_viable _) hk, fun _ => ⟨ts, rfl, by simpa [AliveT] using halive⟩⟩,
                  (fun n _ hd => by rw [dl_fresh_or] at hd; cases hd), fun ham => Or.inl (hW ham)⟩
            obtain ⟨q1, q2, q3⟩ := Q1
            have hnd1 : (lvS ch1).Nodup := by rw [hlv1]; exact Ht.nd
            have hout1 : ∀ n ∈ lvS ch1, o n = 0 := fun n hn => Ht.out n (by rw [← hlv1]; exact hn)
            have Q2 : PA N ch2 ∧ (∀ n ∈ N, n ∈ leaves t → n ∈ holds ch2) ∧ (allMarked es2 = true → W ∨ HasAll ch2) ∧
                rv2 = ch2.viable := by
              split at hC
              · rename_i hu
                split at hC
                · cases hC
                · have P := ih1 ch1 es1 _ o W hC
                    ⟨q1.2 hu, SA.2.2.2 hu, SA.1, SA.2.2.1, ma1, ma3, q2, hnd1, hout1,
                      smallOr_trV _ (by rw [SA.2.1]; exact hsmT.1)⟩ q3
                  exact ⟨P.pa, fun n hn hx => P.cov n hn (by rw [hlv1]; exact hx), P.has, P.ret⟩
              · rename_i hu
                cases hC
                exact ⟨q1.1 hu, fun n hn hx => cov_full q2 hu n hn (by rw [hlv1]; exact hx), q3, ma4 hu⟩
            obtain ⟨p1, p2, p3, p4⟩ := Q2
            have hpa3 : PA N ch3 := (unmark_PA N f).1 ch2 es2 _ hE p1
            have hv3 : ch3.viable = ch2.viable := viable_of_skel hs3
            have hrk : MT.rank .some_ ≤ rv2.rank := by rw [p4]; exact of_decide_eq_true (PA_als p1)
            have hsome : MT.rank .some_ = 3 := rfl
            have hcond : (decide (MT.rank .some_ ≤ rv2.rank) && decide (c = -1)) = true := by simp [hrk, hcm]
            have hvlt : v.rank < rv2.rank := by omega
            apply cont
            simp only [hcond, if_true, hvlt]
            right
            refine ⟨hdrest, idx, ch3, hidx3, hpa3, fun p d hp hne => ?_, by rw [p4, hv3], rfl, rfl, fun hall => ?_⟩
            · have hpl : p < (done ++ [ch3]).length := (List.getElem?_eq_some_iff.mp hp).1
              have hpd : p < done.length := by
                simp at hpl; omega
              rw [List.getElem?_append_left hpd] at hp
              exact hdd d (List.mem_of_getElem? hp)
            · have hchar := am_char hN (o := o) (t' := ch2) (es' := es2) (L := leaves t) mb1 SB.2 p2
                (fun n hn => by rw [← hlv2]; exact holds_sub ch2 n hn)
              have ham2 : allMarked es2 = true := hchar.mpr (fun n hn => by
                rcases hall n hn with e | e
                · exact Or.inl e
                · exact Or.inr (by rw [← hlv3]; exact e))
              rcases p3 ham2 with w | w
              · exact Or.inl w
              · right; rw [p4]; exact HasAll_known w (PA_known p1)
          · -- a dead alternative before the alive one
            obtain ⟨hrv, hd3⟩ := deadAlt hdead
            have hcond : (decide (MT.rank .some_ ≤ rv2.rank) && decide (c = -1)) = false := by
              rw [hrv]; simp [MT.rank]
            apply cont
            simp only [hcond, Bool.false_eq_true, if_false]
            left
            refine ⟨hone', ?_, hcm, fun d hd => ?_⟩
            · rw [hrv]; split
              · simp [MT.rank]
              · exact hvr
            · rcases List.mem_append.mp hd with e | e
              · exact hdd d e
              · simp only [List.mem_singleton] at e; rw [e]; exact hd3
        · -- the alive alternative has been tried already: this one is dead
          obtain ⟨hdt, hdrest⟩ := deadL_cons.mp hdl
          obtain ⟨hrv, hd3⟩ := deadAlt hdt
          have hcond : (decide (MT.rank .some_ ≤ rv2.rank) && decide (c = -1)) = false := by
            rw [hrv]; simp [MT.rank]
          have hvrk : MT.rank .some_ ≤ v.rank := by rw [hv0]; exact of_decide_eq_true (PA_als hpa0)
          have hsome : MT.rank .some_ = 3 := rfl
          have hnlt : ¬ v.rank < rv2.rank := by
            rw [hrv]
            have : MT.rank .unsat = 1 := rfl
            omega
          apply cont
          simp only [hcond, Bool.false_eq_true, if_false, hnlt]
          right
          have hi0l : i0 < done.length := (List.getElem?_eq_some_iff.mp hi0).1
          refine ⟨hdrest, i0, alt, by rw [List.getElem?_append_left hi0l]; exact hi0, hpa0, fun p d hp hne => ?_, hv0, hc0, hc10, hT0⟩
          by_cases hpd : p < done.length
          · rw [List.getElem?_append_left hpd] at hp
            exact hoth0 p d hp hne
          · have hpl : p < (done ++ [ch3]).length := (List.getElem?_eq_some_iff.mp hp).1
            have : p = done.length := by simp at hpl; omega
            subst this
            simp at hp; rw [← hp]; exact hd3

end StepModel.Complex.Match

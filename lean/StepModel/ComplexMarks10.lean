import StepModel.ComplexMarks9
import StepModel.ComplexForest3
/-! **Exactness of the matcher on hierarchies with OrLists** (requests without multiply-inheriting members): whenever
`ComplexList::matches` / `ComplexCollect::supports` accepts, the request is — as a set — one of the name sets the list
derives. -/
namespace StepModel.Complex.Match
open StepModel.Generated StepModel.Complex

/-- at an acceptance: every member marked, nothing held outside, the head counts ⇒ the request is a derivation -/
theorem accept_ext (N : List Name) (hN : N.Pairwise (· < ·)) (t : ST) (es : Ents) (hnm : names es = N)
    (hall : allMarked es = true) (hfr : Fr (fun _ => 0) t es) (htidy : Tidy t) (hsem : SemV N (skel t))
    (hk : Kr t.viable) : ∃ Y ∈ denote (trV (skel t)), SameSet Y N := by
  obtain ⟨Y, hY, a, b⟩ := claim N t htidy hsem hk
  refine ⟨Y, hY, fun x => ⟨b x, fun hx => ?_⟩⟩
  have hnd : (names es).Nodup := by rw [hnm]; exact nodup_of_sorted hN
  have hm := (allMarked_markAt hnd).mp hall x (by rw [hnm]; exact hx)
  have := hfr.1 x
  simp only [hm, if_false, Nat.zero_add] at this
  have hpos : 0 < (holds t).count x := by
    have : cnt x t = 1 := this
    unfold cnt at this; omega
  exact a x (List.count_pos_iff.mp hpos)

theorem retry_sound (N : List Name) (hN : N.Pairwise (· < ·)) : ∀ (f : Nat) (head : ST) (es : Ents),
    retry f false head es = .ok true → names es = N → Fr (fun _ => 0) head es → Tidy head → ChK head →
    smallOr (skel head) → SemV N (skel head) → Kr head.viable →
    ∃ Y ∈ denote (trV (skel head)), SameSet Y N := by
  intro f
  induction f with
  | zero => intro head es h; simp [retry] at h
  | succ f ih =>
    intro head es h hnm hfr htidy hchk hsm hsem hk
    simp only [retry] at h
    obtain ⟨⟨head', es', r⟩, h1, h2⟩ := bind_ok' h
    have P := (trynext_marks N hN f).1 head es _ _ h1 hnm hfr htidy hchk hsm
    have hsk : skel head' = skel head := ((trynext_val f).1 head es _ h1 hsm).1
    have hsem' : SemV N (skel head') := by rw [hsk]; exact hsem
    have hk' : Kr head'.viable := by rw [viable_of_skel hsk]; exact hk
    have hsm' : smallOr (skel head') := by rw [hsk]; exact hsm
    simp only at h2
    split at h2
    · rename_i hall
      have := accept_ext N hN head' es' P.nm (P.all hall) P.fr P.tidy hsem' hk'
      rw [hsk] at this; exact this
    · split at h2
      · have := ih head' es' h2 P.nm P.fr P.tidy P.chk hsm' hsem' hk'
        rw [hsk] at this; exact this
      · cases h2

theorem isOr_false_of_trV {t : ST} {ts : List Tree} (h : trV (skel t) = .and ts) : t.isOr = false := by
  cases t with
  | simple n v im => rfl
  | mult j v c c1 k cs =>
    cases j with
    | or => simp [skel, trV] at h
    | and => rfl
    | andor => rfl

theorem Kr_of_K {v : MT} (h : K v) : Kr v := by
  rcases h with h | h | h <;> subst h <;> simp [Kr, MT.rank]

/-- `ComplexList::matches`, single list, no combo: an acceptance means the request is a derivation of the list -/
theorem matches_sound (fuel : Nat) (head : Tree) (es : Ents) (hwf : treeWF head = true)
    (hN : (names es).Pairwise (· < ·)) (hsmall : smallOrT head) (hfresh : ∀ n, markAt es n = .no)
    (h : matchesList fuel false head es = .ok true) : ∃ Y ∈ denote head, SameSet Y (names es) := by
  have hf0 : Fr0 (fun _ => 0) es := fun n => by simp [hfresh n]
  unfold matchesList at h
  split at h
  · cases h
  · rename_i list hbl
    obtain ⟨ts, hts⟩ : ∃ ts, head = .and ts := by
      unfold buildList at hbl
      split at hbl
      · exact ⟨_, rfl⟩
      · cases hbl
    have hnotor : isOrT head = false := by rw [hts]; rfl
    split at h
    · cases h
    · obtain ⟨⟨h1, es1, r1⟩, hA, hB⟩ := bind_ok' h
      have S := (nonors_sem (names es) hN fuel).1 head es _ hA hwf rfl
      have M := (nonors_marks (names es) hN fuel).1 head es _ _ hA hwf rfl hf0
      have C := (nonors_chk fuel).1 head es _ hA
      have hvia : h1.viable = r1 := S.via hnotor
      simp only at hB
      split at hB
      · rename_i hall
        have hk : Kr h1.viable := by rw [hvia, hall]; simp [Kr, MT.rank]
        have := accept_ext (names es) hN h1 es1 S.nm (M.all hall) M.fr M.tidy S.sem hk
        rw [S.trr] at this; exact this
      · split at hB
        · cases hB
        · rename_i hu
          have hu' : r1 = .unknown := Classical.byContradiction (fun hne => hu hne)
          have hpend : Pend h1 := S.pend (by rw [hvia]; exact hu')
          obtain ⟨⟨h2, es2, r2⟩, hC, hD⟩ := bind_ok' hB
          have O := (ors_sem (names es) hN fuel).1 h1 es1 _ hC hpend S.sem S.nm
          have OM := (ors_marks (names es) hN fuel).1 h1 es1 _ _ hC hpend S.sem S.nm M.fr M.tidy
          have OC := (ors_chk (names es) hN fuel).1 h1 es1 _ hC hpend S.sem S.nm C
          have htr2 : trV (skel h2) = head := O.trr.trans S.trr
          have hisor : h1.isOr = false := isOr_false_of_trV (by rw [S.trr]; exact hts)
          simp only at hD
          split at hD
          · rename_i hc
            simp only [Bool.and_eq_true, decide_eq_true_eq] at hc
            have hK : K h2.viable := O.ret.2.1 (by rw [hc.1]; exact Or.inr (Or.inr rfl))
            have := accept_ext (names es) hN h2 es2 O.nm (OM.all hisor hc.1) OM.fr OM.tidy O.sem (Kr_of_K hK)
            rw [htr2] at this; exact this
          · split at hD
            · rename_i hr
              have hK2 : K r2 := by
                rcases O.ret.2.2 with h' | h'
                · simp only at h'; rw [h'] at hr; simp [MT.rank] at hr
                · exact h'
              have hK : K h2.viable := O.ret.2.1 hK2
              have hsm2 : smallOr (skel h2) := smallOr_trV _ (by rw [htr2]; exact hsmall)
              have := retry_sound (names es) hN fuel h2 es2 hD O.nm OM.fr OM.tidy OC hsm2 O.sem (Kr_of_K hK)
              rw [htr2] at this; exact this
            · cases hD

theorem markAt_mkEnts (parts : List Name) (n : Name) : markAt (mkEnts [] parts) n = .no := by
  unfold mkEnts
  generalize mkNames parts = l
  induction l with
  | nil => rfl
  | cons a l ih =>
    simp only [List.map_cons, markAt]
    split
    · rfl
    · exact ih

/-- **soundness of `supports` on requests without multiply-inheriting members, OrLists included** -/
theorem supports_sound (c : Collect) (parts : List Name) (hc : ∀ h ∈ c, headWF h = true)
    (hsm : ∀ h ∈ c, smallOrT h) (hs : supports c [] parts = .ok true) : evalB c [] parts = true := by
  have hn : names (mkEnts [] parts) = mkNames parts := by
    simp [names, mkEnts, List.map_map, Function.comp_def]
  have hsorted : (names (mkEnts [] parts)).Pairwise (· < ·) := by rw [hn]; exact sorted_mkNames parts
  unfold supports supportsEnts at hs
  have hnm : (mkEnts [] parts).any (fun e => e.mult) = false := by simp [mkEnts]
  simp only [hnm, Bool.false_eq_true, if_false] at hs
  rcases foldlM_true false hs with h1 | ⟨h, hh, hm⟩
  · cases h1
  · obtain ⟨n, t, rfl, ht⟩ := headWF_shape (hc h hh)
    have hwf : treeWF (.and [.simple n, t]) = true := by simp [treeWF, treeWFL, ht]
    obtain ⟨Y, hY, hss⟩ := matches_sound _ _ _ hwf hsorted (hsm _ hh) (markAt_mkEnts parts) hm
    rw [hn] at hss
    apply (evalB_nomult c parts).mpr
    exact ⟨_, hh, Y, hY, hss.trans (fun x => mem_mkNames parts x)⟩

end StepModel.Complex.Match

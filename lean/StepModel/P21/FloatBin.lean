import StepModel.P21.FloatRat
/-! The binary side of the float model over `Rat` (C09, final proof round): `Dbl.ofRatio` restated, its binary exponent
specified, and the rounding lemma `ofRatio_round`: a rational close enough to the double `m · 2^e` is converted to it. -/
namespace StepModel.P21.Lemmas
open StepModel

/-- `c^x ≤ n/d`, cross-multiplied -/
def GEc (c n d : Nat) (x : Int) : Prop := if x ≥ 0 then d * c ^ x.toNat ≤ n else d ≤ n * c ^ (-x).toNat
instance (c n d : Nat) (x : Int) : Decidable (GEc c n d x) := by unfold GEc; exact inferInstance

/-- `n/d / c^sh` as numerator and denominator -/
def scaledc (c n d : Nat) (sh : Int) : Nat × Nat := if sh ≥ 0 then (n, d * c ^ sh.toNat) else (n * c ^ (-sh).toNat, d)

/-- the binary exponent `Dbl.ofRatio` settles on -/
def GE2 (n d : Nat) (x : Int) : Prop := if x ≥ 0 then d * Dbl.pow2 x.toNat ≤ n else d ≤ n * Dbl.pow2 (-x).toNat
instance (n d : Nat) (x : Int) : Decidable (GE2 n d x) := by unfold GE2; exact inferInstance
theorem GE2_iff (n d : Nat) (x : Int) : GE2 n d x ↔ GEc 2 n d x := Iff.rfl

def binExp (n d : Nat) : Int :=
  let k0 : Int := (n.log2 : Int) - (d.log2 : Int)
  if GE2 n d (k0 + 1) then k0 + 1 else if GE2 n d k0 then k0 else k0 - 1

/-- the exponent of the last place: `k − 52`, clamped at the subnormal exponent -/
def ulpExp (k : Int) : Int := if k - 52 < -1074 then -1074 else k - 52

/-- `Dbl.ofRatio` from the choice of the last-place exponent on, literally -/
def ofRatioAt (n d : Nat) (k : Int) : Option Nat :=
  let e2 : Int := if k - 52 < -1074 then -1074 else k - 52
  let q : Nat := if e2 ≥ 0 then Dbl.roundDiv n (d * Dbl.pow2 e2.toNat) else Dbl.roundDiv (n * Dbl.pow2 (-e2).toNat) d
  let (q, e2) : Nat × Int := if q == Dbl.pow2 53 then (Dbl.pow2 52, e2 + 1) else (q, e2)
  if q < Dbl.pow2 52 then some q
  else if e2 + 1075 ≥ 2047 then none
  else some ((e2 + 1075).toNat * Dbl.pow2 52 + (q - Dbl.pow2 52))

theorem ofRatio_eq (n d : Nat) (hn : n ≠ 0) : Dbl.ofRatio n d = ofRatioAt n d (binExp n d) := by
  have hn' : (n == 0) = false := by simp [hn]
  unfold Dbl.ofRatio binExp GE2
  simp only [hn', Bool.false_eq_true, if_false]
  generalize ((n.log2 : Int) - (d.log2 : Int)) = k0
  have hk : (if (if k0 + 1 ≥ 0 then decide (d * Dbl.pow2 (k0 + 1).toNat ≤ n) else decide (d ≤ n * Dbl.pow2 (-(k0 + 1)).toNat)) = true then k0 + 1
        else if (if k0 ≥ 0 then decide (d * Dbl.pow2 k0.toNat ≤ n) else decide (d ≤ n * Dbl.pow2 (-k0).toNat)) = true then k0 else k0 - 1) =
      (if (if k0 + 1 ≥ 0 then d * Dbl.pow2 (k0 + 1).toNat ≤ n else d ≤ n * Dbl.pow2 (-(k0 + 1)).toNat) then k0 + 1
        else if (if k0 ≥ 0 then d * Dbl.pow2 k0.toNat ≤ n else d ≤ n * Dbl.pow2 (-k0).toNat) then k0 else k0 - 1) := by
    by_cases c1 : k0 + 1 ≥ 0 <;> by_cases c0 : k0 ≥ 0 <;> simp only [c1, c0, if_true, if_false, decide_eq_true_eq]
  rw [hk]
  rfl

/-- … and in terms of `scaledc`, `ulpExp` -/
theorem ofRatioAt_eq (n d : Nat) (k : Int) :
    ofRatioAt n d k =
      (if Dbl.roundDiv (scaledc 2 n d (ulpExp k)).1 (scaledc 2 n d (ulpExp k)).2 = Dbl.pow2 53 then
         (if ulpExp k + 1 + 1075 ≥ 2047 then none else some ((ulpExp k + 1 + 1075).toNat * Dbl.pow2 52))
       else if Dbl.roundDiv (scaledc 2 n d (ulpExp k)).1 (scaledc 2 n d (ulpExp k)).2 < Dbl.pow2 52 then
         some (Dbl.roundDiv (scaledc 2 n d (ulpExp k)).1 (scaledc 2 n d (ulpExp k)).2)
       else if ulpExp k + 1075 ≥ 2047 then none
       else some ((ulpExp k + 1075).toNat * Dbl.pow2 52 +
         (Dbl.roundDiv (scaledc 2 n d (ulpExp k)).1 (scaledc 2 n d (ulpExp k)).2 - Dbl.pow2 52))) := by
  unfold ofRatioAt scaledc ulpExp
  simp only []
  generalize (if k - 52 < -1074 then (-1074 : Int) else k - 52) = E
  have hs : (if E ≥ 0 then Dbl.roundDiv n (d * Dbl.pow2 E.toNat) else Dbl.roundDiv (n * Dbl.pow2 (-E).toNat) d) =
      Dbl.roundDiv (if E ≥ 0 then (n, d * 2 ^ E.toNat) else (n * 2 ^ (-E).toNat, d)).1
        (if E ≥ 0 then (n, d * 2 ^ E.toNat) else (n * 2 ^ (-E).toNat, d)).2 := by
    by_cases hE : E ≥ 0 <;> simp only [hE, if_true, if_false, Dbl.pow2]
  rw [hs]
  generalize Dbl.roundDiv (if E ≥ 0 then (n, d * 2 ^ E.toNat) else (n * 2 ^ (-E).toNat, d)).1
        (if E ≥ 0 then (n, d * 2 ^ E.toNat) else (n * 2 ^ (-E).toNat, d)).2 = Q
  by_cases hq : Q = Dbl.pow2 53
  · subst hq
    simp only [beq_self_eq_true, if_true]
    have : ¬ Dbl.pow2 52 < Dbl.pow2 52 := Nat.lt_irrefl _
    simp only [this, if_false, Nat.sub_self, Nat.add_zero]
  · have : (Q == Dbl.pow2 53) = false := by simp [hq]
    simp only [this, Bool.false_eq_true, if_false, hq]

theorem GEc_iff (c : Nat) (hc : 0 < c) (n d : Nat) (x : Int) : GEc c n d x ↔ zp c x * (d : Rat) ≤ (n : Rat) := by
  unfold GEc
  by_cases hx : x ≥ 0
  · simp only [hx, if_true]
    rw [zp_toNat c x hx]
    have e : ((c ^ x.toNat : Nat) : Rat) * (d : Rat) = ((d * c ^ x.toNat : Nat) : Rat) := by push_cast; grind
    rw [e]
    constructor
    · intro h; exact_mod_cast h
    · intro h; exact_mod_cast h
  · simp only [hx, if_false]
    have hK := zp_neg_toNat c hc x hx
    have hz := zp_pos c hc x
    have := rat_scale_le (zp c x) ((c ^ (-x).toNat : Nat) : Rat) (d : Rat) (n : Rat) hz hK
    rw [← this]
    have e : (n : Rat) * ((c ^ (-x).toNat : Nat) : Rat) = ((n * c ^ (-x).toNat : Nat) : Rat) := by push_cast; rfl
    rw [e]
    constructor
    · intro h; exact_mod_cast h
    · intro h; exact_mod_cast h

theorem scaledc_rat (c : Nat) (hc : 0 < c) (n d : Nat) (hd : 0 < d) (sh : Int) (v : Rat) (hv : v * (d : Rat) = (n : Rat)) :
    ((scaledc c n d sh).1 : Rat) = v * zp c (-sh) * ((scaledc c n d sh).2 : Rat) ∧ (0 : Rat) < ((scaledc c n d sh).2 : Rat) := by
  have hdr : (0 : Rat) < (d : Rat) := natCast_pos_rat d hd
  unfold scaledc
  by_cases hs : sh ≥ 0
  · simp only [hs, if_true]
    have e1 : ((d * c ^ sh.toNat : Nat) : Rat) = (d : Rat) * zp c sh := by rw [zp_toNat c sh hs]; push_cast; rfl
    have e2 := zp_neg_mul c hc sh
    refine ⟨?_, ?_⟩
    · rw [e1, ← hv]
      calc v * (d : Rat) = v * (d : Rat) * (zp c (-sh) * zp c sh) := by rw [e2]; simp
        _ = v * zp c (-sh) * ((d : Rat) * zp c sh) := by grind
    · rw [e1]; exact Rat.mul_pos hdr (zp_pos c hc sh)
  · simp only [hs, if_false]
    have e1 : ((n * c ^ (-sh).toNat : Nat) : Rat) = (n : Rat) * zp c (-sh) := by
      rw [zp_toNat c (-sh) (by omega)]; push_cast; rfl
    refine ⟨?_, hdr⟩
    rw [e1, ← hv]; grind

/-- `n/d < c^(a−b+1)` when `a`, `b` are the digit counts of `n`, `d` in base `c` -/
theorem expc_upper (c n d a b : Nat) (a2 : n < c ^ a) (b1 : c ^ (b - 1) ≤ d) (a3 : 1 ≤ a) (b3 : 1 ≤ b) (hc : 0 < c) :
    ¬ GEc c n d ((a : Int) - (b : Int) + 1) := by
  unfold GEc
  by_cases h0 : (a : Int) - (b : Int) + 1 ≥ 0
  · simp only [h0, if_true]
    intro h
    have e : a = (b - 1) + ((a : Int) - (b : Int) + 1).toNat := by omega
    have h10 : c ^ a = c ^ (b - 1) * c ^ ((a : Int) - (b : Int) + 1).toNat := by rw [← Nat.pow_add, ← e]
    have := Nat.mul_le_mul_right (c ^ ((a : Int) - (b : Int) + 1).toNat) b1
    omega
  · simp only [h0, if_false]
    intro h
    have e : b - 1 = a + (-((a : Int) - (b : Int) + 1)).toNat := by omega
    have h10 : c ^ (b - 1) = c ^ a * c ^ (-((a : Int) - (b : Int) + 1)).toNat := by rw [← Nat.pow_add, ← e]
    have hk : 0 < c ^ (-((a : Int) - (b : Int) + 1)).toNat := Nat.pow_pos hc
    have := Nat.mul_lt_mul_of_pos_right a2 hk
    omega

theorem expc_lower (c n d a b : Nat) (a1 : c ^ (a - 1) ≤ n) (b2 : d < c ^ b) (a3 : 1 ≤ a) (b3 : 1 ≤ b) :
    GEc c n d ((a : Int) - (b : Int) - 1) := by
  unfold GEc
  by_cases h0 : (a : Int) - (b : Int) - 1 ≥ 0
  · simp only [h0, if_true]
    have e : a - 1 = b + ((a : Int) - (b : Int) - 1).toNat := by omega
    have h10 : c ^ (a - 1) = c ^ b * c ^ ((a : Int) - (b : Int) - 1).toNat := by rw [← Nat.pow_add, ← e]
    have := Nat.mul_le_mul_right (c ^ ((a : Int) - (b : Int) - 1).toNat) (Nat.le_of_lt b2)
    omega
  · simp only [h0, if_false]
    have e : b = (a - 1) + (-((a : Int) - (b : Int) - 1)).toNat := by omega
    have h10 : c ^ b = c ^ (a - 1) * c ^ (-((a : Int) - (b : Int) - 1)).toNat := by rw [← Nat.pow_add, ← e]
    have := Nat.mul_le_mul_right (c ^ (-((a : Int) - (b : Int) - 1)).toNat) a1
    omega

/-- the exponent `Dbl.ofRatio` settles on is the binary exponent of `n/d`: `2^k ≤ n/d < 2^(k+1)` -/
theorem binExp_spec (n d : Nat) (hn : 0 < n) (hd : 0 < d) : GEc 2 n d (binExp n d) ∧ ¬ GEc 2 n d (binExp n d + 1) := by
  have n1 : 2 ^ n.log2 ≤ n := Nat.log2_self_le (by omega)
  have n2 : n < 2 ^ (n.log2 + 1) := Nat.lt_log2_self
  have d1 : 2 ^ d.log2 ≤ d := Nat.log2_self_le (by omega)
  have d2 : d < 2 ^ (d.log2 + 1) := Nat.lt_log2_self
  have hu := expc_upper 2 n d (n.log2 + 1) (d.log2 + 1) n2 (by simpa using d1) (by omega) (by omega) (by decide)
  have hl := expc_lower 2 n d (n.log2 + 1) (d.log2 + 1) (by simpa using n1) d2 (by omega) (by omega)
  have e1 : ((n.log2 + 1 : Nat) : Int) - ((d.log2 + 1 : Nat) : Int) + 1 = (n.log2 : Int) - (d.log2 : Int) + 1 := by omega
  have e2 : ((n.log2 + 1 : Nat) : Int) - ((d.log2 + 1 : Nat) : Int) - 1 = (n.log2 : Int) - (d.log2 : Int) - 1 := by omega
  rw [e1] at hu
  rw [e2] at hl
  unfold binExp
  simp only [GE2_iff]
  generalize ((n.log2 : Int) - (d.log2 : Int)) = k0 at *
  rw [if_neg hu]
  by_cases h0 : GEc 2 n d k0
  · rw [if_pos h0]
    exact ⟨h0, hu⟩
  · rw [if_neg h0]
    refine ⟨hl, ?_⟩
    have : k0 - 1 + 1 = k0 := by omega
    rw [this]; exact h0

/-- the rounding is determined by strict half-unit bounds -/
theorem roundDiv_unique (n d r : Nat) (hd : 0 < d) (h1 : 2 * n < (2 * r + 1) * d) (h2 : 2 * r * d < 2 * n + d) :
    Dbl.roundDiv n d = r := by
  have h0 := Nat.div_add_mod n d
  have hm := Nat.mod_lt n hd
  -- n / d is r - 1 or r
  have hq1 : n / d ≤ r := by
    have : n < (r + 1) * d := by
      have e : (2 * r + 1) * d = 2 * (r * d) + d := by rw [Nat.add_mul, Nat.mul_assoc]; simp
      have e2 : (r + 1) * d = r * d + d := by rw [Nat.add_mul]; simp
      omega
    have := (Nat.div_lt_iff_lt_mul hd).2 this
    omega
  have hq2 : r ≤ n / d + 1 := by
    by_cases hr : r = 0
    · rw [hr]; exact Nat.zero_le _
    · have : (r - 1) * d ≤ n := by
        have e : 2 * r * d = 2 * ((r - 1) * d) + 2 * d := by
          have : r = (r - 1) + 1 := by omega
          conv => lhs; rw [this]
          rw [Nat.mul_add, Nat.add_mul, Nat.mul_assoc]
        omega
      have := (Nat.le_div_iff_mul_le hd).2 this
      omega
  have e2r : 2 * r * d = 2 * (r * d) := Nat.mul_assoc _ _ _
  have e2r1 : (2 * r + 1) * d = 2 * (r * d) + d := by rw [Nat.add_mul, Nat.mul_assoc]; simp
  unfold Dbl.roundDiv
  simp only []
  by_cases hq : n / d = r
  · have ex : d * (n / d) = r * d := by rw [hq, Nat.mul_comm]
    have : 2 * (n % d) < d := by omega
    simp [this, hq]
  · have hq' : n / d + 1 = r := by omega
    have ex : d * (n / d) + d = r * d := by rw [← hq', Nat.add_mul, Nat.mul_comm]; simp
    have h3 : ¬ 2 * (n % d) < d := by omega
    have h4 : 2 * (n % d) > d := by omega
    simp [h3, h4, hq']

/-- the binary exponent of a positive rational, as inequalities between rationals -/
theorem binExp_rat (N Dd : Nat) (hN : 0 < N) (hD : 0 < Dd) (D : Rat) (hDv : D * (Dd : Rat) = (N : Rat)) :
    zp 2 (binExp N Dd) ≤ D ∧ D < zp 2 (binExp N Dd + 1) := by
  have hdr : (0 : Rat) < (Dd : Rat) := natCast_pos_rat Dd hD
  obtain ⟨g1, g2⟩ := binExp_spec N Dd hN hD
  rw [GEc_iff 2 (by decide)] at g1 g2
  rw [← hDv] at g1 g2
  constructor
  · have : (Dd : Rat) * zp 2 (binExp N Dd) ≤ (Dd : Rat) * D := by grind
    exact Rat.le_of_mul_le_mul_left this hdr
  · by_cases h : D < zp 2 (binExp N Dd + 1)
    · exact h
    · exfalso
      have h' : zp 2 (binExp N Dd + 1) ≤ D := Rat.not_lt.mp h
      have := Rat.mul_le_mul_of_nonneg_left h' (Rat.le_of_lt hdr)
      apply g2; grind

/-- rounding at a given last-place exponent `E`: a quotient strictly within half a unit `2^E` of `r · 2^E` rounds to `r` -/
theorem roundAt (N Dd : Nat) (hD : 0 < Dd) (D : Rat) (hDv : D * (Dd : Rat) = (N : Rat)) (E : Int) (r : Nat)
    (h1 : 2 * D < (2 * (r : Rat) + 1) * zp 2 E) (h2 : (2 * (r : Rat) - 1) * zp 2 E < 2 * D) :
    Dbl.roundDiv (scaledc 2 N Dd E).1 (scaledc 2 N Dd E).2 = r := by
  obtain ⟨s1, s2pos⟩ := scaledc_rat 2 (by decide) N Dd hD E D hDv
  have s2posN : 0 < (scaledc 2 N Dd E).2 := by exact_mod_cast s2pos
  have hz := zp_pos 2 (by decide) (-E)
  have hinv := zp_neg_mul 2 (by decide) E
  -- w = D · 2^(-E)
  have a1 : 2 * (D * zp 2 (-E)) < 2 * (r : Rat) + 1 := by
    have := Rat.mul_lt_mul_of_pos_left h1 hz
    have e : zp 2 (-E) * ((2 * (r : Rat) + 1) * zp 2 E) = (2 * (r : Rat) + 1) * (zp 2 (-E) * zp 2 E) := by grind
    rw [e, hinv] at this
    grind
  have a2 : 2 * (r : Rat) - 1 < 2 * (D * zp 2 (-E)) := by
    have := Rat.mul_lt_mul_of_pos_left h2 hz
    have e : zp 2 (-E) * ((2 * (r : Rat) - 1) * zp 2 E) = (2 * (r : Rat) - 1) * (zp 2 (-E) * zp 2 E) := by grind
    rw [e, hinv] at this
    grind
  apply roundDiv_unique _ _ r s2posN
  · have b1 := Rat.mul_lt_mul_of_pos_left a1 s2pos
    have : (2 : Rat) * ((scaledc 2 N Dd E).1 : Rat) < (2 * (r : Rat) + 1) * ((scaledc 2 N Dd E).2 : Rat) := by
      rw [s1]; grind
    exact_mod_cast this
  · have b2 := Rat.mul_lt_mul_of_pos_left a2 s2pos
    have : (2 : Rat) * (r : Rat) * ((scaledc 2 N Dd E).2 : Rat) < 2 * ((scaledc 2 N Dd E).1 : Rat) + ((scaledc 2 N Dd E).2 : Rat) := by
      rw [s1]; grind
    exact_mod_cast this

theorem zp2_51 : zp 2 51 = (2251799813685248 : Rat) := by
  have := zp_nat 2 51; simp at this; exact this
theorem zp2_52 : zp 2 52 = (4503599627370496 : Rat) := by
  have := zp_nat 2 52; simp at this; exact this
theorem zp2_53 : zp 2 53 = (9007199254740992 : Rat) := by
  have := zp_nat 2 53; simp at this; exact this
theorem zp2_1 : zp 2 1 = (2 : Rat) := by
  have := zp_nat 2 1; simp at this; exact this

/-- the tail of `Dbl.ofRatio` once the rounded significand is `m < 2^53` at last-place exponent `e` -/
theorem ofRatioAt_exact (N Dd : Nat) (k : Int) (m : Nat) (e : Int) (hu : ulpExp k = e)
    (hq : Dbl.roundDiv (scaledc 2 N Dd e).1 (scaledc 2 N Dd e).2 = m) (hm : m < 2 ^ 53) (he2 : e + 1075 < 2047) :
    ofRatioAt N Dd k = some (if m < 2 ^ 52 then m else (e + 1075).toNat * 2 ^ 52 + (m - 2 ^ 52)) := by
  rw [ofRatioAt_eq, hu, hq]
  have h1 : ¬ m = Dbl.pow2 53 := by unfold Dbl.pow2; omega
  have h2 : ¬ e + 1075 ≥ 2047 := by omega
  rw [if_neg h1]
  by_cases h52 : m < 2 ^ 52
  · have h52' : m < Dbl.pow2 52 := h52
    rw [if_pos h52', if_pos h52]
  · have h52' : ¬ m < Dbl.pow2 52 := h52
    rw [if_neg h52', if_neg h2, if_neg h52]
    rfl

/-- **`Dbl.ofRatio` rounds to nearest**: a positive rational `D = N/Dd` strictly within half a unit in the last place of the
    double `m · 2^e` (a quarter below a power of two, where the spacing halves) is converted to exactly that double -/
theorem ofRatio_round (N Dd : Nat) (hN : 0 < N) (hD : 0 < Dd) (D : Rat) (hDv : D * (Dd : Rat) = (N : Rat))
    (m : Nat) (e : Int) (he : -1074 ≤ e) (he2 : e + 1075 < 2047) (hm : m < 2 ^ 53)
    (hsub : m < 2 ^ 52 → e = -1074)
    (hup : 2 * D < (2 * (m : Rat) + 1) * zp 2 e)
    (hlo : (2 * (m : Rat) - 1) * zp 2 e < 2 * D)
    (hlo' : m = 2 ^ 52 → e > -1074 → (4 * (m : Rat) - 1) * zp 2 e < 4 * D) :
    Dbl.ofRatio N Dd = some (if m < 2 ^ 52 then m else (e + 1075).toNat * 2 ^ 52 + (m - 2 ^ 52)) := by
  rw [ofRatio_eq N Dd (by omega)]
  obtain ⟨k1, k2⟩ := binExp_rat N Dd hN hD D hDv
  have hz := zp_pos 2 (by decide) e
  have hmR : (m : Rat) + 1 ≤ 9007199254740992 := by
    have : m + 1 ≤ 9007199254740992 := by omega
    exact_mod_cast this
  -- D < 2^(53+e)
  have Fup : D < zp 2 (53 + e) := by
    rw [zp_add 2 (by decide), zp2_53]
    have := Rat.mul_le_mul_of_nonneg_left hmR (Rat.le_of_lt hz)
    grind
  have hk53 : binExp N Dd < 53 + e := zp_lt_imp 2 (by decide) _ _ (by grind)
  by_cases hmin : e = -1074
  · -- last-place exponent clamped
    have hu : ulpExp (binExp N Dd) = e := by unfold ulpExp; split <;> omega
    exact ofRatioAt_exact N Dd _ m e hu (roundAt N Dd hD D hDv e m hup hlo) hm he2
  · have hm52 : 2 ^ 52 ≤ m := by
      by_cases h : m < 2 ^ 52
      · exact absurd (hsub h) hmin
      · omega
    by_cases hbot : zp 2 (52 + e) ≤ D
    · have : 52 + e < binExp N Dd + 1 := zp_lt_imp 2 (by decide) _ _ (by grind)
      have hu : ulpExp (binExp N Dd) = e := by unfold ulpExp; split <;> omega
      exact ofRatioAt_exact N Dd _ m e hu (roundAt N Dd hD D hDv e m hup hlo) hm he2
    · have hbot' : D < zp 2 (52 + e) := Rat.not_le.mp hbot
      rw [zp_add 2 (by decide), zp2_52] at hbot'
      -- then m = 2^52
      have hm_eq : m = 2 ^ 52 := by
        by_cases h : m = 2 ^ 52
        · exact h
        · exfalso
          have : (4503599627370496 : Rat) + 1 ≤ (m : Rat) := by
            have : 4503599627370496 + 1 ≤ m := by omega
            exact_mod_cast this
          have := Rat.mul_le_mul_of_nonneg_left this (Rat.le_of_lt hz)
          grind
      have hq := hlo' hm_eq (by omega)
      have hmR2 : (m : Rat) = 4503599627370496 := by rw [hm_eq]; simp
      rw [hmR2] at hq
      -- binExp = 51 + e
      have hz1 : zp 2 e = 2 * zp 2 (e - 1) := by
        have : e = 1 + (e - 1) := by omega
        conv => lhs; rw [this]
        rw [zp_add 2 (by decide), zp2_1]
      have hlow : zp 2 (51 + e) ≤ D := by
        rw [zp_add 2 (by decide), zp2_51]
        grind
      have h51 : 51 + e < binExp N Dd + 1 := zp_lt_imp 2 (by decide) _ _ (by grind)
      have hk52 : binExp N Dd < 52 + e := by
        apply zp_lt_imp 2 (by decide)
        rw [zp_add 2 (by decide) 52 e, zp2_52]
        grind
      have hu : ulpExp (binExp N Dd) = e - 1 := by unfold ulpExp; split <;> omega
      have hzm := zp_pos 2 (by decide) (e - 1)
      have hr : Dbl.roundDiv (scaledc 2 N Dd (e - 1)).1 (scaledc 2 N Dd (e - 1)).2 = 2 ^ 53 := by
        apply roundAt N Dd hD D hDv (e - 1) (2 ^ 53)
        · have : ((2 ^ 53 : Nat) : Rat) = 9007199254740992 := by simp
          rw [this]; grind
        · have : ((2 ^ 53 : Nat) : Rat) = 9007199254740992 := by simp
          rw [this]; grind
      rw [ofRatioAt_eq, hu, hr]
      have e1 : e - 1 + 1 + 1075 = e + 1075 := by omega
      have h2 : ¬ e + 1075 ≥ 2047 := by omega
      have h3 : ¬ m < 2 ^ 52 := by omega
      have h4 : (2 : Nat) ^ 53 = Dbl.pow2 53 := rfl
      rw [h4, if_pos rfl, e1, if_neg h2, if_neg h3, hm_eq, Nat.sub_self, Nat.add_zero]
      rfl

end StepModel.P21.Lemmas

import StepModel.P21.AggrLemmas
import StepModel.P21.Writer
/-! Aggregates, writer side (C09, proof-only stretch): what `STEPaggregate::STEPwrite` (C01's `writeAggr`) writes for a list of
INTEGER values is `( tok₁ , … , tokₙ )` with the tokens `WriteInteger` prints, and it reads back to the same list. -/
namespace StepModel.P21.AggrLemmas
open StepModel StepModel.IStream StepModel.P21 StepModel.P21.Lemmas StepModel.P21.Grammar StepModel.P21.RLemmas

/-- the element of the reader-side description for a written INTEGER -/
def intQ {F} (v : Int) : ElemQ F := ⟨showInt v, [], [], .atom (.int v)⟩

theorem writeNodes_int {F} (ops : FloatOps F) (cfg : RWCfg) (d : Dict) :
    ∀ (vs : List Int) (sc : List Byte), vs ≠ [] →
      writeNodes ops cfg d .integer sc (vs.map (fun v => (Elem.atom (.int v) : Elem F))) ++ [41] =
        renderQ (vs.map (fun v => (intQ v : ElemQ F)))
  | [], _, h => absurd rfl h
  | [v], sc, _ => by simp [writeNodes, nodeWrite, writeAtomCore, renderQ, intQ]
  | v :: w :: vs, sc, _ => by
    have ih := writeNodes_int ops cfg d (w :: vs) (nodeWrite ops cfg d .integer sc (Elem.atom (.int v) : Elem F)) (by simp)
    simp only [List.map_cons] at ih ⊢
    simp only [writeNodes, renderQ, intQ, List.nil_append, List.append_assoc, List.cons_append] at ih ⊢
    rw [ih]
    simp [nodeWrite, writeAtomCore]

/-- the same for any element type whose node writer is a function of the value alone -/
theorem writeNodes_atoms {F} (ops : FloatOps F) (cfg : RWCfg) (d : Dict) (ty : ElemTy) (tk : Atom F → List Byte)
    (htk : ∀ (sc : List Byte) (a : Atom F), nodeWrite ops cfg d ty sc (Elem.atom a) = tk a) :
    ∀ (as : List (Atom F)) (sc : List Byte), as ≠ [] →
      writeNodes ops cfg d ty sc (as.map (fun a => (Elem.atom a : Elem F))) ++ [41] =
        renderQ (as.map (fun a => (⟨tk a, [], [], .atom a⟩ : ElemQ F)))
  | [], _, h => absurd rfl h
  | [a], sc, _ => by simp [writeNodes, htk, renderQ]
  | a :: b :: as, sc, _ => by
    have ih := writeNodes_atoms ops cfg d ty tk htk (b :: as) (nodeWrite ops cfg d ty sc (Elem.atom a : Elem F)) (by simp)
    simp only [List.map_cons] at ih ⊢
    simp only [writeNodes, renderQ, List.nil_append, List.append_assoc, List.cons_append] at ih ⊢
    rw [ih, htk]

end StepModel.P21.AggrLemmas

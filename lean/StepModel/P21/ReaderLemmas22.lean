import StepModel.P21.ReaderLemmas13
/-! An INTEGER element of an aggregate with something behind the integer (`( 1 , 2X , 3 )`). -/
namespace StepModel.P21.RLemmas
open StepModel StepModel.IStream StepModel.P21 StepModel.P21.Lemmas StepModel.P21.Grammar

variable {F : Type}

/-- **an integer with something behind it as an element of an aggregate of INTEGER** (`2X`, `1.5`, `7'a'`): the integer is
    stored, what follows it - no digit, blank or `/` first, no `,` `)` `;` - is reported: WARNING, the loop goes on -/
theorem ElemRdS.integer_tok_junk (env : Env F) (hcfg : env.lex.criSkipsComments = true) (hagg : env.cfg.aggrSkipsComments = true)
    (tok : List Byte) (htok : isInteger tok = true) (hlo : longMin ≤ denoteInteger tok) (hhi : denoteInteger tok < longMax)
    (j0 : Byte) (js : List Byte) (hj0s : isSpace j0 = false) (hj047 : j0 ≠ 47) (hj0d : isDigit j0 = false)
    (hj : ∀ b ∈ j0 :: js, delimAt env.lex attrDelims b = false)
    (hsemi : env.lex.criStopsAtSemicolon = true → ∀ b ∈ j0 :: js, b ≠ 59)
    (before : List Byte) (hb : Seps before) :
    ElemRdS env .integer { tok := tok ++ j0 :: js, before := before, after := [], v := .atom (.int (denoteInteger tok)) } .warning := by
  obtain ⟨c, u, hcu, hcs, _, h44, h41⟩ := isInteger_head tok htok
  obtain ⟨c', u', hcu', _, h47, _, h92⟩ := isInteger_head47 tok htok
  have hcc : c' = c := by rw [hcu] at hcu'; cases hcu'; rfl
  subst hcc
  refine ⟨hb, ⟨c', u ++ j0 :: js, by rw [hcu]; rfl, hcs, h47, h41, h92⟩, ?_⟩
  intro l sk d rest hd
  refine ⟨sk, Or.inl rfl, ?_⟩
  show elemRead env .integer (G l ((tok ++ j0 :: js) ++ ([] ++ d :: rest)) sk) = _
  have hshape : (tok ++ j0 :: js) ++ ([] ++ d :: rest) = c' :: (u ++ (j0 :: (js ++ d :: rest))) := by rw [hcu]; simp
  rw [hshape, elemRead_at_tok env hagg _ l c' _ sk hcs h47 h44 h41 h92, elemReadCore_scalar env .integer (Or.inl rfl)]
  simp only [bind, Except.bind, pure, Except.pure]
  have hrd := readInteger_tok_junk env.lex tok htok hlo (Int.le_of_lt hhi) j0 js hj0s hj047 hj0d hj hsemi l sk d rest hd
  rw [hcu] at hrd
  simp only [List.cons_append] at hrd
  rw [scalarNodeRead_integer, hrd]
  have hcri := cri_seps env.lex hcfg [] (Seps.blanks [] (by simp)) ((j0 :: js).reverse ++ ((c' :: u).reverse ++ l)) rest d false sk .warning hd
  simp only [List.nil_append, List.reverse_nil] at hcri
  have hcri' : checkRemainingInput env.lex (some attrDelims) (G ((j0 :: js).reverse ++ ((c' :: u).reverse ++ l)) (d :: rest) sk) Sev.warning =
      (G ((j0 :: js).reverse ++ ((c' :: u).reverse ++ l)) (d :: rest) sk, Sev.warning) := hcri
  simp only [hcri']
  have hne : denoteInteger (c' :: u) ≠ longMax := by rw [← hcu]; exact Int.ne_of_lt hhi
  simp [intValue, valueToAtom, hcu, hne]

end StepModel.P21.RLemmas

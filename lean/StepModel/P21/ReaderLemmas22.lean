import StepModel.P21.ReaderLemmas13
/-! An INTEGER element of an aggregate with something behind the integer (`( 1 , 2X , 3 )`). -/
namespace StepModel.P21.RLemmas
open StepModel StepModel.IStream StepModel.P21 StepModel.P21.Lemmas StepModel.P21.Grammar

variable {F : Type}

/-- **an integer with something behind it as an element of an aggregate of INTEGER** (`2X`, `1.5`, `7'a'`): the integer is
    stored, what follows it - no digit, blank or `/` first, no `,` `)` `;` - is reported: WARNING, the loop goes on -/
theorem ElemRdS.integer_tok_junk (env : Env F) (hcfg : env.lex.criSkipsComments = true) (hagg : env.cfg.aggrSkipsComments = true)
    (tok : List Byte) (htok : isInteger tok = true) (hlo : longMin ≤ denoteInteger tok) (hhi : denoteInteger tok < longMax)
    (j0 : Byte) (js : List Byte) (hj0s : isSpace j0 = false) (hj047 : j0 ≠ 47) (hj0d : isDigit j0 = false)
    (hj : ∀ b ∈ j0 :: js, delimAt env.lex attrDelims b = false)
    (hsemi : env.lex.criStopsAtSemicolon = true → ∀ b ∈ j0 :: js, b ≠ 59)
    (before : List Byte) (hb : Seps before) :
    ElemRdS env .integer { tok := tok ++ j0 :: js, before := before, after := [], v := .atom (.int (denoteInteger tok)) } .warning := by
  obtain ⟨c, u, hcu, hcs, _, h44, h41⟩ := isInteger_head tok htok
  obtain ⟨c', u', hcu', _, h47, _, h92⟩ := isInteger_head47 tok htok
  have hcc : c' = c := by rw [hcu] at hcu'; cases hcu'; rfl
  subst hcc
  refine ⟨hb, ⟨c', u ++ j0 :: js, by rw [hcu]; rfl, hcs, h47, h41, h92⟩, ?_⟩
  intro l sk d rest hd
  refine ⟨sk, Or.inl rfl, ?_⟩
  show elemRead env .integer (G l ((tok ++ j0 :: js) ++ ([] ++ d :: rest)) sk) = _
  have hshape : (tok ++ j0 :: js) ++ ([] ++ d :: rest) = c' :: (u ++ (j0 :: (js ++ d :: rest))) := by rw [hcu]; simp
  rw [hshape, elemRead_at_tok env hagg _ l c' _ sk hcs h47 h44 h41 h92, elemReadCore_scalar env .integer (Or.inl rfl)]
  simp only [bind, Except.bind, pure, Except.pure]
  have hrd := readInteger_tok_junk env.lex tok htok hlo (Int.le_of_lt hhi) j0 js hj0s hj047 hj0d hj hsemi l sk d rest hd
  rw [hcu] at hrd
  simp only [List.cons_append] at hrd
  rw [scalarNodeRead_integer, hrd]
  have hcri := cri_seps env.lex hcfg [] (Seps.blanks [] (by simp)) ((j0 :: js).reverse ++ ((c' :: u).reverse ++ l)) rest d false sk .warning hd
  simp only [List.nil_append, List.reverse_nil] at hcri
  have hcri' : checkRemainingInput env.lex (some attrDelims) (G ((j0 :: js).reverse ++ ((c' :: u).reverse ++ l)) (d :: rest) sk) Sev.warning =
      (G ((j0 :: js).reverse ++ ((c' :: u).reverse ++ l)) (d :: rest) sk, Sev.warning) := hcri
  simp only [hcri']
  have hne : denoteInteger (c' :: u) ≠ longMax := by rw [← hcu]; exact Int.ne_of_lt hhi
  simp [intValue, valueToAtom, hcu, hne]

/-- **a real with something behind it as an element of an aggregate of REAL** (`1.5X`, `2.0'a'`): the real is stored, what
    follows it - no digit, `E`, `e`, blank or `/` first, no `,` `)` `;` - is reported: WARNING, the loop goes on -/
theorem ElemRdS.real_tok_junk (env : Env F) (hcfg : env.lex.criSkipsComments = true) (hagg : env.cfg.aggrSkipsComments = true)
    (tok : List Byte) (dec : Decimal) (v : F) (htok : isReal tok = true) (hden : denoteReal tok = some dec)
    (hv : env.ops.ofDecimal dec = some v) (hnn : env.ops.isRealNull v = false)
    (hbuf : env.lex.realBuf = 0 ∨ tok.length < env.lex.realBuf)
    (j0 : Byte) (js : List Byte) (hj0s : isSpace j0 = false) (hj047 : j0 ≠ 47) (hj0d : isDigit j0 = false)
    (hj0e : j0 ≠ 101) (hj0E : j0 ≠ 69)
    (hj : ∀ b ∈ j0 :: js, delimAt env.lex attrDelims b = false)
    (hsemi : env.lex.criStopsAtSemicolon = true → ∀ b ∈ j0 :: js, b ≠ 59)
    (before : List Byte) (hb : Seps before) :
    ElemRdS env .real { tok := tok ++ j0 :: js, before := before, after := [], v := .atom (.real v) } .warning := by
  obtain ⟨c, u, hcu, hcs, _, h44, h41, h47, h92⟩ := number_head tok (Or.inl htok)
  refine ⟨hb, ⟨c, u ++ j0 :: js, by rw [hcu]; rfl, hcs, h47, h41, h92⟩, ?_⟩
  intro l sk d rest hd
  refine ⟨sk, Or.inl rfl, ?_⟩
  have hr := readReal_tok_junk env.ops env.lex tok dec v htok hden hv hbuf j0 js hj0s hj047 hj0d hj0e hj0E hj hsemi l sk d rest hd
  show elemRead env .real (G l ((tok ++ j0 :: js) ++ ([] ++ d :: rest)) sk) = _
  have hshape : (tok ++ j0 :: js) ++ ([] ++ d :: rest) = c :: (u ++ (j0 :: (js ++ d :: rest))) := by rw [hcu]; simp
  rw [hcu] at hr
  simp only [List.cons_append] at hr
  rw [hshape, elemRead_at_tok env hagg _ l c _ sk hcs h47 h44 h41 h92, elemReadCore_scalar env .real (Or.inr (Or.inl rfl))]
  have hsn : scalarNodeRead env .real (G l (c :: (u ++ (j0 :: (js ++ d :: rest)))) sk) =
      .ok (.warning, .real v, G ((j0 :: js).reverse ++ ((c :: u).reverse ++ l)) (d :: rest) sk) := by
    unfold scalarNodeRead
    simp only [hr, liftOutcome, bind, Except.bind, pure, Except.pure]
    simp [realValue, hnn, valueToAtom]
  simp only [bind, Except.bind, pure, Except.pure, hsn]
  have hcri := cri_seps env.lex hcfg [] (Seps.blanks [] (by simp)) ((j0 :: js).reverse ++ ((c :: u).reverse ++ l)) rest d false sk .warning hd
  simp only [List.nil_append, List.reverse_nil] at hcri
  have hcri' : checkRemainingInput env.lex (some attrDelims) (G ((j0 :: js).reverse ++ ((c :: u).reverse ++ l)) (d :: rest) sk) Sev.warning =
      (G ((j0 :: js).reverse ++ ((c :: u).reverse ++ l)) (d :: rest) sk, Sev.warning) := hcri
  simp only [hcri']
  simp [hcu]

/-- the value of an INTEGER member of a select that starts like an integer but has something behind it (`CNT_T(5X)`,
    `CNT_T(1.5)`; no `,` `)` `;` inside): the integer is stored, WARNING -/
theorem LeafRdS.integer_tok_junk (env : Env F) (m : SelMember) (hm : m.ty = .integer)
    (tok : List Byte) (htok : isInteger tok = true) (hlo : longMin ≤ denoteInteger tok) (hhi : denoteInteger tok < longMax)
    (j0 : Byte) (js : List Byte) (hj0s : isSpace j0 = false) (hj047 : j0 ≠ 47) (hj0d : isDigit j0 = false)
    (hj : ∀ b ∈ j0 :: js, delimAt env.lex attrDelims b = false)
    (hsemi : env.lex.criStopsAtSemicolon = true → ∀ b ∈ j0 :: js, b ≠ 59) :
    LeafRdS env m (tok ++ j0 :: js) (.int (denoteInteger tok)) .warning := by
  obtain ⟨c, u, hcu, hcs, _, _, _⟩ := isInteger_head tok htok
  refine ⟨⟨c, u ++ j0 :: js, by rw [hcu]; rfl, hcs⟩, ?_⟩
  intro l sk rest
  have hr := readInteger_tok_junk env.lex tok htok hlo (Int.le_of_lt hhi) j0 js hj0s hj047 hj0d hj hsemi l sk 41 rest (Or.inr rfl)
  refine ⟨G ((j0 :: js).reverse ++ (tok.reverse ++ l)) (41 :: rest) sk, sk, Or.inl rfl, ?_, ?_⟩
  · unfold selContentRead
    simp only [hm]
    rw [show (if (ElemTy.integer == ElemTy.number) = true then ElemTy.real else ElemTy.integer) = ElemTy.integer from rfl,
      scalarNodeRead_integer]
    have hshape : (tok ++ j0 :: js) ++ 41 :: rest = tok ++ (j0 :: (js ++ 41 :: rest)) := by simp
    rw [hshape, hr]
    have hne : denoteInteger tok ≠ longMax := Int.ne_of_lt hhi
    simp [intValue, valueToAtom, hne]
  · have : (tok ++ j0 :: js).reverse ++ l = (j0 :: js).reverse ++ (tok.reverse ++ l) := by simp
    rw [this]
    exact ws_good0 _ 41 rest sk (by decide)

/-- **a wrong-kind element of an aggregate of REAL** (a string, an enumeration item, a reference, a keyword: anything that
    starts like no real numeral and holds no `,` `)` `;`): the element is unset, WARNING, the loop goes on behind it -/
theorem ElemRdS.real_junk (env : Env F) (hcfg : env.lex.criSkipsComments = true) (hagg : env.cfg.aggrSkipsComments = true)
    (j0 : Byte) (js : List Byte) (hj0s : isSpace j0 = false) (hj047 : j0 ≠ 47) (hj092 : j0 ≠ 92) (hnn : notNum j0)
    (hj : ∀ b ∈ j0 :: js, delimAt env.lex attrDelims b = false)
    (hsemi : env.lex.criStopsAtSemicolon = true → ∀ b ∈ j0 :: js, b ≠ 59)
    (before : List Byte) (hb : Seps before) :
    ElemRdS env .real { tok := j0 :: js, before := before, after := [], v := .atom .unset } .warning := by
  obtain ⟨h44, h41⟩ := junk_head_facts env.lex j0 js hj
  refine ⟨hb, ⟨j0, js, rfl, hj0s, hj047, h41, hj092⟩, ?_⟩
  intro l sk d rest hd
  refine ⟨sk, Or.inl rfl, ?_⟩
  show elemRead env .real (G l (j0 :: js ++ ([] ++ d :: rest)) sk) = _
  simp only [List.nil_append, List.cons_append]
  rw [elemRead_at_tok env hagg _ l j0 _ sk hj0s hj047 h44 h41 hj092, elemReadCore_scalar env .real (Or.inr (Or.inl rfl))]
  have hconv : env.ops.conv (IStream.scanFloat [] []).1 = .invalid := rfl
  have hrr : ∃ e0, (e0 = Sev.null ∨ e0 = Sev.warning) ∧ readReal env.ops env.lex (some attrDelims) (G l (j0 :: (js ++ d :: rest)) sk) .null =
      .ok (none, (checkRemainingInput env.lex (some attrDelims) (G l (j0 :: (js ++ d :: rest)) sk) e0).1,
               (checkRemainingInput env.lex (some attrDelims) (G l (j0 :: (js ++ d :: rest)) sk) e0).2) := by
    refine ⟨Sev.null.warnIf (env.lex.realReportsFail && (env.lex.realFailUnlessBlank || !([] : List Byte).isEmpty)),
      by cases (env.lex.realReportsFail && (env.lex.realFailUnlessBlank || !([] : List Byte).isEmpty))
         · exact Or.inl rfl
         · exact Or.inr rfl, ?_⟩
    simp only [readReal, ws_good0 _ _ _ _ hj0s, IStream.good, Bool.not_false, Bool.and_self, Bool.not_true, Bool.false_eq_true,
      if_false, realCollect_junk j0 _ hnn, List.length_nil, List.reverse_nil, List.nil_append, hconv]
    have : (env.lex.realBuf != 0 && decide (0 ≥ env.lex.realBuf)) = false := by
      cases h : env.lex.realBuf with
      | zero => simp
      | succ n => simp
    simp only [this, Bool.false_eq_true, if_false]
    rfl
  obtain ⟨e0, he0, hrr⟩ := hrr
  have hsn : scalarNodeRead env .real (G l (j0 :: (js ++ d :: rest)) sk) =
      .ok (.warning, .unset, G ((j0 :: js).reverse ++ l) (d :: rest) sk) := by
    unfold scalarNodeRead
    simp only [hrr, liftOutcome, bind, Except.bind, pure, Except.pure]
    rw [cri_junk env.lex j0 js hj0s hj047 hj hsemi l rest d false sk e0 hd]
    rcases he0 with rfl | rfl <;> simp [realValue, valueToAtom] <;> rfl
  simp only [bind, Except.bind, pure, Except.pure, hsn]
  have hcri := cri_seps env.lex hcfg [] (Seps.blanks [] (by simp)) ((j0 :: js).reverse ++ l) rest d false sk .warning hd
  simp only [List.nil_append, List.reverse_nil] at hcri
  have hcri' : checkRemainingInput env.lex (some attrDelims) (G ((j0 :: js).reverse ++ l) (d :: rest) sk) Sev.warning =
      (G ((j0 :: js).reverse ++ l) (d :: rest) sk, Sev.warning) := hcri
  simp only [hcri']
  simp

/-- **a wrong-kind element of an aggregate of STRING** (a number, an enumeration item, a reference, a keyword: anything that
    does not start with an apostrophe and holds no `,` `)` `;`): the element is unset, WARNING, the loop goes on behind it -/
theorem ElemRdS.string_junk (env : Env F) (hagg : env.cfg.aggrSkipsComments = true)
    (j0 : Byte) (js : List Byte) (hj0s : isSpace j0 = false) (hj047 : j0 ≠ 47) (hj092 : j0 ≠ 92) (hj039 : j0 ≠ 39)
    (hj : ∀ b ∈ j0 :: js, delimAt env.lex attrDelims b = false)
    (hsemi : env.lex.criStopsAtSemicolon = true → ∀ b ∈ j0 :: js, b ≠ 59)
    (before : List Byte) (hb : Seps before) :
    ElemRdS env .string { tok := j0 :: js, before := before, after := [], v := .atom .unset } .warning := by
  obtain ⟨h44, h41⟩ := junk_head_facts env.lex j0 js hj
  refine ⟨hb, ⟨j0, js, rfl, hj0s, hj047, h41, hj092⟩, ?_⟩
  intro l sk d rest hd
  refine ⟨sk, Or.inl rfl, ?_⟩
  show elemRead env .string (G l (j0 :: js ++ ([] ++ d :: rest)) sk) = _
  simp only [List.nil_append, List.cons_append]
  rw [elemRead_at_tok env hagg _ l j0 _ sk hj0s hj047 h44 h41 hj092,
    elemReadCore_scalar env .string (Or.inr (Or.inr (Or.inl rfl)))]
  simp only [bind, Except.bind, pure, Except.pure]
  rw [scalarNodeRead_string]
  have e39 : (j0 == 39) = false := by simpa using hj039
  have hsr : stringRead (G l (j0 :: (js ++ d :: rest)) sk) .null = ([], G l (j0 :: (js ++ d :: rest)) sk, .incomplete) := by
    simp only [stringRead, IStream.setSkipws, getLiteralStr, ws_good0 _ _ _ _ hj0s, IStream.good, Bool.not_false, Bool.and_self,
      Bool.not_true, Bool.false_eq_true, if_false, e39, List.isEmpty_nil, if_true]
    rfl
  rw [hsr]
  simp only [List.isEmpty_nil, if_true]
  rw [show checkRemainingInput env.lex (some attrDelims) (G l (j0 :: (js ++ d :: rest)) sk) Sev.incomplete =
    (G ((j0 :: js).reverse ++ l) (d :: rest) sk, Sev.incomplete.greater .warning) from
    cri_junk env.lex j0 js hj0s hj047 hj hsemi l rest d false sk .incomplete hd]
  rfl

end StepModel.P21.RLemmas

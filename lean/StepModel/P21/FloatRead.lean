import StepModel.P21.FloatArith
/-! The text layer of "`%.<p>G` of a double converts back to it" for the executable float model (C09, final proof round).

`Dbl.readsBack (Dbl.fmtG p bits) bits` involves the `%G` layout (scientific / fixed with integer part / fixed `0.000ddd`), the
dropping of trailing zeros and of a bare decimal point, the two-digit exponent, and `parseFloatText`.  All of that is discharged
here: `fmtDigits_parse` computes the decimal that `strtod` is handed, for every layout; what remains
(`Dbl.SigDigitsReadBack`) mentions no text — it is the arithmetic fact that the `p` significant digits computed by
`Dbl.sigDigits`, with any number of trailing zeros removed, are rounded back to the same double by `Dbl.ofDecimal`. -/
namespace StepModel.P21.Lemmas
open StepModel StepModel.IStream StepModel.P21 StepModel.P21.Grammar

theorem digitsVal_acc_zeros (j acc : Nat) : digitsVal (List.replicate j 48) acc = acc * 10 ^ j := by
  induction j generalizing acc with
  | zero => simp [digitsVal]
  | succ j ih =>
    rw [List.replicate_succ]
    simp only [digitsVal]
    rw [ih, Nat.pow_succ]
    simp [Nat.mul_assoc, Nat.mul_comm 10]

/-- a list is its `dropWhile`-from-the-right plus a run of the dropped byte -/
theorem dropTrailingZeros_split (ds : List Byte) :
    ∃ j, ds = Dbl.dropTrailingZeros ds ++ List.replicate j 48 := by
  unfold Dbl.dropTrailingZeros
  have key : ∀ l : List Byte, ∃ j, l = List.replicate j 48 ++ l.dropWhile (· == 48) := by
    intro l
    induction l with
    | nil => exact ⟨0, rfl⟩
    | cons a t ih =>
      by_cases h : a = 48
      · subst h
        obtain ⟨j, hj⟩ := ih
        refine ⟨j + 1, ?_⟩
        simp only [List.dropWhile_cons, beq_self_eq_true, if_true, List.replicate_succ, List.cons_append]
        exact congrArg _ hj
      · refine ⟨0, ?_⟩
        simp [List.dropWhile_cons, h]
  obtain ⟨j, hj⟩ := key ds.reverse
  refine ⟨j, ?_⟩
  have := congrArg List.reverse hj
  simpa using this

/-- value of a digit string whose tail had its trailing zeros dropped -/
theorem dropTrailingZeros_val (pre ds : List Byte) :
    ∃ k, digitsVal (pre ++ ds) 0 = digitsVal (pre ++ Dbl.dropTrailingZeros ds) 0 * 10 ^ k ∧
      ds.length = (Dbl.dropTrailingZeros ds).length + k := by
  obtain ⟨j, hj⟩ := dropTrailingZeros_split ds
  refine ⟨j, ?_, ?_⟩
  · conv => lhs; rw [hj]
    rw [← List.append_assoc, digitsVal_append, digitsVal_acc_zeros]
  · conv => lhs; rw [hj]
    simp

/-- the shape printed by `%G`, parsed: sign, integer digits, fraction digits (point printed only when there are any), exponent -/
theorem parse_gshape (sg ip fp : List Byte) (ex : Option (List Byte × List Byte))
    (hsg : sg = [] ∨ sg = [45]) (hip1 : ip ≠ []) (hip : ip.all isDigit = true) (hfp : fp.all isDigit = true) (hex : ExWF ex) :
    parseFloatText (sg ++ (ip ++ ((if fp.isEmpty then [] else 46 :: fp) ++ exText 69 ex))) =
      some ⟨sg == [45], digitsVal (ip ++ fp) 0, exVal ex - (fp.length : Int)⟩ := by
  have hsg' : IsSign sg := by rcases hsg with rfl | rfl <;> simp [IsSign]
  cases fp with
  | nil =>
    have := parse_dotless sg ip 69 ex hsg' hip1 hip (Or.inl rfl) hex
    simpa using this
  | cons a t =>
    have := parse_realText sg ip (a :: t) 69 ex hsg' hip1 hip hfp (Or.inl rfl) hex
    simpa [realText] using this

/-- the exponent `%G` prints: sign and at least two digits; its value is `x` -/
theorem gexp_val (x : Int) :
    ∃ ed : List Byte, ((let exd : List Byte := (Nat.toDigits 10 x.natAbs).map Char.toNat
                        if exd.length < 2 then 48 :: exd else exd) = ed) ∧
      ExWF (some ([if x < 0 then (45 : Byte) else 43], ed)) ∧ exVal (some ([if x < 0 then (45 : Byte) else 43], ed)) = x := by
  obtain ⟨e3, e2, e1⟩ := toDigits_spec x.natAbs
  refine ⟨_, rfl, ?_, ?_⟩
  · refine ⟨?_, ?_, ?_⟩
    · split <;> simp [IsSign]
    · simp only []; split
      · simp
      · exact e1
    · simp only []; split
      · simp [e2, isDigit]
      · exact e2
  · have hv : digitsVal (let exd : List Byte := (Nat.toDigits 10 x.natAbs).map Char.toNat
                        if exd.length < 2 then 48 :: exd else exd) 0 = x.natAbs := by
      simp only []; split
      · simpa [digitsVal] using e3
      · exact e3
    simp only [exVal, hv]
    by_cases hx : x < 0
    · simp [hx]; omega
    · simp [hx]; omega

/-- **the decimal that `strtod` is handed**: `%.<p>G`'s layout of the digit string `ds` (exactly `p` digits) of a number
    `d.ddd… · 10^x` parses to sign, `M`, `E` with `M · 10^k = ds` as a number and `E = x - (p - 1) + k` — the same decimal with
    `k` trailing zeros removed — in each of the three layouts -/
theorem fmtDigits_parse (p : Nat) (sg ds : List Byte) (x : Int) (hsg : sg = [] ∨ sg = [45]) (hlen : ds.length = p) (hp : 1 ≤ p)
    (hds : ds.all isDigit = true) :
    ∃ M k : Nat, parseFloatText (Dbl.fmtDigits p sg ds x) = some ⟨sg == [45], M, x - ((p : Int) - 1) + (k : Int)⟩ ∧
      digitsVal ds 0 = M * 10 ^ k := by
  have hne : ds ≠ [] := by
    intro h; rw [h] at hlen; simp at hlen; omega
  unfold Dbl.fmtDigits
  split
  · -- scientific style
    obtain ⟨ed, hed, hwf, hval⟩ := gexp_val x
    obtain ⟨k, hk1, hk2⟩ := dropTrailingZeros_val (ds.take 1) (ds.drop 1)
    rw [List.take_append_drop] at hk1
    have hfp := digits_dropWhile_rev _ (digits_drop ds 1 hds)
    have hpar := parse_gshape sg (ds.take 1) (Dbl.dropTrailingZeros (ds.drop 1)) (some ([if x < 0 then 45 else 43], ed)) hsg
      (take_succ_ne_nil ds 0 hne) (digits_take ds 1 hds) hfp hwf
    refine ⟨_, k, ?_, hk1⟩
    simp only [] at hed
    simp only [hed]
    have e : sg ++ List.take 1 ds ++ (if (Dbl.dropTrailingZeros (List.drop 1 ds)).isEmpty = true then []
          else 46 :: Dbl.dropTrailingZeros (List.drop 1 ds)) ++ [69] ++ [if x < 0 then 45 else 43] ++ ed =
        sg ++ (List.take 1 ds ++ ((if (Dbl.dropTrailingZeros (List.drop 1 ds)).isEmpty = true then []
          else 46 :: Dbl.dropTrailingZeros (List.drop 1 ds)) ++ exText 69 (some ([if x < 0 then 45 else 43], ed)))) := by
      simp [exText, List.append_assoc]
    rw [e, hpar, hval]
    have : (ds.drop 1).length = p - 1 := by simp [hlen]
    rw [this] at hk2
    congr 2
    omega
  · rename_i hsci
    have hsci' : ¬ x < -4 ∧ x < (p : Int) := by
      simp only [Bool.or_eq_true, decide_eq_true_eq, not_or] at hsci
      omega
    split
    · -- fixed style, x ≥ 0
      rename_i hx0
      obtain ⟨k, hk1, hk2⟩ := dropTrailingZeros_val (ds.take (x.toNat + 1)) (ds.drop (x.toNat + 1))
      rw [List.take_append_drop] at hk1
      have hfp := digits_dropWhile_rev _ (digits_drop ds (x.toNat + 1) hds)
      have hpar := parse_gshape sg (ds.take (x.toNat + 1)) (Dbl.dropTrailingZeros (ds.drop (x.toNat + 1))) none hsg
        (take_succ_ne_nil ds _ hne) (digits_take ds _ hds) hfp trivial
      refine ⟨_, k, ?_, hk1⟩
      have e : sg ++ List.take (x.toNat + 1) ds ++ (if (Dbl.dropTrailingZeros (List.drop (x.toNat + 1) ds)).isEmpty = true then []
            else 46 :: Dbl.dropTrailingZeros (List.drop (x.toNat + 1) ds)) =
          sg ++ (List.take (x.toNat + 1) ds ++ ((if (Dbl.dropTrailingZeros (List.drop (x.toNat + 1) ds)).isEmpty = true then []
            else 46 :: Dbl.dropTrailingZeros (List.drop (x.toNat + 1) ds)) ++ exText 69 none)) := by
        simp [exText, List.append_assoc]
      rw [e, hpar]
      have : (ds.drop (x.toNat + 1)).length = p - (x.toNat + 1) := by simp [hlen]
      rw [this] at hk2
      simp only [exVal]
      congr 2
      omega
    · -- fixed style, -4 ≤ x < 0
      rename_i hx0
      obtain ⟨k, hk1, hk2⟩ := dropTrailingZeros_val [48] (List.replicate ((-x).toNat - 1) 48 ++ ds)
      have hz : digitsVal ([48] ++ (List.replicate ((-x).toNat - 1) 48 ++ ds)) 0 = digitsVal ds 0 := by
        rw [← List.append_assoc]
        exact digitsVal_zeros _ ds (by simp)
      rw [hz] at hk1
      have hall : (List.replicate ((-x).toNat - 1) 48 ++ ds).all isDigit = true := by
        rw [List.all_append]; simp [hds, isDigit]
      have hfp := digits_dropWhile_rev _ hall
      have hpar := parse_gshape sg [48] (Dbl.dropTrailingZeros (List.replicate ((-x).toNat - 1) 48 ++ ds)) none hsg
        (by simp) (by decide) hfp trivial
      -- the fraction is not empty: `ds` has a digit... it may consist of zeros only; treat both cases through `parse_gshape`
      refine ⟨_, k, ?_, hk1⟩
      by_cases hemp : (Dbl.dropTrailingZeros (List.replicate ((-x).toNat - 1) 48 ++ ds)).isEmpty = true
      · -- all zeros: the model prints `0.` — the text `sg ++ [48, 46]`
        have hnil : Dbl.dropTrailingZeros (List.replicate ((-x).toNat - 1) 48 ++ ds) = [] := by
          simpa using hemp
        rw [hnil] at hk2 ⊢
        have hp2 : parseFloatText (sg ++ [48, 46] ++ []) = some ⟨sg == [45], digitsVal ([48] ++ []) 0, 0 - 0⟩ := by
          have hsg' : IsSign sg := by rcases hsg with rfl | rfl <;> simp [IsSign]
          have := parse_realText sg [48] [] 69 none hsg' (by simp) (by decide) (by rfl) (Or.inl rfl) trivial
          simpa [realText, exText, exVal] using this
        rw [hp2]
        simp only [List.length_append, List.length_replicate, List.length_nil] at hk2
        congr 2
        omega
      · have e : sg ++ [48, 46] ++ Dbl.dropTrailingZeros (List.replicate ((-x).toNat - 1) 48 ++ ds) =
            sg ++ ([48] ++ ((if (Dbl.dropTrailingZeros (List.replicate ((-x).toNat - 1) 48 ++ ds)).isEmpty = true then []
              else 46 :: Dbl.dropTrailingZeros (List.replicate ((-x).toNat - 1) 48 ++ ds)) ++ exText 69 none)) := by
          simp [exText, hemp, List.append_assoc]
        rw [e, hpar]
        simp only [List.length_append, List.length_replicate] at hk2
        simp only [exVal]
        congr 2
        omega

/-- significand and binary exponent of a finite bit pattern, as `Dbl.fmtG` takes them -/
def mantOf (bits : Nat) : Nat := if (bits / Dbl.pow2 52 % 2048 == 0) = true then bits % Dbl.pow2 52 else bits % Dbl.pow2 52 + Dbl.pow2 52
def expOf (bits : Nat) : Int := if (bits / Dbl.pow2 52 % 2048 == 0) = true then -1074 else ((bits / Dbl.pow2 52 % 2048 : Nat) : Int) - 1075
/-- the `p` significant digits and the decimal exponent `Dbl.fmtFinite` computes for `m · 2^e2` -/
def finSig (p m : Nat) (e2 : Int) : Nat × Int :=
  Dbl.sigDigits p (if e2 ≥ 0 then m * Dbl.pow2 e2.toNat else m) (if e2 ≥ 0 then 1 else Dbl.pow2 (-e2).toNat)

theorem fmtFinite_parse (p : Nat) (hp : 1 ≤ p) (sg : List Byte) (hsg : sg = [] ∨ sg = [45]) (m : Nat) (e2 : Int)
    (hlen : (Nat.toDigits 10 (finSig p m e2).1).length = p) :
    ∃ M k : Nat, parseFloatText (Dbl.fmtFinite p sg m e2) = some ⟨sg == [45], M, (finSig p m e2).2 - ((p : Int) - 1) + (k : Int)⟩ ∧
      (finSig p m e2).1 = M * 10 ^ k := by
  obtain ⟨e3, e2', _⟩ := toDigits_spec (finSig p m e2).1
  obtain ⟨M, k, h1, h2⟩ := fmtDigits_parse p sg ((Nat.toDigits 10 (finSig p m e2).1).map Char.toNat) (finSig p m e2).2 hsg
    (by simpa using hlen) hp e2'
  refine ⟨M, k, ?_, ?_⟩
  · exact h1
  · rw [← h2, e3]

/-- **What is left of "`%.<p>G` converts back" once the text is gone** — an arithmetic statement about `Dbl.sigDigits` and
    `Dbl.ofDecimal` only: for the significand `m` and binary exponent `e2` of the (finite, non-zero) double `bits`, the `p`
    significant digits `q · 10^(x-p+1)` that `sigDigits` computes for `m · 2^e2` (a `p`-digit number: `sigDigits_digits`), with any number `k`
    of trailing zeros removed (`q = M · 10^k`) the decimal `M · 10^(x-p+1+k)` is rounded back to `bits` by `ofDecimal`.
    For `p = 17` this is the classical "17 significant digits determine a binary64" (10^16 > 2^53) stated for the model's own
    `ofRatio`. -/
def SigDigitsReadBack (p : Nat) (bits : Nat) : Prop :=
  ∀ M k : Nat, (finSig p (mantOf bits) (expOf bits)).1 = M * 10 ^ k →
    Dbl.ofDecimal ⟨bits / Dbl.signBit % 2 == 1, M, (finSig p (mantOf bits) (expOf bits)).2 - ((p : Int) - 1) + (k : Int)⟩ = some bits

/-- `%.<p>G` of a finite double converts back to it — every layout, trailing zeros, exponent and `strtod`'s lexical stage
    discharged; the hypothesis left is the text-free `SigDigitsReadBack` (needed for non-zero values only) -/
theorem dbl_fmtG_readsBack (p : Nat) (hp : 1 ≤ p) (bits : Nat) (hlt : bits < 2 ^ 64)
    (hfin : (bits / Dbl.pow2 52 % 2048 == 2047) = false)
    (harith : (bits / Dbl.pow2 52 % 2048 == 0 && bits % Dbl.pow2 52 == 0) = false → SigDigitsReadBack p bits) :
    Dbl.readsBack (Dbl.fmtG p bits) bits = true := by
  have hsg : ∀ (q : Prop) [Decidable q], ((if q then [45] else []) : List Byte) = [] ∨ ((if q then [45] else []) : List Byte) = [45] := by
    intro q _; by_cases h : q <;> simp [h]
  have hsgb : ∀ (q : Bool), (((if q = true then [45] else []) : List Byte) == [45]) = q := by
    intro q; cases q <;> simp
  unfold Dbl.readsBack Dbl.fmtG
  simp only [hfin, Bool.false_eq_true, if_false]
  by_cases hz : (bits / Dbl.pow2 52 % 2048 == 0 && bits % Dbl.pow2 52 == 0) = true
  · -- ±0
    simp only [hz, if_true]
    have hpar := parse_gshape (if (bits / Dbl.signBit % 2 == 1) = true then [45] else []) [48] [] none (hsg _) (by simp) (by decide) rfl trivial
    simp only [List.isEmpty_nil, if_true, exText, List.append_nil, exVal, List.length_nil] at hpar
    rw [hpar]
    simp only [Bool.and_eq_true, beq_iff_eq] at hz
    simp only [Dbl.pow2, Dbl.signBit] at hz ⊢
    simp only [Dbl.ofDecimal, hsgb, digitsVal]
    have : bits = if (bits / 2 ^ 63 % 2 == 1) = true then 2 ^ 63 else 0 := by
      by_cases h1 : bits / 2 ^ 63 % 2 = 1
      · simp [h1]; omega
      · simp [h1]; omega
    simp only [beq_iff_eq] at this ⊢
    simp
    exact this.symm
  · have hz' : (bits / Dbl.pow2 52 % 2048 == 0 && bits % Dbl.pow2 52 == 0) = false := by simpa using hz
    have hrb := harith hz'
    have hlen : (Nat.toDigits 10 (finSig p (mantOf bits) (expOf bits)).1).length = p := by
      have hm : 0 < mantOf bits := by
        unfold mantOf
        have hp52 : 0 < Dbl.pow2 52 := Nat.pow_pos (by decide)
        split
        · rename_i hbe
          simp only [hbe, Bool.true_and] at hz'
          have : bits % Dbl.pow2 52 ≠ 0 := by simpa using hz'
          omega
        · omega
      unfold finSig
      apply sigDigits_digits p _ _ hp
      · split
        · exact Nat.mul_pos hm (Nat.pow_pos (by decide))
        · exact hm
      · split
        · decide
        · exact Nat.pow_pos (by decide)
    simp only [hz', Bool.false_eq_true, if_false]
    obtain ⟨M, k, h1, h2⟩ := fmtFinite_parse p hp (if (bits / Dbl.signBit % 2 == 1) = true then [45] else []) (hsg _)
      (mantOf bits) (expOf bits) hlen
    have h3 := hrb M k h2
    simp only [mantOf, expOf] at h1 h3
    rw [h1]
    rw [hsgb]
    show (Dbl.ofDecimal _ == some bits) = true
    rw [h3]
    exact beq_self_eq_true _

end StepModel.P21.Lemmas

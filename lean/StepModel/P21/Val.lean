/-!
Populations as the Part 21 reader/writer sees them, with attribute *values* abstract:
a literal is an opaque token (`tok`) that the literal readers accept (their behaviour is property C09's subject);
what is explicit is everything C14–C16 talk about: instance ids, references at every depth, aggregates, typed
select values, complex (externally mapped) parts.

`Val` is deliberately *not* a nested inductive (aggregate elements are a `nil`/`cons` chain inside `aggr`), so that
plain structural `induction` works in the proof files.
-/
namespace StepModel.P21

/-- how a value is reached from its attribute, where the value itself does not show it: through a SELECT-typed attribute
    or aggregate element (`SDAI_Select::STEPread`), or through a redeclared position (forwarded to the redefining attribute) -/
inductive Path where
  | select | redecl
  | nested      -- a typed select value handed on to a member that is itself a select (type name already read)
  deriving DecidableEq, Repr, Inhabited

inductive Val where
  | null                          -- `$` (or nothing)
  | derived                       -- `*`
  | tok (s : String)              -- opaque literal token (integer, real, string, enumeration, binary, …)
  | ref (id : Int)                -- `#id`
  | typed (name : String) (v : Val)   -- select value `NAME(v)`
  | aggr (elems : Val)            -- `( … )`, elems is a `nil`/`cons` chain
  | nil
  | cons (hd tl : Val)
  | via (p : Path) (v : Val)      -- `v`, read through `p` (not visible in the file text)
  deriving DecidableEq, Repr, Inhabited

namespace Val

/-- apply `f` to every reference at every depth -/
def mapRefs (f : Int → Int) : Val → Val
  | null => null
  | derived => derived
  | tok s => tok s
  | ref i => ref (f i)
  | typed n v => typed n (mapRefs f v)
  | aggr e => aggr (mapRefs f e)
  | nil => nil
  | cons h t => cons (mapRefs f h) (mapRefs f t)
  | via p v => via p (mapRefs f v)

/-- every reference, at every depth, left to right -/
def refs : Val → List Int
  | null => []
  | derived => []
  | tok _ => []
  | ref i => [i]
  | typed _ v => refs v
  | aggr e => refs e
  | nil => []
  | cons h t => refs h ++ refs t
  | via _ v => refs v

def ofList : List Val → Val
  | [] => nil
  | v :: vs => cons v (ofList vs)

end Val

/-- one entity part: `NAME(v₁,…,vₙ)` -/
structure Part where
  name : String
  vals : List Val
  deriving DecidableEq, Repr, Inhabited

/-- `#id = NAME(...)` (one part) or `#id = (A(...)B(...)…)` (complex, parts in the writer's order) -/
structure Inst where
  id : Int
  parts : List Part
  /-- the Part 21 comment(s) in front of the instance (`SDAI_Application_instance::P21Comment`), opaque text; "" = none -/
  comment : String := ""
  deriving DecidableEq, Repr, Inhabited

namespace Inst
def mapRefs (f : Int → Int) (i : Inst) : Inst :=
  { i with parts := i.parts.map (fun p => { p with vals := p.vals.map (Val.mapRefs f) }) }
def refs (i : Inst) : List Int := i.parts.flatMap (fun p => p.vals.flatMap Val.refs)
/-- what `shift k` means in C14: the id and every reference at every depth moved by `k` -/
def shift (k : Int) (i : Inst) : Inst := { (i.mapRefs (· + k)) with id := i.id + k }
end Inst

/-! ### word encoding of the line protocol (vlib/p21_gen.py `encode_inst`) -/

def hexDigit (n : Nat) : Char := if n < 10 then Char.ofNat (48 + n) else Char.ofNat (87 + n)
def hexOf (s : String) : String :=
  if s.isEmpty then "-" else
  String.ofList (s.toList.flatMap (fun c => [hexDigit (c.toNat / 16 % 16), hexDigit (c.toNat % 16)]))
def unhexDigit (c : Char) : Option Nat :=
  if '0' ≤ c ∧ c ≤ '9' then some (c.toNat - 48) else if 'a' ≤ c ∧ c ≤ 'f' then some (c.toNat - 87) else none
def unhexList : List Char → Option (List Char)
  | [] => some []
  | [_] => none
  | a :: b :: r => do
    let x ← unhexDigit a; let y ← unhexDigit b; let rest ← unhexList r
    pure (Char.ofNat (x * 16 + y) :: rest)
def unhex (s : String) : Option String :=
  if s = "-" then some "" else (unhexList s.toList).map String.ofList

def chainLen : Val → Nat
  | .cons _ t => chainLen t + 1
  | _ => 0

/-- `nil`/`cons` chains only occur directly inside `aggr`; there they encode as the concatenation of the elements -/
def encodeVal : Val → List String
  | .null => ["N"] | .derived => ["D"]
  | .tok s => ["T" ++ hexOf s]
  | .ref i => ["R" ++ toString i]
  | .typed n v => ("S" ++ hexOf n) :: encodeVal v
  | .aggr e => ("A" ++ toString (chainLen e)) :: encodeVal e
  | .nil => []
  | .cons h t => encodeVal h ++ encodeVal t
  | .via .select v => "Vs" :: encodeVal v
  | .via .redecl v => "Vr" :: encodeVal v
  | .via .nested v => "Vn" :: encodeVal v

def encodeInst (i : Inst) : String :=
  " ".intercalate ((if i.comment.isEmpty then [] else ["K" ++ hexOf i.comment]) ++ ["I", toString i.id, toString i.parts.length] ++
    i.parts.flatMap (fun p => [p.name, toString p.vals.length] ++ p.vals.flatMap encodeVal))

/-- parse one value from a word list (fuel = number of words) -/
def decodeVal : Nat → List String → Option (Val × List String)
  | 0, _ => none
  | _ + 1, [] => none
  | fuel + 1, w :: ws =>
    if w = "N" then some (.null, ws) else if w = "D" then some (.derived, ws)
    else if w = "Vs" then (decodeVal fuel ws).map (fun (v, r) => (.via .select v, r))
    else if w = "Vr" then (decodeVal fuel ws).map (fun (v, r) => (.via .redecl v, r))
    else if w = "Vn" then (decodeVal fuel ws).map (fun (v, r) => (.via .nested v, r)) else
    match w.toList with
    | 'T' :: r => (unhex (String.ofList r)).map (fun s => (.tok s, ws))
    | 'R' :: r => (String.ofList r).toInt?.map (fun i => (.ref i, ws))
    | 'S' :: r => do
      let n ← unhex (String.ofList r)
      let (v, rest) ← decodeVal fuel ws
      pure (.typed n v, rest)
    | 'A' :: r => do
      let n ← (String.ofList r).toNat?
      let rec many (fuel : Nat) : Nat → List String → Option (List Val × List String)
        | 0, ws => some ([], ws)
        | k + 1, ws => do
          let (v, rest) ← decodeVal fuel ws
          let (vs, rest') ← many fuel k rest
          pure (v :: vs, rest')
      let (vs, rest) ← many fuel n ws
      pure (.aggr (Val.ofList vs), rest)
    | _ => none

def decodeVals (fuel : Nat) : Nat → List String → Option (List Val × List String)
  | 0, ws => some ([], ws)
  | k + 1, ws => do
    let (v, rest) ← decodeVal fuel ws
    let (vs, rest') ← decodeVals fuel k rest
    pure (v :: vs, rest')

def decodeParts (fuel : Nat) : Nat → List String → Option (List Part × List String)
  | 0, ws => some ([], ws)
  | k + 1, nm :: n :: ws => do
    let n ← n.toNat?
    let (vs, rest) ← decodeVals fuel n ws
    let (ps, rest') ← decodeParts fuel k rest
    pure ({ name := nm, vals := vs } :: ps, rest')
  | _ + 1, _ => none

def decodeInstCore (cm : String) (ws : List String) : Option (Inst × List String) :=
  match ws with
  | "I" :: id :: np :: rest => do
    let id ← id.toInt?
    let np ← np.toNat?
    let (ps, rest') ← decodeParts (rest.length + 1) np rest
    pure ({ id := id, parts := ps, comment := cm }, rest')
  | _ => none

/-- `[K<hex comment>] I <id> <nparts> (<NAME> <nvals> value*)*` -/
def decodeInst (ws : List String) : Option (Inst × List String) :=
  match ws with
  | w :: rest =>
    match w.toList with
    | 'K' :: r => do
      let cm ← unhex (String.ofList r)
      decodeInstCore cm rest
    | _ => decodeInstCore "" ws
  | [] => none

end StepModel.P21

import StepModel.P21.RawAggrLemmas
/-! Nested aggregates with string literals inside the groups (C09, proof-only stretch): `RawS` extends `Raw` by literals of the
full string grammar (`StringBody`), which `PushPastImbedAggr` steps over with `GetLiteralStr` — parentheses, commas and
semicolons *inside* a literal do not count.  Additions only: `Raw` and its theorems stay as they are. -/
namespace StepModel.P21.AggrLemmas
open StepModel StepModel.IStream StepModel.P21 StepModel.P21.Lemmas StepModel.P21.Grammar StepModel.P21.RLemmas

/-- `GetLiteralStr` on a literal of the string grammar followed by something that is no apostrophe (stated here to keep the file
    independent of the later reader lemma files) -/
theorem getLiteralStr_lit (b : List Byte) (hb : StringBody b) (l : List Byte) (sk : Bool) (c : Byte) (u : List Byte) (hc : c ≠ 39)
    (e : P21.Sev) :
    getLiteralStr (G l (39 :: (b ++ 39 :: c :: u)) sk) e =
      (39 :: (b ++ [39]), G (39 :: (b.reverse ++ 39 :: l)) (c :: u) sk, e) := by
  obtain ⟨e1, e2⟩ := litLoop_body b hb [39] (39 :: c :: u) rfl
  have hll : litLoop [39] true (b ++ 39 :: c :: u) = (39 :: (b.reverse ++ [39]), c :: u, false, false) := by
    rw [e1, litLoop_quote, e2]
    simp only [Bool.false_eq_true, if_false, Bool.not_true]
    have : (c == 39) = false := by simpa using hc
    simp [litLoop, this]
  simp only [getLiteralStr, ws_good0 _ _ _ _ (show isSpace 39 = false from by decide),
    IStream.good, Bool.not_false, Bool.and_self, Bool.not_true, beq_self_eq_true, if_true, hll, Bool.false_eq_true, if_false]
  simp

/-- what stands between a `(` and its `)`: plain bytes, nested balanced groups, and string literals of the grammar (not directly
    followed by another apostrophe) -/
inductive RawS : List Byte → Prop
  | nil : RawS []
  | plain (c : Byte) (t : List Byte) : plainByte c → RawS t → RawS (c :: t)
  | nest (u t : List Byte) : RawS u → RawS t → RawS (40 :: (u ++ 41 :: t))
  | str (b t : List Byte) : StringBody b → t.head? ≠ some 39 → RawS t → RawS (39 :: (b ++ 39 :: t))

theorem Raw.toRawS {u : List Byte} (h : Raw u) : RawS u := by
  induction h with
  | nil => exact .nil
  | plain c t hc _ ih => exact .plain c t hc ih
  | nest u t _ _ ih1 ih2 => exact .nest u t ih1 ih2

theorem snoc_split_ne (t : List Byte) (rest : List Byte) (h : t.head? ≠ some 39) :
    ∃ c r, t ++ 41 :: rest = c :: r ∧ c ≠ 39 := by
  cases t with
  | nil => exact ⟨41, rest, rfl, by decide⟩
  | cons a t' => exact ⟨a, t' ++ 41 :: rest, rfl, by intro e; apply h; simp [e]⟩

theorem bodyS_raw (u : List Byte) (hu : RawS u) :
    ∀ (stop : Bool) (fuel f : Nat) (acc l0 rest : List Byte) (sk : Bool) (err : P21.Sev) (c : Byte) (r : List Byte),
      u.length + 1 ≤ fuel → u.length + 1 ≤ f → u ++ 41 :: rest = c :: r →
      pushPastAggr.body stop fuel f acc c (G (c :: l0) r sk) err =
        (pure (acc ++ u ++ [41], G (41 :: (u.reverse ++ l0)) rest sk, err) : M _) := by
  induction hu with
  | nil =>
    intro stop fuel f acc l0 rest sk err c r hfu hf hw
    simp only [List.nil_append, List.cons.injEq] at hw
    obtain ⟨rfl, rfl⟩ := hw
    obtain ⟨f', rfl⟩ : ∃ f', f = f' + 1 := ⟨f - 1, by simp at hf; omega⟩
    rw [pushPastAggr.body]
    simp [IStream.good]
  | plain c0 t hc ht ih =>
    intro stop fuel f acc l0 rest sk err c r hfu hf hw
    simp only [List.cons_append, List.cons.injEq] at hw
    obtain ⟨rfl, rfl⟩ := hw
    obtain ⟨f', rfl⟩ : ∃ f', f = f' + 1 := ⟨f - 1, by simp at hf; omega⟩
    obtain ⟨h40, h41, h39, h59⟩ := hc
    obtain ⟨c', r', hcr⟩ := snoc_split t 41 rest
    rw [pushPastAggr.body]
    have e41 : (c0 != 41) = true := by simp [h41]
    have e40 : (c0 == 40) = false := by simp [h40]
    have e39 : (c0 == 39) = false := by simp [h39]
    have e59 : (c0 == 59) = false := by simp [h59]
    simp only [IStream.good, Bool.not_false, Bool.and_self, e41, if_true, e40, Bool.false_eq_true, if_false, e39, e59, Bool.and_false]
    rw [hcr, show getInto c0 (G (c0 :: l0) (c' :: r') sk) = (c', G (c' :: c0 :: l0) r' sk) from getInto_good c0 _ c' r' sk]
    simp only
    have := ih stop fuel f' (acc ++ [c0]) (c0 :: l0) rest sk err c' r' (by simp at hfu; omega) (by simp at hf; omega) hcr
    rw [this]
    simp
  | nest ui t hui ht ihu iht =>
    intro stop fuel f acc l0 rest sk err c r hfu hf hw
    simp only [List.cons_append, List.cons.injEq] at hw
    obtain ⟨rfl, rfl⟩ := hw
    obtain ⟨f', rfl⟩ : ∃ f', f = f' + 1 := ⟨f - 1, by simp at hf; omega⟩
    obtain ⟨fuel', rfl⟩ : ∃ g, fuel = g + 1 := ⟨fuel - 1, by simp at hfu; omega⟩
    have hlen : (40 :: (ui ++ 41 :: t)).length = ui.length + t.length + 2 := by simp; omega
    rw [hlen] at hfu hf
    have hr : (ui ++ 41 :: t) ++ 41 :: rest = ui ++ 41 :: (t ++ 41 :: rest) := by simp
    obtain ⟨c1, r1, hc1⟩ := snoc_split ui 41 (t ++ 41 :: rest)
    obtain ⟨c', r', hcr⟩ := snoc_split t 41 rest
    rw [pushPastAggr.body]
    simp only [IStream.good, Bool.not_false, Bool.and_self, show ((40 : Byte) != 41) = true by decide, if_true,
      beq_self_eq_true]
    rw [show (G (40 :: l0) (ui ++ 41 :: t ++ 41 :: rest) sk).putback 40 = G l0 (40 :: (ui ++ 41 :: t ++ 41 :: rest)) sk from
      putback_good 40 l0 _ sk]
    rw [pushPastAggr]
    rw [show (G l0 (40 :: (ui ++ 41 :: t ++ 41 :: rest)) sk).ws = G l0 (40 :: (ui ++ 41 :: t ++ 41 :: rest)) sk from
      ws_good0 l0 40 _ sk (by decide)]
    rw [show getInto 0 (G l0 (40 :: (ui ++ 41 :: t ++ 41 :: rest)) sk) = (40, G (40 :: l0) (ui ++ 41 :: t ++ 41 :: rest) sk) from
      getInto_good 0 l0 40 _ sk]
    simp only [beq_self_eq_true, IStream.failed, Bool.or_self, Bool.not_false, Bool.and_self, if_true]
    rw [hr, hc1, show getInto 40 (G (40 :: l0) (c1 :: r1) sk) = (c1, G (c1 :: 40 :: l0) r1 sk) from getInto_good 40 _ c1 r1 sk]
    simp only
    have hr1 : r1.length + 1 = ui.length + 1 + (t.length + 1 + rest.length) := by
      have := congrArg List.length hc1
      simp at this; omega
    have h1 := ihu stop fuel' (r1.length + 3) [40] (40 :: l0) (t ++ 41 :: rest) sk err c1 r1 (by omega) (by omega) hc1
    rw [h1]
    simp only [bind, Except.bind, pure, Except.pure]
    rw [hcr, show getInto 40 (G (41 :: (ui.reverse ++ 40 :: l0)) (c' :: r') sk) = (c', G (c' :: 41 :: (ui.reverse ++ 40 :: l0)) r' sk) from
      getInto_good 40 _ c' r' sk]
    simp only
    have h2 := iht stop (fuel' + 1) f' (acc ++ ([40] ++ ui ++ [41])) (41 :: (ui.reverse ++ 40 :: l0)) rest sk err c' r'
      (by omega) (by omega) hcr
    simp only [pure, Except.pure] at h2
    rw [h2]
    simp
  | str b t hb h39 ht iht =>
    intro stop fuel f acc l0 rest sk err c r hfu hf hw
    simp only [List.cons_append, List.cons.injEq] at hw
    obtain ⟨rfl, rfl⟩ := hw
    obtain ⟨f', rfl⟩ : ∃ f', f = f' + 1 := ⟨f - 1, by simp at hf; omega⟩
    have hlen : (39 :: (b ++ 39 :: t)).length = b.length + t.length + 2 := by simp; omega
    rw [hlen] at hfu hf
    obtain ⟨c', r', hcr, hc39⟩ := snoc_split_ne t rest h39
    have hr : (b ++ 39 :: t) ++ 41 :: rest = b ++ 39 :: c' :: r' := by simp [hcr]
    rw [pushPastAggr.body]
    simp only [IStream.good, Bool.not_false, Bool.and_self, show ((39 : Byte) != 41) = true by decide, if_true,
      show ((39 : Byte) == 40) = false by decide, Bool.false_eq_true, if_false, beq_self_eq_true]
    rw [hr, show (G (39 :: l0) (b ++ 39 :: c' :: r') sk).putback 39 = G l0 (39 :: (b ++ 39 :: c' :: r')) sk from
      putback_good 39 l0 _ sk]
    rw [getLiteralStr_lit b hb l0 sk c' r' hc39 err]
    simp only
    rw [show getInto 39 (G (39 :: (b.reverse ++ 39 :: l0)) (c' :: r') sk) = (c', G (c' :: 39 :: (b.reverse ++ 39 :: l0)) r' sk) from
      getInto_good 39 _ c' r' sk]
    simp only
    have h2 := iht stop fuel f' (acc ++ (39 :: (b ++ [39]))) (39 :: (b.reverse ++ 39 :: l0)) rest sk err c' r'
      (by omega) (by omega) hcr
    rw [h2]
    simp

/-- `PushPastImbedAggr` on `( u )`, `u` a `RawS` text: the group is copied verbatim, the stream rests behind its `)` -/
theorem pushPastAggr_rawS (u : List Byte) (hu : RawS u) (stop : Bool) (fuel : Nat) (l0 rest : List Byte) (sk : Bool) (err : P21.Sev)
    (hf : u.length + 2 ≤ fuel) :
    pushPastAggr stop fuel (G l0 (40 :: (u ++ 41 :: rest)) sk) err =
      (pure (40 :: (u ++ [41]), G (41 :: (u.reverse ++ 40 :: l0)) rest sk, err) : M _) := by
  obtain ⟨fuel', rfl⟩ : ∃ g, fuel = g + 1 := ⟨fuel - 1, by omega⟩
  obtain ⟨c1, r1, hc1⟩ := snoc_split u 41 rest
  rw [pushPastAggr]
  rw [show (G l0 (40 :: (u ++ 41 :: rest)) sk).ws = G l0 (40 :: (u ++ 41 :: rest)) sk from ws_good0 l0 40 _ sk (by decide)]
  rw [show getInto 0 (G l0 (40 :: (u ++ 41 :: rest)) sk) = (40, G (40 :: l0) (u ++ 41 :: rest) sk) from getInto_good 0 l0 40 _ sk]
  simp only [beq_self_eq_true, IStream.failed, Bool.or_self, Bool.not_false, Bool.and_self, if_true]
  rw [hc1, show getInto 40 (G (40 :: l0) (c1 :: r1) sk) = (c1, G (c1 :: 40 :: l0) r1 sk) from getInto_good 40 _ c1 r1 sk]
  simp only
  have hr1 : r1.length + 1 = u.length + 1 + rest.length := by
    have := congrArg List.length hc1
    simp at this; omega
  have h1 := bodyS_raw u hu stop fuel' (r1.length + 3) [40] (40 :: l0) rest sk err c1 r1 (by omega) (by omega) hc1
  rw [h1]
  simp

/-- **nested aggregates, accept**: `SCLundefined::STEPread` on `( u )` followed by a delimiter — `u` any `RawS` text, nested to any
    depth — stores exactly the text `( u )`, reports nothing, and leaves the stream at the delimiter -/
theorem undefRead_rawS (lex : LexCfg) (stop : Bool) (u : List Byte) (hu : RawS u) (l0 rest : List Byte) (d : Byte) (sk : Bool)
    (hd : d = 44 ∨ d = 41) :
    undefRead lex stop (G l0 (40 :: (u ++ 41 :: d :: rest)) sk) =
      (pure (40 :: (u ++ [41]), G (41 :: (u.reverse ++ 40 :: l0)) (d :: rest) sk, P21.Sev.null) : M _) := by
  unfold undefRead
  rw [show (G l0 (40 :: (u ++ 41 :: d :: rest)) sk).ws = G l0 (40 :: (u ++ 41 :: d :: rest)) sk from ws_good0 l0 40 _ sk (by decide)]
  simp only [bind, Except.bind, pure, Except.pure]
  rw [shiftInto_good 0 l0 40 _ sk (by decide)]
  simp only [show ((40 : Byte) == 36) = false by decide, Bool.false_eq_true, if_false]
  rw [show (G (40 :: l0) (u ++ 41 :: d :: rest) sk).putback 40 = G l0 (40 :: (u ++ 41 :: d :: rest)) sk from putback_good 40 l0 _ sk]
  simp only
  -- the loop: the group, then the delimiter
  rw [undefLoop]
  rw [show getInto 0 (G l0 (40 :: (u ++ 41 :: d :: rest)) sk) = (40, G (40 :: l0) (u ++ 41 :: d :: rest) sk) from getInto_good 0 l0 40 _ sk]
  simp only [IStream.good, Bool.not_false, Bool.and_self, Bool.not_true, Bool.false_eq_true, if_false, beq_self_eq_true, if_true]
  rw [show (G (40 :: l0) (u ++ 41 :: d :: rest) sk).putback 40 = G l0 (40 :: (u ++ 41 :: d :: rest)) sk from putback_good 40 l0 _ sk]
  have hp := pushPastAggr_rawS u hu stop ((u ++ 41 :: d :: rest).length + 3) l0 (d :: rest) sk P21.Sev.null (by simp; omega)
  rw [hp]
  simp only [bind, Except.bind, pure, Except.pure, IStream.good, Bool.not_false, Bool.and_self, Bool.not_true, Bool.false_eq_true, if_false]
  rw [undefLoop]
  rw [show getInto 0 (G (41 :: (u.reverse ++ 40 :: l0)) (d :: rest) sk) = (d, G (d :: 41 :: (u.reverse ++ 40 :: l0)) rest sk) from
    getInto_good 0 _ d rest sk]
  have hd40 : (d == 40) = false := by rcases hd with rfl | rfl <;> decide
  have hd39 : (d == 39) = false := by rcases hd with rfl | rfl <;> decide
  have hdd : (d == 44 || d == 41) = true := by rcases hd with rfl | rfl <;> decide
  simp only [IStream.good, Bool.not_false, Bool.and_self, Bool.not_true, Bool.false_eq_true, if_false, hd40, hd39, hdd, if_true]
  rw [show (G (d :: 41 :: (u.reverse ++ 40 :: l0)) rest sk).putback d = G (41 :: (u.reverse ++ 40 :: l0)) (d :: rest) sk from
    putback_good d _ rest sk]
  rfl

/-- an element of an aggregate of aggregates: the group `( u )`, `u` a `RawS` text, standing directly in front of its delimiter
    (the raw-text reader would append anything else to the text), behind any layout of blanks and comments -/
theorem ElemReads.genericS {F} (env : Env F) (hagg : env.cfg.aggrSkipsComments = true) (u before : List Byte) (hu : RawS u)
    (hb : Seps before) :
    ElemReads env .generic id ⟨40 :: (u ++ [41]), before, [], (.atom (.undef (40 :: (u ++ [41]))) : Elem F)⟩ := by
  refine ⟨hb, ⟨40, u ++ [41], rfl, by decide, by decide, by decide, by decide, by decide⟩, ?_⟩
  intro l sk d rest hd
  have hin : (40 :: (u ++ [41])) ++ ([] ++ d :: rest) = 40 :: (u ++ 41 :: d :: rest) := by simp
  simp only [hin]
  unfold elemRead
  simp only [hagg, if_true, rts_none l 40 (u ++ 41 :: d :: rest) sk (by decide) (by decide) (by decide),
    elemMissing_none env.cfg l 40 (u ++ 41 :: d :: rest) sk (by decide) (by decide), bind, Except.bind]
  unfold elemReadCore
  simp only [bind, Except.bind]
  rw [undefRead_rawS env.lex env.cfg.rawValueStaysInRecord u hu l rest d sk hd]
  simp only [pure, Except.pure]
  have hdd : isDelim attrDelims d = true := by rcases hd with rfl | rfl <;> decide
  have hds : isSpace d = false := by rcases hd with rfl | rfl <;> decide
  have hcri := cri_delim env.lex (41 :: (u.reverse ++ 40 :: l)) [] rest d false sk P21.Sev.null (by simp) hdd hds
  simp only [List.nil_append, List.reverse_nil] at hcri
  rw [hcri]
  simp

end StepModel.P21.AggrLemmas
